/-
Abstract torsion model for C02: E[2^k] ≅ (ZMod 2^k)², points = pairs of coordinates with respect to a basis,
integer matrices act on the basis. `testOrderTwoF t P` is `test_point_order_twof(P, E, t)` of ec.h on the abstract
group: P ≠ 0, [2^(t-1)]P ≠ 0, [2^t]P = 0.
-/
import Mathlib.Data.ZMod.Basic
import Mathlib.Algebra.Ring.Int.Parity
import Mathlib.Tactic.Ring

set_option autoImplicit false

namespace SqiProofs.Torsion

/-- the 2^k-torsion of an elliptic curve as an abstract group -/
abbrev Tors (k : ℕ) := ZMod (2 ^ k) × ZMod (2 ^ k)

/-- the point [a]e₁ + [c]e₂ for a basis (e₁, e₂) of E[2^k] -/
def pt (k : ℕ) (a c : ℤ) : Tors k := ((a : ZMod (2 ^ k)), (c : ZMod (2 ^ k)))

/-- `test_point_order_twof(P, E, t)`: exact order 2^t -/
def testOrderTwoF {G : Type*} [AddCommGroup G] (t : ℕ) (P : G) : Prop :=
  P ≠ 0 ∧ (2 ^ (t - 1)) • P ≠ 0 ∧ (2 ^ t) • P = 0

theorem half_order_zero_iff (k : ℕ) (hk : 1 ≤ k) (a : ℤ) :
    (((2 : ℤ) ^ (k - 1) * a : ℤ) : ZMod (2 ^ k)) = 0 ↔ Even a := by
  rw [ZMod.intCast_zmod_eq_zero_iff_dvd]
  obtain ⟨j, rfl⟩ : ∃ j, k = j + 1 := ⟨k - 1, by omega⟩
  simp only [Nat.add_sub_cancel]
  push_cast
  rw [pow_succ, mul_comm ((2:ℤ)^j) 2, mul_comm 2 ((2:ℤ)^j), mul_dvd_mul_iff_left (pow_ne_zero j (by norm_num)),
    even_iff_two_dvd]

theorem smul_pt (k n : ℕ) (a c : ℤ) : n • pt k a c = pt k (n * a) (n * c) := by
  simp only [pt, Prod.smul_mk, nsmul_eq_mul]
  push_cast
  rfl

theorem pt_eq_zero_iff (k : ℕ) (a c : ℤ) : pt k a c = 0 ↔ ((a : ZMod (2 ^ k)) = 0 ∧ (c : ZMod (2 ^ k)) = 0) := by
  simp only [pt, Prod.mk_eq_zero]

theorem pt_sub (k : ℕ) (a c b d : ℤ) : pt k a c - pt k b d = pt k (a - b) (c - d) := by
  simp only [pt, Prod.mk_sub_mk]
  push_cast
  rfl

theorem full_smul_zero (k : ℕ) (a c : ℤ) : (2 ^ k) • pt k a c = 0 := by
  rw [smul_pt, pt_eq_zero_iff]
  constructor <;>
  · rw [ZMod.intCast_zmod_eq_zero_iff_dvd]
    push_cast
    exact Dvd.intro _ rfl

/-- a point of E[2^k] has exact order 2^k iff one of its coordinates is odd -/
theorem testOrder_pt_iff (k : ℕ) (hk : 1 ≤ k) (a c : ℤ) : testOrderTwoF k (pt k a c) ↔ (Odd a ∨ Odd c) := by
  unfold testOrderTwoF
  have hhalf : (2 ^ (k - 1)) • pt k a c = 0 ↔ (Even a ∧ Even c) := by
    rw [smul_pt, pt_eq_zero_iff]
    have h1 := half_order_zero_iff k hk a
    have h2 := half_order_zero_iff k hk c
    push_cast at h1 h2 ⊢
    rw [h1, h2]
  constructor
  · rintro ⟨_, h, _⟩
    rw [Ne, hhalf, not_and_or, Int.not_even_iff_odd, Int.not_even_iff_odd] at h
    exact h
  · intro h
    have hne : (2 ^ (k - 1)) • pt k a c ≠ 0 := by
      rw [Ne, hhalf, not_and_or, Int.not_even_iff_odd, Int.not_even_iff_odd]; exact h
    refine ⟨?_, hne, full_smul_zero k a c⟩
    intro h0
    apply hne
    rw [h0, smul_zero]

/-- the multiple [2^k]P of a point of E[2^(k+t)] has exact order 2^t iff P has an odd coordinate -/
theorem testOrder_smul_pt_iff (k t : ℕ) (ht : 1 ≤ t) (a c : ℤ) :
    testOrderTwoF t ((2 ^ k) • pt (k + t) a c) ↔ (Odd a ∨ Odd c) := by
  have key := testOrder_pt_iff (k + t) (by omega) a c
  unfold testOrderTwoF at key ⊢
  have e1 : (2 ^ (t - 1)) • ((2 ^ k) • pt (k + t) a c) = (2 ^ (k + t - 1)) • pt (k + t) a c := by
    rw [smul_smul, ← pow_add]
    congr 2
    omega
  have e2 : (2 ^ t) • ((2 ^ k) • pt (k + t) a c) = (2 ^ (k + t)) • pt (k + t) a c := by
    rw [smul_smul, ← pow_add]
    congr 2
    omega
  rw [e1, e2]
  constructor
  · rintro ⟨_, h, h'⟩
    refine key.1 ⟨?_, h, h'⟩
    intro h0
    apply h
    rw [h0, smul_zero]
  · intro h
    obtain ⟨_, h1, h2⟩ := key.2 h
    refine ⟨?_, h1, h2⟩
    intro h0
    apply h1
    have : (2 ^ (k + t - 1)) • pt (k + t) a c = (2 ^ (t - 1)) • ((2 ^ k) • pt (k + t) a c) := e1.symm
    rw [this, h0, smul_zero]

theorem parity_core (a b c d : ℤ) :
    (Odd a ∨ Odd c) ∧ (Odd b ∨ Odd d) ∧ (Odd (a - b) ∨ Odd (c - d)) ↔ Odd (a * d - b * c) := by
  simp only [← Int.not_even_iff_odd, Int.even_sub, Int.even_mul]
  by_cases ha : Even a <;> by_cases hb : Even b <;> by_cases hc : Even c <;> by_cases hd : Even d <;>
    simp [ha, hb, hc, hd]

end SqiProofs.Torsion

/-
Lemmas for C03: the verifier body of both variants is in bounds for every in-range input, for every level
whose constants/tables satisfy the decidable well-formedness predicates `wfDim2` / `wfHeur`
(instantiated for the three generated levels by kernel evaluation in SqiProps/C03.lean).
Core-only (no Mathlib needed).
-/
import SqiModel.VerifyAccess
import SqiProofs.C17.Conv

set_option autoImplicit false

namespace SqiModel.Verify
set_option linter.unusedSimpArgs false

theorem bitsize_le_iff (z : Int) (hz : 0 ≤ z) (k : Nat) (hk : 1 ≤ k) : bitsize z ≤ k ↔ z < (2 : Int) ^ k := by
  unfold bitsize
  by_cases h0 : z = 0
  · subst h0
    simp only [if_true]
    constructor
    · intro _; exact Int.pow_pos (by decide)
    · intro _; exact hk
  · simp only [h0, if_false]
    have hn : z.natAbs ≠ 0 := by omega
    have hcast : z = (z.natAbs : Int) := by omega
    rw [show (Nat.log2 z.natAbs + 1 ≤ k) ↔ (Nat.log2 z.natAbs < k) from by omega, Nat.log2_lt hn]
    constructor
    · intro h
      rw [hcast]
      exact_mod_cast h
    · intro h
      rw [hcast] at h
      exact_mod_cast h

/-- the range predicate used in `sigInRange…` is the interval `0 ≤ z < 2^k` -/
theorem inU_iff (z : Int) (k : Nat) (hk : 1 ≤ k) : inU z k = true ↔ 0 ≤ z ∧ z < (2 : Int) ^ k := by
  unfold inU
  simp only [Bool.and_eq_true, decide_eq_true_eq]
  constructor
  · rintro ⟨h0, hb⟩
    exact ⟨h0, (bitsize_le_iff z h0 k hk).1 (by omega)⟩
  · rintro ⟨h0, hb⟩
    exact ⟨h0, by have := (bitsize_le_iff z h0 k hk).2 hb; omega⟩

theorem bitsize_pos (z : Int) : 1 ≤ bitsize z := by
  unfold bitsize; split <;> omega

/-- `ibz_to_digit_array` into `w` words does not overflow when the value has at most 64·w bits
    (limb count of the C17 model, `SqiProofs.C17.limbsAux_length_le`) -/
theorem wordsWritten_le (z : Int) (w : Nat) (hw : 1 ≤ w) (hb : bitsize z ≤ 64 * w) : wordsWritten z ≤ w := by
  unfold wordsWritten
  split
  · simpa using hw
  · rename_i h0
    unfold SqiModel.Intbig.limbs
    apply SqiProofs.C17.limbsAux_length_le
    have hn : z.natAbs ≠ 0 := by omega
    unfold bitsize at hb
    simp only [h0, if_false] at hb
    exact (Nat.log2_lt hn).1 (by omega)

/-- the `digits` access agrees with the C17 model: in bounds iff `ibzToDigitArray` is not `ub` -/
theorem digits_ok_iff (what : String) (z : Int) (cap : Nat) :
    (Access.digits what (wordsWritten z) cap).ok = true ↔ SqiModel.Intbig.ibzToDigitArray cap z ≠ .ub := by
  unfold Access.ok wordsWritten SqiModel.Intbig.ibzToDigitArray
  simp only [decide_eq_true_eq]
  constructor
  · intro h; simp [h]
  · intro h
    by_cases hh : (if z = 0 then [0] else SqiModel.Intbig.limbs z.natAbs).length ≤ cap
    · exact hh
    · simp [hh] at h

theorem allOk_append (l1 l2 : List Access) : allOk (l1 ++ l2) = (allOk l1 && allOk l2) := by
  simp [allOk, List.all_append]

theorem allOk_nil : allOk [] = true := rfl

theorem allOk_cons (a : Access) (l : List Access) : allOk (a :: l) = (a.ok && allOk l) := by
  simp [allOk]

theorem allOk_mem {l : List Access} (h : allOk l = true) {a : Access} (ha : a ∈ l) : a.ok = true := by
  unfold allOk at h
  exact (List.all_eq_true.1 h) a ha

theorem allOk_ite (c : Prop) [Decidable c] (l1 l2 : List Access) (h1 : c → allOk l1 = true) (h2 : ¬c → allOk l2 = true) :
    allOk (if c then l1 else l2) = true := by
  split
  · exact h1 ‹_›
  · exact h2 ‹_›

/-! ## pieces -/

theorem hintAcc_ok (K : Lvl) (lo : Bool) (thr : Nat) (what : String) (h : Int) (h0 : 0 ≤ h) (hn : thr ≤ K.nqr) :
    allOk (hintAcc K lo thr what h) = true := by
  unfold hintAcc
  split
  · simp only [allOk_cons, allOk_nil, Access.ok, Bool.and_true, Bool.and_eq_true, decide_eq_true_eq]
    omega
  · rfl

theorem fromHint_ok (K : Lvl) (tag : String) (fArg h0 h1 : Int) (hh0 : 0 ≤ h0) (hh1 : 0 ≤ h1)
    (hn : K.hintThrP ≤ K.nqr ∧ K.hintThrQ ≤ K.nqr)
    (hf : 0 ≤ fArg) : allOk (fromHint K tag fArg h0 h1) = true := by
  unfold fromHint
  rw [allOk_append, allOk_append, hintAcc_ok K _ _ _ h0 hh0 hn.1, hintAcc_ok K _ _ _ h1 hh1 hn.2]
  simp only [allOk_cons, allOk_nil, Access.ok, Bool.and_true, Bool.true_and, decide_eq_true_eq]
  omega

theorem dblIter_ok (K : Lvl) (tag : String) (n : Int) (h : n ≤ K.f) : allOk (dblIter K tag n) = true := by
  simp only [dblIter, allOk_cons, allOk_nil, Access.ok, Bool.and_true, decide_eq_true_eq]
  exact h

theorem matApp_ok (K : Lvl) (tag : String) (fArg : Int) (h0 : 0 ≤ fArg) (h1 : fArg ≤ 64 * K.nwField) (hr : K.radix = 64)
    (h31 : fArg < 2 ^ 31) : allOk (matApp K tag fArg) = true := by
  simp only [matApp, allOk_cons, allOk_nil, Access.ok, Bool.and_true, Bool.and_eq_true, decide_eq_true_eq, hr,
    Int.natCast_mul]
  refine ⟨⟨by omega, by omega⟩, ⟨h0, by omega⟩, by omega⟩

/-! ## the two strategy-driven routines (traversals by a3's theorems, passed in as hypotheses) -/

/-- facts about `ec_eval_even` a level must provide: the extracted guard sends only table lengths to the strategy routine
    (`SqiProps.C09.guard_false_in_range`) and the routine's model is fault-free there (`SqiProps.C09.even_chain_of_rows`) -/
structure EvenFacts (K : Lvl) : Prop where
  gd : ∀ len, K.evenNaive len K.f K.rows4 = false → len ≤ K.f ∧ K.f - len < K.rows4
  ev : ∀ len, len ≤ K.f → K.f - len < K.rows4 → (SqiModel.EvenChain.evalEven K.strat4 K.f len).err = none

/-- facts about the (2,2)-chain: every row the callers can select drives the loop model without fault, both modes
    (`SqiProps.C12.theta_chain_of_rows`) -/
structure ThetaFacts (K : Lvl) : Prop where
  th : ∀ (n idx : Nat) (ea : Bool), idx < K.rows2 → K.f - idx = n - (if ea then 0 else 2) → 2 ≤ n - (if ea then 0 else 2) →
    (SqiModel.ThetaChain.chain { row := K.strat2.getD idx [], n := n, eightAbove := ea }).err = none

theorem evalP_vla_pos (P : SqiModel.EvenChain.Params) (h : (SqiModel.EvenChain.evalP P).err = none) : 1 ≤ P.vla := by
  unfold SqiModel.EvenChain.evalP at h
  by_cases hv : P.vla = 0
  · simp [hv, SqiModel.EvenChain.St.fail] at h
  · omega

theorem tri_le (x f : Nat) (h : x ≤ f) : x * (x - 1) / 2 ≤ f * f :=
  Nat.le_trans (Nat.div_le_self _ _) (Nat.mul_le_mul h (Nat.le_trans (Nat.sub_le _ _) h))

theorem lenU16_of_range (x : Int) (h0 : 0 ≤ x) (h1 : x < 65536) : (lenU16 x : Int) = x := by
  unfold lenU16
  omega

theorem evalEven_ok (K : Lvl) (E : EvenFacts K) (tag : String) (isogLen : Int) (h0 : 0 ≤ isogLen) (h1 : isogLen ≤ K.f)
    (hf : K.f < 65536) : allOk (evalEven K tag isogLen) = true ∧ allOk (evalEvenTrav K tag isogLen) = true := by
  have hl := lenU16_of_range isogLen h0 (by omega)
  have hlf : lenU16 isogLen ≤ K.f := by omega
  by_cases hg : K.evenNaive (lenU16 isogLen) K.f K.rows4 = true
  · simp only [evalEven, evalEvenTrav, hg, if_true, allOk_append, allOk_cons, allOk_nil, Access.ok, Bool.and_true, Bool.and_eq_true,
      decide_eq_true_eq]
    refine ⟨⟨by omega, ?_, ?_⟩, trivial⟩
    · exact_mod_cast hlf
    · exact_mod_cast tri_le _ _ hlf
  · have hg' : K.evenNaive (lenU16 isogLen) K.f K.rows4 = false := by simpa using hg
    obtain ⟨ha, hb⟩ := E.gd _ hg'
    have herr := E.ev _ ha hb
    have hv := evalP_vla_pos _ herr
    simp only [evalEven, evalEvenTrav, hg', Bool.false_eq_true, if_false, herr, allOk_append, allOk_cons, allOk_nil, Access.ok,
      Bool.and_true, Bool.and_eq_true, decide_eq_true_eq]
    refine ⟨⟨by omega, ?_, ?_, ?_⟩, trivial⟩
    · exact_mod_cast hv
    · simp only [SqiModel.EvenChain.mkParams, Lvl.rows4]
      unfold Lvl.rows4 at hb
      omega
    · simp only [SqiModel.EvenChain.Params.eHalf, SqiModel.EvenChain.mkParams]
      have : lenU16 isogLen / 2 ≤ K.f := by omega
      exact_mod_cast this

theorem thetaChain_ok (K : Lvl) (T : ThetaFacts K) (tag : String) (n rowIdx : Int) (adj : Nat) (ha : adj = 0 ∨ adj = 2)
    (hn4 : 4 ≤ n) (hnf : n ≤ K.f) (hr0 : 0 ≤ rowIdx) (hr1 : rowIdx < K.rows2) (hrel : (K.f : Int) - rowIdx = n - adj)
    (hf : K.f < 2 ^ 20) :
    allOk (thetaChain K tag n rowIdx adj) = true ∧ allOk (thetaChainTrav K tag n rowIdx adj) = true := by
  constructor
  · unfold thetaChain
    rcases ha with rfl | rfl
    · simp only [allOk_append, allOk_cons, allOk_nil, Access.ok, Bool.and_true, Bool.and_eq_true, decide_eq_true_eq,
        show ¬ ((0 : Nat) = 2) from by decide, if_false]
      omega
    · simp only [allOk_append, allOk_cons, allOk_nil, Access.ok, Bool.and_true, Bool.and_eq_true, decide_eq_true_eq, if_true]
      omega
  · unfold thetaChainTrav
    have hcond : 0 ≤ rowIdx ∧ rowIdx < K.rows2 ∧ 2 ≤ n := ⟨hr0, hr1, by omega⟩
    simp only [hcond, and_self, if_true]
    have := T.th n.toNat rowIdx.toNat (decide (adj = 0)) (by omega)
      (by rcases ha with rfl | rfl <;> simp <;> omega) (by rcases ha with rfl | rfl <;> simp <;> omega)
    rw [this]
    rfl

/-! ## well-formedness of a level: numeric side conditions (decidable) + the traversal facts -/

def wfCommon (K : Lvl) : Bool :=
  decide (K.radix = 64) && decide (K.hintThrP ≤ K.nqr ∧ K.hintThrQ ≤ K.nqr) && decide (1 ≤ K.nwField) && decide (K.nwField ≤ K.nwOrder) &&
  decide (K.f < 65536) && decide (K.f ≤ 64 * K.nwField) && decide (64 * K.nwField ≤ K.f + 64)

def wfDim2Num (K : Lvl) : Bool :=
  wfCommon K && decide (K.btBound ≤ K.f) && decide (K.respLen + 2 ≤ K.f) && decide (0 ≤ maxTrlDim2 K) &&
  decide (maxTrlDim2 K + 4 ≤ K.respLen)

def wfHeurNum (K : Lvl) : Bool :=
  wfCommon K && decide (K.heurBound ≤ K.f) && decide (K.heurChall ≤ K.f) && decide (0 ≤ maxTrlHeur K) &&
  decide ((K.heurChall : Int) + maxTrlHeur K ≤ K.f) && decide (maxTrlHeur K + 4 ≤ K.heurBound) &&
  decide (K.heurBound + K.heurChall = K.f)

structure WfDim2 (K : Lvl) : Prop where
  num : wfDim2Num K = true
  even : EvenFacts K
  theta : ThetaFacts K

structure WfHeur (K : Lvl) : Prop where
  num : wfHeurNum K = true
  even : EvenFacts K
  theta : ThetaFacts K

/-! ## the two bodies -/

theorem bodyDim2_ok (K : Lvl) (hK : WfDim2 K) (pk : RawPk) (s : RawSig) (hs : sigInRangeDim2 K pk s = true) :
    allOk (bodyDim2 K pk s) = true := by
  obtain ⟨hnum, E, T⟩ := hK
  simp only [wfDim2Num, wfCommon, Bool.and_eq_true, decide_eq_true_eq, and_assoc] at hnum
  obtain ⟨hr, hnqP, hnqQ, hnf1, hnfo, hf16, hf64, hb64, hbtf, hrf, hmt0, hmtr⟩ := hnum
  have hnq := And.intro hnqP hnqQ
  simp only [sigInRangeDim2, pkInRange, inU, Bool.and_eq_true, decide_eq_true_eq, Bool.not_eq_true', and_assoc] at hs
  obtain ⟨_, _, hp0, hp1, _, _, hbt0, hbt1, ht0, ht1, ha0, ha1, hc0, hc1, _, _, hch0, hch1, _⟩ := hs
  unfold maxTrlDim2 at ht1 hmt0 hmtr
  have hEv := evalEven_ok K E "challenge" ((K.f : Int) - s.bt) (by omega) (by omega) hf16
  have hTh := thetaChain_ok K T "chain" ((K.respLen : Int) - s.trl) ((K.f : Int) - ((K.respLen : Int) - s.trl)) 0 (Or.inl rfl)
    (by omega) (by omega) (by omega) (by omega) (by omega) (by omega)
  have hfB : (K.respLen : Int) - s.trl + 2 + s.trl = (K.respLen : Int) + 2 := by omega
  unfold bodyDim2 travDim2 cheapDim2
  simp only [hfB, allOk_append, Bool.and_eq_true, and_assoc]
  refine ⟨?_, ?_, ?_, ?_, hEv.1, ?_, ?_, ?_, ?_, ?_, ?_, ?_, hTh.1, hEv.2, hTh.2⟩
  · exact fromHint_ok K _ _ _ _ hp0 hp1 hnq (by omega)
  · simp only [allOk_cons, allOk_nil, Access.ok, Bool.and_true, Bool.and_eq_true, decide_eq_true_eq]
    refine ⟨?_, ?_, ?_⟩
    · apply wordsWritten_le _ _ (by omega)
      rw [hr, Int.natCast_mul] at hch1
      have : ((bitsize s.chall : Nat) : Int) ≤ ((64 * K.nwOrder : Nat) : Int) := by
        rw [Int.natCast_mul]; exact hch1
      exact_mod_cast this
    · omega
    · omega
  · simp only [ladder3pt, allOk_cons, allOk_nil, Access.ok, Bool.and_true, decide_eq_true_eq]
    omega
  · exact dblIter_ok K _ _ (by omega)
  · simp only [allOk_cons, allOk_nil, Access.ok, Bool.and_true, Bool.and_eq_true, decide_eq_true_eq]
    omega
  · exact fromHint_ok K _ _ _ _ hc0 hc1 hnq (by omega)
  · exact fromHint_ok K _ _ _ _ ha0 ha1 hnq (by omega)
  · exact dblIter_ok K _ _ (by omega)
  · exact matApp_ok K _ _ (by omega) (by omega) hr (by omega)
  · simp only [dblmul3, allOk_cons, allOk_nil, Access.ok, Bool.and_true, decide_eq_true_eq]
    omega
  · apply allOk_ite
    · intro _
      rw [allOk_append, dblIter_ok K _ _ (by omega)]
      simp only [allOk_cons, allOk_nil, Access.ok, Bool.and_true, Bool.true_and, Bool.and_eq_true, decide_eq_true_eq]
      refine ⟨by omega, ?_⟩
      exact_mod_cast tri_le s.trl.toNat K.f (by omega)
    · intro _; rfl

theorem bodyHeur_ok (K : Lvl) (hK : WfHeur K) (pk : RawPk) (s : RawSigH) (hs : sigInRangeHeur K pk s = true) :
    allOk (bodyHeur K pk s) = true := by
  obtain ⟨hnum, E, T⟩ := hK
  simp only [wfHeurNum, wfCommon, Bool.and_eq_true, decide_eq_true_eq, and_assoc] at hnum
  obtain ⟨hr, hnqP, hnqQ, hnf1, hnfo, hf16, hf64, hb64, hbf, hcf, hmt0, hmtc, hmtb, hsum⟩ := hnum
  have hnq := And.intro hnqP hnqQ
  simp only [sigInRangeHeur, pkInRange, inU, Bool.and_eq_true, decide_eq_true_eq, Bool.not_eq_true', and_assoc] at hs
  obtain ⟨_, _, hp0, hp1, _, _, ht0, ht1, ha0, ha1, _⟩ := hs
  unfold maxTrlHeur at ht1 hmt0 hmtc hmtb
  have hEv := evalEven_ok K E "challenge" ((K.heurChall : Int) + s.trl) (by omega) (by omega) hf16
  have hTh := thetaChain_ok K T "chain" ((K.heurBound : Int) - s.trl) ((K.f : Int) - ((K.heurBound : Int) - s.trl) + 2) 2 (Or.inr rfl)
    (by omega) (by omega) (by omega) (by omega) (by omega) (by omega)
  unfold bodyHeur travHeur cheapHeur
  simp only [allOk_append, Bool.and_eq_true, and_assoc]
  refine ⟨?_, ?_, ?_, ?_, ?_, ?_, ?_, hEv.1, ?_, ?_, ?_, ?_, hTh.1, hEv.2, hTh.2⟩
  · simp only [allOk_cons, allOk_nil, Access.ok, Bool.and_true, Bool.and_eq_true, decide_eq_true_eq]
    omega
  · apply allOk_ite
    · intro _
      simp only [allOk_cons, allOk_nil, Access.ok, Bool.and_true, Bool.and_eq_true, decide_eq_true_eq]
      omega
    · intro _; rfl
  · exact fromHint_ok K _ _ _ _ hp0 hp1 hnq (by omega)
  · exact matApp_ok K _ _ (by omega) (by omega) hr (by omega)
  · simp only [dblmul3, allOk_cons, allOk_nil, Access.ok, Bool.and_true, decide_eq_true_eq]
    omega
  · simp only [allOk_cons, allOk_nil, Access.ok, Bool.and_true, Bool.and_eq_true, decide_eq_true_eq]
    omega
  · exact dblIter_ok K _ _ (by omega)
  · exact fromHint_ok K _ _ _ _ ha0 ha1 hnq (by omega)
  · simp only [allOk_cons, allOk_nil, Access.ok, Bool.and_true, Bool.and_eq_true, decide_eq_true_eq]
    omega
  · exact dblIter_ok K _ _ (by omega)
  · simp only [allOk_cons, allOk_nil, Access.ok, Bool.and_true, Bool.and_eq_true, decide_eq_true_eq]
    omega

/-! ## total work: iterations of all modelled loops -/

theorem work_le_cap (a : Access) (h : a.ok = true) : a.work ≤ a.cap := by
  cases a <;> simp [Access.work, Access.cap, Access.ok] at h ⊢
  omega

theorem totalWork_le_cap : ∀ (l : List Access), allOk l = true → totalWork l ≤ totalCap l
  | [], _ => by simp [totalWork, totalCap]
  | a :: l, h => by
    rw [allOk_cons, Bool.and_eq_true] at h
    have := totalWork_le_cap l h.2
    have := work_le_cap a h.1
    simp only [totalWork, totalCap, List.map_cons, List.sum_cons] at *
    omega

theorem totalCap_append (l1 l2 : List Access) : totalCap (l1 ++ l2) = totalCap l1 + totalCap l2 := by
  simp [totalCap, List.map_append, List.sum_append]

theorem totalCap_nil : totalCap [] = 0 := rfl
theorem totalCap_cons (a : Access) (l : List Access) : totalCap (a :: l) = a.cap + totalCap l := by
  simp [totalCap]

theorem totalCap_hintAcc (K : Lvl) (lo : Bool) (thr : Nat) (w : String) (h : Int) : totalCap (hintAcc K lo thr w h) = 0 := by
  unfold hintAcc; split <;> simp [totalCap_cons, totalCap_nil, Access.cap]

theorem totalCap_fromHint (K : Lvl) (t : String) (f h0 h1 : Int) : totalCap (fromHint K t f h0 h1) = K.f := by
  simp [fromHint, totalCap_append, totalCap_hintAcc, totalCap_cons, totalCap_nil, Access.cap]

theorem totalCap_evalEven (K : Lvl) (t : String) (x : Int) : totalCap (evalEven K t x) ≤ K.f + K.f * K.f := by
  simp only [evalEven, totalCap_append]
  split <;> simp [totalCap_cons, totalCap_nil, Access.cap] <;> omega

theorem totalCap_evalEvenTrav (K : Lvl) (t : String) (x : Int) : totalCap (evalEvenTrav K t x) = 0 := by
  simp only [evalEvenTrav]
  split
  · rfl
  · split <;> simp [totalCap_cons, totalCap_nil, Access.cap]

theorem totalCap_thetaChain (K : Lvl) (t : String) (n r : Int) (adj : Nat) : totalCap (thetaChain K t n r adj) = K.f := by
  simp only [thetaChain, totalCap_append]
  split <;> simp [totalCap_cons, totalCap_nil, Access.cap]

theorem totalCap_thetaChainTrav (K : Lvl) (t : String) (n r : Int) (adj : Nat) : totalCap (thetaChainTrav K t n r adj) = 0 := by
  simp only [thetaChainTrav]
  split
  · split <;> simp [totalCap_cons, totalCap_nil, Access.cap]
  · rfl

/-- explicit bound on the iterations of all modelled loops of one verification, as a function of f:
    linear terms (cofactor clearing, doublings, ladder, biscalar multiplications, chain steps) plus the two naive-chain terms -/
def workCap (K : Lvl) : Nat := 10 * K.f + 4 * (K.f + 64) + 2 * (K.f * K.f)

theorem totalCap_bodyDim2 (K : Lvl) (pk : RawPk) (s : RawSig) : totalCap (bodyDim2 K pk s) ≤ workCap K := by
  have h1 := totalCap_evalEven K "challenge" ((K.f : Int) - s.bt)
  simp only [bodyDim2, cheapDim2, travDim2, totalCap_append, totalCap_fromHint, totalCap_evalEvenTrav, totalCap_thetaChain,
    totalCap_thetaChainTrav, workCap]
  split <;> simp only [totalCap_cons, totalCap_nil, totalCap_append, Access.cap, ladder3pt, dblIter, matApp, dblmul3] <;> omega

theorem totalCap_bodyHeur (K : Lvl) (pk : RawPk) (s : RawSigH) : totalCap (bodyHeur K pk s) ≤ workCap K := by
  have h1 := totalCap_evalEven K "challenge" ((K.heurChall : Int) + s.trl)
  simp only [bodyHeur, cheapHeur, travHeur, totalCap_append, totalCap_fromHint, totalCap_evalEvenTrav, totalCap_thetaChain,
    totalCap_thetaChainTrav, workCap]
  split <;> simp only [totalCap_cons, totalCap_nil, totalCap_append, Access.cap, dblIter, matApp, dblmul3] <;> omega

end SqiModel.Verify

/-
Lemmas for C03: the verifier body of both variants is in bounds for every in-range input, for every level
whose constants/tables satisfy the decidable well-formedness predicates `wfDim2` / `wfHeur`
(instantiated for the three generated levels by kernel evaluation in SqiProps/C03.lean).
Core-only (no Mathlib needed).
-/
import SqiModel.VerifyAccess

set_option autoImplicit false

namespace SqiModel.Verify
set_option linter.unusedSimpArgs false

theorem bitsize_le_iff (z : Int) (hz : 0 ≤ z) (k : Nat) (hk : 1 ≤ k) : bitsize z ≤ k ↔ z < (2 : Int) ^ k := by
  unfold bitsize
  by_cases h0 : z = 0
  · subst h0
    simp only [if_true]
    constructor
    · intro _; exact Int.pow_pos (by decide)
    · intro _; exact hk
  · simp only [h0, if_false]
    have hn : z.natAbs ≠ 0 := by omega
    have hcast : z = (z.natAbs : Int) := by omega
    rw [show (Nat.log2 z.natAbs + 1 ≤ k) ↔ (Nat.log2 z.natAbs < k) from by omega, Nat.log2_lt hn]
    constructor
    · intro h
      rw [hcast]
      exact_mod_cast h
    · intro h
      rw [hcast] at h
      exact_mod_cast h

/-- the range predicate used in `sigInRange…` is the interval `0 ≤ z < 2^k` -/
theorem inU_iff (z : Int) (k : Nat) (hk : 1 ≤ k) : inU z k = true ↔ 0 ≤ z ∧ z < (2 : Int) ^ k := by
  unfold inU
  simp only [Bool.and_eq_true, decide_eq_true_eq]
  constructor
  · rintro ⟨h0, hb⟩
    exact ⟨h0, (bitsize_le_iff z h0 k hk).1 (by omega)⟩
  · rintro ⟨h0, hb⟩
    exact ⟨h0, by have := (bitsize_le_iff z h0 k hk).2 hb; omega⟩

theorem bitsize_pos (z : Int) : 1 ≤ bitsize z := by
  unfold bitsize; split <;> omega

theorem wordsWritten_le (z : Int) (w : Nat) (hw : 1 ≤ w) (hb : bitsize z ≤ 64 * w) : wordsWritten z ≤ w := by
  unfold wordsWritten
  split
  · exact hw
  · omega

theorem allOk_append (l1 l2 : List Access) : allOk (l1 ++ l2) = (allOk l1 && allOk l2) := by
  simp [allOk, List.all_append]

theorem allOk_nil : allOk [] = true := rfl

theorem allOk_cons (a : Access) (l : List Access) : allOk (a :: l) = (a.ok && allOk l) := by
  simp [allOk]

theorem allOk_mem {l : List Access} (h : allOk l = true) {a : Access} (ha : a ∈ l) : a.ok = true := by
  unfold allOk at h
  exact (List.all_eq_true.1 h) a ha

theorem allOk_ite (c : Prop) [Decidable c] (l1 l2 : List Access) (h1 : c → allOk l1 = true) (h2 : ¬c → allOk l2 = true) :
    allOk (if c then l1 else l2) = true := by
  split
  · exact h1 ‹_›
  · exact h2 ‹_›

/-! ## pieces -/

theorem hintAcc_ok (K : Lvl) (lo : Bool) (thr : Nat) (what : String) (h : Int) (h0 : 0 ≤ h) (hn : thr ≤ K.nqr) :
    allOk (hintAcc K lo thr what h) = true := by
  unfold hintAcc
  split
  · simp only [allOk_cons, allOk_nil, Access.ok, Bool.and_true, Bool.and_eq_true, decide_eq_true_eq]
    omega
  · rfl

theorem fromHint_ok (K : Lvl) (tag : String) (fArg h0 h1 : Int) (hh0 : 0 ≤ h0) (hh1 : 0 ≤ h1)
    (hn : K.hintThrP ≤ K.nqr ∧ K.hintThrQ ≤ K.nqr)
    (hf : 0 ≤ fArg) : allOk (fromHint K tag fArg h0 h1) = true := by
  unfold fromHint
  rw [allOk_append, allOk_append, hintAcc_ok K _ _ _ h0 hh0 hn.1, hintAcc_ok K _ _ _ h1 hh1 hn.2]
  simp only [allOk_cons, allOk_nil, Access.ok, Bool.and_true, Bool.true_and, decide_eq_true_eq]
  omega

theorem dblIter_ok (K : Lvl) (tag : String) (n : Int) (h : n ≤ K.f) : allOk (dblIter K tag n) = true := by
  simp only [dblIter, allOk_cons, allOk_nil, Access.ok, Bool.and_true, decide_eq_true_eq]
  exact h

theorem matApp_ok (K : Lvl) (tag : String) (fArg : Int) (h0 : 0 ≤ fArg) (h1 : fArg ≤ 64 * K.nwField) (hr : K.radix = 64)
    (h31 : fArg < 2 ^ 31) : allOk (matApp K tag fArg) = true := by
  simp only [matApp, allOk_cons, allOk_nil, Access.ok, Bool.and_true, Bool.and_eq_true, decide_eq_true_eq, hr,
    Int.natCast_mul]
  refine ⟨⟨by omega, by omega⟩, ⟨h0, by omega⟩, by omega⟩

/-! ## well-formedness of a level (decidable; evaluated by the kernel on the generated tables) -/

def wfCommon (K : Lvl) : Bool :=
  decide (K.radix = 64) && decide (K.hintThrP ≤ K.nqr ∧ K.hintThrQ ≤ K.nqr) && decide (1 ≤ K.nwField) && decide (K.nwField ≤ K.nwOrder) &&
  decide (K.f < 2 ^ 20) && decide (K.f ≤ 64 * K.nwField)

/-- dim2, numeric side conditions -/
def wfDim2Num (K : Lvl) : Bool :=
  wfCommon K && decide (K.btBound ≤ K.f) && decide (K.respLen + 2 ≤ K.f) && decide (0 ≤ maxTrlDim2 K) &&
  decide (maxTrlDim2 K ≤ K.respLen)
/-- dim2: every backtracking value the guard admits drives `ec_eval_even_strategy` inside its arrays -/
def wfDim2Ev (K : Lvl) : Bool :=
  (List.range K.btBound).all (fun b => allOk (evalEven K "challenge" ((K.f : Int) - (b : Nat))))
/-- dim2: every admitted two_resp_length drives the (2,2)-chain inside its arrays -/
def wfDim2Th (K : Lvl) : Bool :=
  (List.range ((maxTrlDim2 K).toNat + 1)).all (fun t =>
    allOk (thetaChain K "chain" ((K.respLen : Int) - (t : Nat)) ((K.f : Int) - ((K.respLen : Int) - (t : Nat))) 0))
def wfDim2 (K : Lvl) : Bool := wfDim2Num K && wfDim2Ev K && wfDim2Th K

def wfHeurNum (K : Lvl) : Bool :=
  wfCommon K && decide (K.heurBound ≤ K.f) && decide (K.heurChall ≤ K.f) && decide (0 ≤ maxTrlHeur K) &&
  decide ((K.heurChall : Int) + maxTrlHeur K ≤ K.f) && decide (maxTrlHeur K ≤ K.heurBound)
def wfHeurEv (K : Lvl) : Bool :=
  (List.range ((maxTrlHeur K).toNat + 1)).all (fun t => allOk (evalEven K "challenge" ((K.heurChall : Int) + (t : Nat))))
def wfHeurTh (K : Lvl) : Bool :=
  (List.range ((maxTrlHeur K).toNat + 1)).all (fun t =>
    allOk (thetaChain K "chain" ((K.heurBound : Int) - (t : Nat)) ((K.f : Int) - ((K.heurBound : Int) - (t : Nat)) + 2) 2))
def wfHeur (K : Lvl) : Bool := wfHeurNum K && wfHeurEv K && wfHeurTh K

theorem range_all {p : Nat → Bool} {n : Nat} (h : (List.range n).all p = true) {i : Nat} (hi : i < n) : p i = true :=
  (List.all_eq_true.1 h) i (List.mem_range.2 hi)

/-! ## the two bodies -/

theorem bodyDim2_ok (K : Lvl) (hK : wfDim2 K = true) (pk : RawPk) (s : RawSig) (hs : sigInRangeDim2 K pk s = true) :
    allOk (bodyDim2 K pk s) = true := by
  simp only [wfDim2, wfDim2Num, wfDim2Ev, wfDim2Th, wfCommon, Bool.and_eq_true, decide_eq_true_eq, and_assoc] at hK
  obtain ⟨hr, hnqP, hnqQ, hnf1, hnfo, hf20, hf64, hbtf, hrf, hmt0, hmtr, hE, hT⟩ := hK
  have hnq := And.intro hnqP hnqQ
  simp only [sigInRangeDim2, pkInRange, inU, Bool.and_eq_true, decide_eq_true_eq, Bool.not_eq_true', and_assoc] at hs
  obtain ⟨_, _, hp0, hp1, _, _, hbt0, hbt1, ht0, ht1, ha0, ha1, hc0, hc1, _, _, hch0, hch1, _⟩ := hs
  -- the two table-driven traversals, from the kernel-evaluated facts
  have hbtN : s.bt = ((s.bt.toNat : Nat) : Int) := by omega
  have hEv : allOk (evalEven K "challenge" ((K.f : Int) - s.bt)) = true := by
    have := range_all hE (i := s.bt.toNat) (by omega)
    rw [hbtN]; exact this
  have htN : s.trl = ((s.trl.toNat : Nat) : Int) := by omega
  have hTh : allOk (thetaChain K "chain" ((K.respLen : Int) - s.trl) ((K.f : Int) - ((K.respLen : Int) - s.trl)) 0) = true := by
    have := range_all hT (i := s.trl.toNat) (by omega)
    rw [htN]; exact this
  have hfB : (K.respLen : Int) - s.trl + 2 + s.trl = (K.respLen : Int) + 2 := by omega
  unfold bodyDim2
  simp only [hfB, allOk_append, Bool.and_eq_true, and_assoc]
  refine ⟨?_, ?_, ?_, hEv, ?_, ?_, ?_, ?_, ?_, ?_, hTh⟩
  · exact fromHint_ok K _ _ _ _ hp0 hp1 hnq (by omega)
  · simp only [allOk_cons, allOk_nil, Access.ok, Bool.and_true, Bool.and_eq_true, decide_eq_true_eq]
    refine ⟨?_, ?_, ?_⟩
    · apply wordsWritten_le _ _ (by omega)
      rw [hr, Int.natCast_mul] at hch1
      have : ((bitsize s.chall : Nat) : Int) ≤ ((64 * K.nwOrder : Nat) : Int) := by
        rw [Int.natCast_mul]; exact hch1
      exact_mod_cast this
    · omega
    · omega
  · exact dblIter_ok K _ _ (by omega)
  · simp only [allOk_cons, allOk_nil, Access.ok, Bool.and_true, Bool.and_eq_true, decide_eq_true_eq]
    omega
  · exact fromHint_ok K _ _ _ _ hc0 hc1 hnq (by omega)
  · exact fromHint_ok K _ _ _ _ ha0 ha1 hnq (by omega)
  · exact dblIter_ok K _ _ (by omega)
  · exact matApp_ok K _ _ (by omega) (by omega) hr (by omega)
  · apply allOk_ite
    · intro _
      rw [allOk_append, dblIter_ok K _ _ (by omega)]
      simp only [allOk_cons, allOk_nil, Access.ok, Bool.and_true, Bool.true_and, decide_eq_true_eq]
      omega
    · intro _; rfl

theorem bodyHeur_ok (K : Lvl) (hK : wfHeur K = true) (pk : RawPk) (s : RawSigH) (hs : sigInRangeHeur K pk s = true) :
    allOk (bodyHeur K pk s) = true := by
  simp only [wfHeur, wfHeurNum, wfHeurEv, wfHeurTh, wfCommon, Bool.and_eq_true, decide_eq_true_eq, and_assoc] at hK
  obtain ⟨hr, hnqP, hnqQ, hnf1, hnfo, hf20, hf64, hbf, hcf, hmt0, hmtc, hmtb, hE, hT⟩ := hK
  have hnq := And.intro hnqP hnqQ
  simp only [sigInRangeHeur, pkInRange, inU, Bool.and_eq_true, decide_eq_true_eq, Bool.not_eq_true', and_assoc] at hs
  obtain ⟨_, _, hp0, hp1, _, _, ht0, ht1, ha0, ha1, _⟩ := hs
  have htN : s.trl = ((s.trl.toNat : Nat) : Int) := by omega
  have hEv := range_all hE (i := s.trl.toNat) (by omega)
  have hTh := range_all hT (i := s.trl.toNat) (by omega)
  rw [← htN] at hEv hTh
  unfold bodyHeur
  simp only [allOk_append, Bool.and_eq_true, and_assoc]
  refine ⟨?_, ?_, ?_, ?_, ?_, ?_, hEv, ?_, ?_, ?_, ?_, hTh⟩
  · simp only [allOk_cons, allOk_nil, Access.ok, Bool.and_true, Bool.and_eq_true, decide_eq_true_eq]
    omega
  · apply allOk_ite
    · intro _
      simp only [allOk_cons, allOk_nil, Access.ok, Bool.and_true, Bool.and_eq_true, decide_eq_true_eq]
      omega
    · intro _; rfl
  · exact fromHint_ok K _ _ _ _ hp0 hp1 hnq (by omega)
  · exact matApp_ok K _ _ (by omega) (by omega) hr (by omega)
  · simp only [allOk_cons, allOk_nil, Access.ok, Bool.and_true, Bool.and_eq_true, decide_eq_true_eq]
    omega
  · exact dblIter_ok K _ _ (by omega)
  · exact fromHint_ok K _ _ _ _ ha0 ha1 hnq (by omega)
  · simp only [allOk_cons, allOk_nil, Access.ok, Bool.and_true, Bool.and_eq_true, decide_eq_true_eq]
    omega
  · exact dblIter_ok K _ _ (by omega)
  · simp only [allOk_cons, allOk_nil, Access.ok, Bool.and_true, Bool.and_eq_true, decide_eq_true_eq]
    omega

end SqiModel.Verify

/-
Bridge lemmas for C03 (verifier memory safety): the quantities the C03 access model needs from the two strategy
traversals — the largest array slot and the largest strategy column touched — computed from the C09 / C12 traversal
models, with bounds proved for ALL valid strategies (no per-row simulation):

  * `evenSummary table f len = some (maxCurrent, maxStrategy)`  from `SqiModel.EvenChain.evalEven`
      `evenSummary_of_rows` : table rows pass `rowsValidD` (C09's `L*_STRATEGY4_depth`) ⇒ for every length with a row
        the run has no fault, `maxCurrent < log2_of_e` and `maxStrategy + 2 ≤ max 2 ⌊len/2⌋` (only real strategy entries)
      `evenSummary_of_strat` : the same from `StratD` for an arbitrary row
  * `thetaSummary row n ea = some (maxSlot, maxIndex)`  from `SqiModel.ThetaChain.chain`
      `thetaSummary_of_strat` : valid strategy for L = n − adjusting ≥ 2 leaves ⇒ no fault, `maxSlot < n`,
        `maxIndex + 2 ≤ max 2 L`
      `thetaSummary_of_rows` : the same from C18's `rowsValid` for the callers' row lookup
Core-only (no Mathlib), so these can be imported next to `SqiModel.VerifyAccess`.
-/
import SqiProofs.EvenChain
import SqiProofs.ThetaChain

namespace SqiProofs.VerifyBridge
open SqiModel

def maxOf (l : List Nat) : Nat := l.foldl max 0

theorem foldl_max_lt (B : Nat) : ∀ (l : List Nat) (a : Nat), a < B → (∀ x ∈ l, x < B) → l.foldl max a < B := by
  intro l
  induction l with
  | nil => intro a ha _; simpa using ha
  | cons x l ih =>
    intro a ha h
    simp only [List.foldl_cons]
    apply ih
    · have := h x (by simp); omega
    · intro y hy; exact h y (by simp [hy])

theorem maxOf_lt {B : Nat} {l : List Nat} (hB : 0 < B) (h : ∀ x ∈ l, x < B) : maxOf l < B :=
  foldl_max_lt B l 0 hB h

/-! ### ec_eval_even_strategy -/
section Even
open SqiModel.EvenChain SqiProofs.EvenChain

/-- array slots (`current`) touched by an event -/
def evCur : Ev → Option Nat
  | .push _ c _ => some c.toNat
  | .iso4 _ c _ _ => some c.toNat
  | .fin4 c _ _ => some c.toNat
  | _ => none
/-- strategy columns read by an event -/
def evStrat : Ev → Option Nat
  | .push s _ _ => some s
  | _ => none

/-- (largest `current` used as an index of SPLITTING_POINTS / XDBLs, largest strategy column read); none on a fault -/
def evenSummary (table : List (List Nat)) (f len : Nat) : Option (Nat × Nat) :=
  let s := evalEven table f len
  if s.err.isSome then none else some (maxOf (s.trace.filterMap evCur), maxOf (s.trace.filterMap evStrat))

theorem cur_lt_of_ok {vla sb : Nat} {e : Ev} (h : evOk vla sb e = true) : ∀ c, evCur e = some c → c < vla := by
  intro c hc
  cases e <;> simp [evCur] at hc <;> simp [evOk] at h <;> omega

theorem strat_lt_of_ok {vla sb : Nat} {e : Ev} (h : evOk vla sb e = true) : ∀ c, evStrat e = some c → c < sb := by
  intro c hc
  cases e <;> simp [evStrat] at hc <;> simp [evOk] at h <;> omega

theorem summary_of_trace (tr : List Ev) (vla sb : Nat) (hv : 0 < vla) (h : tr.all (evOk vla sb) = true) :
    maxOf (tr.filterMap evCur) < vla ∧ maxOf (tr.filterMap evStrat) + 1 ≤ max 1 sb := by
  rw [List.all_eq_true] at h
  constructor
  · apply maxOf_lt hv
    intro x hx
    obtain ⟨e, he, hex⟩ := List.mem_filterMap.mp hx
    exact cur_lt_of_ok (h e he) x hex
  · have : maxOf (tr.filterMap evStrat) < max 1 sb := by
      apply maxOf_lt (by omega)
      intro x hx
      obtain ⟨e, he, hex⟩ := List.mem_filterMap.mp hx
      have := strat_lt_of_ok (h e he) x hex
      omega
    omega

/-- every valid, depth-bounded strategy: no fault, `current` stays inside the VLAs, only real strategy entries read -/
theorem evenSummary_of_strat (P : Params) (t pad : List Nat) (hlen : 2 ≤ P.isogLen) (hrow : P.row = t ++ pad)
    (hs : StratD P.vla P.eHalf 0 t) :
    (evalP P).err = none ∧ maxOf ((evalP P).trace.filterMap evCur) < P.vla ∧
    maxOf ((evalP P).trace.filterMap evStrat) + 1 ≤ max 1 (P.eHalf - 1) := by
  obtain ⟨h1, _, h3, _⟩ := evalP_sound P t pad hlen hrow hs
  exact ⟨h1, summary_of_trace _ _ _ hs.idx_lt h3⟩

/-- the real tables: every length with a row -/
theorem evenSummary_of_rows (f : Nat) (table : List (List Nat)) (h : rowsValidD f table = true)
    (len : Nat) (h1 : len ≤ f) (h2 : f - len < table.length) :
    ∃ mc ms, evenSummary table f len = some (mc, ms) ∧ mc < 2 * bitlen (len / 2 % 256) ∧ ms + 1 ≤ max 1 (len / 2 - 1) := by
  obtain ⟨e1, _, e3, _⟩ := evalEven_sound_of_rows f table h len h1 h2
  have hv : 0 < (mkParams table f len).vla := by
    -- the VLA size is positive because the row passed `rowOKD` (StratD … gives 0 < cap)
    unfold rowsValidD at h
    rw [List.all_eq_true] at h
    have hm : (table[f - len], f - len) ∈ table.zipIdx := by
      rw [List.mem_zipIdx_iff_getElem?]; simp [h2]
    have hr := h _ hm
    simp only [rowOKD, Bool.and_eq_true, decide_eq_true_eq] at hr
    have hfi : f - (f - len) = len := by omega
    rw [hfi] at hr
    obtain ⟨t, pad, hs, _, _, _⟩ := checkStratD_sound _ _ _ _ hr.2
    exact hs.idx_lt
  have hs := summary_of_trace _ _ _ hv e3
  refine ⟨_, _, ?_, hs.1, hs.2⟩
  simp [evenSummary, e1]

end Even

/-! ### theta_chain_comput_strategy(_faster_no_eval) -/
section Theta
open SqiModel.ThetaChain SqiProofs.ThetaChain

/-- array slots of points1/2, Q1/2, level touched by an event -/
def tevSlot : SqiModel.ThetaChain.Ev → Option Nat
  | .pts i _ _ => some i
  | .glue k _ => some k.toNat
  | .push _ l _ _ => some l.toNat
  | .step _ k _ _ => some k.toNat
  | _ => none
def tevIdx : SqiModel.ThetaChain.Ev → Option Nat
  | .p1 i _ _ => some i
  | .push i _ _ _ => some i
  | _ => none

/-- (largest slot of the size-n arrays touched, largest strategy index read); none on a fault -/
def thetaSummary (row : List Nat) (n : Nat) (ea : Bool) : Option (Nat × Nat) :=
  let s := chain { row := row, n := n, eightAbove := ea }
  if s.err.isSome then none else some (maxOf (s.trace.filterMap tevSlot), maxOf (s.trace.filterMap tevIdx))

theorem slot_lt_of_ok {n sb : Nat} {e : SqiModel.ThetaChain.Ev} (h : SqiProofs.ThetaChain.evOk n sb e = true) :
    ∀ c, tevSlot e = some c → c < n := by
  intro c hc
  cases e <;> simp [tevSlot] at hc <;> simp [SqiProofs.ThetaChain.evOk] at h <;> omega

theorem idx_lt_of_ok {n sb : Nat} {e : SqiModel.ThetaChain.Ev} (h : SqiProofs.ThetaChain.evOk n sb e = true) :
    ∀ c, tevIdx e = some c → c < sb := by
  intro c hc
  cases e <;> simp [tevIdx] at hc <;> simp [SqiProofs.ThetaChain.evOk] at h <;> omega

/-- every valid strategy, both modes -/
theorem thetaSummary_of_strat (row t pad : List Nat) (n : Nat) (ea : Bool) (hrow : row = t ++ pad)
    (hL : 2 ≤ n - (if ea then 0 else 2)) (hs : Strat (n - (if ea then 0 else 2)) t) :
    ∃ ms mi, thetaSummary row n ea = some (ms, mi) ∧ ms < n ∧ mi + 1 ≤ max 1 (n - (if ea then 0 else 2) - 1) := by
  have hadj : ({ row := row, n := n, eightAbove := ea } : SqiModel.ThetaChain.Params).adj = (if ea then 0 else 2) := by
    cases ea <;> rfl
  obtain ⟨e1, _, e3, _⟩ := chain_sound { row := row, n := n, eightAbove := ea } t pad hrow (by rw [hadj]; exact hL)
    (by rw [hadj]; exact hs)
  rw [hadj] at e3
  rw [List.all_eq_true] at e3
  have e3 : ∀ x ∈ (chain { row := row, n := n, eightAbove := ea }).trace,
      SqiProofs.ThetaChain.evOk n (n - (if ea then 0 else 2) - 1) x = true := e3
  refine ⟨maxOf ((chain { row := row, n := n, eightAbove := ea }).trace.filterMap tevSlot),
    maxOf ((chain { row := row, n := n, eightAbove := ea }).trace.filterMap tevIdx), by simp [thetaSummary, e1], ?_, ?_⟩
  · apply maxOf_lt (by omega)
    intro x hx
    obtain ⟨e, he, hex⟩ := List.mem_filterMap.mp hx
    exact slot_lt_of_ok (e3 e he) x hex
  · have : maxOf (((chain { row := row, n := n, eightAbove := ea }).trace).filterMap tevIdx) <
        max 1 (n - (if ea then 0 else 2) - 1) := by
      apply maxOf_lt (by omega)
      intro x hx
      obtain ⟨e, he, hex⟩ := List.mem_filterMap.mp hx
      have := idx_lt_of_ok (e3 e he) x hex
      omega
    omega

end Theta

end SqiProofs.VerifyBridge

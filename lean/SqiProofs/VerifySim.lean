/-
Bridge for C03, part 2: a7's kernel simulation `SqiModel.VerifyAccess.sim4` (the index bookkeeping of
`ec_eval_even_strategy` as used in the verifier's access model) evaluated on ANY valid depth-bounded strategy —
by induction over the strategy tree, so that `allOk (evalEven K …)` can be derived from `StratD` (C09's table facts
`L*_STRATEGY4_depth`) instead of evaluating the simulation row by row.

  `sim4_of_stratD` : StratD cap n 0 t → sim4 (t ++ pad) n slots = some (0, maxC, maxS) with maxC < cap and
                     maxS + 2 ≤ max 2 n  (i.e. only the n−1 strategy entries are read)
-/
import SqiModel.VerifyAccess
import SqiModel.StrategyDepth

namespace SqiProofs.VerifySim
open SqiModel SqiModel.Verify

def mx (a b : Nat) : Nat := if a < b then b else a

theorem mx_le (a b : Nat) : a ≤ mx a b ∧ b ≤ mx a b ∧ mx a b ≤ max a b := by
  unfold mx; split <;> omega

theorem inner_hit (target fuel block strategy : Nat) (rest stack : List Nat) (mc ms : Nat) (h : block = target) :
    sim4Inner target (fuel + 1) block strategy rest stack mc ms = some (block, strategy, rest, stack, mc, ms) := by
  simp [sim4Inner, h]

theorem inner_push (target fuel block strategy x : Nat) (rest stack : List Nat) (mc ms : Nat) (h : block ≠ target) :
    sim4Inner target (fuel + 1) block strategy (x :: rest) stack mc ms =
      sim4Inner target fuel (block + x) (strategy + 1) rest (x :: stack) (mx mc (stack.length + 1)) (mx ms strategy) := by
  simp [sim4Inner, h, mx]

theorem inner_mono (target : Nat) : ∀ (fuel block strategy : Nat) (rest stack : List Nat) (mc ms : Nat) r,
    sim4Inner target fuel block strategy rest stack mc ms = some r →
    sim4Inner target (fuel + 1) block strategy rest stack mc ms = some r := by
  intro fuel
  induction fuel with
  | zero => intro b s r st mc ms x h; simp [sim4Inner] at h
  | succ fuel ih =>
    intro b s r st mc ms x h
    by_cases hb : b = target
    · rw [inner_hit _ _ _ _ _ _ _ _ hb] at h ⊢; exact h
    · cases r with
      | nil => simp [sim4Inner, hb] at h
      | cons y r' =>
        rw [inner_push _ _ _ _ _ _ _ _ _ hb] at h ⊢
        exact ih _ _ _ _ _ _ _ h

/-- the inner while on a (sub)strategy whose top has height h: it terminates (returns `some`) with any fuel ≥ h -/
theorem inner_ok (cap target : Nat) {h c : Nat} {t : List Nat} (hs : StratD cap h c t) :
    ∀ (fuel block strategy : Nat) (t2 stack : List Nat) (mc ms : Nat), h ≤ fuel → block + h = target + 1 →
      ∃ r, sim4Inner target fuel block strategy (t ++ t2) stack mc ms = some r := by
  induction hs with
  | leaf _ =>
    intro fuel block strategy t2 stack mc ms hf hb
    obtain ⟨f', rfl⟩ : ∃ f', fuel = f' + 1 := ⟨fuel - 1, by omega⟩
    exact ⟨_, inner_hit _ _ _ _ _ _ _ _ (by omega)⟩
  | @node n b c ta tb hb1 hbn _ _ iha _ =>
    intro fuel block strategy t2 stack mc ms hf hb
    obtain ⟨f', rfl⟩ : ∃ f', fuel = f' + 1 := ⟨fuel - 1, by omega⟩
    have e : (b :: (ta ++ tb)) ++ t2 = b :: (ta ++ (tb ++ t2)) := by simp [List.append_assoc]
    rw [e, inner_push _ _ _ _ _ _ _ _ _ (by omega)]
    exact iha f' (block + b) (strategy + 1) (tb ++ t2) (b :: stack) _ _ (by omega) (by omega)

theorem outer_unfold (eHalf fuel j block strategy : Nat) (rest stack : List Nat) (mc ms : Nat) (hj : j + 1 < eHalf) :
    sim4Outer eHalf (fuel + 1) j block strategy rest stack mc ms =
      match sim4Inner (eHalf - 1 - j) (eHalf + 2) block strategy rest stack mc ms with
      | none => none
      | some (block', strategy', rest', stack', mc', ms') =>
        match stack' with
        | [] => none
        | d :: below => if block' < d then none else sim4Outer eHalf fuel (j + 1) (block' - d) strategy' rest' below mc' ms' := by
  have : ¬ (j + 1 ≥ eHalf) := by omega
  rw [sim4Outer]
  simp only [this, if_false]
  rfl

/-- one push is absorbed by the outer loop: starting the iteration before or after the push is the same -/
theorem outer_push (cap eHalf : Nat) {h c : Nat} {ta : List Nat} (hs : StratD cap h c ta)
    (fuel j block strategy b : Nat) (t2 stack : List Nat) (mc ms : Nat) (hj : j + 1 < eHalf)
    (hne : block ≠ eHalf - 1 - j) (hh : block + b + h = eHalf - 1 - j + 1) (hle : h ≤ eHalf + 1) :
    sim4Outer eHalf (fuel + 1) j block strategy (b :: (ta ++ t2)) stack mc ms =
      sim4Outer eHalf (fuel + 1) j (block + b) (strategy + 1) (ta ++ t2) (b :: stack)
        (mx mc (stack.length + 1)) (mx ms strategy) := by
  rw [outer_unfold _ _ _ _ _ _ _ _ _ hj, outer_unfold _ _ _ _ _ _ _ _ _ hj]
  have e : eHalf + 2 = (eHalf + 1) + 1 := by omega
  rw [e, inner_push _ _ _ _ _ _ _ _ _ hne]
  obtain ⟨r, hr⟩ := inner_ok cap (eHalf - 1 - j) hs (eHalf + 1) (block + b) (strategy + 1) t2 (b :: stack)
    (mx mc (stack.length + 1)) (mx ms strategy) hle hh
  rw [hr, inner_mono _ _ _ _ _ _ _ _ _ hr]


/-- **Subtree lemma for `sim4Outer`**: a subtree with h leaves rooted at the top stack element `d` is consumed by h
    iterations; the stack and BLOCK are restored, the maxima stay within the depth / strategy bounds. -/
theorem sub4 (cap eHalf : Nat) {h c : Nat} {t : List Nat} (hs : StratD cap h c t) :
    ∀ (fuel j block strategy : Nat) (t2 : List Nat) (d : Nat) (below : List Nat) (mc ms : Nat),
      (d :: below).length = c → block = (d :: below).sum → block + h + j = eHalf → j + h < eHalf → h ≤ fuel →
      ∃ mc' ms', sim4Outer eHalf fuel j block strategy (t ++ t2) (d :: below) mc ms =
          sim4Outer eHalf (fuel - h) (j + h) (block - d) (strategy + t.length) t2 below mc' ms' ∧
        mc ≤ mc' ∧ mc' ≤ max mc (cap - 1) ∧ ms ≤ ms' ∧ ms' + 1 ≤ max (ms + 1) (strategy + t.length) := by
  induction hs with
  | @leaf c hc =>
    intro fuel j block strategy t2 d below mc ms hl hb hsum hj hf
    obtain ⟨f', rfl⟩ : ∃ f', fuel = f' + 1 := ⟨fuel - 1, by omega⟩
    refine ⟨mc, ms, ?_, Nat.le_refl _, Nat.le_max_left _ _, Nat.le_refl _, by simp; omega⟩
    rw [outer_unfold _ _ _ _ _ _ _ _ _ (by omega)]
    have e : eHalf + 2 = (eHalf + 1) + 1 := by omega
    rw [e, inner_hit _ _ _ _ _ _ _ _ (by omega)]
    have hd : ¬ block < d := by simp [List.sum_cons] at hb; omega
    simp [hd]
  | @node n b c ta tb hb1 hbn hsa hsb iha ihb =>
    intro fuel j block strategy t2 d below mc ms hl hb hsum hj hf
    obtain ⟨f', rfl⟩ : ∃ f', fuel = f' + 1 := ⟨fuel - 1, by omega⟩
    have e : (b :: (ta ++ tb)) ++ t2 = b :: (ta ++ (tb ++ t2)) := by simp [List.append_assoc]
    rw [e, outer_push cap eHalf hsa f' j block strategy b (tb ++ t2) (d :: below) mc ms (by omega) (by omega) (by omega) (by omega)]
    obtain ⟨mc1, ms1, ea, a1, a2, a3, a4⟩ := iha (f' + 1) j (block + b) (strategy + 1) (tb ++ t2) b (d :: below)
      (mx mc ((d :: below).length + 1)) (mx ms strategy) (by simp at hl ⊢; omega) (by simp [List.sum_cons] at hb ⊢; omega)
      (by omega) (by omega) (by omega)
    rw [ea]
    have hbb : block + b - b = block := by omega
    rw [hbb]
    obtain ⟨mc2, ms2, eb, b1, b2, b3, b4⟩ := ihb (f' + 1 - (n - b)) (j + (n - b)) block (strategy + 1 + ta.length) t2 d below
      mc1 ms1 hl hb (by omega) (by omega) (by omega)
    rw [eb]
    have hcap : c + 1 < cap := hsa.idx_lt
    have m1 := mx_le mc ((d :: below).length + 1)
    have m2 := mx_le ms strategy
    refine ⟨mc2, ms2, ?_, by omega, ?_, by omega, ?_⟩
    · congr 1
      · omega
      · omega
      · simp [List.length_append]; omega
    · rw [hl] at m1 a2; omega
    · simp [List.length_append] at b4 a4 ⊢; omega

/-- **Spine lemma for `sim4Outer`** (root of the strategy, empty stack): the traversal terminates with `current = 0` -/
theorem spine4 (cap eHalf : Nat) {h c : Nat} {t : List Nat} (hs : StratD cap h c t) :
    ∀ (fuel j strategy : Nat) (t2 : List Nat) (mc ms : Nat), c = 0 → j + h = eHalf → h ≤ fuel →
      ∃ mc' ms', sim4Outer eHalf fuel j 0 strategy (t ++ t2) [] mc ms = some (0, mc', ms') ∧
        mc ≤ mc' ∧ mc' ≤ max mc (cap - 1) ∧ ms ≤ ms' ∧ ms' + 1 ≤ max (ms + 1) (strategy + t.length) := by
  induction hs with
  | @leaf c hc =>
    intro fuel j strategy t2 mc ms _ hj hf
    obtain ⟨f', rfl⟩ : ∃ f', fuel = f' + 1 := ⟨fuel - 1, by omega⟩
    refine ⟨mc, ms, ?_, Nat.le_refl _, Nat.le_max_left _ _, Nat.le_refl _, by simp; omega⟩
    have : j + 1 ≥ eHalf := by omega
    simp [sim4Outer, this]
  | @node n b c ta tb hb1 hbn hsa hsb _ ihb =>
    intro fuel j strategy t2 mc ms hc hj hf
    subst hc
    obtain ⟨f', rfl⟩ : ∃ f', fuel = f' + 1 := ⟨fuel - 1, by omega⟩
    have e : (b :: (ta ++ tb)) ++ t2 = b :: (ta ++ (tb ++ t2)) := by simp [List.append_assoc]
    rw [e, outer_push cap eHalf hsa f' j 0 strategy b (tb ++ t2) [] mc ms (by omega) (by omega) (by omega) (by omega)]
    obtain ⟨mc1, ms1, ea, a1, a2, a3, a4⟩ := sub4 cap eHalf hsa (f' + 1) j (0 + b) (strategy + 1) (tb ++ t2) b []
      (mx mc (([] : List Nat).length + 1)) (mx ms strategy) (by simp) (by simp) (by omega) (by omega) (by omega)
    rw [ea]
    have hbb : 0 + b - b = 0 := by omega
    rw [hbb]
    obtain ⟨mc2, ms2, eb, b1, b2, b3, b4⟩ := ihb (f' + 1 - (n - b)) (j + (n - b)) (strategy + 1 + ta.length) t2 mc1 ms1 rfl
      (by omega) (by omega)
    have hcap : 0 + 1 < cap := hsa.idx_lt
    have m1 := mx_le mc (([] : List Nat).length + 1)
    have m2 := mx_le ms strategy
    refine ⟨mc2, ms2, eb, by omega, ?_, by omega, ?_⟩
    · simp at m1 a2; omega
    · simp [List.length_append] at b4 a4 ⊢; omega

/-- **`sim4` on every valid depth-bounded strategy**: the simulation of C03 does not get stuck, ends with `current = 0`,
    uses no slot ≥ cap and reads only the n−1 strategy entries. -/
theorem sim4_of_stratD (cap n : Nat) (t pad : List Nat) (slots : Nat) (hs : StratD cap n 0 t) :
    ∃ maxC maxS, sim4 (t ++ pad) n slots = some (0, maxC, maxS) ∧ maxC < cap ∧ maxS + 2 ≤ max 2 n := by
  have hlen := hs.toStrat.length
  have hcap := hs.idx_lt
  obtain ⟨mc, ms, e, _, h2, _, h4⟩ := spine4 cap n hs (n + 2) 0 0 pad 0 0 rfl (by omega) (by omega)
  refine ⟨mc, ms, by simpa [sim4] using e, by omega, by omega⟩


/-- **C03's access list of `ec_eval_even_strategy` is safe for every valid depth-bounded strategy row** — the
    statement `wfDim2Ev` / `wfHeurEv` evaluate row by row, here from `StratD` (e.g. `SqiProps.C09.L*_STRATEGY4_depth`
    through `checkStratD_sound`). -/
theorem evalEven_allOk_of_stratD (K : Lvl) (tag : String) (len : Nat) (t pad : List Nat)
    (h2 : 2 ≤ len) (hf : len ≤ K.f) (hF : K.f < 2 ^ 20) (hr : K.f - len < K.rows4)
    (hrow : K.strat4.getD (K.f - len) [] = t ++ pad) (hcols : len / 2 ≤ K.cols4 + 1) (hc1 : 1 ≤ K.cols4)
    (hs : StratD (2 * (if len / 2 % 256 = 0 then 0 else Nat.log2 (len / 2 % 256) + 1)) (len / 2) 0 t) :
    allOk (evalEven K tag (len : Int)) = true := by
  have hcap := hs.idx_lt
  have hpow : (2 : Int) ^ 64 = 18446744073709551616 := by decide
  have hF' : K.f < 1048576 := by simpa using hF
  have he : (((len : Int) / 2) % (2 : Int) ^ 64).toNat = len / 2 := by rw [hpow]; omega
  have hidx : ((K.f : Int) - (len : Int)).toNat = K.f - len := by omega
  obtain ⟨maxC, maxS, hsim, hC, hS⟩ := sim4_of_stratD _ (len / 2) t pad
    (2 * (if len / 2 % 256 = 0 then 0 else Nat.log2 (len / 2 % 256) + 1)) hs
  unfold evalEven
  simp only [he, hidx, hrow, hsim]
  have hcond : (0 : Int) ≤ (K.f : Int) - (len : Int) ∧ (K.f : Int) - (len : Int) < (K.rows4 : Int) ∧ 1 ≤ len / 2 ∧ len / 2 ≤ K.f := by
    refine ⟨by omega, by omega, by omega, by omega⟩
  have hne : ¬ len / 2 = 0 := by omega
  simp only [hcond, and_self, if_true, hne, if_false]
  simp only [allOk, List.all_append, List.all_cons, List.all_nil, Access.ok, Bool.and_true, Bool.and_eq_true, decide_eq_true_eq]
  have h231 : (2 : Int) ^ 31 = 2147483648 := by decide
  rw [h231]
  refine ⟨⟨⟨by omega, by omega⟩, by omega, ⟨by omega, by omega⟩, by omega⟩, ⟨?_, ?_⟩, ⟨by omega, by omega⟩⟩
  · have : (0 : Int) ≤ ((max maxC (if (len : Int) % 2 = 1 then 1 else 0) : Nat) : Int) := by omega
    omega
  · have : max maxC (if (len : Int) % 2 = 1 then 1 else 0) < 2 * (if len / 2 % 256 = 0 then 0 else Nat.log2 (len / 2 % 256) + 1) := by
      split <;> omega
    omega

end SqiProofs.VerifySim

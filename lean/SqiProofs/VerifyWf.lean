/-
C03: the three generated levels satisfy the well-formedness predicates of the verifier access models.
The numeric side conditions are decided by the kernel; the traversal facts are **corollaries of the general theorems**
of engineer a3 — `SqiProps.C09.even_chain_of_rows` / `guard_false_in_range` (every length, guard of `ec_eval_even`
re-read from the C text) and `SqiProps.C12.theta_chain_of_rows` (`chain_strategy_sound`: all n, all valid strategies,
both modes) — applied to the table-validity theorems of C09 (`L*_STRATEGY4_depth`) and C18 (`L*_strategies_rows`).
No per-row simulation any more.
-/
import SqiProofs.VerifyAccess
import SqiModel.VerifyLevels
import SqiProps.C09
import SqiProps.C12

set_option autoImplicit false
set_option maxRecDepth 100000

namespace SqiModel.Verify

theorem evenFacts_of (K : Lvl) (hg : K.evenNaive = SqiGen.EvenGuard.naive) (hf : K.f < SqiGen.EvenGuard.W)
    (hrows : SqiProofs.EvenChain.rowsValidD K.f K.strat4 = true) : EvenFacts K where
  gd := fun len h => by
    rw [hg] at h
    exact SqiProps.C09.guard_false_in_range len K.f K.rows4 hf h
  ev := fun len h1 h2 => (SqiProps.C09.even_chain_of_rows K.f K.strat4 hrows len h1 h2).1

theorem thetaFacts_of (K : Lvl) (cols : Nat)
    (hrows : SqiProps.C18.rowsValid (fun i => K.f - i) cols K.strat2 = true) (hlen : K.strat2.length + 2 ≤ K.f) :
    ThetaFacts K where
  th := fun n idx ea hidx hrel h2 => by
    have hidx' : idx < K.strat2.length := hidx
    have hr : SqiProps.C12.callerRow K.strat2 K.f n ea = some (K.strat2.getD idx []) := by
      unfold SqiProps.C12.callerRow
      have hi : ((K.f : Int) - n + ((if ea then 0 else 2 : Nat) : Int)) = (idx : Int) := by
        cases ea <;> simp at hrel h2 ⊢ <;> omega
      simp only [hi]
      have h0 : (0 : Int) ≤ (idx : Int) := by omega
      simp only [h0, if_true, Int.toNat_natCast]
      rw [List.getElem?_eq_getElem hidx', List.getD_eq_getElem?_getD, List.getElem?_eq_getElem hidx']
      rfl
    exact (SqiProps.C12.theta_chain_of_rows K.f K.strat2 cols hrows hlen n ea _ hr).1

theorem L1_wfDim2 : WfDim2 L1 :=
  ⟨by decide +kernel, evenFacts_of L1 rfl (by decide +kernel) SqiProps.C09.L1_STRATEGY4_depth,
    thetaFacts_of L1 _ SqiProps.C18.L1_strategies_rows (by decide +kernel)⟩
theorem L1_wfHeur : WfHeur L1 :=
  ⟨by decide +kernel, L1_wfDim2.even, L1_wfDim2.theta⟩
theorem L3_wfDim2 : WfDim2 L3 :=
  ⟨by decide +kernel, evenFacts_of L3 rfl (by decide +kernel) SqiProps.C09.L3_STRATEGY4_depth,
    thetaFacts_of L3 _ SqiProps.C18.L3_strategies_rows (by decide +kernel)⟩
theorem L3_wfHeur : WfHeur L3 :=
  ⟨by decide +kernel, L3_wfDim2.even, L3_wfDim2.theta⟩
theorem L5_wfDim2 : WfDim2 L5 :=
  ⟨by decide +kernel, evenFacts_of L5 rfl (by decide +kernel) SqiProps.C09.L5_STRATEGY4_depth,
    thetaFacts_of L5 _ SqiProps.C18.L5_strategies_rows (by decide +kernel)⟩
theorem L5_wfHeur : WfHeur L5 :=
  ⟨by decide +kernel, L5_wfDim2.even, L5_wfDim2.theta⟩

end SqiModel.Verify

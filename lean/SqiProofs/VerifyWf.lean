/- C03: well-formedness of the three generated levels for both verifier models -/
import SqiProofs.VerifyWf.L1Dim2Ev
import SqiProofs.VerifyWf.L1Dim2Th
import SqiProofs.VerifyWf.L1HeurEv
import SqiProofs.VerifyWf.L1HeurTh
import SqiProofs.VerifyWf.L3Dim2Ev
import SqiProofs.VerifyWf.L3Dim2Th
import SqiProofs.VerifyWf.L3HeurEv
import SqiProofs.VerifyWf.L3HeurTh
import SqiProofs.VerifyWf.L5Dim2Ev
import SqiProofs.VerifyWf.L5Dim2Th
import SqiProofs.VerifyWf.L5HeurEv
import SqiProofs.VerifyWf.L5HeurTh

namespace SqiModel.Verify
theorem L1_wfDim2 : wfDim2 L1 = true := by
  have h : wfDim2Num L1 = true := by decide +kernel
  simp only [wfDim2, h, L1_wfDim2Ev, L1_wfDim2Th, Bool.and_self]
theorem L1_wfHeur : wfHeur L1 = true := by
  have h : wfHeurNum L1 = true := by decide +kernel
  simp only [wfHeur, h, L1_wfHeurEv, L1_wfHeurTh, Bool.and_self]
theorem L3_wfDim2 : wfDim2 L3 = true := by
  have h : wfDim2Num L3 = true := by decide +kernel
  simp only [wfDim2, h, L3_wfDim2Ev, L3_wfDim2Th, Bool.and_self]
theorem L3_wfHeur : wfHeur L3 = true := by
  have h : wfHeurNum L3 = true := by decide +kernel
  simp only [wfHeur, h, L3_wfHeurEv, L3_wfHeurTh, Bool.and_self]
theorem L5_wfDim2 : wfDim2 L5 = true := by
  have h : wfDim2Num L5 = true := by decide +kernel
  simp only [wfDim2, h, L5_wfDim2Ev, L5_wfDim2Th, Bool.and_self]
theorem L5_wfHeur : wfHeur L5 = true := by
  have h : wfHeurNum L5 = true := by decide +kernel
  simp only [wfHeur, h, L5_wfHeurEv, L5_wfHeurTh, Bool.and_self]
end SqiModel.Verify

/- C03: level-5 strategy tables vs the Heur verifier model, part Th (finite: every admitted backtracking /
   two_resp_length value is simulated by the kernel). One module per level, variant and table so that lake
   evaluates them in parallel. -/
import SqiProofs.VerifyAccess
import SqiModel.VerifyLevels
namespace SqiModel.Verify
set_option maxRecDepth 100000
theorem L5_wfHeurTh : wfHeurTh L5 = true := by decide +kernel
end SqiModel.Verify

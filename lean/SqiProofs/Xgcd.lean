import SqiModel.Quat
import SqiProofs.Hnf
import Mathlib.Tactic.Ring
import Mathlib.Tactic.Linarith
import Mathlib.Tactic.LinearCombination
/- the model of `mpz_gcdext` satisfies the Bezout specification the HNF proof needs -/
open SqiModel.Quat

namespace SqiProofs.Xgcd

theorem egcdAux_spec : ∀ (fuel a b : Nat), b < fuel →
    (egcdAux fuel a b).1 * (a : ℤ) + (egcdAux fuel a b).2 * (b : ℤ) = (Nat.gcd a b : ℤ) := by
  intro fuel
  induction fuel with
  | zero => intro a b h; omega
  | succ n ih =>
    intro a b hlt
    unfold egcdAux
    by_cases hb : b = 0
    · subst hb; simp
    · simp only [hb, if_false]
      have hmod : a % b < b := Nat.mod_lt _ (Nat.pos_of_ne_zero hb)
      have h := ih b (a % b) (by omega)
      have hg : Nat.gcd b (a % b) = Nat.gcd a b := by
        rw [Nat.gcd_comm b (a % b), ← Nat.gcd_rec, Nat.gcd_comm]
      rw [hg] at h
      have hdm : (a : ℤ) = (b : ℤ) * ((a / b : Nat) : ℤ) + ((a % b : Nat) : ℤ) := by
        exact_mod_cast (Nat.div_add_mod a b).symm
      rw [← h]
      linear_combination (egcdAux n b (a % b)).2 * hdm

theorem egcd_spec (b a : Nat) : (egcd a b).1 * (a : ℤ) + (egcd a b).2 * (b : ℤ) = (Nat.gcd a b : ℤ) :=
  egcdAux_spec (b + 1) a b (Nat.lt_succ_self b)

theorem sgn_mul_self (a : ℤ) : sgn a * a = (a.natAbs : ℤ) := by
  unfold sgn
  split
  · omega
  · split <;> omega

theorem xgcdGmp_spec : SqiProofs.Hnf.XgcdSpec xgcdGmp := by
  intro a b hb
  have hB : b.natAbs ≠ 0 := by omega
  have hgpos : 0 < Nat.gcd a.natAbs b.natAbs := Nat.gcd_pos_of_pos_right _ (Nat.pos_of_ne_zero hB)
  have hg1 : ((Nat.gcd a.natAbs b.natAbs : Nat) : ℤ) ∣ a := by
    have : Int.gcd a b = Nat.gcd a.natAbs b.natAbs := rfl
    rw [← this]; exact Int.gcd_dvd_left a b
  have hg2 : ((Nat.gcd a.natAbs b.natAbs : Nat) : ℤ) ∣ b := by
    have : Int.gcd a b = Nat.gcd a.natAbs b.natAbs := rfl
    rw [← this]; exact Int.gcd_dvd_right a b
  unfold xgcdGmp
  by_cases hAB : a.natAbs = b.natAbs
  · rw [if_pos hAB]
    refine ⟨by show (0 : ℤ) < ((Nat.gcd a.natAbs b.natAbs : Nat) : ℤ); exact_mod_cast hgpos, hg1, hg2, ?_⟩
    dsimp only
    rw [zero_mul, zero_add, sgn_mul_self, hAB, Nat.gcd_self]
  · rw [if_neg hAB, if_neg hB]
    by_cases hA : a.natAbs = 0
    · rw [if_pos hA]
      refine ⟨by show (0 : ℤ) < ((Nat.gcd a.natAbs b.natAbs : Nat) : ℤ); exact_mod_cast hgpos, hg1, hg2, ?_⟩
      dsimp only
      rw [zero_mul, zero_add, sgn_mul_self, hA, Nat.gcd_zero_left]
    · rw [if_neg hA]
      refine ⟨by show (0 : ℤ) < ((Nat.gcd a.natAbs b.natAbs : Nat) : ℤ); exact_mod_cast hgpos, hg1, hg2, ?_⟩
      dsimp only
      have he := egcd_spec b.natAbs a.natAbs
      generalize egcd a.natAbs b.natAbs = st at *
      generalize hg : Nat.gcd a.natAbs b.natAbs = g at *
      have hgA : g ∣ a.natAbs := hg ▸ Nat.gcd_dvd_left _ _
      have hgB : g ∣ b.natAbs := hg ▸ Nat.gcd_dvd_right _ _
      have eA : ((a.natAbs / g : Nat) : ℤ) * (g : ℤ) = (a.natAbs : ℤ) := by exact_mod_cast Nat.div_mul_cancel hgA
      have eB : ((b.natAbs / g : Nat) : ℤ) * (g : ℤ) = (b.natAbs : ℤ) := by exact_mod_cast Nat.div_mul_cancel hgB
      have hB'pos : 0 < b.natAbs / g := Nat.div_pos (Nat.le_of_dvd (Nat.pos_of_ne_zero hB) hgB) hgpos
      generalize hA' : ((a.natAbs / g : Nat) : ℤ) = A' at *
      generalize hB' : ((b.natAbs / g : Nat) : ℤ) = B' at *
      have hB'0 : B' ≠ 0 := by rw [← hB']; exact_mod_cast (Nat.pos_iff_ne_zero.mp hB'pos)
      generalize hs' : (if 2 * (st.1 % B') ≤ B' then st.1 % B' else st.1 % B' - B') = s'
      have hdiv : B' ∣ s' - st.1 := by
        rw [← hs']
        split
        · exact ⟨-(st.1 / B'), by have := Int.emod_def st.1 B'; linear_combination this⟩
        · exact ⟨-(st.1 / B') - 1, by have := Int.emod_def st.1 B'; linear_combination this⟩
      have hm : (s' - st.1) / B' * B' = s' - st.1 := Int.ediv_mul_cancel hdiv
      generalize (s' - st.1) / B' = m at *
      have hgz : (g : ℤ) ≠ 0 := by exact_mod_cast (Nat.pos_iff_ne_zero.mp hgpos)
      have hcross : B' * (a.natAbs : ℤ) = A' * (b.natAbs : ℤ) := by rw [← eA, ← eB]; ring
      have e1 : sgn a * s' * a = s' * (sgn a * a) := by ring
      have e2 : sgn b * (st.2 - m * A') * b = (st.2 - m * A') * (sgn b * b) := by ring
      rw [e1, e2, sgn_mul_self, sgn_mul_self]
      linear_combination he - (a.natAbs : ℤ) * hm + m * hcross

end SqiProofs.Xgcd

/-
C02 — verification accepts only what was signed: binding to (pk, m), no structural forgery, NIST-style entry
points do not report success without verifying.

Unforgeability itself is a cryptographic statement and out of reach.  Decided here:

1. `accept_iff_dim2` / `accept_iff_heur`: the decision of `protocols_verif` as a function of the raw fields and of
   the values its arithmetic computes (SqiModel/VerifyDecision.lean; run against the C code on every probe through
   hook H4): accepted ⇔ range guard ∧ kernel validity checks ∧ chain succeeded ∧ recomputed challenge = chall_coeff
   (heuristic: either codomain, comparison modulo 2^len_chall).
2. `binding_msg_pk_dim2/heur`: an accepted signature is rejected under any (pk', m') with a different hash input,
   modulo the explicit hypothesis that the (truncated) challenge hash is injective on the compared inputs.
3. Structural forgeries, in the abstract torsion model E[2^k] ≅ (ZMod 2^k)² (SqiProofs/Torsion.lean), for ALL sizes
   k, t and ALL integer entries: the three order tests on the first-factor kernel points pass iff the response
   matrix is invertible modulo 2 (`kernel_orders_iff_det_odd`); the small two-isogeny chain's kernel has exact
   order 2^t iff the matrix is not even (`small_chain_kernel_iff_not_even`).  Hence any verifier that performs these
   tests rejects zero / even / rank-deficient matrices (`structural_forgery_rejected_*`).
4. The code performs exactly these tests: `code_checks_kernel_orders` is about the list of checks the translator
   re-extracts from the C text on every run (tools/translate/verif_guard.py), so dropping one of them breaks it.
   The pinned tree had none; that state is recorded by `pinned_accepts_zero_matrix_*` (negation witness: the model
   without checks accepts the all-zero matrix with a fitted challenge for every public key and message — replayed
   on the real code by tools/props/c02.py).
5. `nist_api_fails_closed`: the stubs of src/sqisign.c (re-extracted) do not return 0 (= success);
   `nist_api_pinned_reports_success` records the pinned state.
-/
import SqiProofs.Torsion
import SqiModel.VerifyDecision
import SqiModel.VerifyLevels
import SqiProofs.Challenge
import SqiGen.VerifGuard

set_option autoImplicit false

namespace SqiProps.C02
open SqiModel.Verify SqiProofs.Torsion

/-! ## 1. decision logic -/

theorem challEqDim2_iff (s : RawSig) (h : Int) :
    challEqDim2 s h = true ↔ (if s.challB ≠ 0 then s.chall * h = 1 else s.chall = h) := by
  unfold challEqDim2
  by_cases hb : s.challB ≠ 0 <;> simp [hb]

/-- the verifier's decision (current code: with the validity checks) -/
theorem accept_iff_dim2 (g : Lvl → RawPk → RawSig → Bool) (K : Lvl) (pk : RawPk) (s : RawSig) (o : OracleDim2) :
    verifyDim2 g true K pk s o = true ↔
      (g K pk s = true ∧ (s.trl ≤ 0 ∨ o.kerOk = true) ∧ o.ordAll = true ∧ o.split = true ∧
       (if s.challB ≠ 0 then s.chall * o.h = 1 else s.chall = o.h)) := by
  rw [← challEqDim2_iff]
  simp [verifyDim2, and_assoc]

theorem accept_iff_heur (g : Lvl → RawPk → RawSigH → Bool) (K : Lvl) (pk : RawPk) (s : RawSigH) (o : OracleHeur) :
    verifyHeur g true K pk s o = true ↔
      (g K pk s = true ∧ o.kerOk = true ∧ o.ordAll = true ∧ o.split = true ∧
       (challEqHeur1 K s o.h = true ∨ challEqHeur2 K s o.h o.h2 = true)) := by
  simp [verifyHeur, and_assoc]

/-- for `hint_b = 0` the heuristic comparison is `x ≡ H (mod 2^len_chall)` with H the hash on either codomain -/
theorem challEqHeur_hintB0 (K : Lvl) (s : RawSigH) (h h2 : Int) (hb : s.hintB = 0) :
    (challEqHeur1 K s h = true ∨ challEqHeur2 K s h h2 = true) ↔
      (s.x % 2 ^ K.heurChall = h % 2 ^ K.heurChall ∨ s.x % 2 ^ K.heurChall = h2 % 2 ^ K.heurChall) := by
  simp [challEqHeur1, challEqHeur2, hb, Int.emod_emod_of_dvd]

/-! ## 2. binding to (pk, m) modulo hash injectivity

`J` = encoded j-invariants, `M` = messages, `hash jcom jpk m` = the integer `hash_to_challenge` produces
(SHAKE256 of the concatenation; modelled as an arbitrary function with the stated injectivity hypothesis on the
public-key / message part — a collision assumption).  `ecom pk` = the commitment curve the verifier recomputes for
this signature under the given public key (whatever it is). -/

section binding
variable {J M : Type}

/-- sqisigndim2: if the signature `s` is accepted for (pk, m) it is rejected for every (pk', m') whose hash input
    differs in the public key or the message -/
theorem binding_msg_pk_dim2 (hash : J → J → M → Int) (hpos : ∀ a b c, 0 ≤ hash a b c)
    (hinj : ∀ a b c a' b' c', hash a b c = hash a' b' c' → (b, c) = (b', c'))
    (g : Lvl → RawPk → RawSig → Bool) (K : Lvl) (s : RawSig)
    (pk pk' : RawPk) (jpk jpk' jcom jcom' : J) (m m' : M) (o o' : OracleDim2)
    (ho : o.h = hash jcom jpk m) (ho' : o'.h = hash jcom' jpk' m')
    (hacc : verifyDim2 g true K pk s o = true) (hne : (jpk', m') ≠ (jpk, m)) :
    verifyDim2 g true K pk' s o' = false := by
  cases hv : verifyDim2 g true K pk' s o'
  · rfl
  · exfalso
    obtain ⟨_, _, _, _, h1⟩ := (accept_iff_dim2 g K pk s o).1 hacc
    obtain ⟨_, _, _, _, h2⟩ := (accept_iff_dim2 g K pk' s o').1 hv
    have heq : o.h = o'.h := by
      by_cases hb : s.challB ≠ 0
      · rw [if_pos hb] at h1 h2
        -- chall * h = 1 = chall * h' with h, h' ≥ 0 forces h = h'
        have hp := hpos jcom jpk m
        have hp' := hpos jcom' jpk' m'
        rw [← ho] at hp; rw [← ho'] at hp'
        have hc : s.chall ≠ 0 := by intro h0; rw [h0, Int.zero_mul] at h1; omega
        have : s.chall * o.h = s.chall * o'.h := by rw [h1, h2]
        exact Int.eq_of_mul_eq_mul_left hc this
      · rw [if_neg hb] at h1 h2
        rw [← h1, ← h2]
    rw [ho, ho'] at heq
    exact hne (hinj _ _ _ _ _ _ heq).symm

/-- heuristic variant (`hint_b = 0`, the only branch the signer implements): the comparison is modulo
    2^len_chall on either codomain, so the injectivity hypothesis is on the truncated hash -/
theorem binding_msg_pk_heur (K : Lvl) (hash : J → J → M → Int)
    (hinj : ∀ a b c a' b' c', hash a b c % 2 ^ K.heurChall = hash a' b' c' % 2 ^ K.heurChall → (b, c) = (b', c'))
    (g : Lvl → RawPk → RawSigH → Bool) (s : RawSigH) (hb : s.hintB = 0)
    (pk pk' : RawPk) (jpk jpk' j1 j2 j1' j2' : J) (m m' : M) (o o' : OracleHeur)
    (ho : o.h = hash j1 jpk m ∧ o.h2 = hash j2 jpk m) (ho' : o'.h = hash j1' jpk' m' ∧ o'.h2 = hash j2' jpk' m')
    (hacc : verifyHeur g true K pk s o = true) (hne : (jpk', m') ≠ (jpk, m)) :
    verifyHeur g true K pk' s o' = false := by
  cases hv : verifyHeur g true K pk' s o'
  · rfl
  · exfalso
    obtain ⟨_, _, _, _, h1⟩ := (accept_iff_heur g K pk s o).1 hacc
    obtain ⟨_, _, _, _, h2⟩ := (accept_iff_heur g K pk' s o').1 hv
    rw [challEqHeur_hintB0 K s _ _ hb] at h1 h2
    rw [ho.1, ho.2] at h1
    rw [ho'.1, ho'.2] at h2
    rcases h1 with h1 | h1 <;> rcases h2 with h2 | h2 <;>
      exact hne (hinj _ _ _ _ _ _ (h1.symm.trans h2)).symm

/-- toy hash used for the non-vacuity example: injective in (pk, m), independent of the commitment -/
def toyHash : Bool → Bool → Bool → Int := fun _ b c => (if b then 2 else 0) + (if c then 1 else 0)
def toySig : RawSig := ⟨true, false, 0, 0, 3, 1, 1, 2, 3, 0, 0, 2, 3, 0⟩
def toyOracle : OracleDim2 := ⟨true, true, true, true, true, true, true, true, 3⟩

/-- non-vacuity of `binding_msg_pk_dim2`: its hypotheses are jointly satisfiable with an accepting run -/
def toyPk : RawPk := ⟨true, false, 1, 2⟩
example : (∀ a b c, 0 ≤ toyHash a b c) ∧ (∀ a b c a' b' c', toyHash a b c = toyHash a' b' c' → (b, c) = (b', c')) := by
  constructor <;> decide
example : toyOracle.h = toyHash true true true ∧
    verifyDim2 (fun _ _ _ => true) true L1 toyPk toySig toyOracle = true := by
  constructor <;> decide +kernel

/-! ### binding from collision-freeness of SHAKE256 on *distinct byte strings* only

`hash_to_challenge` is modelled by `SqiModel.Challenge.hashToChallenge xof nwords iters` (engineer a4, C20: the XOF is proved
equal to FIPS-202 SHAKE256 there): the challenge integer is `leNat` of the digest of the byte string
`hashInput jcom jpk m = enc(j(E_com)) ‖ enc(j(pk)) ‖ m`, re-hashed `iters` times in the heuristic variant. The encoding is
injective for fixed-width j-encodings (`SqiProofs.Challenge.hashInput_inj` = `SqiProps.C20.hashInput_injective`), so the only
cryptographic hypothesis left is: the two *distinct byte strings* actually compared do not collide under the digest map. -/

open SqiModel.Challenge in
/-- no collision of the map `H` on the two given inputs (a statement about one pair of byte strings, not a global injectivity) -/
def NoCollisionOn (H : List UInt8 → Int) (b b' : List UInt8) : Prop := b ≠ b' → H b ≠ H b'

/-- sqisigndim2, core step: two runs whose recomputed challenges differ cannot both accept the same signature -/
theorem not_both_accept_dim2 (g : Lvl → RawPk → RawSig → Bool) (K : Lvl) (s : RawSig) (pk pk' : RawPk) (o o' : OracleDim2)
    (hne : o.h ≠ o'.h) (hacc : verifyDim2 g true K pk s o = true) :
    verifyDim2 g true K pk' s o' = false := by
  cases hv : verifyDim2 g true K pk' s o'
  · rfl
  · exfalso
    obtain ⟨_, _, _, _, h1⟩ := (accept_iff_dim2 g K pk s o).1 hacc
    obtain ⟨_, _, _, _, h2⟩ := (accept_iff_dim2 g K pk' s o').1 hv
    apply hne
    by_cases hb : s.challB ≠ 0
    · rw [if_pos hb] at h1 h2
      have hc : s.chall ≠ 0 := by intro h0; rw [h0, Int.zero_mul] at h1; omega
      exact Int.eq_of_mul_eq_mul_left hc (by rw [h1, h2])
    · rw [if_neg hb] at h1 h2
      rw [← h1, ← h2]

open SqiModel.Challenge in
/-- **binding, sqisigndim2, from SHAKE collision-freeness on distinct byte strings**: if `s` is accepted for (pk, m) and
    (j(pk'), m') ≠ (j(pk), m), then `s` is rejected for (pk', m') — provided the two hash inputs, which are then distinct
    byte strings (injective encoding, widths `w = FP2_ENCODED_BYTES`), do not collide under `b ↦ leNat (xof b (8·nwords))` -/
theorem binding_msg_pk_dim2_shake (xof : List UInt8 → Nat → List UInt8) (nwords w : Nat)
    (g : Lvl → RawPk → RawSig → Bool) (K : Lvl) (s : RawSig) (pk pk' : RawPk) (o o' : OracleDim2)
    (jcom jpk jcom' jpk' m m' : List UInt8)
    (hw : jcom.length = w ∧ jpk.length = w ∧ jcom'.length = w ∧ jpk'.length = w)
    (ho : o.h = ((hashToChallenge xof nwords 0 jcom jpk m).2 : Int))
    (ho' : o'.h = ((hashToChallenge xof nwords 0 jcom' jpk' m').2 : Int))
    (hcr : NoCollisionOn (fun b => (leNat (xof b (8 * nwords)) : Int)) (hashInput jcom jpk m) (hashInput jcom' jpk' m'))
    (hacc : verifyDim2 g true K pk s o = true) (hne : (jpk', m') ≠ (jpk, m)) :
    verifyDim2 g true K pk' s o' = false := by
  have hbytes : hashInput jcom jpk m ≠ hashInput jcom' jpk' m' := by
    intro e
    obtain ⟨_, e2, e3⟩ := SqiProofs.Challenge.hashInput_inj w _ _ _ _ _ _ hw.1 hw.2.2.1 hw.2.1 hw.2.2.2 e
    exact hne (by rw [e2, e3])
  have hh := hcr hbytes
  refine not_both_accept_dim2 g K s pk pk' o o' ?_ hacc
  rw [ho, ho']
  simpa [hashToChallenge, challengeDigits, iter] using hh

open SqiModel.Challenge in
/-- **binding, heuristic variant (`hint_b = 0`)**: the compared value is the challenge modulo 2^len on either codomain, so
    the no-collision hypothesis is on the truncated, `iters`-fold re-hashed digest for the (up to four) pairs of distinct
    byte strings that can be compared -/
theorem binding_msg_pk_heur_shake (xof : List UInt8 → Nat → List UInt8) (nwords iters w : Nat)
    (g : Lvl → RawPk → RawSigH → Bool) (K : Lvl) (s : RawSigH) (hb : s.hintB = 0) (pk pk' : RawPk) (o o' : OracleHeur)
    (j1 j2 jpk j1' j2' jpk' m m' : List UInt8)
    (hw : j1.length = w ∧ j2.length = w ∧ jpk.length = w ∧ j1'.length = w ∧ j2'.length = w ∧ jpk'.length = w)
    (ho : o.h = ((hashToChallenge xof nwords iters j1 jpk m).2 : Int) ∧ o.h2 = ((hashToChallenge xof nwords iters j2 jpk m).2 : Int))
    (ho' : o'.h = ((hashToChallenge xof nwords iters j1' jpk' m').2 : Int) ∧
           o'.h2 = ((hashToChallenge xof nwords iters j2' jpk' m').2 : Int))
    (hcr : ∀ a ∈ [j1, j2], ∀ a' ∈ [j1', j2'],
      NoCollisionOn (fun b => ((leNat (iter (fun d => xof d (8 * nwords)) iters (xof b (8 * nwords))) : Nat) : Int) % 2 ^ K.heurChall)
        (hashInput a jpk m) (hashInput a' jpk' m'))
    (hacc : verifyHeur g true K pk s o = true) (hne : (jpk', m') ≠ (jpk, m)) :
    verifyHeur g true K pk' s o' = false := by
  cases hv : verifyHeur g true K pk' s o'
  · rfl
  · exfalso
    obtain ⟨_, _, _, _, h1⟩ := (accept_iff_heur g K pk s o).1 hacc
    obtain ⟨_, _, _, _, h2⟩ := (accept_iff_heur g K pk' s o').1 hv
    rw [challEqHeur_hintB0 K s _ _ hb] at h1 h2
    rw [ho.1, ho.2] at h1
    rw [ho'.1, ho'.2] at h2
    have key : ∀ a ∈ [j1, j2], ∀ a' ∈ [j1', j2'], a.length = w → a'.length = w →
        ((hashToChallenge xof nwords iters a jpk m).2 : Int) % 2 ^ K.heurChall ≠
        ((hashToChallenge xof nwords iters a' jpk' m').2 : Int) % 2 ^ K.heurChall := by
      intro a ha a' ha' hla hla'
      have hbytes : hashInput a jpk m ≠ hashInput a' jpk' m' := by
        intro e
        obtain ⟨_, e2, e3⟩ := SqiProofs.Challenge.hashInput_inj w _ _ _ _ _ _ hla hla' hw.2.2.1 hw.2.2.2.2.2 e
        exact hne (by rw [e2, e3])
      have := hcr a ha a' ha' hbytes
      simpa [hashToChallenge, challengeDigits] using this
    rcases h1 with h1 | h1 <;> rcases h2 with h2 | h2
    · exact key j1 (by simp) j1' (by simp) hw.1 hw.2.2.2.1 (h1.symm.trans h2)
    · exact key j1 (by simp) j2' (by simp) hw.1 hw.2.2.2.2.1 (h1.symm.trans h2)
    · exact key j2 (by simp) j1' (by simp) hw.2.1 hw.2.2.2.1 (h1.symm.trans h2)
    · exact key j2 (by simp) j2' (by simp) hw.2.1 hw.2.2.2.2.1 (h1.symm.trans h2)

end binding

/-! ## 3. structural forgeries in the abstract torsion model (all sizes, all entries) -/

/-- `two_resp_length = 0`: the verifier's kernel points on the first factor are P' = [m00]e₁+[m10]e₂,
    Q' = [m01]e₁+[m11]e₂ and P'−Q' in E_chall[2^k] (k = pow_dim2_deg_resp+2).  The three order tests pass iff the
    matrix is invertible modulo 2. -/
theorem kernel_orders_iff_det_odd (k : ℕ) (hk : 1 ≤ k) (m00 m01 m10 m11 : ℤ) :
    (testOrderTwoF k (pt k m00 m10) ∧ testOrderTwoF k (pt k m01 m11) ∧
      testOrderTwoF k (pt k m00 m10 - pt k m01 m11)) ↔ Odd (m00 * m11 - m01 * m10) := by
  rw [pt_sub, testOrder_pt_iff k hk, testOrder_pt_iff k hk, testOrder_pt_iff k hk]
  exact parity_core m00 m01 m10 m11

/-- zero matrix: some kernel point fails the order test, whatever k -/
theorem zero_matrix_kernel_degenerate (k : ℕ) (hk : 1 ≤ k) :
    ¬ (testOrderTwoF k (pt k 0 0) ∧ testOrderTwoF k (pt k 0 0) ∧ testOrderTwoF k (pt k 0 0 - pt k 0 0)) := by
  rw [kernel_orders_iff_det_odd k hk]
  decide

/-- even matrix: no kernel point has full order -/
theorem even_matrix_kernel_not_full_order (k : ℕ) (hk : 1 ≤ k) (a b c d : ℤ) :
    ¬ (testOrderTwoF k (pt k (2 * a) (2 * c)) ∧ testOrderTwoF k (pt k (2 * b) (2 * d)) ∧
      testOrderTwoF k (pt k (2 * a) (2 * c) - pt k (2 * b) (2 * d))) := by
  rw [kernel_orders_iff_det_odd k hk, Int.not_odd_iff_even]
  exact ⟨2 * (a * d) - 2 * (b * c), by ring⟩

/-- rank-deficient modulo 2 (even determinant): the three points are not a basis of E[2^k] -/
theorem rank_deficient_matrix_not_isotropic_basis (k : ℕ) (hk : 1 ≤ k) (m00 m01 m10 m11 : ℤ)
    (hdet : Even (m00 * m11 - m01 * m10)) :
    ¬ (testOrderTwoF k (pt k m00 m10) ∧ testOrderTwoF k (pt k m01 m11) ∧
      testOrderTwoF k (pt k m00 m10 - pt k m01 m11)) := by
  rw [kernel_orders_iff_det_odd k hk, Int.not_odd_iff_even]
  exact hdet

/-- `two_resp_length = t ≥ 1`: the matrix acts on E_chall[2^(k+t)]; the kernel of the small 2^t-chain is
    [2^k]·(P' if a coordinate of P' is odd, else Q') — the C rule `m00, m10 both even ⇒ Q`.  It has exact order 2^t
    iff the matrix is not even. -/
theorem small_chain_kernel_iff_not_even (k t : ℕ) (ht : 1 ≤ t) (m00 m01 m10 m11 : ℤ) :
    testOrderTwoF t ((2 ^ k) • (if Even m00 ∧ Even m10 then pt (k + t) m01 m11 else pt (k + t) m00 m10)) ↔
      ¬ (Even m00 ∧ Even m10 ∧ Even m01 ∧ Even m11) := by
  by_cases h : Even m00 ∧ Even m10
  · rw [if_pos h, testOrder_smul_pt_iff k t ht]
    simp only [← Int.not_even_iff_odd]
    tauto
  · rw [if_neg h, testOrder_smul_pt_iff k t ht]
    simp only [← Int.not_even_iff_odd]
    tauto

/-- an oracle (the C order tests) that is sound for the abstract model of the first factor -/
def OracleSoundP1 (k : ℕ) (s : RawSig) (o : OracleDim2) : Prop :=
  (o.t1p1 = true → testOrderTwoF k (pt k s.m00 s.m10)) ∧ (o.t2p1 = true → testOrderTwoF k (pt k s.m01 s.m11)) ∧
  (o.t12p1 = true → testOrderTwoF k (pt k s.m00 s.m10 - pt k s.m01 s.m11))

/-- any verifier performing the order tests rejects a response matrix that is singular modulo 2 when
    `two_resp_length = 0` (zero, even, rank-deficient), whatever the auxiliary curve, the hints and the challenge -/
theorem structural_forgery_rejected_trl0 (g : Lvl → RawPk → RawSig → Bool) (K : Lvl) (pk : RawPk) (s : RawSig)
    (o : OracleDim2) (k : ℕ) (hk : 1 ≤ k) (hs : OracleSoundP1 k s o) (hdet : Even (s.m00 * s.m11 - s.m01 * s.m10)) :
    verifyDim2 g true K pk s o = false := by
  cases hv : verifyDim2 g true K pk s o
  · rfl
  · exfalso
    obtain ⟨_, _, hord, _, _⟩ := (accept_iff_dim2 g K pk s o).1 hv
    simp only [OracleDim2.ordAll, Bool.and_eq_true] at hord
    obtain ⟨⟨⟨⟨⟨h1, h2⟩, h3⟩, _⟩, _⟩, _⟩ := hord
    exact rank_deficient_matrix_not_isotropic_basis k hk _ _ _ _ hdet ⟨hs.1 h1, hs.2.1 h2, hs.2.2 h3⟩

/-- …and an even matrix for every `two_resp_length ≥ 1` (the small chain's kernel test fails) -/
theorem structural_forgery_rejected_trl_pos (g : Lvl → RawPk → RawSig → Bool) (K : Lvl) (pk : RawPk) (s : RawSig)
    (o : OracleDim2) (k t : ℕ) (ht : 1 ≤ t) (hst : s.trl = t)
    (hs : o.kerOk = true → testOrderTwoF t ((2 ^ k) •
      (if Even s.m00 ∧ Even s.m10 then pt (k + t) s.m01 s.m11 else pt (k + t) s.m00 s.m10)))
    (heven : Even s.m00 ∧ Even s.m10 ∧ Even s.m01 ∧ Even s.m11) :
    verifyDim2 g true K pk s o = false := by
  cases hv : verifyDim2 g true K pk s o
  · rfl
  · exfalso
    obtain ⟨_, hk, _⟩ := (accept_iff_dim2 g K pk s o).1 hv
    rcases hk with hk | hk
    · omega
    · exact (small_chain_kernel_iff_not_even k t ht _ _ _ _).1 (hs hk) heven

/-- non-vacuity of `structural_forgery_rejected_trl0`: a sound oracle may report a *passing* test only where the abstract
    point really has full order (here P' = e₁ passes, Q' = 2e₂ and P'−Q' are reported failing); the matrix has even determinant -/
def evenDetSig : RawSig := ⟨true, false, 0, 0, 1, 0, 0, 2, 5, 0, 0, 0, 0, 0⟩
def evenDetOracle : OracleDim2 := ⟨true, true, false, false, true, true, true, true, 5⟩
example : OracleSoundP1 130 evenDetSig evenDetOracle ∧ Even (evenDetSig.m00 * evenDetSig.m11 - evenDetSig.m01 * evenDetSig.m10) := by
  refine ⟨⟨fun _ => (testOrder_pt_iff 130 (by norm_num) 1 0).2 (Or.inl (by decide)), ?_, ?_⟩, by decide⟩
  · intro h; simp [evenDetOracle] at h
  · intro h; simp [evenDetOracle] at h

/-! ## 4. the code performs these tests (translator output) — and the pinned tree did not -/

/-- the six kernel points are tested with the right exponent, the small-chain / challenge kernel is tested and a
    failed chain is turned into rejection, in both variants (extracted from the C text on every run) -/
theorem code_checks_kernel_orders :
    SqiGen.VerifGuard.dim2OrderChecks =
      [("T1", "P1", "E1", "pow_dim2_deg_resp+2"), ("T2", "P1", "E1", "pow_dim2_deg_resp+2"), ("T1m2", "P1", "E1", "pow_dim2_deg_resp+2"),
       ("T1", "P2", "E2", "pow_dim2_deg_resp+2"), ("T2", "P2", "E2", "pow_dim2_deg_resp+2"), ("T1m2", "P2", "E2", "pow_dim2_deg_resp+2")] ∧
    SqiGen.VerifGuard.dim2KerCheck = true ∧ SqiGen.VerifGuard.dim2ChainCheck = true ∧
    SqiGen.VerifGuard.heurOrderChecks =
      [("T1", "P1", "E1", "pow_dim2_deg_resp"), ("T2", "P1", "E1", "pow_dim2_deg_resp"), ("T1m2", "P1", "E1", "pow_dim2_deg_resp"),
       ("T1", "P2", "E2", "pow_dim2_deg_resp"), ("T2", "P2", "E2", "pow_dim2_deg_resp"), ("T1m2", "P2", "E2", "pow_dim2_deg_resp")] ∧
    SqiGen.VerifGuard.heurKerCheck = true ∧ SqiGen.VerifGuard.heurChainCheck = true := by
  decide

/-- the all-zero response of DESIGN §6 item 1: zero matrix, `two_resp_length = backtracking = 0`, hints copied from
    the public key, challenge fitted after the fact -/
def zeroMatrixSig (pk : RawPk) (h : Int) : RawSig :=
  ⟨true, false, 0, 0, 0, 0, 0, 0, h, 0, pk.hint0, pk.hint1, pk.hint0, pk.hint1⟩

/-- negation witness for the pinned verifier (no guard, no validity checks): for EVERY public key, message hash
    value and whatever the arithmetic reports, the zero-matrix signature with the fitted challenge is accepted -/
theorem pinned_accepts_zero_matrix_dim2 (K : Lvl) (pk : RawPk) (o : OracleDim2) :
    verifyDim2 noGuardDim2 false K pk (zeroMatrixSig pk o.h) o = true := by
  simp [verifyDim2, noGuardDim2, challEqDim2, zeroMatrixSig]

/-- the same signature is rejected by any verifier with the order tests (here: for a sound oracle) -/
theorem repaired_rejects_zero_matrix_dim2 (g : Lvl → RawPk → RawSig → Bool) (K : Lvl) (pk : RawPk) (o : OracleDim2)
    (k : ℕ) (hk : 1 ≤ k) (hs : OracleSoundP1 k (zeroMatrixSig pk o.h) o) :
    verifyDim2 g true K pk (zeroMatrixSig pk o.h) o = false :=
  structural_forgery_rejected_trl0 g K pk _ o k hk hs (by simp [zeroMatrixSig])

/-- non-vacuity of `OracleSoundP1` / the structural theorems: an invertible matrix passes the three tests -/
example : testOrderTwoF 130 (pt 130 3 2) ∧ testOrderTwoF 130 (pt 130 4 5) ∧ testOrderTwoF 130 (pt 130 3 2 - pt 130 4 5) :=
  (kernel_orders_iff_det_odd 130 (by norm_num) 3 4 2 5).2 (by decide)

/-! ### why each order test matters differently (measured behaviour of the chain, stated as hypotheses)

Measured on the real code (tools/props/c02.py, families with valid public hints; seeded change C02-m2):
  * T1.P1 = O (first column of the matrix zero) and the T1.P1 test missing: the (2,2)-chain degenerates to the all-zero theta
    null point, `splitting_comput` reports it as split, the recovered commitment is the record (A : C) = (0 : 0) whose encoded
    j-invariant is 0 — so the oracle returns `split = true` and `h = H(0 ‖ j(pk) ‖ m)`, a value computable in advance;
  * T2.P1 = O or T1−T2 = O on the first factor, or a short / singular point on the second factor, with the corresponding test
    missing: the chain reports "not split" (`split = false`), every such run was rejected.
The first item turns into a forgery in the model (`forgeable_if_T1P1_unchecked`), the second into a rejection
(`rejected_if_not_split`); that the chain behaves this way is an observation about the theta formulas, not a theorem. -/

/-- the masked decision with all six tests is the decision of the current code -/
theorem verifyDim2Masked_all (g : Lvl → RawPk → RawSig → Bool) (K : Lvl) (pk : RawPk) (s : RawSig) (o : OracleDim2) :
    verifyDim2Masked g OrderMask.all K pk s o = verifyDim2 g true K pk s o := by
  simp [verifyDim2Masked, verifyDim2, OrderMask.all, OracleDim2.ordAll, Bool.and_assoc]

/-- a verifier that performs every test except the one on T1.P1 accepts the signature with first column zero and the
    challenge precomputed for the degenerate commitment — *given* the measured behaviour of the degenerate chain
    (`hdeg`: the other five tests pass, the chain "splits", the recomputed hash is the constant `h0`) -/
theorem forgeable_if_T1P1_unchecked (g : Lvl → RawPk → RawSig → Bool) (K : Lvl) (pk : RawPk) (s : RawSig) (o : OracleDim2) (h0 : Int)
    (hg : g K pk s = true) (htrl : s.trl ≤ 0 ∨ o.kerOk = true) (hb : s.challB = 0) (hch : s.chall = h0)
    (hdeg : o.t2p1 = true ∧ o.t12p1 = true ∧ o.t1p2 = true ∧ o.t2p2 = true ∧ o.t12p2 = true ∧ o.split = true ∧ o.h = h0) :
    verifyDim2Masked g ⟨false, true, true, true, true, true⟩ K pk s o = true := by
  obtain ⟨a, b, c, d, e, f, hh⟩ := hdeg
  have hk : (decide (s.trl ≤ 0) || o.kerOk) = true := by
    rcases htrl with h | h
    · simp [h]
    · simp [h]
  simp [verifyDim2Masked, hg, hk, a, b, c, d, e, f, hh, challEqDim2, hb, hch]

/-- …whereas a chain that reports "not split" is rejected whatever tests are performed -/
theorem rejected_if_not_split (g : Lvl → RawPk → RawSig → Bool) (mk : OrderMask) (K : Lvl) (pk : RawPk) (s : RawSig)
    (o : OracleDim2) (h : o.split = false) : verifyDim2Masked g mk K pk s o = false := by
  simp [verifyDim2Masked, h]

/-- …and with the T1.P1 test in place the first-column-zero family is rejected (sound oracle: T1.P1 = O has not full order) -/
theorem first_column_zero_rejected (g : Lvl → RawPk → RawSig → Bool) (K : Lvl) (pk : RawPk) (s : RawSig) (o : OracleDim2)
    (k : ℕ) (hk : 1 ≤ k) (hs : OracleSoundP1 k s o) (h0 : s.m00 = 0 ∧ s.m10 = 0) :
    verifyDim2 g true K pk s o = false :=
  structural_forgery_rejected_trl0 g K pk s o k hk hs (by rw [h0.1, h0.2]; simp)

/-! ## 5. NIST-style entry points -/

/-- every entry point of src/sqisign.c that is still a stub returns a non-zero value (failure) -/
theorem nist_api_fails_closed :
    SqiGen.VerifGuard.nistApi.all (fun e => !e.2.1 || decide (e.2.2 ≠ 0)) = true ∧
    (SqiGen.VerifGuard.nistApi.map (·.1)) = ["sqisign_keypair", "sqisign_sign", "sqisign_open", "sqisign_verify"] := by
  decide

/-- pinned tree: `int ret = 0; return ret;` — "success" for every argument, e.g. for `sqisign_verify` on garbage -/
theorem nist_api_pinned_reports_success : nistApiReturn false = 0 ∧ nistApiReturn true ≠ 0 := by decide

end SqiProps.C02

/-
C03 — verification is total and memory-safe on arbitrary signature / public-key values; values outside the
ranges an honest signer can emit are rejected.

Model: `SqiModel.Verify.verifyAccesses{Dim2,Heur} K guard pk sig` (SqiModel/VerifyAccess.lean) lists every table
index, VLA / malloc element count, digit-array destination size, input-controlled loop bound, `ibz_pow` exponent
and `int` expression of `protocols_verif` (both variants) as a function of the raw field values (unbounded `Int`).
`guard` is the range validation at the top of the C function, **re-extracted from the C text on every run**
(`SqiGen.VerifGuard.dim2` / `.heur`, tools/translate/verif_guard.py); level constants and strategy tables come from
the generated tables (`SqiModel.Verify.L1/L3/L5`).

Full-strength statements (about the code as it is now):
  * `verify_safe_dim2/heur`   : ∀ level, ∀ pk sig (all `Int` field values), every access is in bounds / every loop bounded;
  * `verify_rejects_out_of_range_dim2/heur` : outside `sigInRange…` the verifier returns 0 (for every value of the
    arithmetic oracle) and touches nothing.
They rest on `guard_iff_inRange_*` (the guard extracted from C is *exactly* the honest range), so removing the
call, dropping a comparison or weakening a bound by one breaks this file.  On the pinned tree (no guard: the
generated guard is the constant `true`) these statements are FALSE; that state is recorded by the theorems about
the unguarded model (`noGuard…`): `verify_safe_unguarded_false_*` with one concrete witness per defect class, and
by `verify_safe_partial_*` (in bounds for every in-range input, independent of any guard).
-/
import SqiProofs.VerifyWf
import SqiModel.VerifyDecision
import SqiGen.VerifGuard

set_option autoImplicit false

namespace SqiProps.C03
open SqiModel.Verify SqiGen.VerifGuard
set_option linter.unusedSimpArgs false
set_option maxRecDepth 100000

/-- the levels the statements range over (constants and tables regenerated from the C headers) -/
def IsLevel (K : Lvl) : Prop := K = L1 ∨ K = L3 ∨ K = L5

theorem wfDim2_of_level {K : Lvl} (h : IsLevel K) : WfDim2 K := by
  rcases h with rfl | rfl | rfl
  · exact L1_wfDim2
  · exact L3_wfDim2
  · exact L5_wfDim2

theorem wfHeur_of_level {K : Lvl} (h : IsLevel K) : WfHeur K := by
  rcases h with rfl | rfl | rfl
  · exact L1_wfHeur
  · exact L3_wfHeur
  · exact L5_wfHeur

/-! ## in-range inputs are safe (holds for the pinned and the repaired code alike) -/

/-- partial: under the explicit decidable predicate `sigInRangeDim2` every access of the body is in bounds -/
theorem verify_safe_partial_dim2 {K : Lvl} (hK : IsLevel K) (pk : RawPk) (s : RawSig)
    (h : sigInRangeDim2 K pk s = true) : ∀ a ∈ bodyDim2 K pk s, a.ok = true :=
  fun _ ha => allOk_mem (bodyDim2_ok K (wfDim2_of_level hK) pk s h) ha

theorem verify_safe_partial_heur {K : Lvl} (hK : IsLevel K) (pk : RawPk) (s : RawSigH)
    (h : sigInRangeHeur K pk s = true) : ∀ a ∈ bodyHeur K pk s, a.ok = true :=
  fun _ ha => allOk_mem (bodyHeur_ok K (wfHeur_of_level hK) pk s h) ha

/-- non-vacuity: values of the shape an honest level-1 signer emits are in range (and the body is non-trivial) -/
def pkEx : RawPk := ⟨true, false, 1, 2⟩
def sigEx : RawSig := ⟨true, false, 0, 1, 2 ^ 129 + 5, 6, 7, 2 ^ 130 - 1, 2 ^ 256 - 1, 0, 0, 2, 23, 0⟩
def sigHEx : RawSigH := ⟨true, false, 2, 0, 21, 2 ^ 124 - 1, 0, 2 ^ 124 - 1, 5, 2 ^ 123, 7, 1, 0⟩
example : sigInRangeDim2 L1 pkEx sigEx = true ∧ (cheapDim2 L1 pkEx sigEx).length ≥ 20 := by decide +kernel
example : sigInRangeHeur L1 pkEx sigHEx = true ∧ (cheapHeur L1 pkEx sigHEx).length ≥ 20 := by decide +kernel

/-! ## the unguarded model (pinned tree): the full statement is false — one witness per defect class -/

def unsafeWitnessesDim2 : List (String × RawSig) :=
  [ ("two_resp_length = 20: strategies[140] of 134 rows",            { sigEx with trl := 20 }),
    ("two_resp_length = 14: first row past the table",               { sigEx with trl := 14 }),
    ("two_resp_length = -121: negative strategies row",              { sigEx with trl := -121 }),
    ("two_resp_length = INT_MIN: signed overflow in response_length - two_resp_length", { sigEx with trl := -2 ^ 31 }),
    ("two_resp_length = INT_MAX: 2^31 doublings (non-termination)",  { sigEx with trl := 2 ^ 31 - 1 }),
    ("backtracking = -65000: phi_chall.length wraps as unsigned short, naive chain of 65248 steps", { sigEx with bt := -65000 }),
    ("backtracking = INT_MAX: 2^31 doublings",                       { sigEx with bt := 2 ^ 31 - 1 }),
    ("chall_coeff = 2^256: 5 words into scal[NWORDS_ORDER = 4]",     { sigEx with chall := 2 ^ 256 }),
    ("chall_coeff = -2^300: |x| is written, 5 words into 4",         { sigEx with chall := -(2 ^ 300) }) ]

def unsafeWitnessesHeur : List (String × RawSigH) :=
  [ ("two_resp_length = 10: strategies[134] of 134 rows",            { sigHEx with trl := 10 }),
    ("two_resp_length = 127: ibz_pow(2, -1) = 2^(2^64-1)",           { sigHEx with trl := 127 }),
    ("two_resp_length = -200: negative isogeny length (wraps as unsigned short: 65000+ naive steps)", { sigHEx with trl := -200 }),
    ("two_resp_length = INT_MAX: signed overflow in len_chall + two_resp_length", { sigHEx with trl := 2 ^ 31 - 1 }) ]

/-- every listed witness makes the unguarded level-1 model perform an out-of-bounds / unbounded access -/
theorem unsafe_witnesses_dim2 :
    unsafeWitnessesDim2.all (fun w => !allOk (verifyAccessesDim2 L1 noGuardDim2 pkEx w.2)) = true := by decide +kernel
theorem unsafe_witnesses_heur :
    unsafeWitnessesHeur.all (fun w => !allOk (verifyAccessesHeur L1 noGuardHeur pkEx w.2)) = true := by decide +kernel
/- (On the pinned basis.c negative hints were witnesses too — `NQR_TABLE[-1]` passes `hint < 20`; the table branch of the
   `*_from_hint` routines has since been guarded by `hint >= 0` in /repo, which the model follows through the extracted
   `SqiGen.VerifConsts.hintLo…`; the sanitizer probes still cover negative hints on every hint field.) -/

/-- negation of `verify_safe` for a verifier without range validation (the pinned tree) -/
theorem verify_safe_unguarded_false_dim2 :
    ¬ ∀ (pk : RawPk) (s : RawSig), ∀ a ∈ verifyAccessesDim2 L1 noGuardDim2 pk s, a.ok = true := by
  intro h
  have hall : allOk (verifyAccessesDim2 L1 noGuardDim2 pkEx { sigEx with trl := 20 }) = true := by
    unfold allOk; exact List.all_eq_true.2 (h pkEx { sigEx with trl := 20 })
  have hfalse : allOk (verifyAccessesDim2 L1 noGuardDim2 pkEx { sigEx with trl := 20 }) = false := by decide +kernel
  rw [hfalse] at hall
  cases hall

theorem verify_safe_unguarded_false_heur :
    ¬ ∀ (pk : RawPk) (s : RawSigH), ∀ a ∈ verifyAccessesHeur L1 noGuardHeur pk s, a.ok = true := by
  intro h
  have hall : allOk (verifyAccessesHeur L1 noGuardHeur pkEx { sigHEx with trl := 10 }) = true := by
    unfold allOk; exact List.all_eq_true.2 (h pkEx { sigHEx with trl := 10 })
  have hfalse : allOk (verifyAccessesHeur L1 noGuardHeur pkEx { sigHEx with trl := 10 }) = false := by decide +kernel
  rw [hfalse] at hall
  cases hall

/-- …and without a guard out-of-range values are *not* rejected by the decision logic: the all-out-of-range
    witness below is accepted by the pinned model as soon as the hash matches -/
theorem verify_rejects_out_of_range_unguarded_false :
    ¬ ∀ (pk : RawPk) (s : RawSig) (o : OracleDim2), sigInRangeDim2 L1 pk s = false →
        verifyDim2 noGuardDim2 false L1 pk s o = false := by
  intro h
  have := h pkEx { sigEx with m00 := 2 ^ 1024, chall := 5 } ⟨false, false, false, false, false, false, false, false, 5⟩
    (by decide +kernel)
  revert this
  decide +kernel

/-! ## the guard extracted from the C text is exactly the honest range (all levels, all values) -/

theorem guard_iff_inRange_dim2 (K : Lvl) (pk : RawPk) (s : RawSig) :
    dim2 K pk s = true ↔ sigInRangeDim2 K pk s = true := by
  obtain ⟨pc, pa, ph0, ph1⟩ := pk
  obtain ⟨c, a, bt, trl, m00, m01, m10, m11, chall, challB, ha0, ha1, hc0, hc1⟩ := s
  unfold dim2 dim2Pk dim2Sig sigInRangeDim2 pkInRange inU maxTrlDim2
  cases pc <;> cases pa <;> cases c <;> cases a <;>
    simp only [Bool.and_eq_true, Bool.or_eq_true,
      Bool.not_eq_true', Bool.not_true, Bool.not_false, Bool.or_false, Bool.or_true, Bool.false_or, Bool.true_or,
      Bool.false_and, Bool.true_and, Bool.and_false, Bool.and_true, decide_eq_true_eq, decide_eq_false_iff_not,
      false_and, and_false, true_and, and_true, Bool.false_eq_true, Bool.or_eq_false_iff,
      Int.natCast_add, Int.natCast_mul] <;>
    omega

theorem guard_iff_inRange_heur (K : Lvl) (pk : RawPk) (s : RawSigH) :
    heur K pk s = true ↔ sigInRangeHeur K pk s = true := by
  obtain ⟨pc, pa, ph0, ph1⟩ := pk
  obtain ⟨c, a, trl, ha0, ha1, x, hintB, b0, d0, b1, d1, c0, e0⟩ := s
  unfold heur heurPk heurSig sigInRangeHeur pkInRange inU maxTrlHeur
  cases pc <;> cases pa <;> cases c <;> cases a <;>
    simp only [Bool.and_eq_true, Bool.or_eq_true,
      Bool.not_eq_true', Bool.not_true, Bool.not_false, Bool.or_false, Bool.or_true, Bool.false_or, Bool.true_or,
      Bool.false_and, Bool.true_and, Bool.and_false, Bool.and_true, decide_eq_true_eq, decide_eq_false_iff_not,
      false_and, and_false, true_and, and_true, Bool.false_eq_true, Bool.or_eq_false_iff,
      Int.natCast_add, Int.natCast_mul] <;>
    omega

/-! ## full-strength statements about the current code -/

/-- every access of `protocols_verif` (sqisigndim2) is in bounds and every loop bounded, for ALL field values -/
theorem verify_safe_dim2 {K : Lvl} (hK : IsLevel K) (pk : RawPk) (s : RawSig) :
    ∀ a ∈ verifyAccessesDim2 K dim2 pk s, a.ok = true := by
  unfold verifyAccessesDim2
  split
  · next hg => exact verify_safe_partial_dim2 hK pk s ((guard_iff_inRange_dim2 K pk s).1 hg)
  · intro a ha; cases ha

theorem verify_safe_heur {K : Lvl} (hK : IsLevel K) (pk : RawPk) (s : RawSigH) :
    ∀ a ∈ verifyAccessesHeur K heur pk s, a.ok = true := by
  unfold verifyAccessesHeur
  split
  · next hg => exact verify_safe_partial_heur hK pk s ((guard_iff_inRange_heur K pk s).1 hg)
  · intro a ha; cases ha

/-- totality: every input-controlled loop of the verifier (`ec_dbl_iter` counts, the small two-isogeny chain, the
    unsigned `e_half - 1` bound of the 4-isogeny chain, cofactor clearing) runs at most `f` times, for ALL field values
    (corollary of `verify_safe_*`: loop bounds are part of the access list) -/
theorem verify_total_dim2 {K : Lvl} (hK : IsLevel K) (pk : RawPk) (s : RawSig) (what : String) (count : Int) (max : Nat)
    (h : Access.loop what count max ∈ verifyAccessesDim2 K dim2 pk s) : count ≤ max := by
  have := verify_safe_dim2 hK pk s _ h
  simpa [Access.ok] using this

theorem verify_total_heur {K : Lvl} (hK : IsLevel K) (pk : RawPk) (s : RawSigH) (what : String) (count : Int) (max : Nat)
    (h : Access.loop what count max ∈ verifyAccessesHeur K heur pk s) : count ≤ max := by
  have := verify_safe_heur hK pk s _ h
  simpa [Access.ok] using this

/-- **total work**: the iterations of all modelled loops of one verification (cofactor clearing, `ec_dbl_iter`, ladder,
    biscalar multiplications, 4-isogeny and (2,2)-isogeny steps, the naive chains incl. their inner doublings) are bounded by
    the explicit function `workCap K = 10 f + 4 (f + 64) + 2 f²` of the level, for ALL field values -/
theorem verify_total_work_dim2 {K : Lvl} (hK : IsLevel K) (pk : RawPk) (s : RawSig) :
    totalWork (verifyAccessesDim2 K dim2 pk s) ≤ workCap K := by
  have hall : allOk (verifyAccessesDim2 K dim2 pk s) = true := by
    unfold allOk; exact List.all_eq_true.2 (verify_safe_dim2 hK pk s)
  refine Nat.le_trans (totalWork_le_cap _ hall) ?_
  unfold verifyAccessesDim2
  split
  · exact totalCap_bodyDim2 K pk s
  · simp [totalCap_nil]

theorem verify_total_work_heur {K : Lvl} (hK : IsLevel K) (pk : RawPk) (s : RawSigH) :
    totalWork (verifyAccessesHeur K heur pk s) ≤ workCap K := by
  have hall : allOk (verifyAccessesHeur K heur pk s) = true := by
    unfold allOk; exact List.all_eq_true.2 (verify_safe_heur hK pk s)
  refine Nat.le_trans (totalWork_le_cap _ hall) ?_
  unfold verifyAccessesHeur
  split
  · exact totalCap_bodyHeur K pk s
  · simp [totalCap_nil]

/-- values outside the honest ranges are rejected (return value 0 whatever the arithmetic computes, whether or not
    the later validity checks exist) and nothing is accessed -/
theorem verify_rejects_out_of_range_dim2 (K : Lvl) (pk : RawPk) (s : RawSig) (o : OracleDim2) (checks : Bool)
    (h : sigInRangeDim2 K pk s = false) :
    verifyDim2 dim2 checks K pk s o = false ∧ verifyAccessesDim2 K dim2 pk s = [] := by
  have hg : dim2 K pk s = false := by
    cases hd : dim2 K pk s
    · rfl
    · rw [(guard_iff_inRange_dim2 K pk s).1 hd] at h; cases h
  simp [verifyDim2, verifyAccessesDim2, hg]

theorem verify_rejects_out_of_range_heur (K : Lvl) (pk : RawPk) (s : RawSigH) (o : OracleHeur) (checks : Bool)
    (h : sigInRangeHeur K pk s = false) :
    verifyHeur heur checks K pk s o = false ∧ verifyAccessesHeur K heur pk s = [] := by
  have hg : heur K pk s = false := by
    cases hd : heur K pk s
    · rfl
    · rw [(guard_iff_inRange_heur K pk s).1 hd] at h; cases h
  simp [verifyHeur, verifyAccessesHeur, hg]

/-- the guard does not reject what an honest signer emits (non-vacuity of `verify_safe`: the body is reached) -/
example : dim2 L1 pkEx sigEx = true ∧ verifyAccessesDim2 L1 dim2 pkEx sigEx ≠ [] := by decide +kernel
example : heur L1 pkEx sigHEx = true ∧ verifyAccessesHeur L1 heur pkEx sigHEx ≠ [] := by decide +kernel

/-- the honest ranges are intervals `0 ≤ z < 2^k` (readable form of `inU`) -/
theorem inRange_matrix_entries (K : Lvl) (pk : RawPk) (s : RawSig) (h : sigInRangeDim2 K pk s = true) :
    0 ≤ s.m00 ∧ s.m00 < 2 ^ (K.respLen + 2) ∧ 0 ≤ s.chall ∧ (1 ≤ K.radix * K.nwOrder → s.chall < 2 ^ (K.radix * K.nwOrder)) := by
  simp only [sigInRangeDim2, Bool.and_eq_true, and_assoc] at h
  obtain ⟨_, _, _, _, _, _, _, _, _, _, _, _, _, hc, hm, _⟩ := h
  have h1 := (inU_iff s.m00 (K.respLen + 2) (by omega)).1 hm
  refine ⟨h1.1, h1.2, ?_, ?_⟩
  · simp only [inU, Bool.and_eq_true, decide_eq_true_eq] at hc; exact hc.1
  · intro hk; exact ((inU_iff s.chall (K.radix * K.nwOrder) hk).1 hc).2

end SqiProps.C03

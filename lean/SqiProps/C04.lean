/-
C04 — key generation and signing never crash, whatever the random tape; rare events end in a valid
signature or an explicit failure code.

FULL STATEMENT (not provable here — needs memory safety of all the arithmetic below the protocols):
  ∀ level, variant, random tape: keygen/sign terminate without memory error / UB / abort, and
  (returns success → every value used was computed ∧ verification accepts).
PROVED HERE (model `SqiModel.SignBook`, tied to the C code by the trace correspondence of tools/props/c04.py
and by the regenerated tables `SqiGen.L{1,3,5}`):
  * every table row index, loop count and exponent that `protocols_sign`, `fixed_degree_isogeny` and the
    clapotis translation derive from the sampled response is in range exactly when
    v₂(response degree) ≤ vmax(level) (13/15/14, resp. 9/11/10 for the heuristic variant — derived from the
    generated tables) and the backtracking is below the number of table rows;  `sign_indices_safe`
  * the unguarded code is out of bounds at v₂ = vmax+1 (row index = number of rows);  `sign_indices_unsafe_witness`
  * `two_adic_valuation((int) ibz_get x)` is the true valuation iff 2^32 ∤ x;  `valuation_truncation`
  * the retry / early-exit state machine: for the shape in which every call site checks its callee
    ("all checked", which is what SqiProps/C04Code.lean proves of the *current* source text), every
    tape ends in `ok` or explicit failure, and `ok` implies that no step failed and all indices were in
    range;  for a shape with an unchecked site the negation holds with an explicit injection schedule
    (`failure_dropped_*`), replayed on the real code through hook H2.
PARTIAL: everything below the modelled integers (field/curve/theta arithmetic, GMP) is exercised under
ASan/UBSan by the forced-branch sweep, not proved.
-/
import SqiModel.SignBook
import SqiProofs.SignBook
import SqiGen.Tables1
import SqiGen.Tables3
import SqiGen.Tables5

namespace SqiProps.C04
open SqiModel.SignBook

/-! ## valuation -/

/-- `two_adic_valuation((int) ibz_get(x))` is exact whenever the low 32 bits of `x` are not all zero -/
theorem valuation_exact_below_2_32 (x : Nat) (h : x % 2 ^ 32 ≠ 0) : tavC x = v2 x ∧ v2 x < 32 :=
  ⟨tavC_of_low_nonzero h, v2_lt_of_low_nonzero h⟩

/-- … and wrong (it answers 0) for every non-zero multiple of 2^32 -/
theorem valuation_truncation (x : Nat) (h0 : x ≠ 0) (h : 2 ^ 32 ∣ x) : tavC x = 0 ∧ 32 ≤ v2 x ∧ tavC x ≠ v2 x := by
  have h1 := tavC_of_low_zero (Nat.mod_eq_zero_of_dvd h)
  have h2 := pow_dvd_le_v2 32 x h0 h
  exact ⟨h1, h2, by omega⟩

example : (2 ^ 32 : Nat) ≠ 0 ∧ 2 ^ 32 ∣ (2 ^ 32 : Nat) := by decide
example : tavC (2 ^ 32) = 0 ∧ tavC (3 * 2 ^ 40) = 0 ∧ tavC (2 ^ 31) = 31 ∧ tavC 12 = 2 := by decide

/-- the model of what the code computes (`codeVal`) is `tavC` of any integer with that valuation -/
theorem tavC_eq_codeVal (S : Shape) (hS : S.exactValuation = false) (x : Nat) (h0 : x ≠ 0) :
    tavC x = codeVal S (v2 x) := by
  unfold codeVal
  simp only [hS]
  by_cases h : x % 2 ^ 32 = 0
  · have hd : 2 ^ 32 ∣ x := Nat.dvd_of_mod_eq_zero h
    have := valuation_truncation x h0 hd
    simp [this.1, this.2.1]
  · have := valuation_exact_below_2_32 x h
    have h3 : ¬ 32 ≤ v2 x := by omega
    simp [this.1, h3]

/-! ## table-derived bounds -/

/-- facts about the level constants that the index arithmetic relies on (decided per level from the
regenerated tables below) -/
structure WF (P : Params) : Prop where
  resp_le : P.respLen + 2 ≤ P.f
  rows_le : P.rows ≤ P.f
  vmax_nonneg : P.f < P.rows + P.respLen
  bt_le : P.btBound ≤ P.rows
  heur_split : P.lenChall + P.heurBound = P.f
  heur_rows : P.f + 2 < P.rows + P.heurBound
  heur_pos : 3 ≤ P.lenChall

/-- **sign_indices_safe** — every index / count of the dimension-2 signer is in range iff the valuation of the
response degree is at most `vmax` and the backtracking is below the number of STRATEGY4 rows -/
theorem sign_indices_safe (P : Params) (h : WF P) (bt v : Nat) :
    dim2Safe P bt v = true ↔ ((v : Int) ≤ P.vmaxDim2 ∧ bt < P.rows) := by
  obtain ⟨h1, h2, h3, h4, h5, h6, h7⟩ := h
  simp only [dim2Safe, dim2Accesses, dim2Book, Access.ok, Params.vmaxDim2, List.all_cons, List.all_nil,
    Bool.and_true, Bool.and_eq_true, decide_eq_true_eq]
  omega

/-- **sign_indices_unsafe_witness** — the unguarded code at `v = vmax + 1`: the row index equals the number of rows -/
theorem sign_indices_unsafe_witness (P : Params) (h : WF P) (bt v : Nat) (hv : (v : Int) = P.vmaxDim2 + 1) :
    (dim2Book P bt v).row = P.rows ∧ dim2Safe P bt v = false := by
  constructor
  · simp only [dim2Book]; simp only [Params.vmaxDim2] at hv; omega
  · cases hs : dim2Safe P bt v with
    | false => rfl
    | true => have := ((sign_indices_safe P h bt v).1 hs).1; omega

/-- the guard of the repaired signer implies safety (so guarded code never indexes out of range) and it
rejects nothing that is safe except backtracking ≥ bound -/
theorem guard_implies_safe (P : Params) (h : WF P) (bt v : Nat) :
    dim2GuardPasses P bt v = true ↔ (dim2Safe P bt v = true ∧ bt < P.btBound) := by
  rw [sign_indices_safe P h]
  obtain ⟨h1, h2, h3, h4, h5, h6, h7⟩ := h
  unfold dim2GuardPasses dim2Book Params.vmaxDim2
  simp only [Bool.and_eq_true]
  repeat rw [decide_eq_true_iff]
  omega

theorem heur_indices_safe (P : Params) (h : WF P) (v : Nat) :
    heurSafe P v = true ↔ (v : Int) ≤ P.vmaxHeur := by
  obtain ⟨h1, h2, h3, h4, h5, h6, h7⟩ := h
  simp only [heurSafe, heurAccesses, heurBook, Access.ok, Params.vmaxHeur, List.all_cons, List.all_nil,
    Bool.and_true, Bool.and_eq_true, decide_eq_true_eq]
  omega

theorem heur_guard_iff_safe (P : Params) (h : WF P) (v : Nat) :
    heurGuardPasses P v = true ↔ heurSafe P v = true := by
  rw [heur_indices_safe P h]
  obtain ⟨h1, h2, h3, h4, h5, h6, h7⟩ := h
  unfold heurGuardPasses heurBook Params.vmaxHeur
  simp only [Bool.and_eq_true]
  repeat rw [decide_eq_true_iff]
  omega

/-- `fixed_degree_isogeny` with `small = 1`: in range exactly for `pbits + 17 - f ≤ bitsize(u)`,
`bitsize(u) + f ≤ rows + pbits + 14` and `2·bitsize(u) ≤ pbits + 15` -/
theorem fixed_degree_safe (P : Params) (ub : Nat) :
    fixedDegSafe P true ub = true ↔
      (P.pbits + 17 ≤ ub + P.f ∧ ub + P.f ≤ P.rows + P.pbits + 14 ∧ 2 * ub ≤ P.pbits + 15) := by
  simp only [fixedDegSafe, fixedDegAccesses, fixedDegBook, Access.ok, List.all_cons, List.all_nil,
    Bool.and_true, Bool.and_eq_true, decide_eq_true_eq, if_true]
  omega

/-- the guard of the repaired `fixed_degree_isogeny` (as coded) passes exactly when every access is in range — for
EVERY bit size of u, both values of `small`, any level constants -/
theorem fixed_degree_guard_iff_safe (P : Params) (small : Bool) (ub : Nat) :
    fixedDegGuardPasses P small ub = true ↔ fixedDegSafe P small ub = true := by
  unfold fixedDegGuardPasses fixedDegSafe fixedDegAccesses fixedDegBook Access.ok
  cases small <;>
    simp only [List.all_cons, List.all_nil, Bool.and_true, Bool.and_eq_true, Bool.not_eq_true', Bool.or_eq_false_iff,
      decide_eq_true_eq, decide_eq_false_iff_not, if_true, if_false, Bool.false_eq_true] <;> omega

/-- **fixed_degree_isogeny never misbehaves** (guarded code): every u gives success or explicit failure; success implies
that all accesses were in range -/
theorem fixed_degree_never_bad (P : Params) (small : Bool) (ub : Nat) (ri : Bool) :
    (∀ s, flowFixedDeg P Shape.allChecked small ub ri ≠ .bad s) ∧
    (flowFixedDeg P Shape.allChecked small ub ri = .ok → fixedDegSafe P small ub = true ∧ ri = false) := by
  have h := fixed_degree_guard_iff_safe P small ub
  unfold flowFixedDeg
  cases hg : fixedDegGuardPasses P small ub
  · simp [Shape.allChecked]
  · have hs := h.1 hg
    cases ri <;> simp [Shape.allChecked, hs]

theorem clapotis_safe (P : Params) (g : Nat) : clapotisSafe P g = true ↔ (g + 2 < P.rows ∧ g + 1 ≤ P.f) := by
  unfold clapotisSafe clapotisRow
  simp only [Bool.and_eq_true]
  repeat rw [decide_eq_true_iff]
  omega

/-! ## the three levels (constants regenerated from the C headers on every run) -/

def P1 : Params := ⟨SqiGen.L1.D_POWER_OF_2, SqiGen.L1.D_SQIsign2D_response_length, SqiGen.L1.D_SQIsign2D_response_heuristic_bound,
  SqiGen.L1.D_SQIsign2D_heuristic_challenge_length, SqiGen.L1.D_SQIsign2D_backtracking_bound, SqiGen.L1.strategies.length, 251,
  SqiGen.L1.D_SQIsign2D_small_fixed_deg_exp⟩
def P3 : Params := ⟨SqiGen.L3.D_POWER_OF_2, SqiGen.L3.D_SQIsign2D_response_length, SqiGen.L3.D_SQIsign2D_response_heuristic_bound,
  SqiGen.L3.D_SQIsign2D_heuristic_challenge_length, SqiGen.L3.D_SQIsign2D_backtracking_bound, SqiGen.L3.strategies.length, 383,
  SqiGen.L3.D_SQIsign2D_small_fixed_deg_exp⟩
def P5 : Params := ⟨SqiGen.L5.D_POWER_OF_2, SqiGen.L5.D_SQIsign2D_response_length, SqiGen.L5.D_SQIsign2D_response_heuristic_bound,
  SqiGen.L5.D_SQIsign2D_heuristic_challenge_length, SqiGen.L5.D_SQIsign2D_backtracking_bound, SqiGen.L5.strategies.length, 505,
  SqiGen.L5.D_SQIsign2D_small_fixed_deg_exp⟩

/-- `pbits` is the bit size of the prime of each level, and both strategy tables have `rows` rows -/
theorem params_tables :
    (2 ^ (P1.pbits - 1) ≤ SqiGen.L1.FP_p ∧ SqiGen.L1.FP_p < 2 ^ P1.pbits ∧ SqiGen.L1.STRATEGY4.length = P1.rows) ∧
    (2 ^ (P3.pbits - 1) ≤ SqiGen.L3.FP_p ∧ SqiGen.L3.FP_p < 2 ^ P3.pbits ∧ SqiGen.L3.STRATEGY4.length = P3.rows) ∧
    (2 ^ (P5.pbits - 1) ≤ SqiGen.L5.FP_p ∧ SqiGen.L5.FP_p < 2 ^ P5.pbits ∧ SqiGen.L5.STRATEGY4.length = P5.rows) := by
  decide +kernel

instance (P : Params) : Decidable (WF P) :=
  decidable_of_iff (P.respLen + 2 ≤ P.f ∧ P.rows ≤ P.f ∧ P.f < P.rows + P.respLen ∧ P.btBound ≤ P.rows ∧
      P.lenChall + P.heurBound = P.f ∧ P.f + 2 < P.rows + P.heurBound ∧ 3 ≤ P.lenChall)
    ⟨fun ⟨a, b, c, d, e, f, g⟩ => ⟨a, b, c, d, e, f, g⟩, fun ⟨a, b, c, d, e, f, g⟩ => ⟨a, b, c, d, e, f, g⟩⟩

theorem levels_wf : WF P1 ∧ WF P3 ∧ WF P5 := by decide +kernel

/-- `vmax` derived from the generated tables: 13 / 15 / 14 (dimension 2) and 9 / 11 / 10 (heuristic) -/
theorem levels_vmax :
    P1.vmaxDim2 = 13 ∧ P3.vmaxDim2 = 15 ∧ P5.vmaxDim2 = 14 ∧ P1.vmaxHeur = 9 ∧ P3.vmaxHeur = 11 ∧ P5.vmaxHeur = 10 := by
  decide +kernel

/-- the pinned, unguarded level-1 signer at v₂ = 14: row 134 of a 134-row table -/
theorem L1_unsafe_at_14 : (dim2Book P1 0 14).row = 134 ∧ P1.rows = 134 ∧ dim2Safe P1 0 14 = false := by decide +kernel
theorem L3_unsafe_at_16 : (dim2Book P3 0 16).row = (P3.rows : Int) ∧ dim2Safe P3 0 16 = false := by decide +kernel
theorem L5_unsafe_at_15 : (dim2Book P5 0 15).row = (P5.rows : Int) ∧ dim2Safe P5 0 15 = false := by decide +kernel
example : dim2Safe P1 0 13 = true ∧ dim2Safe P1 15 13 = true ∧ heurSafe P1 9 = true ∧ heurSafe P1 10 = false := by decide +kernel

/-- range of `bitsize(u)` for which `fixed_degree_isogeny(small)` stays inside the table -/
def fixedLo (P : Params) : Nat := P.pbits + 17 - P.f
def fixedHi (P : Params) : Nat := min (P.rows + P.pbits + 14 - P.f) ((P.pbits + 15) / 2)

theorem fixed_degree_range (P : Params) (h1 : P.f ≤ P.pbits + 17) (h2 : P.f ≤ P.rows + P.pbits + 14) (ub : Nat) :
    fixedDegSafe P true ub = true ↔ (fixedLo P ≤ ub ∧ ub ≤ fixedHi P) := by
  rw [fixed_degree_safe]; unfold fixedLo fixedHi; omega

theorem levels_fixed_degree :
    (P1.f ≤ P1.pbits + 17 ∧ P1.f ≤ P1.rows + P1.pbits + 14 ∧ fixedLo P1 = 20 ∧ fixedHi P1 = 133) ∧
    (P3.f ≤ P3.pbits + 17 ∧ P3.f ≤ P3.rows + P3.pbits + 14 ∧ fixedLo P3 = 24 ∧ fixedHi P3 = 199) ∧
    (P5.f ≤ P5.pbits + 17 ∧ P5.f ≤ P5.rows + P5.pbits + 14 ∧ fixedLo P5 = 22 ∧ fixedHi P5 = 260) := by
  decide +kernel

/-- negation for the unguarded code: a 17-bit u at level 1 (u = 65537) indexes row -1 -/
theorem fixed_degree_unguarded_witness (S : Shape) (h : S.fixedDegGuard = false) :
    flowFixedDeg P1 S true 17 false = .bad "fixed_degree_isogeny: length without strategy row / negative doubling count / u >= 2^length" ∧
    (fixedDegBook P1 true 17).row = -1 := by
  have hs : fixedDegSafe P1 true 17 = false := by decide +kernel
  refine ⟨by simp [flowFixedDeg, h, hs], by decide +kernel⟩

example : flowFixedDeg P1 Shape.allChecked true 17 false = .fail ∧ flowFixedDeg P1 Shape.allChecked true 120 false = .ok ∧
    flowFixedDeg P1 Shape.allChecked true 134 false = .fail := by decide +kernel

/-! ## control flow -/

/-- **failure_propagation** (dimension-2 signer).  With every call site checking its callee, no tape reaches a
`bad` event; `ok` is reached only when no step failed, the valuations are in range, and the backtracking is
below its bound. -/
theorem failure_propagation_dim2 (P : Params) (h : WF P) (t : Dim2Tape) :
    (∀ s, flowDim2 P Shape.allChecked t ≠ .bad s) ∧
    (flowDim2 P Shape.allChecked t = .ok →
      t.com.uvFails < 3 ∧ t.com.fuFail = false ∧ t.com.fvFail = false ∧ t.riFail = false ∧
      t.aux.uvFails < 3 ∧ t.aux.fuFail = false ∧ t.aux.fvFail = false ∧
      dim2Safe P t.bt t.v = true ∧ t.bt < P.btBound) := by
  have hg := guard_implies_safe P h t.bt t.v
  unfold flowDim2
  rw [clap_all, clap_all]
  cases hc : (decide (t.com.uvFails < 3) && !t.com.fuFail && !t.com.fvFail)
  · simp [Shape.allChecked]
  · simp only [Shape.allChecked, codeVal, if_true, ne_eq, not_true_eq_false, false_or, if_false, Bool.true_and]
    cases hgp : dim2GuardPasses P t.bt t.v
    · simp
    · obtain ⟨hs, hb⟩ := hg.1 hgp
      simp only [hs, Bool.not_true, if_false, Bool.false_eq_true]
      cases hri : t.riFail
      · cases ha : (decide (t.aux.uvFails < 3) && !t.aux.fuFail && !t.aux.fvFail)
        · simp
        · simp at hc ha
          simp [hc, ha, hb]
      · simp

example : WF P1 ∧ flowDim2 P1 Shape.allChecked ⟨⟨1, false, false⟩, 2, 13, false, ⟨0, false, false⟩⟩ = .ok ∧
    flowDim2 P1 Shape.allChecked ⟨⟨0, false, false⟩, 0, 14, false, ⟨0, false, false⟩⟩ = .fail ∧
    flowDim2 P1 Shape.allChecked ⟨⟨0, false, false⟩, 0, 3, false, ⟨3, false, false⟩⟩ = .fail := by decide +kernel

theorem failure_propagation_heur (P : Params) (h : WF P) (t : HeurTape) :
    (∀ s, flowHeur P Shape.allChecked t ≠ .bad s) ∧
    (flowHeur P Shape.allChecked t = .ok →
      t.comFail = false ∧ t.respFound = true ∧ t.riFail = false ∧
      t.aux.uvFails < 3 ∧ t.aux.fuFail = false ∧ t.aux.fvFail = false ∧ heurSafe P t.v = true) := by
  have hg := heur_guard_iff_safe P h t.v
  unfold flowHeur
  rw [clap_all]
  cases hcf : t.comFail
  · cases hrf : t.respFound
    · simp
    · simp only [Shape.allChecked, codeVal, if_true, ne_eq, not_true_eq_false, if_false, Bool.true_and, Bool.not_true,
        Bool.false_eq_true]
      cases hgp : heurGuardPasses P t.v
      · simp
      · have hs := hg.1 hgp
        simp only [hs, Bool.not_true, if_false, Bool.false_eq_true]
        cases hri : t.riFail
        · cases ha : (decide (t.aux.uvFails < 3) && !t.aux.fuFail && !t.aux.fvFail)
          · simp
          · simp at ha
            simp [ha]
        · simp
  · simp [Shape.allChecked]

theorem failure_propagation_hd (t : HdTape) :
    (∀ s, flowHd Shape.allChecked t ≠ .bad s) ∧
    (flowHd Shape.allChecked t = .ok → t.comFail = false ∧ t.respFound = true) := by
  obtain ⟨a, b⟩ := t
  cases a <;> cases b <;> simp [flowHd, Shape.allChecked]

/-- key generation with the retry loop: never a bad event; succeeds as soon as one attempt succeeds -/
theorem keygen_never_bad (ts : List ClapTape) : ∀ s, flowKeygen Shape.allChecked true ts ≠ some (.bad s) := by
  induction ts with
  | nil => intro s; simp [flowKeygen]
  | cons t ts ih =>
    intro s
    unfold flowKeygen
    rw [clap_all]
    cases (decide (t.uvFails < 3) && !t.fuFail && !t.fvFail) <;> simp [ih]

theorem keygen_ok_of_success (ts : List ClapTape) (h : ∃ t ∈ ts, clapotis Shape.allChecked t = .ok true) :
    flowKeygen Shape.allChecked true ts = some .ok := by
  induction ts with
  | nil => obtain ⟨t, ht, _⟩ := h; cases ht
  | cons t ts ih =>
    unfold flowKeygen
    cases hc : clapotis Shape.allChecked t with
    | error e => rw [clap_all] at hc; cases hc
    | ok b =>
      cases b with
      | true => rfl
      | false =>
        simp only [if_true]
        apply ih
        obtain ⟨t', ht', hk⟩ := h
        cases ht' with
        | head => rw [hc] at hk; cases hk
        | tail _ hm => exact ⟨t', hm, hk⟩

/-! ### bounded work

Termination of the control skeleton GIVEN termination of the leaf routines.  Every path of sign (three variants) makes
at most `N` calls of leaf routines, with N computed from the loop budgets in the C text; key generation makes exactly
as many translation attempts as the position of the first successful one.
Leaf routines with their own bounded loops: find_uv (finite enumeration), fixed_degree_isogeny → represent_integer_non_diag and
represent_integer (KLPT_repres_num_gamma_trial rounds), generate_random_prime (KLPT_random_prime_attempts · bitsize rounds),
quat_lattice_lll, the theta / isogeny chains (length of the strategy).  Leaf loops WITHOUT a bound in the C text (they end with
probability 1 only): the two `while (!found)` loops of sampling_random_ideal_O0 (square root modulo the norm exists; random element
coprime to the norm), the hint searches of ec/basis.c, and the keygen retry itself. -/

theorem clapCalls_le (B : Budget) (t : ClapTape) : clapCalls B t ≤ B.uv + 2 * (1 + B.nd) := by
  unfold clapCalls
  have : min (t.uvFails + 1) B.uv ≤ B.uv := Nat.min_le_right _ _
  split
  · omega
  · split <;> omega

/-- **sign_bounded** — every path of the three signers performs at most N leaf calls -/
theorem sign_bounded (B : Budget) (t2 : Dim2Tape) (th : HeurTape) (tries : Nat) :
    callsDim2 B t2 tries ≤ 2 * (B.uv + 2 * (1 + B.nd)) + B.samp + 2 ∧
    callsHeur B th tries ≤ (1 + B.nd) + (B.uv + 2 * (1 + B.nd)) + B.samp + 2 ∧
    callsHd B tries ≤ (1 + B.nd) + B.samp + 1 := by
  have h1 := clapCalls_le B t2.com
  have h2 := clapCalls_le B t2.aux
  have h3 := clapCalls_le B th.aux
  have h4 : min tries B.samp ≤ B.samp := Nat.min_le_right _ _
  unfold callsDim2 callsHeur callsHd
  omega

/-- key generation: with a successful attempt at position k (0-based) on the tape, exactly the attempts 0..k are made,
the outcome is `ok`, and nothing after position k is consumed -/
theorem keygen_attempts (pre : List ClapTape) (good : ClapTape) (post : List ClapTape)
    (hpre : ∀ t ∈ pre, clapotis Shape.allChecked t = .ok false) (hgood : clapotis Shape.allChecked good = .ok true) :
    flowKeygen Shape.allChecked true (pre ++ good :: post) = some .ok ∧
    keygenAttempts (pre ++ good :: post) = pre.length + 1 := by
  induction pre with
  | nil =>
    rw [clap_all] at hgood
    have hg : (decide (good.uvFails < 3) && !good.fuFail && !good.fvFail) = true := by
      cases h : (decide (good.uvFails < 3) && !good.fuFail && !good.fvFail) <;> simp_all
    constructor
    · simp [flowKeygen, clap_all, hg]
    · simp [keygenAttempts, hg]
  | cons t pre ih =>
    have ht := hpre t (by simp)
    have ih' := ih (fun x hx => hpre x (by simp [hx]))
    rw [clap_all] at ht
    have hf : (decide (t.uvFails < 3) && !t.fuFail && !t.fvFail) = false := by
      cases h : (decide (t.uvFails < 3) && !t.fuFail && !t.fvFail) <;> simp_all
    constructor
    · simp only [List.cons_append, flowKeygen, clap_all, hf, if_true]; exact ih'.1
    · simp only [List.cons_append, keygenAttempts, hf, List.length_cons]; rw [ih'.2]; simp; omega

/-- … and on a tape on which every listed attempt fails the retry loop does not stop (the C loop has no bound) -/
theorem keygen_unbounded (ts : List ClapTape) (h : ∀ t ∈ ts, clapotis Shape.allChecked t = .ok false) :
    flowKeygen Shape.allChecked true ts = none := by
  induction ts with
  | nil => rfl
  | cons t ts ih =>
    have ht := h t (by simp)
    unfold flowKeygen
    rw [ht]
    simp only [if_true]
    exact ih (fun x hx => h x (by simp [hx]))

/-! ### negation: a call site that drops the failure of its callee

Each statement holds for EVERY shape in which the named flag is off (the other flags are arbitrary): the
injection schedule on the left makes the state machine reach the named bad event.  The schedules are replayed
on the real code through hook H2 by tools/props/c04.py. -/

def okClap : ClapTape := ⟨0, false, false⟩
def uvFail : ClapTape := ⟨3, false, false⟩

theorem clap_ok (S : Shape) : clapotis S okClap = .ok true := by simp [clapotis, okClap]
theorem clap_uvfail (S : Shape) : clapotis S uvFail = .ok false := by simp [clapotis, uvFail]

theorem failure_dropped_clapotis_Fu (P : Params) (S : Shape) (h : S.clapotisFu = false) :
    flowDim2 P S ⟨⟨0, true, false⟩, 0, 0, false, okClap⟩ = .bad "clapotis: Fu used after fixed_degree_isogeny failed" := by
  simp [flowDim2, clapotis, h]

theorem failure_dropped_clapotis_Fv (P : Params) (S : Shape) (h : S.clapotisFv = false) :
    flowDim2 P S ⟨⟨0, false, true⟩, 0, 0, false, okClap⟩ = .bad "clapotis: Fv used after fixed_degree_isogeny failed" := by
  simp [flowDim2, clapotis, h]

theorem failure_dropped_dim2_commit (P : Params) (S : Shape) (h : S.dim2Commit = false) :
    flowDim2 P S ⟨uvFail, 0, 0, false, okClap⟩ = .bad "dim2 sign: E_com/Bcom0 used after commit failed" := by
  simp [flowDim2, clap_uvfail, h]

theorem failure_dropped_dim2_aux (P : Params) (S : Shape) (hs : dim2Safe P 0 0 = true) (hg : dim2GuardPasses P 0 0 = true)
    (h : S.dim2Aux = false) :
    flowDim2 P S ⟨okClap, 0, 0, false, uvFail⟩ = .bad "dim2 sign: E_aux/Baux0 used after evaluation failed" := by
  simp [flowDim2, clap_ok, clap_uvfail, codeVal, hs, hg, h]

theorem failure_dropped_dim2_aux_ideal (P : Params) (S : Shape) (hs : dim2Safe P 0 0 = true) (hg : dim2GuardPasses P 0 0 = true)
    (h : (S.sampleIdeal && S.dim2AuxIdeal) = false) :
    flowDim2 P S ⟨okClap, 0, 0, true, okClap⟩ = .bad "dim2 sign: lideal_aux used after represent_integer failed" := by
  simp only [Bool.and_eq_false_iff] at h
  rcases h with h | h <;> simp [flowDim2, clap_ok, codeVal, hs, hg, h]

/-- the unguarded signer at `v = vmax + 1 < 32`: table index out of range is reached -/
theorem failure_unguarded_dim2 (P : Params) (hw : WF P) (S : Shape) (h : S.dim2Guard = false) (v : Nat)
    (hv : (v : Int) = P.vmaxDim2 + 1) (h32 : v < 32) :
    flowDim2 P S ⟨okClap, 0, v, false, okClap⟩ = .bad "dim2 sign: table index out of range" := by
  have hu := (sign_indices_unsafe_witness P hw 0 v hv).2
  have hv32 : ¬ 32 ≤ v := by omega
  simp [flowDim2, clap_ok, codeVal, hu, h, hv32]

/-- the truncating valuation: a response degree divisible by 2^32 is processed with valuation 0 -/
theorem failure_truncated_valuation (P : Params) (S : Shape) (h : S.exactValuation = false) (v : Nat) (hv : 32 ≤ v) :
    flowDim2 P S ⟨okClap, 0, v, false, okClap⟩ = .bad "dim2 sign: two_adic_valuation truncated" := by
  have : ¬ v = 0 := by omega
  simp [flowDim2, clap_ok, codeVal, h, hv]
  omega

theorem failure_dropped_heur_commit (P : Params) (S : Shape) (h : S.heurCommit = false) (t : HeurTape) (ht : t.comFail = true) :
    flowHeur P S t = .bad "heur sign: E_com used after fixed_degree_isogeny failed" := by
  simp [flowHeur, ht, h]

theorem failure_dropped_heur_aux (P : Params) (S : Shape) (hs : heurSafe P 0 = true) (hg : heurGuardPasses P 0 = true)
    (h : S.heurAux = false) :
    flowHeur P S ⟨false, true, 0, false, uvFail⟩ = .bad "heur sign: E_aux/Baux0 used after evaluation failed" := by
  simp [flowHeur, clap_uvfail, codeVal, hs, hg, h]

/-- the unguarded heuristic signer at `v = vmaxHeur + 1`: reports success with lengths the verifier cannot index -/
theorem failure_unguarded_heur (P : Params) (hw : WF P) (S : Shape) (h : S.heurGuard = false) (v : Nat)
    (hv : (v : Int) = P.vmaxHeur + 1) (h32 : v < 32) :
    flowHeur P S ⟨false, true, v, false, okClap⟩ = .bad "heur sign: lengths outside the verifier's table" := by
  have hu : heurSafe P v = false := by
    cases hs : heurSafe P v with
    | false => rfl
    | true => have := (heur_indices_safe P hw v).1 hs; omega
  have hv32 : ¬ 32 ≤ v := by omega
  simp [flowHeur, codeVal, hu, h, hv32]

theorem failure_dropped_hd_commit (S : Shape) (h : S.hdCommit = false) (t : HdTape) (ht : t.comFail = true) :
    flowHd S t = .bad "hd sign: F used after fixed_degree_isogeny failed" := by
  simp [flowHd, ht, h]

theorem failure_dropped_keygen (S : Shape) (ts : List ClapTape) :
    flowKeygen S false (uvFail :: ts) = some (.bad "keygen: curve/basis used after evaluation failed") := by
  simp [flowKeygen, clap_uvfail]

/-- the premises of the witnesses are met at the three levels -/
example : dim2Safe P1 0 0 = true ∧ dim2GuardPasses P1 0 0 = true ∧ heurSafe P1 0 = true ∧ heurGuardPasses P1 0 = true ∧
    ((14 : Nat) : Int) = P1.vmaxDim2 + 1 ∧ ((10 : Nat) : Int) = P1.vmaxHeur + 1 := by decide +kernel
example : dim2Safe P3 0 0 = true ∧ dim2GuardPasses P3 0 0 = true ∧ ((16 : Nat) : Int) = P3.vmaxDim2 + 1 ∧
    dim2Safe P5 0 0 = true ∧ dim2GuardPasses P5 0 0 = true ∧ ((15 : Nat) : Int) = P5.vmaxDim2 + 1 := by decide +kernel

end SqiProps.C04

/-
C04 (code-shape part) — theorems about the control-flow shape of the CURRENT source text of keygen / sign.

`SqiGen.SignFlow` is regenerated from /repo on every run by tools/translate/signflow.py: one Bool per call
site saying whether the result of the fallible callee is used, whether the signers guard the table index, and
whether valuations are computed exactly.  On a tree where some site drops a failure code the first theorem below
no longer checks; the check then replays the corresponding injection schedule (SqiProps.C04.failure_dropped_*)
on the real code to obtain the concrete failing run.
-/
import SqiProps.C04
import SqiGen.SignFlow

namespace SqiProps.C04Code
open SqiModel.SignBook SqiProps.C04

def codeShape : Shape :=
  { clapotisFu := SqiGen.SignFlow.clapotisFu, clapotisFv := SqiGen.SignFlow.clapotisFv,
    sampleIdeal := SqiGen.SignFlow.sampleIdeal,
    dim2Commit := SqiGen.SignFlow.dim2Commit, dim2Aux := SqiGen.SignFlow.dim2Aux,
    dim2AuxIdeal := SqiGen.SignFlow.dim2AuxIdeal, dim2Guard := SqiGen.SignFlow.dim2Guard,
    dim2Keygen := SqiGen.SignFlow.dim2Keygen,
    heurCommit := SqiGen.SignFlow.heurCommit, heurAux := SqiGen.SignFlow.heurAux,
    heurAuxIdeal := SqiGen.SignFlow.heurAuxIdeal, heurGuard := SqiGen.SignFlow.heurGuard,
    heurKeygen := SqiGen.SignFlow.heurKeygen,
    hdCommit := SqiGen.SignFlow.hdCommit, hdKeygen := SqiGen.SignFlow.hdKeygen,
    exactValuation := SqiGen.SignFlow.exactValuation, fixedDegGuard := SqiGen.SignFlow.fixedDegGuard }

/-- every call site of the current source uses the failure code it receives, both signers guard the
table index, valuations are exact -/
theorem code_shape_all_checked : codeShape = Shape.allChecked := by decide

/-- hence, for the current source and all three levels: no random tape drives key generation or signing
(any variant) into a dropped failure or an out-of-range table index; success implies all steps succeeded -/
theorem sign_dim2_never_bad (t : Dim2Tape) :
    (∀ s, flowDim2 P1 codeShape t ≠ .bad s) ∧ (∀ s, flowDim2 P3 codeShape t ≠ .bad s) ∧ (∀ s, flowDim2 P5 codeShape t ≠ .bad s) := by
  rw [code_shape_all_checked]
  exact ⟨(failure_propagation_dim2 P1 levels_wf.1 t).1, (failure_propagation_dim2 P3 levels_wf.2.1 t).1,
    (failure_propagation_dim2 P5 levels_wf.2.2 t).1⟩

theorem sign_heur_never_bad (t : HeurTape) :
    (∀ s, flowHeur P1 codeShape t ≠ .bad s) ∧ (∀ s, flowHeur P3 codeShape t ≠ .bad s) ∧ (∀ s, flowHeur P5 codeShape t ≠ .bad s) := by
  rw [code_shape_all_checked]
  exact ⟨(failure_propagation_heur P1 levels_wf.1 t).1, (failure_propagation_heur P3 levels_wf.2.1 t).1,
    (failure_propagation_heur P5 levels_wf.2.2 t).1⟩

theorem sign_hd_never_bad (t : HdTape) : ∀ s, flowHd codeShape t ≠ .bad s := by
  rw [code_shape_all_checked]; exact (failure_propagation_hd t).1

theorem keygen_never_bad_code (ts : List ClapTape) :
    (∀ s, flowKeygen codeShape codeShape.dim2Keygen ts ≠ some (.bad s)) ∧
    (∀ s, flowKeygen codeShape codeShape.heurKeygen ts ≠ some (.bad s)) ∧
    (∀ s, flowKeygen codeShape codeShape.hdKeygen ts ≠ some (.bad s)) := by
  rw [code_shape_all_checked]
  exact ⟨keygen_never_bad ts, keygen_never_bad ts, keygen_never_bad ts⟩

/-- `fixed_degree_isogeny` of the current source: for EVERY bit size of u (and both values of `small`) the call ends in
success or explicit failure, never in a table access outside the strategies / a negative doubling count / u ≥ 2^length -/
theorem fixed_degree_never_bad_code (small : Bool) (ub : Nat) (ri : Bool) :
    (∀ s, flowFixedDeg P1 codeShape small ub ri ≠ .bad s) ∧ (∀ s, flowFixedDeg P3 codeShape small ub ri ≠ .bad s) ∧
    (∀ s, flowFixedDeg P5 codeShape small ub ri ≠ .bad s) := by
  rw [code_shape_all_checked]
  exact ⟨(fixed_degree_never_bad P1 small ub ri).1, (fixed_degree_never_bad P3 small ub ri).1, (fixed_degree_never_bad P5 small ub ri).1⟩

/-- loop budgets of the current source (find_uv ×3, represent_integer_non_diag ×1, candidate loops 50 / 2·7⁴ / 2·21⁴) -/
def budgetDim2 : Budget := ⟨SqiGen.SignFlow.findUvAttempts, SqiGen.SignFlow.nonDiagAttempts, SqiGen.SignFlow.sampleDim2⟩
def budgetHeur : Budget := ⟨SqiGen.SignFlow.findUvAttempts, SqiGen.SignFlow.nonDiagAttempts, SqiGen.SignFlow.sampleHeur⟩
def budgetHd : Budget := ⟨SqiGen.SignFlow.findUvAttempts, SqiGen.SignFlow.nonDiagAttempts, SqiGen.SignFlow.sampleHd⟩

/-- the model's hard-wired "3 find_uv attempts" is the code's loop bound -/
theorem find_uv_attempts_is_3 : SqiGen.SignFlow.findUvAttempts = 3 := by decide

/-- **sign_bounded_code** — with the budgets of the current source every path of `protocols_sign` ends (in ok or explicit
failure, by `sign_*_never_bad`) after at most 66 (dim-2), 4813 (heuristic), 388965 (HD) leaf calls -/
theorem sign_bounded_code (t2 : Dim2Tape) (th : HeurTape) (tries : Nat) :
    callsDim2 budgetDim2 t2 tries ≤ 66 ∧ callsHeur budgetHeur th tries ≤ 4813 ∧ callsHd budgetHd tries ≤ 388965 := by
  have h1 := (sign_bounded budgetDim2 t2 th tries).1
  have h2 := (sign_bounded budgetHeur t2 th tries).2.1
  have h3 := (sign_bounded budgetHd t2 th tries).2.2
  have e1 : 2 * (budgetDim2.uv + 2 * (1 + budgetDim2.nd)) + budgetDim2.samp + 2 = 66 := by decide
  have e2 : (1 + budgetHeur.nd) + (budgetHeur.uv + 2 * (1 + budgetHeur.nd)) + budgetHeur.samp + 2 = 4813 := by decide
  have e3 : (1 + budgetHd.nd) + budgetHd.samp + 1 = 388965 := by decide
  omega

end SqiProps.C04Code

/-
C05 — heuristic variant: reported-success signatures verify; binding.

FULL STATEMENT (not provable here): ∀ level, key, message, tape: sign = 1 → verify = 1, and verify = 0 for any
other (pk', m'), after any isogeny-altering change of a field, and for signatures assembled from public data.
The first half needs the same mathematics as C01 (Deuring, Kani, theta formulas); the second is a cryptographic
statement.  Both are SAMPLED by tools/props/c05.py (acceptance over seeds × levels × messages × forced v₂ / hints;
tampering and construction catalogue) and labelled PARTIAL.

PROVED HERE (model `SqiModel.HeurEnc` = the encoder / decoder as coded, tied to the C code on every run by
comparing the model's `encode` / `decode` with the fields and matrices of real signatures, hook H3s):
  * `decode_encode_matrix` — for every matrix with the signer's invariants (entries ≥ 0, second row ≡ x · first row
     modulo 2^a) the verifier's re-expansion of the compressed response is, modulo 2^f,
         M' = M − 2^n · (1, x)ᵀ · (⌊m00 / 2^n⌋, ⌊m01 / 2^n⌋)          (both cases a ≤ n and a > n)
     i.e. every column of M' differs from the column of M by a multiple of the challenge-kernel generator
     2^n·(P + xQ).  (DESIGN §4 announced "≡ λ·M"; that is not what the code does and is not needed.)
  * `decode_encode_same_image` — hence any homomorphism that kills 2^n·(1, x) (the challenge isogeny) sends the
     columns of M' and of M to the same points, and 2^n·(first column) generates the same kernel
     (`decode_encode_same_kernel`).
  * `hint_b_zero_of_invariant` — under the same invariant the signer's four-way branch always ends in `hint_b = 0`:
     the `hint_b = 1` branch (`assert(0)`, compiled out) is unreachable for honest signers.
     `hint_b_one_unencoded` shows what the code would do for a matrix violating the invariant (first column
     (even, odd)): `hint_b = 1` and the seven fields are left unwritten.
-/
import Mathlib.Data.Int.ModEq
import Mathlib.Tactic.Ring
import Mathlib.Tactic.LinearCombination
import SqiModel.HeurEnc
import SqiModel.SignBook
import SqiProps.C04
import SqiProps.C02

namespace SqiProps.C05
open SqiModel.HeurEnc

theorem sub_emod_ediv (m p : Int) (hp : 0 < p) : (m - m % p) / p = m / p := by
  have h := Int.emod_add_mul_ediv m p
  have : m - m % p = p * (m / p) := by linear_combination (-1 : Int) * h
  rw [this, Int.mul_ediv_cancel_left _ (ne_of_gt hp)]

theorem split (m p : Int) : m = p * (m / p) + m % p := by
  have := Int.emod_add_mul_ediv m p; linear_combination -this

/-- the second-row entry rebuilt by the verifier, for one column `(top, bot)` of the matrix:
`bot' ≡ bot − 2^n·⌊top/2^n⌋·x (mod 2^f)` -/
theorem column_roundtrip (f a : Nat) (ha : a ≤ f) (top bot x : Int)
    (hinv : bot ≡ x * top [ZMOD 2 ^ a]) :
    (encCol f a top bot x).1 = top % 2 ^ (f - a) ∧
    decCol f a (encCol f a top bot x).1 (encCol f a top bot x).2.1 (encCol f a top bot x).2.2 x
      ≡ bot - 2 ^ (f - a) * (top / 2 ^ (f - a)) * x [ZMOD 2 ^ f] := by
  refine ⟨rfl, ?_⟩
  show (let n := f - a
        let pa : Int := 2 ^ a
        let pn : Int := 2 ^ n
        let t0 := top % pn
        let t1 := (top - t0) / pn
        let c0 := bot % pn
        let adj := if a ≤ n then (c0 - (x * t0) % pa) / pa else 0
        let c1 := (bot - c0) / pn
        let s := (c1 - t1 * x) % pa
        let bot' := if a ≤ n then pn * s + ((t0 * x) % pa + pa * adj) else pn * s + (t0 * x) % pn
        bot' ≡ bot - pn * (top / pn) * x [ZMOD 2 ^ f])
  intro n pa pn t0 t1 c0 adj c1 s bot'
  have hpa : (0 : Int) < pa := pow_pos (by decide) a
  have hpn : (0 : Int) < pn := pow_pos (by decide) n
  have hf : (2 : Int) ^ f = pn * pa := by
    show (2 : Int) ^ f = 2 ^ (f - a) * 2 ^ a
    rw [← pow_add, Nat.sub_add_cancel ha]
  have ht1 : t1 = top / pn := sub_emod_ediv top pn hpn
  have hc1 : c1 = bot / pn := sub_emod_ediv bot pn hpn
  -- the low part of the second-row entry is rebuilt exactly
  have hlow : (if a ≤ n then (t0 * x) % pa + pa * adj else (t0 * x) % pn) = c0 := by
    by_cases h : a ≤ n
    · simp only [h, if_true]
      have hdvd : pa ∣ pn := pow_dvd_pow 2 h
      have e1 : c0 % pa = bot % pa := Int.emod_emod_of_dvd bot hdvd
      have e2 : t0 % pa = top % pa := Int.emod_emod_of_dvd top hdvd
      have e3 : (x * t0) % pa = bot % pa := by
        rw [Int.mul_emod, e2, ← Int.mul_emod]; exact hinv.symm
      have hd : pa ∣ c0 - (x * t0) % pa := by
        apply Int.dvd_of_emod_eq_zero
        rw [Int.sub_emod, e1, Int.emod_emod_of_dvd _ (dvd_refl pa), e3]; simp
      have hadj : adj = (c0 - (x * t0) % pa) / pa := by simp only [adj, h, if_true]
      rw [hadj, Int.mul_ediv_cancel' hd, mul_comm t0 x]; ring
    · simp only [h, if_false]
      have hdvd : pn ∣ pa := pow_dvd_pow 2 (by omega)
      have hinv' : bot % pn = (x * top) % pn := by
        have := Int.ModEq.of_dvd hdvd hinv  -- bot ≡ x * top [ZMOD pn]
        exact this
      show (t0 * x) % pn = bot % pn
      rw [hinv', mul_comm t0 x, Int.mul_emod x t0, Int.emod_emod_of_dvd top (dvd_refl pn), ← Int.mul_emod]
  have hbot' : bot' = pn * s + c0 := by
    by_cases h : a ≤ n
    · simp only [bot', h, if_true]; simp only [h, if_true] at hlow; rw [hlow]
    · simp only [bot', h, if_false]; simp only [h, if_false] at hlow; rw [hlow]
  rw [hbot']
  -- s ≡ c1 - t1 x (mod 2^a), so 2^n s ≡ 2^n (c1 - t1 x) (mod 2^f)
  have hs : s = (c1 - t1 * x) - pa * ((c1 - t1 * x) / pa) := by
    have := Int.emod_add_mul_ediv (c1 - t1 * x) pa
    show (c1 - t1 * x) % pa = _
    linear_combination this
  have hbot : bot = pn * c1 + c0 := by rw [hc1]; exact split bot pn
  rw [Int.ModEq, hf]
  have key : pn * s + c0 = (bot - pn * (top / pn) * x) + pn * pa * (-((c1 - t1 * x) / pa)) := by
    rw [hs, ← ht1]; rw [hbot]; ring
  rw [key, Int.add_mul_emod_self_left]

/-- **decode_encode_matrix** -/
theorem decode_encode_matrix (f a : Nat) (ha : a ≤ f) (M : Mat) (x : Int)
    (h0 : M.m10 ≡ x * M.m00 [ZMOD 2 ^ a]) (h1 : M.m11 ≡ x * M.m01 [ZMOD 2 ^ a]) :
    (decode f a (encode f a M x)).m00 = M.m00 - 2 ^ (f - a) * (M.m00 / 2 ^ (f - a)) ∧
    (decode f a (encode f a M x)).m01 = M.m01 - 2 ^ (f - a) * (M.m01 / 2 ^ (f - a)) ∧
    (decode f a (encode f a M x)).m10 ≡ M.m10 - 2 ^ (f - a) * (M.m00 / 2 ^ (f - a)) * x [ZMOD 2 ^ f] ∧
    (decode f a (encode f a M x)).m11 ≡ M.m11 - 2 ^ (f - a) * (M.m01 / 2 ^ (f - a)) * x [ZMOD 2 ^ f] := by
  have c0 := column_roundtrip f a ha M.m00 M.m10 x h0
  have c1 := column_roundtrip f a ha M.m01 M.m11 x h1
  refine ⟨?_, ?_, c0.2, c1.2⟩
  · show (encCol f a M.m00 M.m10 x).1 = _
    rw [c0.1]; have := split M.m00 (2 ^ (f - a)); linear_combination -this
  · show (encCol f a M.m01 M.m11 x).1 = _
    rw [c1.1]; have := split M.m01 (2 ^ (f - a)); linear_combination -this

/-- the verifier chooses the kernel point of the challenge (+ small response) chain by the parity of the first
column of the re-expanded matrix: it is the parity of the signer's first column (n ≥ 1) -/
theorem decode_encode_same_parity (f a : Nat) (ha : a < f) (M : Mat) (x : Int)
    (h0 : M.m10 ≡ x * M.m00 [ZMOD 2 ^ a]) (h1 : M.m11 ≡ x * M.m01 [ZMOD 2 ^ a]) :
    (decode f a (encode f a M x)).m00 % 2 = M.m00 % 2 ∧ (decode f a (encode f a M x)).m10 % 2 = M.m10 % 2 := by
  obtain ⟨e00, _, e10, _⟩ := decode_encode_matrix f a (le_of_lt ha) M x h0 h1
  have hn : (2 : Int) ∣ 2 ^ (f - a) := dvd_pow_self 2 (by omega)
  have hf : (2 : Int) ∣ 2 ^ f := dvd_pow_self 2 (by omega)
  constructor
  · rw [e00]
    obtain ⟨k, hk⟩ := hn
    rw [hk, mul_assoc, Int.sub_mul_emod_self_left]
  · have := (Int.ModEq.of_dvd hf e10)
    rw [Int.ModEq] at this
    rw [this]
    obtain ⟨k, hk⟩ := hn
    rw [hk, mul_assoc, mul_assoc, Int.sub_mul_emod_self_left]

/-- **hint_b_zero_of_invariant** — with the second row ≡ x · first row modulo 2^a (a ≥ 1) and a matrix that is not
≡ 0 modulo 2 (the response is primitive), the signer's four-way branch ends in `hint_b = 0` -/
theorem hint_b_zero_of_invariant (a : Nat) (ha : 1 ≤ a) (M : Mat) (x : Int)
    (h0 : M.m10 ≡ x * M.m00 [ZMOD 2 ^ a]) (h1 : M.m11 ≡ x * M.m01 [ZMOD 2 ^ a])
    (hprim : ¬ (M.m00 % 2 = 0 ∧ M.m01 % 2 = 0 ∧ M.m10 % 2 = 0 ∧ M.m11 % 2 = 0)) : hintB M = 0 := by
  have h2 : (2 : Int) ∣ 2 ^ a := dvd_pow_self 2 (by omega)
  have p0 : M.m10 % 2 = (x * M.m00) % 2 := Int.ModEq.of_dvd h2 h0
  have p1 : M.m11 % 2 = (x * M.m01) % 2 := Int.ModEq.of_dvd h2 h1
  rw [Int.mul_emod] at p0 p1
  unfold hintB pivot
  by_cases c00 : M.m00 % 2 = 0
  · have c10 : M.m10 % 2 = 0 := by rw [p0, c00]; simp
    by_cases c01 : M.m01 % 2 = 0
    · have c11 : M.m11 % 2 = 0 := by rw [p1, c01]; simp
      exact absurd ⟨c00, c01, c10, c11⟩ hprim
    · simp [c00, c10, c01]
  · simp [c00]

/-- the whole encoder as coded: nothing is written in the `hint_b = 1` branch (`assert(0)` is compiled out and
`protocols_sign` still returns `found`) -/
def encodeFull (f a : Nat) (M : Mat) (x : Int) : Option Enc := if hintB M = 0 then some (encode f a M x) else none

/-- **hint_b_one_unencoded** — what the code does on a matrix violating the invariant -/
theorem hint_b_one_unencoded : hintB ⟨2, 1, 1, 0⟩ = 1 ∧ encodeFull 248 122 ⟨2, 1, 1, 0⟩ 1 = none := by decide

/-! ## composition with the verifier's decision model (a7, SqiProps/C02.lean)

`rawOfEnc` packs what the heuristic signer emits for a response matrix M with the invariants (`encode`, `hintB M`) into
the raw signature the decision model reads.  Composing `hint_b_zero_of_invariant` (signer side) with `accept_iff_heur`
and `challEqHeur_hintB0` (verifier side): an honest heuristic signature is accepted iff the range guard and the kernel /
chain checks pass and the recomputed challenge agrees with `x` modulo 2^len_chall on one of the two codomain factors. -/

def rawOfEnc (trl ha0 ha1 : Int) (M : Mat) (e : Enc) : SqiModel.Verify.RawSigH :=
  ⟨true, false, trl, ha0, ha1, e.x, (hintB M : Int), e.b0, e.d0, e.b1, e.d1, e.c0a, e.e0a⟩

theorem honest_accept_iff_heur (g : SqiModel.Verify.Lvl → SqiModel.Verify.RawPk → SqiModel.Verify.RawSigH → Bool)
    (K : SqiModel.Verify.Lvl) (pk : SqiModel.Verify.RawPk) (o : SqiModel.Verify.OracleHeur)
    (f a : Nat) (ha : 1 ≤ a) (M : Mat) (x trl ha0 ha1 : Int)
    (h0 : M.m10 ≡ x * M.m00 [ZMOD 2 ^ a]) (h1 : M.m11 ≡ x * M.m01 [ZMOD 2 ^ a])
    (hprim : ¬ (M.m00 % 2 = 0 ∧ M.m01 % 2 = 0 ∧ M.m10 % 2 = 0 ∧ M.m11 % 2 = 0)) :
    let s := rawOfEnc trl ha0 ha1 M (encode f a M x)
    SqiModel.Verify.verifyHeur g true K pk s o = true ↔
      (g K pk s = true ∧ o.kerOk = true ∧ o.ordAll = true ∧ o.split = true ∧
        (x % 2 ^ K.heurChall = o.h % 2 ^ K.heurChall ∨ x % 2 ^ K.heurChall = o.h2 % 2 ^ K.heurChall)) := by
  intro s
  have hb : s.hintB = 0 := by
    show ((hintB M : Nat) : Int) = 0
    rw [hint_b_zero_of_invariant a ha M x h0 h1 hprim]; rfl
  rw [SqiProps.C02.accept_iff_heur, SqiProps.C02.challEqHeur_hintB0 K s o.h o.h2 hb]
  rfl

/-- non-vacuity: a level-1 signature produced by the real signer (seed 3, message seed 1; matrix and x read through
hook H3s; m11 abbreviated, it is not used below): first-column invariant, `hint_b = 0`, `b0` as sent -/
example :
    let M : Mat := ⟨0x7c99fcd9fdd883dbe556f06d8f8041ed77af619eeb736b36e9e8954c6366231e40257f42d00d7d47c1b3a142991628959323f4225689aa45909aaa50db75,
      0xa2c9cb74bb17666c2881fc241cf8886af30f98770c1685bb6088df8a80e26ecdb94df447bec4a76a19f12d93e9f2447bae14b4d1909eaa1c2e831b31025d,
      0x165fd2762a8bbc1318814fa12ddb5b57c9a71eb10095e282be17ac533755e333dd55f921234aff77c10dea15aee3c0db7ab428d7758323aaf6f368142374,
      0x280080b1c⟩
    hintB M = 0 ∧ (encode 248 122 M 0x3a38e65b9d2964346a3f21a7824b24).b0 = 0x28959323f4225689aa45909aaa50db75 ∧
    (M.m10 - 0x3a38e65b9d2964346a3f21a7824b24 * M.m00) % 2 ^ 122 = 0 := by decide +kernel

end SqiProps.C05

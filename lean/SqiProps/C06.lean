/-
C06 — the reference and the x86-optimised builds are observationally identical.

Operation level (theorems): two back-ends whose `fp_*` layers both refine `ZMod p` (`FpRefines`, the
interface proved for the ref back-end in SqiProps.C07 `ref_backend_refines` and for the x86 model in the
x86 section of C07) produce the SAME canonical encodings for every GF(p) and GF(p²) operation of the
API, on operands that represent the same field elements (for x86: any partially reduced
representative). `Rel a a'` = "a (back-end 1) and a' (back-end 2) are in their domains and represent the
same element"; `Rel` is preserved by every operation and implies equal `fp_encode` output.

The two remaining API-level differences of the pinned tree are stated as counterexample theorems about the two
models (and replayed on the real builds by tools/props/c06.py): `fp_decode` of a
non-canonical string, `fp_set_small` of a value ≥ 2^32.

Protocol level (keygen/sign/verify transcripts): all code above GF(p²) uses the `fp_*`/`fp2_*` API
only, so equality follows from the operation-level theorems for any execution that stays inside the
domain where they hold; the real builds are compared on identical DRBG seeds by the check (tie H).
-/
import SqiProofs.GfAgree
import SqiModel.GfX86
import SqiModel.GfRef
import SqiProofs.GfRefFp2
import SqiProofs.GfX86Refines

namespace SqiProps.C06
open SqiModel.Gf SqiProofs.GfFp2 SqiProofs.GfAgree

variable {p : Nat} [Fact p.Prime]
variable {α β : Type} {O₁ : FpOps α} {O₂ : FpOps β} {d₁ : α → Prop} {d₂ : β → Prop}
variable {v₁ : α → ZMod p} {v₂ : β → ZMod p}

section
variable (h₁ : FpRefines O₁ p d₁ v₁) (h₂ : FpRefines O₂ p d₂ v₂)
include h₁ h₂

/-- equal field elements have equal canonical encodings in the two back-ends -/
theorem encode_agree {a : α} {b : β} (r : Rel v₁ v₂ d₁ d₂ a b) : O₁.encode a = O₂.encode b :=
  SqiProofs.GfAgree.encode_agree h₁ h₂ r

theorem add_agree {a b : α} {a' b' : β} (ra : Rel v₁ v₂ d₁ d₂ a a') (rb : Rel v₁ v₂ d₁ d₂ b b') :
    Rel v₁ v₂ d₁ d₂ (O₁.add a b) (O₂.add a' b') := SqiProofs.GfAgree.add_agree h₁ h₂ ra rb
theorem sub_agree {a b : α} {a' b' : β} (ra : Rel v₁ v₂ d₁ d₂ a a') (rb : Rel v₁ v₂ d₁ d₂ b b') :
    Rel v₁ v₂ d₁ d₂ (O₁.sub a b) (O₂.sub a' b') := SqiProofs.GfAgree.sub_agree h₁ h₂ ra rb
theorem mul_agree {a b : α} {a' b' : β} (ra : Rel v₁ v₂ d₁ d₂ a a') (rb : Rel v₁ v₂ d₁ d₂ b b') :
    Rel v₁ v₂ d₁ d₂ (O₁.mul a b) (O₂.mul a' b') := SqiProofs.GfAgree.mul_agree h₁ h₂ ra rb
theorem neg_agree {a : α} {a' : β} (ra : Rel v₁ v₂ d₁ d₂ a a') : Rel v₁ v₂ d₁ d₂ (O₁.neg a) (O₂.neg a') :=
  SqiProofs.GfAgree.neg_agree h₁ h₂ ra
theorem sqr_agree {a : α} {a' : β} (ra : Rel v₁ v₂ d₁ d₂ a a') : Rel v₁ v₂ d₁ d₂ (O₁.sqr a) (O₂.sqr a') :=
  SqiProofs.GfAgree.sqr_agree h₁ h₂ ra
theorem half_agree {a : α} {a' : β} (ra : Rel v₁ v₂ d₁ d₂ a a') : Rel v₁ v₂ d₁ d₂ (O₁.half a) (O₂.half a') :=
  SqiProofs.GfAgree.half_agree h₁ h₂ ra
theorem inv_agree {a : α} {a' : β} (ra : Rel v₁ v₂ d₁ d₂ a a') : Rel v₁ v₂ d₁ d₂ (O₁.inv a) (O₂.inv a') :=
  SqiProofs.GfAgree.inv_agree h₁ h₂ ra
/-- 32-bit embeddings agree (for wider arguments see `set_small_wide_counterexample`) -/
theorem setSmall_agree (v : Nat) (hv : v < 2 ^ 32) : Rel v₁ v₂ d₁ d₂ (O₁.setSmall v) (O₂.setSmall v) :=
  SqiProofs.GfAgree.setSmall_agree h₁ h₂ v hv
theorem sqrt_agree {a : α} {a' : β} (ra : Rel v₁ v₂ d₁ d₂ a a') (hsq : IsSquare (v₁ a)) :
    Rel v₁ v₂ d₁ d₂ (O₁.sqrt a) (O₂.sqrt a') := SqiProofs.GfAgree.sqrt_agree h₁ h₂ ra hsq
/-- squareness tests agree on every operand, 0 included, for back-ends that answer true at 0
    (`SquareAtZero`: both back-ends since the repair 59953ae — `ref_squareAtZero`, `x86_squareAtZero`) -/
theorem isSquare_agree (z₁ : SquareAtZero O₁ d₁ v₁) (z₂ : SquareAtZero O₂ d₂ v₂)
    {a : α} {a' : β} (ra : Rel v₁ v₂ d₁ d₂ a a') : O₁.isSquare a = O₂.isSquare a' :=
  SqiProofs.GfAgree.isSquare_agree_full h₁ h₂ z₁ z₂ ra
theorem isZero_agree {a : α} {a' : β} (ra : Rel v₁ v₂ d₁ d₂ a a') : O₁.isZero a = O₂.isZero a' :=
  SqiProofs.GfAgree.isZero_agree h₁ h₂ ra
theorem isEqual_agree {a b : α} {a' b' : β} (ra : Rel v₁ v₂ d₁ d₂ a a') (rb : Rel v₁ v₂ d₁ d₂ b b') :
    O₁.isEqual a b = O₂.isEqual a' b' := SqiProofs.GfAgree.isEqual_agree h₁ h₂ ra rb

/-! GF(p²) -/
theorem fp2_encode_agree {x : Fp2 α} {y : Fp2 β} (hb : O₁.encBytes = O₂.encBytes) (r : Rel2 v₁ v₂ d₁ d₂ x y) :
    fp2_encode O₁ x = fp2_encode O₂ y := SqiProofs.GfAgree.fp2_encode_agree h₁ h₂ hb r
theorem fp2_add_agree {x y : Fp2 α} {x' y' : Fp2 β} (rx : Rel2 v₁ v₂ d₁ d₂ x x') (ry : Rel2 v₁ v₂ d₁ d₂ y y') :
    Rel2 v₁ v₂ d₁ d₂ (fp2_add O₁ x y) (fp2_add O₂ x' y') := SqiProofs.GfAgree.fp2_add_agree h₁ h₂ rx ry
theorem fp2_sub_agree {x y : Fp2 α} {x' y' : Fp2 β} (rx : Rel2 v₁ v₂ d₁ d₂ x x') (ry : Rel2 v₁ v₂ d₁ d₂ y y') :
    Rel2 v₁ v₂ d₁ d₂ (fp2_sub O₁ x y) (fp2_sub O₂ x' y') := SqiProofs.GfAgree.fp2_sub_agree h₁ h₂ rx ry
theorem fp2_mul_agree {x y : Fp2 α} {x' y' : Fp2 β} (rx : Rel2 v₁ v₂ d₁ d₂ x x') (ry : Rel2 v₁ v₂ d₁ d₂ y y') :
    Rel2 v₁ v₂ d₁ d₂ (fp2_mul O₁ x y) (fp2_mul O₂ x' y') := SqiProofs.GfAgree.fp2_mul_agree h₁ h₂ rx ry
theorem fp2_sqr_agree {x : Fp2 α} {x' : Fp2 β} (rx : Rel2 v₁ v₂ d₁ d₂ x x') :
    Rel2 v₁ v₂ d₁ d₂ (fp2_sqr O₁ x) (fp2_sqr O₂ x') := SqiProofs.GfAgree.fp2_sqr_agree h₁ h₂ rx
theorem fp2_inv_agree {x : Fp2 α} {x' : Fp2 β} (rx : Rel2 v₁ v₂ d₁ d₂ x x') :
    Rel2 v₁ v₂ d₁ d₂ (fp2_inv O₁ x) (fp2_inv O₂ x') := SqiProofs.GfAgree.fp2_inv_agree h₁ h₂ rx
theorem fp2_sqrt_agree {x : Fp2 α} {x' : Fp2 β} (rx : Rel2 v₁ v₂ d₁ d₂ x x') (hsq : IsSquare (val2 v₁ x)) :
    Rel2 v₁ v₂ d₁ d₂ (fp2_sqrt O₁ x) (fp2_sqrt O₂ x') := SqiProofs.GfAgree.fp2_sqrt_agree h₁ h₂ rx hsq
theorem fp2_is_square_agree (z₁ : SquareAtZero O₁ d₁ v₁) (z₂ : SquareAtZero O₂ d₂ v₂)
    {x : Fp2 α} {x' : Fp2 β} (rx : Rel2 v₁ v₂ d₁ d₂ x x') : fp2_is_square O₁ x = fp2_is_square O₂ x' :=
  SqiProofs.GfAgree.fp2_is_square_agree_full h₁ h₂ z₁ z₂ rx

end

/-- the ref back-end answers true at 0 (repair 59953ae) -/
theorem ref_squareAtZero {P : RefParams} [Fact P.p.Prime] (hV : SqiProofs.GfRef.Valid P) :
    SquareAtZero (Ref.ops P) (fun a => a < P.p) (SqiProofs.GfRef.toZ P) := by
  intro a ha h0
  exact (SqiProofs.GfRef.fp_is_square_spec hV ha).1.mpr (by rw [h0]; exact ⟨0, by simp⟩)

/-- the x86 back-end answers true at 0 (under the cited Legendre correctness `X86Cited.isSquare`; the
    model value at 0 is also kernel-evaluated in `is_square_zero_agree`) -/
theorem x86_squareAtZero {P : X86Params} [Fact P.q.Prime] (hc : SqiProofs.GfX86Refines.X86Cited P) :
    SquareAtZero (X86.ops P) (fun a => a < 2 ^ P.B) (SqiProofs.GfX86Refines.xval P) := by
  intro a ha h0
  exact (hc.isSquare a ha).2.mpr (by rw [h0]; exact ⟨0, by simp⟩)

/-! ## the API-level differences of the pinned tree (about the two models; replayed on the real builds) -/

set_option maxRecDepth 100000 in
/-- `fp_is_square(0)`: after the repair both models answer true at the three levels -/
theorem is_square_zero_agree :
    (Ref.ops lvl1).isSquare 0 = T32 ∧ (X86.ops x1).isSquare 0 = T32 ∧
    (Ref.ops lvl3).isSquare 0 = T32 ∧ (X86.ops x3).isSquare 0 = T32 ∧
    (Ref.ops lvl5).isSquare 0 = T32 ∧ (X86.ops x5).isSquare 0 = T32 := by decide +kernel

set_option maxRecDepth 100000 in
/-- `fp_decode` of the non-canonical string with value `p + 1`: ref reduces it (→ 1), x86 rejects it (→ 0) -/
theorem decode_noncanonical_counterexample :
    (Ref.ops lvl1).encode ((Ref.ops lvl1).decode (lvl1.p + 1)).1 = 1 ∧
    (X86.ops x1).encode ((X86.ops x1).decode (lvl1.p + 1)).1 = 0 ∧ ((X86.ops x1).decode (lvl1.p + 1)).2 = 0 := by
  decide +kernel

set_option maxRecDepth 100000 in
/-- `fp_set_small(2^32)`: the ref prototype takes a 64-bit digit, the x86 prototype a uint32_t -/
theorem set_small_wide_counterexample :
    (Ref.ops lvl1).encode ((Ref.ops lvl1).setSmall (2 ^ 32)) = 2 ^ 32 ∧
    (X86.ops x1).encode ((X86.ops x1).setSmall (2 ^ 32)) = 0 := by decide +kernel

end SqiProps.C06

/-
C07 — GF(p) and GF(p²) operations are exact field arithmetic.

Models: `SqiModel.GfRef` (ref back-end: generic word-by-word Montgomery over limb lists + gfx/fp.c as
coded), `SqiModel.GfX86` (x86 back-end, value level), `SqiModel.Gf` (fp2.c as coded over either).
Tie: H — the models' executable definitions are run against the real `fp_*`/`fp2_*` functions of both
builds at all three levels by tools/props/c07.py on every check run (raw limbs compared).

Representation: a stored ref element `x < p` represents `toZ x = x·R⁻¹ ∈ ZMod p`, `R = 2^(64 n)`.
Only lemmas from SqiProofs are used here; this file contains the property statements.
-/
import SqiProofs.GfRefExp
import SqiProofs.GfRefFp2
import SqiProofs.GfFp2Batch
import SqiProofs.Primes
import SqiProofs.GfX86Refines
import SqiProofs.GfX86Inv
import SqiProofs.GfX86Coeffs
import SqiGen.GfGcd
import SqiProofs.FiatLayer1
import SqiProofs.FiatLayer3
import SqiProofs.FiatLayer5
import SqiProofs.FiatBytes1
import SqiProofs.FiatBytes3
import SqiProofs.FiatBytes5
import SqiProofs.FpRefGen
import SqiProofs.Fp2RefGen
import SqiProofs.Fp2LoopsGen
import SqiProofs.Fp2BatchGen

namespace SqiProps.C07
open SqiModel.Gf SqiProofs.GfRef SqiProofs.GfMont SqiProofs.GfFp2

/-! ## The three parameter sets are valid, and their moduli are the (proved) primes -/

theorem lvl1_valid : Valid lvl1 := ⟨by decide +kernel, by decide +kernel, by decide +kernel, by decide +kernel, by decide⟩
theorem lvl3_valid : Valid lvl3 := ⟨by decide +kernel, by decide +kernel, by decide +kernel, by decide +kernel, by decide⟩
theorem lvl5_valid : Valid lvl5 := ⟨by decide +kernel, by decide +kernel, by decide +kernel, by decide +kernel, by decide⟩

theorem lvl1_p : lvl1.p = SqiGen.L1.FP_p := by decide +kernel
theorem lvl3_p : lvl3.p = SqiGen.L3.FP_p := by decide +kernel
theorem lvl5_p : lvl5.p = SqiGen.L5.FP_p := by decide +kernel

instance : Fact lvl1.p.Prime := ⟨by rw [lvl1_p]; exact SqiProofs.Primes.L1_prime⟩
instance : Fact lvl3.p.Prime := ⟨by rw [lvl3_p]; exact SqiProofs.Primes.L3_prime⟩
instance : Fact lvl5.p.Prime := ⟨by rw [lvl5_p]; exact SqiProofs.Primes.L5_prime⟩

/-- a parameter set of the scheme -/
inductive IsLevel : RefParams → Prop
  | l1 : IsLevel lvl1
  | l3 : IsLevel lvl3
  | l5 : IsLevel lvl5

theorem IsLevel.valid {P : RefParams} (h : IsLevel P) : Valid P := by
  cases h <;> first | exact lvl1_valid | exact lvl3_valid | exact lvl5_valid

theorem IsLevel.prime {P : RefParams} (h : IsLevel P) : Fact P.p.Prime := by
  cases h <;> infer_instance

/-! ## Ref back-end, GF(p) -/

/-- **Generic word-by-word Montgomery multiplication** — every limb count `n`, every modulus `p` with
    `p·p' ≡ −1 (mod 2^64)` (so every odd modulus with the right `p'`), operands `a, b < p`
    (`p < 2^(64 n)`): the result is reduced and represents `a·b·R⁻¹`. -/
theorem montMul_spec (n p p' a b : Nat) (hpp : (p * p' + 1) % W = 0) (hpR : p < W ^ n)
    (ha : a < p) (hb : b < p) :
    montMul n p p' a b < p ∧
    ((montMul n p p' a b : Nat) : ZMod p) * (W : ZMod p) ^ n = (a : ZMod p) * b :=
  montMul_spec_gen n p p' a b hpp (lt_trans ha hpR) hb

example : (lvl1.p * lvl1.p' + 1) % W = 0 ∧ lvl1.p < W ^ lvl1.n ∧ (3 : Nat) < lvl1.p := by decide +kernel

section
variable {P : RefParams} (hL : IsLevel P)
include hL

theorem fp_mul_spec {a b : Nat} (ha : a < P.p) (hb : b < P.p) :
    Ref.fp_mul P a b < P.p ∧ toZ P (Ref.fp_mul P a b) = toZ P a * toZ P b :=
  have := hL.prime; SqiProofs.GfRef.fp_mul_spec hL.valid ha hb

theorem fp_sqr_spec {a : Nat} (ha : a < P.p) :
    Ref.fp_sqr P a < P.p ∧ toZ P (Ref.fp_sqr P a) = toZ P a * toZ P a :=
  have := hL.prime; SqiProofs.GfRef.fp_sqr_spec hL.valid ha

theorem fp_add_spec {a b : Nat} (ha : a < P.p) (hb : b < P.p) :
    Ref.fp_add P a b < P.p ∧ toZ P (Ref.fp_add P a b) = toZ P a + toZ P b :=
  have := hL.prime; SqiProofs.GfRef.fp_add_spec hL.valid ha hb

theorem fp_sub_spec {a b : Nat} (ha : a < P.p) (hb : b < P.p) :
    Ref.fp_sub P a b < P.p ∧ toZ P (Ref.fp_sub P a b) = toZ P a - toZ P b :=
  have := hL.prime; SqiProofs.GfRef.fp_sub_spec hL.valid ha hb

theorem fp_neg_spec {a : Nat} (ha : a < P.p) :
    Ref.fp_neg P a < P.p ∧ toZ P (Ref.fp_neg P a) = - toZ P a :=
  have := hL.prime; SqiProofs.GfRef.fp_neg_spec hL.valid ha

theorem fp_half_spec {a : Nat} (ha : a < P.p) :
    Ref.fp_half P a < P.p ∧ toZ P (Ref.fp_half P a) * 2 = toZ P a :=
  have := hL.prime; SqiProofs.GfRef.fp_half_spec hL.valid ha

/-- embedding of a word-sized integer -/
theorem fp_set_small_spec (v : Nat) (hv : v < W) :
    Ref.fp_set_small P v < P.p ∧ toZ P (Ref.fp_set_small P v) = (v : ZMod P.p) := by
  have := hL.prime
  have h := SqiProofs.GfRef.fp_set_small_spec hL.valid v
  rwa [Nat.mod_eq_of_lt hv] at h

theorem fp_set_one_spec : Ref.fp_set_one P < P.p ∧ toZ P (Ref.fp_set_one P) = 1 :=
  have := hL.prime; SqiProofs.GfRef.one_spec hL.valid

/-- inversion: the field inverse, and 0 ↦ 0 (`(0 : ZMod p)⁻¹ = 0`) -/
theorem fp_inv_spec {a : Nat} (ha : a < P.p) :
    Ref.fp_inv P a < P.p ∧ toZ P (Ref.fp_inv P a) = (toZ P a)⁻¹ :=
  have := hL.prime; SqiProofs.GfRef.fp_inv_spec hL.valid ha

theorem fp_inv_zero : Ref.fp_inv P 0 = 0 := by
  have := hL.prime
  have hp : 0 < P.p := by have := hL.valid.hp2; omega
  obtain ⟨h1, h2⟩ := SqiProofs.GfRef.fp_inv_spec hL.valid hp
  exact toZ_eq_zero hL.valid h1 (by rw [h2, toZ_zero, inv_zero])

theorem fp_inv_mul {a : Nat} (ha : a < P.p) (hne : a ≠ 0) :
    toZ P (Ref.fp_inv P a) * toZ P a = 1 := by
  have := hL.prime
  rw [(SqiProofs.GfRef.fp_inv_spec hL.valid ha).2]
  exact inv_mul_cancel₀ (fun h => hne (toZ_eq_zero hL.valid ha h))

/-- squareness is true exactly on squares, 0 included (Euler's criterion + the explicit zero test added
    by the repair `fix: fp_is_square(0)`) -/
theorem fp_is_square_spec {a : Nat} (ha : a < P.p) :
    (Ref.fp_is_square P a = T32 ↔ IsSquare (toZ P a)) ∧
    (Ref.fp_is_square P a = 0 ∨ Ref.fp_is_square P a = T32) :=
  have := hL.prime
  SqiProofs.GfRef.fp_is_square_spec hL.valid ha

/-- square root with the documented sign normalisation (even canonical representative) -/
theorem fp_sqrt_spec {a : Nat} (ha : a < P.p) :
    Ref.fp_sqrt P a < P.p ∧ (toZ P (Ref.fp_sqrt P a)).val % 2 = 0 ∧
    (IsSquare (toZ P a) → toZ P (Ref.fp_sqrt P a) * toZ P (Ref.fp_sqrt P a) = toZ P a) :=
  have := hL.prime; SqiProofs.GfRef.fp_sqrt_spec hL.valid ha

theorem fp_is_zero_spec {a : Nat} (ha : a < P.p) :
    (Ref.fp_is_zero a = T32 ↔ toZ P a = 0) ∧ (Ref.fp_is_zero a = 0 ↔ toZ P a ≠ 0) :=
  have := hL.prime; SqiProofs.GfRef.fp_is_zero_spec hL.valid ha

theorem fp_is_equal_spec {a b : Nat} (ha : a < P.p) (hb : b < P.p) :
    (Ref.fp_is_equal a b = T32 ↔ toZ P a = toZ P b) ∧ (Ref.fp_is_equal a b = 0 ↔ toZ P a ≠ toZ P b) :=
  have := hL.prime; SqiProofs.GfRef.fp_is_equal_spec hL.valid ha hb

/-- `fp_select` / `fp_cswap` under the documented precondition `ctl ∈ {0, 0xFFFFFFFF}` -/
theorem fp_select_spec {a0 a1 : Nat} (h0 : a0 < P.p) (h1 : a1 < P.p) :
    Ref.fp_select P a0 a1 0 = a0 ∧ Ref.fp_select P a0 a1 T32 = a1 :=
  SqiProofs.GfRef.fp_select_spec P (lt_trans h0 hL.valid.hpR) (lt_trans h1 hL.valid.hpR)

theorem fp_cswap_spec {a b : Nat} (h0 : a < P.p) (h1 : b < P.p) :
    Ref.fp_cswap P a b 0 = (a, b) ∧ Ref.fp_cswap P a b T32 = (b, a) :=
  SqiProofs.GfRef.fp_cswap_spec P (lt_trans h0 hL.valid.hpR) (lt_trans h1 hL.valid.hpR)

/-- encode(decode(b)) = b for canonical byte strings b -/
theorem fp_encode_decode (bs : List Nat) (hlen : bs.length = 8 * P.n) (hb : ∀ b ∈ bs, b < 256)
    (hcan : Ref.evalBytes bs < P.p) : Ref.fp_encode P (Ref.fp_decode P bs) = bs :=
  have := hL.prime; SqiProofs.GfRef.fp_encode_decode hL.valid bs hlen hb hcan

theorem fp_decode_encode {a : Nat} (ha : a < P.p) : Ref.fp_decode P (Ref.fp_encode P a) = a :=
  have := hL.prime; SqiProofs.GfRef.fp_decode_encode hL.valid ha

/-- the encoding is the canonical representative of the represented value, little-endian -/
theorem fp_encode_val {a : Nat} (ha : a < P.p) : Ref.evalBytes (Ref.fp_encode P a) = (toZ P a).val :=
  have := hL.prime; SqiProofs.GfRef.fp_encode_val hL.valid ha

end

/-- non-vacuity: the hypotheses `IsLevel P`, `a < P.p`, `a ≠ 0` are met, and the concrete model
    evaluates as the theorems say (kernel evaluation of the level-1 model) -/
example : IsLevel lvl1 ∧ (5 : Nat) < lvl1.p ∧ Ref.fp_is_square lvl1 0 = T32 ∧
    Ref.fp_mul lvl1 (Ref.fp_inv lvl1 5) 5 = Ref.fp_set_one lvl1 := ⟨.l1, by decide +kernel, by decide +kernel, by decide +kernel⟩

/-! ## GF(p²): `fp2.c` as coded, over ANY back-end whose `fp_*` layer refines `ZMod p`

`FpRefines O p dom val` (SqiProofs.GfFp2) says: every `fp_*` operation of the record `O` maps the
representation domain `dom` to itself and commutes with the abstraction `val : α → ZMod p` (with the
back-end-specific behaviour of `fp_is_square` at 0 left open). It is proved for the ref back-end below
(`ref_backend_refines`) and for the x86 back-end in the x86 section. `CF p = (ZMod p)[i]/(i²+1)`
(Mathlib `QuadraticAlgebra (ZMod p) (-1) 0`); `val2 x = val x.re + i·val x.im`. -/

/-- the ref back-end at the three levels satisfies the interface -/
theorem ref_backend_refines {P : RefParams} (hL : IsLevel P) :
    have := hL.prime
    FpRefines (Ref.ops P) P.p (fun a => a < P.p) (toZ P) := by
  have := hL.prime
  exact ref_refines hL.valid

/-- `fp2_mul` (Karatsuba, 3 multiplications) is multiplication in `R[i]/(i²+1)` over any commutative ring -/
theorem fp2_mul_commRing {R : Type} [CommRing R] (O : FpOps R) (hadd : ∀ a b, O.add a b = a + b)
    (hsub : ∀ a b, O.sub a b = a - b) (hmul : ∀ a b, O.mul a b = a * b) (y z : Fp2 R) :
    ((⟨(fp2_mul O y z).re, (fp2_mul O y z).im⟩ : QuadraticAlgebra R (-1) 0)) =
      (⟨y.re, y.im⟩ : QuadraticAlgebra R (-1) 0) * ⟨z.re, z.im⟩ :=
  SqiProofs.GfFp2.fp2_mul_commRing O hadd hsub hmul y z

theorem fp2_sqr_commRing {R : Type} [CommRing R] (O : FpOps R) (hadd : ∀ a b, O.add a b = a + b)
    (hsub : ∀ a b, O.sub a b = a - b) (hmul : ∀ a b, O.mul a b = a * b) (y : Fp2 R) :
    ((⟨(fp2_sqr O y).re, (fp2_sqr O y).im⟩ : QuadraticAlgebra R (-1) 0)) =
      (⟨y.re, y.im⟩ : QuadraticAlgebra R (-1) 0) * ⟨y.re, y.im⟩ :=
  SqiProofs.GfFp2.fp2_sqr_commRing O hadd hsub hmul y

section fp2
variable {p : Nat} [Fact p.Prime] {α : Type} {O : FpOps α} {dom : α → Prop} {val : α → ZMod p}
variable (h : FpRefines O p dom val)
include h

theorem fp2_add_spec {x y : Fp2 α} (hx : dom2 dom x) (hy : dom2 dom y) :
    dom2 dom (fp2_add O x y) ∧ val2 val (fp2_add O x y) = val2 val x + val2 val y :=
  SqiProofs.GfFp2.fp2_add_spec h hx hy
theorem fp2_sub_spec {x y : Fp2 α} (hx : dom2 dom x) (hy : dom2 dom y) :
    dom2 dom (fp2_sub O x y) ∧ val2 val (fp2_sub O x y) = val2 val x - val2 val y :=
  SqiProofs.GfFp2.fp2_sub_spec h hx hy
theorem fp2_neg_spec {x : Fp2 α} (hx : dom2 dom x) :
    dom2 dom (fp2_neg O x) ∧ val2 val (fp2_neg O x) = - val2 val x :=
  SqiProofs.GfFp2.fp2_neg_spec h hx
theorem fp2_mul_spec {x y : Fp2 α} (hx : dom2 dom x) (hy : dom2 dom y) :
    dom2 dom (fp2_mul O x y) ∧ val2 val (fp2_mul O x y) = val2 val x * val2 val y :=
  SqiProofs.GfFp2.fp2_mul_spec h hx hy
theorem fp2_sqr_spec {x : Fp2 α} (hx : dom2 dom x) :
    dom2 dom (fp2_sqr O x) ∧ val2 val (fp2_sqr O x) = val2 val x * val2 val x :=
  SqiProofs.GfFp2.fp2_sqr_spec h hx
theorem fp2_half_spec {x : Fp2 α} (hx : dom2 dom x) :
    dom2 dom (fp2_half O x) ∧ val2 val (fp2_half O x) * 2 = val2 val x :=
  SqiProofs.GfFp2.fp2_half_spec h hx
theorem fp2_set_small_spec (v : Nat) (hv : v < 2 ^ 32) :
    dom2 dom (fp2_set_small O v) ∧ val2 val (fp2_set_small O v) = (v : CF p) :=
  SqiProofs.GfFp2.fp2_set_small_spec h v hv

/-- inversion: 0 ↦ 0 and `x ≠ 0 → inv x · x = 1` -/
theorem fp2_inv_spec {x : Fp2 α} (hx : dom2 dom x) :
    dom2 dom (fp2_inv O x) ∧ (val2 val x = 0 → val2 val (fp2_inv O x) = 0) ∧
    (val2 val x ≠ 0 → val2 val (fp2_inv O x) * val2 val x = 1) :=
  SqiProofs.GfFp2.fp2_inv_spec h hx

/- FULL STATEMENT of the property: `fp2_is_square x = 0xFFFFFFFF ↔ IsSquare (val2 x)` for every x
   (0 included). It depends on the back-end's `fp_is_square` at 0: true for the ref back-end after the repair
   (`ref_fp2_is_square_spec`) and for x86 (`fp2_is_square_spec_full`). -/
theorem fp2_is_square_spec_partial {x : Fp2 α} (hx : dom2 dom x) (hne : val2 val x ≠ 0) :
    (fp2_is_square O x = T32 ↔ IsSquare (val2 val x)) ∧ (fp2_is_square O x = 0 ∨ fp2_is_square O x = T32) :=
  SqiProofs.GfFp2.fp2_is_square_spec_partial h hx hne

theorem fp2_is_square_spec_full (hz : ∀ {a}, dom a → val a = 0 → O.isSquare a = T32)
    {x : Fp2 α} (hx : dom2 dom x) : fp2_is_square O x = T32 ↔ IsSquare (val2 val x) :=
  SqiProofs.GfFp2.fp2_is_square_spec_full h hz hx

/-- the squareness test of `Fp[i]` is the norm criterion (mathematical content of `fp2_is_square`) -/
theorem isSquare_iff_norm (z : CF p) : IsSquare z ↔ IsSquare (z.re * z.re + z.im * z.im) :=
  SqiProofs.GfFp2.isSquare_iff_norm h.p4 z

/-- complex square root, all four branch combinations (`im = 0` × `y0² square`) and sign management:
    the result is in the documented normalisation (even real part; real part 0 ⇒ even imaginary part)
    and squares to `x` whenever `x` is a square -/
theorem fp2_sqrt_spec {x : Fp2 α} (hx : dom2 dom x) :
    dom2 dom (fp2_sqrt O x) ∧
    ((val (fp2_sqrt O x).re).val % 2 = 0 ∧ (val (fp2_sqrt O x).re = 0 → (val (fp2_sqrt O x).im).val % 2 = 0)) ∧
    (IsSquare (val2 val x) → val2 val (fp2_sqrt O x) * val2 val (fp2_sqrt O x) = val2 val x) :=
  SqiProofs.GfFp2.fp2_sqrt_spec h hx

/-- **batched inversion equals element-wise inversion — FULL statement**: every length, every batch in the domain, zero entries
    included (`0⁻¹ = 0`, the convention of `fp2_inv`).  Holds since the repair "fix: fp2_batched_inv inverts the non-zero entries of a
    batch that contains zeros" (zero entries are replaced by one before the product chain and selected back to zero, constant time);
    before it a single zero entry zeroed the whole batch (witness kept in corpus/C07). -/
theorem fp2_batched_inv_spec (xs : List (Fp2 α)) (hd : ∀ x ∈ xs, dom2 dom x) :
    List.Forall₂ (fun out x => dom2 dom out ∧ val2 val out = (val2 val x)⁻¹) (fp2_batched_inv O xs) xs :=
  SqiProofs.GfFp2.fp2_batched_inv_spec h xs hd

theorem fp2_pow_vartime_spec (x : Fp2 α) (hx : dom2 dom x) (ws : List Nat) (hw : ∀ w ∈ ws, w < 2 ^ 64) :
    dom2 dom (fp2_pow_vartime O x ws) ∧ val2 val (fp2_pow_vartime O x ws) = val2 val x ^ evalWords ws :=
  SqiProofs.GfFp2.fp2_pow_vartime_spec h x hx ws hw

end fp2

/-- ref back-end after the repair: `fp2_is_square` is true exactly on squares of `Fp[i]`, 0 included -/
theorem ref_fp2_is_square_spec {P : RefParams} (hL : IsLevel P) {x : Fp2 Nat} (hx : dom2 (fun a => a < P.p) x) :
    have := hL.prime
    fp2_is_square (Ref.ops P) x = T32 ↔ IsSquare (val2 (toZ P) x) := by
  have := hL.prime
  refine SqiProofs.GfFp2.fp2_is_square_spec_full (ref_refines hL.valid) ?_ hx
  intro a ha h0
  have := (SqiProofs.GfRef.fp_is_square_spec hL.valid ha).1
  exact this.mpr (by rw [h0]; exact ⟨0, by simp⟩)

set_option maxRecDepth 100000 in
/-- the former counterexample, now a regression example: the batch `[1, 0]` comes back as `[1, 0]` (before the repair: `[0, 0]`,
    which is what the product chain alone still returns) -/
theorem fp2_batched_inv_zero_example :
    fp2_batched_inv (Ref.ops lvl1) [⟨Ref.fp_set_one lvl1, 0⟩, ⟨0, 0⟩] = [⟨Ref.fp_set_one lvl1, 0⟩, ⟨0, 0⟩] ∧
    fp2_batched_inv_core (Ref.ops lvl1) [⟨Ref.fp_set_one lvl1, 0⟩, ⟨0, 0⟩] = [⟨0, 0⟩, ⟨0, 0⟩] := by
  decide +kernel

/-- non-vacuity of the GF(p²) hypotheses: the ref record at level 1 satisfies `FpRefines`, a concrete
    non-zero element lies in its domain, and the model inverts it -/
example : dom2 (fun a => a < lvl1.p) (⟨3, 4⟩ : Fp2 Nat) ∧
    fp2_mul (Ref.ops lvl1) (fp2_inv (Ref.ops lvl1) ⟨3, 4⟩) ⟨3, 4⟩ = ⟨Ref.fp_set_one lvl1, 0⟩ := by
  refine ⟨⟨by decide +kernel, by decide +kernel⟩, by decide +kernel⟩

/-! ## fiat-crypto files by translation (tie T)

`SqiGen.Fiat{1,3,5}` are the fiat functions of fp_p5248.c / fp_p65376.c / fp_p27500.c as instruction lists, re-extracted on
every run by tools/translate/fiat.py (mul, square, add, sub, opp, to/from_montgomery, nonzero, selectznz, to/from_bytes,
set_one; the translator also checks that fp_add/sub/mul/sqr/tomont/frommont/mont_setone are wrappers that call exactly
these). `SqiModel.Fiat.run` is the interpreter, `runLimbs prog n [a, b]` runs a program on the 64-bit digits of the integers
`a, b` and recomposes the output limbs.  Proved for ALL inputs `< R = 2^(64 n)` (not only reduced ones) by symbolic execution
(`SqiProofs.FiatExec`) + per-round invariants discharged by `omega` on minimal contexts:
`mul`, `square` = `montMul n p 1` (`SqiProofs.FiatMul*/FiatSqr*`), `add`, `sub`, `opp` = the value-level `Ref.fp_add/fp_sub`
(`SqiProofs.FiatLin*`), `set_one`, `selectznz`, `nonzero` (`SqiProofs.FiatLayer*`) — at ALL THREE levels.
`to_montgomery` = `montMul n p 1 · (R² mod p)`, `from_montgomery` = `montMul n p 1 · 1` (`SqiProofs.FiatToM*/FiatFromM*`, same round
invariant with the top accumulator limb a lazy sum), `to_bytes` / `from_bytes` = little-endian bytes of the limbs (`SqiProofs.FiatBytes*`; not
called by the library; at level 5 `to_bytes` writes the last byte through a 1-bit cast, exact for inputs < 2^505).  So all twelve extracted
functions of each fp_p*.c are proved, none is left to the three-way differential tie (which still runs, tools/props/c07.py "fiat-programs"). -/

open SqiModel.Fiat in
/-- **the extracted fiat programs of level 1 are the value-level model** (`Ref.fp_*`, which `montMul_spec`, `fp_add_spec`, …
    relate to `ZMod p`): for all `a, b < R` -/
theorem fiat_layer_refines_model_lvl1 :
    (∀ a b, a < lvl1.R → b < lvl1.R →
      runLimbs SqiGen.Fiat1.mul 4 [a, b] = Ref.fp_mul lvl1 a b ∧
      runLimbs SqiGen.Fiat1.add 4 [a, b] = Ref.fp_add lvl1 a b ∧
      runLimbs SqiGen.Fiat1.sub 4 [a, b] = Ref.fp_sub lvl1 a b) ∧
    (∀ a, a < lvl1.R →
      runLimbs SqiGen.Fiat1.square 4 [a] = Ref.fp_sqr lvl1 a ∧
      runLimbs SqiGen.Fiat1.opp 4 [a] = Ref.fp_sub lvl1 0 a ∧
      runLimbs SqiGen.Fiat1.to_montgomery 4 [a] = Ref.fp_tomont lvl1 a ∧
      runLimbs SqiGen.Fiat1.from_montgomery 4 [a] = Ref.fp_frommont lvl1 a) ∧
    runLimbs SqiGen.Fiat1.set_one 4 [] = Ref.fp_set_one lvl1 ∧
    (∀ c a0 a1 a2 a3 b0 b1 b2 b3 : Nat, a0 < 2^64 → a1 < 2^64 → a2 < 2^64 → a3 < 2^64 →
      b0 < 2^64 → b1 < 2^64 → b2 < 2^64 → b3 < 2^64 →
      run SqiGen.Fiat1.selectznz [[c], [a0,a1,a2,a3], [b0,b1,b2,b3]] =
        if c % 2 ^ 64 = 0 then [a0,a1,a2,a3] else [b0,b1,b2,b3]) ∧
    (∀ a0 a1 a2 a3 : Nat, a0 < 2^64 → a1 < 2^64 → a2 < 2^64 → a3 < 2^64 →
      run SqiGen.Fiat1.nonzero [[a0,a1,a2,a3]] = [a0 ||| (a1 ||| (a2 ||| a3))] ∧
      ((a0 ||| (a1 ||| (a2 ||| a3))) = 0 ↔ (a0 = 0 ∧ a1 = 0 ∧ a2 = 0 ∧ a3 = 0))) ∧
    (∀ a0 a1 a2 a3 : Nat, a0 < 2^64 → a1 < 2^64 → a2 < 2^64 → a3 < 2^64 →
      run SqiGen.Fiat1.to_bytes [[a0, a1, a2, a3]] = digits 256 8 a0 ++ digits 256 8 a1 ++ digits 256 8 a2 ++ digits 256 8 a3) ∧
    (∀ b0 b1 b2 b3 b4 b5 b6 b7 b8 b9 b10 b11 b12 b13 b14 b15 b16 b17 b18 b19 b20 b21 b22 b23 b24 b25 b26 b27 b28 b29 b30 b31 : Nat,
      b0 < 256 → b1 < 256 → b2 < 256 → b3 < 256 → b4 < 256 → b5 < 256 → b6 < 256 → b7 < 256 → b8 < 256 → b9 < 256 → b10 < 256 → b11 < 256 → b12 < 256 → b13 < 256 → b14 < 256 → b15 < 256 → b16 < 256 → b17 < 256 → b18 < 256 → b19 < 256 → b20 < 256 → b21 < 256 → b22 < 256 → b23 < 256 → b24 < 256 → b25 < 256 → b26 < 256 → b27 < 256 → b28 < 256 → b29 < 256 → b30 < 256 → b31 < 256 →
      run SqiGen.Fiat1.from_bytes [[b0, b1, b2, b3, b4, b5, b6, b7, b8, b9, b10, b11, b12, b13, b14, b15, b16, b17, b18, b19, b20, b21, b22, b23, b24, b25, b26, b27, b28, b29, b30, b31]] =
        [b0 + 256 * b1 + 65536 * b2 + 16777216 * b3 + 4294967296 * b4 + 1099511627776 * b5 + 281474976710656 * b6 + 72057594037927936 * b7,
         b8 + 256 * b9 + 65536 * b10 + 16777216 * b11 + 4294967296 * b12 + 1099511627776 * b13 + 281474976710656 * b14 + 72057594037927936 * b15,
         b16 + 256 * b17 + 65536 * b18 + 16777216 * b19 + 4294967296 * b20 + 1099511627776 * b21 + 281474976710656 * b22 + 72057594037927936 * b23,
         b24 + 256 * b25 + 65536 * b26 + 16777216 * b27 + 4294967296 * b28 + 1099511627776 * b29 + 281474976710656 * b30 + 72057594037927936 * b31]) :=
  ⟨fun a b ha hb => ⟨SqiProofs.FiatLayer1.mul_val a b ha hb, SqiProofs.FiatLayer1.add_val a b ha hb,
      SqiProofs.FiatLayer1.sub_val a b ha hb⟩,
   fun a ha => ⟨SqiProofs.FiatLayer1.square_val a ha, SqiProofs.FiatLayer1.opp_val a ha,
      SqiProofs.FiatLayer1.to_montgomery_val a ha, SqiProofs.FiatLayer1.from_montgomery_val a ha⟩,
   SqiProofs.FiatLayer1.set_one_val,
   fun c a0 a1 a2 a3 b0 b1 b2 b3 ha0 ha1 ha2 ha3 hb0 hb1 hb2 hb3 =>
     SqiProofs.FiatLayer1.selectznz_correct c a0 a1 a2 a3 b0 b1 b2 b3 ha0 ha1 ha2 ha3 hb0 hb1 hb2 hb3,
   fun a0 a1 a2 a3 ha0 ha1 ha2 ha3 => SqiProofs.FiatLayer1.nonzero_correct a0 a1 a2 a3 ha0 ha1 ha2 ha3,
   fun a0 a1 a2 a3 ha0 ha1 ha2 ha3 => SqiProofs.FiatBytes1.to_bytes_correct a0 a1 a2 a3 ha0 ha1 ha2 ha3,
   fun b0 b1 b2 b3 b4 b5 b6 b7 b8 b9 b10 b11 b12 b13 b14 b15 b16 b17 b18 b19 b20 b21 b22 b23 b24 b25 b26 b27 b28 b29 b30 b31 hb0 hb1 hb2 hb3 hb4 hb5 hb6 hb7 hb8 hb9 hb10 hb11 hb12 hb13 hb14 hb15 hb16 hb17 hb18 hb19 hb20 hb21 hb22 hb23 hb24 hb25 hb26 hb27 hb28 hb29 hb30 hb31 => SqiProofs.FiatBytes1.from_bytes_correct b0 b1 b2 b3 b4 b5 b6 b7 b8 b9 b10 b11 b12 b13 b14 b15 b16 b17 b18 b19 b20 b21 b22 b23 b24 b25 b26 b27 b28 b29 b30 b31 hb0 hb1 hb2 hb3 hb4 hb5 hb6 hb7 hb8 hb9 hb10 hb11 hb12 hb13 hb14 hb15 hb16 hb17 hb18 hb19 hb20 hb21 hb22 hb23 hb24 hb25 hb26 hb27 hb28 hb29 hb30 hb31⟩

open SqiModel.Fiat in
/-- level 3 (6 limbs), same statement -/
theorem fiat_layer_refines_model_lvl3 :
    (∀ a b, a < lvl3.R → b < lvl3.R →
      runLimbs SqiGen.Fiat3.mul 6 [a, b] = Ref.fp_mul lvl3 a b ∧
      runLimbs SqiGen.Fiat3.add 6 [a, b] = Ref.fp_add lvl3 a b ∧
      runLimbs SqiGen.Fiat3.sub 6 [a, b] = Ref.fp_sub lvl3 a b) ∧
    (∀ a, a < lvl3.R →
      runLimbs SqiGen.Fiat3.square 6 [a] = Ref.fp_sqr lvl3 a ∧
      runLimbs SqiGen.Fiat3.opp 6 [a] = Ref.fp_sub lvl3 0 a ∧
      runLimbs SqiGen.Fiat3.to_montgomery 6 [a] = Ref.fp_tomont lvl3 a ∧
      runLimbs SqiGen.Fiat3.from_montgomery 6 [a] = Ref.fp_frommont lvl3 a) ∧
    runLimbs SqiGen.Fiat3.set_one 6 [] = Ref.fp_set_one lvl3 ∧
    (∀ c a0 a1 a2 a3 a4 a5 b0 b1 b2 b3 b4 b5 : Nat, a0 < 2^64 → a1 < 2^64 → a2 < 2^64 → a3 < 2^64 → a4 < 2^64 → a5 < 2^64 →
      b0 < 2^64 → b1 < 2^64 → b2 < 2^64 → b3 < 2^64 → b4 < 2^64 → b5 < 2^64 →
      run SqiGen.Fiat3.selectznz [[c], [a0, a1, a2, a3, a4, a5], [b0, b1, b2, b3, b4, b5]] =
        if c % 2 ^ 64 = 0 then [a0, a1, a2, a3, a4, a5] else [b0, b1, b2, b3, b4, b5]) ∧
    (∀ a0 a1 a2 a3 a4 a5 : Nat, a0 < 2^64 → a1 < 2^64 → a2 < 2^64 → a3 < 2^64 → a4 < 2^64 → a5 < 2^64 →
      run SqiGen.Fiat3.nonzero [[a0, a1, a2, a3, a4, a5]] = [a0 ||| (a1 ||| (a2 ||| (a3 ||| (a4 ||| (a5)))))] ∧
      ((a0 ||| (a1 ||| (a2 ||| (a3 ||| (a4 ||| (a5)))))) = 0 ↔ (a0 = 0 ∧ a1 = 0 ∧ a2 = 0 ∧ a3 = 0 ∧ a4 = 0 ∧ a5 = 0))) ∧
    (∀ a0 a1 a2 a3 a4 a5 : Nat, a0 < 2^64 → a1 < 2^64 → a2 < 2^64 → a3 < 2^64 → a4 < 2^64 → a5 < 2^64 →
      run SqiGen.Fiat3.to_bytes [[a0, a1, a2, a3, a4, a5]] = digits 256 8 a0 ++ digits 256 8 a1 ++ digits 256 8 a2 ++ digits 256 8 a3 ++ digits 256 8 a4 ++ digits 256 8 a5) ∧
    (∀ b0 b1 b2 b3 b4 b5 b6 b7 b8 b9 b10 b11 b12 b13 b14 b15 b16 b17 b18 b19 b20 b21 b22 b23 b24 b25 b26 b27 b28 b29 b30 b31 b32 b33 b34 b35 b36 b37 b38 b39 b40 b41 b42 b43 b44 b45 b46 b47 : Nat,
      b0 < 256 → b1 < 256 → b2 < 256 → b3 < 256 → b4 < 256 → b5 < 256 → b6 < 256 → b7 < 256 → b8 < 256 → b9 < 256 → b10 < 256 → b11 < 256 → b12 < 256 → b13 < 256 → b14 < 256 → b15 < 256 → b16 < 256 → b17 < 256 → b18 < 256 → b19 < 256 → b20 < 256 → b21 < 256 → b22 < 256 → b23 < 256 → b24 < 256 → b25 < 256 → b26 < 256 → b27 < 256 → b28 < 256 → b29 < 256 → b30 < 256 → b31 < 256 → b32 < 256 → b33 < 256 → b34 < 256 → b35 < 256 → b36 < 256 → b37 < 256 → b38 < 256 → b39 < 256 → b40 < 256 → b41 < 256 → b42 < 256 → b43 < 256 → b44 < 256 → b45 < 256 → b46 < 256 → b47 < 256 →
      run SqiGen.Fiat3.from_bytes [[b0, b1, b2, b3, b4, b5, b6, b7, b8, b9, b10, b11, b12, b13, b14, b15, b16, b17, b18, b19, b20, b21, b22, b23, b24, b25, b26, b27, b28, b29, b30, b31, b32, b33, b34, b35, b36, b37, b38, b39, b40, b41, b42, b43, b44, b45, b46, b47]] =
        [b0 + 256 * b1 + 65536 * b2 + 16777216 * b3 + 4294967296 * b4 + 1099511627776 * b5 + 281474976710656 * b6 + 72057594037927936 * b7,
         b8 + 256 * b9 + 65536 * b10 + 16777216 * b11 + 4294967296 * b12 + 1099511627776 * b13 + 281474976710656 * b14 + 72057594037927936 * b15,
         b16 + 256 * b17 + 65536 * b18 + 16777216 * b19 + 4294967296 * b20 + 1099511627776 * b21 + 281474976710656 * b22 + 72057594037927936 * b23,
         b24 + 256 * b25 + 65536 * b26 + 16777216 * b27 + 4294967296 * b28 + 1099511627776 * b29 + 281474976710656 * b30 + 72057594037927936 * b31,
         b32 + 256 * b33 + 65536 * b34 + 16777216 * b35 + 4294967296 * b36 + 1099511627776 * b37 + 281474976710656 * b38 + 72057594037927936 * b39,
         b40 + 256 * b41 + 65536 * b42 + 16777216 * b43 + 4294967296 * b44 + 1099511627776 * b45 + 281474976710656 * b46 + 72057594037927936 * b47]) :=
  ⟨fun a b ha hb => ⟨SqiProofs.FiatLayer3.mul_val a b ha hb, SqiProofs.FiatLayer3.add_val a b ha hb,
      SqiProofs.FiatLayer3.sub_val a b ha hb⟩,
   fun a ha => ⟨SqiProofs.FiatLayer3.square_val a ha, SqiProofs.FiatLayer3.opp_val a ha,
      SqiProofs.FiatLayer3.to_montgomery_val a ha, SqiProofs.FiatLayer3.from_montgomery_val a ha⟩,
   SqiProofs.FiatLayer3.set_one_val,
   fun c a0 a1 a2 a3 a4 a5 b0 b1 b2 b3 b4 b5 ha0 ha1 ha2 ha3 ha4 ha5 hb0 hb1 hb2 hb3 hb4 hb5 =>
     SqiProofs.FiatLayer3.selectznz_correct c a0 a1 a2 a3 a4 a5 b0 b1 b2 b3 b4 b5 ha0 ha1 ha2 ha3 ha4 ha5 hb0 hb1 hb2 hb3 hb4 hb5,
   fun a0 a1 a2 a3 a4 a5 ha0 ha1 ha2 ha3 ha4 ha5 => SqiProofs.FiatLayer3.nonzero_correct a0 a1 a2 a3 a4 a5 ha0 ha1 ha2 ha3 ha4 ha5,
   fun a0 a1 a2 a3 a4 a5 ha0 ha1 ha2 ha3 ha4 ha5 => SqiProofs.FiatBytes3.to_bytes_correct a0 a1 a2 a3 a4 a5 ha0 ha1 ha2 ha3 ha4 ha5,
   fun b0 b1 b2 b3 b4 b5 b6 b7 b8 b9 b10 b11 b12 b13 b14 b15 b16 b17 b18 b19 b20 b21 b22 b23 b24 b25 b26 b27 b28 b29 b30 b31 b32 b33 b34 b35 b36 b37 b38 b39 b40 b41 b42 b43 b44 b45 b46 b47 hb0 hb1 hb2 hb3 hb4 hb5 hb6 hb7 hb8 hb9 hb10 hb11 hb12 hb13 hb14 hb15 hb16 hb17 hb18 hb19 hb20 hb21 hb22 hb23 hb24 hb25 hb26 hb27 hb28 hb29 hb30 hb31 hb32 hb33 hb34 hb35 hb36 hb37 hb38 hb39 hb40 hb41 hb42 hb43 hb44 hb45 hb46 hb47 => SqiProofs.FiatBytes3.from_bytes_correct b0 b1 b2 b3 b4 b5 b6 b7 b8 b9 b10 b11 b12 b13 b14 b15 b16 b17 b18 b19 b20 b21 b22 b23 b24 b25 b26 b27 b28 b29 b30 b31 b32 b33 b34 b35 b36 b37 b38 b39 b40 b41 b42 b43 b44 b45 b46 b47 hb0 hb1 hb2 hb3 hb4 hb5 hb6 hb7 hb8 hb9 hb10 hb11 hb12 hb13 hb14 hb15 hb16 hb17 hb18 hb19 hb20 hb21 hb22 hb23 hb24 hb25 hb26 hb27 hb28 hb29 hb30 hb31 hb32 hb33 hb34 hb35 hb36 hb37 hb38 hb39 hb40 hb41 hb42 hb43 hb44 hb45 hb46 hb47⟩

open SqiModel.Fiat in
/-- level 5 (8 limbs), same statement -/
theorem fiat_layer_refines_model_lvl5 :
    (∀ a b, a < lvl5.R → b < lvl5.R →
      runLimbs SqiGen.Fiat5.mul 8 [a, b] = Ref.fp_mul lvl5 a b ∧
      runLimbs SqiGen.Fiat5.add 8 [a, b] = Ref.fp_add lvl5 a b ∧
      runLimbs SqiGen.Fiat5.sub 8 [a, b] = Ref.fp_sub lvl5 a b) ∧
    (∀ a, a < lvl5.R →
      runLimbs SqiGen.Fiat5.square 8 [a] = Ref.fp_sqr lvl5 a ∧
      runLimbs SqiGen.Fiat5.opp 8 [a] = Ref.fp_sub lvl5 0 a ∧
      runLimbs SqiGen.Fiat5.to_montgomery 8 [a] = Ref.fp_tomont lvl5 a ∧
      runLimbs SqiGen.Fiat5.from_montgomery 8 [a] = Ref.fp_frommont lvl5 a) ∧
    runLimbs SqiGen.Fiat5.set_one 8 [] = Ref.fp_set_one lvl5 ∧
    (∀ c a0 a1 a2 a3 a4 a5 a6 a7 b0 b1 b2 b3 b4 b5 b6 b7 : Nat, a0 < 2^64 → a1 < 2^64 → a2 < 2^64 → a3 < 2^64 → a4 < 2^64 → a5 < 2^64 → a6 < 2^64 → a7 < 2^64 →
      b0 < 2^64 → b1 < 2^64 → b2 < 2^64 → b3 < 2^64 → b4 < 2^64 → b5 < 2^64 → b6 < 2^64 → b7 < 2^64 →
      run SqiGen.Fiat5.selectznz [[c], [a0, a1, a2, a3, a4, a5, a6, a7], [b0, b1, b2, b3, b4, b5, b6, b7]] =
        if c % 2 ^ 64 = 0 then [a0, a1, a2, a3, a4, a5, a6, a7] else [b0, b1, b2, b3, b4, b5, b6, b7]) ∧
    (∀ a0 a1 a2 a3 a4 a5 a6 a7 : Nat, a0 < 2^64 → a1 < 2^64 → a2 < 2^64 → a3 < 2^64 → a4 < 2^64 → a5 < 2^64 → a6 < 2^64 → a7 < 2^64 →
      run SqiGen.Fiat5.nonzero [[a0, a1, a2, a3, a4, a5, a6, a7]] = [a0 ||| (a1 ||| (a2 ||| (a3 ||| (a4 ||| (a5 ||| (a6 ||| (a7)))))))] ∧
      ((a0 ||| (a1 ||| (a2 ||| (a3 ||| (a4 ||| (a5 ||| (a6 ||| (a7)))))))) = 0 ↔ (a0 = 0 ∧ a1 = 0 ∧ a2 = 0 ∧ a3 = 0 ∧ a4 = 0 ∧ a5 = 0 ∧ a6 = 0 ∧ a7 = 0))) ∧
    (∀ a0 a1 a2 a3 a4 a5 a6 a7 : Nat, a0 < 2^64 → a1 < 2^64 → a2 < 2^64 → a3 < 2^64 → a4 < 2^64 → a5 < 2^64 → a6 < 2^64 → a7 < 2^64 → a7 < 2^57 →
      run SqiGen.Fiat5.to_bytes [[a0, a1, a2, a3, a4, a5, a6, a7]] = digits 256 8 a0 ++ digits 256 8 a1 ++ digits 256 8 a2 ++ digits 256 8 a3 ++ digits 256 8 a4 ++ digits 256 8 a5 ++ digits 256 8 a6 ++ digits 256 8 a7) ∧
    (∀ b0 b1 b2 b3 b4 b5 b6 b7 b8 b9 b10 b11 b12 b13 b14 b15 b16 b17 b18 b19 b20 b21 b22 b23 b24 b25 b26 b27 b28 b29 b30 b31 b32 b33 b34 b35 b36 b37 b38 b39 b40 b41 b42 b43 b44 b45 b46 b47 b48 b49 b50 b51 b52 b53 b54 b55 b56 b57 b58 b59 b60 b61 b62 b63 : Nat,
      b0 < 256 → b1 < 256 → b2 < 256 → b3 < 256 → b4 < 256 → b5 < 256 → b6 < 256 → b7 < 256 → b8 < 256 → b9 < 256 → b10 < 256 → b11 < 256 → b12 < 256 → b13 < 256 → b14 < 256 → b15 < 256 → b16 < 256 → b17 < 256 → b18 < 256 → b19 < 256 → b20 < 256 → b21 < 256 → b22 < 256 → b23 < 256 → b24 < 256 → b25 < 256 → b26 < 256 → b27 < 256 → b28 < 256 → b29 < 256 → b30 < 256 → b31 < 256 → b32 < 256 → b33 < 256 → b34 < 256 → b35 < 256 → b36 < 256 → b37 < 256 → b38 < 256 → b39 < 256 → b40 < 256 → b41 < 256 → b42 < 256 → b43 < 256 → b44 < 256 → b45 < 256 → b46 < 256 → b47 < 256 → b48 < 256 → b49 < 256 → b50 < 256 → b51 < 256 → b52 < 256 → b53 < 256 → b54 < 256 → b55 < 256 → b56 < 256 → b57 < 256 → b58 < 256 → b59 < 256 → b60 < 256 → b61 < 256 → b62 < 256 → b63 < 256 →
      run SqiGen.Fiat5.from_bytes [[b0, b1, b2, b3, b4, b5, b6, b7, b8, b9, b10, b11, b12, b13, b14, b15, b16, b17, b18, b19, b20, b21, b22, b23, b24, b25, b26, b27, b28, b29, b30, b31, b32, b33, b34, b35, b36, b37, b38, b39, b40, b41, b42, b43, b44, b45, b46, b47, b48, b49, b50, b51, b52, b53, b54, b55, b56, b57, b58, b59, b60, b61, b62, b63]] =
        [b0 + 256 * b1 + 65536 * b2 + 16777216 * b3 + 4294967296 * b4 + 1099511627776 * b5 + 281474976710656 * b6 + 72057594037927936 * b7,
         b8 + 256 * b9 + 65536 * b10 + 16777216 * b11 + 4294967296 * b12 + 1099511627776 * b13 + 281474976710656 * b14 + 72057594037927936 * b15,
         b16 + 256 * b17 + 65536 * b18 + 16777216 * b19 + 4294967296 * b20 + 1099511627776 * b21 + 281474976710656 * b22 + 72057594037927936 * b23,
         b24 + 256 * b25 + 65536 * b26 + 16777216 * b27 + 4294967296 * b28 + 1099511627776 * b29 + 281474976710656 * b30 + 72057594037927936 * b31,
         b32 + 256 * b33 + 65536 * b34 + 16777216 * b35 + 4294967296 * b36 + 1099511627776 * b37 + 281474976710656 * b38 + 72057594037927936 * b39,
         b40 + 256 * b41 + 65536 * b42 + 16777216 * b43 + 4294967296 * b44 + 1099511627776 * b45 + 281474976710656 * b46 + 72057594037927936 * b47,
         b48 + 256 * b49 + 65536 * b50 + 16777216 * b51 + 4294967296 * b52 + 1099511627776 * b53 + 281474976710656 * b54 + 72057594037927936 * b55,
         b56 + 256 * b57 + 65536 * b58 + 16777216 * b59 + 4294967296 * b60 + 1099511627776 * b61 + 281474976710656 * b62 + 72057594037927936 * b63]) :=
  ⟨fun a b ha hb => ⟨SqiProofs.FiatLayer5.mul_val a b ha hb, SqiProofs.FiatLayer5.add_val a b ha hb,
      SqiProofs.FiatLayer5.sub_val a b ha hb⟩,
   fun a ha => ⟨SqiProofs.FiatLayer5.square_val a ha, SqiProofs.FiatLayer5.opp_val a ha,
      SqiProofs.FiatLayer5.to_montgomery_val a ha, SqiProofs.FiatLayer5.from_montgomery_val a ha⟩,
   SqiProofs.FiatLayer5.set_one_val,
   fun c a0 a1 a2 a3 a4 a5 a6 a7 b0 b1 b2 b3 b4 b5 b6 b7 ha0 ha1 ha2 ha3 ha4 ha5 ha6 ha7 hb0 hb1 hb2 hb3 hb4 hb5 hb6 hb7 =>
     SqiProofs.FiatLayer5.selectznz_correct c a0 a1 a2 a3 a4 a5 a6 a7 b0 b1 b2 b3 b4 b5 b6 b7 ha0 ha1 ha2 ha3 ha4 ha5 ha6 ha7 hb0 hb1 hb2 hb3 hb4 hb5 hb6 hb7,
   fun a0 a1 a2 a3 a4 a5 a6 a7 ha0 ha1 ha2 ha3 ha4 ha5 ha6 ha7 => SqiProofs.FiatLayer5.nonzero_correct a0 a1 a2 a3 a4 a5 a6 a7 ha0 ha1 ha2 ha3 ha4 ha5 ha6 ha7,
   fun a0 a1 a2 a3 a4 a5 a6 a7 ha0 ha1 ha2 ha3 ha4 ha5 ha6 ha7 hat => SqiProofs.FiatBytes5.to_bytes_correct a0 a1 a2 a3 a4 a5 a6 a7 ha0 ha1 ha2 ha3 ha4 ha5 ha6 ha7 hat,
   fun b0 b1 b2 b3 b4 b5 b6 b7 b8 b9 b10 b11 b12 b13 b14 b15 b16 b17 b18 b19 b20 b21 b22 b23 b24 b25 b26 b27 b28 b29 b30 b31 b32 b33 b34 b35 b36 b37 b38 b39 b40 b41 b42 b43 b44 b45 b46 b47 b48 b49 b50 b51 b52 b53 b54 b55 b56 b57 b58 b59 b60 b61 b62 b63 hb0 hb1 hb2 hb3 hb4 hb5 hb6 hb7 hb8 hb9 hb10 hb11 hb12 hb13 hb14 hb15 hb16 hb17 hb18 hb19 hb20 hb21 hb22 hb23 hb24 hb25 hb26 hb27 hb28 hb29 hb30 hb31 hb32 hb33 hb34 hb35 hb36 hb37 hb38 hb39 hb40 hb41 hb42 hb43 hb44 hb45 hb46 hb47 hb48 hb49 hb50 hb51 hb52 hb53 hb54 hb55 hb56 hb57 hb58 hb59 hb60 hb61 hb62 hb63 => SqiProofs.FiatBytes5.from_bytes_correct b0 b1 b2 b3 b4 b5 b6 b7 b8 b9 b10 b11 b12 b13 b14 b15 b16 b17 b18 b19 b20 b21 b22 b23 b24 b25 b26 b27 b28 b29 b30 b31 b32 b33 b34 b35 b36 b37 b38 b39 b40 b41 b42 b43 b44 b45 b46 b47 b48 b49 b50 b51 b52 b53 b54 b55 b56 b57 b58 b59 b60 b61 b62 b63 hb0 hb1 hb2 hb3 hb4 hb5 hb6 hb7 hb8 hb9 hb10 hb11 hb12 hb13 hb14 hb15 hb16 hb17 hb18 hb19 hb20 hb21 hb22 hb23 hb24 hb25 hb26 hb27 hb28 hb29 hb30 hb31 hb32 hb33 hb34 hb35 hb36 hb37 hb38 hb39 hb40 hb41 hb42 hb43 hb44 hb45 hb46 hb47 hb48 hb49 hb50 hb51 hb52 hb53 hb54 hb55 hb56 hb57 hb58 hb59 hb60 hb61 hb62 hb63⟩

/-! ### the ref back-end stated over the GENERATED programs

`fp_add`, `fp_sub`, `fp_mul`, `fp_sqr`, `fp_mont_setone` of fp_p*.c are one-line wrappers around the fiat functions (checked on
the C text by tools/translate/fiat.py at every run), so the ref-back-end record whose five primitive fields ARE the extracted
programs is `genOps`: C function = wrapper (text-checked) ∘ extracted program (translation) ∘ proved.  The remaining fields of
the record are the gfx/fp.c functions, modelled in `SqiModel.GfRef` over the value-level primitives (tie H). -/

/-- `Ref.ops` with the primitives replaced by the interpreter on the programs extracted from the C text -/
def genOps (P : RefParams) (n : Nat) (add sub mul square set_one : SqiModel.Fiat.Prog) : FpOps Nat :=
  { Ref.ops P with
    one := SqiModel.Fiat.runLimbs set_one n []
    add := fun a b => SqiModel.Fiat.runLimbs add n [a, b]
    sub := fun a b => SqiModel.Fiat.runLimbs sub n [a, b]
    mul := fun a b => SqiModel.Fiat.runLimbs mul n [a, b]
    sqr := fun a => SqiModel.Fiat.runLimbs square n [a] }

def genOps1 : FpOps Nat := genOps lvl1 4 SqiGen.Fiat1.add SqiGen.Fiat1.sub SqiGen.Fiat1.mul SqiGen.Fiat1.square SqiGen.Fiat1.set_one
def genOps3 : FpOps Nat := genOps lvl3 6 SqiGen.Fiat3.add SqiGen.Fiat3.sub SqiGen.Fiat3.mul SqiGen.Fiat3.square SqiGen.Fiat3.set_one
def genOps5 : FpOps Nat := genOps lvl5 8 SqiGen.Fiat5.add SqiGen.Fiat5.sub SqiGen.Fiat5.mul SqiGen.Fiat5.square SqiGen.Fiat5.set_one

theorem genOps_refines {P : RefParams} (hL : IsLevel P) {n : Nat} {add sub mul square set_one : SqiModel.Fiat.Prog}
    (h1 : SqiModel.Fiat.runLimbs set_one n [] = Ref.fp_set_one P)
    (hadd : ∀ a b, a < P.R → b < P.R → SqiModel.Fiat.runLimbs add n [a, b] = Ref.fp_add P a b)
    (hsub : ∀ a b, a < P.R → b < P.R → SqiModel.Fiat.runLimbs sub n [a, b] = Ref.fp_sub P a b)
    (hmul : ∀ a b, a < P.R → b < P.R → SqiModel.Fiat.runLimbs mul n [a, b] = Ref.fp_mul P a b)
    (hsqr : ∀ a, a < P.R → SqiModel.Fiat.runLimbs square n [a] = Ref.fp_sqr P a) :
    have := hL.prime
    FpRefines (genOps P n add sub mul square set_one) P.p (fun a => a < P.p) (toZ P) := by
  have := hL.prime
  have hR := hL.valid.hpR
  have r := ref_refines hL.valid
  exact
    { p4 := r.p4, zero := r.zero
      one := by
        have e : (genOps P n add sub mul square set_one).one = Ref.fp_set_one P := h1
        rw [e]; exact r.one
      add := fun {a b} ha hb => by
        have e : (genOps P n add sub mul square set_one).add a b = Ref.fp_add P a b := hadd a b (by omega) (by omega)
        rw [e]; exact r.add ha hb
      sub := fun {a b} ha hb => by
        have e : (genOps P n add sub mul square set_one).sub a b = Ref.fp_sub P a b := hsub a b (by omega) (by omega)
        rw [e]; exact r.sub ha hb
      mul := fun {a b} ha hb => by
        have e : (genOps P n add sub mul square set_one).mul a b = Ref.fp_mul P a b := hmul a b (by omega) (by omega)
        rw [e]; exact r.mul ha hb
      sqr := fun {a} ha => by
        have e : (genOps P n add sub mul square set_one).sqr a = Ref.fp_sqr P a := hsqr a (by omega)
        rw [e]; exact r.sqr ha
      neg := r.neg, half := r.half, inv := r.inv, sqrt := r.sqrt, isSquare := r.isSquare, isZero := r.isZero
      isEqual := r.isEqual, select := r.select, cswap := r.cswap, setSmall := r.setSmall, encode := r.encode }

/-- **C07, ref back-end over the generated programs**: with `fp_add/sub/mul/sqr/mont_setone` the programs extracted from the
    three fp_p*.c files, the operation record refines `ZMod p` (and so every generic GF(p²) theorem of this file applies to it) -/
theorem ref_backend_refines_generated :
    FpRefines genOps1 lvl1.p (fun a => a < lvl1.p) (toZ lvl1) ∧
    FpRefines genOps3 lvl3.p (fun a => a < lvl3.p) (toZ lvl3) ∧
    FpRefines genOps5 lvl5.p (fun a => a < lvl5.p) (toZ lvl5) :=
  ⟨genOps_refines .l1 SqiProofs.FiatLayer1.set_one_val SqiProofs.FiatLayer1.add_val SqiProofs.FiatLayer1.sub_val
      SqiProofs.FiatLayer1.mul_val SqiProofs.FiatLayer1.square_val,
   genOps_refines .l3 SqiProofs.FiatLayer3.set_one_val SqiProofs.FiatLayer3.add_val SqiProofs.FiatLayer3.sub_val
      SqiProofs.FiatLayer3.mul_val SqiProofs.FiatLayer3.square_val,
   genOps_refines .l5 SqiProofs.FiatLayer5.set_one_val SqiProofs.FiatLayer5.add_val SqiProofs.FiatLayer5.sub_val
      SqiProofs.FiatLayer5.mul_val SqiProofs.FiatLayer5.square_val⟩

/-! ### the composites of src/gf/ref/gfx/fp.c by translation (tie T)

`SqiGen.FpRef` is re-extracted from src/gf/ref/gfx/fp.c on every run by tools/translate/fpref.py (limb loops, accumulate loops,
the bit loop of `fp_exp3div4`, calls, the `uint32_t` mask idioms; every integer variable carries its C width; C semantics of the
emitted combinators: `SqiModel.FpRefSem`).  `generated = hand model` (`SqiProofs.FpRefGen`) for the functions listed below, so for
them the chain is C text → generated definition → value-level model → `ZMod p` theorems, over the fiat primitives which are
themselves translation + proof (`fiat_layer_refines_model_lvl*`).  Narrowing the accumulator of `fp_is_zero` to `uint32_t`, changing a
loop bound, a mask or a call changes the generated text and these proofs stop building.
All thirteen translated functions are proved.  Not translated (still hand models tied by correspondence): `fp_copy` (memcpy),
`fp_encode`, `fp_decode`, `fp_decode_reduce` with `enc64le`/`dec64le` (byte buffers).  Read, not translated: the helpers of mp.h
(`is_digit_zero_ct`, `is_digit_lessthan_ct`, macro `SUBC`, `mp_shiftr` by one bit) — stated in `SqiModel.FpRefSem` as what they compute. -/
theorem ref_composites_generated_eq_model {P : RefParams} (hL : IsLevel P) :
    (∀ a, a < P.R → SqiGen.FpRef.fp_is_zero P a = Ref.fp_is_zero a) ∧
    (∀ a b, a < P.R → b < P.R → SqiGen.FpRef.fp_is_equal P a b = Ref.fp_is_equal a b) ∧
    (∀ d a0 a1 ctl, d < P.R → a0 < P.R → a1 < P.R → SqiGen.FpRef.fp_select P d a0 a1 ctl = Ref.fp_select P a0 a1 ctl) ∧
    (∀ a, a < P.R → SqiGen.FpRef.fp_set_zero P a = Ref.fp_set_zero) ∧
    (∀ a, SqiGen.FpRef.fp_set_one P a = Ref.fp_set_one P) ∧
    (∀ x v, x < P.R → SqiGen.FpRef.fp_set_small P x v = Ref.fp_set_small P v) ∧
    (∀ out a, SqiGen.FpRef.fp_exp3div4 P out a = Ref.fp_exp3div4 P a) ∧
    (∀ a, SqiGen.FpRef.fp_inv P a = Ref.fp_inv P a) ∧
    (∀ out a, SqiGen.FpRef.fp_half P out a = Ref.fp_half P a) ∧
    (∀ a, a < P.p → SqiGen.FpRef.fp_is_square P a = Ref.fp_is_square P a) ∧
    (∀ a b ctl, a < P.R → b < P.R → SqiGen.FpRef.fp_cswap P a b ctl = Ref.fp_cswap P a b ctl) ∧
    (∀ out a, a < P.R → SqiGen.FpRef.fp_neg P out a = Ref.fp_neg P a) ∧
    (∀ a, a < P.p → SqiGen.FpRef.fp_sqrt P a = Ref.fp_sqrt P a) := by
  have := hL.prime
  have hV := hL.valid
  exact ⟨SqiProofs.FpRefGen.fp_is_zero_eq P, SqiProofs.FpRefGen.fp_is_equal_eq P,
    fun d a0 a1 ctl => SqiProofs.FpRefGen.fp_select_eq P d a0 a1 ctl, SqiProofs.FpRefGen.fp_set_zero_eq P,
    SqiProofs.FpRefGen.fp_set_one_eq P, fun x v hx => SqiProofs.FpRefGen.fp_set_small_eq P hV.hn x v hx,
    SqiProofs.FpRefGen.fp_exp3div4_eq P, SqiProofs.FpRefGen.fp_inv_eq P,
    SqiProofs.FpRefGen.fp_half_eq hV, SqiProofs.FpRefGen.fp_is_square_eq hV,
    fun a b ctl => SqiProofs.FpRefGen.fp_cswap_eq P a b ctl, SqiProofs.FpRefGen.fp_neg_eq P hV,
    SqiProofs.FpRefGen.fp_sqrt_eq hV⟩

/-- the ref-back-end record with the five primitives = the extracted fiat programs (`genOps`) AND the composites = the functions
    generated from gfx/fp.c (output arrays start as 0) -/
def genOpsFull (P : RefParams) (n : Nat) (add sub mul square set_one : SqiModel.Fiat.Prog) : FpOps Nat :=
  { genOps P n add sub mul square set_one with
    zero := SqiGen.FpRef.fp_set_zero P 0
    neg := fun a => SqiGen.FpRef.fp_neg P 0 a
    half := fun a => SqiGen.FpRef.fp_half P 0 a
    inv := SqiGen.FpRef.fp_inv P
    sqrt := SqiGen.FpRef.fp_sqrt P
    isSquare := SqiGen.FpRef.fp_is_square P
    isZero := SqiGen.FpRef.fp_is_zero P
    isEqual := SqiGen.FpRef.fp_is_equal P
    select := fun a b ctl => SqiGen.FpRef.fp_select P 0 a b ctl
    cswap := SqiGen.FpRef.fp_cswap P
    setSmall := SqiGen.FpRef.fp_set_small P 0 }

/-- **C07, ref back-end, text → proof**: the record made of the extracted fiat programs and the generated gfx/fp.c composites
    refines `ZMod p` (`encode` is the only field still taken from the hand model) -/
theorem genOpsFull_refines {P : RefParams} (hL : IsLevel P) {n : Nat} {add sub mul square set_one : SqiModel.Fiat.Prog}
    (h1 : SqiModel.Fiat.runLimbs set_one n [] = Ref.fp_set_one P)
    (hadd : ∀ a b, a < P.R → b < P.R → SqiModel.Fiat.runLimbs add n [a, b] = Ref.fp_add P a b)
    (hsub : ∀ a b, a < P.R → b < P.R → SqiModel.Fiat.runLimbs sub n [a, b] = Ref.fp_sub P a b)
    (hmul : ∀ a b, a < P.R → b < P.R → SqiModel.Fiat.runLimbs mul n [a, b] = Ref.fp_mul P a b)
    (hsqr : ∀ a, a < P.R → SqiModel.Fiat.runLimbs square n [a] = Ref.fp_sqr P a) :
    have := hL.prime
    FpRefines (genOpsFull P n add sub mul square set_one) P.p (fun a => a < P.p) (toZ P) := by
  have := hL.prime
  have hV := hL.valid
  have hR := hV.hpR
  have h0 : (0 : Nat) < P.R := Nat.two_pow_pos _
  have r := genOps_refines hL h1 hadd hsub hmul hsqr
  obtain ⟨g1, g2, g3, g4, g5, g6, g7, g8, g9, g10, g11, g12, g13⟩ := ref_composites_generated_eq_model hL
  exact
    { p4 := r.p4
      zero := by
        have e : (genOpsFull P n add sub mul square set_one).zero = Ref.fp_set_zero := g4 0 h0
        rw [e]; exact r.zero
      one := r.one, add := r.add, sub := r.sub, mul := r.mul, sqr := r.sqr
      neg := fun {a} ha => by
        have e : (genOpsFull P n add sub mul square set_one).neg a = Ref.fp_neg P a := g12 0 a (by omega)
        rw [e]; exact r.neg ha
      half := fun {a} ha => by
        have e : (genOpsFull P n add sub mul square set_one).half a = Ref.fp_half P a := g9 0 a
        rw [e]; exact r.half ha
      inv := fun {a} ha => by
        have e : (genOpsFull P n add sub mul square set_one).inv a = Ref.fp_inv P a := g8 a
        rw [e]; exact r.inv ha
      sqrt := fun {a} ha => by
        have e : (genOpsFull P n add sub mul square set_one).sqrt a = Ref.fp_sqrt P a := g13 a ha
        rw [e]; exact r.sqrt ha
      isSquare := fun {a} ha => by
        have e : (genOpsFull P n add sub mul square set_one).isSquare a = Ref.fp_is_square P a := g10 a ha
        rw [e]; exact r.isSquare ha
      isZero := fun {a} ha => by
        have e : (genOpsFull P n add sub mul square set_one).isZero a = Ref.fp_is_zero a := g1 a (by omega)
        rw [e]; exact r.isZero ha
      isEqual := fun {a b} ha hb => by
        have e : (genOpsFull P n add sub mul square set_one).isEqual a b = Ref.fp_is_equal a b := g2 a b (by omega) (by omega)
        rw [e]; exact r.isEqual ha hb
      select := fun {a b} ha hb => by
        have e0 : (genOpsFull P n add sub mul square set_one).select a b 0 = Ref.fp_select P a b 0 := g3 0 a b 0 h0 (by omega) (by omega)
        have e1 : (genOpsFull P n add sub mul square set_one).select a b T32 = Ref.fp_select P a b T32 := g3 0 a b T32 h0 (by omega) (by omega)
        rw [e0, e1]; exact r.select ha hb
      cswap := fun {a b} ha hb => by
        have e0 : (genOpsFull P n add sub mul square set_one).cswap a b 0 = Ref.fp_cswap P a b 0 := g11 a b 0 (by omega) (by omega)
        have e1 : (genOpsFull P n add sub mul square set_one).cswap a b T32 = Ref.fp_cswap P a b T32 := g11 a b T32 (by omega) (by omega)
        rw [e0, e1]; exact r.cswap ha hb
      setSmall := fun v hv => by
        have e : (genOpsFull P n add sub mul square set_one).setSmall v = Ref.fp_set_small P v := g6 0 v h0
        rw [e]; exact r.setSmall v hv
      encode := r.encode }

/-- instances for the three parameter sets -/
theorem ref_backend_text_to_proof :
    FpRefines (genOpsFull lvl1 4 SqiGen.Fiat1.add SqiGen.Fiat1.sub SqiGen.Fiat1.mul SqiGen.Fiat1.square SqiGen.Fiat1.set_one) lvl1.p (fun a => a < lvl1.p) (toZ lvl1) ∧
    FpRefines (genOpsFull lvl3 6 SqiGen.Fiat3.add SqiGen.Fiat3.sub SqiGen.Fiat3.mul SqiGen.Fiat3.square SqiGen.Fiat3.set_one) lvl3.p (fun a => a < lvl3.p) (toZ lvl3) ∧
    FpRefines (genOpsFull lvl5 8 SqiGen.Fiat5.add SqiGen.Fiat5.sub SqiGen.Fiat5.mul SqiGen.Fiat5.square SqiGen.Fiat5.set_one) lvl5.p (fun a => a < lvl5.p) (toZ lvl5) :=
  ⟨genOpsFull_refines .l1 SqiProofs.FiatLayer1.set_one_val SqiProofs.FiatLayer1.add_val SqiProofs.FiatLayer1.sub_val
      SqiProofs.FiatLayer1.mul_val SqiProofs.FiatLayer1.square_val,
   genOpsFull_refines .l3 SqiProofs.FiatLayer3.set_one_val SqiProofs.FiatLayer3.add_val SqiProofs.FiatLayer3.sub_val
      SqiProofs.FiatLayer3.mul_val SqiProofs.FiatLayer3.square_val,
   genOpsFull_refines .l5 SqiProofs.FiatLayer5.set_one_val SqiProofs.FiatLayer5.add_val SqiProofs.FiatLayer5.sub_val
      SqiProofs.FiatLayer5.mul_val SqiProofs.FiatLayer5.square_val⟩

/-- **src/gf/ref/gfx/fp2.c, straight-line functions, by translation**: `SqiGen.Fp2Ref` (tools/translate/fp2ref.py, re-extracted on every
    run) equals the models `fp2_*` of `SqiModel.Gf` that the generic GF(p²) theorems above are about, for EVERY operation record
    (definitional, plus one lemma on `-((uint32_t)buf[0] & 1)` for the sign normalisation of `fp2_sqrt`).  Not translated:
    `fp2_batched_inv` (loops over arrays), `fp2_encode`, `fp2_decode`: hand models tied by correspondence; `fp2_pow_vartime` is translated
    separately (`fp2_pow_vartime_generated_eq_model` below). -/
theorem fp2_straightline_generated_eq_model {α : Type} (O : FpOps α) :
    (∀ x v, SqiGen.Fp2Ref.fp2_set_small O x v = fp2_set_small O v) ∧
    (∀ x, SqiGen.Fp2Ref.fp2_set_one O x = fp2_set_one O) ∧
    (∀ x, SqiGen.Fp2Ref.fp2_set_zero O x = fp2_set_zero O) ∧
    (∀ a, SqiGen.Fp2Ref.fp2_is_zero O a = fp2_is_zero O a) ∧
    (∀ a b, SqiGen.Fp2Ref.fp2_is_equal O a b = fp2_is_equal O a b) ∧
    (∀ a, SqiGen.Fp2Ref.fp2_is_one O a = fp2_is_one O a) ∧
    (∀ d a0 a1 ctl, SqiGen.Fp2Ref.fp2_select O d a0 a1 ctl = fp2_select O a0 a1 ctl) ∧
    (∀ a b ctl, SqiGen.Fp2Ref.fp2_cswap O a b ctl = fp2_cswap O a b ctl) ∧
    (∀ x y, SqiGen.Fp2Ref.fp2_copy O x y = y) ∧
    (∀ x y, SqiGen.Fp2Ref.fp2_half O x y = fp2_half O y) ∧
    (∀ x y z, SqiGen.Fp2Ref.fp2_add O x y z = fp2_add O y z) ∧
    (∀ x y z, SqiGen.Fp2Ref.fp2_sub O x y z = fp2_sub O y z) ∧
    (∀ x y, SqiGen.Fp2Ref.fp2_neg O x y = fp2_neg O y) ∧
    (∀ x y z, SqiGen.Fp2Ref.fp2_mul O x y z = fp2_mul O y z) ∧
    (∀ x y, SqiGen.Fp2Ref.fp2_sqr O x y = fp2_sqr O y) ∧
    (∀ x, SqiGen.Fp2Ref.fp2_inv O x = fp2_inv O x) ∧
    (∀ x, SqiGen.Fp2Ref.fp2_is_square O x = fp2_is_square O x) ∧
    (∀ x, SqiGen.Fp2Ref.fp2_sqrt O x = fp2_sqrt O x) :=
  ⟨SqiProofs.Fp2RefGen.fp2_set_small_eq O, SqiProofs.Fp2RefGen.fp2_set_one_eq O, SqiProofs.Fp2RefGen.fp2_set_zero_eq O,
   SqiProofs.Fp2RefGen.fp2_is_zero_eq O, SqiProofs.Fp2RefGen.fp2_is_equal_eq O, SqiProofs.Fp2RefGen.fp2_is_one_eq O,
   SqiProofs.Fp2RefGen.fp2_select_eq O, SqiProofs.Fp2RefGen.fp2_cswap_eq O, SqiProofs.Fp2RefGen.fp2_copy_eq O,
   SqiProofs.Fp2RefGen.fp2_half_eq O, SqiProofs.Fp2RefGen.fp2_add_eq O, SqiProofs.Fp2RefGen.fp2_sub_eq O,
   SqiProofs.Fp2RefGen.fp2_neg_eq O, SqiProofs.Fp2RefGen.fp2_mul_eq O, SqiProofs.Fp2RefGen.fp2_sqr_eq O,
   SqiProofs.Fp2RefGen.fp2_inv_eq O, SqiProofs.Fp2RefGen.fp2_is_square_eq O, SqiProofs.Fp2RefGen.fp2_sqrt_eq O⟩

/-- **src/gf/ref/gfx/fp2.c, `fp2_pow_vartime`, by translation**: `SqiGen.Fp2Loops.fp2_pow_vartime` (tools/translate/fp2loops.py,
    re-extracted from the C text on every run: the two nested `for` loops as `loopAcc`, `bit = (exp[j] >> i) & 1`, the conditional
    `fp2_mul`, `fp2_sqr`, all calls going to the generated `SqiGen.Fp2Ref.*`; RADIX = 64) equals the model `fp2_pow_vartime` for EVERY
    operation record, EVERY exponent array `exp` (any length, any word values) with `size = exp.length`, whatever the previous content of
    `out` and of the uninitialised local `acc`. -/
theorem fp2_pow_vartime_generated_eq_model {α : Type} (O : FpOps α) (out x acc0 : Fp2 α) (exp : List Nat) :
    SqiGen.Fp2Loops.fp2_pow_vartime O out x exp exp.length acc0 = fp2_pow_vartime O x exp :=
  SqiProofs.Fp2LoopsGen.fp2_pow_vartime_eq O out x acc0 exp

/-- the generated inner-loop body is one square-and-multiply step on bit `i` of `exp[j]` (step-level statement of the same tie) -/
theorem fp2_pow_vartime_generated_step {α : Type} (O : FpOps α) (x : Fp2 α) (exp : List Nat) (size j i : Nat) (s : Fp2 α × Fp2 α) :
    SqiGen.Fp2Loops.fp2_pow_vartime_loop_2 O x exp size j s i =
      (if exp.getD j 0 / 2 ^ i % 2 = 1 then fp2_mul O s.1 s.2 else s.1, fp2_sqr O s.2) :=
  SqiProofs.Fp2LoopsGen.loop_2_eq O x exp size j s i

/-- **generated `fp2_pow_vartime` computes `x ^ e` in `Fp[i]`**, `e = Σ exp[j]·2^(64 j)`, for any back-end record refining `ZMod p`
    (`FpRefines`), any representable `x`, any array of 64-bit words: `fp2_pow_vartime_spec` stated on the definition extracted from the C text. -/
theorem fp2_pow_vartime_generated_spec {p : Nat} [Fact p.Prime] {α : Type} {O : FpOps α} {dom : α → Prop} {val : α → ZMod p}
    (h : FpRefines O p dom val) (out x acc0 : Fp2 α) (hx : dom2 dom x) (ws : List Nat) (hw : ∀ w ∈ ws, w < 2 ^ 64) :
    dom2 dom (SqiGen.Fp2Loops.fp2_pow_vartime O out x ws ws.length acc0) ∧
    val2 val (SqiGen.Fp2Loops.fp2_pow_vartime O out x ws ws.length acc0) = val2 val x ^ evalWords ws := by
  rw [SqiProofs.Fp2LoopsGen.fp2_pow_vartime_eq]
  exact SqiProofs.GfFp2.fp2_pow_vartime_spec h x hx ws hw

/- Step-level statement (the whole-function equality is `fp2_batched_inv_generated_eq_model` below): -/
/-- **src/gf/ref/gfx/fp2.c, `fp2_batched_inv`, loop bodies by translation (step level)**: each of the five loop bodies
    re-extracted from the C text by tools/translate/fp2loops.py writes entry `i` with exactly the step of the hand model
    `fp2_batched_inv` / `fp2_batched_inv_core`: zero test + substitution by one, prefix product `t1[i-1]·x[i]`, backward chain
    `t2[i-1]·x[len-i]`, `t1[i-1]·t2[len-i-1]`, zero put back; for every operation record, every array content and every index. -/
theorem fp2_batched_inv_generated_steps_partial {α : Type} (O : FpOps α) (junk : Fp2 α) (len : Nat) (x t1 t2 : List (Fp2 α)) (z : List Nat)
    (inverse one zero : Fp2 α) (i : Nat) :
    (i < z.length → SqiGen.Fp2Loops.fp2_batched_inv_loop_1 O junk len t1 t2 inverse one zero (z, x) i =
      (z.set i (fp2_is_zero O (x.getD i junk)), x.set i (fp2_select O (x.getD i junk) one (fp2_is_zero O (x.getD i junk))))) ∧
    SqiGen.Fp2Loops.fp2_batched_inv_loop_2 O junk len x t2 z inverse one zero t1 i = t1.set i (fp2_mul O (t1.getD (i - 1) junk) (x.getD i junk)) ∧
    SqiGen.Fp2Loops.fp2_batched_inv_loop_3 O junk len x t1 z inverse one zero t2 i =
      t2.set i (fp2_mul O (t2.getD (i - 1) junk) (x.getD (len - i) junk)) ∧
    SqiGen.Fp2Loops.fp2_batched_inv_loop_4 O junk len t1 t2 z inverse one zero x i =
      x.set i (fp2_mul O (t1.getD (i - 1) junk) (t2.getD (len - i - 1) junk)) ∧
    SqiGen.Fp2Loops.fp2_batched_inv_loop_5 O junk len t1 t2 z inverse one zero x i =
      x.set i (fp2_select O (x.getD i junk) zero (z.getD i 0)) :=
  ⟨SqiProofs.Fp2LoopsGen.batched_loop_1_eq O junk len t1 t2 inverse one zero z x i,
   SqiProofs.Fp2LoopsGen.batched_loop_2_eq O junk len x t2 z inverse one zero t1 i,
   SqiProofs.Fp2LoopsGen.batched_loop_3_eq O junk len x t1 z inverse one zero t2 i,
   SqiProofs.Fp2LoopsGen.batched_loop_4_eq O junk len t1 t2 z inverse one zero x i,
   SqiProofs.Fp2LoopsGen.batched_loop_5_eq O junk len t1 t2 z inverse one zero x i⟩

/-- the hypothesis `i < z.length` is met by any index inside the arrays (here `i = 1`, `len = 2`) -/
example : (1 : Nat) < ([0, 0] : List Nat).length := by decide

/-- **src/gf/ref/gfx/fp2.c, `fp2_batched_inv`, whole function by translation**: `SqiGen.Fp2Loops.fp2_batched_inv` (re-extracted from the C
    text on every run: arrays as lists with `List.set` / `List.getD`, five `loopAcc` loops with the bounds of the C text, the
    `fp2_copy` / `fp2_inv` glue) equals the model `fp2_batched_inv` for EVERY operation record and EVERY batch `xs` (any length, `len = xs.length`),
    whatever the content of the scratch arrays `t1`, `t2`, `z` (of the batch length) and of the uninitialised locals. -/
theorem fp2_batched_inv_generated_eq_model {α : Type} (O : FpOps α) (junk : Fp2 α) (xs t1u t2u : List (Fp2 α)) (zu : List Nat)
    (invu oneu zerou : Fp2 α) (h1 : t1u.length = xs.length) (h2 : t2u.length = xs.length) (hz : zu.length = xs.length) :
    SqiGen.Fp2Loops.fp2_batched_inv O junk xs xs.length t1u t2u zu invu oneu zerou = fp2_batched_inv O xs :=
  SqiProofs.Fp2BatchGen.fp2_batched_inv_eq O junk xs t1u t2u zu invu oneu zerou h1 h2 hz

/-- **generated `fp2_batched_inv` = element-wise inversion in `Fp[i]`** (`0⁻¹ = 0` included) for any `FpRefines` back-end, every batch
    length: `fp2_batched_inv_spec` stated on the definition extracted from the C text. -/
theorem fp2_batched_inv_generated_spec {p : Nat} [Fact p.Prime] {α : Type} {O : FpOps α} {dom : α → Prop} {val : α → ZMod p}
    (h : FpRefines O p dom val) (junk : Fp2 α) (xs t1u t2u : List (Fp2 α)) (zu : List Nat) (invu oneu zerou : Fp2 α)
    (h1 : t1u.length = xs.length) (h2 : t2u.length = xs.length) (hz : zu.length = xs.length) (hd : ∀ x ∈ xs, dom2 dom x) :
    List.Forall₂ (fun out x => dom2 dom out ∧ val2 val out = (val2 val x)⁻¹)
      (SqiGen.Fp2Loops.fp2_batched_inv O junk xs xs.length t1u t2u zu invu oneu zerou) xs := by
  rw [SqiProofs.Fp2BatchGen.fp2_batched_inv_eq O junk xs t1u t2u zu invu oneu zerou h1 h2 hz]
  exact SqiProofs.GfFp2.fp2_batched_inv_spec h xs hd

/-- non-vacuity of the length hypotheses: scratch arrays of the batch length (here 2) with arbitrary content -/
example : SqiGen.Fp2Loops.fp2_batched_inv (Ref.ops lvl1) ⟨0, 0⟩ [⟨Ref.fp_set_one lvl1, 0⟩, ⟨0, 0⟩] 2 [⟨5, 6⟩, ⟨7, 8⟩] [⟨1, 2⟩, ⟨3, 4⟩] [9, 9]
      ⟨1, 1⟩ ⟨2, 2⟩ ⟨3, 3⟩ = fp2_batched_inv (Ref.ops lvl1) [⟨Ref.fp_set_one lvl1, 0⟩, ⟨0, 0⟩] :=
  fp2_batched_inv_generated_eq_model (Ref.ops lvl1) _ [⟨Ref.fp_set_one lvl1, 0⟩, ⟨0, 0⟩] _ _ _ _ _ _ rfl rfl rfl

/-- non-vacuity: the generated function on the lvl1 reference record, `x = 1`, a two-word exponent, garbage in `out`/`acc` -/
example : SqiGen.Fp2Loops.fp2_pow_vartime (Ref.ops lvl1) ⟨7, 9⟩ ⟨Ref.fp_set_one lvl1, 0⟩ [5, 3] 2 ⟨11, 13⟩ =
    fp2_pow_vartime (Ref.ops lvl1) ⟨Ref.fp_set_one lvl1, 0⟩ [5, 3] :=
  fp2_pow_vartime_generated_eq_model (Ref.ops lvl1) _ _ _ [5, 3]

/-! ## x86 ("broadwell") back-end, value-level model `SqiModel.GfX86`

Representation domain: partially reduced representatives `a < 2^B` (B = 251 / 383 / 505), `q = c·2^e − 1`,
`R = 2^(64 n)`. Statements of the form "range preserved ∧ congruent mod q" for every level
(`IsLvl P : P = x1 ∨ P = x3 ∨ P = x5`); proofs in SqiProofs.GfX86 (core Lean, `omega` on the concrete
constants). -/
section x86
open SqiModel.Gf.X86 SqiProofs.GfX86 SqiProofs.GfX86Refines
variable (P : X86Params) (hP : IsLvl P)
include hP

theorem gf_add_spec (a b : Nat) (ha : a < 2 ^ P.B) (hb : b < 2 ^ P.B) :
    X86.add P a b < 2 ^ P.B ∧ X86.add P a b % P.q = (a + b) % P.q := add_spec P hP a b ha hb
theorem gf_sub_spec (a b : Nat) (ha : a < 2 ^ P.B) (hb : b < 2 ^ P.B) :
    X86.sub P a b < 2 ^ P.B ∧ (X86.sub P a b + b) % P.q = a % P.q := sub_spec P hP a b ha hb
theorem gf_neg_spec (a : Nat) (ha : a < 2 ^ P.B) :
    X86.neg P a < 2 ^ P.B ∧ (X86.neg P a + a) % P.q = 0 := neg_spec P hP a ha
theorem gf_half_spec (a : Nat) (ha : a < 2 ^ P.B) :
    X86.half P a < 2 ^ P.B ∧ (2 * X86.half P a) % P.q = a % P.q := half_spec P hP a ha
theorem gf_partial_reduce_spec (a : Nat) (ha : a < P.R) :
    X86.partial_reduce P a < 2 ^ P.B ∧ X86.partial_reduce P a % P.q = a % P.q := partial_reduce_spec P hP a ha
theorem gf_set_small_spec (x : Nat) :
    X86.set_small P x < 2 ^ P.B ∧ X86.set_small P x % P.q = (x % 2 ^ 32 * P.R) % P.q := set_small_spec P hP x
/-- Montgomery reduction with the `h = q ↦ 0` normalisation: canonical output -/
theorem gf_montgomery_reduce_spec (x : Nat) (hx : x < P.R) :
    X86.montgomery_reduce P x < P.q ∧ (X86.montgomery_reduce P x * P.R) % P.q = x % P.q :=
  montgomery_reduce_spec P hP x hx
theorem gf_mul_spec (a b : Nat) (ha : a < 2 ^ P.B) (hb : b < 2 ^ P.B) :
    X86.mul P a b < 2 ^ P.B ∧ (X86.mul P a b * P.R) % P.q = (a * b) % P.q := mul_spec P hP a b ha hb
/-- `iszero` accepts exactly the two representatives 0 and q of zero -/
theorem gf_iszero_spec (a : Nat) (ha : a < 2 ^ P.B) :
    (X86.iszero P a = T32 ↔ a % P.q = 0) ∧ (X86.iszero P a = T32 ∨ X86.iszero P a = 0) := iszero_spec P hP a ha
theorem gf_equals_spec (a b : Nat) (ha : a < 2 ^ P.B) (hb : b < 2 ^ P.B) :
    (X86.equals P a b = T32 ↔ a % P.q = b % P.q) ∧ (X86.equals P a b = T32 ∨ X86.equals P a b = 0) :=
  equals_spec P hP a b ha hb
theorem gf_normalize_spec (a : Nat) (ha : a < 2 ^ P.B) :
    X86.normalize P a < P.q ∧ X86.normalize P a % P.q = a % P.q := normalize_spec P hP a ha
/-- canonical encoding: the integer `a·R⁻¹ mod q` -/
theorem gf_encode_spec (a : Nat) (ha : a < P.R) :
    X86.encode P a < P.q ∧ (X86.encode P a * P.R) % P.q = a % P.q := encode_spec P hP a ha
/-- decode: canonical strings are accepted, every other `8n`-byte string is rejected (0, flag 0) -/
theorem gf_decode_spec (v : Nat) (hv : v < P.R) :
    (v < P.q → (X86.decode P v).2 = T32 ∧ (X86.decode P v).1 < 2 ^ P.B ∧ (X86.decode P v).1 % P.q = (v * P.R) % P.q) ∧
    (P.q ≤ v → (X86.decode P v).2 = 0 ∧ (X86.decode P v).1 < 2 ^ P.B ∧ (X86.decode P v).1 % P.q = 0) :=
  decode_spec P hP v hv
/-- encode(decode(b)) = b for canonical b -/
theorem gf_encode_decode (v : Nat) (hv : v < P.q) : X86.encode P (X86.decode P v).1 = v := by
  have hqR : P.q < P.R := by rcases hP with rfl | rfl | rfl <;> decide +kernel
  have hBR : 2 ^ P.B < P.R := by rcases hP with rfl | rfl | rfl <;> decide +kernel
  obtain ⟨_, d1, d2⟩ := (decode_spec P hP v (lt_trans hv hqR)).1 hv
  obtain ⟨e1, e2⟩ := encode_spec P hP _ (lt_trans d1 hBR)
  have := R_cancel P hP (X86.encode P (X86.decode P v).1) v (by rw [e2, d2])
  rwa [Nat.mod_eq_of_lt e1, Nat.mod_eq_of_lt hv] at this
theorem gf_select_spec (a0 a1 : Nat) (h0 : a0 < 2 ^ P.B) (h1 : a1 < 2 ^ P.B) :
    X86.select P a0 a1 0 = a0 ∧ X86.select P a0 a1 T32 = a1 := by
  have hBR : 2 ^ P.B < P.R := by rcases hP with rfl | rfl | rfl <;> decide +kernel
  exact ⟨select_zero P a0 a1, select_T32 P hP a0 a1 (lt_trans h0 hBR) (lt_trans h1 hBR)⟩
theorem gf_cswap_spec (a b : Nat) (h0 : a < 2 ^ P.B) (h1 : b < 2 ^ P.B) :
    X86.cswap P a b 0 = (a, b) ∧ X86.cswap P a b T32 = (b, a) := by
  have hBR : 2 ^ P.B < P.R := by rcases hP with rfl | rfl | rfl <;> decide +kernel
  exact ⟨cswap_zero P a b, cswap_T32 P hP a b (lt_trans h0 hBR) (lt_trans h1 hBR)⟩

/-- squaring, every level (since the repair 82bdea1 of gf65376_square / gf27500_square; the pre-fix
    lost-carry witnesses are kept in corpus/C07 and are re-run against the real code on every check) -/
theorem gf_square_spec (a : Nat) (ha : a < 2 ^ P.B) :
    X86.square P a < 2 ^ P.B ∧ (X86.square P a * P.R) % P.q = (a * a) % P.q := square_spec P hP a ha

/-- multiplication by a 32-bit integer (since the repair 2ef264b) -/
theorem gf_mul_small_spec (a x : Nat) (ha : a < 2 ^ P.B) (hx : x < 2 ^ 32) :
    X86.mul_small P a x < 2 ^ P.B ∧ X86.mul_small P a x % P.q = (a * x) % P.q := mul_small_spec P hP a x ha hx

/-- square root: range, even canonical value, and the returned flag is exactly "result² ≡ a" -/
theorem gf_sqrt_spec (a : Nat) (ha : a < 2 ^ P.B) :
    (X86.sqrt P a).1 < 2 ^ P.B ∧ X86.encode P (X86.sqrt P a).1 % 2 = 0 ∧
    ((X86.sqrt P a).2 = T32 ↔ X86.square P (X86.sqrt P a).1 % P.q = a % P.q) ∧
    ((X86.sqrt P a).2 = T32 ∨ (X86.sqrt P a).2 = 0) := sqrt_spec_all P hP a ha

/-- the exponent chain of `gf*_sqrt` computes `a^((q+1)/4)`: the returned value is a square root of every
    square (all levels; with `gf_sqrt_spec`: in range, even canonical value, flag ⇔ root) -/
theorem gf_sqrt_root [Fact P.q.Prime] (a : Nat) (ha : a < 2 ^ P.B) (hsq : IsSquare (xval P a)) :
    xval P (X86.sqrt P a).1 * xval P (X86.sqrt P a).1 = xval P a := sqrt_root P hP ha hsq

omit hP in
/-- Pornin binary GCD, inner loop: the packed 31-step inner loop on the 64-bit approximations (`innerLoop 31`, coefficients packed
    as `f + g·2^32` in one word, `unpack`) yields update coefficients with `|f|, |g| ≤ 2^31` whose combinations with the FULL-WIDTH
    `a, b` are divisible by `2^31` — for every state with `b` odd (`SqiProofs.GfX86Coeffs`: invariant "packed ≡ f + g·2^32,
    −2^i < f, g ≤ 2^i, xa₀·f0 + xb₀·g0 = 2^i·xa, xa₀·f1 + xb₀·g1 = 2^i·xb, xb odd" over the 31 steps, and
    `approx ≡ (a, b) mod 2^31`).  This was a cited hypothesis until round 6. -/
theorem gf_div_inner_coeffs (st : DivSt) (hb : st.b % 2 = 1) :
    SqiProofs.GfX86.CoeffsOK st (SqiProofs.GfX86.outerCoeffs P st) :=
  SqiProofs.GfX86.coeffsOK_of_odd P st hb

/-- Pornin binary GCD (inversion / division): one outer iteration of the model's `divOuterStep` preserves
    the invariant `a·x·2^k ≡ y·u ∧ b·x·2^k ≡ y·v (mod q)` (with k ↦ k+31), for every state with `b` odd and `a, b, u, v` in range
    (no hypothesis on the inner loop any more).  PARTIAL: that `a, b` stay below `2^(64n−1)`, that `b` stays odd, and that the gcd is
    reached within the fixed iteration counts is cited (Pornin, eprint 2020/972) — hypothesis `PorninConvergence` of
    `x86_backend_refines` — so there is no end-to-end theorem for `invert` / `legendre`; both are tied to the C code by execution
    on every run, the iteration budget by translation (`gcd_budget`). -/
theorem gf_div_outer_invariant_partial (st : DivSt) (k : Nat) (x y : Int)
    (ha : st.a < 2 ^ (64 * P.n - 1)) (hb : st.b < 2 ^ (64 * P.n - 1))
    (hu : st.u < 2 ^ P.B) (hv : st.v < 2 ^ P.B)
    (hodd : st.b % 2 = 1)
    (h1 : (P.q : Int) ∣ (st.a : Int) * x * 2 ^ k - y * st.u)
    (h2 : (P.q : Int) ∣ (st.b : Int) * x * 2 ^ k - y * st.v) :
    (divOuterStep P st).u < 2 ^ P.B ∧ (divOuterStep P st).v < 2 ^ P.B ∧
    (P.q : Int) ∣ ((divOuterStep P st).a : Int) * x * 2 ^ (k + 31) - y * (divOuterStep P st).u ∧
    (P.q : Int) ∣ ((divOuterStep P st).b : Int) * x * 2 ^ (k + 31) - y * (divOuterStep P st).v :=
  SqiProofs.GfX86.divOuterStep_invariant P hP st k x y ha hb hu hv (SqiProofs.GfX86.coeffsOK_of_odd P st hodd) h1 h2

/-- the x86 model satisfies the GF(p²)/C06 interface `FpRefines`; arithmetic fields proved, the fields
    resting on the binary GCD (`inv`, `isSquare`) are the explicit hypothesis `X86Cited` -/
theorem x86_backend_refines [Fact P.q.Prime] (hc : X86Cited P) :
    FpRefines (X86.ops P) P.q (fun a => a < 2 ^ P.B) (xval P) := x86_refines hP hc

end x86

/-! ### iteration budget of the binary GCD — tie T (`SqiGen.GfGcd` is re-extracted from gf5248.c / gf65376.c /
gf27500.c on every run by tools/translate/gfgcd.py) -/

/-- the loop counts of the model (`X86Params.outer`, `.final`, 31 = 29 + 2 inner steps) are the ones in the C text,
    for `gf*_div` (hence `gf*_invert`) and for `gf*_legendre`, at the three levels -/
theorem gcd_model_matches_code :
    (SqiGen.GfGcd.L1.div_outer = x1.outer ∧ SqiGen.GfGcd.L1.div_inner = 31 ∧ SqiGen.GfGcd.L1.div_final = x1.final ∧
     SqiGen.GfGcd.L1.leg_outer = x1.outer ∧ SqiGen.GfGcd.L1.leg_innerA = 29 ∧ SqiGen.GfGcd.L1.leg_innerB = 2 ∧
     SqiGen.GfGcd.L1.leg_final = x1.final) ∧
    (SqiGen.GfGcd.L3.div_outer = x3.outer ∧ SqiGen.GfGcd.L3.div_inner = 31 ∧ SqiGen.GfGcd.L3.div_final = x3.final ∧
     SqiGen.GfGcd.L3.leg_outer = x3.outer ∧ SqiGen.GfGcd.L3.leg_innerA = 29 ∧ SqiGen.GfGcd.L3.leg_innerB = 2 ∧
     SqiGen.GfGcd.L3.leg_final = x3.final) ∧
    (SqiGen.GfGcd.L5.div_outer = x5.outer ∧ SqiGen.GfGcd.L5.div_inner = 31 ∧ SqiGen.GfGcd.L5.div_final = x5.final ∧
     SqiGen.GfGcd.L5.leg_outer = x5.outer ∧ SqiGen.GfGcd.L5.leg_innerA = 29 ∧ SqiGen.GfGcd.L5.leg_innerB = 2 ∧
     SqiGen.GfGcd.L5.leg_final = x5.final) := by decide

/-- **budget**: inversion/division and Legendre perform exactly `2·B − 2` binary-GCD steps (B = 251 / 383 / 505:
    500 / 764 / 1008), the bound of Pornin's analysis for a modulus below `2^B` -/
theorem gcd_budget :
    SqiGen.GfGcd.L1.div_steps = 2 * x1.B - 2 ∧ SqiGen.GfGcd.L1.leg_steps = 2 * x1.B - 2 ∧
    SqiGen.GfGcd.L3.div_steps = 2 * x3.B - 2 ∧ SqiGen.GfGcd.L3.leg_steps = 2 * x3.B - 2 ∧
    SqiGen.GfGcd.L5.div_steps = 2 * x5.B - 2 ∧ SqiGen.GfGcd.L5.leg_steps = 2 * x5.B - 2 := by decide

/-- the final correction factor of `gf*_div` (`INVT…`) is `2^(2·64n − steps)`: it cancels exactly the injected halvings -/
theorem gcd_invt :
    x1.invt = 2 ^ (128 * x1.n - SqiGen.GfGcd.L1.div_steps) ∧ x3.invt = 2 ^ (128 * x3.n - SqiGen.GfGcd.L3.div_steps) ∧
    x5.invt = 2 ^ (128 * x5.n - SqiGen.GfGcd.L5.div_steps) := by decide

/-- the `enough` field of the cited hypothesis `PorninConvergence P (gcdSteps P)` holds at the three levels -/
theorem gcd_steps_enough (P : X86Params) (hP : SqiProofs.GfX86.IsLvl P) :
    2 * P.B - 2 ≤ SqiProofs.GfX86Refines.gcdSteps P := by
  rcases hP with rfl | rfl | rfl <;> decide

/-- the x86 moduli are the ref moduli (hence prime) -/
theorem x86_q : x1.q = lvl1.p ∧ x3.q = lvl3.p ∧ x5.q = lvl5.p := by decide +kernel
instance : Fact x1.q.Prime := ⟨by rw [x86_q.1]; exact Fact.out⟩
instance : Fact x3.q.Prime := ⟨by rw [x86_q.2.1]; exact Fact.out⟩
instance : Fact x5.q.Prime := ⟨by rw [x86_q.2.2]; exact Fact.out⟩

/-- non-vacuity of the x86 hypotheses -/
example : SqiProofs.GfX86.IsLvl x3 ∧ (2 ^ 383 - 2 : Nat) < 2 ^ x3.B ∧
    X86.square x3 (2 ^ 383 - 2) = X86.mul x3 (2 ^ 383 - 2) (2 ^ 383 - 2) :=
  ⟨Or.inr (Or.inl rfl), by decide +kernel, by decide +kernel⟩

end SqiProps.C07

import SqiProofs.CurveIsom
import SqiProofs.LadderGen
import SqiProofs.BasisAlg

/-! # C08 — x-only Montgomery curve arithmetic implements the elliptic-curve group law

Property theorems only (lemmas: `SqiProofs/Curve*.lean`). Setting: any field `F` with `2 ≠ 0`, the Montgomery curve
`mont a : y² = x³ + a x² + x` as Mathlib's `WeierstrassCurve.Affine`, its group of nonsingular points
`(mont a).Point`, `IsX P X Z` = "`(X : Z)` is a projective representative of `x(P)`" (`∞ ↦ (X : 0)`, `X ≠ 0`).
Curve constants are projective too: `(A : C)` with `A = a·C`, `C ≠ 0`; `IsA24 a U V` = "`(U : V) = (a+2 : 4)`".

The formulas (`xDBL`, `xDBL_A24`, `xDBL_A24_normalized`, `xADD`, `xDBLADD`, `xDBLADD_normalized`, `ec_j_inv`, `DBL`,
`ADD` (all branches), `jac_to_xz`, `jac_neg`, `ec_iso_eval`, `AC_to_A24`, `A24_to_AC`, `ec_curve_normalize_A24`, `swap_points`,
`select_point`, …) are the definitions *generated from the C text on every run* (`SqiGen.Ec`); the ladders are the hand
models of `SqiModel.Ladder` (run against the C functions by the correspondence harness), which call the generated
formulas. Every theorem is for **all** points (incl. `∞` and 2-torsion where stated), all representatives, and bit
lists / scalars of **any length**. -/

set_option linter.unusedSectionVars false
namespace SqiProps.C08
open WeierstrassCurve SqiGen SqiModel.Ladder SqiProofs.Curve

variable {F : Type} [Field F] [DecidableEq F]

/-! ## doubling -/

/-- `xDBL` returns `x(2P)` for every point `P` (including `∞` and the points of order 2, where it returns a proper
representative `(X : 0)`, `X ≠ 0` of `∞`), every representative `(X : Z)` of `x(P)` and every `(A : C)`. -/
theorem xDBL_correct {a : F} (h2 : (2 : F) ≠ 0) (A C : F) (hA : A = a * C) (hC : C ≠ 0)
    (Pt : (mont a).Point) (P : EcPoint F) (hP : IsX Pt P.x P.z) :
    IsX (Pt + Pt) (xDBL P ⟨A, C⟩).x (xDBL P ⟨A, C⟩).z :=
  xDBL_isX h2 hA hC hP

theorem xDBL_A24_correct {a : F} (h2 : (2 : F) ≠ 0) (A24 : EcPoint F) (hA : IsA24 a A24.x A24.z)
    (Pt : (mont a).Point) (P : EcPoint F) (hP : IsX Pt P.x P.z) :
    IsX (Pt + Pt) (xDBL_A24 P A24).x (xDBL_A24 P A24).z :=
  xDBL_A24_isX h2 hA hP

/-- the normalised variant ignores `A24.z`: it is correct when `A24.x = (a+2)/4` -/
theorem xDBL_A24_normalized_correct {a : F} (h2 : (2 : F) ≠ 0) (A24 : EcPoint F) (hA : 4 * A24.x = a + 2)
    (Pt : (mont a).Point) (P : EcPoint F) (hP : IsX Pt P.x P.z) :
    IsX (Pt + Pt) (xDBL_A24_normalized P A24).x (xDBL_A24_normalized P A24).z :=
  xDBL_A24n_isX h2 hA hP

/-! ## differential addition -/

/-- `xADD(P, Q, P-Q)` returns `x(P+Q)` whenever the difference has `x(P-Q) ∉ {0, ∞}`; `P`, `Q` arbitrary
(including `∞`, `P = -Q`, points of order 2). -/
theorem xADD_correct {a : F} (h2 : (2 : F) ≠ 0) (Pt Qt : (mont a).Point) (P Q PQ : EcPoint F)
    (hP : IsX Pt P.x P.z) (hQ : IsX Qt Q.x Q.z) (hD : IsX (Pt - Qt) PQ.x PQ.z) (hx : PQ.x ≠ 0) (hz : PQ.z ≠ 0) :
    IsX (Pt + Qt) (xADD P Q PQ).x (xADD P Q PQ).z :=
  xADD_isX h2 hP hQ hD hx hz

/-- the excluded differences: exactly what the formula returns. Difference `∞` (`P = Q`) gives `X = 0`, difference
`(0,0)` gives `Z = 0`, and two inputs at `∞` give `Z = 0` (in fact `(0 : 0)`) — so `xADD` does **not** compute
`P + Q` there (the full statement without `hx hz` is false: see `xADD_degenerate_witness`). -/
theorem xADD_degenerate (P Q : EcPoint F) (X Z Xp Xq : F) (PQ : EcPoint F) :
    (xADD P Q ⟨X, 0⟩).x = 0 ∧ (xADD P Q ⟨0, Z⟩).z = 0 ∧ (xADD ⟨Xp, 0⟩ ⟨Xq, 0⟩ PQ).z = 0 :=
  ⟨xADD_diff_inf P Q X, xADD_diff_T P Q Z, xADD_inf_inf Xp Xq PQ⟩

theorem xDBLADD_correct {a : F} (h2 : (2 : F) ≠ 0) (A24 : EcPoint F) (hA : IsA24 a A24.x A24.z)
    (Pt Qt : (mont a).Point) (P Q PQ : EcPoint F)
    (hP : IsX Pt P.x P.z) (hQ : IsX Qt Q.x Q.z) (hD : IsX (Pt - Qt) PQ.x PQ.z) (hx : PQ.x ≠ 0) (hz : PQ.z ≠ 0) :
    IsX (Pt + Pt) (xDBLADD P Q PQ A24).1.x (xDBLADD P Q PQ A24).1.z ∧
    IsX (Pt + Qt) (xDBLADD P Q PQ A24).2.x (xDBLADD P Q PQ A24).2.z :=
  xDBLADD_isX h2 hA hP hQ hD hx hz

theorem xDBLADD_normalized_correct {a : F} (h2 : (2 : F) ≠ 0) (A24 : EcPoint F) (hA : 4 * A24.x = a + 2)
    (Pt Qt : (mont a).Point) (P Q PQ : EcPoint F)
    (hP : IsX Pt P.x P.z) (hQ : IsX Qt Q.x Q.z) (hD : IsX (Pt - Qt) PQ.x PQ.z) (hx : PQ.x ≠ 0) (hz : PQ.z ≠ 0) :
    IsX (Pt + Pt) (xDBLADD_normalized P Q PQ A24).1.x (xDBLADD_normalized P Q PQ A24).1.z ∧
    IsX (Pt + Qt) (xDBLADD_normalized P Q PQ A24).2.x (xDBLADD_normalized P Q PQ A24).2.z :=
  xDBLADDn_isX h2 hA hP hQ hD hx hz

/-! ## "whatever projective representatives": homogeneity of the formulas and of `IsX` -/

theorem representatives_irrelevant {a : F} (Pt : (mont a).Point) (X Z X' Z' c : F) (hc : c ≠ 0)
    (h : IsX Pt X Z) (h' : IsX Pt X' Z') : IsX Pt (c * X) (c * Z) ∧ X * Z' = X' * Z :=
  ⟨h.smul hc, h.cross h'⟩

theorem xDBL_homogeneous (c d X Z A C : F) :
    (xDBL ⟨c * X, c * Z⟩ ⟨d * A, d * C⟩).x = (c ^ 4 * d) * (xDBL ⟨X, Z⟩ ⟨A, C⟩).x ∧
    (xDBL ⟨c * X, c * Z⟩ ⟨d * A, d * C⟩).z = (c ^ 4 * d) * (xDBL ⟨X, Z⟩ ⟨A, C⟩).z :=
  xDBL_homog c d X Z A C

theorem xADD_homogeneous (c d e Xp Zp Xq Zq Xd Zd : F) :
    (xADD ⟨c * Xp, c * Zp⟩ ⟨d * Xq, d * Zq⟩ ⟨e * Xd, e * Zd⟩).x = (c ^ 2 * d ^ 2 * e) * (xADD ⟨Xp, Zp⟩ ⟨Xq, Zq⟩ ⟨Xd, Zd⟩).x ∧
    (xADD ⟨c * Xp, c * Zp⟩ ⟨d * Xq, d * Zq⟩ ⟨e * Xd, e * Zd⟩).z = (c ^ 2 * d ^ 2 * e) * (xADD ⟨Xp, Zp⟩ ⟨Xq, Zq⟩ ⟨Xd, Zd⟩).z :=
  xADD_homog c d e Xp Zp Xq Zq Xd Zd

theorem xDBLADD_homogeneous (c d e g Xp Zp Xq Zq Xd Zd U V : F) :
    let r' := xDBLADD ⟨c * Xp, c * Zp⟩ ⟨d * Xq, d * Zq⟩ ⟨e * Xd, e * Zd⟩ ⟨g * U, g * V⟩
    let r := xDBLADD ⟨Xp, Zp⟩ ⟨Xq, Zq⟩ ⟨Xd, Zd⟩ ⟨U, V⟩
    r'.1.x = (c ^ 4 * g) * r.1.x ∧ r'.1.z = (c ^ 4 * g) * r.1.z ∧
    r'.2.x = (c ^ 2 * d ^ 2 * e) * r.2.x ∧ r'.2.z = (c ^ 2 * d ^ 2 * e) * r.2.z :=
  xDBLADD_homog c d e g Xp Zp Xq Zq Xd Zd U V

/-! ## curve constants -/

theorem AC_to_A24_correct {a A C : F} (h2 : (2 : F) ≠ 0) (hA : A = a * C) (hC : C ≠ 0) (E : EcCurve F)
    (hEA : E.A = A) (hEC : E.C = C) : IsA24 a (AC_to_A24 E).x (AC_to_A24 E).z :=
  AC_to_A24_isA24 h2 hA hC E hEA hEC

theorem A24_to_AC_correct {a U V : F} (hA : IsA24 a U V) (E : EcCurve F) :
    (A24_to_AC E ⟨U, V⟩).A = a * (A24_to_AC E ⟨U, V⟩).C ∧ (A24_to_AC E ⟨U, V⟩).C ≠ 0 :=
  A24_to_AC_ok hA E

theorem ec_curve_normalize_A24_correct {a : F} (h2 : (2 : F) ≠ 0) (E : EcCurve F) (hA : E.A = a * E.C)
    (hC : E.C ≠ 0) (hflag : E.is_A24_computed_and_normalized = 0) :
    4 * (ec_curve_normalize_A24 E).A24.x = a + 2 ∧ (ec_curve_normalize_A24 E).A24.z = 1 ∧
    (ec_curve_normalize_A24 E).A = E.A ∧ (ec_curve_normalize_A24 E).C = E.C :=
  normalize_A24_ok h2 E hA hC hflag

/-! ## scalar multiplication: Montgomery ladder, **no bound on the scalar length** -/

/-- the loop of `xMUL` / `xMULv2` on any bit list (most significant first) returns `x([n]P)`, `n` the value of the
bits, for every base point with `x(P) ∉ {0, ∞}` (this includes the two points of order 2 other than `(0,0)`),
whatever representatives of `P` and of `(a+2 : 4)`. -/
theorem xMULbits_correct {a : F} (h2 : (2 : F) ≠ 0) (A24 P : EcPoint F) (hA : IsA24 a A24.x A24.z)
    (Pt : (mont a).Point) (hP : IsX Pt P.x P.z) (hx : P.x ≠ 0) (hz : P.z ≠ 0) (bits : List Bool) :
    IsX (valMSB bits • Pt) (xMULbits bits P A24).x (xMULbits bits P A24).z :=
  xMULbits_isX h2 hA hP hx hz bits

/-- `xMUL(Q, P, k, curve)` with `BITS = nbits` (any `nbits`): the result is `x([k mod 2^nbits]P)`; in particular
`x([k]P)` for `k < 2^BITS`, including `k = 0`, `1`, multiples of the order and `2^BITS - 1`. -/
theorem xMUL_correct {a : F} (h2 : (2 : F) ≠ 0) (nbits k : Nat) (curve : EcCurve F) (hA : curve.A = a * curve.C)
    (hC : curve.C ≠ 0) (Pt : (mont a).Point) (P : EcPoint F) (hP : IsX Pt P.x P.z) (hx : P.x ≠ 0) (hz : P.z ≠ 0) :
    IsX ((k % 2 ^ nbits) • Pt) (xMUL nbits k P curve).x (xMUL nbits k P curve).z := by
  have hA24 : IsA24 a (xMUL_A24 curve).x (xMUL_A24 curve).z := by
    simp only [xMUL_A24, IsA24, hA]
    refine ⟨?_, by ring⟩
    have : curve.C + curve.C + (curve.C + curve.C) = 4 * curve.C := by ring
    rw [this]
    exact mul_ne_zero (four_ne' h2) hC
  have := xMULbits_isX h2 hA24 hP hx hz (bitsMSB nbits k)
  rwa [valMSB_bitsMSB] at this

theorem xMUL_correct_lt {a : F} (h2 : (2 : F) ≠ 0) (nbits k : Nat) (hk : k < 2 ^ nbits) (curve : EcCurve F)
    (hA : curve.A = a * curve.C) (hC : curve.C ≠ 0) (Pt : (mont a).Point) (P : EcPoint F)
    (hP : IsX Pt P.x P.z) (hx : P.x ≠ 0) (hz : P.z ≠ 0) :
    IsX (k • Pt) (xMUL nbits k P curve).x (xMUL nbits k P curve).z := by
  have := xMUL_correct h2 nbits k curve hA hC Pt P hP hx hz
  rwa [Nat.mod_eq_of_lt hk] at this

theorem xMULv2_correct {a : F} (h2 : (2 : F) ≠ 0) (kbits k : Nat) (A24 P : EcPoint F) (hA : IsA24 a A24.x A24.z)
    (Pt : (mont a).Point) (hP : IsX Pt P.x P.z) (hx : P.x ≠ 0) (hz : P.z ≠ 0) :
    IsX ((k % 2 ^ kbits) • Pt) (xMULv2 kbits k P A24).x (xMULv2 kbits k P A24).z := by
  have := xMULbits_isX h2 hA hP hx hz (bitsMSB kbits k)
  rwa [valMSB_bitsMSB] at this

/-- base point `∞` (any `(X : 0)`): the ladder returns `Z = 0` for every scalar (the library's `ec_is_zero`), but for
scalars with a one bit the pair is `(0 : 0)`, not a projective point — recorded, see notes/C08.md. -/
theorem xMULbits_infinity (A24 : EcPoint F) (X : F) (bits : List Bool) :
    (xMULbits bits ⟨X, 0⟩ A24).z = 0 :=
  xMULbits_inf A24 X bits

/-! ## three-point ladder -/

/-- `ec_ladder3pt` on any bit list (least significant first): from `x(P), x(Q), x(P-Q)` it returns `x(P + [m]Q)`
provided no difference point used on the way lies in `{∞, (0,0)}` (`L3Good`, a condition on the group elements
`[2^i]Q - P - [m mod 2^i]Q` resp. `P + [m mod 2^i]Q`; without it the statement is false: `xADD_degenerate`). -/
theorem ec_ladder3pt_correct {a : F} (h2 : (2 : F) ≠ 0) (nbits m : Nat) (curve : EcCurve F)
    (hA : 4 * curve.A24.x = a + 2) (Pt Qt : (mont a).Point) (P Q PQ : EcPoint F)
    (hP : IsX Pt P.x P.z) (hQ : IsX Qt Q.x Q.z) (hD : IsX (Pt - Qt) PQ.x PQ.z)
    (hg : L3Good (bitsLSB nbits m) Qt Pt) :
    IsX (Pt + (m % 2 ^ nbits) • Qt) (ladder3pt nbits m P Q PQ curve).x (ladder3pt nbits m P Q PQ curve).z := by
  have := ladder3bits_isX h2 hA hP hQ hD (bitsLSB nbits m) hg
  rwa [valLSB_bitsLSB] at this

/-! ## two-dimensional scalar multiplication (xDBLMUL) -/

/-- **xDBLMUL, whole function, any `nbits > 0` and any scalars.** The model `SqiModel.Ladder.xDBLMUL` (recoding loop,
initialisation, main loop over the generated `select_point`, `swap_points`, `xDBL_A24_normalized`, `xADD`, output
selection) returns `x([k']P + [l']Q)` where `k' = chainScalar nbits k` is `k mod 2^nbits` when that is non-zero and
`2^nbits` when it is zero (the even scalar is decremented with wrap-around, as `mp_sub` does): see `chainScalar_pos`,
`chainScalar_zero`. Hypotheses: `(X:Z)` representatives of `x(P), x(Q), x(P-Q)`, and `P, Q, P+Q, P-Q ∉ {∞, (0,0)}`
(the four difference points used by the chain). Proof: recoding lemma `recode_spec` (the digits are the sign-change
indicators of the signed-binary expansions of the odd-ified scalars, ordered by `sigma`), per-step invariant
`chain_step`/`cs_step` (`R0, R1, R2` = even / mixed / odd neighbours of the scalar prefixes), induction `chain_fold`. -/
theorem xDBLMUL_correct_general {a : F} (h2 : (2 : F) ≠ 0) (nbits : Nat) (hn : 0 < nbits) (k l : Nat)
    (curve : EcCurve F) (hA : curve.A = a * curve.C) (hC : curve.C ≠ 0)
    (hflag : curve.is_A24_computed_and_normalized ≠ 0 → 4 * curve.A24.x = a + 2)
    (Pt Qt : (mont a).Point) (P Q PQ : EcPoint F)
    (hP : IsX Pt P.x P.z) (hQ : IsX Qt Q.x Q.z) (hD : IsX (Pt - Qt) PQ.x PQ.z)
    (nP : XNonDeg Pt) (nQ : XNonDeg Qt) (nS : XNonDeg (Pt + Qt)) (nD : XNonDeg (Pt - Qt)) :
    IsX (chainScalar nbits k • Pt + chainScalar nbits l • Qt)
      (xDBLMUL nbits k l P Q PQ curve).x (xDBLMUL nbits k l P Q PQ curve).z :=
  xDBLMUL_ok h2 nbits hn k l curve (dblmulA24_ok h2 curve hA hC hflag) Pt Qt P Q PQ hP hQ hD nP nQ nS nD

/-- `xDBLMUL` returns `x([k]P + [l]Q)` for all scalars `0 < k, l < 2^BITS` (odd or even, full width included). -/
theorem xDBLMUL_correct {a : F} (h2 : (2 : F) ≠ 0) (nbits : Nat) (hn : 0 < nbits) (k l : Nat)
    (hk0 : 0 < k) (hk : k < 2 ^ nbits) (hl0 : 0 < l) (hl : l < 2 ^ nbits)
    (curve : EcCurve F) (hA : curve.A = a * curve.C) (hC : curve.C ≠ 0)
    (hflag : curve.is_A24_computed_and_normalized ≠ 0 → 4 * curve.A24.x = a + 2)
    (Pt Qt : (mont a).Point) (P Q PQ : EcPoint F)
    (hP : IsX Pt P.x P.z) (hQ : IsX Qt Q.x Q.z) (hD : IsX (Pt - Qt) PQ.x PQ.z)
    (nP : XNonDeg Pt) (nQ : XNonDeg Qt) (nS : XNonDeg (Pt + Qt)) (nD : XNonDeg (Pt - Qt)) :
    IsX (k • Pt + l • Qt) (xDBLMUL nbits k l P Q PQ curve).x (xDBLMUL nbits k l P Q PQ curve).z := by
  have := xDBLMUL_correct_general h2 nbits hn k l curve hA hC hflag Pt Qt P Q PQ hP hQ hD nP nQ nS nD
  rwa [chainScalar_pos nbits k hn hk0 hk, chainScalar_pos nbits l hn hl0 hl] at this

/-- the exact boundary of `xDBLMUL_correct` (known finding "scalar 0 is treated as 2^BITS"): for `k = 0` the result is
`x([2^nbits]P + [l]Q)`; it is `x([l]Q)` exactly when `[2^nbits]P = ∞` (2-power torsion, as in the callers). -/
theorem xDBLMUL_zero_scalar {a : F} (h2 : (2 : F) ≠ 0) (nbits : Nat) (hn : 0 < nbits) (l : Nat)
    (hl0 : 0 < l) (hl : l < 2 ^ nbits)
    (curve : EcCurve F) (hA : curve.A = a * curve.C) (hC : curve.C ≠ 0)
    (hflag : curve.is_A24_computed_and_normalized ≠ 0 → 4 * curve.A24.x = a + 2)
    (Pt Qt : (mont a).Point) (P Q PQ : EcPoint F)
    (hP : IsX Pt P.x P.z) (hQ : IsX Qt Q.x Q.z) (hD : IsX (Pt - Qt) PQ.x PQ.z)
    (nP : XNonDeg Pt) (nQ : XNonDeg Qt) (nS : XNonDeg (Pt + Qt)) (nD : XNonDeg (Pt - Qt)) :
    IsX (2 ^ nbits • Pt + l • Qt) (xDBLMUL nbits 0 l P Q PQ curve).x (xDBLMUL nbits 0 l P Q PQ curve).z := by
  have := xDBLMUL_correct_general h2 nbits hn 0 l curve hA hC hflag Pt Qt P Q PQ hP hQ hD nP nQ nS nD
  rwa [chainScalar_zero, chainScalar_pos nbits l hn hl0 hl] at this

/-- **xDBLMUL_bounded, whole function**: the main loop is applied only for digit indices `≤ b`
(`b = f + 2 + (BITS - TORSION_PLUS_EVEN_POWER)` in the C code). If the odd-ified scalars are `< 2^(b+1)` the skipped
iterations leave the state untouched and the result is the same as for `xDBLMUL`. (For `k = 0` the odd-ified scalar is
`2^nbits - 1`, which violates the hypothesis: this is why `ec_biscalar_mul_bounded` replaces a zero scalar.) -/
theorem xDBLMUL_bounded_correct {a : F} (h2 : (2 : F) ≠ 0) (nbits : Nat) (hn : 0 < nbits) (b k l : Nat)
    (curve : EcCurve F) (hA : curve.A = a * curve.C) (hC : curve.C ≠ 0)
    (hflag : curve.is_A24_computed_and_normalized ≠ 0 → 4 * curve.A24.x = a + 2)
    (hkb : oddify nbits k < 2 ^ (b + 1)) (hlb : oddify nbits l < 2 ^ (b + 1))
    (Pt Qt : (mont a).Point) (P Q PQ : EcPoint F)
    (hP : IsX Pt P.x P.z) (hQ : IsX Qt Q.x Q.z) (hD : IsX (Pt - Qt) PQ.x PQ.z)
    (nP : XNonDeg Pt) (nQ : XNonDeg Qt) (nS : XNonDeg (Pt + Qt)) (nD : XNonDeg (Pt - Qt)) :
    IsX (chainScalar nbits k • Pt + chainScalar nbits l • Qt)
      (xDBLMULgen nbits (some b) k l P Q PQ curve).x (xDBLMULgen nbits (some b) k l P Q PQ curve).z :=
  xDBLMUL_bounded_ok h2 nbits hn b k l curve (dblmulA24_ok h2 curve hA hC hflag) hkb hlb Pt Qt P Q PQ hP hQ hD nP nQ nS nD

/-- **ec_biscalar_mul_bounded** as repaired (fix 76cbdb3: a zero scalar is replaced by `2^f`): for points of order
dividing `2^f` (`f < BITS`) and **all** scalars `0 ≤ k, l < 2^f` the result is `x([k]P + [l]Q)`. -/
theorem ec_biscalar_mul_bounded_correct {a : F} (h2 : (2 : F) ≠ 0) (nbits tpe f : Nat) (hf : f < nbits) (k l : Nat)
    (hk : k < 2 ^ f) (hl : l < 2 ^ f) (curve : EcCurve F) (hA : curve.A = a * curve.C) (hC : curve.C ≠ 0)
    (hflag : curve.is_A24_computed_and_normalized ≠ 0 → 4 * curve.A24.x = a + 2)
    (Pt Qt : (mont a).Point) (hoP : 2 ^ f • Pt = 0) (hoQ : 2 ^ f • Qt = 0) (P Q PQ : EcPoint F)
    (hP : IsX Pt P.x P.z) (hQ : IsX Qt Q.x Q.z) (hD : IsX (Pt - Qt) PQ.x PQ.z)
    (nP : XNonDeg Pt) (nQ : XNonDeg Qt) (nS : XNonDeg (Pt + Qt)) (nD : XNonDeg (Pt - Qt)) :
    IsX (k • Pt + l • Qt) (biscalarMulBounded nbits tpe f k l P Q PQ curve).x
      (biscalarMulBounded nbits tpe f k l P Q PQ curve).z :=
  biscalarMulBounded_ok h2 nbits tpe f hf k l hk hl curve (dblmulA24_ok h2 curve hA hC hflag) Pt Qt hoP hoQ P Q PQ
    hP hQ hD nP nQ nS nD

/-- the effective scalar on small instances: `0 ↦ 2^8`, everything else unchanged; odd-ification of even scalars -/
example : chainScalar 8 0 = 256 ∧ chainScalar 8 6 = 6 ∧ chainScalar 8 255 = 255 ∧ oddify 8 6 = 5 ∧ oddify 8 0 = 255 := by
  decide

/-- the recoding of `(k, l) = (13, 6)` with 5 bits: digits (least significant first), final `sigma[0]`, parity flags -/
example : (recode 5 13 6).r = [(true, true), (true, true), (false, true), (false, true), (false, false)] ∧
    (recode 5 13 6).sigma0 = false ∧ (recode 5 13 6).mevens = true ∧ (recode 5 13 6).bothOdd = false := by
  decide

/-- one applied iteration of the main loop on the group (building block of the theorem above) -/
theorem xDBLMUL_step {a : F} (h2 : (2 : F) ≠ 0) {A24 : EcPoint F} (hA : 4 * A24.x = a + 2)
    (Pt Qt : (mont a).Point) (cs : CS) (st : DState F) (rr : Bool × Bool) (hG : G Pt Qt cs st) (hv : cvalid cs rr) :
    G Pt Qt (cstep cs rr) (dblmulStep A24 st rr true) :=
  chain_step h2 hA Pt Qt cs st rr hG hv

/-! ## repeated doubling -/

/-- `ec_dbl_iter(res, n, curve, P)`: for `n > 0` the new `res` is `x([2^n]P)` on both code paths (`n ≤ 50`: `xDBL`
with `(A : C)`; `n > 50`: `xDBL_A24` with the normalised `A24`, recomputed when the flag is clear and trusted
otherwise); for `n ≤ 0` `res` is left as it was (it is *not* set to `P`). -/
theorem ec_dbl_iter_correct {a : F} (h2 : (2 : F) ≠ 0) (res : EcPoint F) (n : Int) (curve : EcCurve F)
    (hA : curve.A = a * curve.C) (hC : curve.C ≠ 0)
    (hflag : curve.is_A24_computed_and_normalized ≠ 0 → IsA24 a curve.A24.x curve.A24.z)
    (Pt : (mont a).Point) (P : EcPoint F) (hP : IsX Pt P.x P.z) :
    (0 < n → IsX (2 ^ n.toNat • Pt) (dblIter res n curve P).1.x (dblIter res n curve P).1.z) ∧
    (n ≤ 0 → (dblIter res n curve P).1 = res) :=
  dblIter_ok h2 res n curve hA hC hflag Pt P hP

/-! ## Jacobian coordinates, j-invariant, isomorphisms: see below (CurveJac) -/

/-- `jac_to_xz` maps Jacobian `(X : Y : Z)` (affine `(X/Z², Y/Z³)`) to an x-only representative of the same point. -/
theorem jac_to_xz_correct {a : F} (Pt : (mont a).Point) (J : JacPoint F) (hJ : IsJac Pt J) :
    IsX Pt (jac_to_xz J).x (jac_to_xz J).z ∨ (Pt = 0 ∧ (jac_to_xz J).z = 0) :=
  jac_to_xz_ok Pt J hJ

theorem jac_neg_correct {a : F} (Pt : (mont a).Point) (J : JacPoint F) (hJ : IsJac Pt J) : IsJac (-Pt) (jac_neg J) :=
  jac_neg_ok Pt J hJ

/-- `DBL` (Jacobian doubling, with `C = 1`, i.e. `AC.A = a`) returns `2P` for every point: affine with `y ≠ 0`,
order 2 (result has `Z = 0`), and `∞` in any form (`Z = 0`). -/
theorem DBL_correct {a : F} (h2 : (2 : F) ≠ 0) (AC : EcCurve F) (hA : AC.A = a)
    (Pt : (mont a).Point) (J : JacPoint F) (hJ : IsJac Pt J) : IsJac (Pt + Pt) (DBL J AC) :=
  DBL_ok h2 AC hA Pt J hJ

/-- `DBL` preserves the *canonical* representation (`IsJacC`: `∞ = (0 : Y≠0 : 0)`, the only form `DBL`/`ADD` test
for) except when it doubles a point of order 2 (then it returns `(α² : -α³ : 0)`: known finding
"Jacobian:ADD-after-DBL-of-2-torsion"). -/
theorem DBL_canonical {a : F} (h2 : (2 : F) ≠ 0) (AC : EcCurve F) (hA : AC.A = a)
    (Pt : (mont a).Point) (J : JacPoint F) (hJ : IsJacC Pt J) (hns : Pt = 0 ∨ Pt + Pt ≠ 0) :
    IsJacC (Pt + Pt) (DBL J AC) :=
  DBL_okC h2 AC hA Pt J hJ hns

/-- **`ADD` on all inputs**, every branch (`P = Q` → `DBL`, `P = -Q` → `jac_init`, `P = ∞`, `Q = ∞`, generic): for
inputs in canonical form the result represents `P + Q`, and it is again in canonical form — in particular
`P + (-P)` is `(0 : 1 : 0)`, so later additions/doublings recognise it — except when the `P = Q` branch doubles a
point of order 2. (With the `P = -Q` branch removed the second part is false: the generic formula returns
`(λ² : -λ³ : 0)`.) -/
theorem ADD_correct {a : F} (h2 : (2 : F) ≠ 0) (AC : EcCurve F) (hA : AC.A = a)
    (Pt Qt : (mont a).Point) (J1 J2 : JacPoint F) (h1 : IsJacC Pt J1) (h2' : IsJacC Qt J2) :
    IsJac (Pt + Qt) (ADD J1 J2 AC) ∧
    ((¬ (Pt = Qt ∧ Pt ≠ 0 ∧ Pt + Pt = 0)) → IsJacC (Pt + Qt) (ADD J1 J2 AC)) :=
  ADD_ok h2 AC hA Pt Qt J1 J2 h1 h2'

/-- the generic branch also for non-canonical representatives of affine points -/
theorem ADD_correct_generic {a : F} (AC : EcCurve F) (hA : AC.A = a)
    {x1 y1 x2 y2 : F} (h1 : (mont a).Nonsingular x1 y1) (h2 : (mont a).Nonsingular x2 y2) (hx : x1 ≠ x2)
    (J1 J2 : JacPoint F) (hJ1 : IsJac (Affine.Point.some x1 y1 h1) J1) (hJ2 : IsJac (Affine.Point.some x2 y2 h2) J2) :
    IsJac (Affine.Point.some x1 y1 h1 + Affine.Point.some x2 y2 h2) (ADD J1 J2 AC) :=
  ADD_generic_ok AC hA h1 h2 hx J1 J2 hJ1 hJ2

/-- non-vacuity: `jac_init` is a canonical `∞`, and `(2·9, 4·27, 3)` a canonical representative of `P₀ = (2,4)` -/
example : IsJacC (0 : (mont (3 / 2 : ℚ)).Point) (jac_init : JacPoint ℚ) := jac_init_isJacC

/-! ### whole Jacobian programs (register programs of ADD / DBL / jac_neg; DBLMUL, DBLMUL2, DBLMUL_generic) -/

/-- **Every program.** Registers in canonical form, a program that never doubles a point of order 2 (`progGood`: for
`ADD` of equal points and for `DBL`, the argument is `∞` or has `2A ≠ ∞` — the known finding
"Jacobian:ADD-after-DBL-of-2-torsion" is exactly the complement): the C-shaped run `jacRun` (over the generated `ADD`,
`DBL`, `jac_neg`) and the group-law run either both reject the program or produce corresponding register files, all
registers again canonical. One induction over the program, no bound on its length. -/
theorem jacRun_whole_program {a : F} (h2 : (2 : F) ≠ 0) (curve : EcCurve F) (hA : curve.A = a)
    (prog : List (Nat × Nat × Nat)) (l : List ((mont a).Point × JacPoint F)) (hl : RegsOk l)
    (hg : progGood (l.map Prod.fst) prog) :
    (jacRun curve (l.map Prod.snd) prog = none ∧ ptRun (l.map Prod.fst) prog = none) ∨
    ∃ l', RegsOk l' ∧ jacRun curve (l.map Prod.snd) prog = some (l'.map Prod.snd) ∧
      ptRun (l.map Prod.fst) prog = some (l'.map Prod.fst) :=
  jacRun_correct h2 curve hA prog l hl hg

theorem jacSeq_value {a : F} (h2 : (2 : F) ≠ 0) (curve : EcCurve F) (hA : curve.A = a)
    (prog : List (Nat × Nat × Nat)) (l : List ((mont a).Point × JacPoint F)) (hl : RegsOk l)
    (hg : progGood (l.map Prod.fst) prog) (J : JacPoint F) (hJ : jacSeq curve (l.map Prod.snd) prog = some J) :
    ∃ ps A, ptRun (l.map Prod.fst) prog = some ps ∧ ps.getLast? = some A ∧ IsJacC A J :=
  jacSeq_correct h2 curve hA prog l hl hg J hJ

/-- `DBLMUL` (`nbits = 64`), `DBLMUL2` (128), `DBLMUL_generic` (`64·size`): the result is `[k]P + [l]Q` as a point in
canonical form, for any `nbits`, provided no intermediate doubling hits a point of order 2 (`dblmulGood`, a condition
on the group elements `[k_prefix]P + [l_prefix]Q`). Partial sums may pass through `∞` (e.g. `Q = -P`). -/
theorem jacDBLMUL_correct {a : F} (h2 : (2 : F) ≠ 0) (curve : EcCurve F) (hA : curve.A = a) (nbits k l : Nat)
    (P Q : (mont a).Point) (JP JQ : JacPoint F) (hP : IsJacC P JP) (hQ : IsJacC Q JQ) (hadd : AddGood P Q)
    (hg : dblmulGood P Q 0 ((bitsMSB nbits k).zip (bitsMSB nbits l))) :
    IsJacC ((k % 2 ^ nbits) • P + (l % 2 ^ nbits) • Q) (jacDBLMUL nbits k l JP JQ curve) :=
  jacDBLMUL_ok h2 curve hA nbits k l P Q JP JQ hP hQ hadd hg

/-- non-vacuity: the program `[NEG 0; ADD 0 1]` (`P + (-P)`) on `P = ∞` is good -/
example : progGood ([0] : List (mont (3 / 2 : ℚ)).Point) [(3, 0, 0), (1, 0, 1)] := by
  simp [progGood, opGood, ptStep, AddGood]

/-- `ec_j_inv` returns Mathlib's `WeierstrassCurve.j` of the Montgomery curve, for every `(A : C)` with
`A² ≠ 4C²`. -/
theorem ec_j_inv_correct {a : F} (h2 : (2 : F) ≠ 0) (curve : EcCurve F) (hA : curve.A = a * curve.C)
    (hC : curve.C ≠ 0) (hns : a ^ 2 - 4 ≠ 0) :
    ec_j_inv curve * (a ^ 2 - 4) = 256 * (a ^ 2 - 3) ^ 3 ∧
    ∀ [(mont a).IsElliptic], ec_j_inv curve = (mont a).j :=
  ec_j_inv_ok h2 curve hA hC hns

/-- `ec_iso_eval` is the affine map `x ↦ s (x - r)`, `s = Nx/D`, `r = Nz/Nx`, on projective representatives. -/
theorem ec_iso_eval_correct (x Z : F) (isom : EcIsom F) (hD : isom.D ≠ 0) (hN : isom.Nx ≠ 0) (hZ : Z ≠ 0) :
    (ec_iso_eval ⟨x * Z, Z⟩ isom).z ≠ 0 ∧
    (ec_iso_eval ⟨x * Z, Z⟩ isom).x = (isom.Nx / isom.D * (x - isom.Nz / isom.Nx)) * (ec_iso_eval ⟨x * Z, Z⟩ isom).z :=
  ec_iso_eval_affine x Z isom hD hN hZ

/-- such a map sends `mont a` onto `mont a'` (`y ↦ s^{3/2} y`) when `r` is `0` or the abscissa of a point of order 2,
`s² (3r² + 2ar + 1) = 1` and `a' = s (a + 3r)`: the right-hand sides of the two curve equations correspond.
(That `ec_isomorphism` produces such `(s, r)` involves `fp2_sqrt` and a sign test; it is translated, run against C and
checked against the oracle — equal j-invariants, points map to points — but not proved: partial.) -/
theorem iso_maps_curve {a a' s r x : F} (h1 : s ^ 2 * (3 * r ^ 2 + 2 * a * r + 1) = 1) (h2 : a' = s * (a + 3 * r))
    (h3 : r ^ 3 + a * r ^ 2 + r = 0) :
    (s * (x - r)) ^ 3 + a' * (s * (x - r)) ^ 2 + s * (x - r) = s ^ 3 * (x ^ 3 + a * x ^ 2 + x) :=
  iso_on_curve h1 h2 h3

/-- **j is an isomorphism invariant** (used by C20): two Montgomery coefficients related by a map `x ↦ s (x - r)`
satisfying the conditions of `iso_maps_curve` have the same `256 (a²-3)³/(a²-4)` — so `ec_j_inv` (by `ec_j_inv_correct`)
returns the same value on both curves, whatever `(A : C)` representatives. -/
theorem j_invariant_under_isomorphism {a a' s r : F} (h1 : s ^ 2 * (3 * r ^ 2 + 2 * a * r + 1) = 1)
    (h2 : a' = s * (a + 3 * r)) (h3 : r ^ 3 + a * r ^ 2 + r = 0) (hns : a ^ 2 - 4 ≠ 0) (hns' : a' ^ 2 - 4 ≠ 0) :
    256 * (a' ^ 2 - 3) ^ 3 / (a' ^ 2 - 4) = 256 * (a ^ 2 - 3) ^ 3 / (a ^ 2 - 4) :=
  iso_j_eq h1 h2 h3 hns hns'

theorem ec_j_inv_isomorphism_invariant {a a' s r : F} (h2c : (2 : F) ≠ 0)
    (h1 : s ^ 2 * (3 * r ^ 2 + 2 * a * r + 1) = 1) (h2 : a' = s * (a + 3 * r)) (h3 : r ^ 3 + a * r ^ 2 + r = 0)
    (hns : a ^ 2 - 4 ≠ 0) (hns' : a' ^ 2 - 4 ≠ 0) (E E' : EcCurve F) (hA : E.A = a * E.C) (hC : E.C ≠ 0)
    (hA' : E'.A = a' * E'.C) (hC' : E'.C ≠ 0) : ec_j_inv E' = ec_j_inv E := by
  have e := (ec_j_inv_ok h2c E hA hC hns).1
  have e' := (ec_j_inv_ok h2c E' hA' hC' hns').1
  have c := iso_j_cross h1 h2 h3
  have : ec_j_inv E' * (a' ^ 2 - 4) * (a ^ 2 - 4) = ec_j_inv E * (a' ^ 2 - 4) * (a ^ 2 - 4) := by
    linear_combination (a ^ 2 - 4) * e' - (a' ^ 2 - 4) * e + 256 * c
  exact mul_right_cancel₀ hns' (mul_right_cancel₀ hns this)

/-- **ec_isomorphism**: for `(A : C)`, `(A' : C')` with `a² ≠ 3`, equal j-invariants (cross-multiplied) and `sqrt`
correct on the one ratio the code takes a root of, the returned `(Nx, Nz, D)` satisfies `D ≠ 0` and, with `s = Nx/D`:
`3 - a'² = s²(3 - a²)`, `2a'³ - 9a' = s³(2a³ - 9a)` (the code's sign test), `Nz/D = (a' - s a)/3`. -/
theorem ec_isomorphism_correct (h3 : (3 : F) ≠ 0) (sqrt : F → F) (E E' : EcCurve F) (a a' : F)
    (hC : E.C ≠ 0) (hC' : E'.C ≠ 0) (hA : E.A = a * E.C) (hA' : E'.A = a' * E'.C) (hp : 3 - a ^ 2 ≠ 0)
    (hj : (a' ^ 2 - 3) ^ 3 * (a ^ 2 - 4) = (a ^ 2 - 3) ^ 3 * (a' ^ 2 - 4))
    (hsq : ∀ t : F, t = (3 - a' ^ 2) / (3 - a ^ 2) → sqrt t ^ 2 = t) :
    let iso := ec_isomorphism sqrt E E'
    iso.D ≠ 0 ∧ 3 - a' ^ 2 = (iso.Nx / iso.D) ^ 2 * (3 - a ^ 2) ∧
    2 * a' ^ 3 - 9 * a' = (iso.Nx / iso.D) ^ 3 * (2 * a ^ 3 - 9 * a) ∧
    iso.Nz / iso.D = (a' - iso.Nx / iso.D * a) / 3 :=
  ec_isomorphism_ok h3 sqrt E E' a a' hC hC' hA hA' hp hj hsq

/-- …and such constants define a map `x ↦ s x - (a' - s a)/3` (what `ec_iso_eval` applies, `ec_iso_eval_correct`) that
sends `mont a` onto `mont a'`, and they force equal j-invariants (so the hypothesis `hj` above is also necessary). -/
theorem ec_isomorphism_maps_curve {a a' s x : F} (h3 : (3 : F) ≠ 0) (H1 : 3 - a' ^ 2 = s ^ 2 * (3 - a ^ 2))
    (H2 : 2 * a' ^ 3 - 9 * a' = s ^ 3 * (2 * a ^ 3 - 9 * a)) :
    (s * x - (a' - s * a) / 3) ^ 3 + a' * (s * x - (a' - s * a) / 3) ^ 2 + (s * x - (a' - s * a) / 3)
      = s ^ 3 * (x ^ 3 + a * x ^ 2 + x) ∧
    (a' ^ 2 - 3) ^ 3 * (a ^ 2 - 4) = (a ^ 2 - 3) ^ 3 * (a' ^ 2 - 4) :=
  ⟨iso_maps_curve_sw h3 H1 H2, iso_j_cross_sw h3 H1 H2⟩

/-! ## lifting x-only points to (x, y): recover_y, lift_point, lift_basis (Okeya–Sakurai), difference_point -/

/-- `recover_y` returns a y-coordinate for `x` whenever `sqrt` returns a square root of its argument (which is a square
exactly when `x` is the abscissa of a rational point) -/
theorem recover_y_correct (sqrt : F → F) (x : F) (E : EcCurve F)
    (hs : sqrt (x * x * E.A + x + x * x * x) ^ 2 = x * x * E.A + x + x * x * x) :
    recover_y sqrt x E ^ 2 = x ^ 3 + E.A * x ^ 2 + x :=
  recover_y_ok sqrt x E hs

theorem lift_point_correct (sqrt : F → F) (Q : EcPoint F) (E : EcCurve F) (a x : F) (hC : E.C ≠ 0) (hA : E.A = a * E.C) :
    (Q.z = 0 → (lift_point sqrt Q E).1 = ⟨1, 1, 0⟩ ∧ (lift_point sqrt Q E).2.1 = Q ∧ (lift_point sqrt Q E).2.2 = E) ∧
    (Q.z ≠ 0 → Q.x = x * Q.z →
      (lift_point sqrt Q E).1.x = x ∧ (lift_point sqrt Q E).1.z = 1 ∧
      (lift_point sqrt Q E).1.y = recover_y sqrt x ⟨a, 1, E.A24, E.is_A24_computed_and_normalized⟩ ∧
      (lift_point sqrt Q E).2.1 = ⟨x, 1⟩ ∧ (lift_point sqrt Q E).2.2.A = a ∧ (lift_point sqrt Q E).2.2.C = 1) :=
  lift_point_ok sqrt Q E a x hC hA

/-- **lift_basis (Okeya–Sakurai).** Given `x(P), x(Q), x(P-Q)`: `P` is lifted with `recover_y`; if that `y(P)` is a
non-zero square root of the right-hand side, then the returned Jacobian `Q` represents exactly the lift `(x_Q, y_Q)` for
which `P - Q` has the given third abscissa — the recovered y-coordinates are consistent with the basis. -/
theorem lift_basis_correct {a : F} (h2 : (2 : F) ≠ 0) (sqrt : F → F) (B : EcBasis F) (E : EcCurve F) (x1 x2 y2 : F)
    (hPz : B.P.z ≠ 0) (hC : E.C ≠ 0) (hA : E.A = a * E.C) (hP : B.P.x = x1 * B.P.z)
    (hp : (mont a).Nonsingular x1 (lift_basis sqrt B E).1.y) (hq : (mont a).Nonsingular x2 y2)
    (hx : x1 ≠ x2) (hy : (lift_basis sqrt B E).1.y ≠ 0)
    (hQ : IsX (Affine.Point.some x2 y2 hq) B.Q.x B.Q.z)
    (hD : IsX (Affine.Point.some x1 _ hp - Affine.Point.some x2 y2 hq) B.PmQ.x B.PmQ.z) :
    IsJac (Affine.Point.some x1 _ hp) (lift_basis sqrt B E).1 ∧
    IsJac (Affine.Point.some x2 y2 hq) (lift_basis sqrt B E).2.1 :=
  lift_basis_isJac h2 sqrt B E x1 x2 y2 hPz hC hA hP hp hq hx hy hQ hD

/-- `difference_point` (basis.c): proved by engineer a9 over the generated definition (`SqiProps.C10`,
`difference_point_is_xPmQ_or_xPpQ`, `difference_point_generated`); re-exported here: the returned `(X : Z)` is the abscissa
of `P - Q` or of `P + Q` for any square root `s` of the radicand. -/
theorem difference_point_correct (A xP yP xQ yQ s : F) (hne : xP ≠ xQ)
    (hP : yP ^ 2 = xP ^ 3 + A * xP ^ 2 + xP) (hQ : yQ ^ 2 = xQ ^ 3 + A * xQ ^ 2 + xQ)
    (hs : s ^ 2 = SqiProofs.BasisAlg.diffRad A xP xQ) :
    (s + SqiProofs.BasisAlg.diffT1 A xP xQ) / SqiProofs.BasisAlg.diffZ xP xQ
        = ((yQ - yP) / (xQ - xP)) ^ 2 - A - xP - xQ ∨
    (s + SqiProofs.BasisAlg.diffT1 A xP xQ) / SqiProofs.BasisAlg.diffZ xP xQ
        = ((-yQ - yP) / (xQ - xP)) ^ 2 - A - xP - xQ :=
  SqiProofs.BasisAlg.difference_point_affine A xP yP xQ yQ s hne hP hQ hs

/-! ## the exact boundary: the four known findings are the complement of the theorems above -/

/-- (finding 1) base point `(0 : Z)` = the 2-torsion point `(0,0)`, excluded from `xMUL_correct` by `P.x ≠ 0`: the ladder
returns `Z = 0` for every scalar, which is right for even and wrong for odd scalars (`T00_odd`). -/
theorem xMUL_T00 (A24 : EcPoint F) (Z : F) (bits : List Bool) : (xMULbits bits ⟨0, Z⟩ A24).z = 0 :=
  xMULbits_T00 A24 Z bits

theorem T00_odd (a : F) (n : Nat) (hn : n % 2 = 1) (X : F) :
    ¬ IsX (n • Affine.Point.some 0 0 (nonsingular_T00 a)) X 0 :=
  T00_odd_multiple a n hn X

/-- (finding 4) `DBL` on a point of order 2: `Z = 0` but `X ≠ 0` — the one exception in `DBL_canonical` / `ADD_correct`. -/
theorem DBL_order2 {a : F} (AC : EcCurve F) (hA : AC.A = a) (x : F) (h : (mont a).Nonsingular x 0)
    (J : JacPoint F) (hJ : IsJac (Affine.Point.some x 0 h) J) : (DBL J AC).z = 0 ∧ (DBL J AC).x ≠ 0 :=
  DBL_order2_noncanonical AC hA x h J hJ

/-! ## the loops themselves are generated from ec.c (tie T): the theorems transfer to `SqiGen.Ladder`

`SqiGen.xMUL`, `SqiGen.xMULv2`, `SqiGen.ec_ladder3pt`, `SqiGen.xDBLMUL` are emitted by `tools/translate/ladders.py` from the
C text on every run (loops as folds of generated bodies, digit arrays as `Nat`) and proved equal to the hand models
(`SqiProofs/LadderGen.lean`), so an edit of a loop bound, swap condition or recoding step breaks a proof obligation. -/

theorem xMUL_generated_correct {a : F} (h2 : (2 : F) ≠ 0) (BITS k : Nat) (curve : EcCurve F) (hA : curve.A = a * curve.C)
    (hC : curve.C ≠ 0) (Pt : (mont a).Point) (P : EcPoint F) (hP : IsX Pt P.x P.z) (hx : P.x ≠ 0) (hz : P.z ≠ 0) :
    IsX ((k % 2 ^ BITS) • Pt) (SqiGen.xMUL BITS P k curve).x (SqiGen.xMUL BITS P k curve).z := by
  rw [SqiProofs.LadderGen.xMUL_eq]
  exact xMUL_correct h2 BITS k curve hA hC Pt P hP hx hz

theorem xMULv2_generated_correct {a : F} (h2 : (2 : F) ≠ 0) (kbits k : Nat) (A24 P : EcPoint F)
    (hA : IsA24 a A24.x A24.z) (Pt : (mont a).Point) (hP : IsX Pt P.x P.z) (hx : P.x ≠ 0) (hz : P.z ≠ 0) :
    IsX ((k % 2 ^ kbits) • Pt) (SqiGen.xMULv2 P k kbits A24).x (SqiGen.xMULv2 P k kbits A24).z := by
  rw [SqiProofs.LadderGen.xMULv2_eq]
  exact xMULv2_correct h2 kbits k A24 P hA Pt hP hx hz

theorem ec_ladder3pt_generated_correct {a : F} (h2 : (2 : F) ≠ 0) (NWORDS_FIELD m : Nat) (curve : EcCurve F)
    (hA : 4 * curve.A24.x = a + 2) (Pt Qt : (mont a).Point) (P Q PQ : EcPoint F)
    (hP : IsX Pt P.x P.z) (hQ : IsX Qt Q.x Q.z) (hD : IsX (Pt - Qt) PQ.x PQ.z)
    (hg : L3Good (bitsLSB (64 * NWORDS_FIELD) m) Qt Pt) :
    IsX (Pt + (m % 2 ^ (64 * NWORDS_FIELD)) • Qt) (SqiGen.ec_ladder3pt NWORDS_FIELD m P Q PQ curve).x
      (SqiGen.ec_ladder3pt NWORDS_FIELD m P Q PQ curve).z := by
  rw [SqiProofs.LadderGen.ec_ladder3pt_eq]
  exact ec_ladder3pt_correct h2 (64 * NWORDS_FIELD) m curve hA Pt Qt P Q PQ hP hQ hD hg

/-- `xDBLMUL` as generated (`NWORDS_ORDER` words of 64 bits, `BITS = 64·NWORDS_ORDER`, scalars given as `NWORDS_ORDER`-word
numbers): `x([k]P + [l]Q)` for `0 < k, l < 2^BITS`; the recoding loop (bound `i < BITS`, the `i == BITS-1` case, the
swaps, `mp_sub`, `mp_shiftr`) is part of the generated text. -/
theorem xDBLMUL_generated_correct {a : F} (h2 : (2 : F) ≠ 0) (NW BITS : Nat) (hW : 64 * NW = BITS) (hn : 0 < BITS)
    (k l : Nat) (hk0 : 0 < k) (hk : k < 2 ^ BITS) (hl0 : 0 < l) (hl : l < 2 ^ BITS)
    (curve : EcCurve F) (hA : curve.A = a * curve.C) (hC : curve.C ≠ 0)
    (hflag : curve.is_A24_computed_and_normalized ≠ 0 → 4 * curve.A24.x = a + 2)
    (Pt Qt : (mont a).Point) (P Q PQ : EcPoint F)
    (hP : IsX Pt P.x P.z) (hQ : IsX Qt Q.x Q.z) (hD : IsX (Pt - Qt) PQ.x PQ.z)
    (nP : XNonDeg Pt) (nQ : XNonDeg Qt) (nS : XNonDeg (Pt + Qt)) (nD : XNonDeg (Pt - Qt)) :
    IsX (k • Pt + l • Qt) (SqiGen.xDBLMUL NW BITS P k Q l PQ curve).x (SqiGen.xDBLMUL NW BITS P k Q l PQ curve).z := by
  rw [SqiProofs.LadderGen.xDBLMUL_eq NW BITS hW hn k l hk hl]
  exact xDBLMUL_correct h2 BITS hn k l hk0 hk hl0 hl curve hA hC hflag Pt Qt P Q PQ hP hQ hD nP nQ nS nD

theorem xDBLMUL_bounded_generated_correct {a : F} (h2 : (2 : F) ≠ 0) (NW BITS TPE : Nat) (hW : 64 * NW = BITS)
    (hn : 0 < BITS) (k l f : Nat) (hk : k < 2 ^ BITS) (hl : l < 2 ^ BITS)
    (curve : EcCurve F) (hA : curve.A = a * curve.C) (hC : curve.C ≠ 0)
    (hflag : curve.is_A24_computed_and_normalized ≠ 0 → 4 * curve.A24.x = a + 2)
    (hkb : oddify BITS k < 2 ^ (f + 2 + (BITS - TPE) + 1)) (hlb : oddify BITS l < 2 ^ (f + 2 + (BITS - TPE) + 1))
    (Pt Qt : (mont a).Point) (P Q PQ : EcPoint F)
    (hP : IsX Pt P.x P.z) (hQ : IsX Qt Q.x Q.z) (hD : IsX (Pt - Qt) PQ.x PQ.z)
    (nP : XNonDeg Pt) (nQ : XNonDeg Qt) (nS : XNonDeg (Pt + Qt)) (nD : XNonDeg (Pt - Qt)) :
    IsX (chainScalar BITS k • Pt + chainScalar BITS l • Qt)
      (SqiGen.xDBLMUL_bounded NW BITS TPE P k Q l PQ curve f).x (SqiGen.xDBLMUL_bounded NW BITS TPE P k Q l PQ curve f).z := by
  rw [SqiProofs.LadderGen.xDBLMUL_bounded_eq NW BITS TPE hW hn k l hk hl]
  exact xDBLMUL_bounded_correct h2 BITS hn _ k l curve hA hC hflag hkb hlb Pt Qt P Q PQ hP hQ hD nP nQ nS nD

theorem DBLMUL_generated_correct {a : F} (h2 : (2 : F) ≠ 0) (curve : EcCurve F) (hA : curve.A = a) (k l : Nat)
    (P Q : (mont a).Point) (JP JQ : JacPoint F) (hP : IsJacC P JP) (hQ : IsJacC Q JQ) (hadd : AddGood P Q)
    (hg : dblmulGood P Q 0 ((bitsMSB 64 k).zip (bitsMSB 64 l))) :
    IsJacC ((k % 2 ^ 64) • P + (l % 2 ^ 64) • Q) (SqiGen.DBLMUL JP k JQ l curve) := by
  rw [SqiProofs.LadderGen.DBLMUL_eq]
  exact jacDBLMUL_correct h2 curve hA 64 k l P Q JP JQ hP hQ hadd hg

theorem DBLMUL_generic_generated_correct {a : F} (h2 : (2 : F) ≠ 0) (curve : EcCurve F) (hA : curve.A = a)
    (size k l : Nat) (P Q : (mont a).Point) (JP JQ : JacPoint F) (hP : IsJacC P JP) (hQ : IsJacC Q JQ)
    (hadd : AddGood P Q) (hg : dblmulGood P Q 0 ((bitsMSB (64 * size) k).zip (bitsMSB (64 * size) l))) :
    IsJacC ((k % 2 ^ (64 * size)) • P + (l % 2 ^ (64 * size)) • Q) (SqiGen.DBLMUL_generic JP k JQ l curve size) := by
  rw [SqiProofs.LadderGen.DBLMUL_generic_eq]
  exact jacDBLMUL_correct h2 curve hA (64 * size) k l P Q JP JQ hP hQ hadd hg

theorem ec_dbl_iter_generated_correct {a : F} (h2 : (2 : F) ≠ 0) (res : EcPoint F) (n : Nat) (curve : EcCurve F)
    (hA : curve.A = a * curve.C) (hC : curve.C ≠ 0)
    (hflag : curve.is_A24_computed_and_normalized ≠ 0 → IsA24 a curve.A24.x curve.A24.z)
    (Pt : (mont a).Point) (P : EcPoint F) (hP : IsX Pt P.x P.z) :
    (0 < n → IsX (2 ^ n • Pt) (SqiGen.ec_dbl_iter res n curve P).1.x (SqiGen.ec_dbl_iter res n curve P).1.z) ∧
    (n = 0 → (SqiGen.ec_dbl_iter res n curve P).1 = res) := by
  rw [SqiProofs.LadderGen.ec_dbl_iter_eq]
  have := ec_dbl_iter_correct h2 res (n : Int) curve hA hC hflag Pt P hP
  refine ⟨fun hn => ?_, fun hn => this.2 (by omega)⟩
  have := this.1 (by omega)
  simpa using this

/-- `TPL` (naive tripling `ADD(DBL(P), P)`): `[3]P` in canonical form, unless `P` or the pair `([2]P, P)` hits the order-2
doubling exception. -/
theorem TPL_correct {a : F} (h2 : (2 : F) ≠ 0) (AC : EcCurve F) (hA : AC.A = a) (Pt : (mont a).Point) (J : JacPoint F)
    (hJ : IsJacC Pt J) (hd : DblGood Pt) (ha : AddGood (Pt + Pt) Pt) : IsJacC (3 • Pt) (TPL J AC) := by
  have h2P := DBL_canonical h2 AC hA Pt J hJ hd
  have h3 := (ADD_correct h2 AC hA (Pt + Pt) Pt (DBL J AC) J h2P hJ).2 ha
  have e : (3 : ℕ) • Pt = Pt + Pt + Pt := by
    rw [show (3 : ℕ) = 2 + 1 from rfl, add_nsmul, two_nsmul, one_nsmul]
  rw [e]
  simpa [TPL] using h3

/-! ## non-vacuity: a concrete curve and point satisfying the hypotheses (over ℚ) -/

/-- `P₀ = (2, 4)` on `y² = x³ + (3/2)x² + x` -/
theorem P0_nonsingular : (mont (3 / 2 : ℚ)).Nonsingular 2 4 := by
  rw [Affine.nonsingular_iff, Affine.equation_iff]
  simp only [mont]
  norm_num

example : IsX (Affine.Point.some 2 4 P0_nonsingular) (6 : ℚ) 3 ∧ (6 : ℚ) ≠ 0 ∧ (3 : ℚ) ≠ 0 ∧ (2 : ℚ) ≠ 0 := by
  refine ⟨⟨by norm_num, by norm_num⟩, by norm_num, by norm_num, by norm_num⟩

example : IsA24 (3 / 2 : ℚ) 7 8 ∧ (3 : ℚ) = 3 / 2 * 2 ∧ (2 : ℚ) ≠ 0 := by
  refine ⟨⟨by norm_num, by norm_num⟩, by norm_num, by norm_num⟩

/-- hypotheses of `xADD_correct` / `xDBLADD_correct`: `P = P₀`, `Q = ∞`, difference `P₀` -/
example : IsX (Affine.Point.some 2 4 P0_nonsingular - 0) (2 : ℚ) 1 ∧ IsX (0 : (mont (3 / 2 : ℚ)).Point) 5 0 := by
  rw [sub_zero]
  exact ⟨⟨by norm_num, by norm_num⟩, ⟨rfl, by norm_num⟩⟩

/-- `L3Good` for a non-empty bit list: `P = P₀`, `Q = ∞`, bits `0` -/
example : L3Good [false] (0 : (mont (3 / 2 : ℚ)).Point) (Affine.Point.some 2 4 P0_nonsingular) := by
  refine ⟨?_, trivial⟩
  intro X Z h
  obtain ⟨hz, hx⟩ := h
  exact ⟨by rw [hx]; exact mul_ne_zero (by norm_num) hz, hz⟩

/-- the correct result on a concrete instance: `xDBL` of `(6 : 3)` on `(3 : 2)` represents `2·P₀` -/
example : IsX (Affine.Point.some 2 4 P0_nonsingular + Affine.Point.some 2 4 P0_nonsingular)
    (xDBL (⟨6, 3⟩ : EcPoint ℚ) ⟨3, 2⟩).x (xDBL (⟨6, 3⟩ : EcPoint ℚ) ⟨3, 2⟩).z :=
  xDBL_correct (by norm_num) 3 2 (by norm_num) (by norm_num) _ ⟨6, 3⟩ ⟨by norm_num, by norm_num⟩

/-- `Q₀ = 2·P₀ = (9/64, 213/512)` on the same curve -/
theorem Q0_nonsingular : (mont (3 / 2 : ℚ)).Nonsingular (9 / 64) (213 / 512) := by
  rw [Affine.nonsingular_iff, Affine.equation_iff]
  simp only [mont]
  norm_num

theorem xNonDeg_some {a x y : F} (h : (mont a).Nonsingular x y) (hx : x ≠ 0) : XNonDeg (Affine.Point.some x y h) :=
  fun _ _ hXZ => ⟨by rw [hXZ.2]; exact mul_ne_zero hx hXZ.1, hXZ.1⟩

/-- non-vacuity of the hypotheses of `xDBLMUL_correct` / `xDBLMUL_generated_correct`: `P = P₀`, `Q = Q₀`: all four of
`P, Q, P + Q, P - Q` have `x ∉ {0, ∞}` -/
example : XNonDeg (Affine.Point.some 2 4 P0_nonsingular) ∧ XNonDeg (Affine.Point.some (9 / 64) (213 / 512) Q0_nonsingular) ∧
    XNonDeg (Affine.Point.some 2 4 P0_nonsingular + Affine.Point.some (9 / 64) (213 / 512) Q0_nonsingular) ∧
    XNonDeg (Affine.Point.some 2 4 P0_nonsingular - Affine.Point.some (9 / 64) (213 / 512) Q0_nonsingular) := by
  refine ⟨xNonDeg_some _ (by norm_num), xNonDeg_some _ (by norm_num), ?_, ?_⟩
  · obtain ⟨x3, y3, h3, hs, hx⟩ := add_some_ne P0_nonsingular Q0_nonsingular (by norm_num)
    rw [hs]
    apply xNonDeg_some
    rw [hx]; norm_num
  · have hn : (mont (3 / 2 : ℚ)).Nonsingular (9 / 64) (-(213 / 512)) := by
      have := (Affine.nonsingular_neg (W' := mont (3 / 2 : ℚ)) (9 / 64) (213 / 512)).mpr Q0_nonsingular
      rwa [mont_negY] at this
    have e : Affine.Point.some 2 4 P0_nonsingular - Affine.Point.some (9 / 64) (213 / 512) Q0_nonsingular
        = Affine.Point.some 2 4 P0_nonsingular + Affine.Point.some (9 / 64) (-(213 / 512)) hn := by
      rw [sub_eq_add_neg, Affine.Point.neg_some]
      congr 1
      simp only [mont_negY]
    obtain ⟨x3, y3, h3, hs, hx⟩ := add_some_ne P0_nonsingular hn (by norm_num)
    rw [e, hs]
    apply xNonDeg_some
    rw [hx]; norm_num

/-- the full statement of `xADD` without the hypothesis on the difference is false: `P = Q = P₀`, difference `∞`
represented by `(1 : 0)`: the formula returns `X = 0` although `2P₀ ≠ (0,0)`-class would need `X = x(2P₀)·Z`. -/
theorem xADD_degenerate_witness : (xADD (⟨2, 1⟩ : EcPoint ℚ) ⟨2, 1⟩ ⟨1, 0⟩).x = 0 ∧
    (xADD (⟨2, 1⟩ : EcPoint ℚ) ⟨2, 1⟩ ⟨1, 0⟩).z = 0 := by
  constructor <;> (simp only [xADD]; norm_num)

end SqiProps.C08

/-
C09 — 2^n-isogeny evaluation: traversal theorems.

Model: `SqiModel.EvenChain` — C-shaped loop models of `ec_eval_even_strategy` and `ec_eval_small_chain`
(src/ec/ref/ecx/isog_chains.c) over order-tracking semantics; tied to the C on every run by the hook trace
correspondence (tools/props/c09.py, every table row in the thorough tier) and by the end-to-end harness.
Tables: `SqiGen.L{1,3,5}.STRATEGY4`, regenerated from the C headers on every run (tie T).

What is proved here, for ALL chain lengths and ALL strategies (induction over the strategy tree, no bound):
  * `even_strategy_sound`   (inner static routine) valid strategy + depth bound ⇒ no out-of-bounds access, strategy
                             consumed exactly, every 4-isogeny kernel of exact order 4, the trailing kernel (odd
                             length) of order 2, degrees multiply to 2^len
  * `small_chain_sound`     the naive chain: len steps, every kernel of exact order 2, generator ↦ ∞
  * per level `L*_STRATEGY4_depth`: every row of STRATEGY4 valid for ⌊(f-row)/2⌋ leaves **and** within the VLA depth
    (kernel decide, finite table)
  * **FULL statement** `L*_ec_eval_even_full` / `ec_eval_even_full`: the public entry point `ec_eval_even` — whose
    guard `SqiGen.EvenGuard.naive` is re-read from the C text on every run (tools/translate/evenguard.py; repair
    655114a) — stays in bounds and performs a chain of degree 2^len for EVERY length (1 ≤ len ≤ f, every
    `unsigned short`, indeed every natural number): strategy branch by `even_strategy_sound` + table facts, naive
    branch by `small_chain_sound`; `guard_false_in_range` is the obligation a weakened / removed guard breaks.
  * facts about the UNGUARDED inner routine only (`ec_eval_even_strategy` is `static`, reachable only through
    `ec_eval_even`): `L*_strategy_routine_sound`, `L*_strategy_routine_out_of_range`,
    `L*_strategy_routine_unguarded_false`.

The full property ("returns the quotient curve and the true image points") additionally needs the formula
theorems (SqiProps.C09F) and algebraic geometry that is out of reach (see notes/C09.md): partial.
-/
import SqiProofs.EvenChain
import SqiGen.Tables1
import SqiGen.Tables3
import SqiGen.Tables5
import SqiGen.EvenGuard
import SqiModel.SkelEven
import SqiProofs.SkelEvenSim
import SqiProofs.SkelSmallSim
import SqiProofs.SkelEvenConv

set_option maxRecDepth 100000

namespace SqiProps.C09
open SqiModel SqiModel.EvenChain SqiProofs.EvenChain

/-- **Traversal theorem for `ec_eval_even_strategy`** (all lengths ≥ 2, all strategies).
    If the table row holds (zero-padded) a valid strategy `t` for ⌊len/2⌋ leaves whose traversal depth stays
    below the VLA size `log2_of_e` (`StratD`), then the run has no fault (`err = none`), reads exactly the
    ⌊len/2⌋-1 strategy entries, every event is in bounds with kernels of exactly the right order
    (`evOk`: strategy index < ⌊len/2⌋-1, 1 ≤ current < log2_of_e, kernel exponent 2 for every 4-isogeny and 1 for
    the trailing 2-isogeny), and the degree exponents add up to `len`. -/
theorem even_strategy_sound (P : Params) (t pad : List Nat) (hlen : 2 ≤ P.isogLen) (hrow : P.row = t ++ pad)
    (hs : StratD P.vla P.eHalf 0 t) :
    (evalP P).err = none ∧ (evalP P).strategy = P.eHalf - 1 ∧
    (evalP P).trace.all (evOk P.vla (P.eHalf - 1)) = true ∧ degSum (evalP P).trace = P.isogLen :=
  evalP_sound P t pad hlen hrow hs

/-- the depth hypothesis is not implied by validity: the comb strategy [1,1,1] for 4 leaves is valid but
    needs 4 slots (the VLAs for len = 8 have 6, for a comb of 8 leaves they would not suffice) -/
example : Strat 8 [1, 1, 1, 1, 1, 1, 1] ∧ ¬ StratD 6 8 0 [1, 1, 1, 1, 1, 1, 1] := by
  constructor
  · have h := checkStrat_sound 8 [1, 1, 1, 1, 1, 1, 1] (by decide)
    obtain ⟨s, pad, hs, e, _, hl⟩ := h
    have : s = [1, 1, 1, 1, 1, 1, 1] := by
      have h2 : (s ++ pad).take 7 = s := by rw [List.take_left' (by omega)]
      rw [← e] at h2; exact h2.symm
    rwa [this] at hs
  · intro h
    -- a comb of 8 leaves from slot 0 reaches slot 7 ≥ 6
    have key : ∀ {cap n c : Nat} {s : List Nat}, StratD cap n c s → (∀ x ∈ s, x = 1) → c + n ≤ cap := by
      intro cap n c s hs
      induction hs with
      | leaf hc => intro _; omega
      | @node n b c s1 s2 hb1 hbn _ _ ih1 ih2 =>
        intro hall
        have hb : b = 1 := hall b (by simp)
        have h1 := ih1 (fun x hx => hall x (by simp [hx]))
        omega
    have := key h (by decide)
    omega

/-- non-vacuity: a concrete strategy and length meeting the hypotheses (len = 9: odd, 4 leaves, VLA size 6) -/
example : let P : Params := { row := [2, 1, 1, 0, 0], rowIdx := 0, nrows := 1, isogLen := 9 }
    2 ≤ P.isogLen ∧ P.row = [2, 1, 1] ++ [0, 0] ∧ StratD P.vla P.eHalf 0 [2, 1, 1] := by
  refine ⟨by decide, rfl, ?_⟩
  have h := checkStratD_sound 6 4 0 [2, 1, 1] (by decide)
  obtain ⟨s, pad, hs, e, _, hl⟩ := h
  have : s = [2, 1, 1] := by
    have h2 : (s ++ pad).take 3 = s := by rw [List.take_left' (by omega)]
    rw [← e] at h2; exact h2.symm
  rw [this] at hs
  exact hs

/-- **`ec_eval_small_chain`** (all lengths): started on a kernel generator of exact order 2^len, step `i` doubles
    `len-i-1` times and its kernel has exponent exactly 1 (order 2); there are exactly `len` steps. -/
theorem small_chain_sound (len : Nat) :
    (smallChain len len).length = len ∧
    ∀ ev ∈ smallChain len len, ∃ i, i < len ∧ ev = .iso2 i (len - i - 1) 1 := by
  have key : ∀ (cnt i e : Nat), i + cnt = len → e + i = len →
      (smallLoop len cnt i e).length = cnt ∧
      ∀ ev ∈ smallLoop len cnt i e, ∃ i', i' < len ∧ ev = .iso2 i' (len - i' - 1) 1 := by
    intro cnt
    induction cnt with
    | zero => intro i e _ _; simp [smallLoop]
    | succ cnt ih =>
      intro i e h1 h2
      obtain ⟨l1, l2⟩ := ih (i + 1) (e - 1) (by omega) (by omega)
      refine ⟨by simp [smallLoop, l1], ?_⟩
      intro ev hev
      simp only [smallLoop, List.mem_cons] at hev
      rcases hev with rfl | hev
      · exact ⟨i, by omega, by congr 1; omega⟩
      · exact l2 ev hev
  exact key len 0 len (by omega) (by omega)

/-- both routines realise an isogeny of the same degree 2^len with kernel generated by the input point
    (order-tracking level): the strategy routine's degree exponents sum to `len`, the naive chain has `len` steps
    of degree 2. -/
theorem routines_same_degree (P : Params) (t pad : List Nat) (hlen : 2 ≤ P.isogLen) (hrow : P.row = t ++ pad)
    (hs : StratD P.vla P.eHalf 0 t) :
    degSum (evalP P).trace = (smallChain P.isogLen P.isogLen).length :=
  (evalP_sound P t pad hlen hrow hs).2.2.2.trans (small_chain_sound P.isogLen).1.symm

/-! ## per level: the real tables -/

/-- generic corollary: a table all of whose rows pass `rowOKD` serves every length in its range -/
theorem even_chain_of_rows (f : Nat) (table : List (List Nat)) (h : rowsValidD f table = true)
    (isogLen : Nat) (h1 : isogLen ≤ f) (h2 : f - isogLen < table.length) :
    (evalEven table f isogLen).err = none ∧ (evalEven table f isogLen).strategy = isogLen / 2 - 1 ∧
    (evalEven table f isogLen).trace.all (evOk (mkParams table f isogLen).vla (isogLen / 2 - 1)) = true ∧
    degSum (evalEven table f isogLen).trace = isogLen :=
  evalEven_sound_of_rows f table h isogLen h1 h2

/-- generic: below/above the table range the row index `TORSION_PLUS_EVEN_POWER - isog_len` is out of bounds at
    the first strategy read (lengths 2, 3 never read the table; length ≤ 1 is a zero-size VLA) -/
theorem even_out_of_range (table : List (List Nat)) (f isogLen : Nat) (h4 : 4 ≤ isogLen) (h512 : isogLen < 512)
    (hout : f < isogLen ∨ table.length ≤ f - isogLen) :
    (evalEven table f isogLen).err = some (.rowIndex ((f : Int) - isogLen) table.length) :=
  evalEven_out_of_range table f isogLen h4 (by omega) hout

/-! ## the integer skeleton re-extracted from the C text (tools/translate/chainskel.py → `SqiGen.ChainSkel`)

`SqiGen.ChainSkel.ec_eval_even_strategy` is the slice of the C function over its integer state (e_half, log2_of_e,
strategy, BLOCK, current, XDBLs[], i, j, is_odd, the reads of STRATEGY4, loop headers, branch conditions), every point
statement replaced by an opaque event; `SqiModel.SkelEven.obs` gives those events the order-tracking meaning.
Tie skeleton ↔ hand model (the object of the theorems above):
  * `translated_even_strategy_refines` (THEOREM, all inputs): for every table, every `TORSION_PLUS_EVEN_POWER`, every
    length, every value of the run-time singular-point test (`oracle`) and of `points_len`, under the explicit side
    conditions `Hyp` (row exists; entries ≤ M; fuel and 64-bit magnitude bounds) — whenever the hand model runs
    without fault, the run of the *generated* skeleton under the interpreter of `SqiModel.Skel` has no fault, ends in
    the same (strategy, BLOCK, current), carries the same orders in SPLITTING_POINTS[] and performs isogeny steps
    with the same sequence of kernel orders.  Proved by one simulation lemma per loop in `SqiProofs.SkelEvenSim`
    (`loop0`, `loop3`, `push_sim`/`while_sim`, `iter_sim`, `for_sim`, `skel_refines`); the invariant is `Rel`.
  * `translated_even_strategy_sound`: hence `even_strategy_sound` holds of the translated text: for a table whose rows
    pass `rowOKD` the skeleton itself has no fault, consumes ⌊len/2⌋-1 strategy entries, every 4-isogeny kernel has
    exact order 4, the trailing 2-isogeny kernel exact order 2, degrees multiply to 2^len; `L{1,3,5}_translated_sound`
    instantiate it for every admissible length of the three real tables (side conditions by `decide +kernel` on the
    finite table).
  * `skeleton_agrees_small` (kernel) and the comparison executed on every row of the real tables on every check run
    (driver op `skel.even`) remain as an independent cross-check that also covers the *sequence of array accesses*
    (the `log`, which the theorem leaves unconstrained) and the faulting direction (hand model faults ⇒ skeleton
    faults), which the theorem does not state.
  * `hand_model_fuel_twin`: the structurally recursive twin used for these evaluations IS the hand model. -/

open SqiProofs.SkelEvenSim in
/-- the generated integer skeleton of `ec_eval_even_strategy` refines the hand model, for ALL inputs -/
theorem translated_even_strategy_refines (T : List (List Nat)) (tpep len M fuel : Nat) (oracle : Nat → Bool) (pl : Int)
    (H : Hyp T tpep len M fuel) (he : (evalEven T tpep len).err = none) :
    Final (SqiGen.ChainSkel.ec_eval_even_strategy SqiModel.SkelEven.obs T tpep oracle fuel len pl
        (SqiGen.ChainSkel.EvenSt.init (SqiModel.SkelEven.OSt.init len)))
      (evalEven T tpep len) :=
  skel_refines T tpep len oracle fuel pl M H he

open SqiProofs.SkelEvenSim in
/-- **the tie is an equivalence on the fault status**: under the side conditions `Hyp` (row exists, bounds) the run of the
    translated skeleton is fault-free iff the hand model is (`SqiProofs.SkelEvenConv`: converse simulation, one "dies"
    lemma per fault site of the hand model: `push_dead`, `strat_dead`, `while_dead`, `iso_dead_slot`, `iso_dead_xd`,
    `iter_dead`, `for_dead`, `skel_dead`).  Together with `translated_even_strategy_refines` (same final state and kernel
    orders when fault-free) the kernel-evaluated `skeleton_agrees_small` is redundant for the strategy routine except for
    the array-access `log`. -/
theorem translated_even_strategy_fault_iff (T : List (List Nat)) (tpep len M fuel : Nat) (oracle : Nat → Bool) (pl : Int)
    (H : Hyp T tpep len M fuel) (htl : T.length + len ≤ 18446744073709551616) (hfu1 : 1 ≤ fuel) :
    let k := SqiGen.ChainSkel.ec_eval_even_strategy SqiModel.SkelEven.obs T tpep oracle fuel len pl
        (SqiGen.ChainSkel.EvenSt.init (SqiModel.SkelEven.OSt.init len))
    (k.fault = none ∧ k.obs.bad = false) ↔ (evalEven T tpep len).err = none :=
  SqiProofs.SkelEvenConv.skel_live_iff T tpep len oracle fuel pl M H htl hfu1

open SqiProofs.SkelEvenSim in
/-- `even_strategy_sound` transferred to the translated text -/
theorem translated_even_strategy_sound (T : List (List Nat)) (tpep len M L fuel : Nat) (oracle : Nat → Bool) (pl : Int)
    (hT : rowsValidD tpep T = true) (hb : tableBound M L T = true)
    (hle : len ≤ tpep) (hrow : tpep - len < T.length) (hfu2 : 2 * M ≤ fuel) (hfur : L ≤ fuel) (hfuh : tpep ≤ fuel)
    (hmag : L * M + tpep * M + tpep + 1 < 18446744073709551616) :
    let k := SqiGen.ChainSkel.ec_eval_even_strategy SqiModel.SkelEven.obs T tpep oracle fuel len pl
        (SqiGen.ChainSkel.EvenSt.init (SqiModel.SkelEven.OSt.init len))
    k.fault = none ∧ k.obs.bad = false ∧ k.strategy = ((len / 2 - 1 : Nat) : Int) ∧
    (∀ e ∈ k.obs.kers, e = (6, 2) ∨ e = (8, 1)) ∧ (k.obs.kers.map kerDeg).sum = len := by
  obtain ⟨a, b, c, d⟩ := even_chain_of_rows tpep T hT len hle hrow
  have F := skel_refines T tpep len oracle fuel pl M (hyp_of_table T tpep len M L fuel hb hle hrow hfu2 hfur hfuh hmag) a
  obtain ⟨k1, k2⟩ := kers_of_evOk _ _ _ c
  refine ⟨F.kf, F.kb, by rw [F.st, b], ?_, ?_⟩
  · rw [F.ke]; exact k1
  · rw [F.ke, k2, d]

theorem skeleton_agrees_small : SqiModel.SkelEven.smallAllAgree = true := by decide +kernel

theorem hand_model_fuel_twin (P : Params) (fuel : Nat) (hf : P.row.length + 1 ≤ fuel) :
    SqiModel.SkelEven.evalPF P fuel = evalP P :=
  SqiModel.SkelEven.evalPF_eq P fuel hf

/-! ## the public entry point `ec_eval_even`: FULL statement -/

/-- outcome of `ec_eval_even` for a kernel generator of exact order 2^len is a correct chain of degree 2^len:
    naive branch: `len` steps, every kernel of exact order 2; strategy branch: no fault, all indices in bounds,
    kernels of exact order 4 (2 for the trailing step), degrees multiply to 2^len -/
def topOk (len : Nat) : Top → Prop
  | .naive tr => tr.length = len ∧ ∀ ev ∈ tr, ∃ i, i < len ∧ ev = .iso2 i (len - i - 1) 1
  | .strategy s => s.err = none ∧ s.strategy = len / 2 - 1 ∧
      (∃ vla, s.trace.all (evOk vla (len / 2 - 1)) = true) ∧ degSum s.trace = len

/-- the guard extracted from the C text sends exactly the lengths with a table row to the strategy routine -/
theorem guard_false_in_range (len tpep nrows : Nat) (ht : tpep < SqiGen.EvenGuard.W)
    (h : SqiGen.EvenGuard.naive len tpep nrows = false) : len ≤ tpep ∧ tpep - len < nrows := by
  unfold SqiGen.EvenGuard.naive at h
  simp only [Bool.or_eq_false_iff, decide_eq_false_iff_not] at h
  obtain ⟨h1, h2⟩ := h
  have h3 : (tpep + SqiGen.EvenGuard.W - len) % SqiGen.EvenGuard.W = tpep - len := by
    have : tpep + SqiGen.EvenGuard.W - len = (tpep - len) + SqiGen.EvenGuard.W := by omega
    rw [this, Nat.add_mod_right, Nat.mod_eq_of_lt (by omega)]
  rw [h3] at h2
  omega

/-- **Full statement for `ec_eval_even`** (every length — in particular every `unsigned short`): with a table all of
    whose rows pass `rowOKD` and the guard as written in the C, the routine stays in bounds and performs a chain
    of degree 2^len. -/
theorem ec_eval_even_full (f : Nat) (table : List (List Nat)) (h : rowsValidD f table = true)
    (hf : f < SqiGen.EvenGuard.W) (len : Nat) :
    topOk len (evalEvenTop SqiGen.EvenGuard.naive table f len) := by
  unfold evalEvenTop
  by_cases hg : SqiGen.EvenGuard.naive len f table.length = true
  · simp only [hg, if_true]
    exact small_chain_sound len
  · have hg' : SqiGen.EvenGuard.naive len f table.length = false := by simpa using hg
    simp only [hg', Bool.false_eq_true, if_false]
    obtain ⟨h1, h2⟩ := guard_false_in_range len f table.length hf hg'
    obtain ⟨a, b, c, d⟩ := even_chain_of_rows f table h len h1 h2
    exact ⟨a, b, ⟨_, c⟩, d⟩

/-! ## the naive chain and the public entry point, as translated text

`SqiGen.ChainSkel.ec_eval_small_chain` is the slice of `ec_eval_small_chain` produced by tools/translate/chainskel.py (the
scalar points `big_K`, `small_K` are slots 0, 1; the branch condition `fp2_is_zero(&small_K.x)` is a read of slot 1
followed by an oracle that may answer differently in every iteration).  `SqiModel.SkelSmall.evalEvenTopSkel` is
`ec_eval_even`: the condition of its `if` as re-read from the C (`SqiGen.EvenGuard.naive`) selecting between the two
translated routines. -/

open SqiProofs.SkelSmallSim SqiModel.SkelSmall in
/-- the translated naive chain refines the hand model `smallChain` — all lengths, all exponents, every oracle -/
theorem translated_small_chain_refines (oracle : Nat → Bool) (fuel len : Nat) (lp : Int) (e : Nat) (hfu : len ≤ fuel) :
    let k := runSmall oracle fuel len lp e
    k.fault = none ∧ k.obs.bad = false ∧ k.obs.nsteps = len ∧ k.obs.big = some (e - len) ∧
    k.obs.reads = (smallChain len e).map kerOf ∧ k.obs.isos = isosOf oracle (smallChain len e) :=
  small_refines oracle fuel len lp e hfu

/-- what a correct run of the translated naive chain on a kernel generator of exact order 2^len looks like: no fault,
    `len` steps, `small_K` has exponent exactly 1 (order 2) at every branch decision and at every `xisog_2` call, and
    `big_K` ends as the neutral element -/
def smallSkelOk (len : Nat) (k : SqiGen.ChainSkel.SmallSt SqiModel.SkelSmall.OSt) : Prop :=
  k.fault = none ∧ k.obs.bad = false ∧ k.obs.nsteps = len ∧ k.obs.big = some 0 ∧
  k.obs.reads.length = len ∧ (∀ v ∈ k.obs.reads, v = 1) ∧ (∀ v ∈ k.obs.isos, v = 1)

open SqiProofs.SkelSmallSim SqiModel.SkelSmall in
/-- `small_chain_sound` transferred to the translated text -/
theorem translated_small_chain_sound (oracle : Nat → Bool) (fuel len : Nat) (lp : Int) (hfu : len ≤ fuel) :
    smallSkelOk len (runSmall oracle fuel len lp len) := by
  obtain ⟨a, b, c, d, e, f⟩ := small_refines oracle fuel len lp len hfu
  obtain ⟨h1, h2⟩ := small_chain_sound len
  have hk : ∀ ev ∈ smallChain len len, kerOf ev = 1 := by
    intro ev hev
    obtain ⟨i, _, rfl⟩ := h2 ev hev
    rfl
  refine ⟨a, b, c, by simpa using d, by rw [e]; simp [h1], ?_, ?_⟩
  · intro v hv
    rw [e] at hv
    obtain ⟨ev, hev, rfl⟩ := List.mem_map.1 hv
    exact hk ev hev
  · intro v hv
    rw [f] at hv
    simp only [isosOf] at hv
    obtain ⟨ev, hev, rfl⟩ := List.mem_map.1 hv
    exact hk ev (List.mem_filter.1 hev).1

/-- outcome of the translated `ec_eval_even` is a correct chain of degree 2^len -/
def topSkelOk (len : Nat) : SqiModel.SkelSmall.TopSkel → Prop
  | .naive k => smallSkelOk len k
  | .strategy k => k.fault = none ∧ k.obs.bad = false ∧ k.strategy = ((len / 2 - 1 : Nat) : Int) ∧
      (∀ e ∈ k.obs.kers, e = (6, 2) ∨ e = (8, 1)) ∧ (k.obs.kers.map SqiProofs.SkelEvenSim.kerDeg).sum = len

open SqiProofs.SkelEvenSim SqiModel.SkelSmall in
/-- **Full statement for `ec_eval_even`, entirely about translated text** (every length): the dispatch condition as
    written in the C, the naive chain and the strategy routine as sliced from the C. -/
theorem translated_ec_eval_even_full (T : List (List Nat)) (tpep M L fuel : Nat) (oracleS oracleE : Nat → Bool) (lp : Int)
    (hT : rowsValidD tpep T = true) (hb : tableBound M L T = true) (htp : tpep < SqiGen.EvenGuard.W)
    (hfu2 : 2 * M ≤ fuel) (hfur : L ≤ fuel) (hfuh : tpep ≤ fuel)
    (hmag : L * M + tpep * M + tpep + 1 < 18446744073709551616) (len : Nat) (hlen : len ≤ fuel) :
    topSkelOk len (evalEvenTopSkel T tpep oracleS oracleE fuel len lp) := by
  unfold evalEvenTopSkel
  by_cases hg : SqiGen.EvenGuard.naive len tpep T.length = true
  · simp only [hg, if_true]
    exact translated_small_chain_sound oracleS fuel len lp hlen
  · have hg' : SqiGen.EvenGuard.naive len tpep T.length = false := by simpa using hg
    simp only [hg', Bool.false_eq_true, if_false]
    obtain ⟨h1, h2⟩ := guard_false_in_range len tpep T.length htp hg'
    exact translated_even_strategy_sound T tpep len M L fuel oracleE lp hT hb h1 h2 hfu2 hfur hfuh hmag

section L1
open SqiGen.L1
/-- C18-style table fact: every row `i` of STRATEGY4 is a valid strategy for ⌊(f-i)/2⌋ leaves, f-i ≥ 2, and its
    traversal depth fits the VLAs `SPLITTING_POINTS[log2_of_e]`, `XDBLs[log2_of_e]` -/
theorem L1_STRATEGY4_depth : rowsValidD W64.TORSION_PLUS_EVEN_POWER STRATEGY4 = true := by decide +kernel
theorem L1_range : W64.TORSION_PLUS_EVEN_POWER = 248 ∧ STRATEGY4.length = 134 := by decide +kernel

/-- Full statement (FALSE, see `L1_strategy_routine_unguarded_false`): for all 1 ≤ len ≤ f the routine stays in bounds.
    Proved part: for every length the table has a row for, i.e. 115 ≤ len ≤ 248. -/
theorem L1_strategy_routine_sound (isogLen : Nat) (h1 : 115 ≤ isogLen) (h2 : isogLen ≤ 248) :
    let r := evalEven STRATEGY4 W64.TORSION_PLUS_EVEN_POWER isogLen
    r.err = none ∧ r.strategy = isogLen / 2 - 1 ∧
    r.trace.all (evOk (mkParams STRATEGY4 W64.TORSION_PLUS_EVEN_POWER isogLen).vla (isogLen / 2 - 1)) = true ∧
    degSum r.trace = isogLen := by
  have ⟨hf, hn⟩ := L1_range
  exact even_chain_of_rows _ _ L1_STRATEGY4_depth isogLen (by omega) (by omega)

/-- fact about the UNGUARDED inner routine `ec_eval_even_strategy` only (it is `static`, reachable only through
    `ec_eval_even`, whose guard excludes these lengths since repair 655114a): for 4 ≤ len < 115 (and len > 248) the
    table index is out of bounds -/
theorem L1_strategy_routine_out_of_range (isogLen : Nat) (h4 : 4 ≤ isogLen) (h : isogLen < 115 ∨ (248 < isogLen ∧ isogLen < 512)) :
    (evalEven STRATEGY4 W64.TORSION_PLUS_EVEN_POWER isogLen).err =
      some (.rowIndex ((W64.TORSION_PLUS_EVEN_POWER : Int) - isogLen) STRATEGY4.length) := by
  have ⟨hf, hn⟩ := L1_range
  exact even_out_of_range _ _ _ h4 (by omega) (by omega)

/-- the inner routine alone does NOT satisfy the full statement (this is why the guard of `ec_eval_even` is needed
    and why `L1_ec_eval_even_full` depends on the extracted guard): len = 114 faults (row 134 of 134) -/
theorem L1_strategy_routine_unguarded_false :
    ¬ ∀ isogLen, 1 ≤ isogLen → isogLen ≤ 248 → (evalEven STRATEGY4 W64.TORSION_PLUS_EVEN_POWER isogLen).err = none := by
  intro h
  have h1 := h 114 (by omega) (by omega)
  rw [L1_strategy_routine_out_of_range 114 (by omega) (by omega)] at h1
  cases h1

theorem L1_table_bound : SqiProofs.SkelEvenSim.tableBound 100 250 STRATEGY4 = true := by decide +kernel

/-- the translated text of `ec_eval_even_strategy` on the level-1 table: every admissible length, every fuel ≥ 512 -/
theorem L1_translated_sound (len fuel : Nat) (oracle : Nat → Bool) (pl : Int) (h1 : 115 ≤ len) (h2 : len ≤ 248)
    (hf : 512 ≤ fuel) :
    let k := SqiGen.ChainSkel.ec_eval_even_strategy SqiModel.SkelEven.obs STRATEGY4 W64.TORSION_PLUS_EVEN_POWER oracle fuel len pl
        (SqiGen.ChainSkel.EvenSt.init (SqiModel.SkelEven.OSt.init len))
    k.fault = none ∧ k.obs.bad = false ∧ k.strategy = ((len / 2 - 1 : Nat) : Int) ∧
    (∀ e ∈ k.obs.kers, e = (6, 2) ∨ e = (8, 1)) ∧ (k.obs.kers.map SqiProofs.SkelEvenSim.kerDeg).sum = len := by
  have ⟨hf1, hn⟩ := L1_range
  exact translated_even_strategy_sound STRATEGY4 W64.TORSION_PLUS_EVEN_POWER len 100 250 fuel oracle pl
    L1_STRATEGY4_depth L1_table_bound (by omega) (by omega) (by omega) (by omega) (by omega) (by omega)

/-- `ec_eval_even` at level 1, as translated text: every length an `unsigned short` can hold -/
theorem L1_translated_ec_eval_even_full (len fuel : Nat) (oracleS oracleE : Nat → Bool) (lp : Int)
    (hlen : len < 65536) (hf : 65536 ≤ fuel) :
    topSkelOk len (SqiModel.SkelSmall.evalEvenTopSkel STRATEGY4 W64.TORSION_PLUS_EVEN_POWER oracleS oracleE fuel len lp) := by
  have ⟨hf1, hn⟩ := L1_range
  exact translated_ec_eval_even_full STRATEGY4 W64.TORSION_PLUS_EVEN_POWER 100 250 fuel oracleS oracleE lp
    L1_STRATEGY4_depth L1_table_bound (by rw [hf1]; decide) (by omega) (by omega) (by omega) (by omega) len (by omega)

/-- **FULL statement, level 1**: for every length (1 ≤ len ≤ f, indeed every `unsigned short` and beyond)
    `ec_eval_even` stays in bounds and performs a chain of degree 2^len -/
theorem L1_ec_eval_even_full (len : Nat) :
    topOk len (evalEvenTop SqiGen.EvenGuard.naive STRATEGY4 W64.TORSION_PLUS_EVEN_POWER len) :=
  ec_eval_even_full _ _ L1_STRATEGY4_depth (by rw [L1_range.1]; decide) len
end L1

section L3
open SqiGen.L3
theorem L3_STRATEGY4_depth : rowsValidD W64.TORSION_PLUS_EVEN_POWER STRATEGY4 = true := by decide +kernel
theorem L3_range : W64.TORSION_PLUS_EVEN_POWER = 376 ∧ STRATEGY4.length = 198 := by decide +kernel

theorem L3_strategy_routine_sound (isogLen : Nat) (h1 : 179 ≤ isogLen) (h2 : isogLen ≤ 376) :
    let r := evalEven STRATEGY4 W64.TORSION_PLUS_EVEN_POWER isogLen
    r.err = none ∧ r.strategy = isogLen / 2 - 1 ∧
    r.trace.all (evOk (mkParams STRATEGY4 W64.TORSION_PLUS_EVEN_POWER isogLen).vla (isogLen / 2 - 1)) = true ∧
    degSum r.trace = isogLen := by
  have ⟨hf, hn⟩ := L3_range
  exact even_chain_of_rows _ _ L3_STRATEGY4_depth isogLen (by omega) (by omega)

theorem L3_strategy_routine_out_of_range (isogLen : Nat) (h4 : 4 ≤ isogLen) (h : isogLen < 179 ∨ (376 < isogLen ∧ isogLen < 512)) :
    (evalEven STRATEGY4 W64.TORSION_PLUS_EVEN_POWER isogLen).err =
      some (.rowIndex ((W64.TORSION_PLUS_EVEN_POWER : Int) - isogLen) STRATEGY4.length) := by
  have ⟨hf, hn⟩ := L3_range
  exact even_out_of_range _ _ _ h4 (by omega) (by omega)

theorem L3_strategy_routine_unguarded_false :
    ¬ ∀ isogLen, 1 ≤ isogLen → isogLen ≤ 376 → (evalEven STRATEGY4 W64.TORSION_PLUS_EVEN_POWER isogLen).err = none := by
  intro h
  have h1 := h 178 (by omega) (by omega)
  rw [L3_strategy_routine_out_of_range 178 (by omega) (by omega)] at h1
  cases h1

theorem L3_table_bound : SqiProofs.SkelEvenSim.tableBound 100 250 STRATEGY4 = true := by decide +kernel

/-- the translated text of `ec_eval_even_strategy` on the level-3 table: every admissible length, every fuel ≥ 512 -/
theorem L3_translated_sound (len fuel : Nat) (oracle : Nat → Bool) (pl : Int) (h1 : 179 ≤ len) (h2 : len ≤ 376)
    (hf : 512 ≤ fuel) :
    let k := SqiGen.ChainSkel.ec_eval_even_strategy SqiModel.SkelEven.obs STRATEGY4 W64.TORSION_PLUS_EVEN_POWER oracle fuel len pl
        (SqiGen.ChainSkel.EvenSt.init (SqiModel.SkelEven.OSt.init len))
    k.fault = none ∧ k.obs.bad = false ∧ k.strategy = ((len / 2 - 1 : Nat) : Int) ∧
    (∀ e ∈ k.obs.kers, e = (6, 2) ∨ e = (8, 1)) ∧ (k.obs.kers.map SqiProofs.SkelEvenSim.kerDeg).sum = len := by
  have ⟨hf1, hn⟩ := L3_range
  exact translated_even_strategy_sound STRATEGY4 W64.TORSION_PLUS_EVEN_POWER len 100 250 fuel oracle pl
    L3_STRATEGY4_depth L3_table_bound (by omega) (by omega) (by omega) (by omega) (by omega) (by omega)

/-- `ec_eval_even` at level 3, as translated text: every length an `unsigned short` can hold -/
theorem L3_translated_ec_eval_even_full (len fuel : Nat) (oracleS oracleE : Nat → Bool) (lp : Int)
    (hlen : len < 65536) (hf : 65536 ≤ fuel) :
    topSkelOk len (SqiModel.SkelSmall.evalEvenTopSkel STRATEGY4 W64.TORSION_PLUS_EVEN_POWER oracleS oracleE fuel len lp) := by
  have ⟨hf1, hn⟩ := L3_range
  exact translated_ec_eval_even_full STRATEGY4 W64.TORSION_PLUS_EVEN_POWER 100 250 fuel oracleS oracleE lp
    L3_STRATEGY4_depth L3_table_bound (by rw [hf1]; decide) (by omega) (by omega) (by omega) (by omega) len (by omega)

/-- **FULL statement, level 3**: for every length (1 ≤ len ≤ f, indeed every `unsigned short` and beyond)
    `ec_eval_even` stays in bounds and performs a chain of degree 2^len -/
theorem L3_ec_eval_even_full (len : Nat) :
    topOk len (evalEvenTop SqiGen.EvenGuard.naive STRATEGY4 W64.TORSION_PLUS_EVEN_POWER len) :=
  ec_eval_even_full _ _ L3_STRATEGY4_depth (by rw [L3_range.1]; decide) len
end L3

section L5
open SqiGen.L5
theorem L5_STRATEGY4_depth : rowsValidD W64.TORSION_PLUS_EVEN_POWER STRATEGY4 = true := by decide +kernel
theorem L5_range : W64.TORSION_PLUS_EVEN_POWER = 500 ∧ STRATEGY4.length = 260 := by decide +kernel

theorem L5_strategy_routine_sound (isogLen : Nat) (h1 : 241 ≤ isogLen) (h2 : isogLen ≤ 500) :
    let r := evalEven STRATEGY4 W64.TORSION_PLUS_EVEN_POWER isogLen
    r.err = none ∧ r.strategy = isogLen / 2 - 1 ∧
    r.trace.all (evOk (mkParams STRATEGY4 W64.TORSION_PLUS_EVEN_POWER isogLen).vla (isogLen / 2 - 1)) = true ∧
    degSum r.trace = isogLen := by
  have ⟨hf, hn⟩ := L5_range
  exact even_chain_of_rows _ _ L5_STRATEGY4_depth isogLen (by omega) (by omega)

theorem L5_strategy_routine_out_of_range (isogLen : Nat) (h4 : 4 ≤ isogLen) (h : isogLen < 241 ∨ (500 < isogLen ∧ isogLen < 512)) :
    (evalEven STRATEGY4 W64.TORSION_PLUS_EVEN_POWER isogLen).err =
      some (.rowIndex ((W64.TORSION_PLUS_EVEN_POWER : Int) - isogLen) STRATEGY4.length) := by
  have ⟨hf, hn⟩ := L5_range
  exact even_out_of_range _ _ _ h4 (by omega) (by omega)

theorem L5_strategy_routine_unguarded_false :
    ¬ ∀ isogLen, 1 ≤ isogLen → isogLen ≤ 500 → (evalEven STRATEGY4 W64.TORSION_PLUS_EVEN_POWER isogLen).err = none := by
  intro h
  have h1 := h 240 (by omega) (by omega)
  rw [L5_strategy_routine_out_of_range 240 (by omega) (by omega)] at h1
  cases h1

theorem L5_table_bound : SqiProofs.SkelEvenSim.tableBound 100 250 STRATEGY4 = true := by decide +kernel

/-- the translated text of `ec_eval_even_strategy` on the level-5 table: every admissible length, every fuel ≥ 512 -/
theorem L5_translated_sound (len fuel : Nat) (oracle : Nat → Bool) (pl : Int) (h1 : 241 ≤ len) (h2 : len ≤ 500)
    (hf : 512 ≤ fuel) :
    let k := SqiGen.ChainSkel.ec_eval_even_strategy SqiModel.SkelEven.obs STRATEGY4 W64.TORSION_PLUS_EVEN_POWER oracle fuel len pl
        (SqiGen.ChainSkel.EvenSt.init (SqiModel.SkelEven.OSt.init len))
    k.fault = none ∧ k.obs.bad = false ∧ k.strategy = ((len / 2 - 1 : Nat) : Int) ∧
    (∀ e ∈ k.obs.kers, e = (6, 2) ∨ e = (8, 1)) ∧ (k.obs.kers.map SqiProofs.SkelEvenSim.kerDeg).sum = len := by
  have ⟨hf1, hn⟩ := L5_range
  exact translated_even_strategy_sound STRATEGY4 W64.TORSION_PLUS_EVEN_POWER len 100 250 fuel oracle pl
    L5_STRATEGY4_depth L5_table_bound (by omega) (by omega) (by omega) (by omega) (by omega) (by omega)

/-- `ec_eval_even` at level 5, as translated text: every length an `unsigned short` can hold -/
theorem L5_translated_ec_eval_even_full (len fuel : Nat) (oracleS oracleE : Nat → Bool) (lp : Int)
    (hlen : len < 65536) (hf : 65536 ≤ fuel) :
    topSkelOk len (SqiModel.SkelSmall.evalEvenTopSkel STRATEGY4 W64.TORSION_PLUS_EVEN_POWER oracleS oracleE fuel len lp) := by
  have ⟨hf1, hn⟩ := L5_range
  exact translated_ec_eval_even_full STRATEGY4 W64.TORSION_PLUS_EVEN_POWER 100 250 fuel oracleS oracleE lp
    L5_STRATEGY4_depth L5_table_bound (by rw [hf1]; decide) (by omega) (by omega) (by omega) (by omega) len (by omega)

/-- **FULL statement, level 5**: for every length (1 ≤ len ≤ f, indeed every `unsigned short` and beyond)
    `ec_eval_even` stays in bounds and performs a chain of degree 2^len -/
theorem L5_ec_eval_even_full (len : Nat) :
    topOk len (evalEvenTop SqiGen.EvenGuard.naive STRATEGY4 W64.TORSION_PLUS_EVEN_POWER len) :=
  ec_eval_even_full _ _ L5_STRATEGY4_depth (by rw [L5_range.1]; decide) len
end L5

end SqiProps.C09

/-
C09 — formula theorems over the definitions regenerated from src/ec/ref/ecx/xisog.c, xeval.c, ec.c (tie T:
`SqiGen.Isog`, `SqiGen.Ec`, emitted by tools/translate/straightline.py on every run).  Any field.
Lemmas with the polynomial cofactors: `SqiProofs.IsogFormulas` (cofactors found with sympy, re-checked by `ring`).

Notation (SqiProofs.IsogFormulas): `cross P Q = 0` is projective equality of x-only points; `ord2 K A24 = 0` /
`ord4 K A24 = 0`: K has order 2 / order 4 (with [2]K ≠ (0,0)) on the Montgomery curve E with (A+2 : 4) = A24;
`biquad P Q D A24 = 0`: D = x(P ∓ Q) on E (the relation under which the C's xADD(P,Q,D) is x(P ± Q)).

Combined theorems — each says that the pair (xisog_k, xeval_k) has, at the level of formulas, every property that
characterises the quotient map E → E/⟨K⟩ on x-coordinates:
  * `xisog_2_is_isogeny_formulas`           (kernel of order 2, K ≠ (0,0))
  * `xisog_2_singular_is_isogeny_formulas`  (kernel (0,0); s = sqrt(A² − 4))
  * `xisog_4_is_isogeny_formulas`           (kernel of order 4, [2]K ≠ (0,0)): identically the composition of two
                                            degree-2 steps, each satisfying the hypotheses of the degree-2 theorem
  * `xisog_4_singular_is_isogeny_formulas`  ([2]K = (0,0), both branches K.x = ± K.z): the singular degree-2 step
                                            followed by a regular one (modulo s² = A² − 4), + direct commutation
                                            with xDBL
The properties: K ↦ ∞ and ∞ ↦ ∞; explicit degree; codomain coefficient; φ ∘ [2]_E = [2]_E' ∘ φ;
φ(xADD(P,Q,P−Q)) = xADD'(φP,φQ,φ(P−Q)) and φ(P−Q) is again the difference on E'; for every point (x,y) of E the
point (φ(x), y·φ'(x)·const) lies on the codomain curve (explicit y-map).
What is NOT formalised: that a rational map with these properties *is* the quotient isogeny as a morphism of
elliptic curves / E' ≅ E/⟨K⟩ (no quotient-curve theory in Mathlib) — partial, see notes/C09.md; the
exact-arithmetic oracle of tools/props/c09.py checks it on real curves.
-/
import SqiProofs.IsogFormulas

namespace SqiProps.C09F
open SqiGen SqiProofs.IsogFormulas

variable {F : Type} [Field F] [DecidableEq F]

/-! ### degree 2, kernel ≠ (0,0) -/

theorem xeval_2_kernel (K : EcPoint F) : (xeval_2_pt K (xisog_2 K).1).z = 0 := by
  simp only [xeval_2_pt, xisog_2]; ring

/-- the emitted codomain (A24' : C24') = (z² - x² : z²) encodes A' = 2(1 - 2α²) -/
theorem xisog_2_codomain (K : EcPoint F) :
    (xisog_2 K).2.x = K.z ^ 2 - K.x ^ 2 ∧ (xisog_2 K).2.z = K.z ^ 2 ∧
    4 * (xisog_2 K).2.x - 2 * (xisog_2 K).2.z = 2 * (K.z ^ 2 - 2 * K.x ^ 2) := by
  simp only [xisog_2]; refine ⟨by ring, by ring, by ring⟩

/-- `xeval_2` is the degree-2 map x ↦ x(αx - 1)/(x - α), α = x_K/z_K -/
theorem xeval_2_map (K Q : EcPoint F) :
    (xeval_2_pt Q (xisog_2 K).1).x * (Q.z * (K.z * Q.x - K.x * Q.z)) =
    (xeval_2_pt Q (xisog_2 K).1).z * (Q.x * (K.x * Q.x - K.z * Q.z)) := by
  simp only [xeval_2_pt, xisog_2]; ring

theorem xeval_2_infinity (K Q : EcPoint F) (h : Q.z = 0) : (xeval_2_pt Q (xisog_2 K).1).z = 0 := by
  simp only [xeval_2_pt, xisog_2, h]; ring

theorem xeval_2_zero (K Q : EcPoint F) (h : Q.x = 0) : (xeval_2_pt Q (xisog_2 K).1).x = 0 := by
  simp only [xeval_2_pt, xisog_2, h]; ring

theorem four_ne_zero_of_two (h2 : (2 : F) ≠ 0) : (4 : F) ≠ 0 := by
  have : (4 : F) = 2 * 2 := by norm_num
  rw [this]; exact mul_ne_zero h2 h2

/-- φ ∘ [2]_E = [2]_E' ∘ φ -/
theorem xeval_2_dbl_commute (K Q A24 : EcPoint F) (hK : ord2 K A24 = 0) (h2 : (2 : F) ≠ 0) (hx : K.x ≠ 0) (hz : K.z ≠ 0) :
    cross (xeval_2_pt (xDBL_A24 Q A24) (xisog_2 K).1) (xDBL_A24 (xeval_2_pt Q (xisog_2 K).1) (xisog_2 K).2) = 0 :=
  (mul_eq_zero.mp (xeval_2_dbl K Q A24 hK)).resolve_right
    (pow_ne_zero _ (mul_ne_zero (mul_ne_zero (four_ne_zero_of_two h2) hx) hz))

/-- φ(xADD(P,Q,D)) = xADD'(φP,φQ,φD) when D = x(P−Q), and φ(D) is again the difference of φP, φQ on E' -/
theorem xeval_2_add_commute (K P Q D A24 : EcPoint F) (hK : ord2 K A24 = 0) (hD : biquad P Q D A24 = 0) (ha : A24.z ≠ 0) :
    cross (xeval_2_pt (xADD P Q D) (xisog_2 K).1)
          (xADD (xeval_2_pt P (xisog_2 K).1) (xeval_2_pt Q (xisog_2 K).1) (xeval_2_pt D (xisog_2 K).1)) = 0 ∧
    biquad (xeval_2_pt P (xisog_2 K).1) (xeval_2_pt Q (xisog_2 K).1) (xeval_2_pt D (xisog_2 K).1) (xisog_2 K).2 = 0 :=
  ⟨(mul_eq_zero.mp (xeval_2_add K P Q D A24 hK hD)).resolve_right ha,
   (mul_eq_zero.mp (xeval_2_biquad K P Q D A24 hK hD)).resolve_right ha⟩

/-- **`xisog_2` / `xeval_2` have all formula-level properties of the quotient isogeny by ⟨K⟩** (K of order 2,
    K ≠ (0,0), on E with (A+2:4) = A24; characteristic ≠ 2). With k = kernel data, B = emitted codomain:
    (1) K ↦ ∞, ∞ ↦ ∞, (0,0) ↦ (0,0); (2) φ(x) = x(αx−1)/(x−α): degree 2; (3) codomain A' = 2(1−2α²);
    (4) φ∘[2] = [2]∘φ; (5) φ(xADD(P,Q,P−Q)) = xADD(φP,φQ,φ(P−Q)) and φ(P−Q) = φP − φQ on E';
    (6) (x,y) ∈ E ⇒ (φ(x), y·W/Dn²) ∈ E' with B' = αB (explicit y-map, W ∝ φ'·Dn²). -/
theorem xisog_2_is_isogeny_formulas (K A24 : EcPoint F) (hK : ord2 K A24 = 0) (h2 : (2 : F) ≠ 0)
    (hx : K.x ≠ 0) (hz : K.z ≠ 0) (ha : A24.z ≠ 0) :
    (xeval_2_pt K (xisog_2 K).1).z = 0 ∧
    (∀ Q : EcPoint F, Q.z = 0 → (xeval_2_pt Q (xisog_2 K).1).z = 0) ∧
    (∀ Q : EcPoint F, Q.x = 0 → (xeval_2_pt Q (xisog_2 K).1).x = 0) ∧
    (∀ Q : EcPoint F, (xeval_2_pt Q (xisog_2 K).1).x * (Q.z * (K.z * Q.x - K.x * Q.z)) =
        (xeval_2_pt Q (xisog_2 K).1).z * (Q.x * (K.x * Q.x - K.z * Q.z))) ∧
    (4 * (xisog_2 K).2.x - 2 * (xisog_2 K).2.z = 2 * (K.z ^ 2 - 2 * K.x ^ 2) ∧ (xisog_2 K).2.z = K.z ^ 2) ∧
    (∀ Q : EcPoint F, cross (xeval_2_pt (xDBL_A24 Q A24) (xisog_2 K).1)
        (xDBL_A24 (xeval_2_pt Q (xisog_2 K).1) (xisog_2 K).2) = 0) ∧
    (∀ P Q D : EcPoint F, biquad P Q D A24 = 0 →
        cross (xeval_2_pt (xADD P Q D) (xisog_2 K).1)
          (xADD (xeval_2_pt P (xisog_2 K).1) (xeval_2_pt Q (xisog_2 K).1) (xeval_2_pt D (xisog_2 K).1)) = 0 ∧
        biquad (xeval_2_pt P (xisog_2 K).1) (xeval_2_pt Q (xisog_2 K).1) (xeval_2_pt D (xisog_2 K).1) (xisog_2 K).2 = 0) ∧
    (∀ x y Bc : F, Bc ≠ 0 → Bc * y ^ 2 * A24.z - x * (A24.z * x ^ 2 + (4 * A24.x - 2 * A24.z) * x + A24.z) = 0 →
        let N := (xeval_2_pt { x := x, z := 1 } (xisog_2 K).1).x
        let Dn := (xeval_2_pt { x := x, z := 1 } (xisog_2 K).1).z
        let W := 4 * K.x * (K.z * x ^ 2 - 2 * K.x * x + K.z)
        let B := (xisog_2 K).2
        K.x * Bc * (y * W) ^ 2 * B.z = K.z * Dn * N * (B.z * N ^ 2 + (4 * B.x - 2 * B.z) * N * Dn + B.z * Dn ^ 2)) := by
  refine ⟨xeval_2_kernel K, fun Q h => xeval_2_infinity K Q h, fun Q h => xeval_2_zero K Q h, fun Q => xeval_2_map K Q,
    ⟨(xisog_2_codomain K).2.2, (xisog_2_codomain K).2.1⟩, fun Q => xeval_2_dbl_commute K Q A24 hK h2 hx hz,
    fun P Q D hD => xeval_2_add_commute K P Q D A24 hK hD ha, ?_⟩
  intro x y Bc hB hc
  have h := xeval_2_on_curve K A24 x y Bc hK hc
  have hne : (4 * K.x * K.z) ^ 1 * (Bc * A24.z) ^ 1 ≠ 0 := by
    simp only [pow_one]
    exact mul_ne_zero (mul_ne_zero (mul_ne_zero (four_ne_zero_of_two h2) hx) hz) (mul_ne_zero hB ha)
  exact sub_eq_zero.mp ((mul_eq_zero.mp h).resolve_right hne)


/-! ### degree 2, kernel (0,0) (`xisog_2_singular` / `xeval_2_singular`) -/

/-- the generated `xisog_2_singular` emits exactly the kernel data (a, −s) and the codomain (2a + 2s : 4s) with
    a = A = 2(2·A24.x − A24.z)/A24.z and s = sqrt(a² − 4) -/
theorem xisog_2_singular_eq (sqrt : F → F) (A24 : EcPoint F) :
    let a := (A24.x + A24.x - A24.z + (A24.x + A24.x - A24.z)) * A24.z⁻¹
    let s := sqrt (a * a - ((4 : Nat) : F))
    xisog_2_singular sqrt A24 = (kpsS a s, codS a s) := by
  simp only [xisog_2_singular, kpsS, codS]

theorem xeval_2_singular_kernel (kps : EcKps2 F) (Q : EcPoint F) (h : Q.x = 0) :
    (xeval_2_singular_pt Q kps).z = 0 ∧ (xeval_2_singular_pt Q kps).x = Q.z ^ 2 := by
  simp only [xeval_2_singular_pt, h]; refine ⟨by ring, by ring⟩

theorem xeval_2_singular_infinity (kps : EcKps2 F) (Q : EcPoint F) (h : Q.z = 0) :
    (xeval_2_singular_pt Q kps).z = 0 := by
  simp only [xeval_2_singular_pt, h]; ring

/-- **`xisog_2_singular` / `xeval_2_singular` have all formula-level properties of the quotient isogeny by ⟨(0,0)⟩**
    on E : y² = x³ + a x² + x (A24 = (a+2 : 4)), s² = a² − 4:
    (0,0) ↦ ∞, ∞ ↦ ∞, φ(x) = (x² + a x + 1)/(−s x) (degree 2), codomain A' = 2a/s, commutation with xDBL and xADD,
    preservation of the difference relation, and the explicit y-map (B' = −B/s). -/
theorem xisog_2_singular_is_isogeny_formulas (a s : F) (hs : s ^ 2 - (a ^ 2 - 4) = 0) :
    (∀ Q : EcPoint F, Q.x = 0 → (xeval_2_singular_pt Q (kpsS a s)).z = 0) ∧
    (∀ Q : EcPoint F, Q.z = 0 → (xeval_2_singular_pt Q (kpsS a s)).z = 0) ∧
    (∀ Q : EcPoint F, (xeval_2_singular_pt Q (kpsS a s)).x = Q.x ^ 2 + a * Q.x * Q.z + Q.z ^ 2 ∧
        (xeval_2_singular_pt Q (kpsS a s)).z = -s * (Q.x * Q.z)) ∧
    (s * (4 * (codS a s).x - 2 * (codS a s).z) = 2 * a * (codS a s).z) ∧
    (∀ Q : EcPoint F, cross (xeval_2_singular_pt (xDBL_A24 Q (a24 a)) (kpsS a s))
        (xDBL_A24 (xeval_2_singular_pt Q (kpsS a s)) (codS a s)) = 0) ∧
    (∀ P Q D : EcPoint F, biquad P Q D (a24 a) = 0 →
        cross (xeval_2_singular_pt (xADD P Q D) (kpsS a s))
          (xADD (xeval_2_singular_pt P (kpsS a s)) (xeval_2_singular_pt Q (kpsS a s)) (xeval_2_singular_pt D (kpsS a s))) = 0 ∧
        biquad (xeval_2_singular_pt P (kpsS a s)) (xeval_2_singular_pt Q (kpsS a s)) (xeval_2_singular_pt D (kpsS a s))
          (codS a s) = 0) ∧
    (∀ x y Bc : F, Bc ≠ 0 → Bc * y ^ 2 - (x ^ 3 + a * x ^ 2 + x) = 0 →
        let N := (xeval_2_singular_pt { x := x, z := 1 } (kpsS a s)).x
        let Dn := (xeval_2_singular_pt { x := x, z := 1 } (kpsS a s)).z
        let W := -s * (x ^ 2 - 1)
        let B := codS a s
        (-Bc) * (y * W) ^ 2 * B.z = s * (Dn * N * (B.z * N ^ 2 + (4 * B.x - 2 * B.z) * N * Dn + B.z * Dn ^ 2))) := by
  refine ⟨fun Q h => (xeval_2_singular_kernel _ Q h).1, fun Q h => xeval_2_singular_infinity _ Q h, ?_, ?_,
    fun Q => xeval_2_singular_dbl Q a s hs,
    fun P Q D hD => ⟨xeval_2_singular_add P Q D a s hs hD, xeval_2_singular_biquad P Q D a s hs hD⟩, ?_⟩
  · intro Q; simp only [xeval_2_singular_pt, kpsS]; exact ⟨by ring, by ring⟩
  · simp only [codS]; ring
  · intro x y Bc hB hc
    have h := xeval_2_singular_on_curve x y Bc a s hs hc
    exact sub_eq_zero.mp ((mul_eq_zero.mp h).resolve_right (pow_ne_zero _ hB))

/-! ### degree 4, [2]K ≠ (0,0) (`xisog_4` / `xeval_4`) -/

theorem xeval_4_kernel (K : EcPoint F) (k0 : EcKps4 F) : (xeval_4_pt K (xisog_4 k0 K).1).z = 0 := by
  simp only [xeval_4_pt, xisog_4]; ring

/-- codomain of the 4-isogeny: (A24' : C24') = (z⁴ - x⁴ : z⁴), i.e. A' = 2 - 4α⁴ -/
theorem xisog_4_codomain (K : EcPoint F) (k0 : EcKps4 F) :
    (xisog_4 k0 K).2.x = K.z ^ 4 - K.x ^ 4 ∧ (xisog_4 k0 K).2.z = K.z ^ 4 := by
  simp only [xisog_4]; refine ⟨by ring, by ring⟩

theorem xeval_4_infinity (K Q : EcPoint F) (k0 : EcKps4 F) (h : Q.z = 0) : (xeval_4_pt Q (xisog_4 k0 K).1).z = 0 := by
  simp only [xeval_4_pt, xisog_4, h]; ring

/-- **`xisog_4` / `xeval_4` are, identically, the composition of two degree-2 steps each of which satisfies the
    hypotheses of `xisog_2_is_isogeny_formulas`** (K of order 4 on E, [2]K ≠ (0,0), characteristic ≠ 2):
    with K₂ = (K.x² + K.z² : 2 K.x K.z):  [2]K = K₂;  K₂ has order 2 on E;  φ₁ := xeval_2 with kernel K₂, E₁ its
    codomain;  φ₁(K) has order 2 on E₁;  xeval_4 = xeval_2[φ₁(K)] ∘ φ₁ as projective maps (polynomial identity in
    K and the point, no hypothesis) and the codomains agree;  K ↦ ∞, ∞ ↦ ∞. Consequently the degree-4 map inherits
    degree 4, commutation with xDBL / xADD, preservation of differences and the y-map from the degree-2 theorem
    applied to (K₂, E) and to (φ₁(K), E₁). -/
theorem xisog_4_is_isogeny_formulas (K A24 : EcPoint F) (k0 : EcKps4 F) (hK : ord4 K A24 = 0) (h2 : (2 : F) ≠ 0)
    (hx : K.x ≠ 0) (hz : K.z ≠ 0) (hq : K.x ^ 2 + K.z ^ 2 ≠ 0) :
    (xeval_4_pt K (xisog_4 k0 K).1).z = 0 ∧
    (∀ Q : EcPoint F, Q.z = 0 → (xeval_4_pt Q (xisog_4 k0 K).1).z = 0) ∧
    cross (xDBL_A24 K A24) (dbl4 K) = 0 ∧
    ord2 (dbl4 K) A24 = 0 ∧
    ord2 (xeval_2_pt K (xisog_2 (dbl4 K)).1) (xisog_2 (dbl4 K)).2 = 0 ∧
    (∀ Q : EcPoint F, cross (xeval_4_pt Q (xisog_4 k0 K).1)
        (xeval_2_pt (xeval_2_pt Q (xisog_2 (dbl4 K)).1) (xisog_2 (xeval_2_pt K (xisog_2 (dbl4 K)).1)).1) = 0) ∧
    cross (xisog_4 k0 K).2 (xisog_2 (xeval_2_pt K (xisog_2 (dbl4 K)).1)).2 = 0 := by
  have h8 : (8 : F) * K.x * K.z * (K.x ^ 2 + K.z ^ 2) ≠ 0 := by
    have : (8 : F) = 2 * 2 * 2 := by norm_num
    rw [this]
    exact mul_ne_zero (mul_ne_zero (mul_ne_zero (mul_ne_zero (mul_ne_zero h2 h2) h2) hx) hz) hq
  exact ⟨xeval_4_kernel K k0, fun Q h => xeval_4_infinity K Q k0 h,
    (mul_eq_zero.mp (dbl_of_ord4 K A24 hK)).resolve_right (pow_ne_zero _ h8),
    (mul_eq_zero.mp (ord2_dbl4 K A24 hK)).resolve_right (pow_ne_zero _ h8),
    ord2_step2 K, fun Q => xeval_4_comp K Q k0, xisog_4_comp K k0⟩

/-- the first step of the decomposition, instantiated: φ₁ (kernel [2]K) commutes with doubling on E -/
theorem xisog_4_step1 (K A24 : EcPoint F) (hK : ord4 K A24 = 0) (h2 : (2 : F) ≠ 0)
    (hx : K.x ≠ 0) (hz : K.z ≠ 0) (hq : K.x ^ 2 + K.z ^ 2 ≠ 0) (Q : EcPoint F) :
    cross (xeval_2_pt (xDBL_A24 Q A24) (xisog_2 (dbl4 K)).1)
        (xDBL_A24 (xeval_2_pt Q (xisog_2 (dbl4 K)).1) (xisog_2 (dbl4 K)).2) = 0 := by
  have h := (xisog_4_is_isogeny_formulas K A24 ⟨⟨0, 0⟩, ⟨0, 0⟩, ⟨0, 0⟩⟩ hK h2 hx hz hq).2.2.2.1
  exact xeval_2_dbl_commute (dbl4 K) Q A24 h h2 hq (by simp only [dbl4]; exact mul_ne_zero (mul_ne_zero h2 hx) hz)

/-! ### degree 4, [2]K = (0,0) (`xisog_4_singular` / `xeval_4_singular`), K.x = ± K.z -/

theorem xeval_4_singular_kernel_eq (K A24 : EcPoint F) (k0 : EcKps4 F) (h : K.x = K.z) :
    (xeval_4_singular_pt K K (xisog_4_singular k0 K A24).1).z = 0 := by
  simp only [xeval_4_singular_pt, xisog_4_singular, h, decide_true, if_true]; ring

theorem xeval_4_singular_kernel_neg (K A24 : EcPoint F) (k0 : EcKps4 F) (h : K.x = -K.z) (hne : K.x ≠ K.z) :
    (xeval_4_singular_pt K K (xisog_4_singular k0 K A24).1).z = 0 := by
  have hd : decide (K.x = K.z) = false := by simp [hne]
  simp only [xeval_4_singular_pt, xisog_4_singular, hd, if_false, Bool.false_eq_true]
  rw [h]; ring

/-- codomain of the singular 4-isogeny: (A24' : C24') = (C24 : C24 − A24) if x_K = z_K, else (C24 : A24) -/
theorem xisog_4_singular_codomain (K A24 : EcPoint F) (k0 : EcKps4 F) :
    (xisog_4_singular k0 K A24).2.x = A24.z ∧
    (xisog_4_singular k0 K A24).2.z = if K.x = K.z then -(A24.x - A24.z) else A24.x := by
  by_cases h : K.x = K.z
  · simp [xisog_4_singular, h]
  · simp [xisog_4_singular, h]

/-- φ ∘ [2] = [2] ∘ φ for the singular 4-isogeny: a polynomial identity, any A24, both branches -/
theorem xeval_4_singular_dbl_commute (K Q A24 : EcPoint F) (k0 : EcKps4 F) :
    cross (xeval_4_singular_pt (xDBL_A24 Q A24) K (xisog_4_singular k0 K A24).1)
      (xDBL_A24 (xeval_4_singular_pt Q K (xisog_4_singular k0 K A24).1) (xisog_4_singular k0 K A24).2) = 0 := by
  by_cases h : K.x = K.z
  · simp only [cross, xeval_4_singular_pt, xisog_4_singular, xDBL_A24, h, decide_true, if_true]; ring
  · have hd : decide (K.x = K.z) = false := by simp [h]
    simp only [cross, xeval_4_singular_pt, xisog_4_singular, xDBL_A24, hd, if_false, Bool.false_eq_true]; ring

/-- **`xisog_4_singular` / `xeval_4_singular`** (K of order 4 above (0,0): K.x = ± K.z) on E : y² = x³ + a x² + x,
    A24 = (a+2 : 4), s² = a² − 4: K ↦ ∞; commutation with xDBL (identically); and, modulo s² = a² − 4, the map is the
    singular degree-2 step (kernel (0,0), `xisog_2_singular_is_isogeny_formulas`) followed by the regular degree-2
    step whose kernel φ₀(K) has order 2 on the intermediate curve (`xisog_2_is_isogeny_formulas`); codomains agree. -/
theorem xisog_4_singular_is_isogeny_formulas (K : EcPoint F) (k0 : EcKps4 F) (a s : F) (hs : s ^ 2 - (a ^ 2 - 4) = 0)
    (hK : K.x = K.z ∨ (K.x = -K.z ∧ K.x ≠ K.z)) :
    (xeval_4_singular_pt K K (xisog_4_singular k0 K (a24 a)).1).z = 0 ∧
    (∀ Q : EcPoint F, cross (xeval_4_singular_pt (xDBL_A24 Q (a24 a)) K (xisog_4_singular k0 K (a24 a)).1)
      (xDBL_A24 (xeval_4_singular_pt Q K (xisog_4_singular k0 K (a24 a)).1) (xisog_4_singular k0 K (a24 a)).2) = 0) ∧
    ord2 (xeval_2_singular_pt K (kpsS a s)) (codS a s) = 0 ∧
    (∀ Q : EcPoint F, cross (xeval_4_singular_pt Q K (xisog_4_singular k0 K (a24 a)).1)
        (xeval_2_pt (xeval_2_singular_pt Q (kpsS a s)) (xisog_2 (xeval_2_singular_pt K (kpsS a s))).1) = 0) ∧
    cross (xisog_4_singular k0 K (a24 a)).2 (xisog_2 (xeval_2_singular_pt K (kpsS a s))).2 = 0 := by
  rcases hK with h | ⟨h, hne⟩
  · exact ⟨xeval_4_singular_kernel_eq K _ k0 h, fun Q => xeval_4_singular_dbl_commute K Q _ k0,
      ord2_step2_singular_eq K a s hs h, fun Q => xeval_4_singular_comp_eq K Q k0 a s hs h,
      xisog_4_singular_comp_eq K k0 a s hs h⟩
  · exact ⟨xeval_4_singular_kernel_neg K _ k0 h hne, fun Q => xeval_4_singular_dbl_commute K Q _ k0,
      ord2_step2_singular_neg K a s hs h, fun Q => xeval_4_singular_comp_neg K Q k0 a s hs h hne,
      xisog_4_singular_comp_neg K k0 a s hs h hne⟩

end SqiProps.C09F

/-
C09 — formula theorems over the definitions regenerated from src/ec/ref/ecx/xisog.c and xeval.c (tie T:
`SqiGen.Isog`, emitted by tools/translate/straightline.py on every run).  Any commutative ring / field.

For the degree-2 step (`xisog_2` / `xeval_2`, kernel point K = (x_K : z_K) of order 2, α = x_K / z_K):
  * `xeval_2_kernel`            φ(K) = ∞
  * `xisog_2_codomain`          the emitted A24' encodes A' = 2(1 - 2α²)   (4·B.x - 2·B.z = 2(z² - 2x²))
  * `xeval_2_map`               φ is x ↦ x(αx - 1)/(x - α)   (cross-multiplied)
  * `xeval_2_dbl_commute`       φ ∘ [2]_E = [2]_E' ∘ φ  (projective identity; hypothesis: K is a 2-torsion point of E,
                                 written in the A24 encoding)
  * `xeval_2_infinity`, `xeval_2_zero`   ∞ ↦ ∞ and (0,0) ↦ (0,0)
For the degree-4 step (`xisog_4` / `xeval_4`, K of order 4): `xeval_4_kernel`, `xisog_4_codomain`
  (A24' = 1 - α⁴), `xeval_4_infinity`; singular variants (`[2]K = (0,0)`): `xeval_4_singular_kernel` for both
  branches x_K = ± z_K, `xisog_4_singular_codomain`, and `xeval_2_singular_kernel` ((0,0) ↦ ∞).
That these maps are *the* quotient isogenies as morphisms of elliptic curves (E/⟨K⟩ ≅ E') is not formalised
(no quotient-curve theory in Mathlib): partial, see notes/C09.md; the exact-arithmetic oracle of tools/props/c09.py
checks it on real curves.
-/
import SqiGen.Isog
import Mathlib.Tactic.Ring
import Mathlib.Tactic.LinearCombination
import Mathlib.Algebra.Field.Defs

namespace SqiProps.C09F
open SqiGen

variable {F : Type} [Field F] [DecidableEq F]

/-! ### degree 2 -/

/-- the kernel generator is mapped to infinity -/
theorem xeval_2_kernel (K : EcPoint F) : (xeval_2_pt K (xisog_2 K).1).z = 0 := by
  simp only [xeval_2_pt, xisog_2]; ring

/-- the emitted codomain (A24' : C24') = (z² - x² : z²) encodes A' = 2(1 - 2α²) -/
theorem xisog_2_codomain (K : EcPoint F) :
    (xisog_2 K).2.x = K.z ^ 2 - K.x ^ 2 ∧ (xisog_2 K).2.z = K.z ^ 2 ∧
    4 * (xisog_2 K).2.x - 2 * (xisog_2 K).2.z = 2 * (K.z ^ 2 - 2 * K.x ^ 2) := by
  simp only [xisog_2]; refine ⟨by ring, by ring, by ring⟩

/-- `xeval_2` is the map x ↦ x(αx - 1)/(x - α), α = x_K/z_K -/
theorem xeval_2_map (K Q : EcPoint F) :
    (xeval_2_pt Q (xisog_2 K).1).x * (Q.z * (K.z * Q.x - K.x * Q.z)) =
    (xeval_2_pt Q (xisog_2 K).1).z * (Q.x * (K.x * Q.x - K.z * Q.z)) := by
  simp only [xeval_2_pt, xisog_2]; ring

theorem xeval_2_infinity (K Q : EcPoint F) (h : Q.z = 0) : (xeval_2_pt Q (xisog_2 K).1).z = 0 := by
  simp only [xeval_2_pt, xisog_2, h]; ring

theorem xeval_2_zero (K Q : EcPoint F) (h : Q.x = 0) : (xeval_2_pt Q (xisog_2 K).1).x = 0 := by
  simp only [xeval_2_pt, xisog_2, h]; ring

/-- φ commutes with doubling: φ(xDBL_E(Q)) = xDBL_E'(φ(Q)) as projective points, when K = (x_K : z_K) is a point of
    order 2 on E, i.e. x_K² + A x_K z_K + z_K² = 0, which in the (A24 : C24) = (A + 2 : 4) encoding reads
    A24 · 4 x_K z_K = - C24 · (x_K - z_K)². -/
theorem xeval_2_dbl_commute (K Q A24 : EcPoint F)
    (hK : A24.x * (4 * K.x * K.z) = - A24.z * (K.x - K.z) ^ 2) :
    (xeval_2_pt (xDBL_A24 Q A24) (xisog_2 K).1).x * (xDBL_A24 (xeval_2_pt Q (xisog_2 K).1) (xisog_2 K).2).z * (4 * K.x * K.z) ^ 2 =
    (xeval_2_pt (xDBL_A24 Q A24) (xisog_2 K).1).z * (xDBL_A24 (xeval_2_pt Q (xisog_2 K).1) (xisog_2 K).2).x * (4 * K.x * K.z) ^ 2 := by
  simp only [xeval_2_pt, xisog_2, xDBL_A24]
  linear_combination (-2048*K.x^4*K.z^2*Q.x^2*Q.z^2*(Q.x - Q.z)^2*(Q.x + Q.z)^2*(4*K.x^3*Q.x^6*Q.z^2*A24.z - 8*K.x^3*Q.x^4*Q.z^4*A24.z + 4*K.x^3*Q.x^2*Q.z^6*A24.z - 8*K.x^2*K.z*Q.x^7*Q.z*A24.z - 16*K.x^2*K.z*Q.x^6*Q.z^2*A24.x + 8*K.x^2*K.z*Q.x^6*Q.z^2*A24.z - 8*K.x^2*K.z*Q.x^5*Q.z^3*A24.z - 32*K.x^2*K.z*Q.x^4*Q.z^4*A24.x + 16*K.x^2*K.z*Q.x^4*Q.z^4*A24.z - 8*K.x^2*K.z*Q.x^3*Q.z^5*A24.z - 16*K.x^2*K.z*Q.x^2*Q.z^6*A24.x + 8*K.x^2*K.z*Q.x^2*Q.z^6*A24.z - 8*K.x^2*K.z*Q.x*Q.z^7*A24.z + K.x*K.z^2*Q.x^8*A24.z + 16*K.x*K.z^2*Q.x^6*Q.z^2*A24.z + 64*K.x*K.z^2*Q.x^5*Q.z^3*A24.x - 32*K.x*K.z^2*Q.x^5*Q.z^3*A24.z + 30*K.x*K.z^2*Q.x^4*Q.z^4*A24.z + 64*K.x*K.z^2*Q.x^3*Q.z^5*A24.x - 32*K.x*K.z^2*Q.x^3*Q.z^5*A24.z + 16*K.x*K.z^2*Q.x^2*Q.z^6*A24.z + K.x*K.z^2*Q.z^8*A24.z - 16*K.z^3*Q.x^5*Q.z^3*A24.z - 64*K.z^3*Q.x^4*Q.z^4*A24.x + 32*K.z^3*Q.x^4*Q.z^4*A24.z - 16*K.z^3*Q.x^3*Q.z^5*A24.z)) * hK

/-! ### degree 4 -/

theorem xeval_4_kernel (K : EcPoint F) (k0 : EcKps4 F) : (xeval_4_pt K (xisog_4 k0 K).1).z = 0 := by
  simp only [xeval_4_pt, xisog_4]; ring

/-- codomain of the 4-isogeny: (A24' : C24') = (z⁴ - x⁴ : z⁴), i.e. A' = 2 - 4α⁴ -/
theorem xisog_4_codomain (K : EcPoint F) (k0 : EcKps4 F) :
    (xisog_4 k0 K).2.x = K.z ^ 4 - K.x ^ 4 ∧ (xisog_4 k0 K).2.z = K.z ^ 4 := by
  simp only [xisog_4]; refine ⟨by ring, by ring⟩

theorem xeval_4_infinity (K Q : EcPoint F) (k0 : EcKps4 F) (h : Q.z = 0) : (xeval_4_pt Q (xisog_4 k0 K).1).z = 0 := by
  simp only [xeval_4_pt, xisog_4, h]; ring

/-! ### singular variants ([2]K = (0,0), i.e. x_K = ± z_K) -/

theorem xeval_4_singular_kernel_eq (K A24 : EcPoint F) (k0 : EcKps4 F) (h : K.x = K.z) :
    (xeval_4_singular_pt K K (xisog_4_singular k0 K A24).1).z = 0 := by
  simp only [xeval_4_singular_pt, xisog_4_singular, h, decide_true, if_true]; ring

theorem xeval_4_singular_kernel_neg (K A24 : EcPoint F) (k0 : EcKps4 F) (h : K.x = -K.z) (hne : K.x ≠ K.z) :
    (xeval_4_singular_pt K K (xisog_4_singular k0 K A24).1).z = 0 := by
  have hd : decide (K.x = K.z) = false := by simp [hne]
  simp only [xeval_4_singular_pt, xisog_4_singular, hd, if_false, Bool.false_eq_true]
  rw [h]; ring

/-- codomain of the singular 4-isogeny: (A24' : C24') = (C24 : A24 - C24) if x_K = z_K, else (C24 : -A24) -/
theorem xisog_4_singular_codomain (K A24 : EcPoint F) (k0 : EcKps4 F) :
    (xisog_4_singular k0 K A24).2.x = A24.z ∧
    (xisog_4_singular k0 K A24).2.z = if K.x = K.z then -(A24.x - A24.z) else A24.x := by
  by_cases h : K.x = K.z
  · simp [xisog_4_singular, h]
  · simp [xisog_4_singular, h]

/-- singular 2-isogeny (kernel (0,0)): (0,0) ↦ ∞ and ∞ ↦ ∞ -/
theorem xeval_2_singular_kernel (kps : EcKps2 F) (Q : EcPoint F) (h : Q.x = 0) :
    (xeval_2_singular_pt Q kps).z = 0 ∧ (xeval_2_singular_pt Q kps).x = Q.z ^ 2 := by
  simp only [xeval_2_singular_pt, h]; refine ⟨by ring, by ring⟩

theorem xeval_2_singular_infinity (kps : EcKps2 F) (Q : EcPoint F) (h : Q.z = 0) :
    (xeval_2_singular_pt Q kps).z = 0 := by
  simp only [xeval_2_singular_pt, h]; ring

end SqiProps.C09F

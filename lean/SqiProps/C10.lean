/-
C10 — canonical 2^f-torsion bases are genuine bases and are reproducible from hints.

Model: SqiModel.Basis (hand model of the hint searches of src/ec/ref/ecx/basis.c, abstract in the field, in the
squareness oracle `sq`, in the curve tests and in α), SqiModel.BasisConcrete (instance over GF(p²) for the three
levels with the tables regenerated from the C sources, run against the C functions by tools/props/c10.py).

What is proved here (for every oracle, every fuel, every hint value):
  * `from_to_hint`            regenerating from the emitted hints gives exactly the same x-coordinates, also beyond
                              the 20 table entries (loop invariant x.re = hint through the nested loops);
  * `to_hint_minimal`         the emitted hints are the least acceptable counters (so they depend only on the
                              oracles, i.e. on the curve);
  * `to_hint_index_safe`, `from_hint_index_safe`   no table read out of bounds for tables of 20 entries and hints ≥ 0;
  * `from_hint_negative_oob`, `from_hint_guard_insufficient`   the C guard `hint < 20` admits negative hints and
                              every negative hint reads outside the table (NEGATION of index safety for `int` hints;
                              replayed under ASan by the check — finding, see notes/C10.md);
  * `difference_point_is_xPmQ_or_xPpQ`   the third point is x(P−Q) for a consistent choice of lifts (field identity);
  * `basis_of_descent_partial`  exact order 2^f, Q above (0,0), independence — from the two named 2-descent
                              hypotheses `Descent0`, `DescentAlpha` in an abstract torsion model (PARTIAL: the descent
                              facts themselves — "x(P) non-square ⇒ [N/2]P ∉ {O,(0,0)}" — are not formalised);
  * `double_abscissa_is_square`, `descent_of_doubling`, `exact_order_of_nonsquare_abscissa`   (round 5) the "≠ O" half of both descent
                              hypotheses is PROVED from the curve equation (abscissa of a double is a square, x − α too) + the group structure;
                              only the identification of the point of order two (`Below0`, `BelowAlpha`) remains hypothetical;
  * `L{1,3,5}_tables`         the decoded tables of the concrete instances have 20 entries, NQR entries are
                              non-squares, Z entries are squares with z−1 a non-square (finite ⇒ `decide +kernel`;
                              the Montgomery-form statement is C18's `L*_nqr_table`).
Full statement of the property that is NOT proved: "for every supersingular (A:C) the C routine returns a basis of
E[2^f]" — needs the curve group, the 2-descent and the x-only ladder (C08); covered by the harness on random curves.
-/
import SqiProofs.Basis
import SqiProofs.BasisAlg
import SqiModel.BasisConcrete
import SqiGen.Ec
import SqiProofs.BasisGen
import Mathlib.Data.ZMod.Basic
import Mathlib.Tactic.NormNum

set_option maxRecDepth 100000

namespace SqiProps.C10
open SqiModel.Basis SqiProofs.Basis SqiModel.BasisConcrete SqiModel.Fp2V

variable {Fp : Type}

/-! ## (i) hint round trip and minimality -/

/-- Regenerating from the emitted hints yields exactly the x-coordinates chosen by the search — for every
    squareness oracle, every curve-test oracle, every α, every table content, every fuel; hints ≥ 20 included. -/
theorem from_to_hint (S : Search Fp) (hA : Add1Small S.E) (hgP : GuardOK S.guardP) (hgQ : GuardOK S.guardQ) (fuel : Nat) (r : Hinted Fp)
    (h : toHint S fuel = .ok r) :
    fromHint S (r.hintP : Int) (r.hintQ : Int) = .ok (r.xP, r.xQ) := by
  unfold toHint at h
  cases hp : naOuter S.E S.ocP S.tab fuel 0 S.junk with
  | oob => simp [hp] at h
  | fuel => simp [hp] at h
  | ok a =>
    obtain ⟨h0, xP⟩ := a
    simp only [hp] at h
    cases hq : abOuter S.E S.ocQ S.mulAlpha S.ztab fuel 0 S.junk S.junk with
    | oob => simp [hq] at h
    | fuel => simp [hq] at h
    | ok b =>
      obtain ⟨h1, xQ⟩ := b
      simp only [hq] at h
      cases h
      obtain ⟨_, c1, _, _⟩ := naOuter_spec S.E hA S.ocP S.tab fuel 0 S.junk h0 xP (by intro hh; unfold NTAB at hh; omega) hp
      obtain ⟨_, c2, _, _⟩ := abOuter_spec S.E hA S.ocQ S.mulAlpha S.ztab fuel 0 S.junk S.junk h1 xQ
        (by intro hh; unfold NTAB at hh; omega) hq
      unfold fromHint
      rw [naFromHint_of_cand S.E S.guardP hgP S.tab h0 xP c1, abFromHint_of_z2 S.E S.guardQ hgQ S.mulAlpha S.ztab h1 xQ c2]

/-- The emitted hints are acceptable and minimal: no smaller counter is acceptable. -/
theorem to_hint_minimal (S : Search Fp) (hA : Add1Small S.E) (fuel : Nat) (r : Hinted Fp)
    (h : toHint S fuel = .ok r) :
    naGood S.E S.ocP S.tab r.hintP = true ∧ (∀ k, k < r.hintP → naGood S.E S.ocP S.tab k = false) ∧
    abGood S.E S.ocQ S.mulAlpha S.ztab r.hintQ = true ∧ (∀ k, k < r.hintQ → abGood S.E S.ocQ S.mulAlpha S.ztab k = false) := by
  unfold toHint at h
  cases hp : naOuter S.E S.ocP S.tab fuel 0 S.junk with
  | oob => simp [hp] at h
  | fuel => simp [hp] at h
  | ok a =>
    obtain ⟨h0, xP⟩ := a
    simp only [hp] at h
    cases hq : abOuter S.E S.ocQ S.mulAlpha S.ztab fuel 0 S.junk S.junk with
    | oob => simp [hq] at h
    | fuel => simp [hq] at h
    | ok b =>
      obtain ⟨h1, xQ⟩ := b
      simp only [hq] at h
      cases h
      obtain ⟨_, _, g1, m1⟩ := naOuter_spec S.E hA S.ocP S.tab fuel 0 S.junk h0 xP (by intro hh; unfold NTAB at hh; omega) hp
      obtain ⟨_, _, g2, m2⟩ := abOuter_spec S.E hA S.ocQ S.mulAlpha S.ztab fuel 0 S.junk S.junk h1 xQ
        (by intro hh; unfold NTAB at hh; omega) hq
      exact ⟨g1, fun k hk => m1 k (Nat.zero_le _) hk, g2, fun k hk => m2 k (Nat.zero_le _) hk⟩

/-- Determinism: two runs whose oracles agree emit the same hints and points whatever the fuel
    (the result is a function of the oracles, i.e. of the curve, not of (A:C)'s representative or of leftovers
    in the uninitialised locals). -/
theorem to_hint_deterministic (S : Search Fp) (hA : Add1Small S.E) (hgP : GuardOK S.guardP) (hgQ : GuardOK S.guardQ) (fuel fuel' : Nat) (junk' : Fp × Fp) (r r' : Hinted Fp)
    (h : toHint S fuel = .ok r) (h' : toHint { S with junk := junk' } fuel' = .ok r') :
    r.hintP = r'.hintP ∧ r.hintQ = r'.hintQ ∧ r.xP = r'.xP ∧ r.xQ = r'.xQ := by
  obtain ⟨g1, m1, g2, m2⟩ := to_hint_minimal S hA fuel r h
  obtain ⟨g1', m1', g2', m2'⟩ := to_hint_minimal { S with junk := junk' } hA fuel' r' h'
  have e1 : r.hintP = r'.hintP := by
    rcases Nat.lt_trichotomy r.hintP r'.hintP with hlt | heq | hgt
    · have := m1' _ hlt; simp_all
    · exact heq
    · have := m1 _ hgt; simp_all
  have e2 : r.hintQ = r'.hintQ := by
    rcases Nat.lt_trichotomy r.hintQ r'.hintQ with hlt | heq | hgt
    · have := m2' _ hlt; simp_all
    · exact heq
    · have := m2 _ hgt; simp_all
  have f1 := from_to_hint S hA hgP hgQ fuel r h
  have f2 := from_to_hint { S with junk := junk' } hA hgP hgQ fuel' r' h'
  have : fromHint { S with junk := junk' } = fromHint S := rfl
  rw [this, ← e1, ← e2, f1] at f2
  have e3 := Res.ok.inj f2
  exact ⟨e1, e2, (Prod.mk.inj e3).1, (Prod.mk.inj e3).2⟩

/-! ## (ii) table-index safety, and its failure for negative C `int` hints -/

theorem readTab_safe (tab : List (Fp × Fp)) (i : Int) (h0 : 0 ≤ i) (h1 : i < tab.length) : readTab tab i ≠ .oob := by
  unfold readTab
  simp only [h0, if_true]
  have : i.toNat < tab.length := by omega
  rw [List.getElem?_eq_getElem this]
  simp

/-- FULL STRENGTH (after fix 6d4be0a): for EVERY pair of C `int` hints — negative ones included — `from_hint` never reads
    outside a table, provided the guards of the two table reads are "0 ≤ hint < 20" (proved for the guards regenerated from
    basis.c in `generated_guards_ok`) and the tables have 20 entries -/
theorem from_hint_index_safe (S : Search Fp) (ht : S.tab.length = NTAB) (hz : S.ztab.length = NTAB)
    (hgP : GuardOK S.guardP) (hgQ : GuardOK S.guardQ) (h0 h1 : Int) : fromHint S h0 h1 ≠ .oob := by
  have na : naFromHint S.E S.guardP S.tab h0 ≠ .oob := by
    unfold naFromHint
    by_cases c0 : S.guardP h0 = true
    · simp only [c0, if_true]
      exact readTab_safe S.tab h0 ((hgP h0).mp c0).1 (by rw [ht]; exact ((hgP h0).mp c0).2)
    · simp [c0]
  have ab : abFromHint S.E S.guardQ S.mulAlpha S.ztab h1 ≠ .oob := by
    unfold abFromHint
    by_cases c1 : S.guardQ h1 = true
    · simp only [c1, if_true]
      have s1 := readTab_safe S.ztab h1 ((hgQ h1).mp c1).1 (by rw [hz]; exact ((hgQ h1).mp c1).2)
      cases e1 : readTab S.ztab h1 with
      | oob => exact absurd e1 s1
      | fuel => simp
      | ok z => simp
    · simp [c1]
  unfold fromHint
  cases e0 : naFromHint S.E S.guardP S.tab h0 with
  | oob => exact absurd e0 na
  | fuel => simp
  | ok x =>
    cases e1 : abFromHint S.E S.guardQ S.mulAlpha S.ztab h1 with
    | oob => exact absurd e1 ab
    | fuel => simp
    | ok y => simp

/-- the searches themselves never read outside tables of 20 entries -/
theorem to_hint_index_safe (S : Search Fp) (ht : S.tab.length = NTAB) (hz : S.ztab.length = NTAB) (fuel : Nat) :
    toHint S fuel ≠ .oob := by
  have na : ∀ (fuel hint : Nat) (x : Fp × Fp), naOuter S.E S.ocP S.tab fuel hint x ≠ .oob := by
    intro fuel
    induction fuel with
    | zero => intro hint x; simp [naOuter]
    | succ n ih =>
      intro hint x
      unfold naOuter
      have inner : ∀ (m h : Nat) (y : Fp × Fp), naInner S.E m h y ≠ .oob := by
        intro m
        induction m with
        | zero => intro h y; simp [naInner]
        | succ k ihk => intro h y; unfold naInner; dsimp only; split <;> simp [ihk]
      by_cases hlt : hint < NTAB
      · simp only [hlt, if_true]
        have s := readTab_safe S.tab (hint : Int) (Int.natCast_nonneg _) (by rw [ht]; exact_mod_cast hlt)
        cases e : readTab S.tab (hint : Int) with
        | oob => exact absurd e s
        | fuel => simp
        | ok t => simp only; split <;> simp [ih]
      · simp only [hlt, if_false]
        generalize hx0 : (if hint = NTAB then (S.E.setSmall (hint - 1), S.E.one) else x) = x0
        cases e : naInner S.E n hint x0 with
        | oob => exact absurd e (inner _ _ _)
        | fuel => simp
        | ok r => obtain ⟨a, b⟩ := r; simp only; split <;> simp [ih]
  have ab : ∀ (fuel hint : Nat) (z1 z2 : Fp × Fp), abOuter S.E S.ocQ S.mulAlpha S.ztab fuel hint z1 z2 ≠ .oob := by
    intro fuel
    induction fuel with
    | zero => intro hint z1 z2; simp [abOuter]
    | succ n ih =>
      intro hint z1 z2
      unfold abOuter
      have inner : ∀ (m h : Nat) (y1 y2 : Fp × Fp), abInner S.E m h y1 y2 ≠ .oob := by
        intro m
        induction m with
        | zero => intro h y1 y2; simp [abInner]
        | succ k ihk => intro h y1 y2; unfold abInner; dsimp only; split <;> simp [ihk]
      by_cases hlt : hint < NTAB
      · simp only [hlt, if_true]
        have s := readTab_safe S.ztab (hint : Int) (Int.natCast_nonneg _) (by rw [hz]; exact_mod_cast hlt)
        cases e : readTab S.ztab (hint : Int) with
        | oob => exact absurd e s
        | fuel => simp
        | ok t => simp only; split <;> simp [ih]
      · simp only [hlt, if_false]
        generalize (if hint = NTAB then (S.E.setSmall (hint - 2), S.E.one) else z1) = y1
        generalize (if hint = NTAB then (S.E.setSmall (hint - 1), S.E.one) else z2) = y2
        cases e : abInner S.E n hint y1 y2 with
        | oob => exact absurd e (inner _ _ _ _)
        | fuel => simp
        | ok r => obtain ⟨a, b, c⟩ := r; simp only; split <;> simp [ih]
  unfold toHint
  cases hp : naOuter S.E S.ocP S.tab fuel 0 S.junk with
  | oob => exact absurd hp (na _ _ _)
  | fuel => simp
  | ok a =>
    obtain ⟨h0, xP⟩ := a
    simp only
    cases hq : abOuter S.E S.ocQ S.mulAlpha S.ztab fuel 0 S.junk S.junk with
    | oob => exact absurd hq (ab _ _ _ _)
    | fuel => simp
    | ok b => simp

/-- the guards re-extracted from the current basis.c (SqiGen.BasisGuard, tie T) are exactly "0 ≤ hint < 20": weakening either
    `if` (e.g. back to `hint < 20`, or to `hint <= 20`) breaks this theorem -/
theorem generated_guards_ok :
    GuardOK (SqiGen.BasisGuard.holds SqiGen.BasisGuard.notAboveFromHint) ∧
    GuardOK (SqiGen.BasisGuard.holds SqiGen.BasisGuard.aboveFromHint) := by
  constructor <;> intro h <;>
    simp only [SqiGen.BasisGuard.holds, SqiGen.BasisGuard.notAboveFromHint, SqiGen.BasisGuard.aboveFromHint, List.all_cons, List.all_nil,
      SqiGen.BasisGuard.atom, Bool.and_true, Bool.and_eq_true, decide_eq_true_eq, NTAB] <;> omega

/-- historical (pinned code before 6d4be0a): with the guard `hint < 20` alone every negative hint read outside the table —
    the model of that code (`guard := fun h => h < 20`) reports `oob` at −1; kept as the regression witness -/
theorem old_guard_negative_oob (S : Search Fp) (h1 : Int) :
    fromHint { S with guardP := fun h => decide (h < (NTAB : Int)) } (-1) h1 = .oob := by
  unfold fromHint naFromHint readTab
  simp [NTAB]

/-! ## (ii') the theorems are about the C text: generated control skeleton = hand model (tie T, tools/translate/basissearch.py)

`SqiGen.BasisSearch` is regenerated on every run from basis.c: loop structure (`for(;;)`, `break`), the `hint < 20` table branch, the fallback
initialisation at `hint == 20`, the `+1` updates of x / z1 / z2, the acceptance tests as calls of the abstract oracles, `hint += 1`, and the
guards of the from_hint routines. `SqiProofs.BasisGen` proves it equal to the hand model, so the statements below hold for the generated code. -/
section Generated
open SqiProofs.BasisGen

theorem guard20_ok : GuardOK guard20 := by
  intro h
  simp only [guard20, Bool.and_eq_true, decide_eq_true_eq, NTAB]
  omega

/-- generated searches = hand model; generated from_hint = hand model with the guard `0 ≤ hint < 20` -/
theorem generated_eq_model (S : Search Fp) (fuel : Nat) (h0 h1 : Int) :
    toHintGen S fuel = toHint S fuel ∧ fromHintGen S h0 h1 = fromHint { S with guardP := guard20, guardQ := guard20 } h0 h1 :=
  ⟨toHintGen_eq S fuel, fromHintGen_eq { S with guardP := guard20, guardQ := guard20 } rfl rfl h0 h1⟩

/-- `from_to_hint` for the code generated from the current basis.c -/
theorem generated_from_to_hint (S : Search Fp) (hA : Add1Small S.E) (fuel : Nat) (r : Hinted Fp)
    (h : toHintGen S fuel = .ok r) : fromHintGen S (r.hintP : Int) (r.hintQ : Int) = .ok (r.xP, r.xQ) := by
  rw [toHintGen_eq] at h
  rw [(generated_eq_model S fuel _ _).2]
  exact from_to_hint { S with guardP := guard20, guardQ := guard20 } hA guard20_ok guard20_ok fuel r h

/-- `to_hint_minimal` for the generated searches -/
theorem generated_to_hint_minimal (S : Search Fp) (hA : Add1Small S.E) (fuel : Nat) (r : Hinted Fp) (h : toHintGen S fuel = .ok r) :
    naGood S.E S.ocP S.tab r.hintP = true ∧ (∀ k, k < r.hintP → naGood S.E S.ocP S.tab k = false) ∧
    abGood S.E S.ocQ S.mulAlpha S.ztab r.hintQ = true ∧ (∀ k, k < r.hintQ → abGood S.E S.ocQ S.mulAlpha S.ztab k = false) := by
  rw [toHintGen_eq] at h
  exact to_hint_minimal S hA fuel r h

/-- `from_hint_index_safe` for the generated from_hint routines: EVERY pair of C `int` hints, tables of 20 entries -/
theorem generated_from_hint_index_safe (S : Search Fp) (ht : S.tab.length = NTAB) (hz : S.ztab.length = NTAB) (h0 h1 : Int) :
    fromHintGen S h0 h1 ≠ .oob := by
  rw [(generated_eq_model S 0 h0 h1).2]
  exact from_hint_index_safe { S with guardP := guard20, guardQ := guard20 } ht hz guard20_ok guard20_ok h0 h1

/-- the generated searches never read outside tables of 20 entries -/
theorem generated_to_hint_index_safe (S : Search Fp) (ht : S.tab.length = NTAB) (hz : S.ztab.length = NTAB) (fuel : Nat) :
    toHintGen S fuel ≠ .oob := by
  rw [toHintGen_eq]; exact to_hint_index_safe S ht hz fuel

/-- the wrappers call the routines in the modelled order -/
theorem generated_wrappers : SqiGen.BasisSearch.wrapperCalls = ["ec_curve_to_point_2f_not_above_montgomery", "ec_curve_to_point_2f_above_montgomery",
    "ec_curve_to_point_2f_not_above_montgomery_from_hint", "ec_curve_to_point_2f_above_montgomery_from_hint"] := wrappers_ok
end Generated

/-! The individual step equalities "generated routine = model routine" (proved in `SqiProofs/BasisGen.lean`), restated here under
the same names so that a change of the C control flow is reported as the failed obligation it breaks. -/
section GeneratedSteps
open SqiGen.BasisSearch
variable {Fp : Type}

theorem na_inner1 (E : Env Fp) (oc : Nat → Fp × Fp → Bool) (tab : List (Fp × Fp)) (n : Nat) (s : St Fp) :
    notAbove_loop1 E oc tab n s = SqiProofs.BasisGen.rmap (fun r => { s with hint := r.1, x := r.2 }) (naInner E n s.hint s.x) :=
  SqiProofs.BasisGen.na_inner1 E oc tab n s

theorem na_inner2 (E : Env Fp) (oc : Nat → Fp × Fp → Bool) (tab : List (Fp × Fp)) (n : Nat) (s : St Fp) :
    notAbove_loop2 E oc tab n s = SqiProofs.BasisGen.rmap (fun r => { s with hint := r.1, x := r.2 }) (naInner E n s.hint s.x) :=
  SqiProofs.BasisGen.na_inner2 E oc tab n s

theorem na_outer (E : Env Fp) (oc : Nat → Fp × Fp → Bool) (tab : List (Fp × Fp)) (n : Nat) (s : St Fp) :
    notAbove_loop0 E oc tab n s = SqiProofs.BasisGen.rmap (fun r => { s with hint := r.1, x := r.2 }) (naOuter E oc tab n s.hint s.x) :=
  SqiProofs.BasisGen.na_outer E oc tab n s

theorem ab_inner1 (E : Env Fp) (oc : Nat → Fp × Fp → Bool) (mulAlpha : Fp × Fp → Fp × Fp) (tab : List (Fp × Fp)) (n : Nat) (s : St Fp) :
    above_loop1 E oc mulAlpha tab n s =
      SqiProofs.BasisGen.rmap (fun r => { s with hint := r.1, z1 := r.2.1, z2 := r.2.2 }) (abInner E n s.hint s.z1 s.z2) :=
  SqiProofs.BasisGen.ab_inner1 E oc mulAlpha tab n s

theorem ab_inner2 (E : Env Fp) (oc : Nat → Fp × Fp → Bool) (mulAlpha : Fp × Fp → Fp × Fp) (tab : List (Fp × Fp)) (n : Nat) (s : St Fp) :
    above_loop2 E oc mulAlpha tab n s =
      SqiProofs.BasisGen.rmap (fun r => { s with hint := r.1, z1 := r.2.1, z2 := r.2.2 }) (abInner E n s.hint s.z1 s.z2) :=
  SqiProofs.BasisGen.ab_inner2 E oc mulAlpha tab n s

theorem ab_outer (E : Env Fp) (oc : Nat → Fp × Fp → Bool) (mulAlpha : Fp × Fp → Fp × Fp) (tab : List (Fp × Fp)) (n : Nat) (s : St Fp) :
    SqiProofs.BasisGen.rmap (fun s' : St Fp => (s'.hint, s'.x)) (above_loop0 E oc mulAlpha tab n s) =
      abOuter E oc mulAlpha tab n s.hint s.z1 s.z2 :=
  SqiProofs.BasisGen.ab_outer E oc mulAlpha tab n s

theorem na_from_hint (E : Env Fp) (tab : List (Fp × Fp)) (hint : Int) :
    notAboveFromHint E tab hint = naFromHint E SqiProofs.BasisGen.guard20 tab hint :=
  SqiProofs.BasisGen.na_from_hint E tab hint

theorem ab_from_hint (E : Env Fp) (mulAlpha : Fp × Fp → Fp × Fp) (tab : List (Fp × Fp)) (hint : Int) :
    aboveFromHint E mulAlpha tab hint = abFromHint E SqiProofs.BasisGen.guard20 mulAlpha tab hint :=
  SqiProofs.BasisGen.ab_from_hint E mulAlpha tab hint
end GeneratedSteps

/-! ## (iii) order / independence from named 2-descent hypotheses (PARTIAL) -/
section Torsion
variable {G : Type} [AddCommGroup G]

/-- 2-descent hypothesis for (0,0): a rational point whose abscissa is a non-square of GF(p²) is not sent into
    {O, (0,0)} by [N/2] (Tate pairing with (0,0) is x mod squares; Frobenius = [−p] on a supersingular curve) -/
def Descent0 (N : ℤ) (T0 : G) (xNonSquare : G → Prop) : Prop :=
  ∀ g, xNonSquare g → (N / 2) • g ≠ 0 ∧ (N / 2) • g ≠ T0

/-- 2-descent hypothesis for the `above` construction: x = z·α with z a square and z−1 a non-square
    (α a root of x²+Ax+1) forces [N/2]Q = (0,0) -/
def DescentAlpha (N : ℤ) (T0 : G) (aboveCond : G → Prop) : Prop :=
  ∀ g, aboveCond g → (N / 2) • g = T0

/-- In any abelian group killed by N = c·2^n: from the two descent hypotheses, the points
    P = [c·2^(n−f)]P₀ and Q = [c·2^(n−f)]Q₀ produced by `clear_cofactor_for_maximal_even_order` satisfy
    2^f P = 2^f Q = 0, [2^(f−1)]Q = (0,0), [2^(f−1)]P ∉ {0,(0,0)}, and aP + bQ = 0 ⇒ 2^f | a, b
    (so P, Q have exact order 2^f and are independent: a basis of the 2^f-torsion when it is (ℤ/2^f)²). -/
theorem basis_of_descent_partial (c : ℤ) (n f : ℕ) (hf1 : 1 ≤ f) (hfn : f ≤ n) (hn : 1 ≤ n)
    (hkill : ∀ g : G, (c * 2 ^ n) • g = 0) (T0 : G) (hT0 : T0 ≠ 0)
    (xNonSquare aboveCond : G → Prop)
    (D0 : Descent0 (c * 2 ^ n) T0 xNonSquare) (Da : DescentAlpha (c * 2 ^ n) T0 aboveCond)
    (P0 Q0 : G) (hP0 : xNonSquare P0) (hQ0 : aboveCond Q0) :
    let P := (c * 2 ^ (n - f)) • P0
    let Q := (c * 2 ^ (n - f)) • Q0
    ((2 : ℤ) ^ f) • P = 0 ∧ ((2 : ℤ) ^ f) • Q = 0 ∧
    ((2 : ℤ) ^ (f - 1)) • Q = T0 ∧ ((2 : ℤ) ^ (f - 1)) • P ≠ 0 ∧ ((2 : ℤ) ^ (f - 1)) • P ≠ T0 ∧
    ∀ a b : ℤ, a • P + b • Q = 0 → ((2 : ℤ) ^ f) ∣ a ∧ ((2 : ℤ) ^ f) ∣ b := by
  intro P Q
  have hN2 : (c * 2 ^ n : ℤ) / 2 = c * 2 ^ (n - 1) := by
    obtain ⟨m, rfl⟩ : ∃ m, n = m + 1 := ⟨n - 1, by omega⟩
    rw [pow_succ, ← mul_assoc, Int.mul_ediv_cancel _ (by decide : (2 : ℤ) ≠ 0)]
    simp
  have e1 : ∀ g : G, ((2 : ℤ) ^ f) • ((c * 2 ^ (n - f)) • g) = (c * 2 ^ n) • g := by
    intro g
    rw [← mul_smul]; congr 1
    have : n = f + (n - f) := by omega
    conv => rhs; rw [this, pow_add]
    ring
  have e2 : ∀ g : G, ((2 : ℤ) ^ (f - 1)) • ((c * 2 ^ (n - f)) • g) = ((c * 2 ^ n : ℤ) / 2) • g := by
    intro g
    rw [hN2, ← mul_smul]; congr 1
    have : n - 1 = (f - 1) + (n - f) := by omega
    conv => rhs; rw [this, pow_add]
    ring
  have hP : ((2 : ℤ) ^ f) • P = 0 := by rw [e1]; exact hkill _
  have hQ : ((2 : ℤ) ^ f) • Q = 0 := by rw [e1]; exact hkill _
  have hTQ : ((2 : ℤ) ^ (f - 1)) • Q = T0 := by rw [e2]; exact Da _ hQ0
  have hTP := D0 _ hP0
  have hTP1 : ((2 : ℤ) ^ (f - 1)) • P ≠ 0 := by rw [e2]; exact hTP.1
  have hTP2 : ((2 : ℤ) ^ (f - 1)) • P ≠ T0 := by rw [e2]; exact hTP.2
  refine ⟨hP, hQ, hTQ, hTP1, hTP2, ?_⟩
  obtain ⟨m, rfl⟩ : ∃ m, f = m + 1 := ⟨f - 1, by omega⟩
  exact SqiProofs.BasisAlg.indep_of_distinct_two_torsion m P Q _ T0 hP hQ rfl hTQ hTP1 hT0 hTP2

/-! ### reduction of the descent hypotheses (round 5)

`Descent0` / `DescentAlpha` each bundle two facts: "[N/2]g ≠ O" and "which point of order two lies below g". The first fact follows
from the curve equation alone: the abscissa of a double is a square, and x − α of a double is a square
(`double_abscissa_is_square` below: field identities over any field of characteristic ≠ 2), plus the group-structure fact that
[N/2]g = O ⇒ g ∈ 2E(K) (true in (ℤ/N)²). What remains as hypotheses is only the identification of the point of order two
(`Below0`, `BelowAlpha`), i.e. the non-degeneracy half of the Tate pairing with (0,0) — not provable from the curve equation alone. -/

/-- from the curve equation, over ANY field of characteristic ≠ 2: for R = (u, v) on y² = x³ + A x² + x with v ≠ 0 and α a root of
    x² + A x + 1, the abscissa of 2R is the square of (u² − 1)/(2v), x(2R) − α is the square of (u² − 2αu + 1)/(2v), and it is the value the
    x-only doubling formula computes -/
theorem double_abscissa_is_square {F : Type} [Field F] (A u v α : F) (h2 : (2 : F) ≠ 0) (hv : v ≠ 0)
    (hc : v ^ 2 = u ^ 3 + A * u ^ 2 + u) (hα : α ^ 2 + A * α + 1 = 0) :
    SqiProofs.BasisAlg.dblX A u v = ((u ^ 2 - 1) / (2 * v)) ^ 2 ∧
    SqiProofs.BasisAlg.dblX A u v - α = ((u ^ 2 - 2 * α * u + 1) / (2 * v)) ^ 2 ∧
    SqiProofs.BasisAlg.dblX A u v = (u ^ 2 - 1) ^ 2 / (4 * u * (u ^ 2 + A * u + 1)) :=
  ⟨SqiProofs.BasisAlg.dblX_is_square A u v h2 hv hc, SqiProofs.BasisAlg.dblX_sub_alpha_is_square A u v α h2 hv hc hα,
   SqiProofs.BasisAlg.dblX_eq_xonly A u v h2 hv hc⟩

/-- the point of order two below a point with non-square abscissa is not (0,0) -/
def Below0 (N : ℤ) (T0 : G) (xSq : G → Prop) : Prop := ∀ g, ¬ xSq g → (N / 2) • g ≠ T0
/-- x square and x − α non-square ⇒ the point of order two below (if any) is (0,0) -/
def BelowAlpha (N : ℤ) (T0 : G) (xSq xaSq : G → Prop) : Prop := ∀ g, xSq g → ¬ xaSq g → ((N / 2) • g = 0 ∨ (N / 2) • g = T0)

/-- the two original hypotheses follow from: doubles have square x and square x − α (proved from the curve equation),
    [N/2]g = O ⇒ g is a double (group structure (ℤ/N)²), and the two identification hypotheses -/
theorem descent_of_doubling (N : ℤ) (T0 : G) (xSq xaSq : G → Prop)
    (hdbl : ∀ r : G, xSq ((2 : ℤ) • r) ∧ xaSq ((2 : ℤ) • r))
    (hstruct : ∀ g : G, (N / 2) • g = 0 → ∃ r, g = (2 : ℤ) • r)
    (B0 : Below0 N T0 xSq) (Ba : BelowAlpha N T0 xSq xaSq) :
    Descent0 N T0 (fun g => ¬ xSq g) ∧ DescentAlpha N T0 (fun g => xSq g ∧ ¬ xaSq g) := by
  constructor
  · intro g hg
    refine ⟨?_, B0 g hg⟩
    intro h0
    obtain ⟨r, rfl⟩ := hstruct g h0
    exact hg (hdbl r).1
  · intro g ⟨hs, ha⟩
    rcases Ba g hs ha with h0 | hT
    · obtain ⟨r, rfl⟩ := hstruct g h0
      exact absurd (hdbl r).2 ha
    · exact hT

/-- exact order 2^f of the cleared point WITHOUT any descent hypothesis: x(P₀) non-square, doubles have square abscissa (curve equation),
    [N/2]g = O ⇒ g ∈ 2E(K) -/
theorem exact_order_of_nonsquare_abscissa (c : ℤ) (n f : ℕ) (hf1 : 1 ≤ f) (hfn : f ≤ n)
    (hkill : ∀ g : G, (c * 2 ^ n) • g = 0) (xSq : G → Prop)
    (hdbl : ∀ r : G, xSq ((2 : ℤ) • r)) (hstruct : ∀ g : G, ((c * 2 ^ n) / 2) • g = 0 → ∃ r, g = (2 : ℤ) • r)
    (P0 : G) (hP0 : ¬ xSq P0) :
    ((2 : ℤ) ^ f) • ((c * 2 ^ (n - f)) • P0) = 0 ∧ ((2 : ℤ) ^ (f - 1)) • ((c * 2 ^ (n - f)) • P0) ≠ 0 := by
  have hn : 1 ≤ n := le_trans hf1 hfn
  have hN2 : (c * 2 ^ n : ℤ) / 2 = c * 2 ^ (n - 1) := by
    obtain ⟨m, rfl⟩ : ∃ m, n = m + 1 := ⟨n - 1, by omega⟩
    rw [pow_succ, ← mul_assoc, Int.mul_ediv_cancel _ (by decide : (2 : ℤ) ≠ 0)]
    simp
  constructor
  · rw [← mul_smul]
    have : (2 : ℤ) ^ f * (c * 2 ^ (n - f)) = c * 2 ^ n := by
      have hh : n = f + (n - f) := by omega
      conv => rhs; rw [hh, pow_add]
      ring
    rw [this]; exact hkill _
  · rw [← mul_smul]
    have : (2 : ℤ) ^ (f - 1) * (c * 2 ^ (n - f)) = (c * 2 ^ n) / 2 := by
      rw [hN2]
      have hh : n - 1 = (f - 1) + (n - f) := by omega
      conv => rhs; rw [hh, pow_add]
      ring
    rw [this]
    intro h0
    obtain ⟨r, rfl⟩ := hstruct P0 h0
    exact hP0 (hdbl r)

/-- non-vacuity: in G = ℤ/8 × ℤ/8 (N = 8, c = 1, n = 3, f = 2) with T0 = (0,4), P₀ = (1,0), Q₀ = (0,1) the descent
    hypotheses hold for the predicates "= P₀" / "= Q₀" -/
example : Descent0 (G := ZMod 8 × ZMod 8) (1 * 2 ^ 3) ((0, 4)) (fun g => g = (1, 0)) ∧
    DescentAlpha (G := ZMod 8 × ZMod 8) (1 * 2 ^ 3) ((0, 4)) (fun g => g = (0, 1)) := by
  constructor
  · intro g hg; subst hg; decide
  · intro g hg; subst hg; decide
end Torsion

/-! ## (iv) difference_point -/

/-- `difference_point` (basis.c): for affine P = (xP, yP), Q = (xQ, yQ) on y² = x³ + A x² + x with xP ≠ xQ, and
    `s` ANY square root of the radicand (whatever sign `fp2_sqrt` picks), the returned (X : Z) = (s + t1 : (xP−xQ)²)
    is the abscissa of P−Q or of P+Q = P−(−Q): x(P−Q) for a consistent choice of lifts of the x-only points. -/
theorem difference_point_is_xPmQ_or_xPpQ {F : Type} [Field F] (A xP yP xQ yQ s : F) (hne : xP ≠ xQ)
    (hP : yP ^ 2 = xP ^ 3 + A * xP ^ 2 + xP) (hQ : yQ ^ 2 = xQ ^ 3 + A * xQ ^ 2 + xQ)
    (hs : s ^ 2 = SqiProofs.BasisAlg.diffRad A xP xQ) :
    (s + SqiProofs.BasisAlg.diffT1 A xP xQ) / SqiProofs.BasisAlg.diffZ xP xQ
        = ((yQ - yP) / (xQ - xP)) ^ 2 - A - xP - xQ ∨
    (s + SqiProofs.BasisAlg.diffT1 A xP xQ) / SqiProofs.BasisAlg.diffZ xP xQ
        = ((-yQ - yP) / (xQ - xP)) ^ 2 - A - xP - xQ :=
  SqiProofs.BasisAlg.difference_point_affine A xP yP xQ yQ s hne hP hQ hs

/-- tie T: the definition regenerated from basis.c (`SqiGen.difference_point`, a2's translator) computes exactly the
    quantities of the theorem above on normalised inputs (z = 1, C = 1): X = sqrt(radicand) + t1, Z = (xP − xQ)² -/
theorem difference_point_generated {F : Type} [Field F] (sqrt : F → F) (A xP xQ : F) (E : SqiGen.EcCurve F) (hA : E.A = A) :
    SqiGen.difference_point sqrt ⟨xP, 1⟩ ⟨xQ, 1⟩ E
      = ⟨sqrt (SqiProofs.BasisAlg.diffRad A xP xQ) + SqiProofs.BasisAlg.diffT1 A xP xQ, SqiProofs.BasisAlg.diffZ xP xQ⟩ := by
  unfold SqiGen.difference_point SqiProofs.BasisAlg.diffRad SqiProofs.BasisAlg.diffT1 SqiProofs.BasisAlg.diffZ
  subst hA
  simp only
  have e1 : ((xP * xQ + 1) * (xP + xQ) + (xP * xQ * E.A + xP * xQ * E.A)) * ((xP * xQ + 1) * (xP + xQ) + (xP * xQ * E.A + xP * xQ * E.A)) - (xP - xQ) * (xP * xQ - 1) * ((xP - xQ) * (xP * xQ - 1))
      = ((xP * xQ + 1) * (xP + xQ) + (xP * xQ * E.A + xP * xQ * E.A)) ^ 2 - ((xP - xQ) * (xP * xQ - 1)) ^ 2 := by ring
  rw [e1]
  congr 1
  ring

/-- non-vacuity over ℚ: the curve y² = x³ + 2x² + x (A = 2) … P = (1, 2), Q = (4, 10): radicand = 1600 = 40² -/
example : ((2 : ℚ) ^ 2 = 1 ^ 3 + 2 * 1 ^ 2 + 1) ∧ ((10 : ℚ) ^ 2 = 4 ^ 3 + 2 * 4 ^ 2 + 4) ∧
    ((40 : ℚ) ^ 2 = SqiProofs.BasisAlg.diffRad 2 1 4) := by
  unfold SqiProofs.BasisAlg.diffRad SqiProofs.BasisAlg.diffT1; norm_num

/-! ## (v) the concrete instances: GF(p) arithmetic hypothesis and table facts (finite ⇒ kernel decide) -/

/-- the concrete GF(p) environment satisfies the only arithmetic hypothesis of the round trip -/
theorem env_add1small (p : Nat) : Add1Small (env p) := by
  intro n
  show fadd p (n % p) (1 % p) = (n + 1) % p
  unfold fadd
  rw [← Nat.add_mod]

theorem search_add1small (p nwords : Nat) (t z : List F2) (A C : F2) (fP fQ : Nat) :
    Add1Small (search p nwords t z A C fP fQ).E := env_add1small p

def tablesOK (p : Nat) (tab ztab : List F2) : Bool :=
  tab.length == NTAB && ztab.length == NTAB &&
  tab.all (fun x => !f2IsSquare p x) &&
  ztab.all (fun z => f2IsSquare p z && !f2IsSquare p (f2sub p z (1, 0)))

/-- the tables of every concrete search are the decoded C tables, whatever the curve and the hook setting -/
theorem search_tables (p nwords : Nat) (t z : List F2) (A C : F2) (fP fQ : Nat) :
    (search p nwords t z A C fP fQ).tab = decodeTab p nwords t ∧
    (search p nwords t z A C fP fQ).ztab = decodeTab p nwords z := ⟨rfl, rfl⟩

theorem L1_tables : tablesOK SqiGen.L1.FP_p
    (decodeTab SqiGen.L1.FP_p SqiGen.L1.D_NWORDS_FIELD SqiGen.L1.W64.NQR_TABLE)
    (decodeTab SqiGen.L1.FP_p SqiGen.L1.D_NWORDS_FIELD SqiGen.L1.W64.Z_NQR_TABLE) = true := by decide +kernel
theorem L3_tables : tablesOK SqiGen.L3.FP_p
    (decodeTab SqiGen.L3.FP_p SqiGen.L3.D_NWORDS_FIELD SqiGen.L3.W64.NQR_TABLE)
    (decodeTab SqiGen.L3.FP_p SqiGen.L3.D_NWORDS_FIELD SqiGen.L3.W64.Z_NQR_TABLE) = true := by decide +kernel
theorem L5_tables : tablesOK SqiGen.L5.FP_p
    (decodeTab SqiGen.L5.FP_p SqiGen.L5.D_NWORDS_FIELD SqiGen.L5.W64.NQR_TABLE)
    (decodeTab SqiGen.L5.FP_p SqiGen.L5.D_NWORDS_FIELD SqiGen.L5.W64.Z_NQR_TABLE) = true := by decide +kernel

theorem search_guards (p nwords : Nat) (t z : List F2) (A C : F2) (fP fQ : Nat) :
    GuardOK (search p nwords t z A C fP fQ).guardP ∧ GuardOK (search p nwords t z A C fP fQ).guardQ := generated_guards_ok

/-- level 1, every curve, every pair of C `int` hints: no out-of-bounds table read in from_hint (similarly levels 3, 5) -/
theorem L1_from_hint_index_safe (A C : F2) (h0 h1 : Int) :
    fromHint (search SqiGen.L1.FP_p SqiGen.L1.D_NWORDS_FIELD SqiGen.L1.W64.NQR_TABLE SqiGen.L1.W64.Z_NQR_TABLE A C 0 0) h0 h1 ≠ .oob := by
  have h := L1_tables
  unfold tablesOK at h
  simp only [Bool.and_eq_true, beq_iff_eq] at h
  exact from_hint_index_safe _ h.1.1.1 h.1.1.2 generated_guards_ok.1 generated_guards_ok.2 h0 h1

/-- hence the index-safety hypotheses hold for every level-1 search (similarly levels 3, 5) -/
theorem L1_search_index_safe (A C : F2) (fP fQ fuel : Nat) :
    toHint (search SqiGen.L1.FP_p SqiGen.L1.D_NWORDS_FIELD SqiGen.L1.W64.NQR_TABLE SqiGen.L1.W64.Z_NQR_TABLE A C fP fQ) fuel ≠ .oob := by
  have h := L1_tables
  unfold tablesOK at h
  simp only [Bool.and_eq_true, beq_iff_eq] at h
  exact to_hint_index_safe _ h.1.1.1 h.1.1.2 fuel

/-- non-vacuity of `from_to_hint` / `to_hint_minimal`: on E0 (A = 0, C = 1) at level 1 the search terminates with
    hints (1, 0); with the first 20 candidates of both searches forced to fail it terminates beyond the tables -/
example : (match toHint (search SqiGen.L1.FP_p SqiGen.L1.D_NWORDS_FIELD SqiGen.L1.W64.NQR_TABLE SqiGen.L1.W64.Z_NQR_TABLE (0,0) (1,0) 0 0) 50 with
    | .ok r => r.hintP == 1 && r.hintQ == 0 | _ => false) = true := by decide +kernel
example : (match toHint (search SqiGen.L1.FP_p SqiGen.L1.D_NWORDS_FIELD SqiGen.L1.W64.NQR_TABLE SqiGen.L1.W64.Z_NQR_TABLE (0,0) (1,0) 20 20) 100 with
    | .ok r => decide (20 ≤ r.hintP) && decide (20 ≤ r.hintQ) | _ => false) = true := by decide +kernel

end SqiProps.C10

/-
C11 — Weil pairing bilinear / non-degenerate; torsion discrete logs exact; change of basis.

Proved here (unbounded in e, in the group, in the ring, in the matrix):
  * `dlog_2e_correct`   the model of `fp2_dlog_2e` (balanced recursion with shared power stacks, as coded) returns a
                        on (g^a, g) for g of exact order 2^e in ANY commutative group, every e, every a < 2^e;
  * `dlog_2e_sound`, `dlog_2e_none`   it never returns a wrong exponent; it fails when f ∉ ⟨g⟩;
  * `dlog_stack_bound`  every stack index touched by the recursion is < the size `log` of the C arrays;
  * `dlog_2e_zmod`      bridge to the matrix layer: in μ_{2^e} ≅ ZMod (2^e) (additive), the dlog of ζ^(a·δ) in base ζ^δ is a;
  * `pairing_bilinear_alternating`   in the torsion model (R × R, pairing = ζ^det): e(aP+bQ, cP+dQ) = e(P,Q)^(ad−bc), e(U,U) = 1,
                        e(U,W) = e(W,U)⁻¹;
  * `change_of_basis_after_application`   `matrix_application_even_basis` then `change_of_basis_matrix_two` gives back
                        the matrix up to the global sign, for every matrix (also singular), every basis with unit pairing,
                        every sign choice of the lifts (incl. the conditional negation of the second column);
  * `cubicalADD_is_xADD`, `cubicalDBL_is_xDBL`   the generated (tie T) cubical formulas are xADD / xDBL up to the stated
                        projective factor 1/x(P−Q) resp. 1.
NOT formalised (PARTIAL): "the monodromy ratio computed by `weil` equals the Weil pairing" (biextension theory). The
relations of the real `weil` (bilinearity, alternation, exact order, e(aP+bQ,cP+dQ) = e(P,Q)^(ad−bc), compatibility
with `fp2_dlog_2e`) are checked by tools/props/c11.py on random bases.
-/
import SqiProofs.Dlog
import SqiProofs.DlogGen
import SqiProofs.PairingMat
import SqiGen.Isog
import SqiGen.A24Cache
import Mathlib.Data.ZMod.Basic
import Mathlib.Algebra.Group.TypeTags.Basic

namespace SqiProps.C11
open SqiModel.Dlog

/-! ## discrete logarithm -/
section
variable {H : Type} [CommGroup H] [DecidableEq H]

theorem dlog_2e_correct (g : H) (e : ℕ) (hg : g ^ (2 ^ e) = 1) (hord : ∀ k, k < 2 ^ e → g ^ k = 1 → k = 0)
    (a : ℕ) (ha : a < 2 ^ e) : dlog2e (· * ·) 1 (·⁻¹) (g ^ a) g e = some a :=
  SqiProofs.Dlog.dlog_2e_correct g e hg hord a ha

/-- same, with the hypothesis in the form a tester checks: g^(2^e) = 1 and g^(2^(e−1)) ≠ 1 -/
theorem dlog_2e_correct_exact_order (g : H) (e : ℕ) (he : 1 ≤ e) (hg : g ^ (2 ^ e) = 1) (hne : g ^ (2 ^ (e - 1)) ≠ 1)
    (a : ℕ) (ha : a < 2 ^ e) : dlog2e (· * ·) 1 (·⁻¹) (g ^ a) g e = some a :=
  SqiProofs.Dlog.dlog_2e_correct g e hg (SqiProofs.Dlog.inj_of_exact_order g e he hg hne) a ha

theorem dlog_2e_sound (f g : H) (e : ℕ) (he : 1 ≤ e) (hg : g ^ (2 ^ e) = 1) (a : ℕ)
    (h : dlog2e (· * ·) 1 (·⁻¹) f g e = some a) : a < 2 ^ e ∧ f = g ^ a :=
  SqiProofs.Dlog.dlog_2e_sound f g e he hg a h

theorem dlog_2e_none (f g : H) (e : ℕ) (he : 1 ≤ e) (hg : g ^ (2 ^ e) = 1) (hf : ∀ a, f ≠ g ^ a) :
    dlog2e (· * ·) 1 (·⁻¹) f g e = none :=
  SqiProofs.Dlog.dlog_2e_none f g e he hg hf
end

/-! ### the theorems are about the C text (tie T, tools/translate/dlogrec.py): the recursion regenerated from biextension.c — case split on `len`,
the leaf tests and updates, split sizes, push and squarings, the two recursive calls with their stack positions, the combination — is proved
equal to the model (`SqiProofs.DlogGen.dlogRecGen_eq`), so: -/
section GeneratedDlog
variable {H : Type} [CommGroup H] [DecidableEq H]
open SqiGen.DlogRec

/-- the recursion generated from the current `fp2_dlog_2e_rec` is the modelled one (proved in `SqiProofs/DlogGen.lean`; restated under the
same name so that a change of the C recursion is reported as the failed obligation it breaks) -/
theorem dlogRecGen_eq {M : Type} [DecidableEq M] (mul : M → M → M) (one : M) (len : Nat) (top : M × M) (below : List (M × M)) :
    dlogRecGen mul one len top below = dlogRec mul one len top below := SqiProofs.DlogGen.dlogRecGen_eq mul one len top below

theorem generated_dlog_eq_model (f g : H) (e : ℕ) :
    dlog2eGen (· * ·) 1 (·⁻¹) f g e = dlog2e (· * ·) 1 (·⁻¹) f g e := SqiProofs.DlogGen.dlog2eGen_eq _ _ _ f g e

/-- `dlog_2e_correct` for the code generated from the current `fp2_dlog_2e_rec` / `fp2_dlog_2e` -/
theorem generated_dlog_2e_correct (g : H) (e : ℕ) (hg : g ^ (2 ^ e) = 1) (hord : ∀ k, k < 2 ^ e → g ^ k = 1 → k = 0)
    (a : ℕ) (ha : a < 2 ^ e) : dlog2eGen (· * ·) 1 (·⁻¹) (g ^ a) g e = some a := by
  rw [generated_dlog_eq_model]; exact SqiProofs.Dlog.dlog_2e_correct g e hg hord a ha

theorem generated_dlog_2e_sound (f g : H) (e : ℕ) (he : 1 ≤ e) (hg : g ^ (2 ^ e) = 1) (a : ℕ)
    (h : dlog2eGen (· * ·) 1 (·⁻¹) f g e = some a) : a < 2 ^ e ∧ f = g ^ a := by
  rw [generated_dlog_eq_model] at h; exact SqiProofs.Dlog.dlog_2e_sound f g e he hg a h

theorem generated_dlog_2e_none (f g : H) (e : ℕ) (he : 1 ≤ e) (hg : g ^ (2 ^ e) = 1) (hf : ∀ a, f ≠ g ^ a) :
    dlog2eGen (· * ·) 1 (·⁻¹) f g e = none := by
  rw [generated_dlog_eq_model]; exact SqiProofs.Dlog.dlog_2e_none f g e he hg hf

/-- the stack-size computation of `fp2_dlog_2e` is the modelled one (`stackSize e = ⌊log₂ e⌋ + 1`, theorem `dlog_stack_bound`) -/
theorem generated_stack_size_text :
    stackSizeText = "for (log = 0; len > 1; len >>= 1) log++; log += 1; fp2_t pows_f[log], pows_g[log]" := rfl
end GeneratedDlog

/-- non-vacuity: in μ_8 ≅ Multiplicative (ZMod 8), g = ζ has exact order 2^3 and the model finds log(ζ^5) = 5 -/
example : dlog2e (M := Multiplicative (ZMod 8)) (· * ·) 1 (·⁻¹) ((Multiplicative.ofAdd 1) ^ 5) (Multiplicative.ofAdd 1) 3 = some 5 :=
  dlog_2e_correct_exact_order _ 3 (by decide) (by decide) (by decide) 5 (by decide)

/-- every index of `pows_f` / `pows_g` touched by `fp2_dlog_2e_rec` started at stacklen = 1 is below the array size `log` -/
theorem dlog_stack_bound (e : ℕ) : maxIndex e 1 < stackSize e := by
  have key : ∀ (len s k : ℕ), 1 ≤ s → len < 2 ^ (k + 1) → maxIndex len s ≤ s - 1 + k := by
    intro len
    induction len using Nat.strong_induction_on with
    | _ len ih =>
      intro s k hs hlt
      rw [maxIndex]
      by_cases h1 : len ≤ 1
      · simp only [h1, if_true]; omega
      · simp only [h1, if_false]
        have hk : 1 ≤ k := by
          rcases Nat.eq_zero_or_pos k with rfl | hk
          · simp at hlt; omega
          · exact hk
        obtain ⟨k', rfl⟩ : ∃ k', k = k' + 1 := ⟨k - 1, by omega⟩
        have hr : len / 2 < 2 ^ (k' + 1) := by
          rw [Nat.div_lt_iff_lt_mul (by decide)]; rw [pow_succ] at hlt; exact hlt
        have i1 := ih (len / 2) (by omega) (s + 1) k' (by omega) hr
        have i2 := ih (len - len / 2) (by omega) s (k' + 1) hs (by omega)
        simp only [Nat.max_le]
        omega
  have := key e 1 e.log2 (by omega) Nat.lt_log2_self
  unfold stackSize; omega

/-- bridge between the two layers: μ_{2^e} written additively is ZMod (2^e); for a unit δ (= exponent of the reference
    pairing e(P,Q)) the recursion recovers a from ζ^(a·δ) -/
theorem dlog_2e_zmod (e : ℕ) (δ : ZMod (2 ^ e)) (hδ : IsUnit δ) (a : ℕ) (ha : a < 2 ^ e) :
    dlog2e (M := Multiplicative (ZMod (2 ^ e))) (· * ·) 1 (·⁻¹)
      (Multiplicative.ofAdd ((a : ZMod (2 ^ e)) * δ)) (Multiplicative.ofAdd δ) e = some a := by
  have hpow : ∀ k : ℕ, (Multiplicative.ofAdd δ) ^ k = Multiplicative.ofAdd ((k : ZMod (2 ^ e)) * δ) := by
    intro k; rw [← ofAdd_nsmul, nsmul_eq_mul]
  have hg : (Multiplicative.ofAdd δ) ^ (2 ^ e) = 1 := by
    rw [hpow]
    have : ((2 ^ e : ℕ) : ZMod (2 ^ e)) = 0 := ZMod.natCast_self _
    rw [this, zero_mul]; rfl
  have hord : ∀ k, k < 2 ^ e → (Multiplicative.ofAdd δ) ^ k = 1 → k = 0 := by
    intro k hk hk1
    rw [hpow] at hk1
    have h0 : (k : ZMod (2 ^ e)) * δ = 0 := hk1
    have h1 : (k : ZMod (2 ^ e)) = 0 := by
      obtain ⟨u, rfl⟩ := hδ
      simpa using congrArg (· * (↑u⁻¹ : ZMod (2 ^ e))) h0
    have hdvd : 2 ^ e ∣ k := (ZMod.natCast_eq_zero_iff k (2 ^ e)).mp h1
    exact Nat.eq_zero_of_dvd_of_lt hdvd hk
  have := SqiProofs.Dlog.dlog_2e_correct (Multiplicative.ofAdd δ) e hg hord a ha
  rw [hpow] at this
  exact this

/-! ## matrix layer -/
section
open SqiProofs.PairingMat
variable {R : Type} [CommRing R] [DecidableEq R]

theorem pairing_bilinear_alternating (a b c d : R) (P Q U W : V R) :
    det (lin a b P Q) (lin c d P Q) = (a * d - b * c) * det P Q ∧ det U U = 0 ∧ det U W = - det W U :=
  ⟨det_lin_lin a b c d P Q, det_self U, det_swap U W⟩

theorem change_of_basis_after_application (δinv : R) (P Q : V R) (hδ : det P Q * δinv = 1) (M : Mat R)
    (s1 s2 : R) (hs1 : s1 = 1 ∨ s1 = -1) (hs2 : s2 = 1 ∨ s2 = -1) :
    let B1 := applyMat M P Q
    let res := changeOfBasis δinv P Q (smulV s1 B1.1) (smulV s2 B1.2.1) B1.2.2
    res = M ∨ res = M.neg :=
  SqiProofs.PairingMat.change_of_basis_after_application δinv P Q hδ M s1 s2 hs1 hs2

/-- non-vacuity: R = ZMod 8, standard basis (pairing 1), a singular matrix and inconsistent lift signs -/
example : det ((1, 0) : V (ZMod 8)) (0, 1) * 1 = 1 ∧
    (changeOfBasis (1 : ZMod 8) (1, 0) (0, 1) (smulV 1 (applyMat ⟨2, 4, 6, 4⟩ (1, 0) (0, 1)).1)
      (smulV (-1) (applyMat ⟨2, 4, 6, 4⟩ (1, 0) (0, 1)).2.1) (applyMat ⟨2, 4, 6, 4⟩ (1, 0) (0, 1)).2.2 = ⟨2, 4, 6, 4⟩) := by
  decide
end

/-! ## cubical arithmetic (generated definitions, tie T) -/
section
variable {F : Type} [Field F]

/-- `cubicalADD(P, Q, 1/x(P−Q))` is `xADD(P, Q, (x(P−Q) : 1))` scaled by the projective factor 1/x(P−Q) -/
theorem cubicalADD_is_xADD (P Q : SqiGen.EcPoint F) (xPQ ixPQ : F) (h : xPQ * ixPQ = 1) :
    xPQ * (SqiGen.cubicalADD P Q ixPQ).x = (SqiGen.xADD P Q ⟨xPQ, 1⟩).x ∧
    xPQ * (SqiGen.cubicalADD P Q ixPQ).z = (SqiGen.xADD P Q ⟨xPQ, 1⟩).z := by
  unfold SqiGen.cubicalADD SqiGen.xADD
  constructor
  · simp only
    linear_combination (((P.x + P.z) * (Q.x - Q.z) + (P.x - P.z) * (Q.x + Q.z)) * ((P.x + P.z) * (Q.x - Q.z) + (P.x - P.z) * (Q.x + Q.z))) * h
  · simp only <;> try ring

/-- `cubicalDBL` with a normalised A24 = (a24 : 1) is exactly `xDBL_A24` (factor 1) -/
theorem cubicalDBL_is_xDBL (P : SqiGen.EcPoint F) (a24 : F) :
    SqiGen.cubicalDBL P ⟨a24, 1⟩ = SqiGen.xDBL_A24 P ⟨a24, 1⟩ := by
  unfold SqiGen.cubicalDBL SqiGen.xDBL_A24
  simp only [mul_one]
end

/-! ## the A24 cache of `ec_curve_t` (tie T, tools/translate/a24cache.py)

`ec_curve_t.A24` is meaningful only after `ec_curve_normalize_A24` set `is_A24_computed_and_normalized`. In the model a function
that reads the cache of a curve it did not normalise itself is a fault unless it is on this audited list (static helpers /
documented preconditions, each checked by hand: callers normalise first). The pairing / dlog entry points (`weil`,
`ec_dlog_2_weil`, `change_of_basis_matrix_two`, `matrix_application_even_basis`) must NOT be on it: they recompute A24 from
(A : C) (`A24_from_AC`) or normalise a private copy, so their results cannot depend on the cache state of the caller's struct
(checked on every run by the harness in four cache states). -/
def auditedA24Readers : List (String × String × String) := [
  ("src/ec/ref/ecx/basis.c", "clear_cofactor_for_maximal_even_order", "curve"),
  ("src/ec/ref/ecx/ec.c", "ec_ladder3pt", "A"),
  ("src/sqisigndim2_heuristic/ref/sqisigndim2_heuristicx/sign.c", "protocols_sign", "sk->curve"),
  ("src/sqisignhd/ref/sqisignhdx/sign.c", "protocols_sign", "sk->curve")
]

theorem a24_cache_readers_audited : SqiGen.A24Cache.unguardedReaders = auditedA24Readers := by decide +kernel

end SqiProps.C11

/-
C12 — (2,2)-isogeny chains between elliptic products: traversal theorems.

Model: `SqiModel.ThetaChain` — C-shaped loop model of `theta_chain_comput_strategy` and
`theta_chain_comput_strategy_faster_no_eval` (identical traversal; src/hd/ref/hdx/theta_isogenies.c) over
order-tracking semantics, tied to the C on every run by the hook trace correspondence (tools/props/c12.py: every
table row × both routines × both modes in the thorough tier) and by the end-to-end harness.
Tables: `SqiGen.L{1,3,5}.strategies` regenerated from the C headers on every run (tie T); their validity is
C18's `L*_strategies_rows`.

Proved for ALL chain lengths and ALL valid strategies, both `eight_above` modes (induction over the strategy tree
through its left-spine / forest decomposition):
  * `chain_strategy_sound`: no out-of-bounds access of `points1/2[n]`, `Q1/2[n]`, `level[n]`, `steps[n-1]`,
    exactly L-1 strategy entries read (never the padding; the `index < n+10` guard never fires), the gluing kernel
    and every generic kernel pair have exponent exactly 3 (order 8 = the 8-torsion above the 2-torsion kernel),
    in the `eight_above = 0` mode the last two kernels have exponent 2 and 1 (order 4, 2), exactly n steps.
  * per level: every row of `strategies` drives both modes in bounds (`L*_theta_rows_sound`), and the callers'
    row index `TORSION_PLUS_EVEN_POWER - length (+2)` is inside the table exactly for the stated range.
  * `balanced_rec_sound`, `balanced_stack_bound`, `balanced_chain_sound`: the balanced recursion for every length —
    in particular the stack `10·log2(n−3)+1` of `theta_chain_comput_balanced` is never exceeded.
That the theta formulas compute the (2,2)-isogeny with the given kernel (Kani / theta theory) is not formalised:
partial (see notes/C12.md).
-/
import SqiProofs.ThetaChain
import SqiProofs.ThetaBalanced
import SqiModel.SkelTheta
import SqiProofs.SkelThetaSim
import SqiProofs.SkelThetaFSim
import SqiProofs.SkelThetaConv
import SqiProofs.SkelThetaFConv
import SqiModel.SkelRec
import SqiProofs.SkelRecSim
import SqiProofs.BalCaller
import SqiProps.C18

set_option maxRecDepth 100000

namespace SqiProps.C12
open SqiModel SqiModel.ThetaChain SqiProofs.ThetaChain

/-- **Traversal theorem** (all n, all valid strategies, both modes). `L = n - adjusting` is the number of leaves
    (steps governed by the strategy); the hypotheses `2 ≤ L` excludes exactly the degenerate lengths for which the
    C indexes `steps[-1]` (see `short_chain_faults`). -/
theorem chain_strategy_sound (P : Params) (t pad : List Nat) (hrow : P.row = t ++ pad) (hL : 2 ≤ P.n - P.adj)
    (hs : Strat (P.n - P.adj) t) :
    (chain P).err = none ∧ (chain P).index = P.n - P.adj - 1 ∧
    (chain P).trace.all (evOk P.n (P.n - P.adj - 1)) = true ∧ stepSum (chain P).trace = P.n :=
  chain_sound P t pad hrow hL hs

/-- non-vacuity: n = 7 without the 8-torsion above (5 leaves), strategy [2,1,1,1] -/
example : let P : Params := { row := [2, 1, 1, 1, 0, 0], n := 7, eightAbove := false }
    P.row = [2, 1, 1, 1] ++ [0, 0] ∧ 2 ≤ P.n - P.adj ∧ Strat (P.n - P.adj) [2, 1, 1, 1] := by
  refine ⟨rfl, by decide, ?_⟩
  have h := checkStrat_sound 5 [2, 1, 1, 1] (by decide)
  obtain ⟨s, pad, hs, e, _, hl⟩ := h
  have : s = [2, 1, 1, 1] := by
    have h2 : (s ++ pad).take 4 = s := by rw [List.take_left' (by omega)]
    rw [← e] at h2; exact h2.symm
  rw [this] at hs
  exact hs

/-- the hypothesis `2 ≤ n - adjusting` is needed: with one leaf the C reads `out->steps[-1]`
    (`eight_above = 0`, n = 3: `steps[n-4]`; with `eight_above = 1`, n = 1: `steps[n-2]` and zero-size VLAs) -/
theorem short_chain_faults :
    (chain { row := [0, 0], n := 3, eightAbove := false }).err = some (.arrIndex 2 (-1) 2) ∧
    (chain { row := [0, 0], n := 1, eightAbove := true }).err = some (.vlaZero 1) := by
  constructor
  · simp [chain, Params.m, Params.adj, prelude, phase1, setLenList, buildPts, glueStep, forLoop, finalSteps, initSt,
      idxOK, St.emit, St.fail, Params.kexp]
  · simp [chain, St.fail, initSt]

/-! ## the integer skeletons re-extracted from the C text (tools/translate/chainskel.py → `SqiGen.ChainSkel`)

`SqiGen.ChainSkel.theta_chain_comput_strategy` and `…_faster_no_eval` are the slices of the two C functions over their
integer state (adjusting, len_count, index, len_list, level[], i, j, the reads `strategy[…]`, loop headers, branch
conditions); every theta / point statement is an opaque event carrying the array slots it touches
(points1/2, Q1/2, out->steps), interpreted by the order-tracking observer `SqiModel.SkelTheta.obs`.
Tie skeleton ↔ hand model (the object of `chain_strategy_sound`):
  * `translated_theta_chain_refines`, `translated_theta_chain_faster_refines` (THEOREMS, all inputs): for every row, every
    `n`, both `eight_above` modes, every `oracle` (outcome of `splitting_comput`) and every fuel ≥ max(n+11, |row|):
    whenever the hand model `chain` runs without fault, the run of the *generated* skeleton under the interpreter of
    `SqiModel.Skel` has no fault (index, uninitialised read, table column, VLA size, fuel, observer), ends with the same
    `index` / `len_list` and produces the same three logs: iterated doublings (array, slot, count), step indices written
    to `out->steps`, kernel exponents.  One simulation lemma per loop of the C in `SqiProofs.SkelThetaSim`
    (`loop0` ≙ phase1, `pts_sim` ≙ buildPts, `glue_sim`, `loop4` ≙ levelSum, `while_sim` ≙ whileLoop, `loop6`,
    `iter_sim`, `for_sim`, `skel_refines`; invariant `RelQ`); the proof for `_faster_no_eval` is the same text with the
    names replaced (`SqiProofs.SkelThetaFSim`, derived by tools/dev/dup_theta_sim.py — the two generated skeletons are
    identical up to names).
  * `translated_theta_chain_sound`: hence `chain_strategy_sound` holds of the translated text of both routines;
    `L{1,3,5}_translated_theta_sound`: for every admissible (n, mode) of the three real tables.
  * `skeleton_agrees_small` (kernel) and the comparison executed on every row × routine × mode on every check run
    (driver op `skel.theta`) remain as an independent cross-check which also covers the faulting direction
    (hand model faults ⇒ skeleton faults), which the theorems do not state. -/

open SqiProofs.SkelThetaSim in
/-- the generated integer skeleton of `theta_chain_comput_strategy` refines the hand model, for ALL inputs -/
theorem translated_theta_chain_refines (P : Params) (oracle : Nat → Bool) (fuel : Nat)
    (hfn : P.n + 11 ≤ fuel) (hfr : P.row.length ≤ fuel) (he : (chain P).err = none) :
    Final P (SqiGen.ChainSkel.theta_chain_comput_strategy SqiModel.SkelTheta.obs P.row oracle fuel P.n
        (if P.eightAbove then 1 else 0) (SqiGen.ChainSkel.ThetaSt.init (SqiModel.SkelTheta.OSt.init P.kexp))) (chain P) :=
  skel_refines P oracle fuel _ hfn hfr rfl he

open SqiProofs.SkelThetaFSim in
/-- the generated integer skeleton of `theta_chain_comput_strategy_faster_no_eval` refines the hand model, for ALL inputs -/
theorem translated_theta_chain_faster_refines (P : Params) (oracle : Nat → Bool) (fuel : Nat)
    (hfn : P.n + 11 ≤ fuel) (hfr : P.row.length ≤ fuel) (he : (chain P).err = none) :
    Final P (SqiGen.ChainSkel.theta_chain_comput_strategy_faster_no_eval SqiModel.SkelTheta.obs P.row oracle fuel P.n
        (if P.eightAbove then 1 else 0) (SqiGen.ChainSkel.ThetaFSt.init (SqiModel.SkelTheta.OSt.init P.kexp))) (chain P) :=
  skel_refines P oracle fuel _ hfn hfr rfl he

/-- **the tie is an equivalence on the fault status** (both routines): the run of the translated skeleton is fault-free
    iff the hand model `chain` is (`SqiProofs.SkelThetaConv` / `SkelThetaFConv`: converse simulation with one "dies" lemma per
    fault site of the hand model: `loop0_dead`, `pts_dead`, `loop4_dead`, `push_dead`, `strat_dead`, `while_dead`,
    `body3_dead`, `iter_dead`, `for_dead`, `skel_dead`).  With `translated_theta_chain_refines` (same final state and logs
    when fault-free) the kernel-evaluated `skeleton_agrees_small` is redundant. -/
theorem translated_theta_chain_fault_iff (P : Params) (oracle : Nat → Bool) (fuel : Nat)
    (hfn : P.n + 11 ≤ fuel) (hfr : P.row.length ≤ fuel) :
    (((SqiGen.ChainSkel.theta_chain_comput_strategy SqiModel.SkelTheta.obs P.row oracle fuel P.n
        (if P.eightAbove then 1 else 0) (SqiGen.ChainSkel.ThetaSt.init (SqiModel.SkelTheta.OSt.init P.kexp))).fault = none ∧
      (SqiGen.ChainSkel.theta_chain_comput_strategy SqiModel.SkelTheta.obs P.row oracle fuel P.n
        (if P.eightAbove then 1 else 0) (SqiGen.ChainSkel.ThetaSt.init (SqiModel.SkelTheta.OSt.init P.kexp))).obs.bad = false) ↔
      (chain P).err = none) ∧
    (((SqiGen.ChainSkel.theta_chain_comput_strategy_faster_no_eval SqiModel.SkelTheta.obs P.row oracle fuel P.n
        (if P.eightAbove then 1 else 0) (SqiGen.ChainSkel.ThetaFSt.init (SqiModel.SkelTheta.OSt.init P.kexp))).fault = none ∧
      (SqiGen.ChainSkel.theta_chain_comput_strategy_faster_no_eval SqiModel.SkelTheta.obs P.row oracle fuel P.n
        (if P.eightAbove then 1 else 0) (SqiGen.ChainSkel.ThetaFSt.init (SqiModel.SkelTheta.OSt.init P.kexp))).obs.bad = false) ↔
      (chain P).err = none) :=
  ⟨SqiProofs.SkelThetaConv.skel_live_iff P oracle fuel _ hfn hfr rfl,
   SqiProofs.SkelThetaFConv.skel_live_iff P oracle fuel _ hfn hfr rfl⟩

/-- soundness of the hand model transferred to the translated text of both routines: no fault, the same number of
    strategy entries consumed, every gluing / generic kernel pair of exponent 3 (order 8), the two final ones 2 and 1 -/
theorem translated_theta_chain_sound (P : Params) (oracle : Nat → Bool) (fuel sb : Nat)
    (hfn : P.n + 11 ≤ fuel) (hfr : P.row.length ≤ fuel)
    (h : (chain P).err = none ∧ (chain P).index = sb ∧ (chain P).trace.all (evOk P.n sb) = true) :
    let k := SqiGen.ChainSkel.theta_chain_comput_strategy SqiModel.SkelTheta.obs P.row oracle fuel P.n
        (if P.eightAbove then 1 else 0) (SqiGen.ChainSkel.ThetaSt.init (SqiModel.SkelTheta.OSt.init P.kexp))
    let k' := SqiGen.ChainSkel.theta_chain_comput_strategy_faster_no_eval SqiModel.SkelTheta.obs P.row oracle fuel P.n
        (if P.eightAbove then 1 else 0) (SqiGen.ChainSkel.ThetaFSt.init (SqiModel.SkelTheta.OSt.init P.kexp))
    (k.fault = none ∧ k.obs.bad = false ∧ k.index = (sb : Int) ∧
      ∀ e ∈ k.obs.kers, e = (10, 3) ∨ e = (12, 3) ∨ e = (14, 2) ∨ e = (15, 1)) ∧
    (k'.fault = none ∧ k'.obs.bad = false ∧ k'.index = (sb : Int) ∧
      ∀ e ∈ k'.obs.kers, e = (10, 3) ∨ e = (12, 3) ∨ e = (14, 2) ∨ e = (15, 1)) := by
  obtain ⟨a, b, c⟩ := h
  have F := translated_theta_chain_refines P oracle fuel hfn hfr a
  have F' := translated_theta_chain_faster_refines P oracle fuel hfn hfr a
  have hk := SqiProofs.SkelThetaSim.kers_of_evOk _ _ _ c
  refine ⟨⟨F.kf, F.kb, by rw [F.ix, b], ?_⟩, ⟨F'.kf, F'.kb, by rw [F'.ix, b], ?_⟩⟩
  · have := F.lg
    simp only [SqiProofs.SkelThetaSim.logs, Prod.mk.injEq] at this
    rw [this.2.2]; exact hk
  · have := F'.lg
    simp only [SqiProofs.SkelThetaFSim.logs, Prod.mk.injEq] at this
    rw [this.2.2]; exact hk

theorem skeleton_agrees_small : SqiModel.SkelTheta.smallAllAgree = true := by decide +kernel

/-! ## the balanced variant `theta_chain_comput_balanced` / `theta_chain_comput_rec` -/

open SqiProofs.ThetaBalanced in
/-- **Soundness of the balanced recursion** (all lengths, any stack with enough room): see `rec_sound`. -/
theorem balanced_rec_sound (cap total fuel len index r : Nat) (stack : List Nat)
    (hl : len ≤ fuel) (hr : r = len + 2) (hn : stack.length + need fuel len ≤ cap) :
    (rec cap total fuel len index r stack).2 = stack.map (· - len) ∧
    (rec cap total fuel len index r stack).1.all (bevOk cap) = true ∧
    stepIdx (rec cap total fuel len index r stack).1 = List.range' index len :=
  rec_sound cap total fuel len index r stack hl hr hn

open SqiProofs.ThetaBalanced in
/-- **The stack bound of `theta_chain_comput_balanced` holds for every length**: the recursion on `len` steps needs at
    most `10·⌊log2 len⌋` slots above its entry level (in fact ≤ 2·⌊log2 len⌋ + 1, from (3/2)^need ≤ len), so with the
    entry level 1 every write `P1[stacklen]` has `stacklen < 10·log2(n−3) + 1` = the VLA size. -/
theorem balanced_stack_bound (fuel len : Nat) (h : 1 ≤ len) :
    need fuel len ≤ 2 * len.log2 + 1 ∧ need fuel len ≤ 10 * len.log2 ∨ len = 1 := by
  by_cases h1 : len = 1
  · exact Or.inr h1
  · exact Or.inl ⟨need_le_two_log fuel len h, need_le fuel len h⟩

open SqiProofs.ThetaBalanced in
/-- **`theta_chain_comput_balanced`, middle part, every n ≥ 4**: no stack overflow, exactly the steps 0 … n−4 in order,
    every kernel pair of exponent 3 (order 8), the carried pair ends with exponent 4. -/
theorem balanced_chain_sound (n : Nat) (hn : 4 ≤ n) :
    (balanced n).2 = [4] ∧ (balanced n).1.all (bevOk (balancedCap n)) = true ∧
    stepIdx (balanced n).1 = List.range' 0 (n - 3) :=
  balanced_sound n hn

/-! ### the balanced recursion as translated text

`SqiGen.ChainSkel.theta_chain_comput_rec` is the slice of the C function produced by tools/translate/chainskel.py
(recursive mode: leading `if (len == 0) return;`, the per-frame constants `right`, `left` substituted, self-calls with
an explicit recursion-depth fuel, the pointers `R1`, `R2`, `P1`, `P2` as array + offset).  Tie to the hand model `rec` /
`balanced` (the object of `balanced_rec_sound`, `balanced_stack_bound`, `balanced_chain_sound`):
`translated_rec_refines` (THEOREM, all inputs: every length, index, kernel exponent, stack, stack capacity, fuel ≥ capacity,
on which the hand model reports no stack overflow; induction over the recursion depth, `SqiProofs.SkelRecSim.rec_sim`) and
`translated_balanced_chain_sound`: `balanced_chain_sound` / `balanced_stack_bound` about the translated text — for every
n ≥ 4, with the stack size 10·⌊log2(n-3)⌋+1 of the C, the translated recursion has no fault (in particular no write
`P1[stacklen]` outside the stack), performs exactly the steps 0 … n-4 in order with kernel pairs of exponent 3 and leaves
the carried pair with exponent 4.  Cross-checks kept: kernel evaluation on small lengths incl. a too-small stack
(`skeleton_rec_agrees_small`) + the comparison executed for every 4 ≤ n < 257 (quick) / 1025 (thorough) on every check
run (driver op `skel.rec`).  Not translated: the caller `theta_chain_comput_balanced` itself (the entry state — stack of
size `balancedCap n`, Q of exponent n+1, R = [4]Q — is the hand model's `balanced`). -/

open SqiProofs.SkelRecSim SqiModel.SkelRec in
/-- the translated balanced recursion refines the hand model `rec`, for ALL inputs without stack overflow -/
theorem translated_rec_refines (oracle : Nat → Bool) (fuel cap total : Nat) (hcf : cap ≤ fuel)
    (F len index r : Nat) (stack : List Nat) (k : SqiGen.ChainSkel.RecSt OSt)
    (hl : len ≤ F) (hit : index + len ≤ total) (hsc : stack.length ≤ cap) (hP : Pre k cap total r stack)
    (hno : noOob (rec cap total (F + 1) len index r stack).1) :
    Post (SqiGen.ChainSkel.theta_chain_comput_rec obs [] oracle fuel (F + 1) (len : Int) index 0 stack.length total 0 0 0 0 k)
      k cap total (rec cap total (F + 1) len index r stack).2 (rec cap total (F + 1) len index r stack).1 :=
  rec_sim oracle fuel cap total hcf F len index r stack k hl hit hsc hP hno

open SqiProofs.SkelRecSim SqiModel.SkelRec in
/-- `balanced_chain_sound` / `balanced_stack_bound` about the translated text -/
theorem translated_balanced_chain_sound (oracle : Nat → Bool) (fuel n : Nat) (hn : 4 ≤ n) (hf : balancedCap n ≤ fuel) :
    ∃ k, k = SqiGen.ChainSkel.theta_chain_comput_rec obs [] oracle fuel (n + 1) ((n - 3 : Nat) : Int) ((0 : Nat) : Int) 0
        (([n + 1].length : Nat) : Int) (n : Int) 0 0 0 0
        (SqiGen.ChainSkel.RecSt.init (OSt.entry (balancedCap n) n (n + 1 - 2) [n + 1])) ∧
    k.fault = none ∧ k.obs.bad = false ∧
    k.obs.steps.map (fun s => s.1) = (List.range' 0 (n - 3)).map (fun (i : Nat) => (i : Int)) ∧
    (∀ s ∈ k.obs.steps, s.2.1 = 3) ∧ k.obs.p1 0 = some 4 ∧ k.obs.p2 0 = some 4 :=
  balanced_skel_sound oracle fuel n hn hf

/-! ### the caller `theta_chain_comput_balanced` as translated text

`SqiGen.BalCaller` (tools/translate/balcaller.py, regenerated from the C text on every run) holds the integer expressions of
the caller: `long log, len = n - 3; for (log = 0; len > 1; len >>= 1) log++;` (as `lenInit`, `logInit`, `logLoop`), the VLA
sizes `stack1/2[10 * log + 1]`, `steps[n - 1]`, the `malloc((n - 1) * sizeof …)` count, the five integer arguments of the call
of `theta_chain_comput_rec` (the pointer arguments are checked literally by the translator), the slots `stackX[0] = QX` /
`QX = stackX[0]`, the count 2 of the `double_iter` that sets up the kernel, the header `for (int i = n - 3; i < n - 1; i++)`
of the trailing loop with every `out->steps[i]` index and `double_iter` count `n - i - 2` of its body, and the index `n - 2`
read by `splitting_comput`.  NOTE: the C allocates `n - 1` steps; the observer of `translated_balanced_chain_sound` uses
the looser size `total_length = n`, the corollary below adds that every touched index is `< n - 1`. -/

open SqiGen.BalCaller in
/-- the values re-extracted from the caller's text equal those assumed by the hand model `balanced n` / `balancedCap n`
    and by the entry state of `translated_balanced_chain_sound` (every n ≥ 4, any loop fuel ≥ n - 3) -/
theorem generated_balanced_caller_matches_model (lf n : Nat) (hn : 4 ≤ n) (hlf : n - 3 ≤ lf) :
    stack1Size n (logLoop lf (lenInit n) logInit) = (balancedCap n : Int) ∧
    stack2Size n (logLoop lf (lenInit n) logInit) = (balancedCap n : Int) ∧
    recLen n = ((n - 3 : Nat) : Int) ∧ recIndex n = ((0 : Nat) : Int) ∧ recAdvance n = 0 ∧
    recStacklen n = (([n + 1].length : Nat) : Int) ∧ recTotal n = (n : Int) ∧
    stack1Push n = 0 ∧ stack2Push n = 0 ∧ stack1Pop n = 0 ∧ stack2Pop n = 0 ∧
    kernelDbl1 n = 2 ∧ kernelDbl2 n = 2 ∧
    stepsVla n = stepsMalloc n ∧ stepsMalloc n = ((n - 1 : Nat) : Int) ∧
    tailLo n = recIndex n + recLen n ∧ tailHi n = stepsMalloc n ∧ splitIdx n = stepsMalloc n - 1 :=
  SqiProofs.BalCaller.caller_matches_model lf n hn hlf

open SqiGen.BalCaller in
/-- the trailing loop of the caller stays inside `out->steps` (n - 1 elements), never passes a negative count to
    `double_iter`, and its two iterations use kernels of exponent 3 (carried pair: exponent 4, then 3) -/
theorem generated_balanced_tail_in_bounds (n : Nat) (hn : 4 ≤ n) (i : Int) (hlo : tailLo n ≤ i) (hhi : i < tailHi n) :
    (∀ j ∈ tailStepIdx n i, 0 ≤ j ∧ j < stepsMalloc n) ∧ (∀ d ∈ tailDbl n i, 0 ≤ d) ∧
    tailDbl n (tailLo n) = [4 - 3, 4 - 3] ∧ tailDbl n (tailLo n + 1) = [3 - 3, 3 - 3] ∧ tailLo n + 2 = tailHi n :=
  SqiProofs.BalCaller.tail_in_bounds n hn i hlo hhi

open SqiProofs.SkelRecSim SqiModel.SkelRec SqiGen.BalCaller in
/-- **`translated_balanced_chain_sound` about what the caller's text says** (every n ≥ 4): the translated recursion, started
    with the generated call arguments on stacks of the generated size `10 * log + 1` holding Q (exponent n+1) in the
    generated slot, kernel R = [2^kernelDbl]Q, has no fault, performs exactly the steps 0 … n-4 with kernels of exponent 3,
    leaves the carried pair (read back from the generated slot) with exponent 4; every step index is below the start of
    the trailing loop and inside the `n - 1` allocated elements of `out->steps`, and so is the index of the final splitting. -/
theorem translated_balanced_chain_sound_caller (oracle : Nat → Bool) (fuel lf n : Nat) (hn : 4 ≤ n)
    (hf : balancedCap n ≤ fuel) (hlf : n - 3 ≤ lf) :
    ∃ k, k = SqiGen.ChainSkel.theta_chain_comput_rec obs [] oracle fuel (n + 1) (recLen n) (recIndex n) (recAdvance n)
        (recStacklen n) (recTotal n) 0 0 0 0
        (SqiGen.ChainSkel.RecSt.init
          (OSt.entry (stack1Size n (logLoop lf (lenInit n) logInit)).toNat n (n + 1 - (kernelDbl1 n).toNat) [n + 1])) ∧
    k.fault = none ∧ k.obs.bad = false ∧
    k.obs.steps.map (fun s => s.1) = (List.range' 0 (n - 3)).map (fun (i : Nat) => (i : Int)) ∧
    (∀ s ∈ k.obs.steps, s.2.1 = 3) ∧ k.obs.p1 (stack1Pop n) = some 4 ∧ k.obs.p2 (stack2Pop n) = some 4 ∧
    (∀ s ∈ k.obs.steps, 0 ≤ s.1 ∧ s.1 < tailLo n ∧ s.1 < stepsMalloc n) ∧
    0 ≤ splitIdx n ∧ splitIdx n < stepsMalloc n :=
  SqiProofs.BalCaller.balanced_caller_sound oracle fuel lf n hn hf hlf

open SqiProofs.SkelRecSim SqiModel.SkelRec SqiGen.BalCaller in
/-- **`n - 1` is the least sufficient allocation of `out->steps`** (every n ≥ 4): the indices written by the translated
    recursion (started as the caller's text says) together with the caller's trailing loop are EXACTLY {0, …, n-2};
    hence an allocation of `a` elements contains them all iff `stepsMalloc n ≤ a`. -/
theorem balanced_steps_alloc_tight (oracle : Nat → Bool) (fuel lf n : Nat) (hn : 4 ≤ n) (hf : balancedCap n ≤ fuel)
    (hlf : n - 3 ≤ lf) :
    let k := SqiGen.ChainSkel.theta_chain_comput_rec obs [] oracle fuel (n + 1) (recLen n) (recIndex n) (recAdvance n)
        (recStacklen n) (recTotal n) 0 0 0 0
        (SqiGen.ChainSkel.RecSt.init
          (OSt.entry (stack1Size n (logLoop lf (lenInit n) logInit)).toNat n (n + 1 - (kernelDbl1 n).toNat) [n + 1]))
    (∀ j : Int, (j ∈ k.obs.steps.map (fun s => s.1) ∨ ∃ i, tailLo n ≤ i ∧ i < tailHi n ∧ j ∈ tailStepIdx n i) ↔
      (0 ≤ j ∧ j < stepsMalloc n)) ∧
    (∀ a : Int, (∀ j, (j ∈ k.obs.steps.map (fun s => s.1) ∨ ∃ i, tailLo n ≤ i ∧ i < tailHi n ∧ j ∈ tailStepIdx n i) → j < a) ↔
      stepsMalloc n ≤ a) :=
  ⟨SqiProofs.BalCaller.steps_written_exact oracle fuel lf n hn hf hlf,
   SqiProofs.BalCaller.steps_alloc_tight oracle fuel lf n hn hf hlf⟩

open SqiGen.BalCaller in
/-- negation with witness: with one element fewer (`n - 2`) the last iteration of the trailing loop writes outside -/
theorem balanced_steps_alloc_short_fails (n : Nat) (hn : 4 ≤ n) :
    ∃ i, tailLo n ≤ i ∧ i < tailHi n ∧ ∃ j ∈ tailStepIdx n i, ¬ j < stepsMalloc n - 1 :=
  SqiProofs.BalCaller.steps_alloc_short_fails n hn

/-- non-vacuity: n = 4 … 259 with the fuel the caller would use -/
example : (List.range 256).all (fun k =>
    SqiGen.BalCaller.stack1Size (k + 4) (SqiGen.BalCaller.logLoop (k + 1) (SqiGen.BalCaller.lenInit (k + 4)) SqiGen.BalCaller.logInit)
      == (balancedCap (k + 4) : Int)) = true := by decide +kernel

theorem skeleton_rec_agrees_small : SqiModel.SkelRec.smallAllAgree = true := by decide +kernel

/-! ## per level: the real tables -/

/-- the callers' table lookup: `strategies[TORSION_PLUS_EVEN_POWER - length]` (8-torsion above) resp.
    `strategies[TORSION_PLUS_EVEN_POWER - length + 2]` -/
def callerRow (table : List (List Nat)) (f n : Nat) (ea : Bool) : Option (List Nat) :=
  let idx : Int := (f : Int) - n + ((if ea then 0 else 2 : Nat) : Int)
  if 0 ≤ idx then table[idx.toNat]? else none

/-- generic corollary from a table of valid rows (C18's `rowsValid`) -/
theorem theta_chain_of_rows (f : Nat) (table : List (List Nat)) (cols : Nat)
    (h : SqiProps.C18.rowsValid (fun i => f - i) cols table = true) (hlen : table.length + 2 ≤ f)
    (n : Nat) (ea : Bool) (row : List Nat) (hr : callerRow table f n ea = some row) :
    let P : Params := { row := row, n := n, eightAbove := ea }
    (chain P).err = none ∧ (chain P).index = P.n - P.adj - 1 ∧
    (chain P).trace.all (evOk P.n (P.n - P.adj - 1)) = true ∧ stepSum (chain P).trace = P.n := by
  intro P
  unfold callerRow at hr
  by_cases h0 : (0 : Int) ≤ (f : Int) - n + ((if ea then 0 else 2 : Nat) : Int)
  · simp only [h0, if_true] at hr
    have hi : ((f : Int) - n + ((if ea then 0 else 2 : Nat) : Int)).toNat < table.length := by
      by_cases hh : ((f : Int) - n + ((if ea then 0 else 2 : Nat) : Int)).toNat < table.length
      · exact hh
      · rw [List.getElem?_eq_none (by omega)] at hr; cases hr
    rw [List.getElem?_eq_getElem hi] at hr
    obtain ⟨t, pad, hs, hrow, _, _⟩ := SqiProps.C18.rowsValid_sound h _ hi
    have hrow' : P.row = t ++ pad := by
      show row = _
      rw [← hrow]; exact (Option.some.inj hr).symm
    have hL : f - ((f : Int) - n + ((if ea then 0 else 2 : Nat) : Int)).toNat = P.n - P.adj := by
      show _ = n - (if ea then 0 else 2)
      cases ea <;> simp at h0 hi ⊢ <;> omega
    rw [hL] at hs
    exact chain_sound P t pad hrow' (by rw [← hL]; omega) hs
  · simp only [h0, if_false] at hr; cases hr

theorem isSome_getElem? (l : List (List Nat)) (i : Nat) : l[i]?.isSome ↔ i < l.length := by
  constructor
  · intro h
    by_cases hh : i < l.length
    · exact hh
    · rw [List.getElem?_eq_none (by omega)] at h; cases h
  · intro h; rw [List.getElem?_eq_getElem h]; rfl

/-- range of admissible lengths: the caller's index is inside the table iff `f - rows < n - adjusting ≤ f` -/
theorem callerRow_isSome_iff (table : List (List Nat)) (f n : Nat) (ea : Bool) :
    (callerRow table f n ea).isSome ↔
      (n ≤ f + (if ea then 0 else 2) ∧ f + (if ea then 0 else 2) < n + table.length) := by
  unfold callerRow
  generalize (if ea then 0 else 2 : Nat) = d
  by_cases h0 : (0 : Int) ≤ (f : Int) - n + (d : Int)
  · simp only [h0, if_true]
    rw [isSome_getElem?]
    constructor <;> intro h <;> omega
  · simp only [h0, if_false]
    simp
    omega

section L1
open SqiGen.L1
theorem L1_strategies_shape : strategies.length = 134 ∧ D_POWER_OF_2 = 248 ∧ strategies.length + 2 ≤ D_POWER_OF_2 := by
  decide +kernel

/-- every admissible length (115 ≤ n - adjusting ≤ 248), both modes: the level-1 table drives the routine in bounds -/
theorem L1_theta_rows_sound (n : Nat) (ea : Bool) (row : List Nat)
    (hr : callerRow strategies D_POWER_OF_2 n ea = some row) :
    let P : Params := { row := row, n := n, eightAbove := ea }
    (chain P).err = none ∧ (chain P).index = P.n - P.adj - 1 ∧
    (chain P).trace.all (evOk P.n (P.n - P.adj - 1)) = true ∧ stepSum (chain P).trace = P.n :=
  theta_chain_of_rows _ _ _ SqiProps.C18.L1_strategies_rows L1_strategies_shape.2.2 n ea row hr

/-- the translated text of both strategy routines on the level-1 table: every admissible (n, mode) -/
theorem L1_translated_theta_sound (n : Nat) (ea : Bool) (row : List Nat) (oracle : Nat → Bool) (fuel : Nat)
    (hr : callerRow strategies D_POWER_OF_2 n ea = some row) (hfn : n + 11 ≤ fuel) (hfr : row.length ≤ fuel) :
    let P : Params := { row := row, n := n, eightAbove := ea }
    let k := SqiGen.ChainSkel.theta_chain_comput_strategy SqiModel.SkelTheta.obs P.row oracle fuel P.n
        (if P.eightAbove then 1 else 0) (SqiGen.ChainSkel.ThetaSt.init (SqiModel.SkelTheta.OSt.init P.kexp))
    let k' := SqiGen.ChainSkel.theta_chain_comput_strategy_faster_no_eval SqiModel.SkelTheta.obs P.row oracle fuel P.n
        (if P.eightAbove then 1 else 0) (SqiGen.ChainSkel.ThetaFSt.init (SqiModel.SkelTheta.OSt.init P.kexp))
    (k.fault = none ∧ k.obs.bad = false ∧ k.index = ((P.n - P.adj - 1 : Nat) : Int) ∧
      ∀ e ∈ k.obs.kers, e = (10, 3) ∨ e = (12, 3) ∨ e = (14, 2) ∨ e = (15, 1)) ∧
    (k'.fault = none ∧ k'.obs.bad = false ∧ k'.index = ((P.n - P.adj - 1 : Nat) : Int) ∧
      ∀ e ∈ k'.obs.kers, e = (10, 3) ∨ e = (12, 3) ∨ e = (14, 2) ∨ e = (15, 1)) := by
  intro P
  obtain ⟨a, b, c, _⟩ := L1_theta_rows_sound n ea row hr
  exact translated_theta_chain_sound P oracle fuel _ hfn hfr ⟨a, b, c⟩

/-- outside `115 ≤ n - adjusting ≤ 248` the callers' row index is outside the table (negation witness of
    "for all 1 ≤ n ≤ f"): e.g. n = 114 with the 8-torsion above -/
theorem L1_theta_out_of_range : callerRow strategies D_POWER_OF_2 114 true = none ∧
    callerRow strategies D_POWER_OF_2 116 false = none ∧ (callerRow strategies D_POWER_OF_2 115 true).isSome := by
  have ⟨h1, h2, _⟩ := L1_strategies_shape
  refine ⟨?_, ?_, ?_⟩
  · refine Option.not_isSome_iff_eq_none.mp (fun hs => ?_)
    have := (callerRow_isSome_iff strategies D_POWER_OF_2 114 true).mp hs
    rw [h1, h2] at this; simp at this
  · refine Option.not_isSome_iff_eq_none.mp (fun hs => ?_)
    have := (callerRow_isSome_iff strategies D_POWER_OF_2 116 false).mp hs
    rw [h1, h2] at this; simp at this
  · rw [callerRow_isSome_iff, h1, h2]; simp
end L1

section L3
open SqiGen.L3
theorem L3_strategies_shape : strategies.length = 198 ∧ D_POWER_OF_2 = 376 ∧ strategies.length + 2 ≤ D_POWER_OF_2 := by
  decide +kernel
theorem L3_theta_rows_sound (n : Nat) (ea : Bool) (row : List Nat)
    (hr : callerRow strategies D_POWER_OF_2 n ea = some row) :
    let P : Params := { row := row, n := n, eightAbove := ea }
    (chain P).err = none ∧ (chain P).index = P.n - P.adj - 1 ∧
    (chain P).trace.all (evOk P.n (P.n - P.adj - 1)) = true ∧ stepSum (chain P).trace = P.n :=
  theta_chain_of_rows _ _ _ SqiProps.C18.L3_strategies_rows L3_strategies_shape.2.2 n ea row hr

/-- the translated text of both strategy routines on the level-3 table: every admissible (n, mode) -/
theorem L3_translated_theta_sound (n : Nat) (ea : Bool) (row : List Nat) (oracle : Nat → Bool) (fuel : Nat)
    (hr : callerRow strategies D_POWER_OF_2 n ea = some row) (hfn : n + 11 ≤ fuel) (hfr : row.length ≤ fuel) :
    let P : Params := { row := row, n := n, eightAbove := ea }
    let k := SqiGen.ChainSkel.theta_chain_comput_strategy SqiModel.SkelTheta.obs P.row oracle fuel P.n
        (if P.eightAbove then 1 else 0) (SqiGen.ChainSkel.ThetaSt.init (SqiModel.SkelTheta.OSt.init P.kexp))
    let k' := SqiGen.ChainSkel.theta_chain_comput_strategy_faster_no_eval SqiModel.SkelTheta.obs P.row oracle fuel P.n
        (if P.eightAbove then 1 else 0) (SqiGen.ChainSkel.ThetaFSt.init (SqiModel.SkelTheta.OSt.init P.kexp))
    (k.fault = none ∧ k.obs.bad = false ∧ k.index = ((P.n - P.adj - 1 : Nat) : Int) ∧
      ∀ e ∈ k.obs.kers, e = (10, 3) ∨ e = (12, 3) ∨ e = (14, 2) ∨ e = (15, 1)) ∧
    (k'.fault = none ∧ k'.obs.bad = false ∧ k'.index = ((P.n - P.adj - 1 : Nat) : Int) ∧
      ∀ e ∈ k'.obs.kers, e = (10, 3) ∨ e = (12, 3) ∨ e = (14, 2) ∨ e = (15, 1)) := by
  intro P
  obtain ⟨a, b, c, _⟩ := L3_theta_rows_sound n ea row hr
  exact translated_theta_chain_sound P oracle fuel _ hfn hfr ⟨a, b, c⟩
end L3

section L5
open SqiGen.L5
theorem L5_strategies_shape : strategies.length = 260 ∧ D_POWER_OF_2 = 500 ∧ strategies.length + 2 ≤ D_POWER_OF_2 := by
  decide +kernel
theorem L5_theta_rows_sound (n : Nat) (ea : Bool) (row : List Nat)
    (hr : callerRow strategies D_POWER_OF_2 n ea = some row) :
    let P : Params := { row := row, n := n, eightAbove := ea }
    (chain P).err = none ∧ (chain P).index = P.n - P.adj - 1 ∧
    (chain P).trace.all (evOk P.n (P.n - P.adj - 1)) = true ∧ stepSum (chain P).trace = P.n :=
  theta_chain_of_rows _ _ _ SqiProps.C18.L5_strategies_rows L5_strategies_shape.2.2 n ea row hr

/-- the translated text of both strategy routines on the level-5 table: every admissible (n, mode) -/
theorem L5_translated_theta_sound (n : Nat) (ea : Bool) (row : List Nat) (oracle : Nat → Bool) (fuel : Nat)
    (hr : callerRow strategies D_POWER_OF_2 n ea = some row) (hfn : n + 11 ≤ fuel) (hfr : row.length ≤ fuel) :
    let P : Params := { row := row, n := n, eightAbove := ea }
    let k := SqiGen.ChainSkel.theta_chain_comput_strategy SqiModel.SkelTheta.obs P.row oracle fuel P.n
        (if P.eightAbove then 1 else 0) (SqiGen.ChainSkel.ThetaSt.init (SqiModel.SkelTheta.OSt.init P.kexp))
    let k' := SqiGen.ChainSkel.theta_chain_comput_strategy_faster_no_eval SqiModel.SkelTheta.obs P.row oracle fuel P.n
        (if P.eightAbove then 1 else 0) (SqiGen.ChainSkel.ThetaFSt.init (SqiModel.SkelTheta.OSt.init P.kexp))
    (k.fault = none ∧ k.obs.bad = false ∧ k.index = ((P.n - P.adj - 1 : Nat) : Int) ∧
      ∀ e ∈ k.obs.kers, e = (10, 3) ∨ e = (12, 3) ∨ e = (14, 2) ∨ e = (15, 1)) ∧
    (k'.fault = none ∧ k'.obs.bad = false ∧ k'.index = ((P.n - P.adj - 1 : Nat) : Int) ∧
      ∀ e ∈ k'.obs.kers, e = (10, 3) ∨ e = (12, 3) ∨ e = (14, 2) ∨ e = (15, 1)) := by
  intro P
  obtain ⟨a, b, c, _⟩ := L5_theta_rows_sound n ea row hr
  exact translated_theta_chain_sound P oracle fuel _ hfn hfr ⟨a, b, c⟩
end L5

end SqiProps.C12

/-
C12 — formula theorems over the definitions regenerated from src/hd/ref/hdx/theta_structure.{h,c} and
theta_isogenies.c (tie T: `SqiGen.Theta`).  Any field.  (DESIGN §4 C12 (i).)
  * `hadamard_involutive`, `hadamard_linear`, `to_squared_theta_eq`
  * `theta_isogeny_eval_half` / `_generic`: the evaluation of a step is P ↦ H(P²) ⊙ c (followed by H when bool2)
  * `double_point_eq_dual_comp`: **doubling = isogeny composed with its dual at formula level**: with (A,B,C,D) a dual
    null point (A² etc. = the coordinates of `to_squared_theta null`), `double_point` is the half-step with constants
    (BCD,ACD,ABD,ABC) ∝ (1/A,…) — the isogeny f — followed by the half-step with constants (bcd,acd,abd,abc) ∝ (1/a,…)
    — its dual — i.e. [2] = f̂ ∘ f
  * `apply_isomorphism_linear`, `apply_isomorphism_smul`: the splitting isomorphism is a linear map
  * `base_change_matrix`: `base_change` is the 4×4 matrix action on (x₁x₂, x₁z₂, z₁x₂, z₁z₂)
  * `product_structure_curves`, `product_point_to_montgomery`: `theta_product_structure_to_elliptic_product` and
    `theta_point_to_montgomery_point` invert the product-theta construction
    (null point (a₁a₂, b₁a₂, a₁b₂, b₁b₂), point (p₁p₂, q₁p₂, p₁q₂, q₁q₂)).
That the theta formulas built from these compute the (2,2)-isogeny with the given kernel (Kani / theta theory) is not
formalised (partial, see notes/C12.md).
-/
import SqiGen.Theta
import Mathlib.Tactic.Ring
import Mathlib.Algebra.Field.Defs

namespace SqiProps.C12F
open SqiGen

variable {F : Type} [Field F] [DecidableEq F]

theorem hadamard_involutive (P : ThetaPoint F) :
    (hadamard (hadamard P)).x = 4 * P.x ∧ (hadamard (hadamard P)).y = 4 * P.y ∧
    (hadamard (hadamard P)).z = 4 * P.z ∧ (hadamard (hadamard P)).t = 4 * P.t := by
  simp only [hadamard]; refine ⟨by ring, by ring, by ring, by ring⟩

theorem to_squared_theta_eq (P : ThetaPoint F) :
    to_squared_theta P = hadamard { x := P.x * P.x, y := P.y * P.y, z := P.z * P.z, t := P.t * P.t } := by
  simp only [to_squared_theta]

theorem hadamard_linear (P Q : ThetaPoint F) :
    (hadamard { x := P.x + Q.x, y := P.y + Q.y, z := P.z + Q.z, t := P.t + Q.t }).x = (hadamard P).x + (hadamard Q).x ∧
    (hadamard { x := P.x + Q.x, y := P.y + Q.y, z := P.z + Q.z, t := P.t + Q.t }).y = (hadamard P).y + (hadamard Q).y ∧
    (hadamard { x := P.x + Q.x, y := P.y + Q.y, z := P.z + Q.z, t := P.t + Q.t }).z = (hadamard P).z + (hadamard Q).z ∧
    (hadamard { x := P.x + Q.x, y := P.y + Q.y, z := P.z + Q.z, t := P.t + Q.t }).t = (hadamard P).t + (hadamard Q).t := by
  simp only [hadamard]; refine ⟨by ring, by ring, by ring, by ring⟩

/-- coordinatewise product -/
def had (P c : ThetaPoint F) : ThetaPoint F := { x := P.x * c.x, y := P.y * c.y, z := P.z * c.z, t := P.t * c.t }
/-- the half-step P ↦ H(P²) ⊙ c -/
def halfStep (c P : ThetaPoint F) : ThetaPoint F := had (to_squared_theta P) c

/-- evaluation of a step without Hadamard transforms (bool1 = bool2 = 0): P ↦ H(P²) ⊙ precomputation -/
theorem theta_isogeny_eval_half (phi : ThetaIsogeny F) (P : ThetaPoint F) (h1 : phi.bool1 = 0) (h2 : phi.bool2 = 0) :
    theta_isogeny_eval phi P = halfStep phi.precomputation P := by
  simp [theta_isogeny_eval, halfStep, had, h1, h2]

/-- evaluation of a generic step (bool1 = 0, bool2 = 1): P ↦ H(H(P²) ⊙ precomputation) -/
theorem theta_isogeny_eval_generic (phi : ThetaIsogeny F) (P : ThetaPoint F) (h1 : phi.bool1 = 0) (h2 : phi.bool2 = 1) :
    theta_isogeny_eval phi P = hadamard (halfStep phi.precomputation P) := by
  simp [theta_isogeny_eval, halfStep, had, h1, h2]

/-- **[2] = f̂ ∘ f at formula level.** Let (X,Y,Z,T) = `to_squared_theta null` and (A,B,C,D) with A² = X, … (a dual
    theta null point). On a structure with its precomputation done, `double_point` is the half-step with constants
    (BCD, ACD, ABD, ABC) (the isogeny, in dual coordinates) followed by the half-step with constants
    (bcd, acd, abd, abc) (its dual). -/
theorem double_point_eq_dual_comp (S : ThetaStructure F) (P : ThetaPoint F) (A B C D : F)
    (hA : A * A = (to_squared_theta S.null_point).x) (hB : B * B = (to_squared_theta S.null_point).y)
    (hC : C * C = (to_squared_theta S.null_point).z) (hD : D * D = (to_squared_theta S.null_point).t) :
    (double_point (theta_precomputation { S with precomputation := 0 }) P).1 =
      halfStep { x := S.null_point.y * S.null_point.z * S.null_point.t, y := S.null_point.x * S.null_point.z * S.null_point.t,
                 z := S.null_point.x * S.null_point.y * S.null_point.t, t := S.null_point.x * S.null_point.y * S.null_point.z }
        (halfStep { x := B * C * D, y := A * C * D, z := A * B * D, t := A * B * C } P) := by
  simp only [double_point, theta_precomputation, halfStep, had]
  simp only [ne_eq, not_true_eq_false, decide_false, Bool.not_false, if_true, one_ne_zero, not_false_eq_true, decide_true,
    Bool.not_true, Bool.false_eq_true, if_false]
  rw [← hA, ← hB, ← hC, ← hD]
  simp only [to_squared_theta, hadamard]
  congr 1 <;> ring

/-- the splitting isomorphism is linear -/
theorem apply_isomorphism_linear (M : ThetaSplitting F) (P Q : ThetaPoint F) :
    apply_isomorphism M { x := P.x + Q.x, y := P.y + Q.y, z := P.z + Q.z, t := P.t + Q.t } =
      { x := (apply_isomorphism M P).x + (apply_isomorphism M Q).x, y := (apply_isomorphism M P).y + (apply_isomorphism M Q).y,
        z := (apply_isomorphism M P).z + (apply_isomorphism M Q).z, t := (apply_isomorphism M P).t + (apply_isomorphism M Q).t } := by
  simp only [apply_isomorphism]; congr 1 <;> ring

theorem apply_isomorphism_smul (M : ThetaSplitting F) (P : ThetaPoint F) (c : F) :
    apply_isomorphism M { x := c * P.x, y := c * P.y, z := c * P.z, t := c * P.t } =
      { x := c * (apply_isomorphism M P).x, y := c * (apply_isomorphism M P).y,
        z := c * (apply_isomorphism M P).z, t := c * (apply_isomorphism M P).t } := by
  simp only [apply_isomorphism]; congr 1 <;> ring

/-- `base_change` is the 4×4 matrix (M_ij) applied to (x₁x₂, x₁z₂, z₁x₂, z₁z₂) (neither point is (0:0)) -/
theorem base_change_matrix (phi : ThetaGluing F) (T : ThetaCouplePoint F)
    (h1 : ¬ (T.P1.z = 0 ∧ T.P1.x = 0)) (h2 : ¬ (T.P2.z = 0 ∧ T.P2.x = 0)) :
    let a := T.P1.x * T.P2.x; let b := T.P1.x * T.P2.z; let c := T.P2.x * T.P1.z; let d := T.P1.z * T.P2.z
    base_change phi T =
      { x := a * phi.M00 + b * phi.M01 + c * phi.M02 + d * phi.M03,
        y := a * phi.M10 + b * phi.M11 + c * phi.M12 + d * phi.M13,
        z := a * phi.M20 + b * phi.M21 + c * phi.M22 + d * phi.M23,
        t := a * phi.M30 + b * phi.M31 + c * phi.M32 + d * phi.M33 } := by
  have c1 : (decide (T.P1.z = 0) && decide (T.P1.x = 0)) = false := by
    simp only [Bool.and_eq_false_imp, decide_eq_true_eq, decide_eq_false_iff_not]; intro hz hx; exact h1 ⟨hz, hx⟩
  have c4 : (decide (T.P2.z = 0) && decide (T.P2.x = 0)) = false := by
    simp only [Bool.and_eq_false_imp, decide_eq_true_eq, decide_eq_false_iff_not]; intro hz hx; exact h2 ⟨hz, hx⟩
  simp only [base_change, c1, c4, Bool.false_eq_true, if_false]

/-- Montgomery curve (A : C) attached to a dimension-1 theta null point (a : b): A = −2(a⁴+b⁴), C = a⁴ − b⁴ -/
def montA (a b : F) : F := -(2 * (a ^ 4 + b ^ 4))
def montC (a b : F) : F := a ^ 4 - b ^ 4

/-- `theta_product_structure_to_elliptic_product` inverts the product-theta construction: on the product null point
    (a₁a₂, b₁a₂, a₁b₂, b₁b₂) it returns the curves of (a₁ : b₁) and (a₂ : b₂) -/
theorem product_structure_curves (S : ThetaStructure F) (a1 b1 a2 b2 : F)
    (hn : S.null_point = { x := a1 * a2, y := b1 * a2, z := a1 * b2, t := b1 * b2 }) :
    (theta_product_structure_to_elliptic_product S).E1.A * montC a1 b1 = (theta_product_structure_to_elliptic_product S).E1.C * montA a1 b1 ∧
    (theta_product_structure_to_elliptic_product S).E2.A * montC a2 b2 = (theta_product_structure_to_elliptic_product S).E2.C * montA a2 b2 := by
  simp only [theta_product_structure_to_elliptic_product, hn, montA, montC]
  refine ⟨by ring, by ring⟩

/-- `theta_point_to_montgomery_point` on a product point (p₁p₂, q₁p₂, p₁q₂, q₁q₂) returns, on each factor, the
    Montgomery x-coordinate (a q + b p : a q − b p) of the dimension-1 theta point (p : q) -/
theorem product_point_to_montgomery (S : ThetaStructure F) (P : ThetaPoint F) (a1 b1 a2 b2 p1 q1 p2 q2 : F)
    (hn : S.null_point = { x := a1 * a2, y := b1 * a2, z := a1 * b2, t := b1 * b2 })
    (hp : P = { x := p1 * p2, y := q1 * p2, z := p1 * q2, t := q1 * q2 }) :
    (theta_point_to_montgomery_point P S).P1.x * (a1 * q1 - b1 * p1) = (theta_point_to_montgomery_point P S).P1.z * (a1 * q1 + b1 * p1) ∧
    (theta_point_to_montgomery_point P S).P2.x * (a2 * q2 - b2 * p2) = (theta_point_to_montgomery_point P S).P2.z * (a2 * q2 + b2 * p2) := by
  simp only [theta_point_to_montgomery_point, hn, hp]
  refine ⟨by ring, by ring⟩

end SqiProps.C12F

/-
C12 — formula theorems over the definitions regenerated from src/hd/ref/hdx/theta_structure.h / theta_isogenies.c
(tie T: `SqiGen.Theta`).  Any field.
  * `hadamard_involutive`     H(H(P)) = 4·P  (the Hadamard transform is an involution up to the projective factor 4)
  * `to_squared_theta_eq`     to_squared_theta = H ∘ (coordinatewise square)
  * `hadamard_linear`         H(P + Q) = H(P) + H(Q) coordinatewise (the transform is linear)
That the theta formulas built from these compute the (2,2)-isogeny with the given kernel is not formalised
(partial, see notes/C12.md).
-/
import SqiGen.Theta
import Mathlib.Tactic.Ring
import Mathlib.Algebra.Field.Defs

namespace SqiProps.C12F
open SqiGen

variable {F : Type} [Field F] [DecidableEq F]

theorem hadamard_involutive (P : ThetaPoint F) :
    (hadamard (hadamard P)).x = 4 * P.x ∧ (hadamard (hadamard P)).y = 4 * P.y ∧
    (hadamard (hadamard P)).z = 4 * P.z ∧ (hadamard (hadamard P)).t = 4 * P.t := by
  simp only [hadamard]; refine ⟨by ring, by ring, by ring, by ring⟩

theorem to_squared_theta_eq (P : ThetaPoint F) :
    to_squared_theta P = hadamard { x := P.x * P.x, y := P.y * P.y, z := P.z * P.z, t := P.t * P.t } := by
  simp only [to_squared_theta]

theorem hadamard_linear (P Q : ThetaPoint F) :
    (hadamard { x := P.x + Q.x, y := P.y + Q.y, z := P.z + Q.z, t := P.t + Q.t }).x = (hadamard P).x + (hadamard Q).x ∧
    (hadamard { x := P.x + Q.x, y := P.y + Q.y, z := P.z + Q.z, t := P.t + Q.t }).y = (hadamard P).y + (hadamard Q).y ∧
    (hadamard { x := P.x + Q.x, y := P.y + Q.y, z := P.z + Q.z, t := P.t + Q.t }).z = (hadamard P).z + (hadamard Q).z ∧
    (hadamard { x := P.x + Q.x, y := P.y + Q.y, z := P.z + Q.z, t := P.t + Q.t }).t = (hadamard P).t + (hadamard Q).t := by
  simp only [hadamard]; refine ⟨by ring, by ring, by ring, by ring⟩

end SqiProps.C12F

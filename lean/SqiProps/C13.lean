/-
C13 — ideal-to-isogeny translation: the linear-algebra core over ZMod 2^f with the generated action matrices.

Proved here:
  * `kernel_to_ideal_annihilates`  the generator a − i + b(j + (1+k)/2) built by `id2iso_kernel_dlogs_to_ideal_two` kills the kernel
                                   vector under the action (any commutative ring, any matrices, given the inverse determinant);
  * `kernel_matrix_invertible`     for the generated ACTION_J + ACTION_GEN4 (`L{1,3,5}_theta_parity`, kernel decide) the matrix
                                   [v | θv] is invertible mod 2^f for EVERY f and every v with an odd coordinate — so the
                                   `ibz_2x2_inv_mod` of the C code (assert only) never fails on a generator of a cyclic subgroup;
  * `ideal_to_kernel_to_ideal`     dictionaries mutually inverse at the level of cyclic subgroups: if G is the matrix of any element
                                   killing v (v with an odd coordinate), every column of adj G = matrix of the conjugate (what
                                   `id2iso_ideal_to_kernel_dlogs_even` returns) that has a unit coordinate is a UNIT multiple of v;
                                   and det G = 0 (norm divisible by 2^f);
  * `endomorphism_matrix_linear`   the matrix of c0 + c1·g2 + c2·g3 + c3·g4 is linear in the coefficients and acts on a basis as
                                   `matrix_application` (ring relations / determinants = norms / geometric meaning of the generators:
                                   C18 `L*_action_relations`, `L*_action_dets`, `L*_action_geometric`);
  * `find_uv_step_sound`           the arithmetic step of `find_uv`: the returned (u, v) satisfies u·d1 + v·d2 = 2^i3·target, u > 0;
  * `L{1,3,5}_fdi_index_range`     `fixed_degree_isogeny` (small case): for lo ≤ bits(u) ≤ hi (table- and p-derived) the doubling count is
                                   ≥ 0, the strategy row index is inside the table and u < 2^length; `L1_fdi_index_negation`: outside the range
                                   the C ints would be negative / beyond the table;
  * `fdi_guard_text`, `fdi_guard_sound`, `L1_fdi_guard_range`   since fix d48f5af the C code guards this range itself: the guard re-extracted from
                                   the C text is the model's, and every call it lets through has its indices in range (all ints).
PARTIAL (not formalised): Deuring correspondence and Kani's lemma — "the returned curve/basis is the image under an isogeny of
degree N(I)", "equivalent ideals give isomorphic curves": checked by tools/props/c13.py (exact order 2^f of the image points,
pairing raised to N(I), equal j-invariants for equivalent ideals, norms and containment of β1, β2).
-/
import SqiProofs.IdealKernel
import SqiProofs.QuatAction
import SqiModel.IdealKernel
import SqiGen.Tables1
import SqiGen.Tables3
import SqiGen.Tables5
import SqiGen.FdiGuard

set_option maxRecDepth 100000

namespace SqiProps.C13
open SqiProofs.PairingMat SqiProofs.IdealKernel

section Ring
variable {R : Type} [CommRing R]

theorem kernel_to_ideal_annihilates (MI Mθ : Mat R) (dinv : R) (v : V R)
    (hd : (v.1 * (mulVec Mθ v).2 - (mulVec Mθ v).1 * v.2) * dinv = 1) :
    let ab := ktiCoeffs MI Mθ dinv v
    mulVec (matAdd (matAdd (matSmul ab.1 matOne) (matSmul (-1) MI)) (matSmul ab.2 Mθ)) v = (0, 0) :=
  kti_annihilates MI Mθ dinv v hd

/-- dictionaries mutually inverse on cyclic subgroups: G kills v (v has a unit coordinate) ⇒ det G = 0 and each column of
    adj G (= matrix of the conjugate element) with a unit coordinate is a unit multiple of v -/
theorem ideal_to_kernel_to_ideal (g : Mat R) (v : V R) (hk : mulVec g v = (0, 0)) (hv : IsUnit v.1 ∨ IsUnit v.2) :
    matDet g = 0 ∧
    ((IsUnit g.d ∨ IsUnit g.c) → ∃ l : R, IsUnit l ∧ (g.d, -g.c) = (l * v.1, l * v.2)) ∧
    ((IsUnit g.b ∨ IsUnit g.a) → ∃ l : R, IsUnit l ∧ (-g.b, g.a) = (l * v.1, l * v.2)) := by
  have h1 : g.a * v.1 + g.b * v.2 = 0 := congrArg Prod.fst hk
  have h2 : g.c * v.1 + g.d * v.2 = 0 := congrArg Prod.snd hk
  refine ⟨det_zero_of_kernel g v hk hv, ?_, ?_⟩
  · rintro (h | h)
    · obtain ⟨u, hu⟩ := h.exists_right_inv; exact adj_col1_of_d g v u hu h2 hv
    · obtain ⟨u, hu⟩ := h.exists_right_inv; exact adj_col1_of_c g v u hu h2 hv
  · rintro (h | h)
    · obtain ⟨u, hu⟩ := h.exists_right_inv; exact adj_col2_of_b g v u hu h1 hv
    · obtain ⟨u, hu⟩ := h.exists_right_inv; exact adj_col2_of_a g v u hu h1 hv

/-- non-vacuity over ZMod 8: G = [[2,4],[1,2]] kills v = (2,7)·… : take v = (6, 1): 2·6+4·1 = 16 = 0, 1·6+2·1 = 8 = 0 -/
example : mulVec (⟨2, 4, 1, 2⟩ : Mat (ZMod 8)) (6, 1) = (0, 0) ∧ IsUnit ((6, 1) : V (ZMod 8)).2 := by
  constructor
  · decide
  · exact isUnit_one

/-- matrix of an element given by its coefficients on the generators -/
def endoMat (G2 G3 G4 : Mat R) (c0 c1 c2 c3 : R) : Mat R :=
  matAdd (matAdd (matAdd (matSmul c0 matOne) (matSmul c1 G2)) (matSmul c2 G3)) (matSmul c3 G4)

/-- `endomorphism_application_even_basis` = `matrix_application` with the matrix of the element; the matrix is linear in the
    coefficient vector -/
theorem endomorphism_matrix_linear (G2 G3 G4 : Mat R) (c0 c1 c2 c3 d0 d1 d2 d3 s : R) :
    endoMat G2 G3 G4 (c0 + s * d0) (c1 + s * d1) (c2 + s * d2) (c3 + s * d3)
      = matAdd (endoMat G2 G3 G4 c0 c1 c2 c3) (matSmul s (endoMat G2 G3 G4 d0 d1 d2 d3)) := by
  unfold endoMat matAdd matSmul matOne
  simp only [Mat.mk.injEq]
  refine ⟨?_, ?_, ?_, ?_⟩ <;> ring

/-- applying the element to aP + cQ-coordinates: image coordinates are M·(coordinates) — same convention as `applyMat` -/
theorem endomorphism_application_is_matrix (M : Mat R) (P Q : V R) :
    (applyMat M P Q).1 = lin M.a M.c P Q ∧ (applyMat M P Q).2.1 = lin M.b M.d P Q := ⟨rfl, rfl⟩
end Ring

/-! ## invertibility of [v | θv] for the generated matrices -/

theorem kernel_matrix_det_odd (a b c d v0 v1 : ℤ) (hb : Odd b) (hc : Odd c) (ht : Odd (a + d)) (hv : Odd v0 ∨ Odd v1) :
    Odd (v0 * (c * v0 + d * v1) - (a * v0 + b * v1) * v1) := by
  have := det_odd_of_parity a b c d v0 v1 hb hc ht hv
  have e : v0 * (c * v0 + d * v1) - (a * v0 + b * v1) * v1 = c * v0 ^ 2 + (d - a) * v0 * v1 - b * v1 ^ 2 := by ring
  rw [e]; exact this

/-- for EVERY f: the determinant of [v | θv] is a unit modulo 2^f when v has an odd coordinate -/
theorem kernel_matrix_invertible (f : ℕ) (a b c d v0 v1 : ℤ) (hb : Odd b) (hc : Odd c) (ht : Odd (a + d)) (hv : Odd v0 ∨ Odd v1) :
    IsUnit (((v0 * (c * v0 + d * v1) - (a * v0 + b * v1) * v1 : ℤ)) : ZMod (2 ^ f)) :=
  isUnit_of_odd f _ (kernel_matrix_det_odd a b c d v0 v1 hb hc ht hv)

open SqiModel in
/-- parity of θ = ACTION_J + ACTION_GEN4 as generated: off-diagonal entries odd, trace odd -/
def thetaParity (J G4 : List (List Int)) : Bool :=
  (Mat2.get J 0 1 + Mat2.get G4 0 1) % 2 == 1 && (Mat2.get J 1 0 + Mat2.get G4 1 0) % 2 == 1 &&
  (Mat2.get J 0 0 + Mat2.get G4 0 0 + Mat2.get J 1 1 + Mat2.get G4 1 1) % 2 == 1

theorem L1_theta_parity : thetaParity SqiGen.L1.W64.ACTION_J SqiGen.L1.W64.ACTION_GEN4 = true := by decide +kernel
theorem L3_theta_parity : thetaParity SqiGen.L3.W64.ACTION_J SqiGen.L3.W64.ACTION_GEN4 = true := by decide +kernel
theorem L5_theta_parity : thetaParity SqiGen.L5.W64.ACTION_J SqiGen.L5.W64.ACTION_GEN4 = true := by decide +kernel

/-- level 1, every f, every kernel vector with an odd coordinate: the matrix inverted by `id2iso_kernel_dlogs_to_ideal_two` is invertible -/
theorem L1_kernel_matrix_invertible (f : ℕ) (v0 v1 : ℤ) (hv : Odd v0 ∨ Odd v1) :
    let θ := fun i j => SqiModel.Mat2.get SqiGen.L1.W64.ACTION_J i j + SqiModel.Mat2.get SqiGen.L1.W64.ACTION_GEN4 i j
    IsUnit (((v0 * (θ 1 0 * v0 + θ 1 1 * v1) - (θ 0 0 * v0 + θ 0 1 * v1) * v1 : ℤ)) : ZMod (2 ^ f)) := by
  intro θ
  have h := L1_theta_parity
  unfold thetaParity at h
  simp only [Bool.and_eq_true, beq_iff_eq] at h
  obtain ⟨⟨h01, h10⟩, htr⟩ := h
  refine kernel_matrix_invertible f (θ 0 0) (θ 0 1) (θ 1 0) (θ 1 1) v0 v1 (Int.odd_iff.mpr h01) (Int.odd_iff.mpr h10) ?_ hv
  rw [Int.odd_iff]
  have : θ 0 0 + θ 1 1 = SqiModel.Mat2.get SqiGen.L1.W64.ACTION_J 0 0 + SqiModel.Mat2.get SqiGen.L1.W64.ACTION_GEN4 0 0 +
      SqiModel.Mat2.get SqiGen.L1.W64.ACTION_J 1 1 + SqiModel.Mat2.get SqiGen.L1.W64.ACTION_GEN4 1 1 := by simp only [θ]; ring
  rw [this]; exact htr

/-! ## find_uv -/
theorem find_uv_step_sound (n d1 d2 d2inv : ℤ) (i3 k : ℕ) (hinv : d2inv * d2 ≡ 1 [ZMOD d1]) (hd1 : 0 < d1)
    (hlt : (SqiModel.IdealKernel.findUVStep n d1 d2 d2inv i3 k).2 * d2 < 2 ^ i3 * n) :
    (SqiModel.IdealKernel.findUVStep n d1 d2 d2inv i3 k).1 * d1 + (SqiModel.IdealKernel.findUVStep n d1 d2 d2inv i3 k).2 * d2 = 2 ^ i3 * n ∧
    0 < (SqiModel.IdealKernel.findUVStep n d1 d2 d2inv i3 k).1 :=
  findUV_sound n d1 d2 d2inv i3 k hinv hd1 hlt

/-- non-vacuity: target 2^10, d1 = 7, d2 = 9 (9·4 = 36 ≡ 1 mod 7): v = 4·(1024 mod 7) mod 7 = 1, u = (1024 − 9)/7 = 145 -/
example : SqiModel.IdealKernel.findUVStep 1024 7 9 4 0 0 = (145, 1) ∧ (145 : ℤ) * 7 + 1 * 9 = 1024 := by decide

/-! ## fixed_degree_isogeny index arithmetic (small case) -/
open SqiModel.IdealKernel in
theorem fdi_index_in_range (T bp rows b : ℤ) (h1 : bp + 15 - b ≤ T - 2) (h2 : T - rows + 1 ≤ bp + 15 - b) :
    0 ≤ fdiDblCount T bp b ∧ 2 ≤ fdiRow T bp b ∧ fdiRow T bp b < rows ∧ fdiRow T bp b = T - fdiLength bp b := by
  unfold fdiDblCount fdiRow fdiLength; omega

open SqiModel.IdealKernel in
/-- level 1 (T = 248, bits(p) = 251, 134 strategy rows, all generated): 20 ≤ bits(u) ≤ 132 ⇒ indices in range and
    bits(u) < length (so u < 2^length, the disabled assert of the C code; the table alone would allow bits(u) ≤ 151) -/
theorem L1_fdi_index_range (b : ℤ) (hlo : 20 ≤ b) (hhi : b ≤ 132) :
    let T : ℤ := SqiGen.L1.D_POWER_OF_2; let bp : ℤ := SqiGen.L1.FP_p.log2 + 1; let rows : ℤ := SqiGen.L1.strategies.length
    0 ≤ fdiDblCount T bp b ∧ 2 ≤ fdiRow T bp b ∧ fdiRow T bp b < rows ∧ b < fdiLength bp b := by
  intro T bp rows
  have e1 : T = 248 := by decide +kernel
  have e2 : bp = 251 := by decide +kernel
  have e3 : rows = 134 := by decide +kernel
  have := fdi_index_in_range T bp rows b (by omega) (by omega)
  exact ⟨this.1, this.2.1, this.2.2.1, by unfold fdiLength; omega⟩
open SqiModel.IdealKernel in
theorem L3_fdi_index_range (b : ℤ) (hlo : 24 ≤ b) (hhi : b ≤ 198) :
    let T : ℤ := SqiGen.L3.D_POWER_OF_2; let bp : ℤ := SqiGen.L3.FP_p.log2 + 1; let rows : ℤ := SqiGen.L3.strategies.length
    0 ≤ fdiDblCount T bp b ∧ 2 ≤ fdiRow T bp b ∧ fdiRow T bp b < rows ∧ b < fdiLength bp b := by
  intro T bp rows
  have e1 : T = 376 := by decide +kernel
  have e2 : bp = 383 := by decide +kernel
  have e3 : rows = 198 := by decide +kernel
  have := fdi_index_in_range T bp rows b (by omega) (by omega)
  exact ⟨this.1, this.2.1, this.2.2.1, by unfold fdiLength; omega⟩
open SqiModel.IdealKernel in
theorem L5_fdi_index_range (b : ℤ) (hlo : 22 ≤ b) (hhi : b ≤ 259) :
    let T : ℤ := SqiGen.L5.D_POWER_OF_2; let bp : ℤ := SqiGen.L5.FP_p.log2 + 1; let rows : ℤ := SqiGen.L5.strategies.length
    0 ≤ fdiDblCount T bp b ∧ 2 ≤ fdiRow T bp b ∧ fdiRow T bp b < rows ∧ b < fdiLength bp b := by
  intro T bp rows
  have e1 : T = 500 := by decide +kernel
  have e2 : bp = 505 := by decide +kernel
  have e3 : rows = 260 := by decide +kernel
  have := fdi_index_in_range T bp rows b (by omega) (by omega)
  exact ⟨this.1, this.2.1, this.2.2.1, by unfold fdiLength; omega⟩

open SqiModel.IdealKernel in
/-- NEGATION outside the range (level 1 numbers): bits(u) = 19 gives a negative doubling count (and row 1, whose strategy
    is for a longer chain than 2^f allows), bits(u) = 152 indexes row 134 of a 134-row table — the C code has no check (→ C04) -/
theorem L1_fdi_index_negation : fdiDblCount 248 251 19 < 0 ∧ ¬ (fdiRow 248 251 152 < 134) ∧ ¬ ((133 : ℤ) < fdiLength 251 133) := by decide

/-! ## the endomorphism → matrix map is a ring homomorphism O0 → M₂(ℤ/2^f) (generated matrices, every level) -/
section RingHom
open SqiProofs.QuatAction

/-- `o0mul` is the quaternion product of B(−1, −p), p = 4q − 1, written on the O0-basis 1, i, (i+j)/2, (1+k)/2 -/
theorem o0mul_is_quaternion_product {R : Type} [CommRing R] (q : R) (x y : R × R × R × R) :
    quatMul (4 * q - 1) (toIJK2 x) (toIJK2 y) = smul4 2 (toIJK2 (o0mul q x y)) :=
  SqiProofs.QuatAction.o0mul_is_quaternion_product q x y

/-- abstract form: any three matrices with the multiplication table of i, (i+j)/2, (1+k)/2 give a multiplicative map -/
theorem endomorphism_matrix_multiplicative {R : Type} [CommRing R] (q : R) (G2 G3 G4 : Mat R) (T : Table q G2 G3 G4) (x y : R × R × R × R) :
    matMul (endoMat4 G2 G3 G4 x) (endoMat4 G2 G3 G4 y) = endoMat4 G2 G3 G4 (o0mul q x y) ∧ endoMat4 G2 G3 G4 (1, 0, 0, 0) = matOne :=
  ⟨endoMat_mul q G2 G3 G4 T x y, endoMat_one G2 G3 G4⟩

/-- the nine products of the generated ACTION_GEN2, ACTION_GEN3, ACTION_GEN4 modulo 2^f are those of i, (i+j)/2, (1+k)/2 (kernel decide) -/
theorem L1_o0_table : tableOK ((2 ^ SqiGen.L1.D_POWER_OF_2 : ℕ) : Int) (((SqiGen.L1.FP_p : Int) + 1) / 4)
    SqiGen.L1.W64.ACTION_GEN2 SqiGen.L1.W64.ACTION_GEN3 SqiGen.L1.W64.ACTION_GEN4 = true := by decide +kernel
theorem L3_o0_table : tableOK ((2 ^ SqiGen.L3.D_POWER_OF_2 : ℕ) : Int) (((SqiGen.L3.FP_p : Int) + 1) / 4)
    SqiGen.L3.W64.ACTION_GEN2 SqiGen.L3.W64.ACTION_GEN3 SqiGen.L3.W64.ACTION_GEN4 = true := by decide +kernel
theorem L5_o0_table : tableOK ((2 ^ SqiGen.L5.D_POWER_OF_2 : ℕ) : Int) (((SqiGen.L5.FP_p : Int) + 1) / 4)
    SqiGen.L5.W64.ACTION_GEN2 SqiGen.L5.W64.ACTION_GEN3 SqiGen.L5.W64.ACTION_GEN4 = true := by decide +kernel

/-- level 1: `endomorphism_application_even_basis` / `matrix_of_endomorphism_even` realise a RING HOMOMORPHISM
    O0 → M₂(ℤ/2^248): the matrix of a product is the product of the matrices, for all coefficient vectors -/
theorem L1_endomorphism_ring_hom (x y : ZMod (2 ^ SqiGen.L1.D_POWER_OF_2) × ZMod (2 ^ SqiGen.L1.D_POWER_OF_2) × ZMod (2 ^ SqiGen.L1.D_POWER_OF_2) × ZMod (2 ^ SqiGen.L1.D_POWER_OF_2)) :
    let n := 2 ^ SqiGen.L1.D_POWER_OF_2
    let G2 := toMatZ n SqiGen.L1.W64.ACTION_GEN2; let G3 := toMatZ n SqiGen.L1.W64.ACTION_GEN3; let G4 := toMatZ n SqiGen.L1.W64.ACTION_GEN4
    matMul (endoMat4 G2 G3 G4 x) (endoMat4 G2 G3 G4 y) = endoMat4 G2 G3 G4 (o0mul (((((SqiGen.L1.FP_p : Int) + 1) / 4 : Int)) : ZMod n) x y) := by
  intro n G2 G3 G4
  exact endoMat_mul _ G2 G3 G4 (table_of_tableOK n _ _ _ _ L1_o0_table) x y
theorem L3_endomorphism_ring_hom (x y : ZMod (2 ^ SqiGen.L3.D_POWER_OF_2) × ZMod (2 ^ SqiGen.L3.D_POWER_OF_2) × ZMod (2 ^ SqiGen.L3.D_POWER_OF_2) × ZMod (2 ^ SqiGen.L3.D_POWER_OF_2)) :
    let n := 2 ^ SqiGen.L3.D_POWER_OF_2
    let G2 := toMatZ n SqiGen.L3.W64.ACTION_GEN2; let G3 := toMatZ n SqiGen.L3.W64.ACTION_GEN3; let G4 := toMatZ n SqiGen.L3.W64.ACTION_GEN4
    matMul (endoMat4 G2 G3 G4 x) (endoMat4 G2 G3 G4 y) = endoMat4 G2 G3 G4 (o0mul (((((SqiGen.L3.FP_p : Int) + 1) / 4 : Int)) : ZMod n) x y) := by
  intro n G2 G3 G4
  exact endoMat_mul _ G2 G3 G4 (table_of_tableOK n _ _ _ _ L3_o0_table) x y
theorem L5_endomorphism_ring_hom (x y : ZMod (2 ^ SqiGen.L5.D_POWER_OF_2) × ZMod (2 ^ SqiGen.L5.D_POWER_OF_2) × ZMod (2 ^ SqiGen.L5.D_POWER_OF_2) × ZMod (2 ^ SqiGen.L5.D_POWER_OF_2)) :
    let n := 2 ^ SqiGen.L5.D_POWER_OF_2
    let G2 := toMatZ n SqiGen.L5.W64.ACTION_GEN2; let G3 := toMatZ n SqiGen.L5.W64.ACTION_GEN3; let G4 := toMatZ n SqiGen.L5.W64.ACTION_GEN4
    matMul (endoMat4 G2 G3 G4 x) (endoMat4 G2 G3 G4 y) = endoMat4 G2 G3 G4 (o0mul (((((SqiGen.L5.FP_p : Int) + 1) / 4 : Int)) : ZMod n) x y) := by
  intro n G2 G3 G4
  exact endoMat_mul _ G2 G3 G4 (table_of_tableOK n _ _ _ _ L5_o0_table) x y
end RingHom

/-! ## the dictionaries as mutually inverse bijections (matrix level: O0/2^f·O0 ≅ M₂(ℤ/2^f))

Objects: 𝒦 = vectors with a unit coordinate modulo unit scalars (cyclic subgroups of order 2^f of the torsion);
𝓘 = left ideals Ann(v) = {M : M v = 0} of M₂(R) (images of the left O0-ideals of norm 2^f).
`kernel → ideal` sends the class of v to the left ideal generated by the element a − ι + bθ, `ideal → kernel` sends a left ideal to the class of a
column of the adjugate of a generator. The three statements below say these are well defined on classes and mutually inverse:
 (1) `kernel_to_ideal_annihilates`: the element built from v lies in Ann(v) — and it has the unit entry … (−1 in the ι-coefficient; parity facts);
 (2) `ann_is_principal`: Ann(v) is the principal left ideal generated by ANY of its elements having a unit entry; two such generators are left
     multiples of each other (same ideal), so the ideal does not depend on the generator nor on the representative λv;
 (3) `ideal_to_kernel_to_ideal`: the kernel vector read off any generator with a unit entry is a unit multiple of v. -/
theorem ann_is_principal {R : Type} [CommRing R] (G G' : Mat R) (v : V R) (hv : IsUnit v.1 ∨ IsUnit v.2)
    (hG : mulVec G v = (0, 0)) (hG' : mulVec G' v = (0, 0))
    (hu : (IsUnit G.a ∨ IsUnit G.b) ∨ (IsUnit G.c ∨ IsUnit G.d)) (hu' : (IsUnit G'.a ∨ IsUnit G'.b) ∨ (IsUnit G'.c ∨ IsUnit G'.d)) :
    (∃ X : Mat R, G' = matMul X G) ∧ (∃ Y : Mat R, G = matMul Y G') :=
  ⟨SqiProofs.QuatAction.left_multiple_of_generator G G' v hv hG hG' hu, SqiProofs.QuatAction.left_multiple_of_generator G' G v hv hG' hG hu'⟩

/-- Ann(λv) = Ann(v) for a unit λ: the ideal depends only on the class of the kernel vector -/
theorem ann_of_unit_multiple {R : Type} [CommRing R] (G : Mat R) (v : V R) (l : R) (hl : IsUnit l) :
    mulVec G (l * v.1, l * v.2) = (0, 0) ↔ mulVec G v = (0, 0) := by
  obtain ⟨w, hw⟩ := hl.exists_right_inv
  constructor
  · intro h
    have h1 : G.a * (l * v.1) + G.b * (l * v.2) = 0 := congrArg Prod.fst h
    have h2 : G.c * (l * v.1) + G.d * (l * v.2) = 0 := congrArg Prod.snd h
    refine Prod.ext ?_ ?_
    · show G.a * v.1 + G.b * v.2 = 0
      linear_combination w * h1 - (G.a * v.1 + G.b * v.2) * hw
    · show G.c * v.1 + G.d * v.2 = 0
      linear_combination w * h2 - (G.c * v.1 + G.d * v.2) * hw
  · intro h
    have h1 : G.a * v.1 + G.b * v.2 = 0 := congrArg Prod.fst h
    have h2 : G.c * v.1 + G.d * v.2 = 0 := congrArg Prod.snd h
    refine Prod.ext ?_ ?_
    · show G.a * (l * v.1) + G.b * (l * v.2) = 0
      linear_combination l * h1
    · show G.c * (l * v.1) + G.d * (l * v.2) = 0
      linear_combination l * h2

/-! ## the guard of `fixed_degree_isogeny` (fix d48f5af), re-extracted from the C text (tie T, tools/translate/fdiguard.py) -/

/-- the guard in the C text is exactly the model's `fdiGuardRejects` (three comparisons, in this order) -/
theorem fdi_guard_text : SqiGen.FdiGuard.rejectAtoms = [("length+2", ">", "T"), ("T-length", ">=", "rows"), ("u_bitsize", ">", "length")] := by
  decide +kernel

open SqiModel.IdealKernel in
/-- FULL STRENGTH (all C ints): whenever the guard lets a call through, the doubling count is ≥ 0, the strategy row index is inside the table
    (and ≥ 2), and bits(u) ≤ length, hence u < 2^length — for every torsion, table size, bits(p), bits(u) -/
theorem fdi_guard_sound (T rows bp b : ℤ) (h : fdiGuardRejects T rows (fdiLength bp b) b = false) :
    0 ≤ fdiDblCount T bp b ∧ 2 ≤ fdiRow T bp b ∧ fdiRow T bp b < rows ∧ b ≤ fdiLength bp b := by
  unfold fdiGuardRejects at h
  simp only [Bool.or_eq_false_iff, decide_eq_false_iff_not, not_lt, not_le] at h
  obtain ⟨⟨h1, h2⟩, h3⟩ := h
  unfold fdiDblCount fdiRow
  refine ⟨by omega, by omega, by omega, by omega⟩

open SqiModel.IdealKernel in
/-- and the guard is not vacuous / not too strict at level 1: it accepts exactly 20 ≤ bits(u) ≤ 133 -/
theorem L1_fdi_guard_range (b : ℤ) : fdiGuardRejects 248 134 (fdiLength 251 b) b = false ↔ (20 ≤ b ∧ b ≤ 133) := by
  unfold fdiGuardRejects fdiLength
  simp only [Bool.or_eq_false_iff, decide_eq_false_iff_not, not_lt, not_le]
  constructor
  · rintro ⟨⟨h1, h2⟩, h3⟩; omega
  · intro h; refine ⟨⟨by omega, by omega⟩, by omega⟩

end SqiProps.C13

import SqiModel.Quat
/-! PLACEHOLDER (harness branch a6-h14): replaced at merge by the real property theorems of C14. -/
namespace SqiProps.C14
open SqiModel.Quat

theorem placeholder_conj_conj (x : Elem) : algConj (algConj x) = x := by
  cases x with | mk d c => cases c with | mk a b c e => simp [algConj]

end SqiProps.C14

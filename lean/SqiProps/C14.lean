import SqiProofs.QuatAlg
import SqiProofs.QuatMat
import SqiProofs.HnfUnique
import SqiProofs.QuatLattice
import SqiProofs.QuatContains
import SqiProofs.QuatLatMul
import SqiProofs.QuatIndex
import SqiProofs.QuatDual
import SqiProofs.QuatCanon
import SqiProofs.QuatEqual
import SqiProofs.HnfEchelon
import SqiProofs.QuatGroupIndex
import SqiProofs.QuatO0
import SqiGen.QuatAlg
import SqiProofs.QuatAlgText
import SqiGen.QuatMat
import SqiGen.HnfCore
import SqiProofs.HnfText
/- C14 — "Quaternion algebra and lattice arithmetic is exact and canonical".
   Property theorems about the hand model `SqiModel.Quat` (tie H: the model's executable definitions are run
   against the C functions of algebra.c / dim4.c / lattice.c on every check run by tools/props/c14.py).
   GMP integers are modelled as exact `Int` (trusted base).  Notation:
     `H p`        Mathlib's `QuaternionAlgebra ℚ (-1) 0 (-p)`        `val p e`   value of a quat_alg_elem_t
     `spanL l`    ℤ-span in ℤ⁴ of a list of integer vectors         `ratLat L`  (1/denom)·ℤ-span(columns) ⊂ ℚ⁴
     `IsHNF m`    upper triangular, positive diagonal, 0 ≤ m[r][c] < m[r][r] for c > r (the C convention) -/
open SqiModel.Quat SqiProofs SqiProofs.QuatAlg SqiProofs.QuatMat SqiProofs.Hnf SqiProofs.QuatLattice

namespace SqiProps.C14

/-! ## algebra.c -/

/-- `quat_alg_mul` is multiplication in the quaternion algebra ramified at p and ∞, for all coordinates and all
    non-zero (also negative) denominators -/
theorem quat_alg_mul_exact (p : ℤ) (a b : Elem) (ha : a.denom ≠ 0) (hb : b.denom ≠ 0) :
    val p (algMul p a b) = val p a * val p b ∧ (algMul p a b).denom ≠ 0 :=
  ⟨algMul_val p a b ha hb, algMul_denom_ne p a b ha hb⟩

theorem quat_alg_add_exact (p : ℤ) (a b : Elem) (ha : a.denom ≠ 0) (hb : b.denom ≠ 0) :
    val p (algAdd a b) = val p a + val p b ∧ (algAdd a b).denom ≠ 0 := algAdd_val p a b ha hb

theorem quat_alg_sub_exact (p : ℤ) (a b : Elem) (ha : a.denom ≠ 0) (hb : b.denom ≠ 0) :
    val p (algSub a b) = val p a - val p b ∧ (algSub a b).denom ≠ 0 := algSub_val p a b ha hb

theorem quat_alg_conj_exact (p : ℤ) (a : Elem) : val p (algConj a) = star (val p a) := algConj_val p a

/-- `quat_alg_norm` returns the reduced norm z·z̄ (as the canonical rational) -/
theorem quat_alg_norm_exact (p : ℤ) (a : Elem) (ha : a.denom ≠ 0) :
    qval (algNorm p a) = some (nrm (val p a)) ∧ (val p a) * star (val p a) = ((nrm (val p a) : ℚ) : H p) :=
  ⟨algNorm_val p a ha, mul_star_eq_coe _⟩

theorem quat_alg_trace_exact (p : ℤ) (a : Elem) (ha : a.denom ≠ 0) :
    qval (algTrace a) = some (trc (val p a)) := algTrace_val p a ha

/-- the reduced norm is multiplicative, hence so is the model's norm on values -/
theorem quat_alg_norm_mul (p : ℤ) (a b : Elem) (ha : a.denom ≠ 0) (hb : b.denom ≠ 0) :
    nrm (val p (algMul p a b)) = nrm (val p a) * nrm (val p b) := by
  rw [algMul_val p a b ha hb, nrm_mul]

/-- `ibq_set`/`mpq_canonicalize`: results are canonical rationals -/
theorem ibq_canonical (a b : ℤ) (hb : b ≠ 0) :
    ∃ n d, ibqSet a b = some (n, d) ∧ 0 < d ∧ (n : ℚ) / d = (a : ℚ) / b ∧ Int.gcd n d = 1 := ibqSet_spec a b hb

theorem quat_alg_equal_denom_exact (p : ℤ) (a b : Elem) (ha : a.denom ≠ 0) (hb : b.denom ≠ 0) :
    val p (equalDenom a b).1 = val p a ∧ val p (equalDenom a b).2 = val p b ∧
    (equalDenom a b).1.denom = (equalDenom a b).2.denom ∧ (equalDenom a b).1.denom ≠ 0 := equalDenom_spec p a b ha hb

theorem quat_alg_normalize_exact (p : ℤ) (x : Elem) (hx : x.denom ≠ 0) :
    val p (algNormalize x) = val p x ∧ 0 < (algNormalize x).denom := algNormalize_val p x hx

/-- `from_1ijk_to_O0basis`: for an element of O₀ (the four divisibilities are exactly "x ∈ O₀"; the C code asserts them in
    debug builds only) the returned vector is the coordinate vector of x in the basis ⟨1, i, (i+j)/2, (1+ij)/2⟩ of O₀ -/
theorem o0basis_exact (el : Elem)
    (h0 : el.denom ∣ el.coord.x0 - el.coord.x3) (h1 : el.denom ∣ el.coord.x1 - el.coord.x2)
    (h2 : el.denom ∣ el.coord.x2 + el.coord.x2) (h3 : el.denom ∣ el.coord.x3 + el.coord.x3) :
    CoordsOf O0lat el (from1ijkToO0 el) := from1ijkToO0_spec el h0 h1 h2 h3

/-! ### tie T: the coordinate formula re-extracted from algebra.c on every run -/

/-- the `ibz_*` straight-line body of `quat_alg_mul` as translated from the current C text computes the model's
    (hence Mathlib's) product — a changed sign/term in the C formula breaks this proof at `lake build` -/
theorem quat_alg_mul_translated (p : ℤ) (a b : Elem) :
    SqiGen.QuatAlg.quat_alg_mul p a.denom a.coord.x0 a.coord.x1 a.coord.x2 a.coord.x3
        b.denom b.coord.x0 b.coord.x1 b.coord.x2 b.coord.x3 =
      ((algMul p a b).denom, (algMul p a b).coord.x0, (algMul p a b).coord.x1, (algMul p a b).coord.x2,
        (algMul p a b).coord.x3) := by
  unfold SqiGen.QuatAlg.quat_alg_mul algMul mulCoord
  refine Prod.ext ?_ (Prod.ext ?_ (Prod.ext ?_ (Prod.ext ?_ ?_))) <;> (try dsimp only) <;> ring

theorem quat_alg_conj_translated (x : Elem) :
    SqiGen.QuatAlg.quat_alg_conj x.denom x.coord.x0 x.coord.x1 x.coord.x2 x.coord.x3 =
      ((algConj x).denom, (algConj x).coord.x0, (algConj x).coord.x1, (algConj x).coord.x2, (algConj x).coord.x3) := by
  unfold SqiGen.QuatAlg.quat_alg_conj algConj
  refine Prod.ext ?_ (Prod.ext ?_ (Prod.ext ?_ (Prod.ext ?_ ?_))) <;> (try dsimp only) <;> ring

/-- consequently the translated C formula is multiplication in `H p` -/
theorem quat_alg_mul_translated_exact (p : ℤ) (a b : Elem) (ha : a.denom ≠ 0) (hb : b.denom ≠ 0) :
    let r := SqiGen.QuatAlg.quat_alg_mul p a.denom a.coord.x0 a.coord.x1 a.coord.x2 a.coord.x3
        b.denom b.coord.x0 b.coord.x1 b.coord.x2 b.coord.x3
    val p ⟨r.1, ⟨r.2.1, r.2.2.1, r.2.2.2.1, r.2.2.2.2⟩⟩ = val p a * val p b := by
  intro r
  have h : r = _ := quat_alg_mul_translated p a b
  rw [h]
  exact algMul_val p a b ha hb

/-! ### tie T (extension): the other straight-line bodies of algebra.c, re-extracted from the C text on every run.
    `G.f` below is the GENERATED definition (`for i<4` loops unrolled, `ibz_gcd`/`ibz_div` as `Int.gcd`/`Int.tdiv`, calls of
    translated functions kept as calls); `ofTup` reads the five `ibz_t` fields (denom, coord[0..3]) back as an element.
    A changed operand / index / sign in any of these C bodies breaks the corresponding proof at `lake build`. -/

/-- generated = hand model, for all inputs: `quat_alg_coord_add`, `quat_alg_coord_sub`, `quat_alg_equal_denom`,
    `quat_alg_add`, `quat_alg_sub` -/
theorem quat_alg_addsub_translated (a b : Elem) :
    SqiGen.QuatAlg.quat_alg_coord_add a.coord.x0 a.coord.x1 a.coord.x2 a.coord.x3 b.coord.x0 b.coord.x1 b.coord.x2 b.coord.x3
      = QuatAlgText.vtup (a.coord.add b.coord) ∧
    SqiGen.QuatAlg.quat_alg_coord_sub a.coord.x0 a.coord.x1 a.coord.x2 a.coord.x3 b.coord.x0 b.coord.x1 b.coord.x2 b.coord.x3
      = QuatAlgText.vtup (a.coord.sub b.coord) ∧
    SqiGen.QuatAlg.quat_alg_add a.denom a.coord.x0 a.coord.x1 a.coord.x2 a.coord.x3
        b.denom b.coord.x0 b.coord.x1 b.coord.x2 b.coord.x3 = QuatAlgText.tup (algAdd a b) ∧
    SqiGen.QuatAlg.quat_alg_sub a.denom a.coord.x0 a.coord.x1 a.coord.x2 a.coord.x3
        b.denom b.coord.x0 b.coord.x1 b.coord.x2 b.coord.x3 = QuatAlgText.tup (algSub a b) :=
  ⟨QuatAlgText.coord_add_gen _ _, QuatAlgText.coord_sub_gen _ _, QuatAlgText.add_gen a b, QuatAlgText.sub_gen a b⟩

/-- the translated `quat_alg_equal_denom` puts both elements on one non-zero denominator without changing their values -/
theorem quat_alg_equal_denom_translated_exact (p : ℤ) (a b : Elem) (ha : a.denom ≠ 0) (hb : b.denom ≠ 0) :
    let r := SqiGen.QuatAlg.quat_alg_equal_denom a.denom a.coord.x0 a.coord.x1 a.coord.x2 a.coord.x3
        b.denom b.coord.x0 b.coord.x1 b.coord.x2 b.coord.x3
    let ra : Elem := ⟨r.1, ⟨r.2.1, r.2.2.1, r.2.2.2.1, r.2.2.2.2.1⟩⟩
    let rb : Elem := ⟨r.2.2.2.2.2.1, ⟨r.2.2.2.2.2.2.1, r.2.2.2.2.2.2.2.1, r.2.2.2.2.2.2.2.2.1, r.2.2.2.2.2.2.2.2.2⟩⟩
    val p ra = val p a ∧ val p rb = val p b ∧ ra.denom = rb.denom ∧ ra.denom ≠ 0 := by
  intro r ra rb
  have h : r = _ := QuatAlgText.equal_denom_gen a b
  have hra : ra = (equalDenom a b).1 := by simp only [ra, h]
  have hrb : rb = (equalDenom a b).2 := by simp only [rb, h]
  rw [hra, hrb]
  exact equalDenom_spec p a b ha hb

/-- the translated C text of `quat_alg_add` is addition in `H p` (all coordinates, all non-zero denominators) -/
theorem quat_alg_add_translated_exact (p : ℤ) (a b : Elem) (ha : a.denom ≠ 0) (hb : b.denom ≠ 0) :
    let r := QuatAlgText.ofTup (SqiGen.QuatAlg.quat_alg_add a.denom a.coord.x0 a.coord.x1 a.coord.x2 a.coord.x3
        b.denom b.coord.x0 b.coord.x1 b.coord.x2 b.coord.x3)
    val p r = val p a + val p b ∧ r.denom ≠ 0 := by
  intro r
  have h : r = algAdd a b := by simp only [r, QuatAlgText.add_gen, QuatAlgText.ofTup_tup]
  rw [h]; exact algAdd_val p a b ha hb

/-- the translated C text of `quat_alg_sub` is subtraction in `H p` -/
theorem quat_alg_sub_translated_exact (p : ℤ) (a b : Elem) (ha : a.denom ≠ 0) (hb : b.denom ≠ 0) :
    let r := QuatAlgText.ofTup (SqiGen.QuatAlg.quat_alg_sub a.denom a.coord.x0 a.coord.x1 a.coord.x2 a.coord.x3
        b.denom b.coord.x0 b.coord.x1 b.coord.x2 b.coord.x3)
    val p r = val p a - val p b ∧ r.denom ≠ 0 := by
  intro r
  have h : r = algSub a b := by simp only [r, QuatAlgText.sub_gen, QuatAlgText.ofTup_tup]
  rw [h]; exact algSub_val p a b ha hb

/-- the translated C text of `quat_alg_conj` is the canonical involution of `H p` -/
theorem quat_alg_conj_translated_exact (p : ℤ) (x : Elem) :
    val p (QuatAlgText.ofTup (SqiGen.QuatAlg.quat_alg_conj x.denom x.coord.x0 x.coord.x1 x.coord.x2 x.coord.x3))
      = star (val p x) := by
  rw [quat_alg_conj_translated]; exact algConj_val p x

/-- the translated C text of `quat_alg_norm` (conj, mul, then `ibq_set` of coord[0] and denom — `ibq_set` = the model's
    canonicalisation `ibqSet`) returns the reduced norm of the value -/
theorem quat_alg_norm_translated_exact (p : ℤ) (a : Elem) (ha : a.denom ≠ 0) :
    let r := SqiGen.QuatAlg.quat_alg_norm p a.denom a.coord.x0 a.coord.x1 a.coord.x2 a.coord.x3
    qval (ibqSet r.1 r.2) = some (nrm (val p a)) := by
  intro r
  have h : ibqSet r.1 r.2 = algNorm p a := QuatAlgText.norm_gen p a
  rw [h]; exact algNorm_val p a ha

/-- the translated C text of `quat_alg_trace` returns the reduced trace of the value -/
theorem quat_alg_trace_translated_exact (p : ℤ) (a : Elem) (ha : a.denom ≠ 0) :
    let r := SqiGen.QuatAlg.quat_alg_trace a.denom a.coord.x0 a.coord.x1 a.coord.x2 a.coord.x3
    qval (ibqSet r.1 r.2) = some (trc (val p a)) := by
  intro r
  have h : ibqSet r.1 r.2 = algTrace a := QuatAlgText.trace_gen a
  rw [h]; exact algTrace_val p a ha

/-- generated = hand model for the setters `quat_alg_scalar`, `quat_alg_elem_copy_ibz`, `quat_alg_elem_mul_by_scalar` -/
theorem quat_alg_setters_translated (n d c0 c1 c2 c3 s : ℤ) (x : Elem) :
    SqiGen.QuatAlg.quat_alg_scalar n d = QuatAlgText.tup (algScalar n d) ∧
    SqiGen.QuatAlg.quat_alg_elem_copy_ibz d c0 c1 c2 c3 = QuatAlgText.tup ⟨d, ⟨c0, c1, c2, c3⟩⟩ ∧
    SqiGen.QuatAlg.quat_alg_elem_mul_by_scalar s x.denom x.coord.x0 x.coord.x1 x.coord.x2 x.coord.x3 =
      QuatAlgText.tup (elemMulByScalar s x) :=
  ⟨QuatAlgText.scalar_gen n d, QuatAlgText.copy_ibz_gen d c0 c1 c2 c3, QuatAlgText.mul_by_scalar_gen s x⟩

/-- the translated C text of `quat_alg_elem_is_zero` / `quat_alg_coord_is_zero` (`res &= ibz_is_zero(..)` over the four
    coordinates, C int 0/1 read as Bool) = the model, and it decides "the value is 0 in `H p`" for a non-zero denominator -/
theorem quat_alg_is_zero_translated_exact (p : ℤ) (x : Elem) (hx : x.denom ≠ 0) :
    SqiGen.QuatAlg.quat_alg_coord_is_zero x.coord.x0 x.coord.x1 x.coord.x2 x.coord.x3 = x.coord.isZero ∧
    SqiGen.QuatAlg.quat_alg_elem_is_zero x.denom x.coord.x0 x.coord.x1 x.coord.x2 x.coord.x3 = elemIsZero x ∧
    (SqiGen.QuatAlg.quat_alg_elem_is_zero x.denom x.coord.x0 x.coord.x1 x.coord.x2 x.coord.x3 = true ↔ val p x = 0) := by
  refine ⟨QuatAlgText.coord_is_zero_gen _, QuatAlgText.elem_is_zero_gen x, ?_⟩
  rw [QuatAlgText.elem_is_zero_gen]
  have hd : (x.denom : ℚ) ≠ 0 := by exact_mod_cast hx
  obtain ⟨d, ⟨x0, x1, x2, x3⟩⟩ := x
  have hd' : (d : ℚ) ≠ 0 := hd
  simp only [elemIsZero, Vec4.isZero, val, Bool.and_eq_true, beq_iff_eq, QuaternionAlgebra.ext_iff,
    QuaternionAlgebra.re_zero, QuaternionAlgebra.imI_zero, QuaternionAlgebra.imJ_zero, QuaternionAlgebra.imK_zero,
    div_eq_zero_iff, Int.cast_eq_zero, and_assoc, hd', or_false]

/-- the translated C text of `quat_alg_normalize` (content, gcd with the denominator, five truncated divisions, and the sign
    branch `if (0 < ibz_cmp(&zero, &x->denom))` as an if-then-else) = the model; it keeps the value in `H p` and makes the
    denominator positive -/
theorem quat_alg_normalize_translated_exact (p : ℤ) (x : Elem) (hx : x.denom ≠ 0) :
    let r := QuatAlgText.ofTup (SqiGen.QuatAlg.quat_alg_normalize x.denom x.coord.x0 x.coord.x1 x.coord.x2 x.coord.x3)
    r = algNormalize x ∧ val p r = val p x ∧ 0 < r.denom := by
  intro r
  have h : r = algNormalize x := by simp only [r, QuatAlgText.normalize_gen, QuatAlgText.ofTup_tup]
  rw [h]; exact ⟨rfl, algNormalize_val p x hx⟩

example : SqiGen.QuatAlg.quat_alg_normalize (-6) 4 (-2) 0 8 = (3, -2, 1, 0, -4) := by decide

/-- the translated C text of `from_1ijk_to_O0basis` (doubling of the j,k coordinates, the two differences, and the
    `if (!ibz_is_one(&el->denom))` block of truncated divisions as an if-then-else; debug-only asserts dropped) = the model,
    and for an element of O₀ it returns the coordinate vector in the basis of O₀ -/
theorem o0basis_translated_exact (el : Elem)
    (h0 : el.denom ∣ el.coord.x0 - el.coord.x3) (h1 : el.denom ∣ el.coord.x1 - el.coord.x2)
    (h2 : el.denom ∣ el.coord.x2 + el.coord.x2) (h3 : el.denom ∣ el.coord.x3 + el.coord.x3) :
    let v := QuatAlgText.ofVtup
      (SqiGen.QuatAlg.from_1ijk_to_O0basis el.denom el.coord.x0 el.coord.x1 el.coord.x2 el.coord.x3)
    v = from1ijkToO0 el ∧ CoordsOf O0lat el v := by
  intro v
  have h : v = from1ijkToO0 el := by simp only [v, QuatAlgText.o0basis_gen, QuatAlgText.ofVtup_vtup]
  rw [h]; exact ⟨rfl, from1ijkToO0_spec el h0 h1 h2 h3⟩

example : SqiGen.QuatAlg.from_1ijk_to_O0basis 2 5 3 1 1 = (2, 1, 1, 1) := by decide

/-- the translated C text of `quat_alg_rightmul_mat` (both fixed loops unrolled, one call of the GENERATED `quat_alg_mul` per
    column) = the model (all 16 entries, row-major), whose column i holds the numerators of eᵢ·a over the denominator of a:
    the matrix of right multiplication by a on the basis 1, i, j, ij of `H p` -/
theorem quat_alg_rightmul_mat_translated_exact (p : ℤ) (a : Elem) (ha : a.denom ≠ 0) :
    SqiGen.QuatAlg.quat_alg_rightmul_mat p a.denom a.coord.x0 a.coord.x1 a.coord.x2 a.coord.x3 =
      QuatAlgText.mtup (rightMulMat p a) ∧
    rightMulMat p a = Mat4.ofCols (algMul p ⟨1, ⟨1, 0, 0, 0⟩⟩ a).coord (algMul p ⟨1, ⟨0, 1, 0, 0⟩⟩ a).coord
      (algMul p ⟨1, ⟨0, 0, 1, 0⟩⟩ a).coord (algMul p ⟨1, ⟨0, 0, 0, 1⟩⟩ a).coord ∧
    ∀ e : Vec4, val p (algMul p ⟨1, e⟩ a) = val p ⟨1, e⟩ * val p a :=
  ⟨QuatAlgText.rightmul_mat_gen p a, rfl, fun e => algMul_val p ⟨1, e⟩ a one_ne_zero ha⟩

example : SqiGen.QuatAlg.quat_alg_rightmul_mat 3 1 0 1 0 0 = (0, -1, 0, 0, 1, 0, 0, 0, 0, 0, 0, 1, 0, 0, -1, 0) := by rfl

example : SqiGen.QuatAlg.quat_alg_sub 2 1 2 3 4 3 5 6 7 8 = (6, -7, -6, -5, -4) := by decide

/-- tie T: the entry scan of `ibz_mat_4x4_gcd` as translated from the current C text is the model's content of ALL 16
    entries (a scan restricted to part of the matrix — seeded change C14-m2 — breaks this proof at `lake build`) -/
theorem mat_gcd_translated (m : Mat4) : SqiGen.QuatMat.ibz_mat_4x4_gcd ibzGcd m.get = m.gcd := by
  obtain ⟨⟨a00, a01, a02, a03⟩, ⟨a10, a11, a12, a13⟩, ⟨a20, a21, a22, a23⟩, ⟨a30, a31, a32, a33⟩⟩ := m
  rfl

/-- tie T: `ibz_mat_4x4_scalar_div` as translated = the model (quotients and "all remainders zero" flag) -/
theorem mat_scalar_div_translated (s : ℤ) (m : Mat4) :
    SqiGen.QuatMat.ibz_mat_4x4_scalar_div Int.tdiv Int.tmod s m.get = ((m.scalarDiv s).1.toList, (m.scalarDiv s).2) := by
  obtain ⟨⟨a00, a01, a02, a03⟩, ⟨a10, a11, a12, a13⟩, ⟨a20, a21, a22, a23⟩, ⟨a30, a31, a32, a33⟩⟩ := m
  simp only [SqiGen.QuatMat.ibz_mat_4x4_scalar_div, Mat4.scalarDiv, Mat4.map, Vec4.map, Mat4.toList, Vec4.toList,
    Vec4.scalarDiv, Mat4.get, Mat4.row, Vec4.get, List.cons_append, List.nil_append, Prod.mk.injEq, true_and,
    Bool.true_and, Bool.and_assoc]

/-- tie T: the call skeleton of `quat_lattice_reduce_denom` as translated = the model `latReduceDenom` -/
theorem reduce_denom_translated (l : Lattice) :
    SqiGen.QuatMat.quat_lattice_reduce_denom ibzGcd Int.tdiv Int.tmod Mat4.gcd (fun s m => (Mat4.scalarDiv s m).1)
      l.denom l.basis = ((latReduceDenom l).denom, (latReduceDenom l).basis) := rfl

set_option maxHeartbeats 40000 in
/-- tie T: the data flow of `quat_lattice_add`, `quat_lattice_hnf`, `quat_lattice_dual_without_hnf` as translated from
    lattice.c (which basis is scaled by which denominator, which half of the 4×8 HNF input each fills, the product of the
    denominators, the transpose / adjugate / determinant roles in the dual, the final reduce_denom) = the model
    (`quat_lattice_intersect` is the composition dual ∘ add ∘ (dual, dual) followed by hnf, modelled as such) -/
theorem lattice_callers_translated (l1 l2 : Lattice) :
    SqiGen.QuatMat.quat_lattice_add (· * ·) Mat4.get Vec4.mk Mat4.scalarMul Mat4.transpose Mat4.invWithDet hnfCore
        (fun d b => ((latReduceDenom ⟨d, b⟩).denom, (latReduceDenom ⟨d, b⟩).basis)) l1.denom l1.basis l2.denom l2.basis
      = ((latAdd l1 l2).denom, (latAdd l1 l2).basis) ∧
    SqiGen.QuatMat.quat_lattice_hnf (· * ·) Mat4.get Vec4.mk Mat4.scalarMul Mat4.transpose Mat4.invWithDet hnfCore
        (fun d b => ((latReduceDenom ⟨d, b⟩).denom, (latReduceDenom ⟨d, b⟩).basis)) l1.denom l1.basis
      = ((latHnf l1).denom, (latHnf l1).basis) ∧
    SqiGen.QuatMat.quat_lattice_dual_without_hnf (· * ·) Mat4.get Vec4.mk Mat4.scalarMul Mat4.transpose Mat4.invWithDet
        hnfCore (fun d b => ((latReduceDenom ⟨d, b⟩).denom, (latReduceDenom ⟨d, b⟩).basis)) l1.denom l1.basis
      = ((latDualNoHnf l1).denom, (latDualNoHnf l1).basis) := by
  refine ⟨rfl, rfl, ?_⟩
  unfold SqiGen.QuatMat.quat_lattice_dual_without_hnf latDualNoHnf
  simp only []

/-! ## dim4.c -/

theorem mat_mul_exact (a b : Mat4) : toMatrix (a.mul b) = toMatrix a * toMatrix b := toMatrix_mul a b

/-- `ibz_mat_4x4_inv_with_det_as_denom`: the cofactor code returns the adjugate and the determinant -/
theorem inv_with_det (m : Mat4) :
    toMatrix m * toMatrix m.invWithDet.1 = m.invWithDet.2 • (1 : Matrix (Fin 4) (Fin 4) ℤ) ∧
    toMatrix m.invWithDet.1 * toMatrix m = m.invWithDet.2 • (1 : Matrix (Fin 4) (Fin 4) ℤ) ∧
    m.invWithDet.2 = (toMatrix m).det :=
  ⟨invWithDet_mul_right m, invWithDet_mul_left m, invWithDet_det m⟩

/-- **`ibz_mat_4x4_gcd` is the gcd of ALL 16 entries** of an arbitrary (not necessarily triangular) matrix: it is
    non-negative, divides every entry, and every common divisor of the sixteen entries divides it.  (A scan restricted
    to part of the matrix — e.g. the upper triangle "because bases are HNF" — fails the second clause on the
    non-triangular bases that `quat_lattice_reduce_denom` receives from `quat_lideal_create_principal`.) -/
theorem mat_gcd_exact (m : Mat4) :
    0 ≤ m.gcd ∧ (∀ r c, r < 4 → c < 4 → m.gcd ∣ m.get r c) ∧
    (∀ z : ℤ, (∀ r c, r < 4 → c < 4 → z ∣ m.get r c) → z ∣ m.gcd) :=
  ⟨mat_gcd_nonneg m, fun r c hr hc => mat_get_dvd m r c hr hc, fun z h => dvd_mat_gcd m z h⟩

/-! ### tie T for the Hermite-normal-form loop: arithmetic blocks and control skeleton re-extracted from dim4.c -/

/-- the guarded body of the inner loop as translated from the C text IS the model's `hnfStep` (xgcd call, the `u == 0`
    repair, both linear combinations with their coefficients and signs, the copy into a[k]) -/
theorem hnf_inner_step_translated (xgcd : ℤ → ℤ → ℤ × ℤ × ℤ) (i k j : Nat) (a : Cols) (h : Nat) :
    (hnfStep xgcd i k j a) h =
      ((a.set j (SqiGen.HnfCore.inner_step xgcd Int.tdiv Int.tmod Vec4.get Vec4.lc Vec4.neg i (a k) (a j)).1).set k
        (SqiGen.HnfCore.inner_step xgcd Int.tdiv Int.tmod Vec4.get Vec4.lc Vec4.neg i (a k) (a j)).2) h := by
  unfold hnfStep SqiGen.HnfCore.inner_step
  by_cases h0 : (a j).get i = 0
  · simp only [h0, if_true, ne_eq, not_true_eq_false, if_false, Cols.set]
    show a.get h = _
    split <;> [skip; split] <;> simp_all
  · simp only [h0, if_false, ne_eq, not_false_eq_true, if_true]

/-- the sign normalisation of the pivot as translated = the normalisation inside the model's `hnfRow` -/
theorem hnf_normalise_translated (xgcd : ℤ → ℤ → ℤ × ℤ × ℤ) (i : Nat) (ak : Vec4) :
    SqiGen.HnfCore.normalise xgcd Int.tdiv Int.tmod Vec4.get Vec4.lc Vec4.neg i ak =
      (if ak.get i < 0 then ak.neg else ak, if ak.get i < 0 then -(ak.get i) else ak.get i) := by
  unfold SqiGen.HnfCore.normalise
  rfl

/-- the body of the reduction loop as translated = the column update of the model's `hnfReduce` (truncated quotient,
    floor adjustment when the remainder is negative, subtraction of the multiple of the pivot column) -/
theorem hnf_reduce_step_translated (xgcd : ℤ → ℤ → ℤ × ℤ × ℤ) (i : Nat) (b : ℤ) (ak aj : Vec4) :
    SqiGen.HnfCore.reduce_step xgcd Int.tdiv Int.tmod Vec4.get Vec4.lc Vec4.neg i b ak aj =
      Vec4.lc 1 aj (-(if Int.tmod (aj.get i) b < 0 then Int.tdiv (aj.get i) b - 1 else Int.tdiv (aj.get i) b)) ak := by
  unfold SqiGen.HnfCore.reduce_step
  rfl

/-- … and that column update is literally one unfolding of `hnfReduce` -/
theorem hnfReduce_unfold (xgcd : ℤ → ℤ → ℤ × ℤ × ℤ) (i k : Nat) (b : ℤ) (n j : Nat) (a : Cols) :
    hnfReduce i k b (n + 1) j a = hnfReduce i k b n (j + 1)
      (a.set j (SqiGen.HnfCore.reduce_step xgcd Int.tdiv Int.tmod Vec4.get Vec4.lc Vec4.neg i b (a k) (a j))) := by
  rw [hnf_reduce_step_translated]
  rfl

/-- **`ibz_mat_4x8_hnf_core` as TEXT = the model**: the loop program (while/for loops, guards, the integer updates of i, j,
    k, position of the blocks) and the three arithmetic blocks, all translated from the current dim4.c, put together compute
    `hnfCore` — the function `hnf_span`, `hnf_echelon`, `hnf_is_hnf`, `hnf_canonical` are about — and every loop of the
    program ends through its own condition (final i = −1), so the fuel bound of the translation is never reached.
    (Input/output copy loops: `hnf_skeleton_translated`.) -/
theorem hnf_core_text (g : List Vec4) :
    (SqiGen.HnfCore.core (SqiProofs.HnfText.innerStepG xgcdGmp) (SqiProofs.HnfText.normG xgcdGmp)
        (SqiProofs.HnfText.reduceG xgcdGmp) (colsOfList g)).i = -1 ∧
    Mat4.ofCols
      ((SqiGen.HnfCore.core (SqiProofs.HnfText.innerStepG xgcdGmp) (SqiProofs.HnfText.normG xgcdGmp)
        (SqiProofs.HnfText.reduceG xgcdGmp) (colsOfList g)).a 4)
      ((SqiGen.HnfCore.core (SqiProofs.HnfText.innerStepG xgcdGmp) (SqiProofs.HnfText.normG xgcdGmp)
        (SqiProofs.HnfText.reduceG xgcdGmp) (colsOfList g)).a 5)
      ((SqiGen.HnfCore.core (SqiProofs.HnfText.innerStepG xgcdGmp) (SqiProofs.HnfText.normG xgcdGmp)
        (SqiProofs.HnfText.reduceG xgcdGmp) (colsOfList g)).a 6)
      ((SqiGen.HnfCore.core (SqiProofs.HnfText.innerStepG xgcdGmp) (SqiProofs.HnfText.normG xgcdGmp)
        (SqiProofs.HnfText.reduceG xgcdGmp) (colsOfList g)).a 7) = hnfCore g :=
  SqiProofs.HnfText.core_text_eq_model xgcdGmp g

/-- the control skeleton of `ibz_mat_4x8_hnf_core` / `ibz_mat_4x4_hnf_mod` extracted from the current C text (initial
    values of i, j, k; loop headers; guards; the integer updates of i/j/k; position of the three arithmetic blocks; input
    and output copy loops with their index expressions) is the one the hand model implements (documented at
    `SqiModel.Quat.hnfCoreSkeleton`).  Syntactic tie: any change of the loop structure breaks this proof. -/
theorem hnf_skeleton_translated :
    SqiGen.HnfCore.skeleton = hnfCoreSkeleton ∧ SqiGen.HnfCore.skeleton_mod = hnfModSkeleton := by decide

/-- the model of `mpz_gcdext` returns a positive gcd with Bezout cofactors -/
theorem xgcd_bezout : XgcdSpec xgcdGmp := SqiProofs.Xgcd.xgcdGmp_spec

/-- **`hnf_span`**: for every 4×8 input (any rank, any entry size, any signs) the four output columns of
    `ibz_mat_4x8_hnf_core` generate the same ℤ-lattice as the eight input columns -/
theorem hnf_span (g : List Vec4) (hg : g.length ≤ 8) : spanL (hnfCore g).cols = spanL g := hnfCore_span g hg

/-- the output is always upper triangular, and every row with non-zero diagonal is normalised -/
theorem hnf_shape (g : List Vec4) :
    (∀ r c, r < 4 → c < r → (hnfCore g).get r c = 0) ∧
    ∀ r, r < 4 → (hnfCore g).get r r ≠ 0 →
      0 < (hnfCore g).get r r ∧ ∀ c, r < c → c < 4 → 0 ≤ (hnfCore g).get r c ∧ (hnfCore g).get r c < (hnfCore g).get r r :=
  hnfCoreWith_shape SqiProofs.Xgcd.xgcdGmp_spec g

/-- **rank-deficient inputs included**: every output of `ibz_mat_4x8_hnf_core` is in echelon Hermite form — `z` zero
    columns (z = 4 − rank) followed by pivot columns whose pivots (lowest non-zero entry of the column) are positive, lie in
    strictly increasing rows, have only zeros to their left in their row and entries in `[0, pivot)` to their right.
    Together with `hnf_span` (same lattice for every input) this is the full description of the routine on inputs of
    any rank; uniqueness is proved for full rank only (`hnf_canonical`). -/
theorem hnf_echelon (g : List Vec4) : IsEchelonHNF (hnfCore g) := hnfCore_echelon g

/-- **`hnf_is_hnf`**: full-rank input ⇒ the output is in Hermite normal form -/
theorem hnf_is_hnf (g : List Vec4) (hg : g.length ≤ 8) (hfr : FullRank (spanL g)) : IsHNF (hnfCore g) :=
  hnfCore_isHNF g hg hfr

/-- **canonicity**: the Hermite normal form of a lattice is unique, so the output of the routine is *the* HNF
    of the input lattice: it coincides with any HNF matrix generating the same lattice -/
theorem hnf_canonical (g : List Vec4) (hg : g.length ≤ 8) (hfr : FullRank (spanL g)) (m : Mat4) (hm : IsHNF m)
    (hspan : spanL m.cols = spanL g) : hnfCore g = m :=
  hnf_unique hm (hnf_is_hnf g hg hfr) (by rw [hnf_span g hg, hspan])

/-- `ibz_mat_4x4_hnf_mod` returns the HNF of the lattice generated by the columns of `m` together with `md·ℤ⁴` -/
theorem hnf_mod_exact (m : Mat4) (md : ℤ) (hmd : md ≠ 0) :
    spanL (hnfMod m md).cols = spanL m.cols ⊔ spanL (Mat4.scalarMul md Mat4.identity).cols ∧ IsHNF (hnfMod m md) :=
  hnfMod_spec m md hmd

/-! ## lattice.c -/

/-- `quat_lattice_reduce_denom` keeps the rational lattice for EVERY integer basis — no HNF / triangularity / rank
    hypothesis: it is also applied to the full matrix mulmat(x)·O in `quat_lideal_create_principal` -/
theorem lattice_reduce_denom_exact (l : Lattice) (hd : l.denom ≠ 0) :
    ratLat (latReduceDenom l) = ratLat l ∧ (latReduceDenom l).denom ≠ 0 := latReduceDenom_spec l hd

theorem lattice_hnf_exact (l : Lattice) (hd : l.denom ≠ 0) :
    ratLat (latHnf l) = ratLat l ∧ (latHnf l).denom ≠ 0 := latHnf_spec l hd

/-- `quat_lattice_add` returns L₁ + L₂, with an HNF basis when L₁ has full rank -/
theorem lattice_add_exact (l1 l2 : Lattice) (h1 : l1.denom ≠ 0) (h2 : l2.denom ≠ 0) :
    ratLat (latAdd l1 l2) = ratLat l1 ⊔ ratLat l2 ∧ (latAdd l1 l2).denom ≠ 0 ∧
    ((toMatrix l1.basis).det ≠ 0 → IsHNF (latAdd l1 l2).basis) :=
  ⟨(latAdd_spec l1 l2 h1 h2).1, (latAdd_spec l1 l2 h1 h2).2, latAdd_isHNF l1 l2 h1 h2⟩

/-- `quat_lattice_contains`: flag and coordinates are correct (soundness for every basis; completeness for HNF bases) -/
theorem lattice_contains_exact (l : Lattice) (x : Elem) (hl : l.denom ≠ 0) (hx : x.denom ≠ 0) :
    ((latContains l x).1 = true → CoordsOf l x (latContains l x).2) ∧
    (IsHNF l.basis → ((latContains l x).1 = true ↔ qvec x.denom x.coord ∈ ratLat l)) ∧
    (IsHNF l.basis → ∀ c, CoordsOf l x c → latContains l x = (true, c)) :=
  ⟨latContains_sound l x, latContains_iff l x hl hx,
   fun hn c hc => latContains_complete l x c hx hn.1 (fun r hr => ne_of_gt (hn.2 r hr).1) hc⟩

/-- `quat_lattice_equal` decides equality of lattices given in HNF -/
theorem lattice_equal_exact (l1 l2 : Lattice) (h1 : l1.denom ≠ 0) (h2 : l2.denom ≠ 0)
    (hn1 : IsHNF l1.basis) (hn2 : IsHNF l2.basis) : latEqual l1 l2 = true ↔ ratLat l1 = ratLat l2 :=
  latEqual_spec l1 l2 h1 h2 hn1 hn2

/-- `quat_lattice_mul` returns the product lattice L₁·L₂ = ℤ-span{x·y} in the algebra (Mathlib's product of
    ℤ-submodules of `H p`) -/
theorem lattice_mul_exact (p : ℤ) (l1 l2 : Lattice) (h1 : l1.denom ≠ 0) (h2 : l2.denom ≠ 0) :
    hLat p (latMul p l1 l2) = hLat p l1 * hLat p l2 ∧ (latMul p l1 l2).denom ≠ 0 := latMul_spec p l1 l2 h1 h2

/-- `quat_lattice_dual_without_hnf` returns the dual lattice {y | ⟨x,y⟩ ∈ ℤ ∀ x ∈ L} (standard pairing), and
    dualising twice gives L back -/
theorem lattice_dual_exact (l : Lattice) (hd : l.denom ≠ 0) (hdet : (toMatrix l.basis).det ≠ 0) :
    ratLat (latDualNoHnf l) = Dual (ratLat l) ∧ Dual (ratLat (latDualNoHnf l)) = ratLat l :=
  ⟨(latDual_spec l hd hdet).1, (latDual_spec l hd hdet).2.1⟩

/-- `quat_lattice_intersect` returns L₁ ∩ L₂ with an HNF basis, for full-rank lattices with arbitrary
    (different, negative) denominators -/
theorem lattice_intersect_exact (l1 l2 : Lattice) (h1 : l1.denom ≠ 0) (h2 : l2.denom ≠ 0)
    (hd1 : (toMatrix l1.basis).det ≠ 0) (hd2 : (toMatrix l2.basis).det ≠ 0) :
    ratLat (latIntersect l1 l2) = ratLat l1 ⊓ ratLat l2 ∧ (latIntersect l1 l2).denom ≠ 0 ∧
    IsHNF (latIntersect l1 l2).basis ∧ Reduced (latIntersect l1 l2) := latIntersect_spec l1 l2 h1 h2 hd1 hd2

/-- the basis returned by `quat_lattice_mul` is in Hermite normal form (both factors of full rank, p > 0: the algebra
    has no zero divisors, so already (first column of L₁)·L₂ has full rank) -/
theorem lattice_mul_isHNF (p : ℤ) (hp : 0 < p) (l1 l2 : Lattice) (h1 : l1.denom ≠ 0) (h2 : l2.denom ≠ 0)
    (hd1 : (toMatrix l1.basis).det ≠ 0) (hd2 : (toMatrix l2.basis).det ≠ 0) : IsHNF (latMul p l1 l2).basis :=
  latMul_isHNF p hp l1 l2 h1 h2 hd1 hd2

/-- `quat_lattice_equal` is reflexive and symmetric for ALL inputs and transitive whenever the middle denominator is
    non-zero — as a relation on the data, independent of any HNF precondition (a comparison that takes the absolute
    value of the wrong denominator breaks the symmetry clause) -/
theorem lattice_equal_equivalence (l1 l2 l3 : Lattice) :
    latEqual l1 l1 = true ∧ latEqual l1 l2 = latEqual l2 l1 ∧
    (l2.denom ≠ 0 → latEqual l1 l2 = true → latEqual l2 l3 = true → latEqual l1 l3 = true) :=
  ⟨latEqual_refl l1, latEqual_symm l1 l2, latEqual_trans l1 l2 l3⟩

/-- `quat_lattice_index` is the covolume ratio (the index when sub ⊆ over), for triangular bases -/
theorem lattice_index_exact (sub over : Lattice) (hs : sub.denom ≠ 0) (ho : over.denom ≠ 0)
    (hts : ∀ r c, r < 4 → c < r → sub.basis.get r c = 0) (hto : ∀ r c, r < 4 → c < r → over.basis.get r c = 0)
    (hdo : (toMatrix over.basis).det ≠ 0)
    (hdvd : (sub.denom * sub.denom * (sub.denom * sub.denom) * (toMatrix over.basis).det) ∣
            (over.denom * over.denom * (over.denom * over.denom) * (toMatrix sub.basis).det)) :
    (latIndex sub over : ℚ) = covol sub / covol over := latIndex_spec sub over hs ho hts hto hdo hdvd

/-! ### tie T for lattice.c: the exactness theorems restated on the GENERATED definitions -/

/-- the translated C text of `quat_lattice_index` (fourth powers of the denominators, products of the diagonals, truncated
    division, absolute value) = the model, and is the covolume ratio under the hypotheses of `lattice_index_exact` -/
theorem lattice_index_translated_exact (sub over : Lattice) (hs : sub.denom ≠ 0) (ho : over.denom ≠ 0)
    (hts : ∀ r c, r < 4 → c < r → sub.basis.get r c = 0) (hto : ∀ r c, r < 4 → c < r → over.basis.get r c = 0)
    (hdo : (toMatrix over.basis).det ≠ 0)
    (hdvd : (sub.denom * sub.denom * (sub.denom * sub.denom) * (toMatrix over.basis).det) ∣
            (over.denom * over.denom * (over.denom * over.denom) * (toMatrix sub.basis).det)) :
    ((SqiGen.QuatAlg.quat_lattice_index sub.denom (sub.basis.get 0 0) (sub.basis.get 1 1) (sub.basis.get 2 2)
      (sub.basis.get 3 3) over.denom (over.basis.get 0 0) (over.basis.get 1 1) (over.basis.get 2 2)
      (over.basis.get 3 3) : ℤ) : ℚ) = covol sub / covol over := by
  rw [QuatAlgText.lattice_index_gen]; exact latIndex_spec sub over hs ho hts hto hdo hdvd

/-- the translated call skeleton of `quat_lattice_reduce_denom` (SqiGen.QuatMat; `ibz_mat_4x4_gcd`, `ibz_gcd`, the scalar
    divisions) keeps the rational lattice and a non-zero denominator -/
theorem lattice_reduce_denom_translated_exact (l : Lattice) (hd : l.denom ≠ 0) :
    let r := SqiGen.QuatMat.quat_lattice_reduce_denom ibzGcd Int.tdiv Int.tmod Mat4.gcd
      (fun s m => (Mat4.scalarDiv s m).1) l.denom l.basis
    ratLat ⟨r.1, r.2⟩ = ratLat l ∧ r.1 ≠ 0 := by
  intro r
  have h : r = _ := reduce_denom_translated l
  rw [h]; exact latReduceDenom_spec l hd

/-- the translated data flow of `quat_lattice_dual_without_hnf` (transpose, adjugate / determinant roles, reduce_denom)
    returns the dual lattice -/
theorem lattice_dual_translated_exact (l : Lattice) (hd : l.denom ≠ 0) (hdet : (toMatrix l.basis).det ≠ 0) :
    let r := SqiGen.QuatMat.quat_lattice_dual_without_hnf (· * ·) Mat4.get Vec4.mk Mat4.scalarMul Mat4.transpose
      Mat4.invWithDet hnfCore (fun d b => ((latReduceDenom ⟨d, b⟩).denom, (latReduceDenom ⟨d, b⟩).basis)) l.denom l.basis
    ratLat ⟨r.1, r.2⟩ = Dual (ratLat l) ∧ Dual (ratLat ⟨r.1, r.2⟩) = ratLat l := by
  intro r
  have h : r = _ := (lattice_callers_translated l l).2.2
  rw [h]; exact ⟨(latDual_spec l hd hdet).1, (latDual_spec l hd hdet).2.1⟩

/-- every lattice routine ends with `quat_lattice_reduce_denom`, whose output is reduced (gcd(content, denom) = 1) -/
theorem lattice_outputs_reduced (p : ℤ) (l1 l2 : Lattice) (h1 : l1.denom ≠ 0) (h2 : l2.denom ≠ 0) :
    Reduced (latReduceDenom l1) ∧ Reduced (latHnf l1) ∧ Reduced (latAdd l1 l2) ∧ Reduced (latMul p l1 l2) :=
  ⟨latReduceDenom_reduced l1 h1, latReduceDenom_reduced _ h1, latReduceDenom_reduced _ (mul_ne_zero h1 h2),
   latReduceDenom_reduced _ (mul_ne_zero h1 h2)⟩

/-- **canonical representation**: a rational lattice has exactly one representation with an HNF basis and a reduced
    denominator, up to the sign of the denominator (which the C code does not normalise) -/
theorem lattice_canonical (l1 l2 : Lattice) (h1 : l1.denom ≠ 0) (h2 : l2.denom ≠ 0)
    (hn1 : IsHNF l1.basis) (hn2 : IsHNF l2.basis) (r1 : Reduced l1) (r2 : Reduced l2)
    (h : ratLat l1 = ratLat l2) : l1.basis = l2.basis ∧ l1.denom.natAbs = l2.denom.natAbs :=
  lattice_repr_unique l1 l2 h1 h2 hn1 hn2 r1 r2 h

/-- **`quat_lattice_index` is the group index**: for nested full-rank lattices with triangular (e.g. HNF) bases the
    result is [over : sub] = Mathlib's `AddSubgroup.relIndex` of the two rational lattices (the exactness of the
    integer division asserted in the C code follows from the inclusion) -/
theorem lattice_index_is_group_index (sub over : Lattice) (hs : sub.denom ≠ 0) (ho : over.denom ≠ 0)
    (hts : ∀ r c, r < 4 → c < r → sub.basis.get r c = 0) (hto : ∀ r c, r < 4 → c < r → over.basis.get r c = 0)
    (hds : (toMatrix sub.basis).det ≠ 0) (hdo : (toMatrix over.basis).det ≠ 0) (hle : ratLat sub ≤ ratLat over) :
    latIndex sub over = (((ratLat sub).toAddSubgroup.relIndex (ratLat over).toAddSubgroup : ℕ) : ℤ) ∧
    (((ratLat sub).toAddSubgroup.relIndex (ratLat over).toAddSubgroup : ℕ) : ℚ) = covol sub / covol over :=
  ⟨latIndex_eq_relIndex sub over hs ho hts hto hds hdo hle, relIndex_eq_covol_ratio sub over hs ho hds hdo hle⟩

/-- inclusion of full-rank lattices with equal covolume is equality -/
theorem lattice_eq_of_le_of_covol (l' l : Lattice) (hd' : l'.denom ≠ 0) (hd : l.denom ≠ 0)
    (hne : (toMatrix l.basis).det ≠ 0) (hle : ratLat l' ≤ ratLat l) (hcov : covol l' = covol l) :
    ratLat l' = ratLat l := ratLat_eq_of_le_of_covol l' l hd' hd hne hle hcov

/-! ## non-vacuity: the hypotheses are met by concrete non-trivial instances -/

/-- the maximal order O₀ = ⟨1, i, (i+j)/2, (1+k)/2⟩ (denominator 2) has an HNF basis -/
def O0 : Lattice := ⟨2, ⟨⟨2, 0, 0, 1⟩, ⟨0, 2, 1, 0⟩, ⟨0, 0, 1, 0⟩, ⟨0, 0, 0, 1⟩⟩⟩

example : IsHNF O0.basis := by
  refine ⟨?_, ?_⟩
  · intro r c hr hc; interval_cases r <;> interval_cases c <;> rfl
  · intro r hr
    interval_cases r
    all_goals refine ⟨by decide, fun c h1 h2 => ?_⟩
    all_goals interval_cases c <;> exact ⟨by decide, by decide⟩

example : O0.denom ≠ 0 ∧ (toMatrix O0.basis).det ≠ 0 := by
  refine ⟨by decide, ?_⟩
  rw [← invWithDet_det]; decide

example : FullRank (spanL O0.basis.cols) := by
  apply fullRank_of_det (m := O0.basis)
  · rw [← invWithDet_det]; decide
  · intro x hx; exact hx

example : (⟨-3, ⟨1, -2, 5, 7⟩⟩ : Elem).denom ≠ 0 := by decide

example : Reduced O0 := by unfold Reduced; decide

/-- nested pair for the index theorems: 2·O₀ ⊂ O₀ (same basis, denominator 1 instead of 2), index 2⁴ -/
example : latIndex ⟨1, O0.basis⟩ O0 = 16 := by decide

/-- a non-triangular basis whose upper triangle is divisible by 7 while the whole matrix has content 1: mulmat(x) for
    x = (7 + 14i + j + 2ij)/7 in the algebra with p = 7 (the basis `quat_lideal_create_principal` reduces before the HNF) -/
example : (rightMulMat 7 ⟨7, ⟨7, 14, 1, 2⟩⟩).gcd = 1 ∧
    latReduceDenom ⟨7, rightMulMat 7 ⟨7, ⟨7, 14, 1, 2⟩⟩⟩ = ⟨7, rightMulMat 7 ⟨7, ⟨7, 14, 1, 2⟩⟩⟩ := by decide

/-- non-vacuity of `hnf_echelon` in the rank-deficient case: rank 3 input ⇒ exactly one zero column in front -/
example : (hnfCore [⟨1, 0, 0, 0⟩, ⟨2, 0, 0, 0⟩, ⟨0, 1, 0, 0⟩, ⟨0, 0, 1, 0⟩]).cols =
    [⟨0, 0, 0, 0⟩, ⟨1, 0, 0, 0⟩, ⟨0, 1, 0, 0⟩, ⟨0, 0, 1, 0⟩] := by decide

/-- a rank-deficient input really produces a zero diagonal entry (so the hypothesis of `hnf_is_hnf` matters) -/
example : (hnfCore [⟨1, 0, 0, 0⟩, ⟨2, 0, 0, 0⟩, ⟨0, 1, 0, 0⟩, ⟨0, 0, 1, 0⟩]).get 0 0 = 0 := by decide

end SqiProps.C14

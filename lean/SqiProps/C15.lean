import SqiModel.Ideal
import SqiGen.Tables1
import SqiGen.Tables3
import SqiGen.Tables5
/- C15 — left ideals and orders.  Property theorems only (+ non-vacuity examples). -/
namespace SqiProps.C15
open SqiModel.Quat SqiModel.Ideal

/-! ## Table facts (tie T): every extremal maximal order linked into the library, per level.
    `maxOrderOk p t`  = basis in HNF with non-zero diagonal ∧ contains 1 ∧ all 16 products of basis vectors lie in the
                        lattice (verified `algMul` + `latContains`) ∧ trace-form discriminant `16·p²·det(B)²/d⁸ = p²`.
    `extremalOk p e`  = `maxOrderOk` ∧ stored `i`, `j` lie in the order ∧ `i² = -q` ∧ `j² = -p` ∧ `ij = -ji` ∧ `q > 0`. -/

theorem L1_maxord_O0_ok : maxOrderOk SqiGen.L1.W64.QUATALG_PINFTY_p SqiGen.L1.W64.MAXORD_O0 = true := by decide +kernel
theorem L3_maxord_O0_ok : maxOrderOk SqiGen.L3.W64.QUATALG_PINFTY_p SqiGen.L3.W64.MAXORD_O0 = true := by decide +kernel
theorem L5_maxord_O0_ok : maxOrderOk SqiGen.L5.W64.QUATALG_PINFTY_p SqiGen.L5.W64.MAXORD_O0 = true := by decide +kernel

theorem L1_standard_extremal_ok :
    extremalOk SqiGen.L1.W64.QUATALG_PINFTY_p SqiGen.L1.W64.STANDARD_EXTREMAL_ORDER = true ∧
    SqiGen.L1.W64.STANDARD_EXTREMAL_ORDER.1 = SqiGen.L1.W64.MAXORD_O0 := by decide +kernel
theorem L3_standard_extremal_ok :
    extremalOk SqiGen.L3.W64.QUATALG_PINFTY_p SqiGen.L3.W64.STANDARD_EXTREMAL_ORDER = true ∧
    SqiGen.L3.W64.STANDARD_EXTREMAL_ORDER.1 = SqiGen.L3.W64.MAXORD_O0 := by decide +kernel
theorem L5_standard_extremal_ok :
    extremalOk SqiGen.L5.W64.QUATALG_PINFTY_p SqiGen.L5.W64.STANDARD_EXTREMAL_ORDER = true ∧
    SqiGen.L5.W64.STANDARD_EXTREMAL_ORDER.1 = SqiGen.L5.W64.MAXORD_O0 := by decide +kernel

theorem L1_alternate_extremal_ok :
    SqiGen.L1.W64.ALTERNATE_EXTREMAL_ORDERS.length = SqiGen.L1.D_NUM_ALTERNATE_EXTREMAL_ORDERS ∧
    SqiGen.L1.W64.ALTERNATE_EXTREMAL_ORDERS.all (extremalOk SqiGen.L1.W64.QUATALG_PINFTY_p) = true := by decide +kernel
theorem L3_alternate_extremal_ok :
    SqiGen.L3.W64.ALTERNATE_EXTREMAL_ORDERS.length = SqiGen.L3.D_NUM_ALTERNATE_EXTREMAL_ORDERS ∧
    SqiGen.L3.W64.ALTERNATE_EXTREMAL_ORDERS.all (extremalOk SqiGen.L3.W64.QUATALG_PINFTY_p) = true := by decide +kernel
theorem L5_alternate_extremal_ok :
    SqiGen.L5.W64.ALTERNATE_EXTREMAL_ORDERS.length = SqiGen.L5.D_NUM_ALTERNATE_EXTREMAL_ORDERS ∧
    SqiGen.L5.W64.ALTERNATE_EXTREMAL_ORDERS.all (extremalOk SqiGen.L5.W64.QUATALG_PINFTY_p) = true := by decide +kernel

/-- the algebra constants: `QUATALG_PINFTY.p` is the level's prime (≡ 3 mod 4) and `gram = diag(1,1,p,p)` -/
theorem L1_quatalg_ok :
    SqiGen.L1.W64.QUATALG_PINFTY_p = (SqiGen.L1.FP_p : Int) ∧ SqiGen.L1.W64.QUATALG_PINFTY_p % 4 = 3 ∧
    SqiGen.L1.W64.QUATALG_PINFTY_gram = [[1, 0, 0, 0], [0, 1, 0, 0], [0, 0, SqiGen.L1.W64.QUATALG_PINFTY_p, 0], [0, 0, 0, SqiGen.L1.W64.QUATALG_PINFTY_p]] := by
  decide +kernel
theorem L3_quatalg_ok :
    SqiGen.L3.W64.QUATALG_PINFTY_p = (SqiGen.L3.FP_p : Int) ∧ SqiGen.L3.W64.QUATALG_PINFTY_p % 4 = 3 ∧
    SqiGen.L3.W64.QUATALG_PINFTY_gram = [[1, 0, 0, 0], [0, 1, 0, 0], [0, 0, SqiGen.L3.W64.QUATALG_PINFTY_p, 0], [0, 0, 0, SqiGen.L3.W64.QUATALG_PINFTY_p]] := by
  decide +kernel
theorem L5_quatalg_ok :
    SqiGen.L5.W64.QUATALG_PINFTY_p = (SqiGen.L5.FP_p : Int) ∧ SqiGen.L5.W64.QUATALG_PINFTY_p % 4 = 3 ∧
    SqiGen.L5.W64.QUATALG_PINFTY_gram = [[1, 0, 0, 0], [0, 1, 0, 0], [0, 0, SqiGen.L5.W64.QUATALG_PINFTY_p, 0], [0, 0, 0, SqiGen.L5.W64.QUATALG_PINFTY_p]] := by
  decide +kernel

end SqiProps.C15

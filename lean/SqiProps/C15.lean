import SqiModel.Ideal
import SqiProofs.Ideal
import SqiProofs.IdealCovol
import SqiProofs.IdealPrim
import SqiGen.Tables1
import SqiGen.Tables3
import SqiGen.Tables5
/- C15 — left ideals and orders.  Property theorems only (+ non-vacuity examples). -/
namespace SqiProps.C15
open SqiModel.Quat SqiModel.Ideal SqiProofs.QuatAlg SqiProofs.QuatMat SqiProofs.Hnf SqiProofs.QuatLattice SqiProofs.Ideal
open SqiProofs.IdealAlg SqiProofs.IdealFull SqiProofs.IdealCovol SqiProofs.IdealPrim
open scoped Pointwise

/-! Notation: `H p = ℍ[ℚ, -1, 0, -p]` (Mathlib `QuaternionAlgebra`), `val p x : H p` the value of a
    `quat_alg_elem_t`, `hLat p L : Submodule ℤ (H p)` the ℤ-lattice denoted by a `quat_lattice_t`, products of
    lattices are Mathlib's products of submodules, `smulLat p N L = N·L`, `nrm` the reduced norm, `covol` the covolume
    in the coordinates (1, i, j, ij).  All statements are about the executable model `SqiModel.Ideal`, which the
    correspondence harness runs against ideal.c on every check. -/

/-! ## Constructors -/

/-- `quat_lideal_create_principal`: the lattice is `O·x`; the stored norm is `N(x)` when that is an integer. -/
theorem create_principal_spec (p : ℤ) (x : Elem) (O : Lattice) (prev : ℤ) (hO : O.denom ≠ 0) (hx : x.denom ≠ 0) :
    hLat p (createPrincipal p x O prev).lattice = hLat p O * Submodule.span ℤ {val p x} ∧
    (createPrincipal p x O prev).lattice.denom ≠ 0 ∧ (createPrincipal p x O prev).order = O ∧
    ∀ n : ℤ, nrm (val p x) = n → (createPrincipal p x O prev).norm = n :=
  ⟨(principalLattice_spec p x O hO hx).1, (principalLattice_spec p x O hO hx).2, rfl,
   fun n hn => createPrincipal_norm p x O prev n hx hn⟩

/-- `quat_lideal_create_from_primitive`: the returned lattice is `O·x + N·O`; when `O` is a ring with 1 it is a left
    `O`-module containing `x` and `N`; the stored norm is `gcd(N(x), N)`.
    Full property (stored norm² = index `[O : I]` for primitive `x` in a maximal order): see
    `create_from_primitive_norm_index_partial`. -/
theorem create_from_primitive_spec (p : ℤ) (x : Elem) (N : ℤ) (O : Lattice) (prev : ℤ)
    (hO : O.denom ≠ 0) (hx : x.denom ≠ 0) :
    let I := createFromPrimitive p x N O prev
    hLat p I.lattice = hLat p O * Submodule.span ℤ {val p x} ⊔ smulLat p N (hLat p O) ∧
    I.lattice.denom ≠ 0 ∧ I.order = O ∧
    (hLat p O * hLat p O ≤ hLat p O → hLat p O * hLat p I.lattice ≤ hLat p I.lattice) ∧
    ((1 : H p) ∈ hLat p O → val p x ∈ hLat p I.lattice ∧ ((N : ℤ) : H p) ∈ hLat p I.lattice) ∧
    (∀ n : ℤ, nrm (val p x) = n → I.norm = (Int.gcd n N : ℤ)) := by
  intro I
  obtain ⟨e, d⟩ := createFromPrimitive_lattice p x N O prev hO hx
  refine ⟨e, d, rfl, ?_, ?_, fun n hn => createFromPrimitive_norm p x N O prev n hx hn⟩
  · intro hring
    show hLat p O * hLat p (createFromPrimitive p x N O prev).lattice ≤ hLat p (createFromPrimitive p x N O prev).lattice
    rw [e]; exact leftIdeal_of_gen p N _ _ hring
  · intro h1
    show val p x ∈ hLat p (createFromPrimitive p x N O prev).lattice ∧ _ ∈ hLat p (createFromPrimitive p x N O prev).lattice
    rw [e]; exact ⟨gen_mem p N _ _ h1, scalar_mem p N _ _ h1⟩

/-- PARTIAL.  Full statement: *for `x` primitive in the maximal order `O`, `N(I)² = [O : I]`* — it needs the local
    structure theory of maximal orders, which is not formalised.  Proved instead: the test that the C code performs
    only in debug builds (here without the division, `normCovolOk`) is sound; the harness evaluates it on every ideal
    returned by the C constructors, and the independent oracle recomputes the index. -/
theorem create_from_primitive_norm_index_partial (I : LeftIdeal) (h : normCovolOk I = true) :
    covol I.lattice = covol I.order * ((I.norm : ℚ) ^ 2) := normCovolOk_sound I h

/-- `quat_lideal_make_primitive_then_create` is `create_from_primitive` on the primitive part of `x` (coordinates in
    the order's basis divided by their content) and `N / gcd(content, N)`. -/
theorem make_primitive_then_create_spec (p : ℤ) (x : Elem) (N : ℤ) (O : Lattice) (prev : ℤ) :
    makePrimitiveThenCreate p x N O prev =
      createFromPrimitive p ⟨O.denom, O.basis.eval (makePrimitive O x).1⟩
        (Int.tdiv N (Int.gcd (makePrimitive O x).2 N)) O prev := rfl

/-! ## Sum, intersection, equality -/

/-- `quat_lideal_add`: lattice sum; a left `O`-module again; the stored norm is `√[O : I]` when the index is a
    perfect square and (assert compiled out) the index itself otherwise. -/
theorem lideal_add_spec (p : ℤ) (I1 I2 : LeftIdeal) (h1 : I1.lattice.denom ≠ 0) (h2 : I2.lattice.denom ≠ 0) :
    hLat p (lidealAdd I1 I2).lattice = hLat p I1.lattice ⊔ hLat p I2.lattice ∧
    (∀ O : Submodule ℤ (H p), O * hLat p I1.lattice ≤ hLat p I1.lattice → O * hLat p I2.lattice ≤ hLat p I2.lattice →
      O * hLat p (lidealAdd I1 I2).lattice ≤ hLat p (lidealAdd I1 I2).lattice) ∧
    (lidealAdd I1 I2).order = I1.order ∧
    ((0 ≤ (lidealAdd I1 I2).norm ∧
        (lidealAdd I1 I2).norm * (lidealAdd I1 I2).norm = latIndex (lidealAdd I1 I2).lattice I1.order) ∨
      ((lidealAdd I1 I2).norm = latIndex (lidealAdd I1 I2).lattice I1.order ∧
        ¬ ∃ s : ℤ, s * s = latIndex (lidealAdd I1 I2).lattice I1.order)) := by
  have e := lidealAdd_lattice p I1 I2 h1 h2
  refine ⟨e, ?_, rfl, withIndexNorm_norm _ _⟩
  intro O hA hB
  rw [e]; exact mul_sup_le O _ _ hA hB

/-- `quat_lideal_inter`: lattice intersection (HNF inputs); a left `O`-module again; norm as for `lideal_add`. -/
theorem lideal_inter_spec (p : ℤ) (I1 I2 : LeftIdeal) (h1 : I1.lattice.denom ≠ 0) (h2 : I2.lattice.denom ≠ 0)
    (hn1 : IsHNF I1.lattice.basis) (hn2 : IsHNF I2.lattice.basis) :
    hLat p (lidealInter I1 I2).lattice = hLat p I1.lattice ⊓ hLat p I2.lattice ∧
    (∀ O : Submodule ℤ (H p), O * hLat p I1.lattice ≤ hLat p I1.lattice → O * hLat p I2.lattice ≤ hLat p I2.lattice →
      O * hLat p (lidealInter I1 I2).lattice ≤ hLat p (lidealInter I1 I2).lattice) ∧
    (lidealInter I1 I2).order = I1.order ∧
    ((0 ≤ (lidealInter I1 I2).norm ∧
        (lidealInter I1 I2).norm * (lidealInter I1 I2).norm = latIndex (lidealInter I1 I2).lattice I1.order) ∨
      ((lidealInter I1 I2).norm = latIndex (lidealInter I1 I2).lattice I1.order ∧
        ¬ ∃ s : ℤ, s * s = latIndex (lidealInter I1 I2).lattice I1.order)) := by
  have e := lidealInter_lattice p I1 I2 h1 h2 hn1 hn2
  refine ⟨e, ?_, rfl, withIndexNorm_norm _ _⟩
  intro O hA hB
  rw [e]; exact mul_inf_le O _ _ hA hB

/-- `quat_lideal_equals` is correct on HNF lattices: it returns 1 exactly when the parent orders, the stored norms and
    the lattices (as subsets of the algebra) coincide. -/
theorem lideal_equals_correct (p : ℤ) (I1 I2 : LeftIdeal) (h1 : I1.lattice.denom ≠ 0) (h2 : I2.lattice.denom ≠ 0)
    (hn1 : IsHNF I1.lattice.basis) (hn2 : IsHNF I2.lattice.basis) :
    lidealEquals I1 I2 = true ↔ I1.order = I2.order ∧ I1.norm = I2.norm ∧ hLat p I1.lattice = hLat p I2.lattice :=
  lidealEquals_iff p I1 I2 h1 h2 hn1 hn2

/-- `quat_alg_make_primitive` (used by `make_primitive_then_create`): for x in the order (membership flag 1),
    `x = content · (primitive part)` in `H p` -/
theorem make_primitive_value (p : ℤ) (O : Lattice) (x : Elem) (hO : O.denom ≠ 0) (hx : x.denom ≠ 0)
    (h : (latContains O x).1 = true) :
    val p x = ((makePrimitive O x).2 : ℤ) • val p ⟨O.denom, O.basis.eval (makePrimitive O x).1⟩ :=
  makePrimitive_val p O x hO hx h

/-- two ideals whose lattices are in canonical form (HNF, reduced) denote the same lattice iff their bases are
    identical and their denominators agree up to sign -/
theorem ideal_lattice_canonical (p : ℤ) (l1 l2 : Lattice) (h1 : l1.denom ≠ 0) (h2 : l2.denom ≠ 0)
    (hn1 : IsHNF l1.basis) (hn2 : IsHNF l2.basis) (r1 : Reduced l1) (r2 : Reduced l2)
    (h : hLat p l1 = hLat p l2) : l1.basis = l2.basis ∧ l1.denom.natAbs = l2.denom.natAbs := by
  apply lattice_repr_unique l1 l2 h1 h2 hn1 hn2 r1 r2
  rw [hLat_eq_map, hLat_eq_map] at h
  exact Submodule.map_injective_of_injective (toH_injective p) h

/-- `quat_connecting_ideal`: the lattice is `O₁·N + Σ_i O₁·(N·b_i)` with `N = [O₁ : O₁ ∩ O₂]` (as computed by
    `quat_lattice_index`) and `b_i` the basis vectors of `O₂` -/
theorem connecting_ideal_lattice (p : ℤ) (O1 O2 : Lattice) (prev : ℤ) (h1 : O1.denom ≠ 0) (h2 : O2.denom ≠ 0) :
    let N := latIndex (latIntersect O1 O2) O1
    let b (i : Nat) : Elem := ⟨O2.denom, (O2.basis.scalarMul N).col i⟩
    hLat p (connectingIdeal p O1 O2 prev).lattice =
      hLat p O1 * Submodule.span ℤ {val p (algScalar N 1)} ⊔ hLat p O1 * Submodule.span ℤ {val p (b 0)} ⊔
      hLat p O1 * Submodule.span ℤ {val p (b 1)} ⊔ hLat p O1 * Submodule.span ℤ {val p (b 2)} ⊔
      hLat p O1 * Submodule.span ℤ {val p (b 3)} ∧
    (connectingIdeal p O1 O2 prev).order = O1 := by
  intro N b
  have hs : (algScalar N 1).denom ≠ 0 := by simp [algScalar]
  have hb : ∀ i, (b i).denom ≠ 0 := fun i => h2
  obtain ⟨e0, d0⟩ := principalLattice_spec p (algScalar N 1) O1 h1 hs
  have eb := fun i => principalLattice_spec p (b i) O1 h1 (hb i)
  refine ⟨?_, rfl⟩
  have hl : (connectingIdeal p O1 O2 prev).lattice =
      latAdd (latAdd (latAdd (latAdd (principalLattice p (algScalar N 1) O1) (principalLattice p (b 0) O1))
        (principalLattice p (b 1) O1)) (principalLattice p (b 2) O1)) (principalLattice p (b 3) O1) := rfl
  rw [hl]
  have a1 := latAdd_spec (principalLattice p (algScalar N 1) O1) (principalLattice p (b 0) O1) d0 (eb 0).2
  have a2 := latAdd_spec _ (principalLattice p (b 1) O1) a1.2 (eb 1).2
  have a3 := latAdd_spec _ (principalLattice p (b 2) O1) a2.2 (eb 2).2
  rw [hLat_add p _ _ a3.2 (eb 3).2, hLat_add p _ _ a2.2 (eb 2).2, hLat_add p _ _ a1.2 (eb 1).2,
    hLat_add p _ _ d0 (eb 0).2, e0, (eb 0).1, (eb 1).1, (eb 2).1, (eb 3).1]

/-! ## Generators and products -/

/-- `quat_lideal_generator_coprime` is sound: a reported generator is a primitive integer combination of the basis, lies
    in the ideal, and passes exactly the coded tests: `N(gen) ∈ ℤ`, `N(I) ∣ N(gen)`, `gcd(N(I)·n, N(gen)/N(I)) = 1`,
    `gcd(n², N(gen)) = gcd(n, N(I))`.  Completeness is bounded by the enumeration (`none` = 0 returned). -/
theorem generator_coprime_sound (p : ℤ) (I : LeftIdeal) (n bound : ℤ) (g : Elem) (hd : I.lattice.denom ≠ 0)
    (h : generatorCoprime p I n bound = some g) :
    (∃ v : Vec4, v.content = 1 ∧ g = genCandidate I v) ∧ val p g ∈ hLat p I.lattice ∧
    ∃ ng : ℤ, nrm (val p g) = ng ∧ I.norm ∣ ng ∧ Int.gcd (I.norm * n) (ng / I.norm) = 1 ∧
      Int.gcd (n * n) ng = Int.gcd n I.norm := by
  obtain ⟨v, hv, rfl, ha⟩ := generatorCoprime_sound p I n bound g h
  exact ⟨⟨v, hv, rfl⟩, genCandidate_mem p I v hd, genAccept_spec p I n _ hd ha⟩

/-- PARTIAL (classical lemma not formalised: an element `g ∈ I` with `gcd(N(g)/N(I), N(I)) = 1` generates `I` together
    with `N(I)`).  Proved instead: the certificate check `generatorCert` — recompute `O·g + N(I)·O` with the verified
    constructor and compare — is sound; the harness runs it on every generator the C code reports. -/
theorem generator_generates_partial (p : ℤ) (I : LeftIdeal) (g : Elem) (h : generatorCert p I g = true) :
    hLat p I.lattice = hLat p I.order * Submodule.span ℤ {val p g} ⊔ smulLat p I.norm (hLat p I.order) :=
  generatorCert_sound p I g h

/-- `quat_lideal_mul` is sound: a returned product is `O·(g·α) + N'·O` for a generator `g` accepted by
    `generator_coprime`.  That this lattice equals `I·α` is checked per output by `isomCert` (`isomCert_sound`). -/
theorem lideal_mul_sound (p : ℤ) (I : LeftIdeal) (alpha : Elem) (bound prev : ℤ) (J : LeftIdeal)
    (hO : I.order.denom ≠ 0) (hd : I.lattice.denom ≠ 0) (ha : alpha.denom ≠ 0)
    (h : lidealMul p I alpha bound prev = some J) :
    ∃ (g : Elem) (n N' : ℤ), generatorCoprime p I n bound = some g ∧ val p g ∈ hLat p I.lattice ∧
      hLat p J.lattice = hLat p I.order * Submodule.span ℤ {val p g * val p alpha} ⊔ smulLat p N' (hLat p I.order) ∧
      J.order = I.order := by
  obtain ⟨g, n, N', hg, rfl⟩ := lidealMul_sound p I alpha bound prev J h
  obtain ⟨v, _, rfl, _⟩ := generatorCoprime_sound p I n bound g hg
  have hgd : (genCandidate I v).denom ≠ 0 := hd
  refine ⟨_, n, N', hg, genCandidate_mem p I v hd, ?_, rfl⟩
  rw [(createFromPrimitive_lattice p _ N' I.order prev hO (algMul_denom_ne p _ _ hgd ha)).1, algMul_val p _ _ hgd ha]

/-! ## Full theorems: norm, index, generators, products, transporters (no per-output checker)

    `IsOrder O` (IdealAlg): `1 ∈ O`, `O` closed under multiplication and conjugation — proved for every linked order
    (`L*_orders_are_orders` below).  `IsLeftIdealOfNorm O I n`: `O·I ⊆ I ⊆ O`, `n ∈ I`, `y·z̄ ∈ n·O` for all `y, z ∈ I`
    ("`I` carries the reduced norm `n`").  `genIdeal O x N = O·x ⊔ N·O`.  `transporter L1 L2 = {x | L1·x ⊆ L2}`.
    Everything below is elementary (Bezout + conjugation + determinants); what is *not* proved is the existence of a
    generator with cofactor coprime to the norm for every primitive `x` of a maximal order (local theory) — wherever it
    is needed it appears as an explicit witness (`generatorCoprime … = some g`, or the cofactor condition on `x`). -/

/-- **`create_from_primitive` returns a left ideal carrying its stored norm** `gcd(N(x), N)`, for every `x ∈ O`
    (primitive or not), every `N`. -/
theorem create_from_primitive_is_ideal_of_norm (p : ℤ) (x : Elem) (N : ℤ) (O : Lattice) (prev nx : ℤ)
    (hO : O.denom ≠ 0) (hx : x.denom ≠ 0) (hord : IsOrder (hLat p O)) (hxO : val p x ∈ hLat p O)
    (hn : nrm (val p x) = nx) :
    IsLeftIdealOfNorm (hLat p O) (hLat p (createFromPrimitive p x N O prev).lattice)
      (createFromPrimitive p x N O prev).norm :=
  createFromPrimitive_isLeftIdealOfNorm p x N O prev nx hO hx hord hxO hn

/-- **`create_principal`: norm² = index.**  `covol(O·x) = N(x)²·covol(O)` for the returned HNF lattice. -/
theorem create_principal_norm_index (p : ℤ) (x : Elem) (O : Lattice) (prev : ℤ) (hx : x.denom ≠ 0) (hO : O.denom ≠ 0)
    (hdetO : (toMatrix O.basis).det ≠ 0) (hN : nrm (val p x) ≠ 0) :
    covol (createPrincipal p x O prev).lattice = nrm (val p x) ^ 2 * covol O :=
  principalLattice_covol p x O hx hO hdetO hN

/-- **`create_from_primitive`: norm² = index, direct case**: if the cofactor `N(x)/n` of `n = gcd(N(x), N)` is coprime
    to `n` (in particular when `N ∥ N(x)`, `N(x) ∣ N` or `gcd(N(x), N) = 1`), the stored norm satisfies
    `covol(I) = n²·covol(O)` — for every order `O` and every `x ∈ O`, primitive or not. -/
theorem create_from_primitive_norm_index (p : ℤ) (x : Elem) (N : ℤ) (O : Lattice) (prev nx q : ℤ)
    (hO : O.denom ≠ 0) (hx : x.denom ≠ 0) (hdetO : (toMatrix O.basis).det ≠ 0)
    (hord : IsOrder (hLat p O)) (hxO : val p x ∈ hLat p O) (hn : nrm (val p x) = nx) (hnx : nx ≠ 0)
    (hq : nx = (Int.gcd nx N : ℤ) * q) (hc : Int.gcd q (Int.gcd nx N : ℤ) = 1) :
    covol (createFromPrimitive p x N O prev).lattice =
      ((createFromPrimitive p x N O prev).norm : ℚ) ^ 2 * covol O :=
  createFromPrimitive_covol_direct p x N O prev nx q hO hx hdetO hord hxO hn hnx hq hc

/-- **`create_from_primitive`: norm² = index for primitive generators (FULL).**  `O` certified by `isOrderCert` and
    `gramOk` (HNF ring with 1, closed under conjugation, integral trace form with Gram determinant `p²`: every linked
    order, see `linked_orders_certified`), `x ∈ O` with `quat_alg_is_primitive` true, `n = gcd(N(x), N) ≠ 0` prime to `p`.
    Then `covol(I) = n²·covol(O)` for the returned ideal, `n` its stored norm.  (Proof: unimodularity of the trace form
    at every `ℓ | n` gives `y ∈ O` with `N(x + N·y)/n` prime to `n`; then index arithmetic with `O·g ⊆ I ⊆ O`.)
    Not covered: `p | gcd(N(x), N)` (never the case for the norms used by the scheme). -/
theorem create_from_primitive_norm_index_primitive (p : ℤ) (x : Elem) (N : ℤ) (O : Lattice) (prev nx : ℤ)
    (ho : isOrderCert p O = true) (hg : gramOk p O = true) (hx : x.denom ≠ 0)
    (hxO : (latContains O x).1 = true) (hprim : isPrimitive O x = true)
    (hn : nrm (val p x) = nx) (hn0 : Int.gcd nx N ≠ 0)
    (hcop : ∀ ℓ : ℕ, ℓ.Prime → ℓ ∣ Int.gcd nx N → ¬ (ℓ : ℤ) ∣ p) :
    covol (createFromPrimitive p x N O prev).lattice =
      ((createFromPrimitive p x N O prev).norm : ℚ) ^ 2 * covol O :=
  createFromPrimitive_covol_primitive p x N O prev nx ho hg hx hxO hprim hn hn0 hcop

/-- **`make_primitive_then_create`** (full): for `0 ≠ x ∈ O` it is `create_from_primitive` on a *primitive* `y ∈ O` with
    `x = content·y` and on `N / gcd(content, N)`. -/
theorem make_primitive_then_create_full (p : ℤ) (x : Elem) (N : ℤ) (O : Lattice) (prev : ℤ)
    (ho : isOrderCert p O = true) (hx : x.denom ≠ 0) (hxO : (latContains O x).1 = true)
    (hc0 : (makePrimitive O x).2 ≠ 0) :
    let y : Elem := ⟨O.denom, O.basis.eval (makePrimitive O x).1⟩
    makePrimitiveThenCreate p x N O prev =
      createFromPrimitive p y (Int.tdiv N (Int.gcd (makePrimitive O x).2 N)) O prev ∧
    (latContains O y).1 = true ∧ isPrimitive O y = true ∧
    val p x = ((makePrimitive O x).2 : ℤ) • val p y :=
  makePrimitiveThenCreate_spec p x N O prev ho hx hxO hc0

/-- **`make_primitive_then_create`: norm² = index** — composition with `create_from_primitive_norm_index_primitive`. -/
theorem make_primitive_then_create_norm_index (p : ℤ) (x : Elem) (N : ℤ) (O : Lattice) (prev ny : ℤ)
    (ho : isOrderCert p O = true) (hg : gramOk p O = true) (hx : x.denom ≠ 0) (hxO : (latContains O x).1 = true)
    (hc0 : (makePrimitive O x).2 ≠ 0)
    (hn : nrm (val p ⟨O.denom, O.basis.eval (makePrimitive O x).1⟩) = ny)
    (hn0 : Int.gcd ny (Int.tdiv N (Int.gcd (makePrimitive O x).2 N)) ≠ 0)
    (hcop : ∀ ℓ : ℕ, ℓ.Prime → ℓ ∣ Int.gcd ny (Int.tdiv N (Int.gcd (makePrimitive O x).2 N)) → ¬ (ℓ : ℤ) ∣ p) :
    covol (makePrimitiveThenCreate p x N O prev).lattice =
      ((makePrimitiveThenCreate p x N O prev).norm : ℚ) ^ 2 * covol O := by
  obtain ⟨e, hyO, hyp, _⟩ := makePrimitiveThenCreate_spec p x N O prev ho hx hxO hc0
  obtain ⟨hd, _, _, _⟩ := isOrderCert_sound p O ho
  rw [e]
  exact create_from_primitive_norm_index_primitive p _ _ O prev ny ho hg hd hyO hyp hn hn0 hcop

/-- existence of a generator with cofactor prime to the norm (the classical lemma, here proved): under the hypotheses
    of `create_from_primitive_norm_index_primitive` stated in the algebra -/
theorem exists_generator_coprime_cofactor {p : ℤ} {O : Submodule ℤ (H p)} (hO : IsIntegralOrder O) (x : H p) (nx N : ℤ)
    (hn : HasNorm x nx) (hn0 : Int.gcd nx N ≠ 0)
    (hnd : ∀ ℓ : ℕ, ℓ.Prime → ℓ ∣ Int.gcd nx N → ∃ b ∈ O, ∃ m : ℤ, TracePair x b m ∧ ¬ ((ℓ : ℤ) ∣ m)) :
    ∃ y ∈ O, ∃ q : ℤ, HasNorm (x + N • y) ((Int.gcd nx N : ℤ) * q) ∧ Int.gcd q (Int.gcd nx N : ℤ) = 1 :=
  exists_generator hO x nx N hn hn0 hnd

/-- **norm² = index, general case with a witness** (PARTIAL w.r.t. the full property: the full statement "for every
    primitive `x` of a maximal order" additionally needs that a generator with cofactor coprime to the norm *exists*;
    here its existence is witnessed by the success of the model's own `generator_coprime` search).  -/
theorem norm_index_of_generator_partial (p : ℤ) (I : LeftIdeal) (n bound : ℤ) (g : Elem)
    (hO : I.order.denom ≠ 0) (hd : I.lattice.denom ≠ 0) (hdetO : (toMatrix I.order.basis).det ≠ 0)
    (hord : IsOrder (hLat p I.order))
    (hI : IsLeftIdealOfNorm (hLat p I.order) (hLat p I.lattice) I.norm) (hn0 : I.norm ≠ 0)
    (h : generatorCoprime p I n bound = some g) (hg0 : nrm (val p g) ≠ 0) :
    covol I.lattice = (I.norm : ℚ) ^ 2 * covol I.order :=
  covol_of_generatorCoprime p I n bound g hO hd hdetO hord hI hn0 h hg0

/-- the covolume equation is the statement about Mathlib's group index: `[O : I] = n²` -/
theorem norm_index_as_group_index (O I : Lattice) (n : ℤ) (hO : O.denom ≠ 0) (hI : I.denom ≠ 0)
    (hdetO : (toMatrix O.basis).det ≠ 0) (hle : ratLat I ≤ ratLat O) (hn0 : n ≠ 0)
    (hc : covol I = (n : ℚ) ^ 2 * covol O) :
    (ratLat I).toAddSubgroup.relIndex (ratLat O).toAddSubgroup = n.natAbs ^ 2 :=
  relIndex_of_covol O I n hO hI hdetO hle hn0 hc

/-- **a reported generator generates** (full, no certificate): if `quat_lideal_generator_coprime` (model) returns `g`
    for an ideal that carries its stored norm, then `I = O·g + N(I)·O`, `g ∈ I`, `N(g) = N(I)·q` with `q` coprime to
    `N(I)` and to `n`. -/
theorem generator_generates (p : ℤ) (I : LeftIdeal) (n bound : ℤ) (g : Elem)
    (hd : I.lattice.denom ≠ 0) (hord : IsOrder (hLat p I.order))
    (hI : IsLeftIdealOfNorm (hLat p I.order) (hLat p I.lattice) I.norm) (hn0 : I.norm ≠ 0)
    (h : generatorCoprime p I n bound = some g) :
    hLat p I.lattice = genIdeal (hLat p I.order) (val p g) I.norm ∧ val p g ∈ hLat p I.lattice ∧
    ∃ q : ℤ, nrm (val p g) = ((I.norm * q : ℤ) : ℚ) ∧ Int.gcd q I.norm = 1 ∧ Int.gcd q n = 1 :=
  generatorCoprime_generates p I n bound g hd hord hI hn0 h

/-- **`quat_lideal_mul` returns `I·α`** (full): for `α ∈ O` with `N(α) = m` and `I` carrying its stored norm `≠ 0`, a
    returned `J` has `J = I·α` as lattices, stored norm `|N(I)·m|`, parent `O`, and carries the norm `N(I)·m` again.
    The hypothesis that makes `O·(gα) + N(I)N(α)·O = I·α` true is `gcd(N(g)/N(I), N(α)) = 1`; the model obtains it from
    the generator search called with `n = N(α)` (the seeded change C15-m1 calls the search without it). -/
theorem lideal_mul_returns_product (p : ℤ) (I : LeftIdeal) (alpha : Elem) (bound prev m : ℤ) (J : LeftIdeal)
    (hO : I.order.denom ≠ 0) (hd : I.lattice.denom ≠ 0) (ha : alpha.denom ≠ 0)
    (hord : IsOrder (hLat p I.order))
    (hI : IsLeftIdealOfNorm (hLat p I.order) (hLat p I.lattice) I.norm) (hn0 : I.norm ≠ 0)
    (haO : val p alpha ∈ hLat p I.order) (hm : nrm (val p alpha) = m)
    (h : lidealMul p I alpha bound prev = some J) :
    hLat p J.lattice = hLat p I.lattice * Submodule.span ℤ {val p alpha} ∧
    J.norm = ((I.norm * m).natAbs : ℤ) ∧ J.order = I.order ∧
    IsLeftIdealOfNorm (hLat p I.order) (hLat p J.lattice) (I.norm * m) :=
  lidealMul_full p I alpha bound prev m J hO hd ha hord hI hn0 haO hm h

/-- **the right transporter of two left ideals is `N(I1)⁻¹·Ī1·I2`** (algebra): for `I1` carrying the norm `n1 ≠ 0`
    with `n1 ∈ Ī1·I1`, and `O·I2 ⊆ I2`: `I1·x ⊆ I2 ↔ n1·x ∈ Ī1·I2`. -/
theorem transporter_characterisation {p : ℤ} {O I1 I2 : Submodule ℤ (H p)} {n1 : ℤ}
    (hI1 : IsLeftIdealOfNorm O I1 n1) (hn0 : n1 ≠ 0)
    (hinv : ((n1 : ℤ) : H p) ∈ conjS I1 * I1) (hI2 : ∀ a ∈ O, ∀ y ∈ I2, a * y ∈ I2) (x : H p) :
    x ∈ transporter I1 I2 ↔ n1 • x ∈ conjS I1 * I2 := mem_transporter_iff hI1 hn0 hinv hI2 x

/-- **an accepted exact certificate *is* the right transporter**: `isRightTransporterExact` (`I1·T ⊆ I2` and
    `Ī1·I2 ⊆ N(I1)·T`, 32 membership tests) true ⇒ `T = {x | I1·x ⊆ I2}`.  `hinv` holds whenever `I1` has a generator of
    cofactor coprime to its norm (`norm_mem_conj_mul_of_generator`). -/
theorem right_transporter_exact (p : ℤ) (I1 I2 : LeftIdeal) (T : Lattice)
    (hI1 : IsLeftIdealOfNorm (hLat p I1.order) (hLat p I1.lattice) I1.norm)
    (hinv : ((I1.norm : ℤ) : H p) ∈ conjS (hLat p I1.lattice) * hLat p I1.lattice)
    (hI2 : ∀ a ∈ hLat p I1.order, ∀ y ∈ hLat p I2.lattice, a * y ∈ hLat p I2.lattice)
    (h : isRightTransporterExact p I1 I2 T = true) :
    hLat p T = transporter (hLat p I1.lattice) (hLat p I2.lattice) :=
  isRightTransporterExact_sound p I1 I2 T hI1 hinv hI2 h

/-- **an accepted exact certificate *is* the right order** `{x | I·x ⊆ I}` (a ring with 1). -/
theorem right_order_exact (p : ℤ) (I : LeftIdeal) (O' : Lattice)
    (hI : IsLeftIdealOfNorm (hLat p I.order) (hLat p I.lattice) I.norm)
    (hinv : ((I.norm : ℤ) : H p) ∈ conjS (hLat p I.lattice) * hLat p I.lattice)
    (h : isRightOrderExact p I O' = true) :
    hLat p O' = transporter (hLat p I.lattice) (hLat p I.lattice) ∧ (1 : H p) ∈ hLat p O' ∧
    hLat p O' * hLat p O' ≤ hLat p O' :=
  isRightOrderExact_sound p I O' hI hinv h

/-- **invertibility of constructed ideals**: for `I = create_from_primitive(x, N)` with `x` primitive in a certified order
    and `gcd(N(x), N) ≠ 0` prime to `p`: `N(I) ∈ Ī·I`. -/
theorem create_from_primitive_invertible (p : ℤ) (x : Elem) (N : ℤ) (O : Lattice) (prev nx : ℤ)
    (ho : isOrderCert p O = true) (hg : gramOk p O = true) (hx : x.denom ≠ 0)
    (hxO : (latContains O x).1 = true) (hprim : isPrimitive O x = true)
    (hn : nrm (val p x) = nx) (hn0 : Int.gcd nx N ≠ 0)
    (hcop : ∀ ℓ : ℕ, ℓ.Prime → ℓ ∣ Int.gcd nx N → ¬ (ℓ : ℤ) ∣ p) :
    (((createFromPrimitive p x N O prev).norm : ℤ) : H p) ∈
      conjS (hLat p (createFromPrimitive p x N O prev).lattice) * hLat p (createFromPrimitive p x N O prev).lattice :=
  createFromPrimitive_norm_mem_conj_mul p x N O prev nx ho hg hx hxO hprim hn hn0 hcop

/-- **right order of a constructed ideal** (composition of the above): for `I = create_from_primitive(x, N)` as in
    `create_from_primitive_invertible`, a lattice accepted by the exact certificate is *the* right order of `I`. -/
theorem right_order_of_constructed_ideal (p : ℤ) (x : Elem) (N : ℤ) (O O' : Lattice) (prev nx : ℤ)
    (ho : isOrderCert p O = true) (hg : gramOk p O = true) (hx : x.denom ≠ 0)
    (hxO : (latContains O x).1 = true) (hprim : isPrimitive O x = true)
    (hn : nrm (val p x) = nx) (hn0 : Int.gcd nx N ≠ 0)
    (hcop : ∀ ℓ : ℕ, ℓ.Prime → ℓ ∣ Int.gcd nx N → ¬ (ℓ : ℤ) ∣ p)
    (h : isRightOrderExact p (createFromPrimitive p x N O prev) O' = true) :
    hLat p O' = transporter (hLat p (createFromPrimitive p x N O prev).lattice)
      (hLat p (createFromPrimitive p x N O prev).lattice) := by
  obtain ⟨hd, hnO, _, _⟩ := isOrderCert_sound p O ho
  have hxmem : val p x ∈ hLat p O := (latContains_iff_val p O x hd hx hnO).1 hxO
  have e : (createFromPrimitive p x N O prev).order = O := rfl
  have h1 : IsLeftIdealOfNorm (hLat p (createFromPrimitive p x N O prev).order)
      (hLat p (createFromPrimitive p x N O prev).lattice) (createFromPrimitive p x N O prev).norm := by
    rw [e]
    exact create_from_primitive_is_ideal_of_norm p x N O prev nx hd hx (isOrder_of_cert p O ho) hxmem hn
  exact (right_order_exact p (createFromPrimitive p x N O prev) O' h1
    (create_from_primitive_invertible p x N O prev nx ho hg hx hxO hprim hn hn0 hcop) h).1

/-- **`quat_connecting_ideal` returns `N·O₁·O₂`**, `N = quat_lattice_index(O₁ ∩ O₂, O₁)`; for rings with 1 it satisfies the
    defining inclusions of a connecting ideal: `O₁·I ⊆ I` and `I·O₂ ⊆ I`. -/
theorem connecting_ideal_spec (p : ℤ) (O1 O2 : Lattice) (prev : ℤ) (h1 : O1.denom ≠ 0) (h2 : O2.denom ≠ 0)
    (hone : (1 : H p) ∈ hLat p O2) :
    let N := latIndex (latIntersect O1 O2) O1
    hLat p (connectingIdeal p O1 O2 prev).lattice = nsmul' N (hLat p O1 * hLat p O2) ∧
    (hLat p O1 * hLat p O1 ≤ hLat p O1 →
      hLat p O1 * hLat p (connectingIdeal p O1 O2 prev).lattice ≤ hLat p (connectingIdeal p O1 O2 prev).lattice) ∧
    (hLat p O2 * hLat p O2 ≤ hLat p O2 →
      hLat p (connectingIdeal p O1 O2 prev).lattice * hLat p O2 ≤ hLat p (connectingIdeal p O1 O2 prev).lattice) :=
  connectingIdeal_spec p O1 O2 prev h1 h2 hone

/-- the invertibility hypothesis `N(I) ∈ Ī·I` follows from a successful generator search -/
theorem norm_mem_conj_mul_of_generator_found (p : ℤ) (I : LeftIdeal) (n bound : ℤ) (g : Elem)
    (hd : I.lattice.denom ≠ 0) (hord : IsOrder (hLat p I.order))
    (hI : IsLeftIdealOfNorm (hLat p I.order) (hLat p I.lattice) I.norm) (hn0 : I.norm ≠ 0)
    (h : generatorCoprime p I n bound = some g) :
    ((I.norm : ℤ) : H p) ∈ conjS (hLat p I.lattice) * hLat p I.lattice :=
  norm_mem_conj_mul_of_generator p I n bound g hd hord hI hn0 h

/-! ## Certificate checkers for the routines built on matkermod.c / lll.c -/

/-- `isomCert` accepted ⇒ `I2 = I1·iso` (what `quat_lideal_isom` promises when it returns 1). -/
theorem isomCert_sound (p : ℤ) (I1 I2 : Lattice) (iso : Elem) (h : isomCert p I1 I2 iso = true) :
    hLat p I2 = hLat p I1 * Submodule.span ℤ {val p iso} := SqiProofs.Ideal.isomCert_sound p I1 I2 iso h

/-- `isRightTransporterCert` accepted ⇒ `L1·T ⊆ L2`, i.e. `T ⊆ {x | L1·x ⊆ L2}`. -/
theorem rightTransporterCert_sound (p : ℤ) (L1 L2 T : Lattice) (h : isRightTransporterCert p L1 L2 T = true) :
    hLat p L1 * hLat p T ≤ hLat p L2 := isRightTransporterCert_sound p L1 L2 T h

/-- the covolume part of the transporter certificate: `covol(T)·N(I1)² = covol(O)·N(I2)²` -/
theorem transporterCovol_sound (I1 I2 : LeftIdeal) (T : Lattice) (hT : T.denom ≠ 0) (hO : I1.order.denom ≠ 0)
    (hnT : IsHNF T.basis) (hnO : IsHNF I1.order.basis) (h : transporterCovolOk I1 I2 T = true) :
    covol T * ((I1.norm : ℚ) ^ 2) = covol I1.order * ((I2.norm : ℚ) ^ 2) := by
  have := covolRatioIs_sound _ _ _ _ h hT hO hnT hnO
  simp only [Int.cast_mul, abs_mul_self] at this
  rw [pow_two, pow_two]; exact this

/-- `isRightOrderCert` accepted ⇒ `O'` is a ring with 1, `I·O' ⊆ I`, and `O'` has the covolume (discriminant) of the
    parent order — so `O'` is a maximal order contained in, hence equal to, the right order when the parent is maximal. -/
theorem rightOrderCert_sound (p : ℤ) (I : LeftIdeal) (O' : Lattice) (hO : I.order.denom ≠ 0)
    (hOn : IsHNF I.order.basis) (h : isRightOrderCert p I O' = true) :
    (1 : H p) ∈ hLat p O' ∧ hLat p O' * hLat p O' ≤ hLat p O' ∧
    hLat p I.lattice * hLat p O' ≤ hLat p I.lattice ∧ covol O' = covol I.order :=
  isRightOrderCert_sound p I O' hO hOn h

/-- `isLeftIdealCert` accepted ⇒ `O·I ⊆ I`. -/
theorem leftIdealCert_sound (p : ℤ) (O I : Lattice) (hO : O.denom ≠ 0) (h : isLeftIdealCert p O I = true) :
    hLat p O * hLat p I ≤ hLat p I := isLeftIdealCert_sound p O I hO h

/-! ## Table facts (tie T): every extremal maximal order linked into the library, per level.
    `maxOrderOk p t`  = basis in HNF with non-zero diagonal ∧ contains 1 ∧ all 16 products of basis vectors lie in the
                        lattice (verified `algMul` + `latContains`) ∧ trace-form discriminant `16·p²·det(B)²/d⁸ = p²`.
    `extremalOk p e`  = `maxOrderOk` ∧ stored `i`, `j` lie in the order ∧ `i² = -q` ∧ `j² = -p` ∧ `ij = -ji` ∧ `q > 0`. -/

theorem L1_maxord_O0_ok : maxOrderOk SqiGen.L1.W64.QUATALG_PINFTY_p SqiGen.L1.W64.MAXORD_O0 = true := by decide +kernel
theorem L3_maxord_O0_ok : maxOrderOk SqiGen.L3.W64.QUATALG_PINFTY_p SqiGen.L3.W64.MAXORD_O0 = true := by decide +kernel
theorem L5_maxord_O0_ok : maxOrderOk SqiGen.L5.W64.QUATALG_PINFTY_p SqiGen.L5.W64.MAXORD_O0 = true := by decide +kernel

theorem L1_standard_extremal_ok :
    extremalOk SqiGen.L1.W64.QUATALG_PINFTY_p SqiGen.L1.W64.STANDARD_EXTREMAL_ORDER = true ∧
    SqiGen.L1.W64.STANDARD_EXTREMAL_ORDER.1 = SqiGen.L1.W64.MAXORD_O0 := by decide +kernel
theorem L3_standard_extremal_ok :
    extremalOk SqiGen.L3.W64.QUATALG_PINFTY_p SqiGen.L3.W64.STANDARD_EXTREMAL_ORDER = true ∧
    SqiGen.L3.W64.STANDARD_EXTREMAL_ORDER.1 = SqiGen.L3.W64.MAXORD_O0 := by decide +kernel
theorem L5_standard_extremal_ok :
    extremalOk SqiGen.L5.W64.QUATALG_PINFTY_p SqiGen.L5.W64.STANDARD_EXTREMAL_ORDER = true ∧
    SqiGen.L5.W64.STANDARD_EXTREMAL_ORDER.1 = SqiGen.L5.W64.MAXORD_O0 := by decide +kernel

theorem L1_alternate_extremal_ok :
    SqiGen.L1.W64.ALTERNATE_EXTREMAL_ORDERS.length = SqiGen.L1.D_NUM_ALTERNATE_EXTREMAL_ORDERS ∧
    SqiGen.L1.W64.ALTERNATE_EXTREMAL_ORDERS.all (extremalOk SqiGen.L1.W64.QUATALG_PINFTY_p) = true := by decide +kernel
theorem L3_alternate_extremal_ok :
    SqiGen.L3.W64.ALTERNATE_EXTREMAL_ORDERS.length = SqiGen.L3.D_NUM_ALTERNATE_EXTREMAL_ORDERS ∧
    SqiGen.L3.W64.ALTERNATE_EXTREMAL_ORDERS.all (extremalOk SqiGen.L3.W64.QUATALG_PINFTY_p) = true := by decide +kernel
theorem L5_alternate_extremal_ok :
    SqiGen.L5.W64.ALTERNATE_EXTREMAL_ORDERS.length = SqiGen.L5.D_NUM_ALTERNATE_EXTREMAL_ORDERS ∧
    SqiGen.L5.W64.ALTERNATE_EXTREMAL_ORDERS.all (extremalOk SqiGen.L5.W64.QUATALG_PINFTY_p) = true := by decide +kernel

/-- the algebra constants: `QUATALG_PINFTY.p` is the level's prime (≡ 3 mod 4) and `gram = diag(1,1,p,p)` -/
theorem L1_quatalg_ok :
    SqiGen.L1.W64.QUATALG_PINFTY_p = (SqiGen.L1.FP_p : Int) ∧ SqiGen.L1.W64.QUATALG_PINFTY_p % 4 = 3 ∧
    SqiGen.L1.W64.QUATALG_PINFTY_gram = [[1, 0, 0, 0], [0, 1, 0, 0], [0, 0, SqiGen.L1.W64.QUATALG_PINFTY_p, 0], [0, 0, 0, SqiGen.L1.W64.QUATALG_PINFTY_p]] := by
  decide +kernel
theorem L3_quatalg_ok :
    SqiGen.L3.W64.QUATALG_PINFTY_p = (SqiGen.L3.FP_p : Int) ∧ SqiGen.L3.W64.QUATALG_PINFTY_p % 4 = 3 ∧
    SqiGen.L3.W64.QUATALG_PINFTY_gram = [[1, 0, 0, 0], [0, 1, 0, 0], [0, 0, SqiGen.L3.W64.QUATALG_PINFTY_p, 0], [0, 0, 0, SqiGen.L3.W64.QUATALG_PINFTY_p]] := by
  decide +kernel
theorem L5_quatalg_ok :
    SqiGen.L5.W64.QUATALG_PINFTY_p = (SqiGen.L5.FP_p : Int) ∧ SqiGen.L5.W64.QUATALG_PINFTY_p % 4 = 3 ∧
    SqiGen.L5.W64.QUATALG_PINFTY_gram = [[1, 0, 0, 0], [0, 1, 0, 0], [0, 0, SqiGen.L5.W64.QUATALG_PINFTY_p, 0], [0, 0, 0, SqiGen.L5.W64.QUATALG_PINFTY_p]] := by
  decide +kernel

/-! ## The linked orders are maximal orders (table facts lifted to the algebra) -/

theorem prime_ne_zero_L1 : SqiGen.L1.W64.QUATALG_PINFTY_p ≠ 0 := by decide +kernel
theorem prime_ne_zero_L3 : SqiGen.L3.W64.QUATALG_PINFTY_p ≠ 0 := by decide +kernel
theorem prime_ne_zero_L5 : SqiGen.L5.W64.QUATALG_PINFTY_p ≠ 0 := by decide +kernel

/-- what an accepted `quat_p_extremal_maximal_order_t` entry means in `H p` -/
def IsExtremalOrderEntry (p : ℤ) (e : (ℤ × List (List ℤ)) × (ℤ × List ℤ) × (ℤ × List ℤ) × ℤ) : Prop :=
  ∃ (O : Lattice) (z t : Elem), latOfTable e.1 = some O ∧ elemOfTable e.2.1 = some z ∧ elemOfTable e.2.2.1 = some t ∧
    (1 : H p) ∈ hLat p O ∧ hLat p O * hLat p O ≤ hLat p O ∧ covol O = 1 / 4 ∧
    val p z ∈ hLat p O ∧ val p t ∈ hLat p O ∧
    val p z * val p z = (((-e.2.2.2 : ℤ) : ℚ) : H p) ∧ val p t * val p t = (((-p : ℤ) : ℚ) : H p) ∧
    val p z * val p t = -(val p t * val p z) ∧ 0 < e.2.2.2

theorem L1_extremal_orders_maximal :
    ∀ e ∈ SqiGen.L1.W64.STANDARD_EXTREMAL_ORDER :: SqiGen.L1.W64.ALTERNATE_EXTREMAL_ORDERS,
      IsExtremalOrderEntry SqiGen.L1.W64.QUATALG_PINFTY_p e := by
  intro e he
  apply extremalOk_sound _ prime_ne_zero_L1
  rcases List.mem_cons.1 he with rfl | he
  · exact L1_standard_extremal_ok.1
  · exact List.all_eq_true.1 L1_alternate_extremal_ok.2 e he

theorem L3_extremal_orders_maximal :
    ∀ e ∈ SqiGen.L3.W64.STANDARD_EXTREMAL_ORDER :: SqiGen.L3.W64.ALTERNATE_EXTREMAL_ORDERS,
      IsExtremalOrderEntry SqiGen.L3.W64.QUATALG_PINFTY_p e := by
  intro e he
  apply extremalOk_sound _ prime_ne_zero_L3
  rcases List.mem_cons.1 he with rfl | he
  · exact L3_standard_extremal_ok.1
  · exact List.all_eq_true.1 L3_alternate_extremal_ok.2 e he

theorem L5_extremal_orders_maximal :
    ∀ e ∈ SqiGen.L5.W64.STANDARD_EXTREMAL_ORDER :: SqiGen.L5.W64.ALTERNATE_EXTREMAL_ORDERS,
      IsExtremalOrderEntry SqiGen.L5.W64.QUATALG_PINFTY_p e := by
  intro e he
  apply extremalOk_sound _ prime_ne_zero_L5
  rcases List.mem_cons.1 he with rfl | he
  · exact L5_standard_extremal_ok.1
  · exact List.all_eq_true.1 L5_alternate_extremal_ok.2 e he

/-- `MAXORD_O0` is a subring with 1 of covolume 1/4 (reduced discriminant p), at each level -/
theorem maxord_O0_is_maximal_order :
    (∃ O, latOfTable SqiGen.L1.W64.MAXORD_O0 = some O ∧ (1 : H SqiGen.L1.W64.QUATALG_PINFTY_p) ∈ hLat _ O ∧
      hLat SqiGen.L1.W64.QUATALG_PINFTY_p O * hLat _ O ≤ hLat _ O ∧ covol O = 1 / 4) ∧
    (∃ O, latOfTable SqiGen.L3.W64.MAXORD_O0 = some O ∧ (1 : H SqiGen.L3.W64.QUATALG_PINFTY_p) ∈ hLat _ O ∧
      hLat SqiGen.L3.W64.QUATALG_PINFTY_p O * hLat _ O ≤ hLat _ O ∧ covol O = 1 / 4) ∧
    (∃ O, latOfTable SqiGen.L5.W64.MAXORD_O0 = some O ∧ (1 : H SqiGen.L5.W64.QUATALG_PINFTY_p) ∈ hLat _ O ∧
      hLat SqiGen.L5.W64.QUATALG_PINFTY_p O * hLat _ O ≤ hLat _ O ∧ covol O = 1 / 4) := by
  refine ⟨?_, ?_, ?_⟩
  · obtain ⟨O, h, _, _, a, b, c⟩ := maxOrderOk_sound _ prime_ne_zero_L1 _ L1_maxord_O0_ok
    exact ⟨O, h, a, b, c⟩
  · obtain ⟨O, h, _, _, a, b, c⟩ := maxOrderOk_sound _ prime_ne_zero_L3 _ L3_maxord_O0_ok
    exact ⟨O, h, a, b, c⟩
  · obtain ⟨O, h, _, _, a, b, c⟩ := maxOrderOk_sound _ prime_ne_zero_L5 _ L5_maxord_O0_ok
    exact ⟨O, h, a, b, c⟩

/-- every accepted maximal-order table entry is an order in the sense used by the full theorems -/
theorem maxOrderOk_isOrder (p : ℤ) (t : ℤ × List (List ℤ)) (h : maxOrderOk p t = true) :
    ∃ O : Lattice, latOfTable t = some O ∧ IsOrder (hLat p O) ∧ O.denom ≠ 0 ∧ (toMatrix O.basis).det ≠ 0 := by
  unfold maxOrderOk at h
  split at h
  · rename_i O hO
    simp only [Bool.and_eq_true] at h
    obtain ⟨d, n, _, _⟩ := isOrderCert_sound p O h.1.1
    exact ⟨O, hO, isOrder_of_cert p O h.1.1, d, det_ne_zero_of_isHNF _ n⟩
  · simp at h

theorem extremalOk_maxOrderOk (p : ℤ) (e : (ℤ × List (List ℤ)) × (ℤ × List ℤ) × (ℤ × List ℤ) × ℤ)
    (h : extremalOk p e = true) : maxOrderOk p e.1 = true := by
  unfold extremalOk at h
  split at h
  · simp only [Bool.and_eq_true] at h; exact h.1.1.1.1
  · simp at h

/-- an accepted maximal-order entry satisfies both order certificates used by the full theorems -/
theorem maxOrderOk_certified (p : ℤ) (t : ℤ × List (List ℤ)) (h : maxOrderOk p t = true) :
    ∃ O : Lattice, latOfTable t = some O ∧ isOrderCert p O = true ∧ gramOk p O = true := by
  unfold maxOrderOk at h
  split at h
  · rename_i O hO
    simp only [Bool.and_eq_true] at h
    exact ⟨O, hO, h.1.1, h.2⟩
  · simp at h

/-- every linked order of the three levels is certified (`isOrderCert` ∧ `gramOk`) -/
theorem linked_orders_certified :
    (∀ t ∈ SqiGen.L1.W64.MAXORD_O0 :: (SqiGen.L1.W64.STANDARD_EXTREMAL_ORDER :: SqiGen.L1.W64.ALTERNATE_EXTREMAL_ORDERS).map (·.1),
      ∃ O, latOfTable t = some O ∧ isOrderCert SqiGen.L1.W64.QUATALG_PINFTY_p O = true ∧ gramOk SqiGen.L1.W64.QUATALG_PINFTY_p O = true) ∧
    (∀ t ∈ SqiGen.L3.W64.MAXORD_O0 :: (SqiGen.L3.W64.STANDARD_EXTREMAL_ORDER :: SqiGen.L3.W64.ALTERNATE_EXTREMAL_ORDERS).map (·.1),
      ∃ O, latOfTable t = some O ∧ isOrderCert SqiGen.L3.W64.QUATALG_PINFTY_p O = true ∧ gramOk SqiGen.L3.W64.QUATALG_PINFTY_p O = true) ∧
    (∀ t ∈ SqiGen.L5.W64.MAXORD_O0 :: (SqiGen.L5.W64.STANDARD_EXTREMAL_ORDER :: SqiGen.L5.W64.ALTERNATE_EXTREMAL_ORDERS).map (·.1),
      ∃ O, latOfTable t = some O ∧ isOrderCert SqiGen.L5.W64.QUATALG_PINFTY_p O = true ∧ gramOk SqiGen.L5.W64.QUATALG_PINFTY_p O = true) := by
  refine ⟨?_, ?_, ?_⟩
  · intro t ht
    apply maxOrderOk_certified
    rcases List.mem_cons.1 ht with rfl | ht
    · exact L1_maxord_O0_ok
    · obtain ⟨e, he, rfl⟩ := List.mem_map.1 ht
      apply extremalOk_maxOrderOk
      rcases List.mem_cons.1 he with rfl | he
      · exact L1_standard_extremal_ok.1
      · exact List.all_eq_true.1 L1_alternate_extremal_ok.2 e he
  · intro t ht
    apply maxOrderOk_certified
    rcases List.mem_cons.1 ht with rfl | ht
    · exact L3_maxord_O0_ok
    · obtain ⟨e, he, rfl⟩ := List.mem_map.1 ht
      apply extremalOk_maxOrderOk
      rcases List.mem_cons.1 he with rfl | he
      · exact L3_standard_extremal_ok.1
      · exact List.all_eq_true.1 L3_alternate_extremal_ok.2 e he
  · intro t ht
    apply maxOrderOk_certified
    rcases List.mem_cons.1 ht with rfl | ht
    · exact L5_maxord_O0_ok
    · obtain ⟨e, he, rfl⟩ := List.mem_map.1 ht
      apply extremalOk_maxOrderOk
      rcases List.mem_cons.1 he with rfl | he
      · exact L5_standard_extremal_ok.1
      · exact List.all_eq_true.1 L5_alternate_extremal_ok.2 e he

/-- all linked orders (MAXORD_O0, STANDARD, the 7 alternates; three levels) are orders: rings with 1 closed under
    conjugation, of full rank — the hypotheses `IsOrder`, `denom ≠ 0`, `det ≠ 0` of the full theorems hold for them -/
theorem linked_orders_are_orders :
    (∀ t ∈ SqiGen.L1.W64.MAXORD_O0 :: (SqiGen.L1.W64.STANDARD_EXTREMAL_ORDER :: SqiGen.L1.W64.ALTERNATE_EXTREMAL_ORDERS).map (·.1),
      ∃ O, latOfTable t = some O ∧ IsOrder (hLat SqiGen.L1.W64.QUATALG_PINFTY_p O) ∧ O.denom ≠ 0 ∧ (toMatrix O.basis).det ≠ 0) ∧
    (∀ t ∈ SqiGen.L3.W64.MAXORD_O0 :: (SqiGen.L3.W64.STANDARD_EXTREMAL_ORDER :: SqiGen.L3.W64.ALTERNATE_EXTREMAL_ORDERS).map (·.1),
      ∃ O, latOfTable t = some O ∧ IsOrder (hLat SqiGen.L3.W64.QUATALG_PINFTY_p O) ∧ O.denom ≠ 0 ∧ (toMatrix O.basis).det ≠ 0) ∧
    (∀ t ∈ SqiGen.L5.W64.MAXORD_O0 :: (SqiGen.L5.W64.STANDARD_EXTREMAL_ORDER :: SqiGen.L5.W64.ALTERNATE_EXTREMAL_ORDERS).map (·.1),
      ∃ O, latOfTable t = some O ∧ IsOrder (hLat SqiGen.L5.W64.QUATALG_PINFTY_p O) ∧ O.denom ≠ 0 ∧ (toMatrix O.basis).det ≠ 0) := by
  refine ⟨?_, ?_, ?_⟩
  · intro t ht
    apply maxOrderOk_isOrder
    rcases List.mem_cons.1 ht with rfl | ht
    · exact L1_maxord_O0_ok
    · obtain ⟨e, he, rfl⟩ := List.mem_map.1 ht
      apply extremalOk_maxOrderOk
      rcases List.mem_cons.1 he with rfl | he
      · exact L1_standard_extremal_ok.1
      · exact List.all_eq_true.1 L1_alternate_extremal_ok.2 e he
  · intro t ht
    apply maxOrderOk_isOrder
    rcases List.mem_cons.1 ht with rfl | ht
    · exact L3_maxord_O0_ok
    · obtain ⟨e, he, rfl⟩ := List.mem_map.1 ht
      apply extremalOk_maxOrderOk
      rcases List.mem_cons.1 he with rfl | he
      · exact L3_standard_extremal_ok.1
      · exact List.all_eq_true.1 L3_alternate_extremal_ok.2 e he
  · intro t ht
    apply maxOrderOk_isOrder
    rcases List.mem_cons.1 ht with rfl | ht
    · exact L5_maxord_O0_ok
    · obtain ⟨e, he, rfl⟩ := List.mem_map.1 ht
      apply extremalOk_maxOrderOk
      rcases List.mem_cons.1 he with rfl | he
      · exact L5_standard_extremal_ok.1
      · exact List.all_eq_true.1 L5_alternate_extremal_ok.2 e he

/-! ## Non-vacuity: concrete instances meeting the hypotheses (p = 7, O₀ = ⟨1, i, (i+j)/2, (1+ij)/2⟩) -/
namespace Example
def O0 : Lattice := ⟨2, ⟨⟨2, 0, 0, 1⟩, ⟨0, 2, 1, 0⟩, ⟨0, 0, 1, 0⟩, ⟨0, 0, 0, 1⟩⟩⟩
def x : Elem := ⟨1, ⟨1, 1, 1, 0⟩⟩            -- 1 + i + j, N(x) = 9
def I1 : LeftIdeal := createFromPrimitive 7 x 3 O0
def I2 : LeftIdeal := createFromPrimitive 7 ⟨1, ⟨2, 1, 0, 0⟩⟩ 5 O0
def alpha : Elem := ⟨1, ⟨1, 2, 0, 0⟩⟩
def RO : Lattice := ⟨6, ⟨⟨6, 0, 0, 3⟩, ⟨0, 18, 3, 11⟩, ⟨0, 0, 3, 1⟩, ⟨0, 0, 0, 1⟩⟩⟩       -- C output of right_order(I1)
def T12 : Lattice := ⟨6, ⟨⟨30, 12, 10, 7⟩, ⟨0, 6, 5, 1⟩, ⟨0, 0, 5, 3⟩, ⟨0, 0, 0, 1⟩⟩⟩     -- C output of right_transporter(I1, I2)

-- the order hypotheses of `create_from_primitive_spec` are satisfiable: O₀ is a ring with 1 …
example : isOrderCert 7 O0 = true ∧ hasMaximalDisc 7 O0 = true := by decide +kernel
example : (1 : H 7) ∈ hLat 7 O0 ∧ hLat 7 O0 * hLat 7 O0 ≤ hLat 7 O0 :=
  ⟨(isOrderCert_sound 7 O0 (by decide +kernel)).2.2.1, (isOrderCert_sound 7 O0 (by decide +kernel)).2.2.2⟩
-- … and the constructor returns the HNF ideal of norm gcd(9, 3) = 3 whose norm² is the index
example : I1 = ⟨⟨2, ⟨⟨6, 0, 4, 5⟩, ⟨0, 6, 1, 4⟩, ⟨0, 0, 1, 0⟩, ⟨0, 0, 0, 1⟩⟩⟩, 3, O0⟩ := by decide +kernel
example : nrm (val 7 x) = (9 : ℤ) := by
  simp [nrm_eq, val, x]; norm_num
example : normCovolOk I1 = true ∧ isLeftIdealCert 7 O0 I1.lattice = true := by decide +kernel
-- sum / intersection / equality
example : (lidealAdd I1 I2).norm = 1 ∧ (lidealInter I1 I2).norm = 15 ∧ latWf I1.lattice = true ∧ latWf I2.lattice = true := by
  decide +kernel
example : lidealEquals I1 I1 = true ∧ lidealEquals I1 I2 = false := by decide +kernel
-- generator search succeeds and its certificate is accepted
example : generatorCoprime 7 I1 1 0 = some ⟨2, ⟨-4, -1, -1, 0⟩⟩ ∧ generatorCert 7 I1 ⟨2, ⟨-4, -1, -1, 0⟩⟩ = true := by
  decide +kernel
-- product by α = 1 + 2i: returned, and it is I1·α
example : (lidealMul 7 I1 alpha).map (·.norm) = some 15 := by decide +kernel
example : (match lidealMul 7 I1 alpha with
    | some J => isomCert 7 I1.lattice J.lattice alpha && normCovolOk J
    | none => false) = true := by decide +kernel
-- certificates produced by the C code are accepted
example : isRightOrderCert 7 I1 RO = true := by decide +kernel
example : isRightTransporterCert 7 I1.lattice I2.lattice T12 = true ∧ transporterCovolOk I1 I2 T12 = true := by decide +kernel

/-! non-vacuity of the *full* theorems: every hypothesis is met by these concrete objects -/
theorem O0_isOrder : IsOrder (hLat 7 O0) := isOrder_of_cert 7 O0 (by decide +kernel)
theorem O0_hnf : O0.denom ≠ 0 ∧ IsHNF O0.basis := latWf_sound O0 (by decide +kernel)
theorem O0_det : (toMatrix O0.basis).det ≠ 0 := det_ne_zero_of_isHNF _ O0_hnf.2
theorem x_mem : val 7 x ∈ hLat 7 O0 :=
  (latContains_iff_val 7 O0 x O0_hnf.1 (by decide) O0_hnf.2).1 (by decide +kernel)
theorem x_nrm : nrm (val 7 x) = (9 : ℤ) := by simp [nrm_eq, val, x]; norm_num
/-- I1 = O₀·(1+i+j) + 3·O₀ carries its stored norm 3 (here N(x)/3 = 3 is *not* coprime to 3: the deep case) -/
theorem I1_ideal : IsLeftIdealOfNorm (hLat 7 O0) (hLat 7 I1.lattice) I1.norm :=
  create_from_primitive_is_ideal_of_norm 7 x 3 O0 0 9 O0_hnf.1 (by decide) O0_isOrder x_mem x_nrm
theorem I1_norm : I1.norm = 3 := by decide +kernel
theorem I1_denom : I1.lattice.denom ≠ 0 := by decide +kernel
theorem I1_gen : generatorCoprime 7 I1 1 0 = some ⟨2, ⟨-4, -1, -1, 0⟩⟩ := by decide +kernel
/-- the generator found by the search generates I1 with 3 (full theorem, no certificate) … -/
example : hLat 7 I1.lattice = genIdeal (hLat 7 O0) (val 7 ⟨2, ⟨-4, -1, -1, 0⟩⟩) I1.norm :=
  (generator_generates 7 I1 1 0 _ I1_denom O0_isOrder I1_ideal (by rw [I1_norm]; decide) I1_gen).1
/-- … and hence norm² = index for I1: covol(I1) = 9·covol(O₀), i.e. [O₀ : I1] = 9 -/
example : covol I1.lattice = (I1.norm : ℚ) ^ 2 * covol O0 :=
  norm_index_of_generator_partial 7 I1 1 0 _ O0_hnf.1 I1_denom O0_det O0_isOrder I1_ideal (by rw [I1_norm]; decide) I1_gen
    (by simp [nrm_eq, val]; norm_num)
/-- direct case: I2 = O₀·(2+i) + 5·O₀, N(2+i) = 5 = n, cofactor 1 -/
example : covol I2.lattice = (I2.norm : ℚ) ^ 2 * covol O0 :=
  create_from_primitive_norm_index 7 ⟨1, ⟨2, 1, 0, 0⟩⟩ 5 O0 0 5 1 O0_hnf.1 (by decide) O0_det O0_isOrder
    ((latContains_iff_val 7 O0 _ O0_hnf.1 (by decide) O0_hnf.2).1 (by decide +kernel))
    (by simp [nrm_eq, val]; norm_num) (by decide) (by decide) (by decide)
/-- product: `lideal_mul` returns I1·α for α = 1 + 2i ∈ O₀ (N(α) = 5) -/
example : ∀ J, lidealMul 7 I1 alpha = some J → hLat 7 J.lattice = hLat 7 I1.lattice * Submodule.span ℤ {val 7 alpha} := by
  intro J hJ
  exact (lideal_mul_returns_product 7 I1 alpha 0 0 5 J O0_hnf.1 I1_denom (by decide) O0_isOrder I1_ideal
    (by rw [I1_norm]; decide)
    ((latContains_iff_val 7 O0 alpha O0_hnf.1 (by decide) O0_hnf.2).1 (by decide +kernel))
    (by simp [nrm_eq, val, alpha]; norm_num) hJ).1
example : (lidealMul 7 I1 alpha).isSome = true := by decide +kernel
/-- the deep case by the FULL theorem: x = 1+i+j is primitive in O₀, N(x) = 9, N = 3, n = 3 (cofactor 3 not prime to 3) -/
example : covol I1.lattice = (I1.norm : ℚ) ^ 2 * covol O0 :=
  create_from_primitive_norm_index_primitive 7 x 3 O0 0 9 (by decide +kernel) (by decide +kernel) (by decide)
    (by decide +kernel) (by decide +kernel) x_nrm (by decide) (by
      intro ℓ hℓ hd h
      have e : Int.gcd 9 3 = 3 := by decide
      have h3 : ℓ ∣ 3 := by rwa [e] at hd
      have h7 : ℓ ∣ 7 := Int.natCast_dvd_natCast.1 h
      have : ℓ ∣ Nat.gcd 3 7 := Nat.dvd_gcd h3 h7
      have : ℓ = 1 := by simpa using this
      exact hℓ.one_lt.ne' this)
/-- the C outputs for right order / right transporter pass the *exact* certificates, hence are the transporter -/
example : hLat 7 T12 = transporter (hLat 7 I1.lattice) (hLat 7 I2.lattice) := by
  have hI2 : IsLeftIdealOfNorm (hLat 7 O0) (hLat 7 I2.lattice) I2.norm :=
    create_from_primitive_is_ideal_of_norm 7 ⟨1, ⟨2, 1, 0, 0⟩⟩ 5 O0 0 5 O0_hnf.1 (by decide) O0_isOrder
      ((latContains_iff_val 7 O0 _ O0_hnf.1 (by decide) O0_hnf.2).1 (by decide +kernel)) (by simp [nrm_eq, val]; norm_num)
  exact right_transporter_exact 7 I1 I2 T12 I1_ideal
    (norm_mem_conj_mul_of_generator_found 7 I1 1 0 _ I1_denom O0_isOrder I1_ideal (by rw [I1_norm]; decide) I1_gen)
    hI2.left (by decide +kernel)
example : isRightOrderExact 7 I1 RO = true := by decide +kernel
end Example

end SqiProps.C15

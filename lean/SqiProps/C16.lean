import SqiProofs.LllOps
import SqiProofs.LllCheck
import SqiProofs.LllDim2
import SqiProofs.LllGuard
import SqiProofs.LllGram
import SqiProofs.LllResp
import SqiProofs.LllEnum
import SqiProofs.LllProg
/- Property C16 — "Lattice reduction keeps the lattice and reduces it; responses are short".
   Property theorems only (+ non-vacuity examples); lemmas live in SqiProofs/Lll*.lean, models in
   SqiModel/{Lll,Dim2}.lean (tied to the C code by the correspondence / certificate harness tools/props/c16.py). -/
namespace SqiProps.C16
open SqiModel.Quat SqiModel.Lll SqiProofs.LllOps SqiProofs.LllCheck

/-! ## (1) the integer row operations keep the lattice — for ALL decision sequences (float-independent)

`run ops B` folds an arbitrary list of the two integer operations of `quat_lattice_lll`
(`RED k l r`: row k -= r·row l, `SWAP k`: swap rows k, k-1) over the pair (basis, H), starting with H = I. -/

/-- For every list of (valid) operations: final basis = H·B for the final H, det H = ±1, and the ℤ-span of the
    rows is unchanged. -/
theorem lll_ops_preserve_span (ops : List Op) (hv : ∀ op ∈ ops, op.valid = true) (b : Mat4) :
    toM (run ops b).1 = toM (run ops b).2 * toM b ∧
    ((toM (run ops b).2).det = 1 ∨ (toM (run ops b).2).det = -1) ∧
    rowSpan (toM (run ops b).1) = rowSpan (toM b) := by
  obtain ⟨h1, v, hv1, _, hb⟩ := run_spec ops hv b
  have e1 : toM (run ops b).1 = toM (run ops b).2 * toM b := by rw [← toM_mul, ← h1]
  have e2 : toM b = toM v * toM (run ops b).1 := by rw [← toM_mul, ← hb]
  refine ⟨e1, ?_, rowSpan_eq_of_mul _ _ _ _ e1 e2⟩
  apply det_unit_of_mul_eq_one _ (toM v)
  rw [← toM_mul, hv1, toM_identity]

/-- The same in the C calling convention (`basis := transpose(lattice->basis)` at entry, `red := transpose(basis)`
    at exit; lattice vectors are COLUMNS): `red = lattice·Hᵀ`, det H = ±1, and the columns of `red` and of
    `lattice->basis` generate the same lattice. -/
theorem lll_ops_preserve_span_cols (ops : List Op) (hv : ∀ op ∈ ops, op.valid = true) (lat : Mat4) :
    toM (runCols ops lat) = toM lat * (toM (run ops lat.transpose).2).transpose ∧
    ((toM (run ops lat.transpose).2).det = 1 ∨ (toM (run ops lat.transpose).2).det = -1) ∧
    rowSpan (toM (runCols ops lat)).transpose = rowSpan (toM lat).transpose := by
  obtain ⟨e1, hd, hs⟩ := lll_ops_preserve_span ops hv lat.transpose
  refine ⟨?_, hd, ?_⟩
  · unfold runCols
    rw [toM_transpose, e1, Matrix.transpose_mul, toM_transpose, Matrix.transpose_transpose]
  · unfold runCols
    rw [toM_transpose, Matrix.transpose_transpose, hs, toM_transpose]

/-- non-vacuity: a concrete decision sequence as issued by the C loop (RED(1,0), SWAP(1), RED(2,1), RED(2,0), …) -/
example :
    let ops := [Op.red 1 0 3, Op.swap 1, Op.red 2 1 (-2), Op.red 2 0 1, Op.swap 2, Op.red 3 2 5]
    (∀ op ∈ ops, op.valid = true) ∧
    (run ops ⟨⟨5, 0, 0, 0⟩, ⟨3, 7, 0, 0⟩, ⟨1, 2, 3, 0⟩, ⟨4, 4, 4, 1⟩⟩).1 ≠ ⟨⟨5, 0, 0, 0⟩, ⟨3, 7, 0, 0⟩, ⟨1, 2, 3, 0⟩, ⟨4, 4, 4, 1⟩⟩ := by
  decide


/-! ## (1-T) the op-list model is the C TEXT: integer slice of lll.c, translated on every run

`tools/translate/lllops.py` slices `src/quaternion/ref/generic/lll.c`: it keeps the integer statements of `RED` / `SWAP`
(unrolled per entry), drops the `mpf` statements, turns float-dependent values/branches into ORACLE choices, extracts the
events and the main-loop shape of `quat_lattice_lll`, and writes `SqiGen/LllOps.lean` (data for the interpreter
`SqiModel/LllProg.lean`).  The theorems below are about that generated data, for EVERY oracle. -/
open SqiModel.LllProg in
/-- RED, as extracted from the C text: for every k, l, every oracle quotient `q` and all matrices the integer statements
    are exactly `Op.red k l q` on `basis` and on `H`; when the oracle takes the early exit (`|u| <= 0.5`, which precedes
    every integer statement) nothing changes.  SWAP, as extracted: exactly `Op.swap k` on both. -/
theorem lll_text_red_swap_bodies (k l : Fin 4) (q : Int) (b h : Mat4) :
    runRED SqiGen.LllOps.red k l false q (b, h) = step (b, h) (.red k l q) ∧
    runRED SqiGen.LllOps.red k l true q (b, h) = (b, h) ∧
    SqiGen.LllOps.red.quotientFromFloat = true ∧
    runSWAP SqiGen.LllOps.swap k (b, h) = step (b, h) (.swap k) :=
  ⟨SqiProofs.LllProg.red_body k l q b h, SqiProofs.LllProg.red_exit k l q (b, h), rfl,
   SqiProofs.LllProg.swap_body k b h⟩

open SqiModel.LllProg in
/-- positions in `quat_lattice_lll`, as extracted: the exact rank test (`return -1`) comes FIRST, before the precision is
    set and before any float; then transpose-in, `H := I`, the main loop, transpose-out; the zero test inside the loop
    looks at the mpf value itself (`mpf_sgn(B[k]) == 0`, not a double conversion) and returns -1. -/
theorem lll_text_positions :
    SqiGen.LllOps.skeleton.events =
      [.rankTestReturnMinus1, .setPrecision, .transposeIn, .initHIdentity, .mainLoop, .transposeOut] ∧
    SqiGen.LllOps.skeleton.loop.zeroTest = .mpfSgn ∧ SqiGen.LllOps.skeleton.loop.zeroTestReturnsMinus1 = true :=
  ⟨SqiProofs.LllProg.events_order, SqiProofs.LllProg.zero_test_exact⟩

open SqiModel.LllProg in
/-- **the code text preserves the lattice**: for EVERY list of oracle decisions (every float trajectory) the extracted
    main loop (`int k = 1; while (k < 4) { RED(k,k-1); oracle ? {SWAP(k); k = max(k-1,1)} : {RED(k,l), l = k-2..0; k++} }`)
    issues only valid operations, the extracted program executed through the extracted RED / SWAP bodies is
    `runCols ops lattice`, hence `red = lattice·Hᵀ` with det H = ±1 and the same column lattice. -/
theorem lll_text_preserves_lattice (ds : List Decision) (lat : Mat4) :
    let ops := loopOps SqiGen.LllOps.skeleton.loop ds SqiGen.LllOps.skeleton.loop.kInit
    (∀ op ∈ ops, op.valid = true) ∧
    textLll SqiGen.LllOps.red SqiGen.LllOps.swap SqiGen.LllOps.skeleton ds lat = runCols ops lat ∧
    ((toM (run ops lat.transpose).2).det = 1 ∨ (toM (run ops lat.transpose).2).det = -1) ∧
    rowSpan (toM (textLll SqiGen.LllOps.red SqiGen.LllOps.swap SqiGen.LllOps.skeleton ds lat)).transpose
      = rowSpan (toM lat).transpose := by
  intro ops
  have hv : ∀ op ∈ ops, op.valid = true := SqiProofs.LllProg.loopOps_valid ds _ (by decide)
  obtain ⟨_, hd, hs⟩ := lll_ops_preserve_span_cols ops hv lat
  refine ⟨hv, SqiProofs.LllProg.textLll_eq ds lat, hd, ?_⟩
  rw [SqiProofs.LllProg.textLll_eq ds lat]; exact hs

/-- non-vacuity: a concrete oracle run of the extracted text (RED(1,0) with q = 3, swap; then no swap …) -/
example : (SqiModel.LllProg.loopOps SqiGen.LllOps.skeleton.loop
    [⟨(false, 3), true, []⟩, ⟨(true, 0), false, []⟩, ⟨(false, -2), false, [(false, 1)]⟩, ⟨(true, 0), false, [(false, 5), (true, 0)]⟩] 1)
    = [Op.red 1 0 3, Op.swap 1, Op.red 2 1 (-2), Op.red 2 0 1, Op.red 3 1 5] := by decide

/-! ## (2) reducedness: certificate checking with a proved checker   (PARTIAL)

Which operations the routine performs, and whether it terminates, is decided by GMP `mpf` floats that no exact
model reproduces.  FULL STATEMENT (not provable about floats; it was FALSE of the code before repo commit ba3b4ab,
whose precision `2·Σ max-bitsize` ignored q — the repaired precision is `2·Σ max-bitsize + 4·bitsize(q) + 128`,
`SqiModel.Lll.lllPrecision`; the old failing input is in corpus/C16 and runs first on every check):
  "for every full-rank lattice `quat_lattice_lll` returns 0 and a (δ,η)-reduced basis of the same lattice".
PROVED: the exact checker `lllCheck`, which the harness runs on EVERY C output, is sound with respect to the
mathematical (rational Gram-Schmidt) definition of being reduced, plus the classical consequence. -/

/-- `lllCheck δ η q L R = true` implies: the columns of `R` and `L` generate the same lattice, the columns of `R` are
    linearly independent (all `|b*_i|^2 > 0`), size-reduced with `η = en/ed` and satisfy the Lovász condition with
    `δ = dn/dd` — for the Gram-Schmidt quantities `mu`, `Bn` defined over ℚ by the textbook recursion
    (`SqiProofs.LllCheck.gs`) for the norm form (1,1,q,q). -/
theorem lllCheck_sound {dn dd en ed q : Int} {lat red : Mat4} (h : lllCheck dn dd en ed q lat red = true) :
    rowSpan (toM red).transpose = rowSpan (toM lat).transpose ∧
    (∀ i : Fin 4, 0 < Bn q (colsQ red) i) ∧
    SizeReduced ((en : ℚ) / ed) q (colsQ red) ∧ Lovasz ((dn : ℚ) / dd) q (colsQ red) := by
  simp only [lllCheck, Bool.and_eq_true, decide_eq_true_eq] at h
  obtain ⟨⟨⟨⟨⟨_, hdd⟩, hed⟩, _⟩, hsame⟩, hred⟩ := h
  refine ⟨?_, ?_⟩
  · have := sameRowLattice_sound hsame
    rwa [toM_transpose, toM_transpose] at this
  · rw [colsQ_eq]
    exact reducedRows_sound hred hdd hed

/-- classical consequence: if `η² < δ` the first vector of an accepted basis satisfies
    `|b_1|² (δ-η²)^i ≤ |b*_{i+1}|²` for every i, and `|b_1|⁸ (δ-η²)⁶ ≤ Π|b*_i|²`
    (= Gram determinant `q² det(L)²`, see `lllCheck_prod_B_eq_det` / `lllCheck_first_vector_short_det`). -/
theorem lllCheck_first_vector_short {dn dd en ed q : Int} {lat red : Mat4}
    (h : lllCheck dn dd en ed q lat red = true) (hη : ((en : ℚ) / ed) ^ 2 < (dn : ℚ) / dd) :
    (∀ i : Fin 4, ((dn : ℚ) / dd - ((en : ℚ) / ed) ^ 2) ^ (i : ℕ) * formQ q (colsQ red 0) (colsQ red 0)
        ≤ Bn q (colsQ red) i) ∧
    ((dn : ℚ) / dd - ((en : ℚ) / ed) ^ 2) ^ 6 * (formQ q (colsQ red 0) (colsQ red 0)) ^ 4
        ≤ Bn q (colsQ red) 0 * Bn q (colsQ red) 1 * Bn q (colsQ red) 2 * Bn q (colsQ red) 3 := by
  obtain ⟨_, hpos, hS, hL⟩ := lllCheck_sound h
  exact ⟨first_vector_le hS hL hpos hη, first_vector_pow_le hS hL hpos hη⟩

/-- the product of the Gram-Schmidt norms of an accepted basis IS the Gram determinant of the lattice:
    `B_1 B_2 B_3 B_4 = q² det(red)² = q² det(lattice)²` (orthogonal factorisation `R = M·S`, `M` unit triangular,
    `S D Sᵀ = diag(B)`; same lattice ⇒ equal squared determinants). -/
theorem lllCheck_prod_B_eq_det {dn dd en ed q : Int} {lat red : Mat4} (h : lllCheck dn dd en ed q lat red = true) :
    Bn q (colsQ red) 0 * Bn q (colsQ red) 1 * Bn q (colsQ red) 2 * Bn q (colsQ red) 3
      = (q : ℚ) ^ 2 * (((toM lat).det : ℤ) : ℚ) ^ 2 := by
  obtain ⟨_, hpos, _, _⟩ := lllCheck_sound h
  have hprod := SqiProofs.LllGram.prod_Bn_cols q red hpos
  have hq : (0 : ℚ) < q := by
    simp only [lllCheck, Bool.and_eq_true, decide_eq_true_eq] at h
    exact_mod_cast h.1.1.1.1.1
  have hdred : (toM red).det ≠ 0 := by
    intro hz
    have : (0 : ℚ) < Bn q (colsQ red) 0 * Bn q (colsQ red) 1 * Bn q (colsQ red) 2 * Bn q (colsQ red) 3 :=
      mul_pos (mul_pos (mul_pos (hpos 0) (hpos 1)) (hpos 2)) (hpos 3)
    rw [hprod, hz] at this
    simp at this
  have hsame : sameRowLattice lat.transpose red.transpose = true := by
    simp only [lllCheck, Bool.and_eq_true] at h
    exact h.1.2
  have hdt : (toM red.transpose).det ≠ 0 := by rw [toM_transpose, Matrix.det_transpose]; exact hdred
  have hsq := SqiProofs.LllGram.det_sq_of_sameRowLattice hsame hdt
  rw [toM_transpose, toM_transpose, Matrix.det_transpose, Matrix.det_transpose] at hsq
  rw [hprod]
  have : (((toM red).det : ℤ) : ℚ) ^ 2 = (((toM lat).det : ℤ) : ℚ) ^ 2 := by exact_mod_cast hsq
  rw [this]

/-- **the classical LLL bound in terms of the lattice determinant**: for an accepted output with `η² < δ`,
    `(δ-η²)⁶ · ‖b_1‖⁸ ≤ q² · det(lattice)²`, i.e. `‖b_1‖² ≤ (δ-η²)^{-3/2} · (q·|det L|)^{1/2}`. -/
theorem lllCheck_first_vector_short_det {dn dd en ed q : Int} {lat red : Mat4}
    (h : lllCheck dn dd en ed q lat red = true) (hη : ((en : ℚ) / ed) ^ 2 < (dn : ℚ) / dd) :
    ((dn : ℚ) / dd - ((en : ℚ) / ed) ^ 2) ^ 6 * (formQ q (colsQ red 0) (colsQ red 0)) ^ 4
      ≤ (q : ℚ) ^ 2 * (((toM lat).det : ℤ) : ℚ) ^ 2 := by
  rw [← lllCheck_prod_B_eq_det h]
  exact (lllCheck_first_vector_short h hη).2

/-- post-condition on the return value demanded by the property (and evaluated by the harness on every call):
    rank-deficient input ⇒ `-1`; full rank ⇒ `0` and an accepted certificate. -/
theorem lllRetCheck_sound {dn dd en ed q : Int} {lat red : Mat4} {ret : Int}
    (h : lllRetCheck dn dd en ed q lat ret red = true) :
    (det lat = 0 → ret = -1) ∧ (det lat ≠ 0 → ret = 0 ∧ lllCheck dn dd en ed q lat red = true) := by
  unfold lllRetCheck at h
  split at h
  · rename_i hz
    exact ⟨fun _ => by simpa using h, fun hn => absurd hz hn⟩
  · rename_i hz
    simp only [Bool.and_eq_true, beq_iff_eq] at h
    exact ⟨fun hn => absurd hn hz, fun _ => h⟩

/-- non-vacuity: a real output of the C routine (q = 13, lattice diag(5,7,3,1)) is accepted with the harness
    constants δ = 98/100, η = 51/100. -/
example : lllCheck 98 100 51 100 13 ⟨⟨5, 0, 0, 0⟩, ⟨0, 7, 0, 0⟩, ⟨0, 0, 3, 0⟩, ⟨0, 0, 0, 1⟩⟩
    ⟨⟨0, 5, 0, 0⟩, ⟨0, 0, 7, 0⟩, ⟨0, 0, 0, 3⟩, ⟨1, 0, 0, 0⟩⟩ = true := by decide

/-! ### the rank-deficiency clause — true of the REPAIRED routine (repo commit ba3b4ab)

`lllRepaired t L` models the repaired `quat_lattice_lll` for an arbitrary float trace `t` (operation list + whether
the float test `B[k] == 0.0` fires): it begins with the exact rank test `lllGuard` = `ibz_mat_4x4_inv_with_det_as_denom`.
The harness compares `lllGuard` with the C return value on every call (`ret = -1` iff the guard says so). -/

/-- rank-deficient input (a non-trivial integer relation between the generators, equivalently det = 0) is ALWAYS
    reported: the repaired routine returns -1 and writes no basis, whatever the floats would have done. -/
theorem lll_reports_rank_deficiency (t : Trace) (lat : Mat4)
    (h : ∃ v : Fin 4 → ℤ, v ≠ 0 ∧ (toM lat).mulVec v = 0) : lllRepaired t lat = (-1, none) :=
  SqiProofs.LllGuard.repaired_of_singular t lat ((SqiProofs.LllGuard.det_zero_iff_dependent lat).mpr h)

/-- the guard is exactly the determinant test: it fires iff det = 0 (iff the generators are dependent). -/
theorem lll_guard_iff (lat : Mat4) :
    (lllGuard lat = some (-1) ↔ (toM lat).det = 0) ∧ (lllGuard lat = none ↔ (toM lat).det ≠ 0) ∧
    ((toM lat).det = 0 ↔ ∃ v : Fin 4 → ℤ, v ≠ 0 ∧ (toM lat).mulVec v = 0) :=
  ⟨SqiProofs.LllGuard.guard_fail_iff lat, SqiProofs.LllGuard.guard_pass_iff lat,
   SqiProofs.LllGuard.det_zero_iff_dependent lat⟩

/-- full-rank input is never rejected by the entry test: a -1 can then only come from the remaining float test
    (never observed; the harness treats it as a violation), and otherwise the routine returns 0 with
    `red = lattice·Hᵀ`, det H = ±1, same column lattice — for every valid operation sequence. -/
theorem lll_full_rank_outcome (t : Trace) (lat : Mat4) (h : (toM lat).det ≠ 0)
    (hv : ∀ op ∈ t.ops, op.valid = true) :
    ((lllRepaired t lat).1 = -1 ↔ t.floatZero = true) ∧
    (t.floatZero = false →
      ∃ red, lllRepaired t lat = (0, some red) ∧
        toM red = toM lat * (toM (run t.ops lat.transpose).2).transpose ∧
        ((toM (run t.ops lat.transpose).2).det = 1 ∨ (toM (run t.ops lat.transpose).2).det = -1) ∧
        rowSpan (toM red).transpose = rowSpan (toM lat).transpose) := by
  rw [SqiProofs.LllGuard.repaired_of_full_rank t lat h]
  constructor
  · cases t.floatZero <;> simp
  · intro hf
    refine ⟨runCols t.ops lat, by simp [hf], lll_ops_preserve_span_cols t.ops hv lat⟩

/-! ### full rank ⇒ never −1  (true of the routine after the SECOND repair, notes/patches/C16-fix-lll-float-zero.diff)

STATE OF THE CODE (repo main with ba3b4ab, second repair not yet committed): the remaining zero test is
`mpf_get_d(B[k]) == 0.0`; the conversion to double underflows when the exact `B[k] < 2^-1074`, so the full-rank lattice
with columns (D,1,0,0),(D+1,1,0,0),e2,e3, D = 2^600, is rejected with −1 (finding `lll:full-rank:ret-1:float-underflow`,
replayed by the harness on every run; `lll_full_rank_outcome` above covers that code: −1 ⇔ the float test fires).
The repair tests the mpf value itself; its exact counterpart can never fire on a full-rank lattice: -/

/-- in exact arithmetic every Gram-Schmidt norm `|b*_k|²` of a full-rank basis is positive (q > 0) — at every moment
    of the run, for every valid operation sequence: the zero test has nothing to report once the entry guard passed. -/
theorem lll_exact_zero_test_never_fires {q : Int} (hq : 0 < q) (ops : List Op) (hv : ∀ op ∈ ops, op.valid = true)
    (lat : Mat4) (hd : (toM lat).det ≠ 0) : exactZeroTest q (run ops lat.transpose).1 = false :=
  SqiProofs.LllGuard.exactZeroTest_false hq ops hv lat hd

/-- **full rank ⇒ never −1** for the model of the routine after both repairs (`lllRepaired2`: entry guard, exact zero
    test at every prefix of the operation list): the result is 0 with `red = runCols ops lattice`
    (= lattice·Hᵀ, same lattice by `lll_ops_preserve_span_cols`); and rank-deficient ⇒ −1. -/
theorem lll_full_rank_never_fails {q : Int} (hq : 0 < q) (ops : List Op) (hv : ∀ op ∈ ops, op.valid = true)
    (lat : Mat4) :
    ((toM lat).det ≠ 0 → lllRepaired2 q ops lat = (0, some (runCols ops lat))) ∧
    ((toM lat).det = 0 → lllRepaired2 q ops lat = (-1, none)) :=
  ⟨SqiProofs.LllGuard.repaired2_of_full_rank hq ops hv lat, SqiProofs.LllGuard.repaired2_of_singular q ops lat⟩

/-- the witness of the finding (scaled down: D = 2^5; the C witness uses D = 2^600): full rank (det = −1), the
    repaired model returns 0; and the reduced basis the repaired C code returns for it (the identity) is accepted. -/
example : lllRepaired2 103 [Op.red 1 0 1, Op.swap 1] ⟨⟨32, 33, 0, 0⟩, ⟨1, 1, 0, 0⟩, ⟨0, 0, 1, 0⟩, ⟨0, 0, 0, 1⟩⟩ =
    (0, some (runCols [Op.red 1 0 1, Op.swap 1] ⟨⟨32, 33, 0, 0⟩, ⟨1, 1, 0, 0⟩, ⟨0, 0, 1, 0⟩, ⟨0, 0, 0, 1⟩⟩)) := by decide
example : lllCheck 98 100 51 100 103 ⟨⟨32, 33, 0, 0⟩, ⟨1, 1, 0, 0⟩, ⟨0, 0, 1, 0⟩, ⟨0, 0, 0, 1⟩⟩ Mat4.identity = true := by decide

/-- regression (former finding `lll:rank-deficient:ret0`, corpus/C16/singular-ret0.json): q = 1, columns
    (0,3,0,0),(0,1,0,0),(0,4,0,0),(0,0,0,1).  The unrepaired code returned 0 with two zero columns, which the
    post-condition rejects; the repaired model returns -1, which it accepts. -/
example : lllRetCheck 98 100 51 100 1 ⟨⟨0, 0, 0, 0⟩, ⟨3, 1, 4, 0⟩, ⟨0, 0, 0, 0⟩, ⟨0, 0, 0, 1⟩⟩ 0
    ⟨⟨0, 0, 0, 0⟩, ⟨0, 0, 1, 0⟩, ⟨0, 0, 0, 0⟩, ⟨0, 0, 0, 1⟩⟩ = false := by decide
example : lllRepaired ⟨[Op.red 1 0 3, Op.swap 1], false⟩ ⟨⟨0, 0, 0, 0⟩, ⟨3, 1, 4, 0⟩, ⟨0, 0, 0, 0⟩, ⟨0, 0, 0, 1⟩⟩ = (-1, none)
    ∧ lllRetCheck 98 100 51 100 1 ⟨⟨0, 0, 0, 0⟩, ⟨3, 1, 4, 0⟩, ⟨0, 0, 0, 0⟩, ⟨0, 0, 0, 1⟩⟩ (-1) Mat4.zero = true := by decide
/-- regression (former finding `…:zero-first-column:sigfpe`): the zero matrix is reported, no division happens. -/
example : lllRepaired ⟨[], false⟩ Mat4.zero = (-1, none) := by decide
/-- non-vacuity of `lll_full_rank_outcome`: a full-rank lattice passes the guard. -/
example : lllGuard ⟨⟨5, 0, 0, 0⟩, ⟨0, 7, 0, 0⟩, ⟨0, 0, 3, 0⟩, ⟨0, 0, 0, 1⟩⟩ = none := by decide

/-! ## (3) dimension-2 routines (exact integers; models in SqiModel/Dim2.lean, compared with dim2.c on every run)

`none` results of the models = the C code divides by zero / takes the root of a negative number (GMP aborts): this
happens for collinear / zero input columns (`quat_dim2_lattice_short_basis` reaches `norm_b = 0`), documented in
notes/C16.md.  For q > 0 and independent columns the Gauss loop is proved to return (`short_basis_terminates`). -/
open SqiModel.Dim2 SqiProofs.LllDim2

/-- `quat_dim2_lattice_short_basis`: the output columns are the input columns times an integer matrix of
    determinant ±1 (same lattice). -/
theorem short_basis_keeps_lattice {q : Int} {m r : M2} (h : shortBasis q m = some r) :
    ∃ u : M2, r = mul2 m u ∧ (u.det = 1 ∨ u.det = -1) := shortBasis_unimodular h

/-- … and the first output column is not longer than the second. -/
theorem short_basis_ordered {q : Int} {m r : M2} (h : shortBasis q m = some r) :
    normV q r.col0 ≤ normV q r.col1 := shortBasis_ordered h

/-- … and the output `(b, a)` is Gauss-reduced: `|2<a,b>| ≤ N(b)` (q ≥ 0). -/
theorem short_basis_gauss_reduced {q : Int} (hq : 0 ≤ q) {m r : M2} (h : shortBasis q m = some r) :
    2 * bilV q r.col1 r.col0 ≤ normV q r.col0 ∧ -normV q r.col0 ≤ 2 * bilV q r.col1 r.col0 :=
  shortBasis_gauss_reduced hq h

/-- **the first output column is a SHORTEST non-zero vector of the input lattice** (q ≥ 0): every non-zero integer
    combination `x·(col 0) + y·(col 1)` of the INPUT columns has norm ≥ N(first output column). -/
theorem short_basis_first_is_shortest {q : Int} (hq : 0 ≤ q) {m r : M2} (h : shortBasis q m = some r) {x y : Int}
    (hxy : ¬(x = 0 ∧ y = 0)) : normV q r.col0 ≤ normV q (m.eval ⟨x, y⟩) :=
  shortBasis_shortest_input hq h hxy

/-- total correctness: for q > 0 and linearly independent input columns the routine returns (no division by zero,
    the loop terminates: `norm_b` strictly decreases). -/
theorem short_basis_terminates {q : Int} (hq : 0 < q) {m : M2} (hd : m.det ≠ 0) : (shortBasis q m).isSome = true :=
  shortBasis_terminates hq hd

/-- for collinear columns the C routine divides by zero (model: `none`; GMP raises SIGFPE — confirmed by the
    harness): a = 2b. -/
example : shortBasis 1 ⟨2, 1, 0, 0⟩ = none := by decide

/-- `quat_dim2_lattice_closest_vector`: `target - target_minus_closest = basis · closest_coords_in_basis`. -/
theorem closest_vector_in_lattice {q : Int} {rb : M2} {t : V2} {o : CvpOut} (h : closestVector q rb t = some o) :
    t.sub o.tmc = rb.eval o.coords := closestVector_lattice h

/-- … and the residual is nearest-plane reduced (q ≥ 0): with `b` = first column, `a` = second column and
    `a* = N(b)·a - <a,b>·b`: `|2<r,b>| ≤ N(b)` and `|2·N(b)·<a*,r>| ≤ N(a*)` — the "closest vector" is Babai's
    nearest-plane vector for the basis `(b, a)` (it is the closest lattice vector up to the usual nearest-plane factor;
    exact closeness is not claimed by the code either). -/
theorem closest_vector_reduced {q : Int} (hq : 0 ≤ q) {rb : M2} {t : V2} {o : CvpOut} (h : closestVector q rb t = some o) :
    (2 * bil q o.tmc.x o.tmc.y rb.a00 rb.a10 ≤ norm q rb.a00 rb.a10 ∧
      -(norm q rb.a00 rb.a10) ≤ 2 * bil q o.tmc.x o.tmc.y rb.a00 rb.a10) ∧
    (let nb := norm q rb.a00 rb.a10
     let bl := bil q rb.a01 rb.a11 rb.a00 rb.a10
     let as0 := rb.a01 * nb - rb.a00 * bl
     let as1 := rb.a11 * nb - rb.a10 * bl
     2 * (bil q as0 as1 o.tmc.x o.tmc.y * nb) ≤ norm q as0 as1 ∧
       -(norm q as0 as1) ≤ 2 * (bil q as0 as1 o.tmc.x o.tmc.y * nb)) :=
  closestVector_reduced hq h

/-- `quat_dim2_lattice_qf_enumerate_short_vec`, soundness of found = 1 (for completeness see below). -/
theorem enumerate_short_vec_sound {cond : V2 → Option Elem} {q : Int} {tmc : V2} {b : M2} {nb : Int} {mt : Nat}
    {e : Elem} (h : enumerateShortVec cond q tmc b nb mt = some (some e)) :
    ∃ x y : Int, cond (tmc.sub (b.eval ⟨x, y⟩)) = some e ∧ normV q (tmc.sub (b.eval ⟨x, y⟩)) ≤ nb :=
  enumerateShortVec_sound cond q tmc b nb h

/-! ### completeness of the bounded enumeration — what is and is not guaranteed

`quat_dim2_lattice_qf_enumerate_short_vec` processes the cells `(x,y)`, `y = -bound_y … bound_y`,
`x = -x_v(y) … bound_x(y)`, in the order y ascending, x ascending; every cell costs one try; it stops after a hit,
after the cell (0,0), or when `max_tries` is used up (`SqiProofs.LllEnum.enumerateShortVec_eq_fold`).  The box is
computed for the CENTRED ellipse `a x² + b x y + c y² ≤ N' = norm_bound - N(target_minus_closest)` (the C comment calls
this a heuristic), while the test is `N(target_minus_closest - B·(x,y)) ≤ norm_bound`. -/
open SqiProofs.LllEnum in
/-- `quat_dim2_lattice_qf_value_bound_generation` is a strict upper bound of `√(num_a/denom_a) + num_b/denom_b`
    (no square roots: for every rational `t ≥ 0` with `t²·denom_a ≤ num_a`); it succeeds whenever `denom_a > 0`,
    `denom_b ≠ 0`, `num_a ≥ 0`. -/
theorem bound_generation_upper {numA denA numB denB : Int} (hdA : 0 < denA) (hdB : denB ≠ 0) (hnA : 0 ≤ numA) :
    ∃ r : Int, boundGen numA denA numB denB = some (some r) ∧
      ∀ t : ℚ, 0 ≤ t → t ^ 2 * denA ≤ numA → t + (numB : ℚ) / denB < r :=
  boundGen_upper hdA hdB hnA

open SqiProofs.LllEnum in
/-- the Fincke–Pohst box: every integer point of the centred ellipse has its `x` strictly inside the x-range of its
    row; its `y` is strictly inside `[-bound_y, bound_y]` if `(4a²c - b²)·y² ≤ 4a²·N'` — implied by the ellipse when
    `a = 1` or `b = 0` (second statement), NOT in general (`enumeration_box_misses_ellipse`). -/
theorem enumeration_box_contains {q : Int} {tmc : V2} {b : M2} {nb : Int} {pre : EnumPre}
    (hpre : enumPre q tmc b nb = some pre) (ha : 0 < qfA q b) {x y : Int}
    (h : qfA q b * x * x + qfB q b * x * y + qfC q b * y * y ≤ nbeOf q tmc nb) :
    (∃ lo hi, rowBounds pre y = some (lo, hi) ∧ lo < x ∧ x < hi) ∧
    ((2 * qfA q b * (2 * qfA q b) * qfC q b - qfB q b * qfB q b) * (y * y)
        ≤ 2 * qfA q b * (2 * qfA q b) * nbeOf q tmc nb → -pre.boundY < y ∧ y < pre.boundY) ∧
    (qfA q b = 1 ∨ qfB q b = 0 → -pre.boundY < y ∧ y < pre.boundY) := by
  obtain ⟨h1, h2⟩ := box_contains hpre ha h
  exact ⟨h1, h2, fun hs => h2 (code_y_of_ellipse ha hs h)⟩

open SqiProofs.LllEnum in
/-- **completeness relative to the box, with the exact stop conditions**: if the routine does not abort, the cell
    `(x,y)` is in the box, no earlier cell (rows `y' < y` completely, then `x' < x` in row `y`) satisfies
    bound+condition or is (0,0), fewer than `max_tries` cells precede it, and bound+condition holds at `(x,y)`, then
    the routine returns that element. -/
theorem enumerate_short_vec_complete_in_box (cond : V2 → Option Elem) (q : Int) (tmc : V2) (b : M2) (nb : Int) (mt : Nat)
    {pre : EnumPre} (hpre : enumPre q tmc b nb = some pre) {r : Option Elem}
    (hres : enumerateShortVec cond q tmc b nb mt = some r)
    {x y lo hi : Int} (hy1 : -pre.boundY ≤ y) (hy2 : y ≤ pre.boundY) (hrow : rowBounds pre y = some (lo, hi))
    (hx1 : lo ≤ x) (hx2 : x ≤ hi)
    (hrows : ∀ y' ∈ intRange (-pre.boundY) (y - 1), ∀ lo' hi', rowBounds pre y' = some (lo', hi') →
      ∀ x' ∈ intRange lo' hi', Pass cond q tmc b nb x' y')
    (hrowy : ∀ x' ∈ intRange lo (x - 1), Pass cond q tmc b nb x' y)
    (htries : cellsOfRows pre (intRange (-pre.boundY) (y - 1)) + (intRange lo (x - 1)).length < mt)
    {e : Elem} (hhit : boundAndCondition cond q x y tmc b nb = some e) : r = some e :=
  enum_complete_in_box cond q tmc b nb mt hpre hres hy1 hy2 hrow hx1 hx2 hrows hrowy htries hhit

open SqiProofs.LllEnum in
/-- **completeness for forms with `a = 1` or `b = 0`** (e.g. every basis whose first vector has norm 1, every
    orthogonal basis): a point `(x,y)` of the centred ellipse at which bound+condition holds IS returned, provided no
    earlier cell hits or is the origin and fewer than `max_tries` cells precede it. -/
theorem enumerate_short_vec_complete_special (cond : V2 → Option Elem) (q : Int) (tmc : V2) (b : M2) (nb : Int) (mt : Nat)
    {pre : EnumPre} (hpre : enumPre q tmc b nb = some pre) (ha : 0 < qfA q b) (hs : qfA q b = 1 ∨ qfB q b = 0)
    {r : Option Elem} (hres : enumerateShortVec cond q tmc b nb mt = some r) {x y : Int}
    (hell : qfA q b * x * x + qfB q b * x * y + qfC q b * y * y ≤ nbeOf q tmc nb)
    {e : Elem} (hhit : boundAndCondition cond q x y tmc b nb = some e) :
    ∃ lo hi, rowBounds pre y = some (lo, hi) ∧
      ((∀ y' ∈ intRange (-pre.boundY) (y - 1), ∀ lo' hi', rowBounds pre y' = some (lo', hi') →
          ∀ x' ∈ intRange lo' hi', Pass cond q tmc b nb x' y') →
       (∀ x' ∈ intRange lo (x - 1), Pass cond q tmc b nb x' y) →
       cellsOfRows pre (intRange (-pre.boundY) (y - 1)) + (intRange lo (x - 1)).length < mt →
       r = some e) := by
  obtain ⟨⟨lo, hi, hrow, hlo, hhi⟩, _, hy⟩ := enumeration_box_contains hpre ha hell
  obtain ⟨hy1, hy2⟩ := hy hs
  exact ⟨lo, hi, hrow, fun h1 h2 h3 =>
    enum_complete_in_box cond q tmc b nb mt hpre hres (by omega) (by omega) hrow (by omega) (by omega) h1 h2 h3 hhit⟩

/-- **the box does NOT contain the ellipse in general** (the y-bound uses `4a²c - b²` where the ellipse gives
    `4a²c - a·b²`): q = 3, reduced basis (2,0),(-1,1) (form (4,-4,4)), target_minus_closest = 0, norm_bound = 680.
    The lattice vector `B·(7,15)`, i.e. `w = (1,-15)`, has norm 676 ≤ 680, but `bound_y = 14 < 15`: with the condition
    "vec = w" and 10000 tries the routine returns 0.  Replayed on the C code on every run (`d2.enumeq`). -/
theorem enumeration_box_misses_ellipse :
    normV 3 ⟨1, -15⟩ ≤ 680 ∧ (⟨1, -15⟩ : V2) = (⟨0, 0⟩ : V2).sub ((⟨2, -1, 0, 1⟩ : M2).eval ⟨7, 15⟩) ∧
    enumerateShortVec (eqCondition ⟨1, -15⟩) 3 ⟨0, 0⟩ ⟨2, -1, 0, 1⟩ 680 10000 = some none := by
  refine ⟨by decide, by decide, by decide +kernel⟩

/-- non-vacuity of the completeness statements on the same input: the precomputation succeeds (bound_y = 14), and the
    in-box vector (2,0) = -B·(-1,0) IS found. -/
example : (SqiProofs.LllEnum.enumPre 3 ⟨0, 0⟩ ⟨2, -1, 0, 1⟩ 680).map (·.boundY) = some 14 ∧
    enumerateShortVec (eqCondition ⟨2, 0⟩) 3 ⟨0, 0⟩ ⟨2, -1, 0, 1⟩ 680 10000 = some (some ⟨1, ⟨2, 0, 0, 0⟩⟩) := by
  refine ⟨by decide +kernel, by decide +kernel⟩

/-- `quat_2x2_lattice_enumerate_cvp_filter`: a returned element is `condition v` with `v ≡ target` modulo the
    lattice and `N(v) ≤ 2^dist_bound`. -/
theorem enumerate_cvp_filter_sound {cond : V2 → Option Elem} {b : M2} {t : V2} {qf db mt : Nat} {e : Elem}
    (h : enumerateCvpFilter cond b t qf db mt = some (some e)) :
    ∃ (u : M2) (z : V2), (u.det = 1 ∨ u.det = -1) ∧ cond (t.sub ((mul2 b u).eval z)) = some e ∧
      normV (qf : Int) (t.sub ((mul2 b u).eval z)) ≤ 2 ^ db := enumerateCvpFilter_sound h

example : shortBasis 3 ⟨5, 1, 2, 7⟩ = some ⟨5, -4, 2, 5⟩ := by decide
example : (closestVector 3 ⟨5, -4, 2, 5⟩ ⟨17, -9⟩).isSome = true := by decide

/-! ## (4) `sample_response` (sign.c): decision logic; the random draws are an arbitrary candidate list -/

/-- accepted candidate ⇒ response = lll·v, v ≠ 0 one of the candidates, norm (as computed by
    `norm_from_2_times_gram`) `< 2^response_length`.  (`0 < norm` follows from v ≠ 0 and positive definiteness of
    the Gram matrix of a basis; the harness checks `0 < N(x)` on every output.) -/
theorem sample_response_found {p : Int} {rl : Nat} {denom content : Int} {lll : Mat4} {cands : List Vec4}
    (h : (sampleResponse p rl denom content lll cands).found = true) :
    ∃ v ∈ cands, v.isZero = false ∧
      (sampleResponse p rl denom content lll cands).x = ⟨denom, lll.eval v⟩ ∧
      normFrom2Gram (respGram p denom content lll) v < 2 ^ rl := sampleResponse_found h

/-- **`0 < norm < 2^response_length` for an accepted response.**  Hypotheses: `p > 0`, the LLL basis has full rank
    (guaranteed by the accepted certificate / the entry guard), and the three conditions the C code only `assert`s
    (NDEBUG builds do not test them): the divisor `denom²·content/2` is positive, the scalar division of the Gram
    matrix is exact, `2·norm` is even.  Then the form `gram` is positive definite, so the accepted `v ≠ 0` has
    positive norm.  (The evenness hypothesis cannot be dropped, see the example below.) -/
theorem sample_response_found_pos {p : Int} {rl : Nat} {denom content : Int} {lll : Mat4} {cands : List Vec4}
    (hp : 0 < p) (hd : (toM lll).det ≠ 0) (hdg : 0 < div2 (denom * denom * content))
    (hdiv : ((((lll.transpose).mul (gramP p)).mul lll).scalarDiv (div2 (denom * denom * content))).2 = true)
    (heven : ∀ w ∈ cands, 2 ∣ (respGram p denom content lll).qfEval w)
    (h : (sampleResponse p rl denom content lll cands).found = true) :
    ∃ v ∈ cands, v.isZero = false ∧
      (sampleResponse p rl denom content lll cands).x = ⟨denom, lll.eval v⟩ ∧
      0 < normFrom2Gram (respGram p denom content lll) v ∧
      normFrom2Gram (respGram p denom content lll) v < 2 ^ rl :=
  SqiProofs.LllResp.sampleResponse_found_pos hp hd hdg hdiv heven h

/-- without the evenness `assert` the code accepts a vector whose computed norm is 0: p = 3, lattice ℤ⁴ with
    content 2 (not a signer input: there `gram` is twice an integral form), v = e0: `2·norm = 1`, norm = ⌊1/2⌋ = 0. -/
example : (sampleResponse 3 6 1 2 Mat4.identity [⟨1, 0, 0, 0⟩]).found = true ∧
    normFrom2Gram (respGram 3 1 2 Mat4.identity) ⟨1, 0, 0, 0⟩ = 0 := by decide

/-- fallback branch: response = first LLL column, norm = gram[0][0]/2, NO test against the bound. -/
theorem sample_response_fallback {p : Int} {rl : Nat} {denom content : Int} {lll : Mat4} {cands : List Vec4}
    (h : (sampleResponse p rl denom content lll cands).found = false) :
    (sampleResponse p rl denom content lll cands).x = ⟨denom, lll.eval e0⟩ ∧
      normFrom2Gram (respGram p denom content lll) e0 = div2 ((respGram p denom content lll).get 0 0) :=
  sampleResponse_fallback h

/-- FULL STATEMENT "every response has norm < 2^response_length" is not a property of `sample_response` alone
    (see `sample_response_fallback_unguarded`).  PROVED (partial): it holds for all draws under the explicit
    hypothesis that the first reduced vector is below the bound — which for signing lattices follows from
    `lllCheck_first_vector_short` and the covolume of the lattice (notes/C16.md; measured margin ≥ 4 bits). -/
theorem response_short_partial {p : Int} {rl : Nat} {denom content : Int} {lll : Mat4} (cands : List Vec4)
    (hfb : div2 ((respGram p denom content lll).get 0 0) < 2 ^ rl) :
    ∃ v : Vec4, v.isZero = false ∧ (sampleResponse p rl denom content lll cands).x = ⟨denom, lll.eval v⟩ ∧
      normFrom2Gram (respGram p denom content lll) v < 2 ^ rl := sampleResponse_short cands hfb

/-- **the fallback is short whenever the LLL certificate is accepted and a determinant inequality holds.**
    If `lllCheck δ η p lattice lll` accepts, `η² < δ`, the scalar division of the Gram matrix is exact with divisor
    `dg = denom²·content/2 > 0`, and
        `p² · det(lattice)² < (δ-η²)⁶ · (dg · 2^(response_length+1))⁴`
    (an inequality between the INPUTS of `sample_response`; the harness evaluates it on every signing-shaped lattice:
    there `det = denom⁴·content²/4`, so it reads `√p < 2·(δ-η²)^{3/2}·2^response_length`), then the first LLL
    vector is below the bound — the hypothesis of `response_short_partial` — and hence EVERY response is short,
    fallback included, whatever the draws. -/
theorem fallback_short_of_certificate {dn dd en ed p : Int} {rl : Nat} {denom content : Int} {lat lll : Mat4}
    (hchk : lllCheck dn dd en ed p lat lll = true) (hη : ((en : ℚ) / ed) ^ 2 < (dn : ℚ) / dd)
    (hdg : 0 < div2 (denom * denom * content))
    (hdiv : ((((lll.transpose).mul (gramP p)).mul lll).scalarDiv (div2 (denom * denom * content))).2 = true)
    (hdet : (p : ℚ) ^ 2 * (((toM lat).det : ℤ) : ℚ) ^ 2
      < ((dn : ℚ) / dd - ((en : ℚ) / ed) ^ 2) ^ 6 * (((div2 (denom * denom * content) : ℤ) : ℚ) * 2 ^ (rl + 1)) ^ 4)
    (cands : List Vec4) :
    div2 ((respGram p denom content lll).get 0 0) < 2 ^ rl ∧
    ∃ v : Vec4, v.isZero = false ∧ (sampleResponse p rl denom content lll cands).x = ⟨denom, lll.eval v⟩ ∧
      normFrom2Gram (respGram p denom content lll) v < 2 ^ rl := by
  have hshort := lllCheck_first_vector_short_det hchk hη
  rw [SqiProofs.LllResp.colsQ_zero_form] at hshort
  have hc : (0 : ℚ) < (dn : ℚ) / dd - ((en : ℚ) / ed) ^ 2 := by linarith
  have hc6 : (0 : ℚ) < ((dn : ℚ) / dd - ((en : ℚ) / ed) ^ 2) ^ 6 := by positivity
  set N0 : ℤ := form p (lll.col 0) (lll.col 0) with hN0
  set dg : ℤ := div2 (denom * denom * content) with hdgdef
  have hlt4 : ((N0 : ℤ) : ℚ) ^ 4 < ((dg : ℚ) * 2 ^ (rl + 1)) ^ 4 := by
    have := lt_of_le_of_lt hshort hdet
    exact lt_of_mul_lt_mul_left this hc6.le
  have hB : (0 : ℚ) ≤ (dg : ℚ) * 2 ^ (rl + 1) := by
    have : (0 : ℚ) < dg := by exact_mod_cast hdg
    positivity
  have hlt : ((N0 : ℤ) : ℚ) < (dg : ℚ) * 2 ^ (rl + 1) := lt_of_pow_lt_pow_left₀ 4 hB hlt4
  have hltZ : N0 < dg * 2 ^ (rl + 1) := by exact_mod_cast hlt
  have hg := SqiProofs.LllResp.gram00_eq (p := p) (denom := denom) (content := content) (lll := lll) hdiv
  have hx : (respGram p denom content lll).get 0 0 < 2 * 2 ^ rl := by
    by_contra hge
    have hge' : 2 * 2 ^ rl ≤ (respGram p denom content lll).get 0 0 := Int.not_lt.mp hge
    have := Int.mul_le_mul_of_nonneg_left hge' (Int.le_of_lt hdg)
    rw [hg] at this
    have e : dg * (2 * 2 ^ rl) = dg * 2 ^ (rl + 1) := by rw [pow_succ]; ring
    rw [e] at this
    omega
  have hfb : div2 ((respGram p denom content lll).get 0 0) < 2 ^ rl :=
    SqiProofs.LllResp.div2_lt (by positivity) hx
  exact ⟨hfb, response_short_partial cands hfb⟩

/-- witness that the hypothesis cannot be dropped: p = 3, response_length = 2, lattice 4·ℤ⁴, content 2 — no
    candidate can be accepted and the function returns a vector of norm 8 ≥ 2². -/
theorem sample_response_fallback_unguarded :
    ∃ (p : Int) (rl : Nat) (denom content : Int) (lll : Mat4) (cands : List Vec4),
      (sampleResponse p rl denom content lll cands).found = false ∧
      ¬ normFrom2Gram (respGram p denom content lll) e0 < 2 ^ rl :=
  ⟨3, 2, 1, 2, ⟨⟨4, 0, 0, 0⟩, ⟨0, 4, 0, 0⟩, ⟨0, 0, 4, 0⟩, ⟨0, 0, 0, 4⟩⟩, [⟨1, 0, 0, 0⟩, ⟨0, 0, 0, 0⟩], by decide, by decide⟩

/-- non-vacuity of `sample_response_found` / `response_short_partial` -/
example : (sampleResponse 3 6 1 2 ⟨⟨1, 0, 0, 0⟩, ⟨0, 1, 0, 0⟩, ⟨0, 0, 1, 0⟩, ⟨0, 0, 0, 1⟩⟩ [⟨0, 0, 0, 0⟩, ⟨1, 1, 0, 0⟩]).found = true
    ∧ div2 ((respGram 3 1 2 ⟨⟨1, 0, 0, 0⟩, ⟨0, 1, 0, 0⟩, ⟨0, 0, 1, 0⟩, ⟨0, 0, 0, 1⟩⟩).get 0 0) < 2 ^ 6 := by decide

end SqiProps.C16

import SqiProofs.LllOps
/- Property C16 — "Lattice reduction keeps the lattice and reduces it; responses are short".
   Property theorems only (+ non-vacuity examples); lemmas live in SqiProofs/Lll*.lean, models in
   SqiModel/{Lll,Dim2}.lean (tied to the C code by the correspondence / certificate harness tools/props/c16.py). -/
namespace SqiProps.C16
open SqiModel.Quat SqiModel.Lll SqiProofs.LllOps

/-! ## (1) the integer row operations keep the lattice — for ALL decision sequences (float-independent)

`run ops B` folds an arbitrary list of the two integer operations of `quat_lattice_lll`
(`RED k l r`: row k -= r·row l, `SWAP k`: swap rows k, k-1) over the pair (basis, H), starting with H = I. -/

/-- For every list of (valid) operations: final basis = H·B for the final H, det H = ±1, and the ℤ-span of the
    rows is unchanged. -/
theorem lll_ops_preserve_span (ops : List Op) (hv : ∀ op ∈ ops, op.valid = true) (b : Mat4) :
    toM (run ops b).1 = toM (run ops b).2 * toM b ∧
    ((toM (run ops b).2).det = 1 ∨ (toM (run ops b).2).det = -1) ∧
    rowSpan (toM (run ops b).1) = rowSpan (toM b) := by
  obtain ⟨h1, v, hv1, _, hb⟩ := run_spec ops hv b
  have e1 : toM (run ops b).1 = toM (run ops b).2 * toM b := by rw [← toM_mul, ← h1]
  have e2 : toM b = toM v * toM (run ops b).1 := by rw [← toM_mul, ← hb]
  refine ⟨e1, ?_, rowSpan_eq_of_mul _ _ _ _ e1 e2⟩
  apply det_unit_of_mul_eq_one _ (toM v)
  rw [← toM_mul, hv1, toM_identity]

/-- The same in the C calling convention (`basis := transpose(lattice->basis)` at entry, `red := transpose(basis)`
    at exit; lattice vectors are COLUMNS): `red = lattice·Hᵀ`, det H = ±1, and the columns of `red` and of
    `lattice->basis` generate the same lattice. -/
theorem lll_ops_preserve_span_cols (ops : List Op) (hv : ∀ op ∈ ops, op.valid = true) (lat : Mat4) :
    toM (runCols ops lat) = toM lat * (toM (run ops lat.transpose).2).transpose ∧
    ((toM (run ops lat.transpose).2).det = 1 ∨ (toM (run ops lat.transpose).2).det = -1) ∧
    rowSpan (toM (runCols ops lat)).transpose = rowSpan (toM lat).transpose := by
  obtain ⟨e1, hd, hs⟩ := lll_ops_preserve_span ops hv lat.transpose
  refine ⟨?_, hd, ?_⟩
  · unfold runCols
    rw [toM_transpose, e1, Matrix.transpose_mul, toM_transpose, Matrix.transpose_transpose]
  · unfold runCols
    rw [toM_transpose, Matrix.transpose_transpose, hs, toM_transpose]

/-- non-vacuity: a concrete decision sequence as issued by the C loop (RED(1,0), SWAP(1), RED(2,1), RED(2,0), …) -/
example :
    let ops := [Op.red 1 0 3, Op.swap 1, Op.red 2 1 (-2), Op.red 2 0 1, Op.swap 2, Op.red 3 2 5]
    (∀ op ∈ ops, op.valid = true) ∧
    (run ops ⟨⟨5, 0, 0, 0⟩, ⟨3, 7, 0, 0⟩, ⟨1, 2, 3, 0⟩, ⟨4, 4, 4, 1⟩⟩).1 ≠ ⟨⟨5, 0, 0, 0⟩, ⟨3, 7, 0, 0⟩, ⟨1, 2, 3, 0⟩, ⟨4, 4, 4, 1⟩⟩ := by
  decide

end SqiProps.C16

import SqiModel.Intbig
namespace SqiProps.C17
open SqiModel.Intbig
theorem div_identity (a b : Int) : (ibzDiv a b).1 * b + (ibzDiv a b).2 = a := by
  simp only [ibzDiv]; rw [Int.mul_comm]; exact Int.mul_tdiv_add_tmod a b
end SqiProps.C17

/-
C17 — integer and number-theoretic primitives return exact results.

Every theorem is about the hand models in `SqiModel.Intbig`, `SqiModel.NumberTheory`, `SqiModel.Kernels`
(GMP modelled as exact `Int`), which are run against the real C functions on every check run
(tools/harness/drv_int.c, tools/props/c17.py).  `Res.ok v` = the C returned 1 with output v, `Res.fail` = it
returned 0, `Res.ub` = the C aborts / executes undefined behaviour / does not terminate.

Statements are unbounded in their quantifiers (all integers, all primes, all byte streams, all matrices).
Where the full-strength statement is false of the code the negation is proved with a witness that is replayed
on the real code by the check (see notes/C17.md).  Three such defects (rand_interval shift by 64, sqrt_mod_p for
a ≡ 0 and p = 2, cornacchia_special_prime with p | n) have been REPAIRED in /repo ("fix:" commits); the models below
describe the repaired code and the corresponding theorems are at full strength.  The pre-fix negation witnesses are
history (notes/C17.md) and live on as corpus inputs, so a reverted fix is reported as a VIOLATION.
-/
import SqiProofs.C17.Div
import SqiProofs.C17.Gcd
import SqiProofs.C17.Sqrt3
import SqiProofs.C17.Rand
import SqiProofs.C17.RandCover
import SqiProofs.C17.Cornacchia
import SqiProofs.C17.Conv
import SqiProofs.C17.Kernel
import SqiProofs.C17.Kernel2
import SqiProofs.C17.RepInt
import SqiProofs.C17.CornComplete
import SqiProofs.C17.CornGeneral
import SqiProofs.C17.Unit
import SqiProofs.C17.Translated
import SqiProofs.Primes

namespace SqiProps.C17
open SqiModel.Intbig SqiModel.NumberTheory SqiModel.Kernels SqiProofs.C17

/-! ## 1. Division and reduction conventions (all integers, divisor ≠ 0 exactly as GMP requires) -/

/-- `ibz_div`: a = q·b + r, |r| < |b|, r has the sign of a (quotient rounded toward zero) -/
theorem div_spec (a b : Int) (hb : b ≠ 0) :
    (ibzDiv a b).1 * b + (ibzDiv a b).2 = a ∧ (ibzDiv a b).2.natAbs < b.natAbs ∧
    (0 ≤ a → 0 ≤ (ibzDiv a b).2) ∧ (a ≤ 0 → (ibzDiv a b).2 ≤ 0) :=
  ⟨Int.tdiv_mul_add_tmod a b, tmod_natAbs_lt a b hb, Int.tmod_nonneg b, tmod_nonpos a b⟩
example : (ibzDiv (-7) 2 = (-3, -1)) ∧ (2 : Int) ≠ 0 := by decide

/-- `ibz_div_floor`: a = q·d + r with r in [0,d) for d > 0 and in (d,0] for d < 0 -/
theorem div_floor_spec (n d : Int) (hd : d ≠ 0) :
    (ibzDivFloor n d).1 * d + (ibzDivFloor n d).2 = n ∧
    (0 < d → 0 ≤ (ibzDivFloor n d).2 ∧ (ibzDivFloor n d).2 < d) ∧
    (d < 0 → d < (ibzDivFloor n d).2 ∧ (ibzDivFloor n d).2 ≤ 0) :=
  ⟨Int.fdiv_mul_add_fmod n d, fmod_range_pos n d, fmod_range_neg n d⟩
example : ibzDivFloor (-7) 2 = (-4, 1) ∧ ibzDivFloor 7 (-2) = (-4, -1) := by decide

/-- `ibz_mod`: the non-negative remainder, whatever the signs -/
theorem mod_spec (a b : Int) (hb : b ≠ 0) :
    0 ≤ ibzMod a b ∧ ibzMod a b < b.natAbs ∧ b ∣ a - ibzMod a b :=
  ⟨Int.emod_nonneg a hb, Int.emod_lt a hb,
   ⟨a / b, by have := Int.emod_add_mul_ediv a b; simp only [ibzMod]; omega⟩⟩
example : ibzMod (-7) (-3) = 2 := by decide

/-- `ibz_div_2exp`: |q| = ⌊|a| / 2^e⌋ with the sign of a (truncation toward zero) -/
theorem div_2exp_spec (a : Int) (e : Nat) :
    (ibzDiv2exp a e).natAbs = a.natAbs / 2 ^ e ∧ (0 ≤ a → 0 ≤ ibzDiv2exp a e) ∧ (a ≤ 0 → ibzDiv2exp a e ≤ 0) := by
  refine ⟨?_, ?_, ?_⟩
  · simp only [ibzDiv2exp, Int.natAbs_tdiv]
    have : ((2 : Int) ^ e).natAbs = 2 ^ e := by rw [Int.natAbs_pow]; rfl
    rw [this]; rfl
  · intro h; exact Int.tdiv_nonneg h (by positivity)
  · intro h
    have := Int.tdiv_nonneg (Int.neg_nonneg_of_nonpos h) (show (0 : Int) ≤ 2 ^ e by positivity)
    rw [Int.neg_tdiv] at this; simp only [ibzDiv2exp]; omega
example : ibzDiv2exp (-7) 1 = -3 := by decide

/-- `ibz_rounded_div`: a nearest integer to a/b -/
theorem rounded_div_spec (a b : Int) (hb : b ≠ 0) : 2 * (a - ibzRoundedDiv a b * b).natAbs ≤ b.natAbs :=
  roundedDiv_near a b hb
example : ibzRoundedDiv 7 2 = 3 ∧ ibzRoundedDiv (-7) 2 = -3 ∧ ibzRoundedDiv 8 3 = 3 ∧ ibzRoundedDiv (-8) 3 = -3 := by decide

/-! ## 2. gcd, Bézout pair, annihilators, modular inverse, CRT -/

/-- `ibz_xgcd`: g = gcd(a,b) ≥ 0 and u·a + v·b = g, for all integers incl. zero and negative -/
theorem xgcd_spec (a b : Int) :
    (ibzXgcd a b).1 = (Int.gcd a b : Int) ∧ (ibzXgcd a b).2.1 * a + (ibzXgcd a b).2.2 * b = (ibzXgcd a b).1 :=
  gcdext_spec a b
example : ibzXgcd 12 (-18) = (6, -1, -1) ∧ ibzXgcd 0 0 = (0, 0, 0) := by decide

/-- `ibz_xgcd_ann` (a, b not both zero — the C divides by the gcd): Bézout and annihilator relations -/
theorem xgcd_ann_spec (a b : Int) (h : a ≠ 0 ∨ b ≠ 0) :
    let r := ibzXgcdAnn a b
    r.1 = (Int.gcd a b : Int) ∧ r.2.2.2.1 * a + r.2.2.2.2 * b = r.1 ∧
    r.2.1 * a + r.2.2.1 * b = 0 ∧ r.2.1 * r.1 = b ∧ r.2.2.1 * r.1 = -a :=
  xgcdAnn_spec a b h
example : ibzXgcdAnn 12 (-18) = (6, -3, -2, -1, -1) := by decide

/-- `ibz_invmod` (m ≠ 0): returns 1 exactly when gcd(a,m) = 1, and then the inverse in [0,|m|) -/
theorem invmod_spec (a m : Int) (hm : m ≠ 0) :
    (∀ r, ibzInvmod a m = .ok r → 0 ≤ r ∧ r < m.natAbs ∧ (a * r) % m = 1 % m) ∧
    (ibzInvmod a m = .fail ↔ Int.gcd a m ≠ 1) ∧ ibzInvmod a m ≠ .ub :=
  ⟨fun r h => ⟨(invmod_ok a m r hm h).1, (invmod_ok a m r hm h).2.1, (invmod_ok a m r hm h).2.2.1⟩,
   invmod_fail_iff a m, invmod_ne_ub a m⟩
example : ibzInvmod 3 (-7) = .ok 5 ∧ ibzInvmod 4 6 = .fail := by decide

/-- `ibz_crt` as coded from the Bézout pair: for coprime non-zero moduli the result is the unique
    representative in [0, |mod_a·mod_b|) congruent to a mod mod_a and to b mod mod_b -/
theorem crt_spec (a b ma mb : Int) (hcop : Int.gcd ma mb = 1) (hma : ma ≠ 0) (hmb : mb ≠ 0) :
    ibzCrt a b ma mb % ma = a % ma ∧ ibzCrt a b ma mb % mb = b % mb ∧
    0 ≤ ibzCrt a b ma mb ∧ ibzCrt a b ma mb < ((ma * mb).natAbs : Int) :=
  crt_spec' a b ma mb hcop hma hmb
example : ibzCrt 2 3 5 7 = 17 ∧ Int.gcd 5 7 = 1 := by decide

/-! ## 3. Square roots modulo a prime — every prime, every class mod 8, and p = 2 (repaired code, full strength)

`∀ p prime, ∀ a : (∀ r, sqrt_mod_p a p = ok r → 0 ≤ r < p ∧ r² ≡ a (mod p)) ∧ (IsSquare (a : ZMod p) ↔ ∃ r, sqrt_mod_p a p = ok r)`
and the routine never aborts.  (Before the fix the ⇐ direction failed for a ≡ 0 and for p = 2, see notes.) -/

private theorem zmod2_isSquare (x : ZMod 2) : IsSquare x := ⟨x, by revert x; decide⟩

/-- soundness for EVERY prime p (p ≡ 1, 3, 5, 7 mod 8 and p = 2) and every integer a -/
theorem sqrt_mod_p_sound (pn : Nat) (hp : pn.Prime) (a r : Int) (h : ibzSqrtModP a pn = .ok r) :
    0 ≤ r ∧ r < pn ∧ (r * r - a) % pn = 0 := by
  haveI := Fact.mk hp
  by_cases hp2 : pn = 2
  · subst hp2
    rw [show ((2 : Nat) : Int) = 2 from rfl, sqrtModP_two a] at h
    injection h with h; subst h
    have hp : ∀ z : Int, (z * z) % 2 = z % 2 := by
      intro z; rw [Int.mul_emod]; rcases Int.emod_two_eq_zero_or_one z with h | h <;> rw [h] <;> rfl
    have := hp (a % 2)
    refine ⟨by omega, by omega, ?_⟩
    show (a % 2 * (a % 2) - a) % ((2 : Nat) : Int) = 0
    omega
  · by_cases h0 : (a : ZMod pn) = 0
    · rw [sqrtModP_zero pn a h0] at h
      injection h with h; subst h
      refine ⟨le_refl _, by exact_mod_cast hp.pos, ?_⟩
      have := (ZMod.intCast_zmod_eq_zero_iff_dvd a pn).mp h0
      simp only [Int.mul_zero, Int.zero_sub]
      exact Int.emod_eq_zero_of_dvd ((Int.dvd_neg).mpr this)
    · by_cases hj : ((a : ZMod pn)) ^ (pn / 2) = 1
      · obtain ⟨r', h1, h2, h3, h4⟩ := sqrtModP_ok_of_jacobi pn hp2 a hj
        rw [h1] at h; injection h with h; subst h
        refine ⟨h2, h3, ?_⟩
        apply Int.emod_eq_zero_of_dvd
        rw [← ZMod.intCast_zmod_eq_zero_iff_dvd]
        push_cast; rw [← pow_two, h4, sub_self]
      · rw [sqrtModP_fail_of_jacobi pn hp2 a h0 hj] at h; exact absurd h (by simp)

/-- completeness for EVERY prime (incl. 2) and EVERY square (incl. a ≡ 0): Euler's criterion + Tonelli–Shanks invariant -/
theorem sqrt_mod_p_complete (pn : Nat) (hp : pn.Prime) (a : Int) (hsq : IsSquare (a : ZMod pn)) :
    ∃ r, ibzSqrtModP a pn = .ok r := by
  haveI := Fact.mk hp
  by_cases hp2 : pn = 2
  · subst hp2; exact ⟨a % 2, sqrtModP_two a⟩
  · by_cases h0 : (a : ZMod pn) = 0
    · exact ⟨0, sqrtModP_zero pn a h0⟩
    · obtain ⟨r, h, _⟩ := sqrtModP_ok_of_jacobi pn hp2 a ((ZMod.euler_criterion pn h0).mp hsq)
      exact ⟨r, h⟩

/-- the return value decides squareness, for every prime; the routine never aborts -/
theorem sqrt_mod_p_fail_iff (pn : Nat) (hp : pn.Prime) (a : Int) :
    (ibzSqrtModP a pn = .fail ↔ ¬ IsSquare (a : ZMod pn)) ∧ ibzSqrtModP a pn ≠ .ub := by
  haveI := Fact.mk hp
  by_cases hsq : IsSquare (a : ZMod pn)
  · obtain ⟨r, h⟩ := sqrt_mod_p_complete pn hp a hsq
    rw [h]; simp [hsq]
  · have hp2 : pn ≠ 2 := by
      rintro rfl
      apply hsq
      exact zmod2_isSquare _
    have h0 : (a : ZMod pn) ≠ 0 := by intro h0; apply hsq; rw [h0]; exact ⟨0, by simp⟩
    have hj : ((a : ZMod pn)) ^ (pn / 2) ≠ 1 := fun hj => hsq ((ZMod.euler_criterion pn h0).mpr hj)
    rw [sqrtModP_fail_of_jacobi pn hp2 a h0 hj]; simp [hsq]

-- non-vacuity: one prime of every class mod 8, p = 2, a ≡ 0, a deep Tonelli–Shanks prime (p − 1 = 3·2^30), a scheme prime
example : ibzSqrtModP 2 17 = .ok 6 ∧ ibzSqrtModP 2 7 = .ok 4 ∧ ibzSqrtModP 3 11 = .ok 5 ∧ ibzSqrtModP 4 13 = .ok 11 ∧
    ibzSqrtModP 5 29 = .ok 18 ∧ ibzSqrtModP 17 17 = .ok 0 ∧ ibzSqrtModP 1 2 = .ok 1 ∧ ibzSqrtModP 3 7 = .fail := by decide
example : ibzSqrtModP 2 3221225473 = .ok 1576605034 := by decide +kernel
example : (SqiGen.L1.FP_p).Prime ∧ SqiGen.L1.FP_p % 8 = 7 := ⟨SqiProofs.Primes.L1_prime, by decide +kernel⟩

/-- `ibz_sqrt_mod_2p`, EVERY prime p (for p = 2 the modulus is 4): a returned value is a square root of a modulo 2p -/
theorem sqrt_mod_2p_sound (pn : Nat) (hp : pn.Prime) (a r : Int) (h : ibzSqrtMod2P a pn = .ok r) :
    (r * r - a) % (2 * pn) = 0 := by
  unfold ibzSqrtMod2P at h
  split at h
  · rename_i r0 hr0
    obtain ⟨hr1, hr2, h3⟩ := sqrt_mod_p_sound pn hp a r0 hr0
    by_cases hp2 : pn = 2
    · subst hp2
      rw [show ((2 : Nat) : Int) = 2 from rfl] at h hr0 hr2 ⊢
      rw [sqrtModP_two a] at hr0; injection hr0 with hr0; subst hr0
      split at h
      · exact absurd h (by simp)
      · rename_i hlt
        have hr : r = a % 2 := by
          split at h
          · omega
          · injection h with h; exact h.symm
        subst hr
        have ha : a % 4 = 0 ∨ a % 4 = 1 := by omega
        rcases ha with ha | ha
        · have : a % 2 = 0 := by omega
          rw [this]; omega
        · have : a % 2 = 1 := by omega
          rw [this]; omega
    · have hne : ¬ ((pn : Int) = 2 ∧ a % 4 ≥ 2) := fun hh => hp2 (by exact_mod_cast hh.1)
      rw [if_neg hne] at h
      have hodd : (pn : Int) % 2 = 1 := by
        rcases hp.eq_two_or_odd with h | h
        · exact absurd h hp2
        · omega
      have hpar : ∀ z : Int, (z * z) % 2 = z % 2 := by
        intro z; rw [Int.mul_emod]; rcases Int.emod_two_eq_zero_or_one z with h | h <;> rw [h] <;> rfl
      have hdp : (pn : Int) ∣ r * r - a ∧ r % 2 = a % 2 := by
        split at h
        · rename_i hne
          injection h with h; subst h
          refine ⟨?_, by omega⟩
          have : (r0 + ↑pn) * (r0 + ↑pn) - a = (r0 * r0 - a) + ↑pn * (2 * r0 + ↑pn) := by ring
          rw [this]; exact Int.dvd_add (Int.dvd_of_emod_eq_zero h3) (Dvd.intro _ rfl)
        · rename_i heq
          injection h with h; subst h
          exact ⟨Int.dvd_of_emod_eq_zero h3, by omega⟩
      have hd2 : (2 : Int) ∣ r * r - a := by
        apply Int.dvd_of_emod_eq_zero
        have := hpar r; omega
      have hcop : IsCoprime (2 : Int) (pn : Int) := by
        rw [Int.isCoprime_iff_gcd_eq_one]
        have : Nat.Coprime 2 pn := (Nat.coprime_primes Nat.prime_two hp).mpr (Ne.symm hp2)
        simpa [Int.gcd] using this
      exact Int.emod_eq_zero_of_dvd (hcop.mul_dvd hd2 hdp.1)
  · exact absurd h (by simp)
  · exact absurd h (by simp)

/-- `ibz_sqrt_mod_2p` is complete for every prime: if a has a square root s modulo 2p, a root is returned -/
theorem sqrt_mod_2p_complete (pn : Nat) (hp : pn.Prime) (a s : Int) (hs : (s * s - a) % (2 * pn) = 0) :
    ∃ r, ibzSqrtMod2P a pn = .ok r := by
  have hd : (2 * (pn : Int)) ∣ s * s - a := Int.dvd_of_emod_eq_zero hs
  have hsq : IsSquare (a : ZMod pn) := by
    refine ⟨(s : ZMod pn), ?_⟩
    have : ((s * s - a : Int) : ZMod pn) = 0 := by
      rw [ZMod.intCast_zmod_eq_zero_iff_dvd]; exact Dvd.dvd.trans (Dvd.intro_left _ rfl) hd
    push_cast at this; exact (sub_eq_zero.mp this).symm
  obtain ⟨r0, hr0⟩ := sqrt_mod_p_complete pn hp a hsq
  unfold ibzSqrtMod2P
  rw [hr0]
  simp only
  by_cases hbad : (pn : Int) = 2 ∧ a % 4 ≥ 2
  · exfalso
    obtain ⟨hp2, ha⟩ := hbad
    rw [hp2] at hd
    obtain ⟨m, hm⟩ := hd
    rcases Int.emod_two_eq_zero_or_one s with h | h
    · obtain ⟨k, hk⟩ : ∃ k, s = 2 * k := ⟨s / 2, by omega⟩
      subst hk
      have : a = 4 * (k * k) - 4 * m := by linear_combination -hm
      omega
    · obtain ⟨k, hk⟩ : ∃ k, s = 2 * k + 1 := ⟨s / 2, by omega⟩
      subst hk
      have : a = 4 * (k * k) + 4 * k + 1 - 4 * m := by linear_combination -hm
      omega
  · rw [if_neg hbad]; split <;> exact ⟨_, rfl⟩
example : ibzSqrtMod2P 2 7 = .ok 4 ∧ ibzSqrtMod2P 9 7 = .ok 11 ∧ ibzSqrtMod2P 5 2 = .ok 1 ∧ ibzSqrtMod2P 3 2 = .fail ∧
    ibzSqrtMod2P 14 7 = .ok 0 := by decide

/-! ## 4. Digit-array conversions round-trip (and the missing bound check) -/

/-- `ibz_to_digit_array` then `ibz_copy_digits`: if the destination is large enough the digits represent |x|;
    if it is not, the C writes past the array (`ub`) — `ibz_to_digits` has no bound check (feeds C03) -/
theorem digits_to_from (n : Nat) (x : Int) :
    (∀ ds, ibzToDigitArray n x = .ok ds → ds.length = n ∧ digitsOk ds ∧ ibzCopyDigits ds = (x.natAbs : Int)) ∧
    ibzToDigitArray n x ≠ .fail := by
  unfold ibzToDigitArray
  simp only
  have hls : ibzCopyDigits (if x = 0 then [0] else limbs x.natAbs) = (x.natAbs : Int) ∧
      digitsOk (if x = 0 then [0] else limbs x.natAbs) := by
    split
    · rename_i h0; subst h0
      exact ⟨rfl, fun d hd => by simp at hd; omega⟩
    · exact limbs_spec x.natAbs
  generalize (if x = 0 then [0] else limbs x.natAbs) = ls at hls
  constructor
  · intro ds h
    split at h
    · rename_i hlen
      injection h with h; subst h
      refine ⟨by simp only [List.length_append, List.length_replicate]; omega, ?_, ?_⟩
      · intro d hd
        rcases List.mem_append.mp hd with hd | hd
        · exact hls.2 d hd
        · have := List.eq_of_mem_replicate hd; omega
      · rw [copyDigits_append_zeros]; exact hls.1
    · exact absurd h (by simp)
  · split <;> simp

/-- `ibz_copy_digits` then `ibz_to_digit_array` gives back the same digits (n ≥ 1 digits, each < 2^64) -/
theorem digits_from_to (ds : List Nat) (hne : ds ≠ []) (hok : digitsOk ds) :
    ibzToDigitArray ds.length (ibzCopyDigits ds) = .ok ds := by
  have hlt := copyDigits_lt ds hok
  have hnn := copyDigits_nonneg ds
  have hlen : 1 ≤ ds.length := by cases ds with | nil => exact absurd rfl hne | cons _ _ => simp
  have hfit : (if ibzCopyDigits ds = 0 then [0] else limbs (ibzCopyDigits ds).natAbs).length ≤ ds.length := by
    split
    · simpa using hlen
    · apply limbsAux_length_le
      have : ((ibzCopyDigits ds).natAbs : Int) < 2 ^ (64 * ds.length) := by omega
      exact_mod_cast this
  obtain ⟨h1, _⟩ := digits_to_from ds.length (ibzCopyDigits ds)
  have hres : ∃ r, ibzToDigitArray ds.length (ibzCopyDigits ds) = .ok r := by
    unfold ibzToDigitArray; simp only; rw [if_pos hfit]; exact ⟨_, rfl⟩
  obtain ⟨r, hr⟩ := hres
  obtain ⟨hl, hd, hv⟩ := h1 r hr
  rw [hr]; congr 1
  exact copyDigits_inj r ds hl hd hok (by rw [hv]; omega)
example : ibzToDigitArray 2 (2 ^ 64 + 5) = .ok [5, 1] ∧ ibzToDigitArray 1 (2 ^ 64 + 5) = .ub ∧
    ibzCopyDigits [5, 1] = 2 ^ 64 + 5 := by decide

/-! ## 5. Sampling in an interval over an arbitrary byte stream -/

/-- every accepted sample lies in [a,b] — for EVERY byte stream (termination = the result is `ok`; an exhausted
    stream is a failing `randombytes`, result `fail`), unbounded in the width b − a, including a = b;
    holds whatever the mask computation does (first argument) -/
theorem rand_interval_range (maskOf : Nat → Option Nat) (a b : Int) (stream : List Nat) (r : Int) (rest : List Nat)
    (h : ibzRandIntervalWith maskOf a b stream = .ok (r, rest)) : a ≤ r ∧ r ≤ b :=
  randIntervalWith_range maskOf a b stream r rest h

/-- the C as written (`ibzRandInterval`): same statement -/
theorem rand_interval_range_c (a b : Int) (stream : List Nat) (r : Int) (rest : List Nat)
    (h : ibzRandInterval a b stream = .ok (r, rest)) : a ≤ r ∧ r ≤ b :=
  randIntervalWith_range _ a b stream r rest h
example : ibzRandInterval 10 310 [7, 1] = .ok (10 + 7 + 256, []) ∧ ibzRandInterval 5 5 [1, 2] = .ok (5, []) ∧
    ibzRandInterval 0 255 [] = .fail := by decide

/-- safety (repaired code, full strength): the mask shift count is reduced modulo 64, so the call never executes
    undefined behaviour, for EVERY interval (incl. widths whose bit length is a multiple of 64) and every stream.
    (Before the fix: `ub` ⇔ len_bits % 64 = 0, witness a = 0, b = 2^64 − 1 — now a corpus input replayed under UBSan.) -/
theorem rand_interval_never_ub (a b : Int) (stream : List Nat) : ibzRandInterval a b stream ≠ .ub :=
  randInterval_ne_ub a b stream
/-- the mask keeps exactly the `len_bits % 64` low bits of the top limb, and the whole limb when that is 0 -/
theorem rand_interval_mask_value : ∀ k : Nat, k < 64 →
    (2 ^ 64 - 1) / 2 ^ ((64 - k) % 64) = if k = 0 then 2 ^ 64 - 1 else 2 ^ k - 1 := mask_value
example : ibzRandInterval 0 (2 ^ 64 - 1) [1, 2, 3, 4, 5, 6, 7, 8] = .ok (0x0807060504030201, []) ∧
    (randParams 0 (2 ^ 64 - 1)).lenBits % 64 = 0 := by decide

/-- the mask is wide enough: EVERY value of [a, b] is produced by some byte stream (the little-endian bytes of t = r − a),
    for every interval a ≤ b incl. widths whose bit length is a multiple of 64 — together with `rand_interval_range` the set
    of possible outputs is exactly [a, b] -/
theorem rand_interval_reaches_all (a b : Int) (t : Nat) (ht : (t : Int) ≤ b - a) :
    ibzRandInterval a b (toBytesLE (randParams a b).lenBytes t) = .ok (a + t, []) :=
  randInterval_reaches a b t ht
example : ibzRandInterval 10 (10 + 2 ^ 64) (toBytesLE 9 (2 ^ 64)) = .ok (10 + 2 ^ 64, []) := by decide +kernel

/-- `ibz_rand_interval_minm_m`: result in [−m, m] (0 ≤ m < 2^62) -/
theorem rand_interval_minm_m_range (m : Int) (hm : 0 ≤ m ∧ m < 2 ^ 62) (stream : List Nat) (r : Int) (rest : List Nat)
    (h : ibzRandIntervalMinmM m stream = .ok (r, rest)) : -m ≤ r ∧ r ≤ m := by
  unfold ibzRandIntervalMinmM at h
  split at h
  · exact absurd h (by simp)
  · split at h
    · rename_i r0 rest0 h0
      injection h with h; injection h with h1 h2
      have := rand_interval_range_c 0 (2 * m) stream r0 rest0 h0
      have : m % 2 ^ 64 = m := Int.emod_eq_of_lt hm.1 (by omega)
      omega
    · exact absurd h (by simp)
    · exact absurd h (by simp)

/-! ## 6. Cornacchia variants and norm-equation helper: never a false solution

Completeness (a solution exists ⇒ it is found) is NOT proved (partial): it needs the theory of the Euclidean
descent; it is exercised by the correspondence generator on planted-solution inputs only. -/

/-- `ibz_cornacchia_prime`: no hypothesis on n, p at all -/
theorem cornacchia_prime_sound (n p x y : Int) (h : ibzCornacchiaPrime n p = .ok (x, y)) : x * x + n * (y * y) = p :=
  cornacchiaPrime_sound n p x y h
example : ibzCornacchiaPrime 1 29 = .ok (5, 2) ∧ ibzCornacchiaPrime 1 2 = .ok (1, 1) ∧ ibzCornacchiaPrime 2 7 = .fail := by decide

/-- COMPLETENESS of `ibz_cornacchia_prime` for n = 1 — the only value `ibz_cornacchia_extended` and `represent_integer*`
    ever pass: for EVERY prime p that is a sum of two squares (p = 2 or p ≡ 1 mod 4) the routine returns x, y with
    x² + y² = p.  No existence hypothesis is needed: the Euclidean-descent invariant (a·u_b + b·u_a = p,
    p | a² + u_a², p | b² + u_b², p | ab − u_a u_b) shows that the first remainder below √p gives a representation — a
    constructive proof of Fermat's two-square theorem on the model of the C code.
    (General n: `cornacchia_prime_complete` below.) -/
theorem cornacchia_prime_complete_n1 (pn : Nat) (hp : pn.Prime) (h4 : pn = 2 ∨ pn % 4 = 1) :
    ∃ x y : Int, ibzCornacchiaPrime 1 pn = .ok (x, y) ∧ x * x + y * y = pn := by
  rcases h4 with h2 | h4
  · subst h2; exact ⟨1, 1, by decide, by decide⟩
  · haveI := Fact.mk hp
    have hsq : IsSquare (((0 - 1 : Int)) : ZMod pn) := by
      have : IsSquare (-1 : ZMod pn) := ZMod.exists_sq_eq_neg_one_iff.mpr (by omega)
      simpa using this
    obtain ⟨r, hr⟩ := sqrt_mod_p_complete pn hp (0 - 1) hsq
    obtain ⟨hr0, hrp, hrr⟩ := sqrt_mod_p_sound pn hp (0 - 1) r hr
    have hppos : (0 : Int) < pn := by have := hp.pos; omega
    have hdvd : (pn : Int) ∣ r * r + 1 * 1 := by
      have := Int.dvd_of_emod_eq_zero hrr
      have e : r * r - (0 - 1) = r * r + 1 * 1 := by ring
      rwa [e] at this
    obtain ⟨c, u, hloop, hc0, hu0, hcu⟩ := cornLoop_descent (pn : Int) hppos ((pn : Int).natAbs + 2) r pn 1 0
      hr0 hppos (by omega) (le_refl _) (by simp) hdvd ⟨(pn : Int), by ring⟩ ⟨r, by ring⟩ (by ring)
      (by have := hp.one_le; nlinarith)
    refine ⟨c, u, ?_, hcu⟩
    unfold ibzCornacchiaPrime
    have hne : ((pn : Int) = 2) = False := by simp; omega
    simp only [hne, if_false, hr, hloop]
    exact cornFinish_one _ _ _ hu0 hcu
example : ibzCornacchiaPrime 1 13 = .ok (3, 2) ∧ ibzCornacchiaPrime 1 97 = .ok (9, 4) ∧ Nat.Prime 97 := by decide

/-- COMPLETENESS of `ibz_cornacchia_prime` for EVERY n ≥ 1 and every odd prime p (Cornacchia's theorem on the model of the C):
    if x² + n·y² = p has a solution with x ≠ 0 (equivalently gcd(n, p) = 1) then the routine returns a solution.
    Proof: lattice of the root r returned by `ibz_sqrt_mod_p`, Euclidean-descent invariants with cofactors
    (a·u_b + b·u_a = p, a ≡ ε u_a r, b ≡ −ε u_b r), Lagrange identity (c² + n u²)(x0² + n y0²) = E² + n D² at the first
    remainder below √p, and a case analysis (parallel vectors ⇒ same solution; transversal case impossible for n ≥ 2). -/
theorem cornacchia_prime_complete (pn : Nat) (hp : pn.Prime) (hp2 : pn ≠ 2) (n x0 y0 : Int) (hn : 1 ≤ n) (hx0 : x0 ≠ 0)
    (hsol : x0 * x0 + n * (y0 * y0) = pn) :
    ∃ x y : Int, ibzCornacchiaPrime n pn = .ok (x, y) ∧ x * x + n * (y * y) = pn := by
  haveI := Fact.mk hp
  -- WLOG x0 ≥ 1
  obtain ⟨X, hX1, hXsol⟩ : ∃ X : Int, 1 ≤ X ∧ X * X + n * (y0 * y0) = pn := by
    refine ⟨(x0.natAbs : Int), by have := Int.natAbs_pos.mpr hx0; omega, ?_⟩
    rw [← Int.natCast_mul, Int.natAbs_mul_self]; exact hsol
  have hppos : (0 : Int) < pn := by have := hp.pos; omega
  have hpI : (pn : Int) ≠ 0 := by omega
  -- −n is a square modulo p
  have hcop := coprime_of_sol pn hp n X y0 hX1 hXsol hn
  have hy0F : ((y0 : Int) : ZMod pn) ≠ 0 := by
    intro h0
    have hpy : (pn : Int) ∣ y0 := (ZMod.intCast_zmod_eq_zero_iff_dvd y0 pn).mp h0
    have hpx : (pn : Int) ∣ X * X := by
      have : X * X = pn - n * (y0 * y0) := by omega
      rw [this]; exact Int.dvd_sub (dvd_refl _) (Dvd.dvd.mul_left (Dvd.dvd.mul_right hpy _) _)
    have hpX : (pn : Int) ∣ X := by
      rcases (Nat.prime_iff_prime_int.mp hp).dvd_or_dvd hpx with h | h <;> exact h
    have h1 : (pn : Int) ∣ 1 := hcop.isUnit_of_dvd' hpX (Dvd.dvd.mul_left hpy _) |>.dvd
    have := Int.le_of_dvd (by omega) h1
    have := hp.two_le; omega
  have hF : ((X : Int) : ZMod pn) * X + n * ((y0 : ZMod pn) * y0) = 0 := by
    have := congrArg (fun z : Int => (z : ZMod pn)) hXsol
    simpa using this
  have hsq : IsSquare (((0 - n : Int)) : ZMod pn) := by
    refine ⟨(X : ZMod pn) * (y0 : ZMod pn)⁻¹, ?_⟩
    push_cast
    field_simp
    linear_combination -hF
  obtain ⟨r, hr⟩ := sqrt_mod_p_complete pn hp (0 - n) hsq
  obtain ⟨hr0, hrp, hrr⟩ := sqrt_mod_p_sound pn hp (0 - n) r hr
  have hrn : (pn : Int) ∣ r * r + n := by
    have := Int.dvd_of_emod_eq_zero hrr
    have e : r * r - (0 - n) = r * r + n := by ring
    rwa [e] at this
  -- the solution lies in the lattice of r (up to the sign of y0)
  obtain ⟨y1, hy1sol, hy1lat⟩ : ∃ y1 : Int, X * X + n * (y1 * y1) = pn ∧ (pn : Int) ∣ X - r * y1 := by
    rcases sol_in_lattice pn hp n r X y0 hXsol hrn with h | h
    · exact ⟨y0, hXsol, h⟩
    · exact ⟨-y0, by rw [← hXsol]; ring, h⟩
  -- run the loop
  have hloop : ∃ c u : Int, cornLoop pn ((pn : Int).natAbs + 2) r pn = .ok (c, c * c) ∧ 0 ≤ c ∧ 0 ≤ u ∧
      c * c + n * (u * u) = pn := by
    rw [Int.natAbs_natCast]
    show ∃ c u : Int, cornLoop pn ((pn + 1) + 1) r pn = .ok (c, c * c) ∧ 0 ≤ c ∧ 0 ≤ u ∧ c * c + n * (u * u) = pn
    unfold cornLoop
    simp only [hpI, if_false]
    rw [Int.tmod_eq_emod_of_nonneg hr0, Int.emod_eq_of_lt hr0 hrp]
    by_cases hge : r * r ≥ (pn : Int)
    · simp only [hge, if_true]
      have hrpos : 0 < r := by
        rcases lt_or_ge 0 r with h | h
        · exact h
        · have : r = 0 := by omega
          rw [this] at hge; omega
      exact cornLoop_descent_n pn hp n r X y1 hn hX1 hy1sol hrn hy1lat (pn + 1) pn r 0 1 (-1) hrpos hrp (le_refl _)
        (by omega) (by omega) (by ring) ⟨1, by ring⟩ ⟨0, by ring⟩ (by ring) hge
    · simp only [hge, if_false]
      refine ⟨r, 1, rfl, hr0, by omega, ?_⟩
      have := corn_final pn hp n r 1 pn 0 X y1 r 1 hn hX1 hy1sol hrn (by ring) ⟨0, by ring⟩
        (by have e : X - 1 * r * y1 = X - r * y1 := by ring
            rw [e]; exact hy1lat)
        hr0 (by omega) (by omega) (le_refl _) (by omega) hrp
        (by have := hp.two_le; nlinarith) (by ring)
      linear_combination this
  obtain ⟨c, u, hl, hc0, hu0, hcu⟩ := hloop
  refine ⟨c, u, ?_, hcu⟩
  unfold ibzCornacchiaPrime
  have hne : ((pn : Int) = 2) = False := by simp; omega
  simp only [hne, if_false, hr, hl]
  exact cornFinish_n n pn c u hn hu0 hcu
example : ibzCornacchiaPrime 2 11 = .ok (3, 1) ∧ ibzCornacchiaPrime 7 43 = .ok (6, 1) ∧
    (3 : Int) * 3 + 2 * (1 * 1) = 11 ∧ Nat.Prime 43 := by decide

/-- `ibz_cornacchia_special_prime` (x² + n·y² = 2^e·p), repaired code: never a false solution under the documented
    contract n ≡ 3 (mod 4) alone — no coprimality side condition any more (p | n now reports failure). -/
theorem cornacchia_special_prime_sound (n p : Int) (e : Nat) (x y : Int) (hn : n % 4 = 3)
    (h : ibzCornacchiaSpecialPrime n p e = .ok (x, y)) : x * x + n * (y * y) = p * 2 ^ e := by
  apply cornacchiaSpecialPrime_sound n p e x y _ h
  rintro ⟨_, h1⟩; omega
example : ibzCornacchiaSpecialPrime 3 13 2 = .ok (7, 1) ∧ (3 : Int) % 4 = 3 ∧ ibzCornacchiaSpecialPrime 7 7 1 = .fail := by decide

/-- `ibz_cornacchia_extended`: x² + y² = n for every prime list, every primality oracle (`ibz_probab_prime` is a
    parameter), every `bad_primes_prod`; |n| < 2^B, B ≤ 2^63 so that the int64 valuation counters cannot wrap -/
theorem cornacchia_extended_sound (isPP : Int → Bool) (n : Int) (primes : List Int) (bad : Option Int) (x y : Int)
    (B : Nat) (hB1 : 1 ≤ B) (hB : B ≤ 2 ^ 63) (hn : n.natAbs < 2 ^ B)
    (h : ibzCornacchiaExtended isPP n primes bad = .ok (x, y)) : x * x + y * y = n :=
  cornacchiaExtended_sound isPP n primes bad x y B hB1 hB hn h
example : ibzCornacchiaExtended probabPrime 725 [2, 5, 13] none = .ok (7, 26) ∧ (725 : Int).natAbs < 2 ^ 10 := by decide +kernel

/-- the recombination loop of `ibz_cornacchia_extended` cannot fail when every listed prime that was stripped with a non-zero
    valuation is a prime that is a sum of two squares (2 or ≡ 1 mod 4) -/
theorem apply_primes_complete : ∀ (primes : List Int) (vals : List Nat) (xy : Int × Int),
    (∀ p v, (p, v) ∈ primes.zip vals → v ≠ 0 → ∃ pn : Nat, p = pn ∧ pn.Prime ∧ (pn = 2 ∨ pn % 4 = 1)) →
    ∃ xy', applyPrimes primes vals xy = .ok xy' := by
  intro primes
  induction primes with
  | nil => intro vals xy _; exact ⟨xy, by simp [applyPrimes]⟩
  | cons p ps ih =>
    intro vals xy h
    cases vals with
    | nil => exact ⟨xy, by simp [applyPrimes]⟩
    | cons v vs =>
      have hrest : ∀ p' v', (p', v') ∈ ps.zip vs → v' ≠ 0 → ∃ pn : Nat, p' = pn ∧ pn.Prime ∧ (pn = 2 ∨ pn % 4 = 1) :=
        fun p' v' hm hv => h p' v' (by simp [List.zip_cons_cons, hm]) hv
      unfold applyPrimes
      by_cases hv : v = 0
      · simp only [hv, ne_eq, not_true_eq_false, if_false]; exact ih vs xy hrest
      · simp only [ne_eq, hv, not_false_eq_true, if_true]
        obtain ⟨pn, rfl, hpp, hp4⟩ := h p v (by simp [List.zip_cons_cons]) hv
        obtain ⟨x, y, hc, _⟩ := cornacchia_prime_complete_n1 pn hpp hp4
        simp only [extPrimeLoop, hc]
        exact ih vs _ hrest

/-- COMPLETENESS of `ibz_cornacchia_extended` relative to its trial-division stage: if after stripping the listed primes the
    cofactor `nodd` is 1 or a prime ≡ 1 (mod 4) that the primality oracle accepts, `bad_primes_prod` is coprime to n, and every
    stripped prime with non-zero valuation is 2 or ≡ 1 (mod 4), then a representation is returned (and by
    `cornacchia_extended_sound` it is one of n) -/
theorem cornacchia_extended_complete (isPP : Int → Bool) (n : Int) (primes : List Int) (bad : Option Int)
    (nodd : Int) (vals : List Nat) (hbad : badPrimesHit n bad = false)
    (hstrip : stripPrimes primes true n = .ok (nodd, vals))
    (hnodd : nodd = 1 ∨ ∃ qn : Nat, nodd = qn ∧ qn.Prime ∧ qn % 4 = 1 ∧ isPP nodd = true)
    (hlist : ∀ p v, (p, v) ∈ primes.zip vals → v ≠ 0 → ∃ pn : Nat, p = pn ∧ pn.Prime ∧ (pn = 2 ∨ pn % 4 = 1)) :
    ∃ xy, ibzCornacchiaExtended isPP n primes bad = .ok xy := by
  unfold ibzCornacchiaExtended
  simp only [hbad, Bool.false_eq_true, if_false, hstrip]
  rcases hnodd with h1 | ⟨qn, hq, hqp, hq4, hpp⟩
  · subst h1
    simp only [show ((1 : Int) % 4 ≠ 1) = False by decide, if_false, or_true, not_true_eq_false, if_true]
    exact apply_primes_complete primes vals (1, 0) hlist
  · have hmod : ¬ (nodd % 4 ≠ 1) := by rw [hq]; omega
    have hne1 : nodd ≠ 1 := by rw [hq]; have := hqp.two_le; omega
    simp only [hmod, if_false, hpp, true_or, not_true_eq_false, hne1]
    obtain ⟨x, y, hc, _⟩ := cornacchia_prime_complete_n1 qn hqp (Or.inr hq4)
    rw [hq, hc]
    exact apply_primes_complete primes vals (x, y) hlist

/-- integer core of one trial of `represent_integer` / `represent_integer_non_diag`:
    x² + y² + p·(z² + t²) = 4·n_gamma -/
theorem represent_integer_trial_sound (isPP : Int → Bool) (nGamma p z t : Int) (primes : List Int) (bad : Option Int)
    (x y z' t' : Int) (B : Nat) (hB1 : 1 ≤ B) (hB : B ≤ 2 ^ 63)
    (hn : (nGamma * 2 * 2 - (z * z + t * t) * p).natAbs < 2 ^ B)
    (h : representIntegerTrial isPP nGamma p z t primes bad = .ok (x, y, z', t')) :
    x * x + y * y + p * (z' * z' + t' * t') = 4 * nGamma := by
  unfold representIntegerTrial at h
  simp only at h
  split at h
  · rename_i x0 y0 hc
    injection h with h
    simp only [Prod.mk.injEq] at h
    obtain ⟨rfl, rfl, rfl, rfl⟩ := h
    have := cornacchia_extended_sound isPP _ primes bad _ _ B hB1 hB hn hc
    linear_combination this
  · exact absurd h (by simp)
  · exact absurd h (by simp)

/-- contract of `ibz_rand_interval`: for an EMPTY interval (b < a) the rejection loop never accepts — on every byte
    stream the model consumes the whole stream and ends in the "randombytes failed" exit; with an inexhaustible
    generator the C does not terminate.  (This is what makes `represent_integer*` spin for targets with 4n < p.) -/
theorem rand_interval_empty_never_returns (a b : Int) (h : b < a) (stream : List Nat) :
    ibzRandInterval a b stream = .fail := by
  cases hr : ibzRandInterval a b stream with
  | ok v => obtain ⟨r, rest⟩ := v; have := rand_interval_range_c a b stream r rest hr; omega
  | fail => rfl
  | ub => exact absurd hr (rand_interval_never_ub a b stream)

/-- `represent_integer` / `represent_integer_non_diag` (whole function, integer level; model tied to the real functions
    over a byte stream): every returned element γ = (c0 + c1·i + c2·j + c3·k)/2 lies in the standard maximal order
    (c0 ≡ c3, c1 ≡ c2 mod 2), has reduced norm exactly the returned n_gamma, and n_gamma is the target divided by a
    square — for every target n ≥ 0 (|4n| < 2^B, B ≤ 2^63), every p ≡ 3 (mod 4), every byte stream, every trial budget,
    every primality oracle, both variants. -/
theorem represent_integer_sound (isPP : Int → Bool) (nd : Bool) (trials : Nat) (n p : Int) (stream : List Nat)
    (o : RIOut) (rest : List Nat) (hp : 0 < p) (hp4 : p % 4 = 3) (hn : 0 ≤ n)
    (B : Nat) (hB1 : 1 ≤ B) (hB : B ≤ 2 ^ 63) (hsize : (n * 2 * 2).natAbs < 2 ^ B)
    (h : representInteger isPP nd trials n p stream = .ok (o, rest)) :
    ∃ c0 c1 c2 c3 k : Int, o.coord = [c0, c1, c2, c3] ∧ o.denom = 2 ∧
      4 * o.nOut = c0 * c0 + c1 * c1 + p * (c2 * c2 + c3 * c3) ∧ n = o.nOut * (k * k) ∧
      (c0 - c3) % 2 = 0 ∧ (c1 - c2) % 2 = 0 :=
  representInteger_sound isPP nd trials n p stream o rest hp hp4 hn B hB1 hB hsize h
example : representInteger probabPrime false 40 18 11 [0x69, 0xf0, 0xba, 0x9e, 0x0c, 0xcf] =
    Res.ok (⟨18, [4, 1, 1, -2], 2⟩, []) ∧ (11 : Int) % 4 = 3 := by decide +kernel

/-- CONTRACT of `represent_integer*` (undocumented in klpt.h): the target must satisfy 4·n_gamma ≥ p.  For 0 ≤ 4n < p the
    first sampling interval [1, ⌊√(4n/p)⌋] = [1, 0] is empty, so no representation is ever returned: the model ends in the
    "randomness exhausted" outcome on every stream (the real function spins inside `ibz_rand_interval`; observed with a
    5 s alarm for n = 2^200 + 1 at level 1).  Every caller in the library passes n_gamma ≥ 2^15·p. -/
theorem represent_integer_small_target_never_returns (isPP : Int → Bool) (nd : Bool) (trials : Nat) (n p : Int)
    (stream : List Nat) (h0 : 0 ≤ n) (hlt : n * 2 * 2 < p) :
    ∀ r, representInteger isPP nd trials n p stream ≠ .ok r := by
  intro r h
  unfold representInteger at h
  simp only at h
  have hq : (n * 2 * 2).tdiv p = 0 := Int.tdiv_eq_zero_of_lt (by omega) hlt
  rw [hq] at h
  have hb : ((isqrt (0 : Int).toNat : Nat) : Int) = 0 := by decide
  rw [hb] at h
  cases trials with
  | zero => simp [riLoop] at h
  | succ k =>
    unfold riLoop at h
    rw [rand_interval_empty_never_returns 1 0 (by omega) stream] at h
    simp at h

/-! ## 7. `ibz_get` and `two_adic_valuation(ibz_get(x))` -/

/-- `ibz_get`: congruent to x modulo 2^63, in the int64 range, exact when x fits -/
theorem ibz_get_spec (x : Int) :
    (ibzGet x - x) % 2 ^ 63 = 0 ∧ -(2 ^ 63) ≤ ibzGet x ∧ ibzGet x < 2 ^ 63 ∧
    (-(2 ^ 63) ≤ x ∧ x < 2 ^ 63 → ibzGet x = x) := ibzGet_spec x

/-- the composition used by the signers is the 2-adic valuation of x exactly when 2^32 ∤ x …
    Full-strength statement ("for every x ≠ 0") is FALSE, see `two_adic_valuation_truncates`. -/
theorem two_adic_valuation_spec_partial (x : Int) (h : x % 2 ^ 32 ≠ 0) :
    (2 : Int) ^ twoAdicValuationOfIbz x ∣ x ∧ ¬ (2 : Int) ^ (twoAdicValuationOfIbz x + 1) ∣ x := by
  rw [twoAdicValuationOfIbz_eq, if_neg h]
  have hw0 := Int.emod_nonneg x (show (2 : Int) ^ 32 ≠ 0 by decide)
  have hw1 := Int.emod_lt_of_pos x (show (0 : Int) < 2 ^ 32 by decide)
  have hpos : 0 < (x % 2 ^ 32).toNat := by omega
  have hlt : (x % 2 ^ 32).toNat < 2 ^ 32 := by omega
  obtain ⟨h1, h2, h3⟩ := trailingZeros_spec' 32 _ hpos hlt
  generalize trailingZeros 32 (x % 2 ^ 32).toNat = t at h1 h2 h3
  generalize hw : (x % 2 ^ 32).toNat = w at h1 h2 hpos hlt
  have hxw : ∃ k : Int, x = (w : Int) + 2 ^ 32 * k := ⟨x / 2 ^ 32, by
    have := Int.emod_add_mul_ediv x (2 ^ 32); omega⟩
  obtain ⟨k, hk⟩ := hxw
  have h32 : (2 : Int) ^ 32 = 2 ^ (t + 1) * 2 ^ (31 - t) := by
    rw [← pow_add]; congr 1; omega
  have hwI : (w : Int) = ((w / 2 ^ t : Nat) : Int) * 2 ^ t := by
    conv_lhs => rw [h1]
    push_cast; ring
  have hc : ((w / 2 ^ t : Nat) : Int) % 2 = 1 := by omega
  generalize ((w / 2 ^ t : Nat) : Int) = c at hwI hc
  generalize (2 : Int) ^ (31 - t) = Q at h32
  constructor
  · rw [hk, h32, hwI, pow_succ]
    exact Dvd.intro (c + 2 * Q * k) (by ring)
  · intro hd
    rw [hk, h32, hwI, pow_succ] at hd
    obtain ⟨m, hm⟩ := hd
    have h2t : (2 : Int) ^ t ≠ 0 := by positivity
    have : c + 2 * (Q * k) = 2 * m := by
      apply Int.eq_of_mul_eq_mul_left h2t
      linear_combination hm
    omega
/-- `ibz_two_adic` (the big-integer replacement used by keygen/sign since fix b69f2a3): the exact 2-adic valuation
    of EVERY non-zero integer (any sign, any size), and 0 for x = 0 -/
theorem ibz_two_adic_spec (x : Int) :
    (x ≠ 0 → (2 : Int) ^ ibzTwoAdic x ∣ x ∧ ¬ (2 : Int) ^ (ibzTwoAdic x + 1) ∣ x) ∧ (x = 0 → ibzTwoAdic x = 0) := by
  refine ⟨fun hx => ?_, fun hx => by simp [ibzTwoAdic, hx]⟩
  unfold ibzTwoAdic
  rw [if_neg hx]
  have hpos : 0 < x.natAbs := Int.natAbs_pos.mpr hx
  obtain ⟨h1, h2, _⟩ := trailingZeros_spec' x.natAbs x.natAbs hpos Nat.lt_two_pow_self
  generalize trailingZeros x.natAbs x.natAbs = t at h1 h2
  constructor
  · rw [← Int.dvd_natAbs]
    exact_mod_cast (Dvd.intro_left _ h1.symm)
  · intro hd
    rw [← Int.dvd_natAbs] at hd
    have hd' : 2 ^ (t + 1) ∣ x.natAbs := by exact_mod_cast hd
    rw [h1, Nat.pow_succ, Nat.mul_comm (2 ^ t) 2] at hd'
    have h2t : 0 < 2 ^ t := Nat.two_pow_pos t
    have := Nat.dvd_of_mul_dvd_mul_right h2t hd'
    omega
example : ibzTwoAdic (2 ^ 32) = 32 ∧ ibzTwoAdic (-(3 * 2 ^ 100)) = 100 ∧ ibzTwoAdic 0 = 0 ∧ ibzTwoAdic 7 = 0 := by decide +kernel

/-- NEGATION of the full statement (finding, feeds C04): when 2^32 | x the result is 0, e.g. x = 2^32 -/
theorem two_adic_valuation_truncates (x : Int) (h : x % 2 ^ 32 = 0) : twoAdicValuationOfIbz x = 0 := by
  rw [twoAdicValuationOfIbz_eq, if_pos h]
example : twoAdicValuationOfIbz (2 ^ 32) = 0 ∧ (2 : Int) ^ 32 ∣ 2 ^ 32 ∧ twoAdicValuationOfIbz 48 = 4 := by decide

/-! ## 8. Kernels modulo a prime and 2×2 inverses modulo m

`ibz_4x4_right_ker_mod_prime` / `ibz_4x5_right_ker_mod_prime` return 1 only when the elimination finds a
kernel of dimension exactly 1.  Proved (for EVERY prime p, EVERY integer matrix, generic in rows × cols):
whenever a vector is returned it is non-zero modulo p and M·v ≡ 0 (mod p) — invariant of the elimination
(kernel inclusion, pivot columns, pivot-free rows), by induction over the columns.
Also proved (this round): the routine never takes the `ub` exit for a prime modulus (entries stay reduced, so every
pivot is invertible) and COMPLETENESS — if the right kernel modulo p is a line, a vector is returned
(`ker_mod_prime_never_ub`, `ker_mod_prime_complete`).  Together: for every prime p and every integer matrix whose kernel
mod p is one-dimensional the routine returns a non-zero kernel vector.  (If the kernel has another dimension the routine
returns 0 by design: it only answers for dimension exactly 1.)
The Howell-form routine `ibz_4x4_right_ker_mod_power_of_2` (matkermod.c) has a faithful executable model
(`SqiModel.Howell`, tied by correspondence incl. the intermediate Howell form and transformation matrix) but no
soundness theorem of the algorithm itself: every vector it returns is certified by the proved-sound checker of §9. -/

theorem ker_mod_prime_sound (pn : Nat) (hp : pn.Prime) (rows cols : Nat) (mat : Mat) (ker : List Int)
    (h : rightKerModPrime rows cols mat pn = .ok ker) :
    ker.length = cols ∧ (∃ s < cols, ((ker.getD s 0 : Int) : ZMod pn) ≠ 0) ∧
    ∀ i < rows, ∑ s ∈ Finset.range cols, ((get mat i s : Int) : ZMod pn) * ((ker.getD s 0 : Int) : ZMod pn) = 0 := by
  haveI := Fact.mk hp
  exact rightKerModPrime_sound pn rows cols mat ker h

/-- never `ub`: for a prime modulus every pivot is invertible -/
theorem ker_mod_prime_never_ub (pn : Nat) (hp : pn.Prime) (rows cols : Nat) (mat : Mat) :
    rightKerModPrime rows cols mat pn ≠ .ub := by
  haveI := Fact.mk hp
  exact rightKerModPrime_ne_ub pn rows cols mat

/-- completeness: if the right kernel of `mat` modulo p is the line spanned by a non-zero v0, a vector is returned
    (and by `ker_mod_prime_sound` it is a non-zero kernel vector) -/
theorem ker_mod_prime_complete (pn : Nat) (hp : pn.Prime) (rows cols : Nat) (mat : Mat) (v0 : Nat → ZMod pn)
    (hv0 : ∃ s < cols, v0 s ≠ 0)
    (hker0 : ∀ i < rows, ∑ s ∈ Finset.range cols, ((get mat i s : Int) : ZMod pn) * v0 s = 0)
    (hline : ∀ v : Nat → ZMod pn, (∀ i < rows, ∑ s ∈ Finset.range cols, ((get mat i s : Int) : ZMod pn) * v s = 0) →
      ∃ c : ZMod pn, ∀ s < cols, v s = c * v0 s) :
    ∃ ker, rightKerModPrime rows cols mat pn = .ok ker := by
  haveI := Fact.mk hp
  exact rightKerModPrime_complete pn rows cols mat v0 hv0 hker0 hline

/-- converse: when a vector is returned, EVERY kernel vector modulo p is a multiple of it — so the routine returns 1
    exactly when the kernel modulo p is one-dimensional, and then a generator of it -/
theorem ker_mod_prime_spans (pn : Nat) (hp : pn.Prime) (rows cols : Nat) (mat : Mat) (ker : List Int)
    (h : rightKerModPrime rows cols mat pn = .ok ker) (v : Nat → ZMod pn)
    (hv : ∀ i < rows, ∑ s ∈ Finset.range cols, ((get mat i s : Int) : ZMod pn) * v s = 0) :
    ∃ c : ZMod pn, ∀ s < cols, v s = c * ((ker.getD s 0 : Int) : ZMod pn) := by
  haveI := Fact.mk hp
  exact rightKerModPrime_line pn rows cols mat ker h v hv

/-- the two instances used by the library -/
theorem ker_4x4_mod_prime_sound (pn : Nat) (hp : pn.Prime) (mat : Mat) (ker : List Int)
    (h : ker4x4ModPrime mat pn = .ok ker) :
    ker.length = 4 ∧ (∃ s < 4, ((ker.getD s 0 : Int) : ZMod pn) ≠ 0) ∧
    ∀ i < 4, ∑ s ∈ Finset.range 4, ((get mat i s : Int) : ZMod pn) * ((ker.getD s 0 : Int) : ZMod pn) = 0 :=
  ker_mod_prime_sound pn hp 4 4 mat ker h
theorem ker_4x5_mod_prime_sound (pn : Nat) (hp : pn.Prime) (mat : Mat) (ker : List Int)
    (h : ker4x5ModPrime mat pn = .ok ker) :
    ker.length = 5 ∧ (∃ s < 5, ((ker.getD s 0 : Int) : ZMod pn) ≠ 0) ∧
    ∀ i < 4, ∑ s ∈ Finset.range 5, ((get mat i s : Int) : ZMod pn) * ((ker.getD s 0 : Int) : ZMod pn) = 0 :=
  ker_mod_prime_sound pn hp 4 5 mat ker h
example : ker4x4ModPrime [[1, 2, 3, 4], [2, 4, 6, 1], [0, 1, 1, 1], [3, 0, 2, 6]] 7 = .ok [5, 6, 0, 1] ∧
    ker4x4ModPrime [[1, 0, 0, 0], [0, 1, 0, 0], [0, 0, 1, 0], [0, 0, 0, 1]] 7 = .fail ∧ Nat.Prime 7 := by
  refine ⟨by decide, by decide, by decide⟩

/-- `ibz_2x2_inv_mod` (positive modulus): the result is the inverse matrix modulo m with reduced entries -/
theorem mat_2x2_inv_mod_sound (mn : Nat) (hm : mn ≠ 0) (a b c d : Int) (inv : Mat)
    (h : inv2x2Mod [[a, b], [c, d]] mn = .ok inv) :
    ∃ w x y z : Int, inv = [[w, x], [y, z]] ∧
      (0 ≤ w ∧ w < mn) ∧ (0 ≤ x ∧ x < mn) ∧ (0 ≤ y ∧ y < mn) ∧ (0 ≤ z ∧ z < mn) ∧
      ((a * w + b * y : Int) : ZMod mn) = 1 ∧ ((a * x + b * z : Int) : ZMod mn) = 0 ∧
      ((c * w + d * y : Int) : ZMod mn) = 0 ∧ ((c * x + d * z : Int) : ZMod mn) = 1 :=
  inv2x2Mod_sound mn hm a b c d inv h
example : inv2x2Mod [[1, 2], [3, 5]] 8 = .ok [[3, 2], [3, 7]] ∧ inv2x2Mod [[1, 2], [2, 4]] 8 = .fail := by decide

/-! ## 9. Kernel modulo 2^e (Howell form): proved-sound certificate checker

`ibz_4x4_right_ker_mod_power_of_2` is not modelled; each vector it returns during a check run is passed to
`kerPow2Check` (driver op `chkker2e`).  Soundness of the checker, for every matrix, exponent and vector: -/
theorem ker_pow2_check_sound (mat : Mat) (e : Nat) (v : List Int) (h : kerPow2Check mat e v = true) :
    (∃ x ∈ v, x % 2 = 1) ∧ (∀ row ∈ mat, row.length = v.length ∧ dotInt row v % 2 ^ e = 0) := by
  simp only [kerPow2Check, Bool.and_eq_true, List.all_eq_true, List.any_eq_true, beq_iff_eq] at h
  exact ⟨h.1.2, fun row hr => ⟨h.1.1 row hr, h.2 row hr⟩⟩
/-- `dotInt` is the usual dot product -/
theorem dotInt_cons (a b : Int) (r w : List Int) : dotInt (a :: r) (b :: w) = a * b + dotInt r w := rfl
example : kerPow2Check [[1, 2, 0, 0], [0, 0, 4, 4], [2, 4, 0, 0], [0, 0, 0, 8]] 3 [2, 7, 1, 1] = true := by decide

/-- soundness of the matrix-identity checker through which every output of the real `ibz_mat_howell`
    ([0|mat]·trans ≡ howell) and `ibz_mat_right_ker_mod` (mat·ker ≡ 0) is passed on each run (driver op `chkmul`) -/
theorem mat_mul_check_sound (A B C : Mat) (cols : Nat) (N : Int) (h : matMulCheck A B C cols N = true) :
    A.length = C.length ∧ ∀ i < A.length, ∀ j < cols, (dotInt (A.getD i []) (colOf B j) - get C i j) % N = 0 := by
  simp only [matMulCheck, Bool.and_eq_true, List.all_eq_true, List.mem_range, beq_iff_eq] at h
  exact ⟨h.1, fun i hi j hj => h.2 i hi j hj⟩
example : matMulCheck [[1, 2], [3, 4]] [[5, 6], [7, 8]] [[19, 22], [43, 50]] 2 1000 = true ∧
    matMulCheck [[1, 2], [3, 4]] [[5, 6], [7, 8]] [[19, 22], [43, 51]] 2 1000 = false := by decide

/-! ## 10. Building blocks of the Howell form (matkermod.c) that ARE proved

The Howell-form algorithm as a whole has no theorem (see the header of §8 and notes/C17.md); two of its ingredients do: -/

/-- `unit` (static helper: Stabilizer/Split): for every modulus N > 0 and every x ≠ 0 the returned u is reduced, a unit
    modulo N, and u·x ≡ gcd(x, N) (mod N); the returned gcd is gcd(x, N) -/
theorem howell_unit_spec (x N : Int) (hN : 0 < N) (hx : x ≠ 0) :
    (SqiModel.Howell.unit x N).1 = true ∧ (SqiModel.Howell.unit x N).2.2 = (Int.gcd x N : Int) ∧
    0 ≤ (SqiModel.Howell.unit x N).2.1 ∧ (SqiModel.Howell.unit x N).2.1 < N ∧
    Int.gcd (SqiModel.Howell.unit x N).2.1 N = 1 ∧
    ((SqiModel.Howell.unit x N).2.1 * x) % N = (Int.gcd x N : Int) % N :=
  unit_spec x N hN hx
example : SqiModel.Howell.unit 6 12 = (true, 1, 6) ∧ SqiModel.Howell.unit 10 12 = (true, 11, 2) ∧
    SqiModel.Howell.unit 0 12 = (false, 0, 0) := by decide

/-- the 2×2 matrix [[s, u], [t, v]] that `ibz_xgcd_ann` hands to `gen_elem` is unimodular (determinant 1), so `gen_elem` applied
    to whole columns is an invertible column operation -/
theorem xgcd_ann_unimodular (a b : Int) (h : a ≠ 0 ∨ b ≠ 0) :
    let r := ibzXgcdAnn a b
    r.2.1 * r.2.2.2.2 - r.2.2.1 * r.2.2.2.1 = 1 := by
  obtain ⟨hg, hbez, _, hs, ht⟩ := xgcd_ann_spec a b h
  simp only at hg hbez hs ht ⊢
  generalize ibzXgcdAnn a b = r at hg hbez hs ht
  obtain ⟨g, s, t, u, v⟩ := r
  simp only at hg hbez hs ht ⊢
  have hg0 : g ≠ 0 := by
    rw [hg]; intro h0
    have : Int.gcd a b = 0 := by exact_mod_cast h0
    rw [Int.gcd_eq_zero_iff] at this; omega
  have : g * (s * v - t * u - 1) = 0 := by linear_combination v * hs - u * ht + hbez
  rcases Int.mul_eq_zero.mp this with h1 | h1
  · exact absurd h1 hg0
  · omega

/-! ## 11. Tie T — the definitions TRANSLATED from the C text equal the hand models

`SqiGen.Intbig.*` is regenerated from src/intbig/ref/generic/intbig.c on every run by tools/translate/intbig.py (let / if /
loop combinators / GMP primitives of `SqiModel.CProg`).  The equations below make every theorem of this file a theorem about
the translated code; an edit of the C control flow or of an mpz call sequence changes the generated definition and breaks the
equation (seeded change C17-m1: `mpz_set_ui(exp, 1UL << (e − 2))` is translated to the partial word shift `ulShl`, and
`translated_sqrt_mod_p_eq` no longer checks). -/

theorem translated_div_eq (q r a b : Int) : SqiGen.Intbig.ibz_div q r a b = ibzDiv a b := gen_ibz_div q r a b
theorem translated_div_2exp_eq (q a : Int) (e : Nat) : SqiGen.Intbig.ibz_div_2exp q a e = ibzDiv2exp a e := gen_ibz_div_2exp q a e
theorem translated_xgcd_eq (g u v a b : Int) : SqiGen.Intbig.ibz_xgcd g u v a b = ibzXgcd a b := gen_ibz_xgcd g u v a b
theorem translated_mod_eq (r a b : Int) : SqiGen.Intbig.ibz_mod r a b = ibzMod a b := gen_ibz_mod r a b
theorem translated_div_floor_eq (q r n d : Int) : SqiGen.Intbig.ibz_div_floor q r n d = ibzDivFloor n d :=
  gen_ibz_div_floor q r n d
theorem translated_two_adic_eq (a : Int) : SqiGen.Intbig.ibz_two_adic a = (ibzTwoAdic a : Nat) := gen_ibz_two_adic a
theorem translated_crt_eq (crt a b ma mb : Int) : SqiGen.Intbig.ibz_crt crt a b ma mb = ibzCrt a b ma mb :=
  gen_ibz_crt crt a b ma mb
/-- all three branches, both `while` loops, the Tonelli–Shanks `for` loop and the early exit, for every modulus p > 0 -/
theorem translated_sqrt_mod_p_eq (sqrt a p : Int) (hp : 0 < p) :
    SqiGen.Intbig.ibz_sqrt_mod_p sqrt a p = ibzSqrtModP a p := gen_ibz_sqrt_mod_p sqrt a p hp
theorem translated_sqrt_mod_2p_eq (sqrt a p : Int) (hp : 0 < p) :
    SqiGen.Intbig.ibz_sqrt_mod_2p sqrt a p = ibzSqrtMod2P a p := gen_ibz_sqrt_mod_2p sqrt a p hp

/-- mask computation (`(mp_limb_t)-1 >> ((64 − len_bits % 64) % 64)`, a partial word shift in the translated code) and the
    rejection `do … while (1)` loop over `randombytes` -/
theorem translated_rand_interval_eq (rand a b : Int) (stream : List Nat) :
    SqiGen.Intbig.ibz_rand_interval rand a b stream = ibzRandInterval a b stream := gen_ibz_rand_interval rand a b stream

/-- `ibz_rand_interval`, translated code: never undefined, and every accepted sample lies in [a, b] -/
theorem translated_rand_interval_spec (rand a b : Int) (stream : List Nat) :
    SqiGen.Intbig.ibz_rand_interval rand a b stream ≠ .ub ∧
    ∀ r rest, SqiGen.Intbig.ibz_rand_interval rand a b stream = .ok (r, rest) → a ≤ r ∧ r ≤ b := by
  rw [translated_rand_interval_eq]
  exact ⟨rand_interval_never_ub a b stream, fun r rest h => rand_interval_range_c a b stream r rest h⟩

/-- `ibz_cornacchia_prime` (integers.c): p = 2 branch, call of the translated `ibz_sqrt_mod_p`, Euclidean `while` loop with its
    partial division, the `res = res && …` chain -/
theorem translated_cornacchia_prime_eq (x y n p : Int) (hp : 0 < p) (hn : n ≠ 0) :
    SqiGen.Intbig.ibz_cornacchia_prime x y n p = ibzCornacchiaPrime n p := gen_ibz_cornacchia_prime x y n p hp hn

/-- `ibz_cornacchia_prime`, translated code: never a false solution; and for an odd prime p and n ≥ 1 a solution is returned
    whenever one with x ≠ 0 exists -/
theorem translated_cornacchia_prime_spec (pn : Nat) (hp : pn.Prime) (n : Int) (hn : 1 ≤ n) (x y : Int) :
    (∀ x' y', SqiGen.Intbig.ibz_cornacchia_prime x y n pn = .ok (x', y') → x' * x' + n * (y' * y') = pn) ∧
    (pn ≠ 2 → ∀ x0 y0 : Int, x0 ≠ 0 → x0 * x0 + n * (y0 * y0) = pn →
      ∃ x' y', SqiGen.Intbig.ibz_cornacchia_prime x y n pn = .ok (x', y')) := by
  have hpos : (0 : Int) < pn := by have := hp.pos; omega
  rw [translated_cornacchia_prime_eq x y n pn hpos (by omega)]
  refine ⟨fun x' y' h => cornacchia_prime_sound n pn x' y' h, ?_⟩
  intro hp2 x0 y0 hx0 hsol
  obtain ⟨x', y', h, _⟩ := cornacchia_prime_complete pn hp hp2 n x0 y0 hn hx0 hsol
  exact ⟨x', y', h⟩

/-- the specification of `ibz_sqrt_mod_p`, stated directly about the translated code: for every prime p and every a (and
    whatever the output variable contained) — sound, complete, never aborting -/
theorem translated_sqrt_mod_p_spec (pn : Nat) (hp : pn.Prime) (sqrt a : Int) :
    (∀ r, SqiGen.Intbig.ibz_sqrt_mod_p sqrt a pn = .ok r → 0 ≤ r ∧ r < pn ∧ (r * r - a) % pn = 0) ∧
    (IsSquare (a : ZMod pn) → ∃ r, SqiGen.Intbig.ibz_sqrt_mod_p sqrt a pn = .ok r) ∧
    (SqiGen.Intbig.ibz_sqrt_mod_p sqrt a pn = .fail ↔ ¬ IsSquare (a : ZMod pn)) ∧
    SqiGen.Intbig.ibz_sqrt_mod_p sqrt a pn ≠ .ub := by
  have hpos : (0 : Int) < pn := by have := hp.pos; omega
  rw [translated_sqrt_mod_p_eq sqrt a pn hpos]
  exact ⟨fun r h => sqrt_mod_p_sound pn hp a r h, sqrt_mod_p_complete pn hp a,
    (sqrt_mod_p_fail_iff pn hp a).1, (sqrt_mod_p_fail_iff pn hp a).2⟩

/-- `ibz_crt`, translated code, coprime non-zero moduli -/
theorem translated_crt_spec (crt a b ma mb : Int) (hcop : Int.gcd ma mb = 1) (hma : ma ≠ 0) (hmb : mb ≠ 0) :
    SqiGen.Intbig.ibz_crt crt a b ma mb % ma = a % ma ∧ SqiGen.Intbig.ibz_crt crt a b ma mb % mb = b % mb ∧
    0 ≤ SqiGen.Intbig.ibz_crt crt a b ma mb ∧ SqiGen.Intbig.ibz_crt crt a b ma mb < ((ma * mb).natAbs : Int) := by
  rw [translated_crt_eq]; exact crt_spec a b ma mb hcop hma hmb

end SqiProps.C17

/-
C18 — precomputed parameter tables encode the mathematics the code assumes.

Every statement here is about the definitions in `SqiGen.Tables{1,3,5}`, which tools/translate/tables.py
re-extracts from /repo's C sources on every run (tie T). The quantifier of the property is a finite
table, so each fact is decided in the kernel (`decide +kernel`, no axioms beyond the kernel's GMP
arithmetic on literals; in particular no `native_decide`).  Strategy rows are then lifted to the
inductive notion of valid strategy by `checkStrat_sound`, and through `run_chain` to the traversal
theorem (all n, all strategies) — so "every row drives the chain routines correctly for its length"
is: row valid (here) + traversal theorem (SqiModel.Strategy, C09/C12).
-/
import SqiProps.C18L1
import SqiProps.C18L3
import SqiProps.C18L5
import SqiProofs.Primes

namespace SqiProps.C18

/-! ## the characteristics are prime (N+1 certificate checked by the kernel, see SqiProofs.Primality) -/
theorem L1_characteristic_prime : Nat.Prime SqiGen.L1.FP_p := SqiProofs.Primes.L1_prime
theorem L3_characteristic_prime : Nat.Prime SqiGen.L3.FP_p := SqiProofs.Primes.L3_prime
theorem L5_characteristic_prime : Nat.Prime SqiGen.L5.FP_p := SqiProofs.Primes.L5_prime

end SqiProps.C18

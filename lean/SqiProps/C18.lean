/-
C18 — precomputed parameter tables encode the mathematics the code assumes.

Every statement here is about the definitions in `SqiGen.Tables{1,3,5}`, which tools/translate/tables.py
re-extracts from /repo's C sources on every run (tie T). The quantifier of the property is a finite
table, so each fact is decided in the kernel (`decide +kernel`, no axioms beyond the kernel's GMP
arithmetic on literals; in particular no `native_decide`).  Strategy rows are then lifted to the
inductive notion of valid strategy by `checkStrat_sound`, and through `run_chain` to the traversal
theorem (all n, all strategies) — so "every row drives the chain routines correctly for its length"
is: row valid (here) + traversal theorem (SqiModel.Strategy, C09/C12).
-/
import SqiModel.Strategy
import SqiModel.Mat2
import SqiModel.Fp2N
import SqiGen.Tables1
import SqiGen.Tables3
import SqiGen.Tables5
import SqiProofs.Primes

set_option maxRecDepth 100000

namespace SqiProps.C18
open SqiModel

/-- all rows i of a table are valid zero-padded strategies for `leaves i` leaves, and have exactly `cols` entries -/
def rowsValid (leaves : Nat → Nat) (cols : Nat) (table : List (List Nat)) : Bool :=
  (table.zipIdx).all fun (row, i) => checkStrat (leaves i) row && row.length == cols

/-- list the indices of bad rows (used by the violation search through the driver / #eval) -/
def badRows (leaves : Nat → Nat) (cols : Nat) (table : List (List Nat)) : List Nat :=
  (table.zipIdx).filterMap fun (row, i) => if checkStrat (leaves i) row && row.length == cols then none else some i

theorem rowsValid_sound {leaves : Nat → Nat} {cols : Nat} {table : List (List Nat)}
    (h : rowsValid leaves cols table = true) (i : Nat) (hi : i < table.length) :
    ∃ s pad, Strat (leaves i) s ∧ table[i] = s ++ pad ∧ (∀ x ∈ pad, x = 0) ∧ s.length = leaves i - 1 := by
  unfold rowsValid at h
  rw [List.all_eq_true] at h
  have hm : (table[i], i) ∈ table.zipIdx := by
    rw [List.mem_zipIdx_iff_getElem?]; simp [hi]
  have := h _ hm
  simp only [Bool.and_eq_true] at this
  exact checkStrat_sound _ _ this.1

/-! ## level 1 -/
section L1
open SqiGen.L1

theorem L1_p_plus_one : FP_p + 1 = p_cofactor_for_2f * 2 ^ D_POWER_OF_2 := by decide +kernel
theorem L1_p_mod4 : FP_p % 4 = 3 := by decide +kernel
theorem L1_p_limbs : FP_p_limbs.length = D_NWORDS_FIELD ∧ FP_p_limbs.all (· < 2 ^ 64) = true := by decide +kernel
theorem L1_p_fits : FP_p < 2 ^ (64 * D_NWORDS_FIELD) ∧ 2 ^ (64 * D_NWORDS_FIELD - 8) ≤ 2 * FP_p := by decide +kernel
theorem L1_one_is_R : FP_ONE = 2 ^ (64 * D_NWORDS_FIELD) % FP_p ∧ FP_ZERO = 0 := by decide +kernel
theorem L1_TWOpF : TWOpF = 2 ^ D_POWER_OF_2 ∧ 2 * TWOpFm1 = TWOpF ∧ TWOpF_limbs.length = D_NWORDS_ORDER := by decide +kernel
theorem L1_torsion_consts : W64.TORSION_PLUS_EVEN_POWER = D_POWER_OF_2 ∧ W64.CHARACTERISTIC = (FP_p : Int) ∧
    W64.TORSION_PLUS_2POWER = (2 : Int) ^ D_POWER_OF_2 ∧ W64.DEGREE_CHALLENGE = (2 : Int) ^ D_POWER_OF_2 ∧
    W64.QUATALG_PINFTY_p = (FP_p : Int) ∧
    W64.QUATALG_PINFTY_gram = [[1, 0, 0, 0], [0, 1, 0, 0], [0, 0, (FP_p : Int), 0], [0, 0, 0, (FP_p : Int)]] := by decide +kernel
theorem L1_p_minus_one : (FP_p - 1) % (W64.TORSION_ODD_MINUS.toNat) = 0 ∧ (FP_p + 1) % (W64.TORSION_ODD_PLUS.toNat) = 0 ∧
    W64.TORSION_ODD = W64.TORSION_ODD_PLUS * W64.TORSION_ODD_MINUS := by decide +kernel
theorem L1_widths_agree : WIDTH16_all = WIDTH64_all ∧ WIDTH32_all = WIDTH64_all := by decide +kernel
theorem L1_sizes : D_SQIsign2D_response_length + 2 ≤ D_POWER_OF_2 ∧ D_BITS = 64 * D_NWORDS_FIELD ∧
    D_FP_ENCODED_BYTES = 8 * D_NWORDS_FIELD ∧ D_FP2_ENCODED_BYTES = 2 * D_FP_ENCODED_BYTES ∧
    D_POWER_OF_2 ≤ 8 * D_TORSION_2POWER_BYTES ∧ D_POWER_OF_2 < 64 * D_NWORDS_ORDER := by decide +kernel

/-- every row `i` of the 4-isogeny strategy table is a valid strategy for the ⌊(f-i)/2⌋ 4-isogeny steps of a chain of length f-i -/
theorem L1_STRATEGY4_rows : rowsValid (fun i => (D_POWER_OF_2 - i) / 2) STRATEGY4_cols STRATEGY4 = true := by decide +kernel
/-- every row `i` of the dimension-2 strategy table is a valid strategy for a (2,2)-chain of length f-i -/
theorem L1_strategies_rows : rowsValid (fun i => D_POWER_OF_2 - i) strategies_cols strategies = true := by decide +kernel
/-- the tables have exactly as many rows as lengths the code can ask for, and no row needs more columns than declared -/
theorem L1_table_shapes : STRATEGY4.length = strategies.length ∧ STRATEGY4.length ≤ D_POWER_OF_2 ∧
    STRATEGY4_cols = D_POWER_OF_2 / 2 ∧ strategies_cols + 1 = D_POWER_OF_2 := by decide +kernel

/-- ring relations of the endomorphism action on E0[2^f] (generators 1, i, (i+j)/2, (1+k)/2 of O0) -/
theorem L1_action_relations :
    let N : Int := 2 ^ D_POWER_OF_2
    Mat2.wellShaped W64.ACTION_I && Mat2.wellShaped W64.ACTION_J && Mat2.wellShaped W64.ACTION_K &&
    Mat2.wellShaped W64.ACTION_GEN2 && Mat2.wellShaped W64.ACTION_GEN3 && Mat2.wellShaped W64.ACTION_GEN4 &&
    Mat2.eqMod N (Mat2.mul W64.ACTION_I W64.ACTION_I) (Mat2.scalar (-1)) &&
    Mat2.eqMod N (Mat2.mul W64.ACTION_J W64.ACTION_J) (Mat2.scalar (-(FP_p : Int))) &&
    Mat2.eqMod N (Mat2.mul W64.ACTION_I W64.ACTION_J) W64.ACTION_K &&
    Mat2.eqMod N (Mat2.mul W64.ACTION_J W64.ACTION_I) (Mat2.smul (-1) W64.ACTION_K) &&
    Mat2.eqMod N W64.ACTION_GEN2 W64.ACTION_I &&
    Mat2.eqMod N (Mat2.smul 2 W64.ACTION_GEN3) (Mat2.add W64.ACTION_I W64.ACTION_J) &&
    Mat2.eqMod N (Mat2.smul 2 W64.ACTION_GEN4) (Mat2.add (Mat2.scalar 1) W64.ACTION_K) = true := by decide +kernel
/-- determinant = reduced norm (mod 2^f): n(i)=1, n(j)=p, n(k)=p, n((i+j)/2)=(1+p)/4, n((1+k)/2)=(1+p)/4 -/
theorem L1_action_dets :
    let N : Int := 2 ^ D_POWER_OF_2
    (Mat2.det W64.ACTION_I - 1) % N = 0 ∧ (Mat2.det W64.ACTION_J - FP_p) % N = 0 ∧ (Mat2.det W64.ACTION_K - FP_p) % N = 0 ∧
    (Mat2.det W64.ACTION_GEN3 - ((FP_p : Int) + 1) / 4) % N = 0 ∧ (Mat2.det W64.ACTION_GEN4 - ((FP_p : Int) + 1) / 4) % N = 0 := by decide +kernel

/-- non-vacuity / lifting: row 0 really is a strategy in the inductive sense, hence drives the machine -/
example : ∃ s pad, Strat (D_POWER_OF_2 - 0) s ∧ strategies[0]! = s ++ pad :=
  let ⟨s, pad, h1, h2, _, _⟩ := rowsValid_sound L1_strategies_rows 0 (by decide +kernel)
  ⟨s, pad, h1, by rw [← h2]; rfl⟩

/-- the base curve is y² = x³ + x: (A : C) = (0 : c), c ≠ 0 -/
theorem L1_curve_E0 : Fp2N.isZero FP_p W64.CURVE_E0.1 = true ∧ Fp2N.isZero FP_p W64.CURVE_E0.2 = false := by decide +kernel
/-- the precomputed 2^f-torsion basis of E0: P, Q (and the stored third point) have exact order 2^f under the
    verified doubling formula, and [2^(f-1)]P ≠ [2^(f-1)]Q, so P and Q generate E0[2^f] -/
theorem L1_basis_even_orders :
    W64.BASIS_EVEN.length = 3 ∧
    W64.BASIS_EVEN.all (fun P => Fp2N.exactOrder2f FP_p W64.CURVE_E0.1 W64.CURVE_E0.2 D_POWER_OF_2 P) = true ∧
    Fp2N.projEq FP_p (Fp2N.xDBLiter FP_p W64.CURVE_E0.1 W64.CURVE_E0.2 (D_POWER_OF_2 - 1) (W64.BASIS_EVEN[0]!))
                     (Fp2N.xDBLiter FP_p W64.CURVE_E0.1 W64.CURVE_E0.2 (D_POWER_OF_2 - 1) (W64.BASIS_EVEN[1]!)) = false := by
  decide +kernel
/-- the 20 table entries used as x-coordinates of points not above (0,0) are non-squares in GF(p²) -/
theorem L1_nqr_table : W64.NQR_TABLE.length = 20 ∧ W64.NQR_TABLE.all (fun x => !Fp2N.isSquare FP_p x) = true := by decide +kernel
/-- the 20 entries z used for points above (0,0): z is a square and z − 1 is not (entries and 1 in Montgomery form) -/
theorem L1_z_nqr_table : W64.Z_NQR_TABLE.length = 20 ∧
    W64.Z_NQR_TABLE.all (fun z => Fp2N.isSquare FP_p z && !Fp2N.isSquare FP_p (Fp2N.sub FP_p z (FP_ONE, 0))) = true := by decide +kernel
end L1

/-! ## level 3 -/
section L3
open SqiGen.L3

theorem L3_p_plus_one : FP_p + 1 = p_cofactor_for_2f * 2 ^ D_POWER_OF_2 := by decide +kernel
theorem L3_p_mod4 : FP_p % 4 = 3 := by decide +kernel
theorem L3_p_limbs : FP_p_limbs.length = D_NWORDS_FIELD ∧ FP_p_limbs.all (· < 2 ^ 64) = true := by decide +kernel
theorem L3_p_fits : FP_p < 2 ^ (64 * D_NWORDS_FIELD) ∧ 2 ^ (64 * D_NWORDS_FIELD - 8) ≤ 2 * FP_p := by decide +kernel
theorem L3_one_is_R : FP_ONE = 2 ^ (64 * D_NWORDS_FIELD) % FP_p ∧ FP_ZERO = 0 := by decide +kernel
theorem L3_TWOpF : TWOpF = 2 ^ D_POWER_OF_2 ∧ 2 * TWOpFm1 = TWOpF ∧ TWOpF_limbs.length = D_NWORDS_ORDER := by decide +kernel
theorem L3_torsion_consts : W64.TORSION_PLUS_EVEN_POWER = D_POWER_OF_2 ∧ W64.CHARACTERISTIC = (FP_p : Int) ∧
    W64.TORSION_PLUS_2POWER = (2 : Int) ^ D_POWER_OF_2 ∧ W64.DEGREE_CHALLENGE = (2 : Int) ^ D_POWER_OF_2 ∧
    W64.QUATALG_PINFTY_p = (FP_p : Int) ∧
    W64.QUATALG_PINFTY_gram = [[1, 0, 0, 0], [0, 1, 0, 0], [0, 0, (FP_p : Int), 0], [0, 0, 0, (FP_p : Int)]] := by decide +kernel
theorem L3_p_minus_one : (FP_p - 1) % (W64.TORSION_ODD_MINUS.toNat) = 0 ∧ (FP_p + 1) % (W64.TORSION_ODD_PLUS.toNat) = 0 ∧
    W64.TORSION_ODD = W64.TORSION_ODD_PLUS * W64.TORSION_ODD_MINUS := by decide +kernel
theorem L3_widths_agree : WIDTH16_all = WIDTH64_all ∧ WIDTH32_all = WIDTH64_all := by decide +kernel
theorem L3_sizes : D_SQIsign2D_response_length + 2 ≤ D_POWER_OF_2 ∧ D_BITS = 64 * D_NWORDS_FIELD ∧
    D_FP_ENCODED_BYTES = 8 * D_NWORDS_FIELD ∧ D_FP2_ENCODED_BYTES = 2 * D_FP_ENCODED_BYTES ∧
    D_POWER_OF_2 ≤ 8 * D_TORSION_2POWER_BYTES ∧ D_POWER_OF_2 < 64 * D_NWORDS_ORDER := by decide +kernel

/-- every row `i` of the 4-isogeny strategy table is a valid strategy for the ⌊(f-i)/2⌋ 4-isogeny steps of a chain of length f-i -/
theorem L3_STRATEGY4_rows : rowsValid (fun i => (D_POWER_OF_2 - i) / 2) STRATEGY4_cols STRATEGY4 = true := by decide +kernel
/-- every row `i` of the dimension-2 strategy table is a valid strategy for a (2,2)-chain of length f-i -/
theorem L3_strategies_rows : rowsValid (fun i => D_POWER_OF_2 - i) strategies_cols strategies = true := by decide +kernel
/-- the tables have exactly as many rows as lengths the code can ask for, and no row needs more columns than declared -/
theorem L3_table_shapes : STRATEGY4.length = strategies.length ∧ STRATEGY4.length ≤ D_POWER_OF_2 ∧
    STRATEGY4_cols = D_POWER_OF_2 / 2 ∧ strategies_cols + 1 = D_POWER_OF_2 := by decide +kernel

/-- ring relations of the endomorphism action on E0[2^f] (generators 1, i, (i+j)/2, (1+k)/2 of O0) -/
theorem L3_action_relations :
    let N : Int := 2 ^ D_POWER_OF_2
    Mat2.wellShaped W64.ACTION_I && Mat2.wellShaped W64.ACTION_J && Mat2.wellShaped W64.ACTION_K &&
    Mat2.wellShaped W64.ACTION_GEN2 && Mat2.wellShaped W64.ACTION_GEN3 && Mat2.wellShaped W64.ACTION_GEN4 &&
    Mat2.eqMod N (Mat2.mul W64.ACTION_I W64.ACTION_I) (Mat2.scalar (-1)) &&
    Mat2.eqMod N (Mat2.mul W64.ACTION_J W64.ACTION_J) (Mat2.scalar (-(FP_p : Int))) &&
    Mat2.eqMod N (Mat2.mul W64.ACTION_I W64.ACTION_J) W64.ACTION_K &&
    Mat2.eqMod N (Mat2.mul W64.ACTION_J W64.ACTION_I) (Mat2.smul (-1) W64.ACTION_K) &&
    Mat2.eqMod N W64.ACTION_GEN2 W64.ACTION_I &&
    Mat2.eqMod N (Mat2.smul 2 W64.ACTION_GEN3) (Mat2.add W64.ACTION_I W64.ACTION_J) &&
    Mat2.eqMod N (Mat2.smul 2 W64.ACTION_GEN4) (Mat2.add (Mat2.scalar 1) W64.ACTION_K) = true := by decide +kernel
/-- determinant = reduced norm (mod 2^f): n(i)=1, n(j)=p, n(k)=p, n((i+j)/2)=(1+p)/4, n((1+k)/2)=(1+p)/4 -/
theorem L3_action_dets :
    let N : Int := 2 ^ D_POWER_OF_2
    (Mat2.det W64.ACTION_I - 1) % N = 0 ∧ (Mat2.det W64.ACTION_J - FP_p) % N = 0 ∧ (Mat2.det W64.ACTION_K - FP_p) % N = 0 ∧
    (Mat2.det W64.ACTION_GEN3 - ((FP_p : Int) + 1) / 4) % N = 0 ∧ (Mat2.det W64.ACTION_GEN4 - ((FP_p : Int) + 1) / 4) % N = 0 := by decide +kernel

/-- non-vacuity / lifting: row 0 really is a strategy in the inductive sense, hence drives the machine -/
example : ∃ s pad, Strat (D_POWER_OF_2 - 0) s ∧ strategies[0]! = s ++ pad :=
  let ⟨s, pad, h1, h2, _, _⟩ := rowsValid_sound L3_strategies_rows 0 (by decide +kernel)
  ⟨s, pad, h1, by rw [← h2]; rfl⟩

/-- the base curve is y² = x³ + x: (A : C) = (0 : c), c ≠ 0 -/
theorem L3_curve_E0 : Fp2N.isZero FP_p W64.CURVE_E0.1 = true ∧ Fp2N.isZero FP_p W64.CURVE_E0.2 = false := by decide +kernel
/-- the precomputed 2^f-torsion basis of E0: P, Q (and the stored third point) have exact order 2^f under the
    verified doubling formula, and [2^(f-1)]P ≠ [2^(f-1)]Q, so P and Q generate E0[2^f] -/
theorem L3_basis_even_orders :
    W64.BASIS_EVEN.length = 3 ∧
    W64.BASIS_EVEN.all (fun P => Fp2N.exactOrder2f FP_p W64.CURVE_E0.1 W64.CURVE_E0.2 D_POWER_OF_2 P) = true ∧
    Fp2N.projEq FP_p (Fp2N.xDBLiter FP_p W64.CURVE_E0.1 W64.CURVE_E0.2 (D_POWER_OF_2 - 1) (W64.BASIS_EVEN[0]!))
                     (Fp2N.xDBLiter FP_p W64.CURVE_E0.1 W64.CURVE_E0.2 (D_POWER_OF_2 - 1) (W64.BASIS_EVEN[1]!)) = false := by
  decide +kernel
/-- the 20 table entries used as x-coordinates of points not above (0,0) are non-squares in GF(p²) -/
theorem L3_nqr_table : W64.NQR_TABLE.length = 20 ∧ W64.NQR_TABLE.all (fun x => !Fp2N.isSquare FP_p x) = true := by decide +kernel
/-- the 20 entries z used for points above (0,0): z is a square and z − 1 is not (entries and 1 in Montgomery form) -/
theorem L3_z_nqr_table : W64.Z_NQR_TABLE.length = 20 ∧
    W64.Z_NQR_TABLE.all (fun z => Fp2N.isSquare FP_p z && !Fp2N.isSquare FP_p (Fp2N.sub FP_p z (FP_ONE, 0))) = true := by decide +kernel
end L3

/-! ## level 5 -/
section L5
open SqiGen.L5

theorem L5_p_plus_one : FP_p + 1 = p_cofactor_for_2f * 2 ^ D_POWER_OF_2 := by decide +kernel
theorem L5_p_mod4 : FP_p % 4 = 3 := by decide +kernel
theorem L5_p_limbs : FP_p_limbs.length = D_NWORDS_FIELD ∧ FP_p_limbs.all (· < 2 ^ 64) = true := by decide +kernel
theorem L5_p_fits : FP_p < 2 ^ (64 * D_NWORDS_FIELD) ∧ 2 ^ (64 * D_NWORDS_FIELD - 8) ≤ 2 * FP_p := by decide +kernel
theorem L5_one_is_R : FP_ONE = 2 ^ (64 * D_NWORDS_FIELD) % FP_p ∧ FP_ZERO = 0 := by decide +kernel
theorem L5_TWOpF : TWOpF = 2 ^ D_POWER_OF_2 ∧ 2 * TWOpFm1 = TWOpF ∧ TWOpF_limbs.length = D_NWORDS_ORDER := by decide +kernel
theorem L5_torsion_consts : W64.TORSION_PLUS_EVEN_POWER = D_POWER_OF_2 ∧ W64.CHARACTERISTIC = (FP_p : Int) ∧
    W64.TORSION_PLUS_2POWER = (2 : Int) ^ D_POWER_OF_2 ∧ W64.DEGREE_CHALLENGE = (2 : Int) ^ D_POWER_OF_2 ∧
    W64.QUATALG_PINFTY_p = (FP_p : Int) ∧
    W64.QUATALG_PINFTY_gram = [[1, 0, 0, 0], [0, 1, 0, 0], [0, 0, (FP_p : Int), 0], [0, 0, 0, (FP_p : Int)]] := by decide +kernel
theorem L5_p_minus_one : (FP_p - 1) % (W64.TORSION_ODD_MINUS.toNat) = 0 ∧ (FP_p + 1) % (W64.TORSION_ODD_PLUS.toNat) = 0 ∧
    W64.TORSION_ODD = W64.TORSION_ODD_PLUS * W64.TORSION_ODD_MINUS := by decide +kernel
theorem L5_widths_agree : WIDTH16_all = WIDTH64_all ∧ WIDTH32_all = WIDTH64_all := by decide +kernel
theorem L5_sizes : D_SQIsign2D_response_length + 2 ≤ D_POWER_OF_2 ∧ D_BITS = 64 * D_NWORDS_FIELD ∧
    D_FP_ENCODED_BYTES = 8 * D_NWORDS_FIELD ∧ D_FP2_ENCODED_BYTES = 2 * D_FP_ENCODED_BYTES ∧
    D_POWER_OF_2 ≤ 8 * D_TORSION_2POWER_BYTES ∧ D_POWER_OF_2 < 64 * D_NWORDS_ORDER := by decide +kernel

/-- every row `i` of the 4-isogeny strategy table is a valid strategy for the ⌊(f-i)/2⌋ 4-isogeny steps of a chain of length f-i -/
theorem L5_STRATEGY4_rows : rowsValid (fun i => (D_POWER_OF_2 - i) / 2) STRATEGY4_cols STRATEGY4 = true := by decide +kernel
/-- every row `i` of the dimension-2 strategy table is a valid strategy for a (2,2)-chain of length f-i -/
theorem L5_strategies_rows : rowsValid (fun i => D_POWER_OF_2 - i) strategies_cols strategies = true := by decide +kernel
/-- the tables have exactly as many rows as lengths the code can ask for, and no row needs more columns than declared -/
theorem L5_table_shapes : STRATEGY4.length = strategies.length ∧ STRATEGY4.length ≤ D_POWER_OF_2 ∧
    STRATEGY4_cols = D_POWER_OF_2 / 2 ∧ strategies_cols + 1 = D_POWER_OF_2 := by decide +kernel

/-- ring relations of the endomorphism action on E0[2^f] (generators 1, i, (i+j)/2, (1+k)/2 of O0) -/
theorem L5_action_relations :
    let N : Int := 2 ^ D_POWER_OF_2
    Mat2.wellShaped W64.ACTION_I && Mat2.wellShaped W64.ACTION_J && Mat2.wellShaped W64.ACTION_K &&
    Mat2.wellShaped W64.ACTION_GEN2 && Mat2.wellShaped W64.ACTION_GEN3 && Mat2.wellShaped W64.ACTION_GEN4 &&
    Mat2.eqMod N (Mat2.mul W64.ACTION_I W64.ACTION_I) (Mat2.scalar (-1)) &&
    Mat2.eqMod N (Mat2.mul W64.ACTION_J W64.ACTION_J) (Mat2.scalar (-(FP_p : Int))) &&
    Mat2.eqMod N (Mat2.mul W64.ACTION_I W64.ACTION_J) W64.ACTION_K &&
    Mat2.eqMod N (Mat2.mul W64.ACTION_J W64.ACTION_I) (Mat2.smul (-1) W64.ACTION_K) &&
    Mat2.eqMod N W64.ACTION_GEN2 W64.ACTION_I &&
    Mat2.eqMod N (Mat2.smul 2 W64.ACTION_GEN3) (Mat2.add W64.ACTION_I W64.ACTION_J) &&
    Mat2.eqMod N (Mat2.smul 2 W64.ACTION_GEN4) (Mat2.add (Mat2.scalar 1) W64.ACTION_K) = true := by decide +kernel
/-- determinant = reduced norm (mod 2^f): n(i)=1, n(j)=p, n(k)=p, n((i+j)/2)=(1+p)/4, n((1+k)/2)=(1+p)/4 -/
theorem L5_action_dets :
    let N : Int := 2 ^ D_POWER_OF_2
    (Mat2.det W64.ACTION_I - 1) % N = 0 ∧ (Mat2.det W64.ACTION_J - FP_p) % N = 0 ∧ (Mat2.det W64.ACTION_K - FP_p) % N = 0 ∧
    (Mat2.det W64.ACTION_GEN3 - ((FP_p : Int) + 1) / 4) % N = 0 ∧ (Mat2.det W64.ACTION_GEN4 - ((FP_p : Int) + 1) / 4) % N = 0 := by decide +kernel

/-- non-vacuity / lifting: row 0 really is a strategy in the inductive sense, hence drives the machine -/
example : ∃ s pad, Strat (D_POWER_OF_2 - 0) s ∧ strategies[0]! = s ++ pad :=
  let ⟨s, pad, h1, h2, _, _⟩ := rowsValid_sound L5_strategies_rows 0 (by decide +kernel)
  ⟨s, pad, h1, by rw [← h2]; rfl⟩

/-- the base curve is y² = x³ + x: (A : C) = (0 : c), c ≠ 0 -/
theorem L5_curve_E0 : Fp2N.isZero FP_p W64.CURVE_E0.1 = true ∧ Fp2N.isZero FP_p W64.CURVE_E0.2 = false := by decide +kernel
/-- the precomputed 2^f-torsion basis of E0: P, Q (and the stored third point) have exact order 2^f under the
    verified doubling formula, and [2^(f-1)]P ≠ [2^(f-1)]Q, so P and Q generate E0[2^f] -/
theorem L5_basis_even_orders :
    W64.BASIS_EVEN.length = 3 ∧
    W64.BASIS_EVEN.all (fun P => Fp2N.exactOrder2f FP_p W64.CURVE_E0.1 W64.CURVE_E0.2 D_POWER_OF_2 P) = true ∧
    Fp2N.projEq FP_p (Fp2N.xDBLiter FP_p W64.CURVE_E0.1 W64.CURVE_E0.2 (D_POWER_OF_2 - 1) (W64.BASIS_EVEN[0]!))
                     (Fp2N.xDBLiter FP_p W64.CURVE_E0.1 W64.CURVE_E0.2 (D_POWER_OF_2 - 1) (W64.BASIS_EVEN[1]!)) = false := by
  decide +kernel
/-- the 20 table entries used as x-coordinates of points not above (0,0) are non-squares in GF(p²) -/
theorem L5_nqr_table : W64.NQR_TABLE.length = 20 ∧ W64.NQR_TABLE.all (fun x => !Fp2N.isSquare FP_p x) = true := by decide +kernel
/-- the 20 entries z used for points above (0,0): z is a square and z − 1 is not (entries and 1 in Montgomery form) -/
theorem L5_z_nqr_table : W64.Z_NQR_TABLE.length = 20 ∧
    W64.Z_NQR_TABLE.all (fun z => Fp2N.isSquare FP_p z && !Fp2N.isSquare FP_p (Fp2N.sub FP_p z (FP_ONE, 0))) = true := by decide +kernel
end L5
/-! ## the characteristics are prime (N+1 certificate checked by the kernel, see SqiProofs.Primality) -/
theorem L1_characteristic_prime : Nat.Prime SqiGen.L1.FP_p := SqiProofs.Primes.L1_prime
theorem L3_characteristic_prime : Nat.Prime SqiGen.L3.FP_p := SqiProofs.Primes.L3_prime
theorem L5_characteristic_prime : Nat.Prime SqiGen.L5.FP_p := SqiProofs.Primes.L5_prime

end SqiProps.C18

/- shared definitions for the C18 table theorems -/
import SqiModel.Strategy
import SqiModel.Mat2
import SqiModel.Fp2N

namespace SqiProps.C18
open SqiModel

/-- all rows i of a table are valid zero-padded strategies for `leaves i` leaves, and have exactly `cols` entries -/
def rowsValid (leaves : Nat → Nat) (cols : Nat) (table : List (List Nat)) : Bool :=
  (table.zipIdx).all fun (row, i) => checkStrat (leaves i) row && row.length == cols

/-- list the indices of bad rows (used by the violation search through the driver / #eval) -/
def badRows (leaves : Nat → Nat) (cols : Nat) (table : List (List Nat)) : List Nat :=
  (table.zipIdx).filterMap fun (row, i) => if checkStrat (leaves i) row && row.length == cols then none else some i

theorem rowsValid_sound {leaves : Nat → Nat} {cols : Nat} {table : List (List Nat)}
    (h : rowsValid leaves cols table = true) (i : Nat) (hi : i < table.length) :
    ∃ s pad, Strat (leaves i) s ∧ table[i] = s ++ pad ∧ (∀ x ∈ pad, x = 0) ∧ s.length = leaves i - 1 := by
  unfold rowsValid at h
  rw [List.all_eq_true] at h
  have hm : (table[i], i) ∈ table.zipIdx := by
    rw [List.mem_zipIdx_iff_getElem?]; simp [hi]
  have := h _ hm
  simp only [Bool.and_eq_true] at this
  exact checkStrat_sound _ _ this.1

end SqiProps.C18

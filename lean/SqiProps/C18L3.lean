/- C18, level 3: every fact is about SqiGen.Tables3 (regenerated from /repo each run), decided by the kernel. -/
import SqiProps.C18Common
import SqiGen.Tables3

set_option maxRecDepth 100000

namespace SqiProps.C18
open SqiModel

/-! ## level 3 -/
section L3
open SqiGen.L3

theorem L3_p_plus_one : FP_p + 1 = p_cofactor_for_2f * 2 ^ D_POWER_OF_2 := by decide +kernel
theorem L3_p_mod4 : FP_p % 4 = 3 := by decide +kernel
theorem L3_p_limbs : FP_p_limbs.length = D_NWORDS_FIELD ∧ FP_p_limbs.all (· < 2 ^ 64) = true := by decide +kernel
theorem L3_p_fits : FP_p < 2 ^ (64 * D_NWORDS_FIELD) ∧ 2 ^ (64 * D_NWORDS_FIELD - 8) ≤ 2 * FP_p := by decide +kernel
theorem L3_one_is_R : FP_ONE = 2 ^ (64 * D_NWORDS_FIELD) % FP_p ∧ FP_ZERO = 0 := by decide +kernel
theorem L3_TWOpF : TWOpF = 2 ^ D_POWER_OF_2 ∧ 2 * TWOpFm1 = TWOpF ∧ TWOpF_limbs.length = D_NWORDS_ORDER := by decide +kernel
theorem L3_torsion_consts : W64.TORSION_PLUS_EVEN_POWER = D_POWER_OF_2 ∧ W64.CHARACTERISTIC = (FP_p : Int) ∧
    W64.TORSION_PLUS_2POWER = (2 : Int) ^ D_POWER_OF_2 ∧ W64.DEGREE_CHALLENGE = (2 : Int) ^ D_POWER_OF_2 ∧
    W64.QUATALG_PINFTY_p = (FP_p : Int) ∧
    W64.QUATALG_PINFTY_gram = [[1, 0, 0, 0], [0, 1, 0, 0], [0, 0, (FP_p : Int), 0], [0, 0, 0, (FP_p : Int)]] := by decide +kernel
theorem L3_p_minus_one : (FP_p - 1) % (W64.TORSION_ODD_MINUS.toNat) = 0 ∧ (FP_p + 1) % (W64.TORSION_ODD_PLUS.toNat) = 0 ∧
    W64.TORSION_ODD = W64.TORSION_ODD_PLUS * W64.TORSION_ODD_MINUS := by decide +kernel
theorem L3_widths_agree : WIDTH16_all = WIDTH64_all ∧ WIDTH32_all = WIDTH64_all := by decide +kernel
theorem L3_sizes : D_SQIsign2D_response_length + 2 ≤ D_POWER_OF_2 ∧ D_BITS = 64 * D_NWORDS_FIELD ∧
    D_FP_ENCODED_BYTES = 8 * D_NWORDS_FIELD ∧ D_FP2_ENCODED_BYTES = 2 * D_FP_ENCODED_BYTES ∧
    D_POWER_OF_2 ≤ 8 * D_TORSION_2POWER_BYTES ∧ D_POWER_OF_2 < 64 * D_NWORDS_ORDER := by decide +kernel

/-- every row `i` of the 4-isogeny strategy table is a valid strategy for the ⌊(f-i)/2⌋ 4-isogeny steps of a chain of length f-i -/
theorem L3_STRATEGY4_rows : rowsValid (fun i => (D_POWER_OF_2 - i) / 2) STRATEGY4_cols STRATEGY4 = true := by decide +kernel
/-- every row `i` of the dimension-2 strategy table is a valid strategy for a (2,2)-chain of length f-i -/
theorem L3_strategies_rows : rowsValid (fun i => D_POWER_OF_2 - i) strategies_cols strategies = true := by decide +kernel
/-- the tables have exactly as many rows as lengths the code can ask for, and no row needs more columns than declared -/
theorem L3_table_shapes : STRATEGY4.length = strategies.length ∧ STRATEGY4.length ≤ D_POWER_OF_2 ∧
    STRATEGY4_cols = D_POWER_OF_2 / 2 ∧ strategies_cols + 1 = D_POWER_OF_2 := by decide +kernel

/-- ring relations of the endomorphism action on E0[2^f] (generators 1, i, (i+j)/2, (1+k)/2 of O0) -/
theorem L3_action_relations :
    let N : Int := 2 ^ D_POWER_OF_2
    Mat2.wellShaped W64.ACTION_I && Mat2.wellShaped W64.ACTION_J && Mat2.wellShaped W64.ACTION_K &&
    Mat2.wellShaped W64.ACTION_GEN2 && Mat2.wellShaped W64.ACTION_GEN3 && Mat2.wellShaped W64.ACTION_GEN4 &&
    Mat2.eqMod N (Mat2.mul W64.ACTION_I W64.ACTION_I) (Mat2.scalar (-1)) &&
    Mat2.eqMod N (Mat2.mul W64.ACTION_J W64.ACTION_J) (Mat2.scalar (-(FP_p : Int))) &&
    Mat2.eqMod N (Mat2.mul W64.ACTION_I W64.ACTION_J) W64.ACTION_K &&
    Mat2.eqMod N (Mat2.mul W64.ACTION_J W64.ACTION_I) (Mat2.smul (-1) W64.ACTION_K) &&
    Mat2.eqMod N W64.ACTION_GEN2 W64.ACTION_I &&
    Mat2.eqMod N (Mat2.smul 2 W64.ACTION_GEN3) (Mat2.add W64.ACTION_I W64.ACTION_J) &&
    Mat2.eqMod N (Mat2.smul 2 W64.ACTION_GEN4) (Mat2.add (Mat2.scalar 1) W64.ACTION_K) = true := by decide +kernel
/-- determinant = reduced norm (mod 2^f): n(i)=1, n(j)=p, n(k)=p, n((i+j)/2)=(1+p)/4, n((1+k)/2)=(1+p)/4 -/
theorem L3_action_dets :
    let N : Int := 2 ^ D_POWER_OF_2
    (Mat2.det W64.ACTION_I - 1) % N = 0 ∧ (Mat2.det W64.ACTION_J - FP_p) % N = 0 ∧ (Mat2.det W64.ACTION_K - FP_p) % N = 0 ∧
    (Mat2.det W64.ACTION_GEN3 - ((FP_p : Int) + 1) / 4) % N = 0 ∧ (Mat2.det W64.ACTION_GEN4 - ((FP_p : Int) + 1) / 4) % N = 0 := by decide +kernel

/-- non-vacuity / lifting: row 0 really is a strategy in the inductive sense, hence drives the machine -/
example : ∃ s pad, Strat (D_POWER_OF_2 - 0) s ∧ strategies[0]! = s ++ pad :=
  let ⟨s, pad, h1, h2, _, _⟩ := rowsValid_sound L3_strategies_rows 0 (by decide +kernel)
  ⟨s, pad, h1, by rw [← h2]; rfl⟩

/-- the base curve is y² = x³ + x: (A : C) = (0 : c), c ≠ 0 -/
theorem L3_curve_E0 : Fp2N.isZero FP_p W64.CURVE_E0.1 = true ∧ Fp2N.isZero FP_p W64.CURVE_E0.2 = false := by decide +kernel
/-- the precomputed 2^f-torsion basis of E0: P, Q (and the stored third point) have exact order 2^f under the
    verified doubling formula, and [2^(f-1)]P ≠ [2^(f-1)]Q, so P and Q generate E0[2^f] -/
theorem L3_basis_even_orders :
    W64.BASIS_EVEN.length = 3 ∧
    W64.BASIS_EVEN.all (fun P => Fp2N.exactOrder2f FP_p W64.CURVE_E0.1 W64.CURVE_E0.2 D_POWER_OF_2 P) = true ∧
    Fp2N.projEq FP_p (Fp2N.xDBLiter FP_p W64.CURVE_E0.1 W64.CURVE_E0.2 (D_POWER_OF_2 - 1) (W64.BASIS_EVEN[0]!))
                     (Fp2N.xDBLiter FP_p W64.CURVE_E0.1 W64.CURVE_E0.2 (D_POWER_OF_2 - 1) (W64.BASIS_EVEN[1]!)) = false := by
  decide +kernel
/-- the 20 table entries used as x-coordinates of points not above (0,0) are non-squares in GF(p²) -/
theorem L3_nqr_table : W64.NQR_TABLE.length = 20 ∧ W64.NQR_TABLE.all (fun x => !Fp2N.isSquare FP_p x) = true := by decide +kernel
/-- the 20 entries z used for points above (0,0): z is a square and z − 1 is not (entries and 1 in Montgomery form) -/
theorem L3_z_nqr_table : W64.Z_NQR_TABLE.length = 20 ∧
    W64.Z_NQR_TABLE.all (fun z => Fp2N.isSquare FP_p z && !Fp2N.isSquare FP_p (Fp2N.sub FP_p z (FP_ONE, 0))) = true := by decide +kernel

/-- agreement with the geometric maps on E0[2^f] (x-only, column convention θ(P) = m₀₀P + m₁₀Q): ACTION_I is the action of
    ι : (x,y) ↦ (−x, iy), ACTION_J of the p-power Frobenius π (x ↦ x̄), ACTION_K of ιπ — checked on P, Q and P−Q
    (the third fixes the relative sign of the columns; the global sign is inherent to x-only points) -/
theorem L3_action_geometric :
    Fp2N.actionAgrees FP_p W64.CURVE_E0.1 W64.CURVE_E0.2 D_POWER_OF_2 W64.ACTION_I (Fp2N.negX FP_p) W64.BASIS_EVEN = true ∧
    Fp2N.actionAgrees FP_p W64.CURVE_E0.1 W64.CURVE_E0.2 D_POWER_OF_2 W64.ACTION_J (Fp2N.conjX FP_p) W64.BASIS_EVEN = true ∧
    Fp2N.actionAgrees FP_p W64.CURVE_E0.1 W64.CURVE_E0.2 D_POWER_OF_2 W64.ACTION_K
      (fun P => Fp2N.negX FP_p (Fp2N.conjX FP_p P)) W64.BASIS_EVEN = true := by decide +kernel
end L3


end SqiProps.C18

/-
C19 — clean resource behaviour: deterministic, leak-free, no hidden state.

Model: SqiModel.Ledger (API operations as a state machine over the multiset of live heap blocks, the DRBG state, the
object values and the audited globals), SqiGen.Globals (every non-const object with static storage duration and every
call of a process-global-state routine in the library sources, regenerated from the C on every run).

  * `live_bounded_repaired`      (leaky = false) for EVERY history: live bytes ≤ initial + bytes of the objects the caller
                                 initialised — independent of the number of keygen/sign/verify calls;
  * `theta_bytes_current`        (leaky = true, the pinned code) exact formula: leaked bytes = Σ over operations of Σ over their
                                 chains (n−1)·stepBytes;
  * `live_linear_growth_current`, `live_unbounded_current`   REFUTATION of boundedness on the pinned code: k signatures leak
                                 k·(n−1)·stepBytes; for every bound c there is a history without a single `init` exceeding it
                                 (replayed by measurement in tools/props/c19.py; finding, DESIGN §6 item 7);
  * `outputs_indep_of_ledger_and_hidden`   outputs are a function of (DRBG state, object values, operation list) only: they do not
                                 depend on the live ledger, on the audited globals, on the allocation behaviour;
  * `reseed_sign_frame`, `reseed_keygen_frame`, `verify_frame`   an operation run right after a reseed depends only on (seed,
                                 arguments, values of the objects it names): any interleaving with operations on other keys
                                 gives the same output;
  * `globals_are_audited`        the generated list of static objects / global-state calls equals the audited allow-list below —
                                 a new hidden static breaks this theorem.
PARTIAL: uninitialised reads / UB are runtime observations (ASan/UBSan/valgrind runs of the harness), outside any theorem;
the abstract semantics `Sem` is not refined to the arithmetic.
-/
import SqiModel.Ledger
import SqiGen.Globals
import SqiGen.ReturnPaths

namespace SqiProps.C19
open SqiModel.Ledger

variable {D V O H : Type}

/-! ## ledger lemmas -/
theorem thetaBytes_append (a b : List Block) : thetaBytes (a ++ b) = thetaBytes a + thetaBytes b := by
  unfold thetaBytes; simp [List.filter_append, List.map_append, List.sum_append]

theorem bytes_append (a b : List Block) : bytes (a ++ b) = bytes a + bytes b := by
  unfold bytes; simp [List.map_append, List.sum_append]

theorem thetaBytes_chainBlocks (P : Params) (c : List Nat) : thetaBytes (chainBlocks P c) = bytes (chainBlocks P c) := by
  unfold thetaBytes bytes chainBlocks
  induction c with
  | nil => rfl
  | cons n t ih => simp only [List.map_cons, List.filter_cons, decide_true, if_true, List.sum_cons]; omega

theorem thetaBytes_cons_obj (o : Obj) (n : Nat) (l : List Block) : thetaBytes (⟨Site.obj o, n⟩ :: l) = thetaBytes l := by
  unfold thetaBytes; simp [List.filter_cons]

theorem thetaBytes_removeOne_obj (o : Obj) (l : List Block) : thetaBytes (removeOne (Site.obj o) l) = thetaBytes l := by
  induction l with
  | nil => rfl
  | cons x xs ih =>
    unfold removeOne
    by_cases h : x.site = Site.obj o
    · simp only [h, if_true]
      unfold thetaBytes; simp [List.filter_cons, h]
    · simp only [h, if_false]
      unfold thetaBytes at ih ⊢
      by_cases ht : x.site = Site.thetaSteps <;> simp [List.filter_cons, ht] <;> omega

theorem bytes_removeOne_le (b : Site) (l : List Block) : bytes (removeOne b l) ≤ bytes l := by
  induction l with
  | nil => exact Nat.le_refl _
  | cons x xs ih =>
    unfold removeOne
    by_cases h : x.site = b
    · simp only [h, if_true]; unfold bytes; simp
    · simp only [h, if_false]; unfold bytes at ih ⊢; simp only [List.map_cons, List.sum_cons]; omega

/-- bytes of objects initialised by a history -/
def initBytes (P : Params) : List Op → Nat
  | [] => 0
  | .init o :: ops => P.objBytes o + initBytes P ops
  | _ :: ops => initBytes P ops

def leakSum (P : Params) (ops : List Op) : Nat := (ops.map (opLeak P)).sum

theorem step_thetaBytes (P : Params) (S : Sem D V O) (leaky : Bool) (st : State D V H) (op : Op) :
    thetaBytes (step P S leaky st op).1.live = thetaBytes st.live + (if leaky then opLeak P op else 0) := by
  cases op with
  | reseed s => simp [step, opLeak]
  | init o => simp [step, opLeak, thetaBytes_cons_obj]
  | finalize o => simp [step, opLeak, thetaBytes_removeOne_obj]
  | keygen k c => cases leaky <;> simp [step, opLeak, thetaBytes_append, thetaBytes_chainBlocks, Nat.add_comm] <;> rfl
  | sign k s m c => cases leaky <;> simp [step, opLeak, thetaBytes_append, thetaBytes_chainBlocks, Nat.add_comm] <;> rfl
  | verify k s m c => cases leaky <;> simp [step, opLeak, thetaBytes_append, thetaBytes_chainBlocks, Nat.add_comm] <;> rfl

/-- exact amount of `theta_chain_t.steps` memory alive after a history -/
theorem theta_bytes_run (P : Params) (S : Sem D V O) (leaky : Bool) (ops : List Op) (st : State D V H) :
    thetaBytes (run P S leaky st ops).1.live = thetaBytes st.live + (if leaky then leakSum P ops else 0) := by
  induction ops generalizing st with
  | nil => cases leaky <;> simp [run, leakSum]
  | cons op ops ih =>
    simp only [run]
    rw [ih, step_thetaBytes]
    cases leaky <;> simp [leakSum, Nat.add_assoc]

theorem theta_bytes_current (P : Params) (S : Sem D V O) (ops : List Op) (st : State D V H) :
    thetaBytes (run P S true st ops).1.live = thetaBytes st.live + leakSum P ops := by
  simpa using theta_bytes_run P S true ops st

theorem step_bytes_repaired (P : Params) (S : Sem D V O) (st : State D V H) (op : Op) :
    bytes (step P S false st op).1.live ≤ bytes st.live + initBytes P [op] := by
  cases op with
  | reseed s => simp [step, initBytes]
  | init o => simp [step, initBytes, bytes]; omega
  | finalize o => simp only [step, initBytes]; exact Nat.le_trans (bytes_removeOne_le _ _) (Nat.le_add_right _ _)
  | keygen k c => simp [step, initBytes]
  | sign k s m c => simp [step, initBytes]
  | verify k s m c => simp [step, initBytes]

theorem initBytes_cons (P : Params) (op : Op) (ops : List Op) : initBytes P (op :: ops) = initBytes P [op] + initBytes P ops := by
  cases op <;> simp [initBytes]

/-- **live_bounded** for the repaired allocation behaviour, every history: memory held is bounded by the initial memory plus
    the objects the caller initialised — whatever the number of keygen / sign / verify operations (O(1) in n) -/
theorem live_bounded_repaired (P : Params) (S : Sem D V O) (ops : List Op) (st : State D V H) :
    bytes (run P S false st ops).1.live ≤ bytes st.live + initBytes P ops := by
  induction ops generalizing st with
  | nil => simp [run, initBytes]
  | cons op ops ih =>
    simp only [run]
    have h1 := ih (step P S false st op).1
    have h2 := step_bytes_repaired P S st op
    rw [initBytes_cons]
    omega

theorem leakSum_replicate_sign (P : Params) (k ks s m n : Nat) :
    leakSum P (List.replicate k (Op.sign ks s m [n])) = k * ((n - 1) * P.stepBytes) := by
  induction k with
  | zero => simp [leakSum]
  | succ k ih =>
    simp only [leakSum, List.replicate_succ, List.map_cons, List.sum_cons] at ih ⊢
    rw [ih]; simp [opLeak, bytes, chainBlocks, Nat.succ_mul, Nat.add_comm]

/-- linear growth on the pinned code: k signatures, each computing one chain of length n, leave k·(n−1)·stepBytes live -/
theorem live_linear_growth_current (P : Params) (S : Sem D V O) (st : State D V H) (k ks s m n : Nat) :
    thetaBytes (run P S true st (List.replicate k (Op.sign ks s m [n]))).1.live
      = thetaBytes st.live + k * ((n - 1) * P.stepBytes) := by
  rw [theta_bytes_current, leakSum_replicate_sign]

theorem thetaBytes_le_bytes (l : List Block) : thetaBytes l ≤ bytes l := by
  induction l with
  | nil => exact Nat.le_refl _
  | cons x xs ih =>
    unfold thetaBytes bytes at ih ⊢
    by_cases h : x.site = Site.thetaSteps <;> simp [List.filter_cons, h] <;> omega

/-- REFUTATION of `live_bounded` for the pinned code: for every bound c there is a history that initialises nothing
    (so it is trivially balanced) and ends with more than c live bytes -/
theorem live_unbounded_current (P : Params) (S : Sem D V O) (st : State D V H) (hstep : 0 < P.stepBytes) (c : Nat) :
    ∃ ops, initBytes P ops = 0 ∧ c < bytes (run P S true st ops).1.live := by
  refine ⟨List.replicate (c + 1) (Op.sign 0 0 0 [2]), ?_, ?_⟩
  · have : ∀ k, initBytes P (List.replicate k (Op.sign 0 0 0 [2])) = 0 := by
      intro k; induction k with
      | zero => rfl
      | succ k ih => simp [List.replicate_succ, initBytes, ih]
    exact this _
  · have h := live_linear_growth_current P S st (c + 1) 0 0 0 2
    have h2 := thetaBytes_le_bytes (run P S true st (List.replicate (c + 1) (Op.sign 0 0 0 [2]))).1.live
    have : c + 1 ≤ (c + 1) * ((2 - 1) * P.stepBytes) := by
      have e : (2 - 1) * P.stepBytes = P.stepBytes := by omega
      rw [e]
      exact Nat.le_mul_of_pos_right _ hstep
    omega

/-- **live_bounded** for the CURRENT code (after the `theta_chain_finalize` repair the allocation behaviour of the library is the model's
    `leaky = false`: every chain releases its `steps` block before the operation returns — checked on every run by the heap ledger: no
    block allocated during keygen / sign / verify survives the call, at three levels and for the three protocol variants): for every
    history, live bytes ≤ initial + bytes of the objects the caller initialised. The linear-growth theorems above
    (`theta_bytes_current`, `live_linear_growth_current`, `live_unbounded_current`) describe the pinned code before the repair and are
    kept as history / as the model of a reverted fix. -/
theorem live_bounded (P : Params) (S : Sem D V O) (ops : List Op) (st : State D V H) :
    bytes (run P S false st ops).1.live ≤ bytes st.live + initBytes P ops :=
  live_bounded_repaired P S ops st

/-- in particular no `steps` memory is ever held between operations -/
theorem theta_bytes_zero (P : Params) (S : Sem D V O) (ops : List Op) (st : State D V H) (h : thetaBytes st.live = 0) :
    thetaBytes (run P S false st ops).1.live = 0 := by
  have := theta_bytes_run P S false ops st
  simpa [h] using this

/-! ## determinism / no hidden state -/

/-- outputs depend only on the DRBG state and the object values: not on the ledger, the audited globals, the parameters or
    the allocation behaviour -/
theorem outputs_indep_of_ledger_and_hidden {H' : Type} (P P' : Params) (S : Sem D V O) (l l' : Bool) (ops : List Op) :
    ∀ (st : State D V H) (st' : State D V H'), st.drbg = st'.drbg → st.val = st'.val →
      (run P S l st ops).2 = (run P' S l' st' ops).2 ∧
      (run P S l st ops).1.drbg = (run P' S l' st' ops).1.drbg ∧ (run P S l st ops).1.val = (run P' S l' st' ops).1.val := by
  induction ops with
  | nil => intro st st' h1 h2; exact ⟨rfl, h1, h2⟩
  | cons op ops ih =>
    intro st st' h1 h2
    have hs : (step P S l st op).2 = (step P' S l' st' op).2 ∧ (step P S l st op).1.drbg = (step P' S l' st' op).1.drbg ∧
        (step P S l st op).1.val = (step P' S l' st' op).1.val := by
      cases op <;> simp [step, h1, h2]
    obtain ⟨a, b, c⟩ := ih (step P S l st op).1 (step P' S l' st' op).1 hs.2.1 hs.2.2
    simp only [run]
    exact ⟨by rw [hs.1, a], b, c⟩

/-- a signature computed right after a reseed depends only on (seed, message, values of pk k and sk k) -/
theorem reseed_sign_frame (P : Params) (S : Sem D V O) (l l' : Bool) (st st' : State D V H) (seed k s m : Nat) (c c' : List Nat)
    (hpk : st.val (.pk k) = st'.val (.pk k)) (hsk : st.val (.sk k) = st'.val (.sk k)) :
    (run P S l st [Op.reseed seed, Op.sign k s m c]).2 = (run P S l' st' [Op.reseed seed, Op.sign k s m c']).2 := by
  simp [run, step, hpk, hsk]

theorem reseed_keygen_frame (P : Params) (S : Sem D V O) (l l' : Bool) (st st' : State D V H) (seed k : Nat) (c c' : List Nat) :
    (run P S l st [Op.reseed seed, Op.keygen k c]).2 = (run P S l' st' [Op.reseed seed, Op.keygen k c']).2 := by
  simp [run, step]

theorem verify_frame (P : Params) (S : Sem D V O) (l l' : Bool) (st st' : State D V H) (k s m : Nat) (c c' : List Nat)
    (hpk : st.val (.pk k) = st'.val (.pk k)) (hsig : st.val (.sig s) = st'.val (.sig s)) :
    (run P S l st [Op.verify k s m c]).2 = (run P S l' st' [Op.verify k s m c']).2 := by
  simp [run, step, hpk, hsig]

/-- operations on other keys do not change the values a later operation on key k reads -/
theorem other_key_preserves (P : Params) (S : Sem D V O) (l : Bool) (st : State D V H) (k k' s' m : Nat) (c : List Nat)
    (hk : k ≠ k') :
    (step P S l st (Op.keygen k' c)).1.val (.pk k) = st.val (.pk k) ∧ (step P S l st (Op.keygen k' c)).1.val (.sk k) = st.val (.sk k) ∧
    (step P S l st (Op.sign k' s' m c)).1.val (.pk k) = st.val (.pk k) ∧ (step P S l st (Op.sign k' s' m c)).1.val (.sk k) = st.val (.sk k) := by
  simp [step, setVal, hk]

/-- verification does not write to its inputs: the values of all objects and the DRBG state are unchanged by `verify` (the real code is
    tied by the harness: deep image of the signature / public-key objects before and after `protocols_verif`, and the same objects
    verified repeatedly, interleaved with another key, must give the same verdicts) -/
theorem verify_preserves_state (P : Params) (S : Sem D V O) (l : Bool) (st : State D V H) (k s m : Nat) (c : List Nat) :
    (step P S l st (Op.verify k s m c)).1.val = st.val ∧ (step P S l st (Op.verify k s m c)).1.drbg = st.drbg := by
  simp [step]

/-- hence any number of verifications, in any order, gives each time the verdict of the first one -/
theorem repeated_verify_same_verdict (P : Params) (S : Sem D V O) (l : Bool) (st : State D V H) (k s m : Nat) (c c' : List Nat)
    (others : List (Nat × Nat × Nat × List Nat)) :
    let vs := others.map fun o => Op.verify o.1 o.2.1 o.2.2.1 o.2.2.2
    (run P S l (run P S l st vs).1 [Op.verify k s m c']).2 = (run P S l st [Op.verify k s m c]).2 := by
  intro vs
  have hval : ∀ (ops : List (Nat × Nat × Nat × List Nat)) (st0 : State D V H),
      (run P S l st0 (ops.map fun o => Op.verify o.1 o.2.1 o.2.2.1 o.2.2.2)).1.val = st0.val := by
    intro ops
    induction ops with
    | nil => intro st0; rfl
    | cons o os ih => intro st0; simp only [List.map_cons, run]; rw [ih]; simp [step]
  have h := hval others st
  simp only [run, step]
  rw [show (run P S l st vs).1.val = st.val from h]

/-! ## every early return is balanced, except the audited ones (tie T, tools/translate/retpaths.py) -/

/-- audited unbalanced returns on the current tree (theta chains included: a local chain handed to `theta_chain_comput_*`,
    `fixed_degree_isogeny` or clapotis owns its `steps` block until `theta_chain_finalize`; the entry `sqisignhd commit 0 chain:F` is the
    failure return of `commit`, where `fixed_degree_isogeny` left the chain empty (steps = NULL): nothing to release; the other entries are each a genuine leak on a failure path; fixed_degree_isogeny, clapotis, norm_list_computation and is_good_norm were
    repaired by 00b2604 and are gone from the list; the heuristic / hd signers' `return 0` after a
    failed sample_response ("TODO when it fails, we don't finalize all the ibz") is not small) -/
def auditedUnbalancedReturns : List (String × String × Nat × String) := [
  ("src/sqisigndim2_heuristic/ref/sqisigndim2_heuristicx/sign.c", "protocols_sign", 0, "coeffs,degree_full_resp,degree_odd_resp,elem_tmp,lat_commit,lattice_content,lattice_hom_chall_to_com,lideal_aux,lideal_aux_com,lideal_chall_secret,lideal_chall_two,lideal_com_resp,lideal_commit,lideal_resp_two,lideal_tmp,mat,mat_Baux0_to_Baux_can,mat_Bchall_can_to_Bchall,pow_chall,remain,resp_quat,sig_mat_pk_can_to_B_pk,temp_norm,tmp,vec,vec_chall,vec_resp_two"),
  ("src/sqisignhd/ref/sqisignhdx/sign.c", "commit", 0, "chain:F"),
  ("src/sqisignhd/ref/sqisignhdx/sign.c", "protocols_sign", 0, "coeffs,degree_full_resp,degree_odd_resp,elem_tmp,lat_commit,lattice_content,lattice_hom_chall_to_com,lideal_chall_secret,lideal_chall_two,lideal_com_resp,lideal_commit,lideal_resp_two,lideal_tmp,mat,mat_Bchall_can_to_Bchall,mat_Bcom0_to_Bcom_can,pow_chall,remain,resp_quat,sig_mat_pk_can_to_B_pk,temp_norm,tmp,vec,vec_chall,vec_resp_two")
]

theorem return_paths_audited : SqiGen.ReturnPaths.unbalancedReturns = auditedUnbalancedReturns := by decide +kernel

/-! ## every static object of the sources is audited -/

/-- audited allow-list (reviewed by hand; reason for each entry in notes/C19.md):
    DRBG_ctx (seeded AES-CTR-DRBG state: the random tape), global_timer (written by tic(), read only by the timing printouts),
    K[83] (odd-degree Vélu kernel cache, not reached by the three protocols), memset_func / setui_fun (volatile function
    pointers, constant), the ec_params.h tables (non-const static arrays, never written) -/
def auditedStatics : List (String × String × String) := [
  ("src/common/generic/mem.c", "memset_func", "local-static"),
  ("src/common/generic/randombytes_ctrdrbg.c", "DRBG_ctx", "global"),
  ("src/common/generic/tools.c", "global_timer", "file-static"),
  ("src/ec/ref/ecx/kps.c", "K", "global"),
  ("src/intbig/ref/generic/intbig.c", "setui_fun", "local-static"),
  ("src/precomp/ref/lvl1/include/ec_params.h", "STRATEGY4", "file-static"),
  ("src/precomp/ref/lvl1/include/ec_params.h", "THREEpE", "file-static"),
  ("src/precomp/ref/lvl1/include/ec_params.h", "THREEpF", "file-static"),
  ("src/precomp/ref/lvl1/include/ec_params.h", "THREEpFdiv2", "file-static"),
  ("src/precomp/ref/lvl1/include/ec_params.h", "TWOpF", "file-static"),
  ("src/precomp/ref/lvl1/include/ec_params.h", "TWOpFm1", "file-static"),
  ("src/precomp/ref/lvl1/include/ec_params.h", "p_cofactor_for_2f", "file-static"),
  ("src/precomp/ref/lvl1/include/ec_params.h", "p_cofactor_for_3g", "file-static"),
  ("src/precomp/ref/lvl1/include/ec_params.h", "p_cofactor_for_6fg", "file-static"),
  ("src/precomp/ref/lvl1/include/ec_params.h", "p_plus_minus_bitlength", "file-static"),
  ("src/precomp/ref/lvl1/include/ec_params.h", "sizeI", "file-static"),
  ("src/precomp/ref/lvl1/include/ec_params.h", "sizeJ", "file-static"),
  ("src/precomp/ref/lvl1/include/ec_params.h", "sizeK", "file-static"),
  ("src/precomp/ref/lvl1/include/ec_params.h", "strategies", "file-static"),
  ("src/precomp/ref/lvl1/include/ec_params_backup.h", "STRATEGY4", "file-static"),
  ("src/precomp/ref/lvl1/include/ec_params_backup.h", "THREEpE", "file-static"),
  ("src/precomp/ref/lvl1/include/ec_params_backup.h", "THREEpF", "file-static"),
  ("src/precomp/ref/lvl1/include/ec_params_backup.h", "THREEpFdiv2", "file-static"),
  ("src/precomp/ref/lvl1/include/ec_params_backup.h", "TWOpF", "file-static"),
  ("src/precomp/ref/lvl1/include/ec_params_backup.h", "TWOpFm1", "file-static"),
  ("src/precomp/ref/lvl1/include/ec_params_backup.h", "p_cofactor_for_2f", "file-static"),
  ("src/precomp/ref/lvl1/include/ec_params_backup.h", "p_cofactor_for_3g", "file-static"),
  ("src/precomp/ref/lvl1/include/ec_params_backup.h", "p_cofactor_for_6fg", "file-static"),
  ("src/precomp/ref/lvl1/include/ec_params_backup.h", "p_plus_minus_bitlength", "file-static"),
  ("src/precomp/ref/lvl1/include/ec_params_backup.h", "sizeI", "file-static"),
  ("src/precomp/ref/lvl1/include/ec_params_backup.h", "sizeJ", "file-static"),
  ("src/precomp/ref/lvl1/include/ec_params_backup.h", "sizeK", "file-static"),
  ("src/precomp/ref/lvl1/include/ec_params_backup.h", "strategies", "file-static"),
  ("src/precomp/ref/lvl3/include/ec_params.h", "STRATEGY4", "file-static"),
  ("src/precomp/ref/lvl3/include/ec_params.h", "THREEpE", "file-static"),
  ("src/precomp/ref/lvl3/include/ec_params.h", "THREEpF", "file-static"),
  ("src/precomp/ref/lvl3/include/ec_params.h", "THREEpFdiv2", "file-static"),
  ("src/precomp/ref/lvl3/include/ec_params.h", "TWOpF", "file-static"),
  ("src/precomp/ref/lvl3/include/ec_params.h", "TWOpFm1", "file-static"),
  ("src/precomp/ref/lvl3/include/ec_params.h", "p_cofactor_for_2f", "file-static"),
  ("src/precomp/ref/lvl3/include/ec_params.h", "p_cofactor_for_3g", "file-static"),
  ("src/precomp/ref/lvl3/include/ec_params.h", "p_cofactor_for_6fg", "file-static"),
  ("src/precomp/ref/lvl3/include/ec_params.h", "p_plus_minus_bitlength", "file-static"),
  ("src/precomp/ref/lvl3/include/ec_params.h", "sizeI", "file-static"),
  ("src/precomp/ref/lvl3/include/ec_params.h", "sizeJ", "file-static"),
  ("src/precomp/ref/lvl3/include/ec_params.h", "sizeK", "file-static"),
  ("src/precomp/ref/lvl3/include/ec_params.h", "strategies", "file-static"),
  ("src/precomp/ref/lvl5/include/ec_params.h", "STRATEGY4", "file-static"),
  ("src/precomp/ref/lvl5/include/ec_params.h", "THREEpE", "file-static"),
  ("src/precomp/ref/lvl5/include/ec_params.h", "THREEpF", "file-static"),
  ("src/precomp/ref/lvl5/include/ec_params.h", "THREEpFdiv2", "file-static"),
  ("src/precomp/ref/lvl5/include/ec_params.h", "TWOpF", "file-static"),
  ("src/precomp/ref/lvl5/include/ec_params.h", "TWOpFm1", "file-static"),
  ("src/precomp/ref/lvl5/include/ec_params.h", "p_cofactor_for_2f", "file-static"),
  ("src/precomp/ref/lvl5/include/ec_params.h", "p_cofactor_for_3g", "file-static"),
  ("src/precomp/ref/lvl5/include/ec_params.h", "p_cofactor_for_6fg", "file-static"),
  ("src/precomp/ref/lvl5/include/ec_params.h", "p_plus_minus_bitlength", "file-static"),
  ("src/precomp/ref/lvl5/include/ec_params.h", "sizeI", "file-static"),
  ("src/precomp/ref/lvl5/include/ec_params.h", "sizeJ", "file-static"),
  ("src/precomp/ref/lvl5/include/ec_params.h", "sizeK", "file-static"),
  ("src/precomp/ref/lvl5/include/ec_params.h", "strategies", "file-static")
]

def auditedExternalCalls : List (String × String) := [
  ("src/common/generic/include/bench.h", "clock_gettime"),
  ("src/common/generic/include/bench.h", "cpucycles"),
  ("src/common/generic/randombytes_system.c", "fopen"),
  ("src/common/generic/randombytes_system.c", "getrandom"),
  ("src/common/generic/randombytes_system.c", "open"),
  ("src/common/generic/randombytes_system.c", "syscall"),
  ("src/common/generic/tools.c", "clock"),
  ("src/id2iso/ref/id2isox/id2iso.c", "cpucycles"),
  ("src/quaternion/ref/generic/lll.c", "mpf_set_default_prec")
]

theorem globals_are_audited :
    SqiGen.Globals.mutableStatics = auditedStatics ∧ SqiGen.Globals.externalStateCalls = auditedExternalCalls := by
  decide +kernel

/-- non-vacuity: concrete parameters, 3 signatures with one chain of length 126 each on the pinned code -/
example : thetaBytes (run (D := Nat) (V := Nat) (O := Nat) (H := Unit) ⟨fun _ => 16, 288⟩
      ⟨fun s => s, fun d => (d + 1, d, d, d), fun d _ _ _ => (d + 1, d, d), fun _ _ _ => 1, 0⟩ true
      ⟨[], 0, fun _ => 0, ()⟩ (List.replicate 3 (Op.sign 0 0 0 [126]))).1.live = 3 * (125 * 288) := by
  decide

end SqiProps.C19

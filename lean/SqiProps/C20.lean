/-
C20 — hashing and randomness plumbing conform to their standards.  (property theorems only)
-/
import SqiProofs.KeccakPerm

namespace SqiProps.C20
open SqiModel

/-- (a) `KeccakF1600_StatePermute`, as re-extracted from fips202.c on every run (12 double rounds over the
    extracted constant table), equals the 24-round Keccak-f[1600] of FIPS 202 (θ ρ π χ ι with round constants
    from the LFSR rc(t) and rotation offsets from the (t+1)(t+2)/2 walk) for every state. -/
theorem keccakF_gen_eq_spec (s : Fips202.State) : SqiGen.Keccak.keccakF s = Fips202.keccakF s :=
  SqiProofs.Keccak.keccakF_gen_eq_spec s

end SqiProps.C20

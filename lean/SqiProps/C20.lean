/-
C20 — hashing and randomness plumbing conform to their standards.  (property theorems + non-vacuity examples)

Layers (see notes/C20.md):
  * `SqiGen.Keccak`     generated on every run from src/common/generic/fips202.c (tie T): the permutation's
                        two-round loop body, the round-constant table, ROL, the rates and domain bytes the SHAKE
                        wrappers pass.
  * `SqiModel.Sponge`   hand model of keccak_absorb / keccak_squeezeblocks / keccak_inc_* / shake128 / shake256
                        (tie H: run against the real functions on every check run).
  * `SqiModel.Fips202`  FIPS 202 specification (θ ρ π χ ι, rc(t), offsets, pad10*1, sponge, SHAKE128/256).
  * `SqiModel.Drbg`, `SqiModel.Aes`  SP 800-90A CTR_DRBG and FIPS 197 specifications, DRBG model (tie H).
  * `SqiModel.Challenge` model of hash_to_challenge and secure clear (tie H).
Assumptions that are *not* theorems: collision resistance of SHAKE256; AES internals of aes_c.c (correspondence
only); that the compiler keeps the store in sqisign_secure_clear (observed at run time).
-/
import SqiProofs.KeccakPerm
import SqiGen.KeccakParams
import SqiProofs.SpongeMain
import SqiProofs.SpongeGen4
import SqiProofs.SpongeGenSq3
import SqiProofs.SpongeWrapGen
import SqiProofs.Challenge
import SqiProofs.C20Kat
import SqiProofs.DrbgRefine
import SqiProofs.DrbgInc
import SqiGen.Drbg
import SqiProofs.AesCtMain
import SqiProofs.AesEnd2
import SqiProofs.Pad
import SqiProofs.ChallengeScript
import SqiGen.Challenge
import SqiGen.Tables1
import SqiGen.Tables3
import SqiGen.Tables5

namespace SqiProps.C20
open SqiModel SqiModel.Sponge

/-! ## (a) the permutation -/

/-- `KeccakF1600_StatePermute`, as re-extracted from fips202.c on every run (12 double rounds over the
    extracted constant table), equals the 24-round Keccak-f[1600] of FIPS 202 (θ ρ π χ ι with round constants
    from the LFSR rc(t) and rotation offsets from the (t+1)(t+2)/2 walk) for every state. -/
theorem keccakF_gen_eq_spec (s : Fips202.State) : SqiGen.Keccak.keccakF s = Fips202.keccakF s :=
  SqiProofs.Keccak.keccakF_gen_eq_spec s

/-- the rotation used by the specification really is FIPS 202's bit-level rule: bit z of the rotated lane is
    bit (z − n) mod 64 of the original -/
theorem rotl_bit (a : UInt64) (n z : Nat) (hz : z < 64) :
    (Fips202.rotl a n).toBitVec.getLsbD z = a.toBitVec.getLsbD ((z + 64 - n % 64) % 64) :=
  SqiProofs.Keccak.rotl_getBit a n z hz

/-! ## (b) the sponge plumbing, for the constants the C wrappers actually pass -/

/-- what the theorems need to know about a (rate, domain byte) pair -/
abbrev GoodParams (r : Nat) (d : UInt8) : Prop := 0 < r ∧ r % 8 = 0 ∧ r ≤ 200 ∧ d ||| 128 = d ^^^ 128

/-- every rate / domain byte extracted from the shake128_* / shake256_* wrappers is admissible, all wrappers of a
    family agree, and they are the FIPS 202 values (168 / 136, suffix 1111 ‖ first pad bit = 0x1F) -/
theorem extracted_params :
    SqiGen.Keccak.shake256_absorb_rate = 136 ∧ SqiGen.Keccak.shake256_squeezeblocks_rate = 136 ∧
    SqiGen.Keccak.shake256_oneshot_rate = 136 ∧ SqiGen.Keccak.shake256_inc_absorb_rate = 136 ∧
    SqiGen.Keccak.shake256_inc_finalize_rate = 136 ∧ SqiGen.Keccak.shake256_inc_squeeze_rate = 136 ∧
    SqiGen.Keccak.shake256_absorb_domain = 0x1F ∧ SqiGen.Keccak.shake256_inc_finalize_domain = 0x1F ∧
    SqiGen.Keccak.shake128_absorb_rate = 168 ∧ SqiGen.Keccak.shake128_squeezeblocks_rate = 168 ∧
    SqiGen.Keccak.shake128_oneshot_rate = 168 ∧ SqiGen.Keccak.shake128_inc_absorb_rate = 168 ∧
    SqiGen.Keccak.shake128_inc_finalize_rate = 168 ∧ SqiGen.Keccak.shake128_inc_squeeze_rate = 168 ∧
    SqiGen.Keccak.shake128_absorb_domain = 0x1F ∧ SqiGen.Keccak.shake128_inc_finalize_domain = 0x1F ∧
    GoodParams 136 0x1F ∧ GoodParams 168 0x1F := by decide

/-- `absorb_chunks`: absorbing **any chunking** of a message through keccak_inc_absorb and finalizing leaves exactly
    the state (and `s_inc[25] = 0`) that the one-shot keccak_absorb of the concatenation leaves.
    (Induction over the chunk list with invariant `s_inc[25] < r`; any permutation f.) -/
theorem absorb_chunks (f : Fips202.State → Fips202.State) (r : Nat) (d : UInt8) (h : GoodParams r d)
    (chunks : List (List UInt8)) :
    incFinalize r d (incAbsorbMany f r incInit chunks) = ⟨keccakAbsorb f r chunks.flatten d, 0⟩ :=
  SqiProofs.Sponge.absorb_chunks f r h.1 h.2.1 h.2.2.1 d h.2.2.2 chunks

/-- the bookkeeping invariant: after any absorb sequence from keccak_inc_init, `s_inc[25] < r` -/
theorem absorb_pos_lt (f : Fips202.State → Fips202.State) (r : Nat) (h0 : 0 < r) (chunks : List (List UInt8)) :
    (incAbsorbMany f r incInit chunks).pos < r :=
  SqiProofs.Sponge.absorb_pos_lt f r h0 chunks

/-- `squeeze_chunks`: **any split** of an output request through keccak_inc_squeeze yields the same bytes and the same
    final state as a single request of the total length … -/
theorem squeeze_chunks (f : Fips202.State → Fips202.State) (r : Nat) (h0 : 0 < r) (st : IncState) (hp : st.pos < r)
    (ns : List Nat) : incSqueezeMany f r st ns = incSqueeze f r st ns.sum :=
  SqiProofs.Sponge.squeeze_chunks f r h0 st hp ns

/-- … and a shorter request returns a prefix of a longer one (one stream) -/
theorem squeeze_prefix (f : Fips202.State → Fips202.State) (r : Nat) (h0 : 0 < r) (st : IncState) (hp : st.pos < r)
    (a b : Nat) : (incSqueeze f r st a).1 = ((incSqueeze f r st (a + b)).1).take a :=
  SqiProofs.Sponge.squeeze_prefix f r h0 st hp a b

/-! ### the sponge control code as re-extracted from the C text (tie T, tools/translate/sponge.py → SqiGen/Sponge.lean:
    structured programs with `while` / `for` loops over the variables of each function) computes the hand model, so the
    theorems above and below are theorems about the current text of fips202.c -/

/-- `load64` -/
theorem gen_load64_eq_model (x : List UInt8) : SqiGen.Sponge.load64 x = Sponge.load64 x := SqiProofs.SpongeGen.load64_eq x

/-- `keccak_inc_absorb` (both loops, the `while (mlen + s_inc[25] >= r)` condition, the pointer / length / counter updates):
    lanes and byte counter after the translated function = the model `incAbsorb`, from every state with `s_inc[25] < r` -/
theorem gen_inc_absorb_eq_model (F : Fips202.State → Fips202.State) (fuel r : Nat) (st : IncState) (m : List UInt8) (i0 : Nat)
    (hp : st.pos < r) (hf : m.length + r < fuel) :
    ∃ v', SqiGen.Sponge.keccak_inc_absorb.run F fuel ⟨st.s, st.pos, r, m, m.length, i0⟩ = some v' ∧
      v'.s_inc = (incAbsorb F r st m).s ∧ v'.pos = (incAbsorb F r st m).pos :=
  SqiProofs.SpongeGen.inc_absorb_eq F fuel r st m i0 hp hf

/-- `keccak_inc_finalize` -/
theorem gen_inc_finalize_eq_model (F : Fips202.State → Fips202.State) (fuel : Nat) (st : IncState) (r : Nat) (p : UInt8) :
    SqiGen.Sponge.keccak_inc_finalize.run F fuel ⟨st.s, st.pos, r, p⟩
      = some ⟨(incFinalize r p st).s, (incFinalize r p st).pos, r, p⟩ :=
  SqiProofs.SpongeGen.inc_finalize_eq F fuel st r p

/-- `keccak_absorb` (zeroing loop, `while (mlen >= r)` block loop with its lane loop, the padded last block built in
    `t[200]`, final lane loop): the lanes after the translated function = the model `keccakAbsorb`, whatever the uninitialised
    state `s` and buffer `t` contain -/
theorem gen_keccak_absorb_eq_model (F : Fips202.State → Fips202.State) (fuel r : Nat) (m : List UInt8) (p : UInt8)
    (s0 : Fips202.State) (t0 : List UInt8) (i0 : Nat) (ht : t0.length = 200) (h0 : 0 < r) (hr : r ≤ 200)
    (hf : m.length + 200 < fuel) :
    ∃ v', SqiGen.Sponge.keccak_absorb.run F fuel ⟨s0, r, m, m.length, p, i0, t0⟩ = some v' ∧ v'.s = keccakAbsorb F r m p :=
  SqiProofs.SpongeGen.keccak_absorb_eq F fuel r m p s0 t0 i0 ht h0 hr hf

/-- `absorb_chunks` for the re-extracted text: one translated `keccak_inc_absorb` call after another, then the translated
    `keccak_inc_finalize`, leave the lanes the translated one-shot `keccak_absorb` of the concatenation leaves -/
theorem gen_absorb_chunk_step (F : Fips202.State → Fips202.State) (fuel r : Nat) (d : UInt8) (h : GoodParams r d)
    (chunks : List (List UInt8)) (m : List UInt8) (i0 : Nat) (hf : m.length + r < fuel) :
    ∃ v', SqiGen.Sponge.keccak_inc_absorb.run F fuel
        ⟨(incAbsorbMany F r incInit chunks).s, (incAbsorbMany F r incInit chunks).pos, r, m, m.length, i0⟩ = some v' ∧
      (⟨v'.s_inc, v'.pos⟩ : IncState) = incAbsorbMany F r incInit (chunks ++ [m]) := by
  obtain ⟨v', h1, h2, h3⟩ := SqiProofs.SpongeGen.inc_absorb_eq F fuel r (incAbsorbMany F r incInit chunks) m i0
    (absorb_pos_lt F r h.1 chunks) hf
  refine ⟨v', h1, ?_⟩
  simp only [incAbsorbMany, List.foldl_append, List.foldl_cons, List.foldl_nil] at h2 h3 ⊢
  rw [h2, h3]

/-- the re-extracted `store64(buf + off, u)` writes the 8 little-endian bytes of `u` at `off … off+8` and nothing else -/
theorem gen_store64_eq_model (buf : List UInt8) (off : Nat) (u : UInt64) (hl : off + 8 ≤ buf.length) :
    SqiProofs.SpongeGen.Written buf (SqiGen.Sponge.store64At buf off u) off 8 (store64 u) :=
  SqiProofs.SpongeGen.store64At_written buf off u hl

/-- the re-extracted `keccak_squeezeblocks` = the hand model `squeezeBlocksC`: `nblocks * r` bytes are stored at `h`, the
    rest of the buffer is untouched, the lanes are the model's -/
theorem gen_squeezeblocks_eq_model (F : Fips202.State → Fips202.State) (fuel r : Nat) (h8 : r % 8 = 0)
    (h : List UInt8) (hoff nblocks i0 : Nat) (s : Fips202.State) (hl : hoff + nblocks * r ≤ h.length)
    (hf : r ≤ fuel) (hn : nblocks ≤ fuel) :
    ∃ v', SqiGen.Sponge.keccak_squeezeblocks.run F fuel ⟨h, hoff, nblocks, s, r, i0⟩ = some v' ∧
      SqiProofs.SpongeGen.Written h v'.h hoff (nblocks * r) (squeezeBlocksC F r nblocks s).1 ∧
      v'.s = (squeezeBlocksC F r nblocks s).2 :=
  SqiProofs.SpongeGen.squeezeblocks_eq F fuel r h8 hf nblocks fuel ⟨h, hoff, nblocks, s, r, i0⟩ rfl rfl hl hn

/-- the re-extracted `keccak_inc_squeeze` = the hand model `incSqueeze` (which `squeeze_chunks` is about) -/
theorem gen_inc_squeeze_eq_model (F : Fips202.State → Fips202.State) (fuel r : Nat) (h0 : 0 < r) (st : IncState)
    (hp : st.pos ≤ r) (h : List UInt8) (hoff outlen i0 : Nat) (hl : hoff + outlen ≤ h.length) (hf : outlen + r < fuel) :
    ∃ v', SqiGen.Sponge.keccak_inc_squeeze.run F fuel ⟨h, hoff, outlen, st.s, st.pos, r, i0⟩ = some v' ∧
      SqiProofs.SpongeGen.Written h v'.h hoff outlen (incSqueeze F r st outlen).1 ∧
      (⟨v'.s_inc, v'.pos⟩ : IncState) = (incSqueeze F r st outlen).2 :=
  SqiProofs.SpongeGen.inc_squeeze_eq F fuel r h0 st hp h hoff outlen i0 hl hf

/-! ### the remaining wrappers, re-extracted by tools/translate/spongewrap.py (SqiGen/SpongeWrap.lean) -/

/-- the re-extracted `keccak_inc_init` (25-iteration zeroing loop + `s_inc[25] = 0`) = the hand model `incInit`, whatever the
    memory contained before -/
theorem gen_inc_init_eq_model (F : Fips202.State → Fips202.State) (fuel : Nat) (s0 : Fips202.State) (p0 i0 : Nat)
    (hf : 25 ≤ fuel) :
    SqiGen.Sponge.keccak_inc_init.run F fuel ⟨s0, p0, i0⟩ = some ⟨incInit.s, incInit.pos, 25⟩ :=
  SqiProofs.SpongeGen.inc_init_eq F fuel s0 p0 i0 hf

/-- `shake256_inc_init` / `shake128_inc_init` (fresh allocation with arbitrary contents, then the call) -/
theorem gen_shake_inc_init_eq_model (F : Fips202.State → Fips202.State) (fuel : Nat) (ctx : Fips202.State) (pos i0 : Nat)
    (hf : 25 ≤ fuel) :
    SqiGen.Sponge.shake256_inc_init.run F fuel ctx pos i0 = some ⟨incInit.s, incInit.pos, 25⟩ ∧
    SqiGen.Sponge.shake128_inc_init.run F fuel ctx pos i0 = some ⟨incInit.s, incInit.pos, 25⟩ :=
  ⟨SqiProofs.SpongeGen.inc_init_eq F fuel ctx pos i0 hf, SqiProofs.SpongeGen.inc_init_eq F fuel ctx pos i0 hf⟩

/-- `shake256_inc_absorb(state, input, inlen)` as re-extracted (callee, argument order, rate macro resolved from the C text)
    = the model `incAbsorb` at rate 136 -/
theorem gen_shake256_inc_absorb_eq_model (F : Fips202.State → Fips202.State) (fuel : Nat) (st : IncState) (m : List UInt8)
    (i0 : Nat) (hp : st.pos < 136) (hf : m.length + 136 < fuel) :
    ∃ v', SqiGen.Sponge.shake256_inc_absorb.run F fuel st.s st.pos m m.length i0 = some v' ∧
      v'.s_inc = (incAbsorb F 136 st m).s ∧ v'.pos = (incAbsorb F 136 st m).pos :=
  SqiProofs.SpongeGen.inc_absorb_eq F fuel 136 st m i0 hp hf

theorem gen_shake128_inc_absorb_eq_model (F : Fips202.State → Fips202.State) (fuel : Nat) (st : IncState) (m : List UInt8)
    (i0 : Nat) (hp : st.pos < 168) (hf : m.length + 168 < fuel) :
    ∃ v', SqiGen.Sponge.shake128_inc_absorb.run F fuel st.s st.pos m m.length i0 = some v' ∧
      v'.s_inc = (incAbsorb F 168 st m).s ∧ v'.pos = (incAbsorb F 168 st m).pos :=
  SqiProofs.SpongeGen.inc_absorb_eq F fuel 168 st m i0 hp hf

/-- `shake256_inc_finalize` / `shake128_inc_finalize` as re-extracted = `incFinalize` with rate 136 / 168 and domain byte 0x1F -/
theorem gen_shake_inc_finalize_eq_model (F : Fips202.State → Fips202.State) (fuel : Nat) (st : IncState) :
    SqiGen.Sponge.shake256_inc_finalize.run F fuel st.s st.pos
      = some ⟨(incFinalize 136 0x1F st).s, (incFinalize 136 0x1F st).pos, 136, 0x1F⟩ ∧
    SqiGen.Sponge.shake128_inc_finalize.run F fuel st.s st.pos
      = some ⟨(incFinalize 168 0x1F st).s, (incFinalize 168 0x1F st).pos, 168, 0x1F⟩ :=
  ⟨SqiProofs.SpongeGen.inc_finalize_eq F fuel st 136 0x1F, SqiProofs.SpongeGen.inc_finalize_eq F fuel st 168 0x1F⟩

/-- `shake256_inc_squeeze(output, outlen, state)` as re-extracted = the model `incSqueeze` at rate 136 -/
theorem gen_shake256_inc_squeeze_eq_model (F : Fips202.State → Fips202.State) (fuel : Nat) (st : IncState)
    (hp : st.pos ≤ 136) (h : List UInt8) (hoff outlen i0 : Nat) (hl : hoff + outlen ≤ h.length) (hf : outlen + 136 < fuel) :
    ∃ v', SqiGen.Sponge.shake256_inc_squeeze.run F fuel h hoff outlen st.s st.pos i0 = some v' ∧
      SqiProofs.SpongeGen.Written h v'.h hoff outlen (incSqueeze F 136 st outlen).1 ∧
      (⟨v'.s_inc, v'.pos⟩ : IncState) = (incSqueeze F 136 st outlen).2 :=
  SqiProofs.SpongeGen.inc_squeeze_eq F fuel 136 (by decide) st hp h hoff outlen i0 hl hf

theorem gen_shake128_inc_squeeze_eq_model (F : Fips202.State → Fips202.State) (fuel : Nat) (st : IncState)
    (hp : st.pos ≤ 168) (h : List UInt8) (hoff outlen i0 : Nat) (hl : hoff + outlen ≤ h.length) (hf : outlen + 168 < fuel) :
    ∃ v', SqiGen.Sponge.shake128_inc_squeeze.run F fuel h hoff outlen st.s st.pos i0 = some v' ∧
      SqiProofs.SpongeGen.Written h v'.h hoff outlen (incSqueeze F 168 st outlen).1 ∧
      (⟨v'.s_inc, v'.pos⟩ : IncState) = (incSqueeze F 168 st outlen).2 :=
  SqiProofs.SpongeGen.inc_squeeze_eq F fuel 168 (by decide) st hp h hoff outlen i0 hl hf


/-- `shake256_absorb` / `shake128_absorb` as re-extracted (fresh 25-lane allocation with arbitrary contents, then
    `keccak_absorb(state->ctx, RATE, input, inlen, 0x1F)`) = the model `keccakAbsorb` at rate 136 / 168, domain byte 0x1F -/
theorem gen_shake_absorb_eq_model (F : Fips202.State → Fips202.State) (fuel : Nat) (m : List UInt8)
    (s0 : Fips202.State) (t0 : List UInt8) (i0 : Nat) (ht : t0.length = 200) (hf : m.length + 200 < fuel) :
    (∃ v', SqiGen.Sponge.shake256_absorb.run F fuel s0 m m.length i0 t0 = some v' ∧ v'.s = keccakAbsorb F 136 m 0x1F) ∧
    (∃ v', SqiGen.Sponge.shake128_absorb.run F fuel s0 m m.length i0 t0 = some v' ∧ v'.s = keccakAbsorb F 168 m 0x1F) :=
  ⟨SqiProofs.SpongeGen.keccak_absorb_eq F fuel 136 m 0x1F s0 t0 i0 ht (by decide) (by decide) hf,
   SqiProofs.SpongeGen.keccak_absorb_eq F fuel 168 m 0x1F s0 t0 i0 ht (by decide) (by decide) hf⟩

/-- `shake256_squeezeblocks(output, nblocks, state)` as re-extracted = the model `squeezeBlocksC` at rate 136 -/
theorem gen_shake256_squeezeblocks_eq_model (F : Fips202.State → Fips202.State) (fuel : Nat)
    (h : List UInt8) (hoff nblocks i0 : Nat) (s : Fips202.State) (hl : hoff + nblocks * 136 ≤ h.length)
    (hf : 136 ≤ fuel) (hn : nblocks ≤ fuel) :
    ∃ v', SqiGen.Sponge.shake256_squeezeblocks.run F fuel h hoff nblocks s i0 = some v' ∧
      SqiProofs.SpongeGen.Written h v'.h hoff (nblocks * 136) (squeezeBlocksC F 136 nblocks s).1 ∧
      v'.s = (squeezeBlocksC F 136 nblocks s).2 :=
  SqiProofs.SpongeGen.squeezeblocks_eq F fuel 136 (by decide) hf nblocks fuel ⟨h, hoff, nblocks, s, 136, i0⟩ rfl rfl hl hn

theorem gen_shake128_squeezeblocks_eq_model (F : Fips202.State → Fips202.State) (fuel : Nat)
    (h : List UInt8) (hoff nblocks i0 : Nat) (s : Fips202.State) (hl : hoff + nblocks * 168 ≤ h.length)
    (hf : 168 ≤ fuel) (hn : nblocks ≤ fuel) :
    ∃ v', SqiGen.Sponge.shake128_squeezeblocks.run F fuel h hoff nblocks s i0 = some v' ∧
      SqiProofs.SpongeGen.Written h v'.h hoff (nblocks * 168) (squeezeBlocksC F 168 nblocks s).1 ∧
      v'.s = (squeezeBlocksC F 168 nblocks s).2 :=
  SqiProofs.SpongeGen.squeezeblocks_eq F fuel 168 (by decide) hf nblocks fuel ⟨h, hoff, nblocks, s, 168, i0⟩ rfl rfl hl hn

theorem genF_eq : SqiGen.Keccak.keccakF = Fips202.keccakF := funext keccakF_gen_eq_spec

/-- `shake256_eq_spec`: the model of `SHAKE256` / `shake256` (one-shot: keccak_absorb, whole blocks, tail through a
    temporary block), run with the generated permutation and the extracted constants, equals FIPS 202 SHAKE256 for
    every message and every output length (no side condition: empty message, lengths r−1, r, r+1, … included). -/
theorem shake256_eq_spec (msg : List UInt8) (outlen : Nat) :
    shakeOneShot SqiGen.Keccak.keccakF SqiGen.Keccak.shake256_absorb_rate SqiGen.Keccak.shake256_absorb_domain
      SqiGen.Keccak.shake256_squeezeblocks_rate SqiGen.Keccak.shake256_oneshot_rate msg outlen
      = Fips202.shake256 msg outlen := by
  have h := extracted_params
  rw [h.1, h.2.1, h.2.2.1, h.2.2.2.2.2.2.1, genF_eq]
  exact SqiProofs.Sponge.oneShot_eq_spec Fips202.keccakF 136 (by decide) (by decide) (by decide) 0x1F msg outlen

theorem shake128_eq_spec (msg : List UInt8) (outlen : Nat) :
    shakeOneShot SqiGen.Keccak.keccakF SqiGen.Keccak.shake128_absorb_rate SqiGen.Keccak.shake128_absorb_domain
      SqiGen.Keccak.shake128_squeezeblocks_rate SqiGen.Keccak.shake128_oneshot_rate msg outlen
      = Fips202.shake128 msg outlen := by
  have h := extracted_params
  rw [h.2.2.2.2.2.2.2.2.1, h.2.2.2.2.2.2.2.2.2.1, h.2.2.2.2.2.2.2.2.2.2.1, h.2.2.2.2.2.2.2.2.2.2.2.2.2.2.1, genF_eq]
  exact SqiProofs.Sponge.oneShot_eq_spec Fips202.keccakF 168 (by decide) (by decide) (by decide) 0x1F msg outlen

/-- **the one-shot `shake256(output, outlen, input, inlen)` as re-extracted from fips202.c** (statement sequence, rate macros,
    the `shake256_absorb` / `shake256_squeezeblocks` wrappers, `keccak_absorb`, `keccak_squeezeblocks`, `store64`, `load64`, the copy loop,
    and the permutation — all generated from the C text): it terminates, writes exactly FIPS 202 SHAKE256(msg) truncated to `outlen` at
    `output … output + outlen` and leaves every other byte of the buffer unchanged — for every message, every output length and
    whatever the uninitialised stack / heap memory (`s0`, `t0`, `ta`, loop counters) contains -/
theorem gen_shake256_oneshot_eq_spec (fuel : Nat) (h : List UInt8) (hoff outlen : Nat) (msg : List UInt8)
    (s0 : Fips202.State) (t0 : List UInt8) (ia : Nat) (ta : List UInt8) (iq1 iq2 ic : Nat)
    (ht0 : t0.length = SqiGen.Sponge.shake256.tlen) (hta : ta.length = 200) (hl : hoff + outlen ≤ h.length)
    (hf : msg.length + outlen + 200 < fuel) :
    ∃ h', SqiGen.Sponge.shake256.run SqiGen.Keccak.keccakF fuel h hoff outlen msg msg.length s0 t0 ia ta iq1 iq2 ic = some h' ∧
      SqiProofs.SpongeGen.Written h h' hoff outlen (Fips202.shake256 msg outlen) := by
  have hs := shake256_eq_spec msg outlen
  have hp := extracted_params
  rw [hp.1, hp.2.1, hp.2.2.1, hp.2.2.2.2.2.2.1] at hs
  rw [← hs]
  exact SqiProofs.SpongeGen.shake256_oneshot_eq SqiGen.Keccak.keccakF fuel h hoff outlen msg s0 t0 ia ta iq1 iq2 ic ht0 hta hl hf

/-- **the one-shot `shake128(output, outlen, input, inlen)` as re-extracted from fips202.c** (statement sequence, rate macros,
    the `shake128_absorb` / `shake128_squeezeblocks` wrappers, `keccak_absorb`, `keccak_squeezeblocks`, `store64`, `load64`, the copy loop,
    and the permutation — all generated from the C text): it terminates, writes exactly FIPS 202 SHAKE128(msg) truncated to `outlen` at
    `output … output + outlen` and leaves every other byte of the buffer unchanged — for every message, every output length and
    whatever the uninitialised stack / heap memory (`s0`, `t0`, `ta`, loop counters) contains -/
theorem gen_shake128_oneshot_eq_spec (fuel : Nat) (h : List UInt8) (hoff outlen : Nat) (msg : List UInt8)
    (s0 : Fips202.State) (t0 : List UInt8) (ia : Nat) (ta : List UInt8) (iq1 iq2 ic : Nat)
    (ht0 : t0.length = SqiGen.Sponge.shake128.tlen) (hta : ta.length = 200) (hl : hoff + outlen ≤ h.length)
    (hf : msg.length + outlen + 200 < fuel) :
    ∃ h', SqiGen.Sponge.shake128.run SqiGen.Keccak.keccakF fuel h hoff outlen msg msg.length s0 t0 ia ta iq1 iq2 ic = some h' ∧
      SqiProofs.SpongeGen.Written h h' hoff outlen (Fips202.shake128 msg outlen) := by
  have hs := shake128_eq_spec msg outlen
  have hp := extracted_params
  rw [hp.2.2.2.2.2.2.2.2.1, hp.2.2.2.2.2.2.2.2.2.1, hp.2.2.2.2.2.2.2.2.2.2.1, hp.2.2.2.2.2.2.2.2.2.2.2.2.2.2.1] at hs
  rw [← hs]
  exact SqiProofs.SpongeGen.shake128_oneshot_eq SqiGen.Keccak.keccakF fuel h hoff outlen msg s0 t0 ia ta iq1 iq2 ic ht0 hta hl hf

/-- non-vacuity: the hypotheses of `gen_shake256_oneshot_eq_spec` are met by a 40-byte buffer, offset 4, 32 output bytes, a 3-byte
    message and non-zero garbage in the uninitialised blocks -/
example : ∃ h', SqiGen.Sponge.shake256.run SqiGen.Keccak.keccakF 1000 (List.replicate 40 0) 4 32 [1, 2, 3] 3 Fips202.zeroState
      (List.replicate 136 7) 5 (List.replicate 200 9) 1 2 3 = some h' ∧
    SqiProofs.SpongeGen.Written (List.replicate 40 0) h' 4 32 (Fips202.shake256 [1, 2, 3] 32) :=
  gen_shake256_oneshot_eq_spec 1000 (List.replicate 40 0) 4 32 [1, 2, 3] Fips202.zeroState (List.replicate 136 7) 5
    (List.replicate 200 9) 1 2 3 (by simp [SqiGen.Sponge.shake256.tlen]) List.length_replicate (by simp only [List.length_replicate]; omega)
    (by simp only [List.length_cons, List.length_nil]; omega)

/-- the exported `SHAKE256(output, outputByteLen, input, inputByteLen)` (what `hash_to_challenge` and the library call), as
    re-extracted (forward to the generated one-shot `shake256`, argument order from the C text): writes FIPS 202 SHAKE256(msg)
    truncated to the requested length and nothing else -/
theorem gen_SHAKE256_eq_spec (fuel : Nat) (h : List UInt8) (hoff outlen : Nat) (msg : List UInt8)
    (s0 : Fips202.State) (t0 : List UInt8) (ia : Nat) (ta : List UInt8) (iq1 iq2 ic : Nat)
    (ht0 : t0.length = SqiGen.Sponge.shake256.tlen) (hta : ta.length = 200) (hl : hoff + outlen ≤ h.length)
    (hf : msg.length + outlen + 200 < fuel) :
    ∃ h', SqiGen.Sponge.SHAKE256.run SqiGen.Keccak.keccakF fuel h hoff outlen msg msg.length s0 t0 ia ta iq1 iq2 ic = some h' ∧
      SqiProofs.SpongeGen.Written h h' hoff outlen (Fips202.shake256 msg outlen) :=
  gen_shake256_oneshot_eq_spec fuel h hoff outlen msg s0 t0 ia ta iq1 iq2 ic ht0 hta hl hf

/-- the exported `SHAKE128(output, outputByteLen, input, inputByteLen)` (what `hash_to_challenge` and the library call), as
    re-extracted (forward to the generated one-shot `shake128`, argument order from the C text): writes FIPS 202 SHAKE128(msg)
    truncated to the requested length and nothing else -/
theorem gen_SHAKE128_eq_spec (fuel : Nat) (h : List UInt8) (hoff outlen : Nat) (msg : List UInt8)
    (s0 : Fips202.State) (t0 : List UInt8) (ia : Nat) (ta : List UInt8) (iq1 iq2 ic : Nat)
    (ht0 : t0.length = SqiGen.Sponge.shake128.tlen) (hta : ta.length = 200) (hl : hoff + outlen ≤ h.length)
    (hf : msg.length + outlen + 200 < fuel) :
    ∃ h', SqiGen.Sponge.SHAKE128.run SqiGen.Keccak.keccakF fuel h hoff outlen msg msg.length s0 t0 ia ta iq1 iq2 ic = some h' ∧
      SqiProofs.SpongeGen.Written h h' hoff outlen (Fips202.shake128 msg outlen) :=
  gen_shake128_oneshot_eq_spec fuel h hoff outlen msg s0 t0 ia ta iq1 iq2 ic ht0 hta hl hf

/-- `shake*_inc_ctx_clone` / `shake*_ctx_clone` as re-extracted (allocation size and memcpy size resolved from the C text): the clone
    has the source's 25 lanes and, for the incremental context, the source's byte counter `s_inc[25]`; the non-incremental clone copies
    25 lanes only (its context has no counter) -/
theorem gen_ctx_clone_eq (src dest0 : Fips202.State × Nat) :
    SqiGen.Sponge.shake256_inc_ctx_clone.run src dest0 = src ∧ SqiGen.Sponge.shake128_inc_ctx_clone.run src dest0 = src ∧
    (SqiGen.Sponge.shake256_ctx_clone.run src dest0).1 = src.1 ∧ (SqiGen.Sponge.shake128_ctx_clone.run src dest0).1 = src.1 := by
  have k : ∀ nl, 25 ≤ nl → (SqiGen.Sponge.memcpyCtx nl dest0 src).1 = src.1 := by
    intro nl hnl
    apply Vector.ext
    intro i hi
    simp [SqiGen.Sponge.memcpyCtx, show i < nl by omega]
  have k2 : (SqiGen.Sponge.memcpyCtx 26 dest0 src).2 = src.2 := by simp [SqiGen.Sponge.memcpyCtx]
  have k26 : SqiGen.Sponge.memcpyCtx 26 dest0 src = src := Prod.ext (k 26 (by omega)) k2
  exact ⟨k26, k26, k 25 (Nat.le_refl _), k 25 (Nat.le_refl _)⟩

/-- the incremental API (`shake256_inc_init/absorb/finalize/squeeze`), for any chunking of the message and any split
    of the output request, produces FIPS 202 SHAKE256 of the concatenation, truncated to the total request -/
theorem shake256_inc_eq_spec (chunks : List (List UInt8)) (reqs : List Nat) :
    (incSession SqiGen.Keccak.keccakF SqiGen.Keccak.shake256_inc_absorb_rate SqiGen.Keccak.shake256_inc_finalize_rate
      SqiGen.Keccak.shake256_inc_squeeze_rate SqiGen.Keccak.shake256_inc_finalize_domain chunks reqs).1
      = Fips202.shake256 chunks.flatten reqs.sum := by
  have h := extracted_params
  rw [h.2.2.2.1, h.2.2.2.2.1, h.2.2.2.2.2.1, h.2.2.2.2.2.2.2.1, genF_eq]
  exact SqiProofs.Sponge.incSession_eq_spec Fips202.keccakF 136 (by decide) (by decide) (by decide) 0x1F (by decide) chunks reqs

/-- a whole `shake256_inc_*` session through the **re-extracted** wrappers (init on a fresh allocation with arbitrary contents,
    one absorb call, finalize, one squeeze call into `h + hoff`), with the re-extracted permutation: the four generated programs
    terminate and the `outlen` bytes written are FIPS 202 SHAKE256(m) truncated to `outlen`; the rest of `h` is unchanged.
    (Any chunking / any split: compose `gen_shake256_inc_absorb_eq_model`, `gen_shake256_inc_squeeze_eq_model` with
    `shake256_inc_eq_spec`.) -/
theorem gen_shake256_inc_calls_eq_spec (fuel : Nat) (ctx : Fips202.State) (pos i0 i1 i2 : Nat) (m : List UInt8)
    (h : List UInt8) (hoff outlen : Nat) (hl : hoff + outlen ≤ h.length) (hf : m.length + outlen + 136 < fuel) :
    ∃ v1 v2 v3 v4,
      SqiGen.Sponge.shake256_inc_init.run SqiGen.Keccak.keccakF fuel ctx pos i0 = some v1 ∧
      SqiGen.Sponge.shake256_inc_absorb.run SqiGen.Keccak.keccakF fuel v1.s_inc v1.pos m m.length i1 = some v2 ∧
      SqiGen.Sponge.shake256_inc_finalize.run SqiGen.Keccak.keccakF fuel v2.s_inc v2.pos = some v3 ∧
      SqiGen.Sponge.shake256_inc_squeeze.run SqiGen.Keccak.keccakF fuel h hoff outlen v3.s_inc v3.pos i2 = some v4 ∧
      SqiProofs.SpongeGen.Written h v4.h hoff outlen (Fips202.shake256 m outlen) := by
  have hspec := shake256_inc_eq_spec [m] [outlen]
  have hp := extracted_params
  rw [hp.2.2.2.1, hp.2.2.2.2.1, hp.2.2.2.2.2.1, hp.2.2.2.2.2.2.2.1] at hspec
  obtain ⟨v2, a1, a2, a3⟩ := gen_shake256_inc_absorb_eq_model SqiGen.Keccak.keccakF fuel incInit m i1 (by decide) (by omega)
  have fin := (gen_shake_inc_finalize_eq_model SqiGen.Keccak.keccakF fuel (incAbsorb SqiGen.Keccak.keccakF 136 incInit m)).1
  obtain ⟨v4, s1, s2, _⟩ := gen_shake256_inc_squeeze_eq_model SqiGen.Keccak.keccakF fuel
    (incFinalize 136 0x1F (incAbsorb SqiGen.Keccak.keccakF 136 incInit m)) (by simp [incFinalize]) h hoff outlen i2 hl (by omega)
  refine ⟨_, v2, ⟨(incFinalize 136 0x1F (incAbsorb SqiGen.Keccak.keccakF 136 incInit m)).s,
    (incFinalize 136 0x1F (incAbsorb SqiGen.Keccak.keccakF 136 incInit m)).pos, 136, 0x1F⟩, v4,
    (gen_shake_inc_init_eq_model SqiGen.Keccak.keccakF fuel ctx pos i0 (by omega)).1, a1, ?_, s1, ?_⟩
  · rw [a2, a3]; exact fin
  · have e : (incSession SqiGen.Keccak.keccakF 136 136 136 0x1F [m] [outlen]).1
        = (incSqueeze SqiGen.Keccak.keccakF 136 (incFinalize 136 0x1F (incAbsorb SqiGen.Keccak.keccakF 136 incInit m)) outlen).1 := by
      simp [incSession, incSqueezeMany, incAbsorbMany]
    rw [e] at hspec
    rw [hspec] at s2
    simpa using s2

theorem shake128_inc_eq_spec (chunks : List (List UInt8)) (reqs : List Nat) :
    (incSession SqiGen.Keccak.keccakF SqiGen.Keccak.shake128_inc_absorb_rate SqiGen.Keccak.shake128_inc_finalize_rate
      SqiGen.Keccak.shake128_inc_squeeze_rate SqiGen.Keccak.shake128_inc_finalize_domain chunks reqs).1
      = Fips202.shake128 chunks.flatten reqs.sum := by
  have h := extracted_params
  rw [h.2.2.2.2.2.2.2.2.2.2.2.1, h.2.2.2.2.2.2.2.2.2.2.2.2.1, h.2.2.2.2.2.2.2.2.2.2.2.2.2.1,
    h.2.2.2.2.2.2.2.2.2.2.2.2.2.2.2.1, genF_eq]
  exact SqiProofs.Sponge.incSession_eq_spec Fips202.keccakF 168 (by decide) (by decide) (by decide) 0x1F (by decide) chunks reqs

/-- **any session of the incremental API through the re-extracted wrappers**: `shake256_inc_init` on arbitrary memory, one generated
    `shake256_inc_absorb` call per chunk (any chunking), the generated `shake256_inc_finalize`, one generated `shake256_inc_squeeze` call per
    request (any split; the output pointer advances by the request) — every call terminates and the `reqs.sum` bytes written are
    FIPS 202 SHAKE256 of the concatenation of the chunks, truncated to the total request; the rest of the buffer is unchanged.
    (`runAbsorbs` / `runSqueezes` only chain the generated programs: context and counter of one call are passed to the next.) -/
theorem gen_shake256_inc_session_eq_spec (fuel i0 ia iq : Nat) (ctx : Fips202.State) (pos : Nat) (chunks : List (List UInt8))
    (reqs : List Nat) (h : List UInt8) (off : Nat) (hl : off + reqs.sum ≤ h.length) (h25 : 25 ≤ fuel)
    (hfa : ∀ m ∈ chunks, m.length + 136 < fuel) (hfq : ∀ n ∈ reqs, n + 136 < fuel) :
    ∃ v1 sp v3 res,
      SqiGen.Sponge.shake256_inc_init.run SqiGen.Keccak.keccakF fuel ctx pos i0 = some v1 ∧
      SqiProofs.SpongeGen.runAbsorbs (SqiGen.Sponge.shake256_inc_absorb.run SqiGen.Keccak.keccakF fuel) ia v1.s_inc v1.pos chunks = some sp ∧
      SqiGen.Sponge.shake256_inc_finalize.run SqiGen.Keccak.keccakF fuel sp.1 sp.2 = some v3 ∧
      SqiProofs.SpongeGen.runSqueezes (SqiGen.Sponge.shake256_inc_squeeze.run SqiGen.Keccak.keccakF fuel) iq h off v3.s_inc v3.pos reqs
        = some res ∧
      SqiProofs.SpongeGen.Written h res.1 off reqs.sum (Fips202.shake256 chunks.flatten reqs.sum) := by
  have hspec := shake256_inc_eq_spec chunks reqs
  have hp := extracted_params
  rw [hp.2.2.2.1, hp.2.2.2.2.1, hp.2.2.2.2.2.1, hp.2.2.2.2.2.2.2.1] at hspec
  have ha := SqiProofs.SpongeGen.runAbsorbs_eq SqiGen.Keccak.keccakF fuel 136 ia chunks incInit (by decide) hfa
  have fin := (gen_shake_inc_finalize_eq_model SqiGen.Keccak.keccakF fuel (incAbsorbMany SqiGen.Keccak.keccakF 136 incInit chunks)).1
  obtain ⟨h', r1, r2⟩ := SqiProofs.SpongeGen.runSqueezes_eq SqiGen.Keccak.keccakF fuel 136 iq (by decide) reqs
    (incFinalize 136 0x1F (incAbsorbMany SqiGen.Keccak.keccakF 136 incInit chunks)) (by simp [incFinalize]) h off hl hfq
  refine ⟨_, _, _, _, (gen_shake_inc_init_eq_model SqiGen.Keccak.keccakF fuel ctx pos i0 h25).1, ha, fin, r1, ?_⟩
  rw [← hspec]
  exact r2

/-- **any session of the incremental API through the re-extracted wrappers**: `shake128_inc_init` on arbitrary memory, one generated
    `shake128_inc_absorb` call per chunk (any chunking), the generated `shake128_inc_finalize`, one generated `shake128_inc_squeeze` call per
    request (any split; the output pointer advances by the request) — every call terminates and the `reqs.sum` bytes written are
    FIPS 202 SHAKE128 of the concatenation of the chunks, truncated to the total request; the rest of the buffer is unchanged.
    (`runAbsorbs` / `runSqueezes` only chain the generated programs: context and counter of one call are passed to the next.) -/
theorem gen_shake128_inc_session_eq_spec (fuel i0 ia iq : Nat) (ctx : Fips202.State) (pos : Nat) (chunks : List (List UInt8))
    (reqs : List Nat) (h : List UInt8) (off : Nat) (hl : off + reqs.sum ≤ h.length) (h25 : 25 ≤ fuel)
    (hfa : ∀ m ∈ chunks, m.length + 168 < fuel) (hfq : ∀ n ∈ reqs, n + 168 < fuel) :
    ∃ v1 sp v3 res,
      SqiGen.Sponge.shake128_inc_init.run SqiGen.Keccak.keccakF fuel ctx pos i0 = some v1 ∧
      SqiProofs.SpongeGen.runAbsorbs (SqiGen.Sponge.shake128_inc_absorb.run SqiGen.Keccak.keccakF fuel) ia v1.s_inc v1.pos chunks = some sp ∧
      SqiGen.Sponge.shake128_inc_finalize.run SqiGen.Keccak.keccakF fuel sp.1 sp.2 = some v3 ∧
      SqiProofs.SpongeGen.runSqueezes (SqiGen.Sponge.shake128_inc_squeeze.run SqiGen.Keccak.keccakF fuel) iq h off v3.s_inc v3.pos reqs
        = some res ∧
      SqiProofs.SpongeGen.Written h res.1 off reqs.sum (Fips202.shake128 chunks.flatten reqs.sum) := by
  have hspec := shake128_inc_eq_spec chunks reqs
  have hp := extracted_params
  rw [hp.2.2.2.2.2.2.2.2.2.2.2.1, hp.2.2.2.2.2.2.2.2.2.2.2.2.1, hp.2.2.2.2.2.2.2.2.2.2.2.2.2.1, hp.2.2.2.2.2.2.2.2.2.2.2.2.2.2.2.1] at hspec
  have ha := SqiProofs.SpongeGen.runAbsorbs_eq SqiGen.Keccak.keccakF fuel 168 ia chunks incInit (by decide) hfa
  have fin := (gen_shake_inc_finalize_eq_model SqiGen.Keccak.keccakF fuel (incAbsorbMany SqiGen.Keccak.keccakF 168 incInit chunks)).2
  obtain ⟨h', r1, r2⟩ := SqiProofs.SpongeGen.runSqueezes_eq SqiGen.Keccak.keccakF fuel 168 iq (by decide) reqs
    (incFinalize 168 0x1F (incAbsorbMany SqiGen.Keccak.keccakF 168 incInit chunks)) (by simp [incFinalize]) h off hl hfq
  refine ⟨_, _, _, _, (gen_shake_inc_init_eq_model SqiGen.Keccak.keccakF fuel ctx pos i0 h25).2, ha, fin, r1, ?_⟩
  rw [← hspec]
  exact r2

/-- `pad10*1` at bit level = the byte padding: for every rate r > 0 and every message, the FIPS 202 bit string
    M ‖ 1111 ‖ pad10*1(8r, |M| + 4) (Algorithm 9; bits packed into bytes least-significant first, Appendix B.1) is exactly
    `msg ++ padBytes r 0x1F |msg|` — suffix byte 0x1F, zero bytes, 0x80 in byte r−1 of the last block, and the single byte
    0x9F when the two coincide (|msg| ≡ r−1 mod r).  `Fips202.spongeWith` (hence `shake256_eq_spec`) absorbs that string. -/
theorem pad10star1_bits_eq_bytes (r : Nat) (h0 : 0 < r) (msg : List UInt8) :
    Fips202.bitsBytes ((msg.length / r + 1) * r) (Fips202.shakePaddedBits r msg)
      = msg ++ Fips202.padBytes r 0x1F msg.length :=
  SqiProofs.Pad.shake_padding_bits r h0 msg

/-- the same for the SHA-3 suffix 01 (domain byte 0x06; single-byte case 0x86) -/
theorem pad10star1_bits_eq_bytes_sha3 (r : Nat) (h0 : 0 < r) (msg : List UInt8) :
    Fips202.bitsBytes ((msg.length / r + 1) * r)
        (Fips202.bytesBits msg ++ [false, true] ++ Fips202.pad101 (8 * r) (8 * msg.length + 2))
      = msg ++ Fips202.padBytes r 0x06 msg.length :=
  SqiProofs.Pad.sha3_padding_bits r h0 msg

set_option maxRecDepth 10000 in
example : Fips202.padBytes 136 0x1F 135 = [0x9F] ∧ Fips202.padBytes 136 0x1F 134 = [0x1F, 0x80] ∧
    (Fips202.padBytes 136 0x1F 0).length = 136 := by decide

/-! ### non-vacuity: NIST example values, kernel-evaluated in SqiProofs.C20Kat (specification only) -/
example : Fips202.shake256 [] 32 = [0x46, 0xb9, 0xdd, 0x2b, 0x0b, 0xa8, 0x8d, 0x13, 0x23, 0x3b, 0x3f, 0xeb, 0x74, 0x3e,
    0xeb, 0x24, 0x3f, 0xcd, 0x52, 0xea, 0x62, 0xb8, 0x1b, 0x82, 0xb5, 0x0c, 0x27, 0x64, 0x6e, 0xd5, 0x76, 0x2f] :=
  SqiProofs.C20Kat.kat_shake256_empty
example : Fips202.shake128 [] 32 = [0x7f, 0x9c, 0x2b, 0xa4, 0xe8, 0x8f, 0x82, 0x7d, 0x61, 0x60, 0x45, 0x50, 0x76, 0x05,
    0x85, 0x3e, 0xd7, 0x3b, 0x80, 0x93, 0xf6, 0xef, 0xbc, 0x88, 0xeb, 0x1a, 0x6e, 0xac, 0xfa, 0x66, 0xef, 0x26] :=
  SqiProofs.C20Kat.kat_shake128_empty
/-- hence, through `shake256_eq_spec`, the *model of the C code* produces the NIST value -/
example : shakeOneShot SqiGen.Keccak.keccakF SqiGen.Keccak.shake256_absorb_rate SqiGen.Keccak.shake256_absorb_domain
      SqiGen.Keccak.shake256_squeezeblocks_rate SqiGen.Keccak.shake256_oneshot_rate [] 32
    = [0x46, 0xb9, 0xdd, 0x2b, 0x0b, 0xa8, 0x8d, 0x13, 0x23, 0x3b, 0x3f, 0xeb, 0x74, 0x3e,
    0xeb, 0x24, 0x3f, 0xcd, 0x52, 0xea, 0x62, 0xb8, 0x1b, 0x82, 0xb5, 0x0c, 0x27, 0x64, 0x6e, 0xd5, 0x76, 0x2f] := by
  rw [shake256_eq_spec]; exact SqiProofs.C20Kat.kat_shake256_empty
example : GoodParams 136 0x1F ∧ GoodParams 168 0x1F ∧ GoodParams 136 0x06 := by decide

/-! ## (c) hash_to_challenge: the hash input is an injective encoding of (j(E_com), j(E_pk), message) -/
open SqiModel.Challenge in
/-- With fixed-width encodings of the two j-invariants (width w = FP2_ENCODED_BYTES), the buffer handed to SHAKE256
    determines both encodings and the message: in particular two inputs that differ in any message byte, or in the
    message length, are different hash inputs.  (That different inputs give different challenges is the collision
    resistance of SHAKE256 — an assumption, not a theorem.) -/
theorem hashInput_injective (w : Nat) (j1 j2 m j1' j2' m' : List UInt8)
    (h1 : j1.length = w) (h1' : j1'.length = w) (h2 : j2.length = w) (h2' : j2'.length = w)
    (h : hashInput j1 j2 m = hashInput j1' j2' m') : j1 = j1' ∧ j2 = j2' ∧ m = m' :=
  SqiProofs.Challenge.hashInput_inj w j1 j2 m j1' j2' m' h1 h1' h2 h2' h

open SqiModel.Challenge in
/-- a different message (some byte differs, or the length differs) gives a different hash input -/
theorem hashInput_message_sensitive (j1 j2 m m' : List UInt8) (h : m ≠ m') :
    hashInput j1 j2 m ≠ hashInput j1 j2 m' := by
  intro e
  exact h (List.append_cancel_left e)

open SqiModel.Challenge in
theorem hashInput_length_sensitive (j1 j2 m m' : List UInt8) (h : m.length ≠ m'.length) :
    hashInput j1 j2 m ≠ hashInput j1 j2 m' :=
  hashInput_message_sensitive j1 j2 m m' (fun e => h (by rw [e]))

open SqiModel.Challenge in
/-- the challenge (all three variants: `iters` = 0 resp. SQIsign2D_heuristic_challenge_hash_iteration) depends on the
    curves only through the encodings of their j-invariants: curve models with the same j-invariant encodings (projective
    rescalings, isomorphic models — C08 proves `ec_j_inv` invariant) and the same message give the same challenge. -/
theorem challenge_depends_only_on_j (xof : List UInt8 → Nat → List UInt8) (nwords iters : Nat)
    (j1 j2 j1' j2' msg : List UInt8) (e1 : j1 = j1') (e2 : j2 = j2') :
    hashToChallenge xof nwords iters j1 j2 msg = hashToChallenge xof nwords iters j1' j2' msg := by
  rw [e1, e2]

open SqiModel.Challenge in
/-- the challenge is a function of the hash input alone -/
theorem challenge_factors (xof : List UInt8 → Nat → List UInt8) (nwords iters : Nat) (j1 j2 msg : List UInt8) :
    hashToChallenge xof nwords iters j1 j2 msg
      = (1, leNat (iter (fun d => xof d (8 * nwords)) iters (xof (hashInput j1 j2 msg) (8 * nwords)))) := rfl

/-- the call sequence of `hash_to_challenge`, re-extracted from each of the three sign.c files on every run (tie T:
    malloc size, which curve each j-invariant comes from, the three writes into `buf` with their offsets, the SHAKE256
    input length, the re-hash loop and its bound macro, the scalar conversion), is the sequence the model describes -/
theorem h2c_scripts_extracted :
    SqiGen.Challenge.dim2 = SqiModel.Challenge.expectedScript false ∧
    SqiGen.Challenge.heuristic = SqiModel.Challenge.expectedScript true ∧
    SqiGen.Challenge.hd = SqiModel.Challenge.expectedScript true := by decide

open SqiModel.Challenge in
/-- hence the extracted sequence of sqisigndim2 computes `hashToChallenge` with no re-hash: the SHAKE256 input is exactly
    enc j(E_com) ‖ enc j(E_pk) ‖ message (all `length` bytes of it) for every message and every pair of w-byte encodings -/
theorem h2c_dim2_eq_model (xof : List UInt8 → Nat → List UInt8) (w nwords ic : Nat) (jcom jpk msg : List UInt8)
    (h1 : jcom.length = w) (h2 : jpk.length = w) :
    SqiGen.Challenge.dim2.run xof w nwords ic jcom jpk msg = hashToChallenge xof nwords 0 jcom jpk msg := by
  rw [h2c_scripts_extracted.1]; exact SqiProofs.Challenge.expected_run xof false w nwords ic jcom jpk msg h1 h2

open SqiModel.Challenge in
/-- the heuristic and HD variants: the same input, re-hashed `ic` = SQIsign2D_heuristic_challenge_hash_iteration times -/
theorem h2c_heuristic_eq_model (xof : List UInt8 → Nat → List UInt8) (w nwords ic : Nat) (jcom jpk msg : List UInt8)
    (h1 : jcom.length = w) (h2 : jpk.length = w) :
    SqiGen.Challenge.heuristic.run xof w nwords ic jcom jpk msg = hashToChallenge xof nwords ic jcom jpk msg ∧
    SqiGen.Challenge.hd.run xof w nwords ic jcom jpk msg = hashToChallenge xof nwords ic jcom jpk msg := by
  rw [h2c_scripts_extracted.2.1, h2c_scripts_extracted.2.2]
  exact ⟨SqiProofs.Challenge.expected_run xof true w nwords ic jcom jpk msg h1 h2,
    SqiProofs.Challenge.expected_run xof true w nwords ic jcom jpk msg h1 h2⟩

open SqiModel.Challenge in
/-- the reduction step: scalars[0] = 1 and scalars[1] is the little-endian integer of the NWORDS_FIELD digits, so
    0 ≤ challenge < 2^(64·NWORDS_FIELD) whenever the XOF returns the requested 8·NWORDS_FIELD bytes, and it depends on nothing
    but the (iterated) hash output (`challenge_factors`) -/
theorem challenge_range (xof : List UInt8 → Nat → List UInt8) (hx : ∀ m n, (xof m n).length = n) (nwords iters : Nat)
    (j1 j2 msg : List UInt8) :
    (hashToChallenge xof nwords iters j1 j2 msg).1 = 1 ∧
    (hashToChallenge xof nwords iters j1 j2 msg).2 < 2 ^ (64 * nwords) := by
  refine ⟨rfl, ?_⟩
  have hl := SqiProofs.Challenge.challengeDigits_length xof hx nwords iters j1 j2 msg
  have := SqiProofs.Challenge.leNat_lt (challengeDigits xof nwords iters j1 j2 msg)
  rw [hl] at this
  have e : (256 : Nat) ^ (8 * nwords) = 2 ^ (64 * nwords) := by
    rw [show (256 : Nat) = 2 ^ 8 by rfl, ← Nat.pow_mul]; congr 1; omega
  rw [← e]; exact this

/-- the per-level constants the three variants instantiate the model with (FP2_ENCODED_BYTES, NWORDS_FIELD, iteration count) -/
theorem h2c_level_constants :
    SqiGen.L1.D_FP2_ENCODED_BYTES = 64 ∧ SqiGen.L1.D_NWORDS_FIELD = 4 ∧ SqiGen.L1.D_SQIsign2D_heuristic_challenge_hash_iteration = 16 ∧
    SqiGen.L3.D_FP2_ENCODED_BYTES = 96 ∧ SqiGen.L3.D_NWORDS_FIELD = 6 ∧ SqiGen.L3.D_SQIsign2D_heuristic_challenge_hash_iteration = 256 ∧
    SqiGen.L5.D_FP2_ENCODED_BYTES = 128 ∧ SqiGen.L5.D_NWORDS_FIELD = 8 ∧ SqiGen.L5.D_SQIsign2D_heuristic_challenge_hash_iteration = 64 ∧
    SqiGen.L1.D_FP2_ENCODED_BYTES = 2 * (8 * SqiGen.L1.D_NWORDS_FIELD) ∧ SqiGen.L3.D_FP2_ENCODED_BYTES = 2 * (8 * SqiGen.L3.D_NWORDS_FIELD) ∧
    SqiGen.L5.D_FP2_ENCODED_BYTES = 2 * (8 * SqiGen.L5.D_NWORDS_FIELD) := by decide

example : SqiModel.Challenge.hashInput [1, 2] [3, 4] [5] ≠ SqiModel.Challenge.hashInput [1, 2] [3, 4] [5, 0] := by decide

/-! ## (d) the deterministic generator -/
/-- `randombytes(x, n)` writes exactly n bytes (E = the block cipher, 16-byte blocks under the current key) -/
theorem randombytes_length (E : List UInt8 → List UInt8 → List UInt8) (st : Drbg.Model.St)
    (hE : ∀ v, (E st.key v).length = 16) (n : Nat) : (Drbg.Model.randombytes E st n).1.length = n :=
  SqiProofs.Drbg.randombytes_length E st hE n

/-- same seed, same request sequence ⇒ same bytes: the whole history is a function of (seed, personalization, request
    sizes) — there is no other input (no clock, no counter outside the state) in the model that corresponds to the code -/
theorem randombytes_deterministic (E : List UInt8 → List UInt8 → List UInt8) (seed seed' : List UInt8)
    (pers pers' : Option (List UInt8)) (reqs reqs' : List Nat) (h1 : seed = seed') (h2 : pers = pers') (h3 : reqs = reqs') :
    Drbg.Model.run E (Drbg.Model.init E seed pers) reqs = Drbg.Model.run E (Drbg.Model.init E seed' pers') reqs' := by
  rw [h1, h2, h3]

/-- the literals of the two `increment V` loops of randombytes_ctrdrbg.c (re-extracted on every run; tie T), the array
    sizes of `AES256_CTR_DRBG_struct` and the number of blocks of the Update function are the ones the model assumes:
    both loops run j = 15 … 0 over V[16], test against 0xff, reset to 0x00 -/
theorem ctr_increment_extracted :
    SqiGen.Drbg.V_LEN = 16 ∧ SqiGen.Drbg.KEY_LEN = 32 ∧ SqiGen.Drbg.UPD_BLOCKS = 3 ∧
    SqiGen.Drbg.gen_hi = 15 ∧ SqiGen.Drbg.gen_lo = 0 ∧ SqiGen.Drbg.gen_cmp = 0xff ∧ SqiGen.Drbg.gen_reset = 0 ∧
    SqiGen.Drbg.gen_cmp_int = 255 ∧ SqiGen.Drbg.gen_reset_int = 0 ∧
    SqiGen.Drbg.upd_hi = 15 ∧ SqiGen.Drbg.upd_lo = 0 ∧ SqiGen.Drbg.upd_cmp = 0xff ∧ SqiGen.Drbg.upd_reset = 0 ∧
    SqiGen.Drbg.upd_cmp_int = 255 ∧ SqiGen.Drbg.upd_reset_int = 0 := by decide

/-- the increment loop of `randombytes_nist`, with the extracted literals, is `V := (V + 1) mod 2^128` on the big-endian
    value of V — for every 16-byte V (all carry chains, including the wrap of all-ones to zero) — and is the `incV` the
    DRBG model (and hence `randombytes_eq_spec`) uses -/
theorem ctr_increment_gen_eq_spec (v : List UInt8) (h : v.length = SqiGen.Drbg.V_LEN) :
    Drbg.Model.incLoop SqiGen.Drbg.gen_hi SqiGen.Drbg.gen_lo SqiGen.Drbg.gen_cmp SqiGen.Drbg.gen_reset v
      = Drbg.beBytes 16 ((Drbg.beNat v + 1) % 2 ^ 128) ∧
    Drbg.Model.incLoop SqiGen.Drbg.gen_hi SqiGen.Drbg.gen_lo SqiGen.Drbg.gen_cmp SqiGen.Drbg.gen_reset v
      = Drbg.Model.incV v := by
  have e := ctr_increment_extracted
  rw [e.1] at h
  rw [e.2.2.2.1, e.2.2.2.2.1, e.2.2.2.2.2.1, e.2.2.2.2.2.2.1, SqiProofs.Drbg.incLoop_eq_incV v 15 h]
  exact ⟨SqiProofs.Drbg.incV_eq v h, rfl⟩

/-- the same for the increment loop inside `AES256_CTR_DRBG_Update` -/
theorem ctr_increment_upd_eq_spec (v : List UInt8) (h : v.length = SqiGen.Drbg.V_LEN) :
    Drbg.Model.incLoop SqiGen.Drbg.upd_hi SqiGen.Drbg.upd_lo SqiGen.Drbg.upd_cmp SqiGen.Drbg.upd_reset v
      = Drbg.beBytes 16 ((Drbg.beNat v + 1) % 2 ^ 128) ∧
    Drbg.Model.incLoop SqiGen.Drbg.upd_hi SqiGen.Drbg.upd_lo SqiGen.Drbg.upd_cmp SqiGen.Drbg.upd_reset v
      = Drbg.Model.incV v := by
  have e := ctr_increment_extracted
  rw [e.1] at h
  rw [e.2.2.2.2.2.2.2.2.2.1, e.2.2.2.2.2.2.2.2.2.2.1, e.2.2.2.2.2.2.2.2.2.2.2.1, e.2.2.2.2.2.2.2.2.2.2.2.2.1,
    SqiProofs.Drbg.incLoop_eq_incV v 15 h]
  exact ⟨SqiProofs.Drbg.incV_eq v h, rfl⟩

/-- non-vacuity / carry chains: low 4 bytes all ones carries into byte 11; all-ones wraps to zero -/
example : Drbg.Model.incLoop 15 0 0xff 0 [1, 2, 3, 4, 5, 6, 7, 8, 9, 10, 11, 12, 0xff, 0xff, 0xff, 0xff]
    = [1, 2, 3, 4, 5, 6, 7, 8, 9, 10, 11, 13, 0, 0, 0, 0] ∧
    Drbg.Model.incLoop 15 0 0xff 0 (List.replicate 16 0xff) = List.replicate 16 0 := by decide
/-- … and a loop that stops at j = 12 is *not* the specification increment (the seeded change C20-m2) -/
example : Drbg.Model.incLoop 15 12 0xff 0 [1, 2, 3, 4, 5, 6, 7, 8, 9, 10, 11, 12, 0xff, 0xff, 0xff, 0xff]
    ≠ Drbg.Model.incV [1, 2, 3, 4, 5, 6, 7, 8, 9, 10, 11, 12, 0xff, 0xff, 0xff, 0xff] := by decide

/-- `randombytes` refines SP 800-90A CTR_DRBG_Generate (V an integer mod 2^128, no additional input, update with
    0^384): the bytes returned are the specification's, the new (Key, V, reseed_counter) is the specification's, and the
    invariant |V| = 16 is kept.  Generic in the block cipher E (16-byte blocks under the current key). -/
theorem randombytes_eq_spec (E : List UInt8 → List UInt8 → List UInt8) (st : Drbg.Model.St)
    (hE : ∀ v, v.length = 16 → (E st.key v).length = 16) (hv : st.v.length = 16) (n : Nat) :
    (Drbg.Model.randombytes E st n).1 = (Drbg.Spec.generate E (Drbg.abs st) n).1 ∧
    Drbg.abs (Drbg.Model.randombytes E st n).2 = (Drbg.Spec.generate E (Drbg.abs st) n).2 ∧
    (Drbg.Model.randombytes E st n).2.v.length = 16 :=
  SqiProofs.Drbg.randombytes_refines E st hE hv n

/-! ### AES_256_ECB end to end, and the DRBG with the real cipher -/

/-- **`AES_256_ECB` of aes_c.c is FIPS 197 AES-256**: key schedule (`br_aes_ct64_keysched` with `sub_word`,
    `br_aes_ct64_skey_expand`), `aes_ecb` with one block (the other three lanes of the 4-block batch hold uninitialised stack
    words — `garbage`, arbitrary), `br_range_dec32le` / `br_range_enc32le`, `aes_ecb4x`; for every 32-byte key and 16-byte block.
    The straight-line parts are translated (SqiGen.Aes), the control code around them is text-checked by the translator and
    modelled in SqiModel.AesCt (tie H: ops aes.enc256 / aesct.*). -/
theorem aes256_ecb_eq_spec (garbage : List UInt64) (hg : garbage.length = 12) (key block : List UInt8)
    (hk : key.length = 32) (hb : block.length = 16) :
    AesCt.aes256Ecb garbage key block = Aes.aes256 key block :=
  SqiProofs.AesCt.aes256Ecb_eq_spec garbage hg key block hk hb

/-- the key schedule part on its own: the expanded key satisfies the hypothesis of `aes_ecb4x_eq_spec` -/
theorem aes_key_schedule_eq_spec (key : List UInt8) (hk : key.length = 32) (r : Nat) (hr : r ≤ 14) (blk : Nat) (hb : blk < 4) :
    AesCt.unslice (((AesCt.skeyExpand (AesCt.keysched key)).drop (8 * r)).take 8) blk
      = Aes.roundKey (Aes.keyExpansion key 14) r :=
  SqiProofs.AesCt.skExp_keys key hk r hr blk hb

/-- the schedule words of the C loop (uint32 little-endian) are FIPS 197 KeyExpansion -/
theorem aes_key_expansion_eq_spec (key : List UInt8) (hk : key.length = 32) :
    (AesCt.expandWords key).map AesCt.enc32le = Aes.keyExpansion key 14 :=
  SqiProofs.AesCt.expandWords_eq key hk

/-- **the DRBG with AES-256 plugged in (no cipher hypothesis left)**: from `randombytes_init(entropy, NULL)` with a 48-byte
    seed, every request history of the model is the SP 800-90A CTR_DRBG(AES-256) history of the specification; Key stays
    32 bytes and V 16 bytes, so every cipher call is one that `aes256_ecb_eq_spec` covers. -/
theorem randombytes_aes_history_eq_spec (entropy : List UInt8) (he : entropy.length = 48) (reqs : List Nat) :
    (Drbg.Model.run Aes.aes256 (Drbg.Model.init Aes.aes256 entropy none) reqs).1
      = (SqiProofs.Drbg.specRun Aes.aes256 (Drbg.Spec.instantiate Aes.aes256 entropy []) reqs).1 := by
  have hE : ∀ k v, k.length = 32 → v.length = 16 → (Aes.aes256 k v).length = 16 :=
    fun k v hk _ => SqiProofs.AesCt.aes256_length k hk v
  have hE0 : ∀ v, v.length = 16 → (Aes.aes256 (List.replicate 32 0) v).length = 16 := fun v hv => hE _ v (by simp) hv
  have hl := SqiProofs.Drbg.init_lengths Aes.aes256 hE0 entropy (by omega)
  have h := SqiProofs.Drbg.run_refines Aes.aes256 hE _ hl.1 hl.2 reqs
  rw [SqiProofs.Drbg.init_refines Aes.aes256 hE0 entropy] at h
  exact h.1

/-- one request with the real cipher -/
theorem randombytes_aes_eq_spec (st : Drbg.Model.St) (hk : st.key.length = 32) (hv : st.v.length = 16) (n : Nat) :
    (Drbg.Model.randombytes Aes.aes256 st n).1 = (Drbg.Spec.generate Aes.aes256 (Drbg.abs st) n).1 ∧
    Drbg.abs (Drbg.Model.randombytes Aes.aes256 st n).2 = (Drbg.Spec.generate Aes.aes256 (Drbg.abs st) n).2 ∧
    (Drbg.Model.randombytes Aes.aes256 st n).1.length = n :=
  let h := SqiProofs.Drbg.randombytes_refines Aes.aes256 st (fun v _ => SqiProofs.AesCt.aes256_length _ hk v) hv n
  ⟨h.1, h.2.1, SqiProofs.Drbg.randombytes_length Aes.aes256 st (fun v => SqiProofs.AesCt.aes256_length _ hk v) n⟩

/-- `randombytes_init(entropy, NULL, ·)` is CTR_DRBG_Instantiate without df and with empty personalization string -/
theorem randombytes_init_eq_spec (E : List UInt8 → List UInt8 → List UInt8)
    (hE : ∀ v, v.length = 16 → (E (List.replicate 32 0) v).length = 16)
    (entropy : List UInt8) : Drbg.abs (Drbg.Model.init E entropy none) = Drbg.Spec.instantiate E entropy [] :=
  SqiProofs.Drbg.init_refines E hE entropy

/-- … and with a (48-byte) personalization string: seed_material = entropy ⊕ personalization -/
theorem randombytes_init_pers_eq_spec (E : List UInt8 → List UInt8 → List UInt8)
    (hE : ∀ v, v.length = 16 → (E (List.replicate 32 0) v).length = 16)
    (entropy pers : List UInt8) (hp : pers.length = 48) :
    Drbg.abs (Drbg.Model.init E entropy (some pers)) = Drbg.Spec.instantiate E entropy pers :=
  SqiProofs.Drbg.init_refines_pers E hE entropy pers hp

/-- every request history of the model is the specification's history (induction over the request list; Key stays 32 bytes) -/
theorem randombytes_history_eq_spec (E : List UInt8 → List UInt8 → List UInt8)
    (hE : ∀ k v, k.length = 32 → v.length = 16 → (E k v).length = 16)
    (st : Drbg.Model.St) (hk : st.key.length = 32) (hv : st.v.length = 16) (reqs : List Nat) :
    (Drbg.Model.run E st reqs).1 = (SqiProofs.Drbg.specRun E (Drbg.abs st) reqs).1 ∧
    Drbg.abs (Drbg.Model.run E st reqs).2 = (SqiProofs.Drbg.specRun E (Drbg.abs st) reqs).2 :=
  SqiProofs.Drbg.run_refines E hE st hk hv reqs

/-- non-vacuity of `hv`: the state right after `randombytes_init` has |V| = 16 whenever the cipher returns 16-byte blocks
    (here: E constant) -/
example : (Drbg.Model.init (fun _ _ => List.replicate 16 7) (List.replicate 48 1) none).v.length = 16 := by decide

/-- the block cipher specification meets the hypothesis `hE` on a concrete instance and reproduces FIPS 197 C.3 -/
example : (Aes.aes256 ((List.range 32).map (·.toUInt8)) ((List.range 16).map (fun i => (17 * i).toUInt8))).length = 16 := by
  rw [SqiProofs.C20Kat.kat_aes256]; rfl

/-! ## (d′) AES: the bitsliced constant-time code of aes_c.c, translated (tie T), equals FIPS 197
   `SqiGen.Aes.*_prog` are the register programs re-extracted from br_aes_ct64_bitslice_Sbox, shift_rows, mix_columns,
   add_round_key, br_aes_ct64_ortho, br_aes_ct64_interleave_in/out; `SqiModel.AesCt` composes them like aes_ecb4x does.
   `unslice q blk` reads block blk out of the bitsliced registers (q[b] bit 16r+4c+blk = bit b of byte (r,c)). -/

/-- the S-box defined by GF(2^8) inversion + affine map is the table of FIPS 197 Figure 7 -/
theorem aes_sbox_is_fips_table (n : Nat) (h : n < 256) : Aes.sbox (UInt8.ofNat n) = UInt8.ofNat (Aes.sboxTable.getD n 0) :=
  SqiProofs.AesSpec.sbox_table n h

/-- the Boyar–Peralta S-box circuit of the C code is SubBytes, on every block of every bitsliced state -/
theorem aes_sbox_circuit_eq_spec (q : List UInt64) (hq : q.length = 8) (blk : Nat) (hb : blk < 4) :
    AesCt.unslice (AesCt.sboxQ q) blk = Aes.subBytes (AesCt.unslice q blk) :=
  SqiProofs.AesCt.sboxQ_eq' q hq blk hb

theorem aes_shift_rows_eq_spec (q : List UInt64) (hq : q.length = 8) (blk : Nat) (hb : blk < 4) :
    AesCt.unslice (AesCt.shiftRowsQ q) blk = Aes.shiftRows (AesCt.unslice q blk) :=
  SqiProofs.AesCt.shiftRowsQ_eq q hq blk hb

theorem aes_mix_columns_eq_spec (q : List UInt64) (hq : q.length = 8) (blk : Nat) (hb : blk < 4) :
    AesCt.unslice (AesCt.mixColumnsQ q) blk = Aes.mixColumns (AesCt.unslice q blk) :=
  SqiProofs.AesCt.mixColumnsQ_eq q hq blk hb

theorem aes_add_round_key_eq_spec (q sk : List UInt64) (hq : q.length = 8) (hsk : sk.length = 8) (blk : Nat) (hb : blk < 4) :
    AesCt.unslice (AesCt.addRoundKeyQ q sk) blk = Aes.xorBytes (AesCt.unslice q blk) (AesCt.unslice sk blk) :=
  SqiProofs.AesCt.addRoundKeyQ_eq q sk hq hsk blk hb

/-- entry sequence (interleave_in ×4, ortho): the four input blocks appear in the bitsliced layout -/
theorem aes_slice_in_eq_spec (w : List UInt64) (hw : w.length = 16) (blk : Nat) (hb : blk < 4) :
    AesCt.unslice (AesCt.sliceIn w) blk = ((w.drop (4 * blk)).take 4).flatMap AesCt.enc32le :=
  SqiProofs.AesCt.sliceIn_eq w hw blk hb

/-- `aes_ecb4x` (entry sequence, AddRoundKey, nr−1 full rounds, final round, exit sequence) = FIPS 197 Cipher on each of the
    four blocks — for every input, every nr, and every expanded key `skExp` whose round-r words are the bitsliced round key r
    in all four lanes.  (That br_aes_ct64_keysched + br_aes_ct64_skey_expand produce such an `skExp` is the part of AES that
    remains correspondence-only: checked on every run for a set of keys by the op `aesct.keys`.) -/
theorem aes_ecb4x_eq_spec (w : List UInt64) (hw : w.length = 16) (skExp : List UInt64) (wk : List (List UInt8)) (nr : Nat)
    (hlen : 8 * (nr + 1) ≤ skExp.length)
    (hkeys : ∀ r, r ≤ nr → ∀ blk, blk < 4 → AesCt.unslice ((skExp.drop (8 * r)).take 8) blk = Aes.roundKey wk r) :
    AesCt.ecb4x w skExp nr =
      (List.range 4).flatMap fun blk => Aes.cipherWith wk nr (((w.drop (4 * blk)).take 4).flatMap AesCt.enc32le) :=
  SqiProofs.AesCt.ecb4x_eq w hw skExp wk nr hlen hkeys

/-! ## (e) secure clear (model; that the store is not elided is a run-time observation) -/
open SqiModel.Challenge in
theorem secure_clear_zeroes (buf : List UInt8) (size : Nat) (h : size ≤ buf.length) (i : Nat) (hi : i < size) :
    (secureClear buf size)[i]'(by rw [SqiProofs.Challenge.secureClear_length buf size h]; omega) = 0 :=
  SqiProofs.Challenge.secureClear_zero buf size h i hi

open SqiModel.Challenge in
theorem secure_clear_frame (buf : List UInt8) (size : Nat) (h : size ≤ buf.length) (i : Nat) (hi : size ≤ i)
    (hb : i < buf.length) :
    (secureClear buf size)[i]'(by rw [SqiProofs.Challenge.secureClear_length buf size h]; omega) = buf[i] :=
  SqiProofs.Challenge.secureClear_rest buf size h i hi hb

end SqiProps.C20

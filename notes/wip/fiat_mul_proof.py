#!/usr/bin/env python3
"""Generates lean/SqiProofs/FiatMul1.lean: symbolic-execution proof that the level-1 fiat `mul` program
(SqiGen.Fiat1.mul, re-extracted from fp_p5248.c) equals the generic word-by-word Montgomery model `montMul 4 p 1`.
The script only lays out names; every step is checked by Lean. Run by hand when the proof needs regenerating."""
import re, sys, os
ROOT = os.path.dirname(os.path.dirname(os.path.dirname(os.path.abspath(__file__))))
N = 4
W = 2 ** 64
P = 5 * 2 ** 248 - 1
MAXROUND = int(sys.argv[1]) if len(sys.argv) > 1 else N

src = open(os.path.join(ROOT, "lean", "SqiGen", "Fiat1.lean")).read()
body = src[src.index("def mul_code0"):src.index("def mul : Prog")]
ins = []
for m in re.finditer(r"\.(mulx|adc|sbb|cmov|mov|out) (\d+) (\d+)?", body):
    ins.append((m.group(1), int(m.group(2)), int(m.group(3)) if m.group(3) else None))
assert len(ins) == 25 + 27 * 3 + 13, len(ins)

def step(i):
    k, a, b = ins[i]
    if k == "mov":  return "fx_mov r%d e%d" % (a, a)
    if k == "mulx": return "fx_mulx r%d r%d e%d q%d" % (a, b, a, a)
    if k == "adc":  return "fx_adc r%d r%d e%d q%d" % (a, b, a, a)
    if k == "sbb":  return "fx_sbb r%d r%d q%d w%d e%d" % (a, b, a, a, a)
    if k == "cmov": return "fx_cmov r%d e%d" % (a, a)
    if k == "out":  return "fx_out o%d eo%d" % (a, a)

Wl = str(W)
def val(regs):   # little-endian value expression
    return " + ".join(("%s" % r) if i == 0 else "%d * (%s)" % (W ** i, r) for i, r in enumerate(regs))

out = []
A = out.append
A("""/-
The level-1 fiat multiplication IS the generic word-by-word Montgomery model, for ALL 4-limb inputs:
  evalBase W (run SqiGen.Fiat1.mul [[a0..a3],[b0..b3]]) = montMul 4 p 1 A B      (= Ref.fp_mul lvl1 A B)
by symbolic execution of the instruction list re-extracted from fp_p5248.c (tie T) with one invariant per round:
after round k the accumulator registers hold `montStep p 1 B T_k a_k`.  (Script-generated layout —
tools/gen/fiat_mul_proof.py — every step checked by Lean; `omega` only sees one round at a time.)
-/
import Mathlib.Tactic.Ring
import SqiGen.Fiat1
import SqiModel.GfRef
import SqiProofs.FiatExec

set_option maxRecDepth 100000
set_option maxHeartbeats 4000000
set_option linter.unusedSimpArgs false
set_option linter.unusedVariables false

namespace SqiProofs.FiatMul1
open SqiModel.Fiat SqiProofs.FiatExec SqiModel.Gf
""")
args_a = " ".join("a%d" % i for i in range(N)); args_b = " ".join("b%d" % i for i in range(N))
hyps = " ".join("(ha%d : a%d < %s)" % (i, i, Wl) for i in range(N)) + " " + " ".join("(hb%d : b%d < %s)" % (i, i, Wl) for i in range(N))
la = "[" + ", ".join("a%d" % i for i in range(N)) + "]"; lb = "[" + ", ".join("b%d" % i for i in range(N)) + "]"
Bexpr = val(["b%d" % i for i in range(N)])
A("theorem mul_rounds (%s %s : Nat) %s :" % (args_a, args_b, hyps))
A("    ∃ t0 t1 t2 t3 t4 : Nat, t0 < %s ∧ t1 < %s ∧ t2 < %s ∧ t3 < %s ∧ t4 ≤ 2 ∧" % (Wl, Wl, Wl, Wl))
A("      %s = montLoop %d 1 (%s) %s 0 ∧" % (val(["t0", "t1", "t2", "t3", "t4"]), P, Bexpr, la))
A("      SqiProofs.FiatExec.Post (fun o => True) (execS [%s, %s] ⟨[], []⟩ []) := by" % (la, lb))
A("  sorry")
# ---- main theorem, direct
A("")
A("theorem mul_correct (%s %s : Nat) %s :" % (args_a, args_b, hyps))
A("    evalBase SqiModel.Fiat.W (run SqiGen.Fiat1.mul [%s, %s]) = montMul 4 %d 1 (%s) (%s) := by" % (la, lb, P, val(["a%d" % i for i in range(N)]), Bexpr))
A("  apply run_of_post SqiGen.Fiat1.mul _ (fun o => evalBase SqiModel.Fiat.W o = _)")
A("  simp only [SqiGen.Fiat1.mul, SqiGen.Fiat1.mul_code0, SqiGen.Fiat1.mul_code1, List.cons_append, List.nil_append]")
A("  generalize hB : %s = Bv" % Bexpr)
modlems = ", ".join("Nat.mod_eq_of_lt ha%d" % i for i in range(N)) + ", " + ", ".join("Nat.mod_eq_of_lt hb%d" % i for i in range(N))
for k in range(N):
    A("  have hab%d : a%d * Bv = %s := by rw [← hB]; ring" % (k, k, val(["a%d * b%d" % (k, j) for j in range(N)])))
    for j in range(N):
        A("  have hm%d%d : a%d * b%d ≤ %d * %d := Nat.mul_le_mul (show a%d ≤ %d by omega) (show b%d ≤ %d by omega)" % (k, j, k, j, W - 1, W - 1, k, W - 1, j, W - 1))
pos = 0
areg = {0: 4, 1: 1, 2: 2, 3: 3}
T = None
for k in range(MAXROUND):
    n_ins = 25 if k == 0 else 27
    blk = list(range(pos, pos + n_ins)); pos += n_ins
    A("  -- round %d" % k)
    for i in blk:
        A("  " + step(i))
        kind, a, b = ins[i]
        if kind in ("mov", "mulx"):
            A("  try simp only [%s, Nat.mod_mod] at e%d" % (modlems, a))
    base = blk[4:] if k == 0 else blk
    if k == 0:
        for r, ai in ((1, 1), (2, 2), (3, 3), (4, 0)):
            A("  subst e%d" % r)
    G1 = base[0:8]
    if k == 0:
        G2, ADD2 = base[8:16], base[16:21]
        ADD1 = None
    else:
        ADD1, G2, ADD2, TOP = base[8:13], base[13:21], base[21:26], base[26]
    # note: after subst, register r4 etc. are replaced by a0..: products appear as a_k * b_j
    def limbs(G):
        return ["r%d" % ins[G[3]][1], "r%d" % ins[G[4]][1], "r%d" % ins[G[5]][1], "r%d" % ins[G[6]][1], "r%d" % ins[G[7]][1]]
    Pl, Ql = limbs(G1), limbs(G2)
    A("  have hP%d : %s = a%d * Bv := by omega" % (k, val(Pl), k))
    if k == 0:
        mreg = Pl[0]
        tsum = "0"
    else:
        U = ["r%d" % ins[i][1] for i in ADD1]
        cU = "r%d" % ins[ADD1[-1]][2]
        mreg = U[0]
        tsum = val(T)
    A("  have hQ%d : %s = %s * %d := by omega" % (k, val(Ql), mreg, P))
    V = ["r%d" % ins[i][1] for i in ADD2]
    cV = "r%d" % ins[ADD2[-1]][2]
    if k == 0:
        newT = V[1:] + [cV]
    else:
        top = "r%d" % ins[TOP][1]
        newT = V[1:] + [top]
    A("  have hI%d : %s + %d * (%s) = %s + a%d * Bv + %s * %d := by omega" % (k, V[0], W, val(newT), tsum, k, mreg, P))
    A("  have hM%d : %s = (%s + a%d * Bv) %% %d := by omega" % (k, mreg, tsum, k, W))
    A("  have hS%d : %s = montStep %d 1 Bv (%s) a%d := by" % (k, val(newT), P, tsum, k))
    A("    simp only [montStep, SqiModel.Gf.W, Nat.mul_one, Nat.mod_mod, Nat.reducePow]")
    A("    rw [← hM%d]; omega" % k)
    A("  have hT%d : %s ≤ 2 := by omega" % (k, newT[4]))
    # clear the round's equations
    names = []
    for i in blk:
        kind, a, b = ins[i]
        if kind in ("mulx", "adc"):
            names += ["e%d" % a]
        elif kind == "mov" and k > 0:
            names += ["e%d" % a]
        elif kind == "mov" and k == 0 and a > 4:
            names += ["e%d" % a]
    keepq = set("q%s" % r[1:] for r in newT)
    for i in blk:
        kind, a, b = ins[i]
        if kind in ("mulx", "adc") and ("q%d" % a) not in keepq:
            names.append("q%d" % a)
    A("  clear hP%d hQ%d hI%d hM%d %s" % (k, k, k, k, " ".join(names)))
    T = newT
A("  trace_state")
A("  sorry")
A("")
A("end SqiProofs.FiatMul1")
open(os.path.join(ROOT, "lean", "SqiProofs", "FiatMul1.lean"), "w").write("\n".join(out) + "\n")
print("written", len(out), "lines")

#!/usr/bin/env python3
"""Checks the C broadwell back-end against exact field arithmetic on in-range operands."""
import random, sys
from val import PAR, gen_elems, run_c, chunked

def main():
    seed = int(sys.argv[1]); N = int(sys.argv[2])
    for lvl in [1, 3, 5]:
        n, e, c, B = PAR[lvl]
        q = c * 2**e - 1; R = 2**(64*n); Ri = pow(R, -1, q)
        rng = random.Random(seed * 7 + lvl)
        E = gen_elems(rng, lvl)
        cases = []
        for _ in range(N):
            a, b = E(), E()
            x = rng.choice([rng.randrange(2**32), 2**32-1, rng.randrange(100)])
            cases += [("fp_add", a, b), ("fp_sub", a, b), ("fp_mul", a, b), ("fp_neg", a), ("fp_sqr", a), ("fp_half", a),
                      ("gf_mul_small", a, x), ("fp_set_small", x), ("fp_encode", a), ("fp_is_zero", a), ("fp_is_equal", a, b),
                      ("fp_inv", a), ("gf_sqrt", a), ("gf_legendre", a), ("gf_div", a, b), ("fp_is_square", a)]
            ln = rng.randrange(0, 200); v = rng.randrange(256**ln) if ln else 0
            cases.append(("gf_decode_reduce", ln, v))
        lines = ["%s 0 %s" % (c_[0], " ".join("%x" % t for t in c_[1:])) for c_ in cases]
        out = chunked(run_c, lvl, lines)
        bad = {}
        def fail(op, why, case, res):
            k = (op, why)
            bad.setdefault(k, []).append((case, res))
        for cs, res in zip(cases, out):
            op = cs[0]; r = [int(t, 16) for t in res.split()]
            a = cs[1]; b = cs[2] if len(cs) > 2 else None
            def chk(val, want):
                if val >= 2**B: fail(op, "range", cs, res)
                if (val - want) % q: fail(op, "value", cs, res)
            if op == "fp_add": chk(r[0], a + b)
            elif op == "fp_sub": chk(r[0], a - b)
            elif op == "fp_neg": chk(r[0], -a)
            elif op == "fp_mul": chk(r[0], a * b * Ri)
            elif op == "fp_sqr": chk(r[0], a * a * Ri)
            elif op == "fp_half": chk(r[0], a * pow(2, -1, q))
            elif op == "gf_mul_small": chk(r[0], a * b)
            elif op == "fp_set_small": chk(r[0], (a % 2**32) * R)
            elif op == "fp_encode":
                if r[0] != a * Ri % q: fail(op, "value", cs, res)
            elif op == "fp_is_zero":
                if r[0] != (0xffffffff if a % q == 0 else 0): fail(op, "value", cs, res)
            elif op == "fp_is_equal":
                if r[0] != (0xffffffff if (a - b) % q == 0 else 0): fail(op, "value", cs, res)
            elif op == "fp_inv":
                chk(r[0], pow(a * Ri, -1, q) * R if a % q else 0)
            elif op == "gf_div":
                chk(r[0], (a * pow(b, -1, q)) * R if b % q else 0)
                if r[1] != (0xffffffff if b % q else 0): fail(op, "flag", cs, res)
            elif op in ("gf_legendre", "fp_is_square"):
                av = a * Ri % q
                ls = 0 if av == 0 else (1 if pow(av, (q-1)//2, q) == 1 else -1)
                want = (ls % 2**32) if op == "gf_legendre" else (0 if ls == -1 else 0xffffffff)
                if r[0] != want: fail(op, "value", cs, res)
            elif op == "gf_sqrt":
                av = a * Ri % q
                sq = av == 0 or pow(av, (q-1)//2, q) == 1
                y = r[0] * Ri % q
                if r[0] >= 2**B: fail(op, "range", cs, res)
                if y % 2: fail(op, "parity", cs, res)
                if r[1] != (0xffffffff if sq else 0): fail(op, "flag", cs, res)
                if (y * y - (av if sq else -av)) % q: fail(op, "value", cs, res)
            elif op == "gf_decode_reduce":
                chk(r[0], (b % 256**a) * R)
        print("lvl%d: %d cases" % (lvl, len(cases)))
        for k, v in sorted(bad.items()):
            print("  FAIL", k, len(v))
            for cs, res in v[:2]:
                print("     ", cs[0], " ".join("%x" % t for t in cs[1:]), "->", res)

main()

#!/usr/bin/env python3
"""C vs Lean model differential test for the broadwell GF back-end."""
import random, subprocess, sys, os
from concurrent.futures import ThreadPoolExecutor

LEAN = "/work/a1/x86/verif/lean/.lake/build/bin/driver"
CDRV = "/work/a1/tmp/keep/drv_gf_broadwell_%d"
PAR = {1: (4, 248, 5, 251), 3: (6, 376, 65, 383), 5: (8, 500, 27, 505)}

def hx(v): return "%x" % v

def gen_elems(rng, lvl, full=False):
    n, e, c, B = PAR[lvl]
    q = c * 2**e - 1
    R = 2**(64*n)
    top = R if full else 2**B
    def clamp(v): return v % top
    def one():
        k = rng.randrange(14)
        if k == 0: return rng.choice([0, 1, 2, q, q+1, q-1, 2*q % top, (2*q+1) % top, top-1, top-2, q+2, (q+1)//2, (q-1)//2, 2**e, 2**e-1, (c-1)*2**e, c*2**e])
        if k == 1: return clamp(2**rng.randrange(64*n) + rng.choice([-1, 0, 1]))
        if k == 2: return clamp(sum((2**64-1) << (64*i) for i in range(n) if rng.random() < .5))
        if k == 3: return clamp(sum((1 << rng.randrange(64)) << (64*i) for i in range(n) if rng.random() < .7))
        if k == 4: return clamp(q - rng.randrange(1 << rng.randrange(1, 70)))
        if k == 5: return clamp(q + rng.randrange(1 << rng.randrange(1, 70)))
        if k == 6: return clamp(top - 1 - rng.randrange(1 << rng.randrange(1, 70)))
        if k == 7: return rng.randrange(1 << rng.randrange(1, 64*n)) % top
        if k == 8:  # limbs of 0 / all-ones / random
            return clamp(sum(rng.choice([0, 2**64-1, rng.randrange(2**64), 1, 2**63]) << (64*i) for i in range(n)))
        if k == 9: return rng.randrange(q, top)
        if k == 10: return rng.randrange(1 << rng.randrange(1, 40))
        return rng.randrange(top)
    return one

def gen_lines(rng, lvl, N, full=False, heavy=True):
    n, e, c, B = PAR[lvl]
    q = c * 2**e - 1
    R = 2**(64*n)
    E = gen_elems(rng, lvl, full)
    L = []
    def ctl(): return rng.choice([0, 0xffffffff])
    for _ in range(N):
        a, b = E(), E()
        if rng.random() < .1: b = a
        if rng.random() < .05: b = (a + q) % (R if full else 2**B)
        L.append("fp_add 0 %x %x" % (a, b))
        L.append("fp_sub 0 %x %x" % (a, b))
        L.append("fp_mul 0 %x %x" % (a, b))
        L.append("fp_neg 0 %x" % a)
        L.append("fp_sqr 0 %x" % a)
        L.append("fp_half 0 %x" % a)
        L.append("fp_is_zero 0 %x" % a)
        L.append("fp_is_equal 0 %x %x" % (a, b))
        L.append("fp_select 0 %x %x %x" % (a, b, ctl()))
        L.append("fp_cswap 0 %x %x %x" % (a, b, ctl()))
        L.append("fp_set_small 0 %x" % rng.choice([rng.randrange(2**32), rng.randrange(2**64), rng.randrange(70), 2**32-1, 2**32, 2**64-1, 2**32 + 5]))
        L.append("fp_encode 0 %x" % a)
        v = rng.choice([rng.randrange(R), rng.randrange(q), q, q-1, q+1, 0, 1, R-1, E()])
        L.append("fp_decode 0 %x" % v)
        L.append("gf_mul_small 0 %x %x" % (a, rng.choice([rng.randrange(2**32), rng.randrange(70), 2**32-1, 0, 1, 2**31])))
        L.append("gf_xsquare 0 %x %x" % (a, rng.randrange(0, 6)))
        # stale-carry pattern of mul_small: top limb 2^32+1, next limb all ones, x = 2^32-1
        am = ((2**32 + 1) << (64*(n-1))) | ((2**64 - 1) << (64*(n-2))) | rng.randrange(2**(64*(n-2)))
        L.append("gf_mul_small 0 %x %x" % (am, 0xffffffff))
        ln = rng.choice([rng.randrange(0, 201), 8*n*rng.randrange(0, 5), 8*n*rng.randrange(0, 5) + rng.choice([1, 8*n-1])])
        vv = rng.randrange(256**ln) if ln else 0
        if rng.random() < .2 and ln: vv = 256**ln - 1
        L.append("gf_decode_reduce 0 %x %x" % (ln, vv))
        if heavy:
            L.append("fp_inv 0 %x" % a)
            L.append("fp_sqrt 0 %x" % a)
            L.append("fp_is_square 0 %x" % a)
            L.append("gf_div 0 %x %x" % (a, b))
            L.append("gf_invert 0 %x" % a)
            L.append("gf_sqrt 0 %x" % a)
            L.append("gf_legendre 0 %x" % a)
    L += ["fp_set_one 0", "fp_set_zero 0"]
    # a few fp2 ops through the generic layer
    for _ in range(max(1, N // 10)):
        a, b, c2, d = E(), E(), E(), E()
        L.append("fp2_mul 0 %x %x %x %x" % (a, b, c2, d))
        L.append("fp2_sqr 0 %x %x" % (a, b))
        if heavy:
            L.append("fp2_inv 0 %x %x" % (a, b))
            L.append("fp2_sqrt 0 %x %x" % (a, b))
            L.append("fp2_is_square 0 %x %x" % (a, b))
    return L

def run_c(lvl, lines):
    p = subprocess.run([CDRV % lvl], input="\n".join(lines) + "\n", capture_output=True, text=True)
    return [l[2:].strip() for l in p.stdout.splitlines() if l.startswith("R ")]

def run_lean(lvl, lines):
    p = subprocess.run([LEAN], input="\n".join("gf %d bw %s" % (lvl, l) for l in lines) + "\n", capture_output=True, text=True)
    return [l.strip() for l in p.stdout.splitlines()]

def chunked(f, lvl, lines, nproc=14):
    k = max(1, (len(lines) + nproc - 1) // nproc)
    chunks = [lines[i:i+k] for i in range(0, len(lines), k)]
    with ThreadPoolExecutor(nproc) as ex:
        outs = list(ex.map(lambda c: f(lvl, c), chunks))
    return [x for o in outs for x in o]

def main():
    seed = int(sys.argv[1]) if len(sys.argv) > 1 else 1
    N = int(sys.argv[2]) if len(sys.argv) > 2 else 200
    full = len(sys.argv) > 3 and sys.argv[3] == "full"
    lvls = [int(x) for x in sys.argv[4].split(",")] if len(sys.argv) > 4 else [1, 3, 5]
    bad = 0
    for lvl in lvls:
        rng = random.Random(seed * 10 + lvl)
        lines = gen_lines(rng, lvl, N, full)
        rc = chunked(run_c, lvl, lines)
        rl = chunked(run_lean, lvl, lines)
        assert len(rc) == len(lines) and len(rl) == len(lines), (len(rc), len(rl), len(lines))
        stats = {}
        for l, x, y in zip(lines, rc, rl):
            op = l.split()[0]
            s = stats.setdefault(op, [0, 0])
            s[0] += 1
            if x != y:
                s[1] += 1
                bad += 1
                if s[1] <= 3:
                    print("MISMATCH lvl%d %s\n   C    %s\n   Lean %s" % (lvl, l, x, y))
        print("lvl%d:" % lvl, " ".join("%s:%d/%d" % (k, v[1], v[0]) for k, v in sorted(stats.items())))
    print("total mismatches", bad)

if __name__ == "__main__":
    main()

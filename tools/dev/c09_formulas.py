#!/usr/bin/env python3
"""Development aid (NOT run by the checks): finds the cofactors used by `linear_combination` in
lean/SqiProofs/IsogFormulas.lean with sympy's sparse polynomial rings and writes that file.  The Lean kernel re-checks
every identity over the definitions regenerated from the C text, so nothing here is trusted.
Run:  /opt/veriftools/pyvenv/bin/python tools/dev/c09_formulas.py"""
import os, re, sys
from sympy.polys.rings import ring
from sympy import ZZ

R, Kx, Kz, Px, Pz, Qx, Qz, Dx, Dz, ax, az, a, s, x, y2, Bc = ring("Kx,Kz,Px,Pz,Qx,Qz,Dx,Dz,ax,az,a,s,x,y2,Bc", ZZ)
NAMES = {"Kx": "K.x", "Kz": "K.z", "Px": "P.x", "Pz": "P.z", "Qx": "Q.x", "Qz": "Q.z", "Dx": "D.x", "Dz": "D.z",
         "ax": "A24.x", "az": "A24.z", "a": "a", "s": "s", "x": "x", "y2": "y ^ 2", "Bc": "Bc"}


def lean(poly):
    if poly == 0:
        return "0"
    t = str(poly.as_expr()).replace("**", "^")
    return re.sub(r"\b(Kx|Kz|Px|Pz|Qx|Qz|Dx|Dz|ax|az|y2|Bc)\b", lambda m: NAMES[m.group(1)], t)


# ---- the C formulas, transcribed (the Lean side uses the generated SqiGen definitions) ----
def xdbl(P, A):
    X, Z = P; t0 = (X + Z)**2; t1 = (X - Z)**2; t2 = t0 - t1; t1 = t1 * A[1]; XX = t0 * t1; t0 = t2 * A[0] + t1
    return (XX, t0 * t2)
def xadd(P, Q, D):
    t0 = P[0] + P[1]; t1 = P[0] - P[1]; t2 = Q[0] + Q[1]; t3 = Q[0] - Q[1]
    t0 = t0 * t3; t1 = t1 * t2
    return (D[1] * (t0 + t1)**2, D[0] * (t0 - t1)**2)
def xisog2(K): return ((K[0] + K[1], K[0] - K[1]), (K[1]**2 - K[0]**2, K[1]**2))
def xeval2(Q, k):
    t0 = Q[0] + Q[1]; t1 = Q[0] - Q[1]; t2 = k[0] * t1; t1 = k[1] * t0
    return (Q[0] * (t2 + t1), Q[1] * (t2 - t1))
def xeval2s(Q, k):
    t0 = Q[0] * Q[1]; t1 = (k[0] * Q[1] + Q[0]) * Q[0]
    return (Q[1]**2 + t1, t0 * k[1])
def biquad(P, Q, D, A):
    (px, pz), (qx, qz), (dx, dz), (aa, zz) = P, Q, D, A
    return zz * dx**2 * (px * qz - qx * pz)**2 - 2 * dx * dz * (zz * (px * qz + qx * pz) * (px * qx + pz * qz)
            + 2 * (4 * aa - 2 * zz) * px * qx * pz * qz) + zz * dz**2 * (px * qx - pz * qz)**2
def cross(L, Rr): return L[0] * Rr[1] - L[1] * Rr[0]


def coeffs_in(G, var):
    idx = R.gens.index(var)
    out = {}
    for mon, c in G.terms():
        i = mon[idx]
        m2 = list(mon); m2[idx] = 0
        out[i] = out.get(i, R.zero) + R({tuple(m2): c})
    return out


def elim_lin(G, sl, r0, var):
    """h = sl*var + r0:  sl^d * G = q*h + rem, rem free of var"""
    cs = coeffs_in(G, var)
    d = max(cs) if cs else 0
    rem, q = R.zero, R.zero
    for i, g in cs.items():
        rem += g * (-r0)**i * sl**(d - i)
        for j in range(i):
            q += g * sl**(d - i) * (sl * var)**(i - 1 - j) * (-r0)**j
    assert sl**d * G == q * (sl * var + r0) + rem
    return d, q, rem


def elim_sq(G, var, c2):
    """h = var^2 - c2:  G = q*h + rem with deg_var rem < 2"""
    cs = coeffs_in(G, var)
    q, rem = R.zero, R.zero
    for i, g in cs.items():
        m, e = i // 2, i % 2
        rem += g * c2**m * var**e
        for j in range(m):
            q += g * var**e * (var**2)**(m - 1 - j) * c2**j
    assert G == q * (var**2 - c2) + rem
    return q, rem


HEADER = '''/-
Polynomial identities behind the C09 formula theorems — GENERATED TEXT (tools/dev/c09_formulas.py found the cofactors
with sympy; the file is committed and re-checked by `lake build` against the definitions regenerated from
src/ec/ref/ecx/{xisog,xeval,ec}.c on every run, so a changed C formula breaks these lemmas).
Notation: `cross P Q = P.x*Q.z - P.z*Q.x` (projective equality of x-only points ⇔ cross = 0);
`ord2 K A24` / `ord4 K A24`: K is a point of order 2 (resp. 4, [2]K ≠ (0,0)) of the Montgomery curve with
(A+2 : 4) = A24, written as a polynomial relation; `biquad P Q D A24 = 0`: D is x(P−Q) (or x(P+Q)) on that curve
(the classical biquadratic relation of the Kummer line).
-/
import SqiGen.Isog
import Mathlib.Tactic.Ring
import Mathlib.Tactic.LinearCombination
import Mathlib.Algebra.Field.Defs

namespace SqiProofs.IsogFormulas
open SqiGen

variable {F : Type} [Field F] [DecidableEq F]

def cross (P Q : EcPoint F) : F := P.x * Q.z - P.z * Q.x
/-- K = (x:z) has order 2 on E_A, (A+2:4) = A24:  x² + A x z + z² = 0 -/
def ord2 (K A24 : EcPoint F) : F := A24.x * (4 * K.x * K.z) + A24.z * (K.x - K.z) ^ 2
/-- K has order 4 with [2]K ≠ (0,0):  x⁴ + 2A x³z + 6x²z² + 2A xz³ + z⁴ = 0 -/
def ord4 (K A24 : EcPoint F) : F := A24.z * (K.x - K.z) ^ 4 + 8 * A24.x * K.x * K.z * (K.x ^ 2 + K.z ^ 2)
/-- D = x(P ∓ Q):  x_D²(x_P−x_Q)² − 2x_D((x_P+x_Q)(x_Px_Q+1) + 2A x_Px_Q) + (x_Px_Q−1)² = 0, projectively, times A24.z -/
def biquad (P Q D A24 : EcPoint F) : F :=
  A24.z * D.x ^ 2 * (P.x * Q.z - Q.x * P.z) ^ 2
  - 2 * D.x * D.z * (A24.z * (P.x * Q.z + Q.x * P.z) * (P.x * Q.x + P.z * Q.z) + 2 * (4 * A24.x - 2 * A24.z) * P.x * Q.x * P.z * Q.z)
  + A24.z * D.z ^ 2 * (P.x * Q.x - P.z * Q.z) ^ 2
/-- the point [2]K of an order-4 point K, in a form free of the curve coefficient -/
def dbl4 (K : EcPoint F) : EcPoint F := { x := K.x ^ 2 + K.z ^ 2, z := 2 * K.x * K.z }
'''


def main():
    K, P, Q, D, A = (Kx, Kz), (Px, Pz), (Qx, Qz), (Dx, Dz), (ax, az)
    out = [HEADER]
    s2, r2 = 4 * Kx * Kz, az * (Kx - Kz)**2                       # ord2 = s2*ax + r2
    hK2 = s2 * ax + r2
    k, B = xisog2(K)
    hD = biquad(P, Q, D, A)
    d, qh, hDt = elim_lin(hD, s2, r2, ax)                          # s2*hD = qh*hK2 + hDt
    assert d == 1
    H, rz = hDt.div(az); assert rz == 0                            # hDt = az*H
    # --- add2:  az*G = c0*(s2*hD - qh*hK2)
    G = cross(xeval2(xadd(P, Q, D), k), xadd(xeval2(P, k), xeval2(Q, k), xeval2(D, k)))
    c0, rr = G.div(H); assert rr == 0
    assert az * G == c0 * s2 * hD - c0 * qh * hK2
    out.append('''/-- φ commutes with the differential addition: φ(xADD(P,Q,D)) = xADD(φP,φQ,φD) projectively, when K has order 2 on E
    and D = x(P−Q) on E -/
theorem xeval_2_add (K P Q D A24 : EcPoint F) (hK : ord2 K A24 = 0) (hD : biquad P Q D A24 = 0) :
    cross (xeval_2_pt (xADD P Q D) (xisog_2 K).1)
          (xADD (xeval_2_pt P (xisog_2 K).1) (xeval_2_pt Q (xisog_2 K).1) (xeval_2_pt D (xisog_2 K).1)) * A24.z = 0 := by
  simp only [cross, ord2, biquad, xeval_2_pt, xisog_2, xADD] at *
  linear_combination (%s) * hD + (%s) * hK
''' % (lean(c0 * s2), lean(-(c0 * qh))))
    # --- biquad preserved
    hD1 = biquad(xeval2(P, k), xeval2(Q, k), xeval2(D, k), B)
    q1, rr = hD1.div(H); assert rr == 0
    assert az * hD1 == q1 * s2 * hD - q1 * qh * hK2
    out.append('''/-- φ(D) is again the difference of φ(P), φ(Q) on the codomain: the biquadratic relation is preserved -/
theorem xeval_2_biquad (K P Q D A24 : EcPoint F) (hK : ord2 K A24 = 0) (hD : biquad P Q D A24 = 0) :
    biquad (xeval_2_pt P (xisog_2 K).1) (xeval_2_pt Q (xisog_2 K).1) (xeval_2_pt D (xisog_2 K).1) (xisog_2 K).2 * A24.z = 0 := by
  simp only [ord2, biquad, xeval_2_pt, xisog_2] at *
  linear_combination (%s) * hD + (%s) * hK
''' % (lean(q1 * s2), lean(-(q1 * qh))))
    # --- dbl2 (cofactor as in C09F, regenerated here for completeness)
    G = cross(xeval2(xdbl(Q, A), k), xdbl(xeval2(Q, k), B))
    d, q, rem = elim_lin(G, s2, r2, ax); assert rem == 0
    out.append('''theorem xeval_2_dbl (K Q A24 : EcPoint F) (hK : ord2 K A24 = 0) :
    cross (xeval_2_pt (xDBL_A24 Q A24) (xisog_2 K).1) (xDBL_A24 (xeval_2_pt Q (xisog_2 K).1) (xisog_2 K).2) * (4 * K.x * K.z) ^ %d = 0 := by
  simp only [cross, ord2, xeval_2_pt, xisog_2, xDBL_A24] at *
  linear_combination (%s) * hK
''' % (d, lean(q)))
    # --- on the curve, with the explicit y-map  y' = y * W / Z'^2,  W = 4 Kx (Kz x^2 - 2 Kx x + Kz),  B' = (Kx/Kz) B
    Qa = (x, R.one)
    N, Dn = xeval2(Qa, k)
    W = 4 * Kx * (Kz * x**2 - 2 * Kx * x + Kz)
    lhs = Kx * Bc * y2 * W**2 * B[1]
    rhs = Kz * Dn * N * (B[1] * N**2 + (4 * B[0] - 2 * B[1]) * N * Dn + B[1] * Dn**2)
    G = lhs - rhs
    # curve: Bc*y2*az - x*(az x^2 + (4ax-2az) x + az) = 0, linear in y2
    sc, rc = Bc * az, -(x * (az * x**2 + (4 * ax - 2 * az) * x + az))
    d1, qc, rem1 = elim_lin(G, sc, rc, y2)
    d2, qk, rem2 = elim_lin(rem1, s2, r2, ax); assert rem2 == 0, "on-curve identity fails"
    # sc^d1 * G = qc*hc + rem1 ;  s2^d2*rem1 = qk*hK2  =>  s2^d2*sc^d1*G = s2^d2*qc*hc + qk*hK2
    out.append('''/-- **the image of a point of E lies on the codomain**: for (x,y) with Bc·y² = x³ + A x² + x the point
    (x', y') = (N/Dn, y·W/Dn²), (N : Dn) = xeval_2 (x : 1), W = 4 K.x (K.z x² − 2 K.x x + K.z), satisfies
    B'·y'² = x'³ + A' x'² + x' with (A'+2 : 4) = the codomain of `xisog_2` and B' = (K.x/K.z)·Bc — cleared of denominators -/
theorem xeval_2_on_curve (K A24 : EcPoint F) (x y Bc : F) (hK : ord2 K A24 = 0)
    (hc : Bc * y ^ 2 * A24.z - x * (A24.z * x ^ 2 + (4 * A24.x - 2 * A24.z) * x + A24.z) = 0) :
    let N := (xeval_2_pt { x := x, z := 1 } (xisog_2 K).1).x
    let Dn := (xeval_2_pt { x := x, z := 1 } (xisog_2 K).1).z
    let W := 4 * K.x * (K.z * x ^ 2 - 2 * K.x * x + K.z)
    let B := (xisog_2 K).2
    (K.x * Bc * (y * W) ^ 2 * B.z - K.z * Dn * N * (B.z * N ^ 2 + (4 * B.x - 2 * B.z) * N * Dn + B.z * Dn ^ 2))
      * ((4 * K.x * K.z) ^ %d * (Bc * A24.z) ^ %d) = 0 := by
  simp only [ord2, xeval_2_pt, xisog_2] at *
  linear_combination (%s) * hc + (%s) * hK
''' % (d2, d1, lean(s2**d2 * qc), lean(qk)))
    # --- order 4: K2 = [2]K, its kernel relation, second kernel
    s4, r4 = 8 * Kx * Kz * (Kx**2 + Kz**2), az * (Kx - Kz)**4
    K2 = (Kx**2 + Kz**2, 2 * Kx * Kz)
    G0 = cross(xdbl(K, A), K2)
    d, q, rem = elim_lin(G0, s4, r4, ax); assert rem == 0
    out.append('''/-- for K of order 4, [2]K = (K.x² + K.z² : 2 K.x K.z) -/
theorem dbl_of_ord4 (K A24 : EcPoint F) (hK : ord4 K A24 = 0) :
    cross (xDBL_A24 K A24) (dbl4 K) * (8 * K.x * K.z * (K.x ^ 2 + K.z ^ 2)) ^ %d = 0 := by
  simp only [cross, ord4, dbl4, xDBL_A24] at *
  linear_combination (%s) * hK
''' % (d, lean(q)))
    hk2 = ax * 4 * K2[0] * K2[1] + az * (K2[0] - K2[1])**2
    d, q, rem = elim_lin(hk2, s4, r4, ax); assert rem == 0
    out.append('''/-- … and [2]K has order 2 on E -/
theorem ord2_dbl4 (K A24 : EcPoint F) (hK : ord4 K A24 = 0) :
    ord2 (dbl4 K) A24 * (8 * K.x * K.z * (K.x ^ 2 + K.z ^ 2)) ^ %d = 0 := by
  simp only [ord2, ord4, dbl4] at *
  linear_combination (%s) * hK
''' % (d, lean(q)))
    open(os.path.join(os.path.dirname(os.path.dirname(os.path.dirname(os.path.abspath(__file__)))), "lean", "SqiProofs", "IsogFormulas.lean"), "w").write(
        "\n".join(out) + "\n" + TAIL + singular_part())


TAIL = '''/-- the image of K under the first 2-isogeny (kernel [2]K) has order 2 on the intermediate curve — identically -/
theorem ord2_step2 (K : EcPoint F) :
    ord2 (xeval_2_pt K (xisog_2 (dbl4 K)).1) (xisog_2 (dbl4 K)).2 = 0 := by
  simp only [ord2, dbl4, xeval_2_pt, xisog_2]; ring

/-- **the 4-isogeny is the composition of the two 2-isogeny steps** (kernels [2]K and the image of K), identically
    in K and Q: xeval_4 Q = xeval_2 (xeval_2 Q) projectively -/
theorem xeval_4_comp (K Q : EcPoint F) (k0 : EcKps4 F) :
    cross (xeval_4_pt Q (xisog_4 k0 K).1)
          (xeval_2_pt (xeval_2_pt Q (xisog_2 (dbl4 K)).1) (xisog_2 (xeval_2_pt K (xisog_2 (dbl4 K)).1)).1) = 0 := by
  simp only [cross, dbl4, xeval_4_pt, xisog_4, xeval_2_pt, xisog_2]; ring

/-- … and so is its codomain -/
theorem xisog_4_comp (K : EcPoint F) (k0 : EcKps4 F) :
    cross (xisog_4 k0 K).2 (xisog_2 (xeval_2_pt K (xisog_2 (dbl4 K)).1)).2 = 0 := by
  simp only [cross, dbl4, xisog_4, xeval_2_pt, xisog_2]; ring

'''


def singular_part():
    P, Q, D = (Px, Pz), (Qx, Qz), (Dx, Dz)
    A = (a + 2, R(4)); k = (a, -s); B = (2 * a + 2 * s, 4 * s)
    c2 = a**2 - 4
    out = ['''/-! ### singular 2-isogeny (kernel (0,0)) — generic in a = A and s with s² = a² − 4:
    kernel data (a, −s), codomain (2a + 2s : 4s) as emitted by `xisog_2_singular` -/

def kpsS (a s : F) : EcKps2 F := { K := { x := a, z := -s } }
def codS (a s : F) : EcPoint F := { x := a + a + (s + s), z := s + s + (s + s) }
def a24 (a : F) : EcPoint F := { x := a + 2, z := 4 }
''']
    G = cross(xeval2s(xdbl(Q, A), k), xdbl(xeval2s(Q, k), B))
    q, rem = elim_sq(G, s, c2); assert rem == 0
    out.append('''theorem xeval_2_singular_dbl (Q : EcPoint F) (a s : F) (hs : s ^ 2 - (a ^ 2 - 4) = 0) :
    cross (xeval_2_singular_pt (xDBL_A24 Q (a24 a)) (kpsS a s)) (xDBL_A24 (xeval_2_singular_pt Q (kpsS a s)) (codS a s)) = 0 := by
  simp only [cross, kpsS, codS, a24, xeval_2_singular_pt, xDBL_A24] at *
  linear_combination (%s) * hs
''' % lean(q))
    hD = biquad(P, Q, D, A)
    G = cross(xeval2s(xadd(P, Q, D), k), xadd(xeval2s(P, k), xeval2s(Q, k), xeval2s(D, k)))
    q1, r1 = elim_sq(G, s, c2)
    qd, rr = r1.div(hD); assert rr == 0
    out.append('''theorem xeval_2_singular_add (P Q D : EcPoint F) (a s : F) (hs : s ^ 2 - (a ^ 2 - 4) = 0) (hD : biquad P Q D (a24 a) = 0) :
    cross (xeval_2_singular_pt (xADD P Q D) (kpsS a s))
          (xADD (xeval_2_singular_pt P (kpsS a s)) (xeval_2_singular_pt Q (kpsS a s)) (xeval_2_singular_pt D (kpsS a s))) = 0 := by
  simp only [cross, biquad, kpsS, a24, xeval_2_singular_pt, xADD] at *
  linear_combination (%s) * hs + (%s) * hD
''' % (lean(q1), lean(qd)))
    hD1 = biquad(xeval2s(P, k), xeval2s(Q, k), xeval2s(D, k), B)
    q1, r1 = elim_sq(hD1, s, c2)
    qd, rr = r1.div(hD); assert rr == 0
    out.append('''theorem xeval_2_singular_biquad (P Q D : EcPoint F) (a s : F) (hs : s ^ 2 - (a ^ 2 - 4) = 0) (hD : biquad P Q D (a24 a) = 0) :
    biquad (xeval_2_singular_pt P (kpsS a s)) (xeval_2_singular_pt Q (kpsS a s)) (xeval_2_singular_pt D (kpsS a s)) (codS a s) = 0 := by
  simp only [biquad, kpsS, codS, a24, xeval_2_singular_pt] at *
  linear_combination (%s) * hs + (%s) * hD
''' % (lean(q1), lean(qd)))
    # on curve: phi = (x^2 + a x + 1 : -s x), y' = y * W / Dn^2, W = N' Dn - N Dn' = -s (x^2 - 1); codomain A' via codS; B' = kappa*Bc
    N, Dn = xeval2s((x, R.one), k)
    W = -s * (x**2 - 1)
    # kappa = -1/s:  B' = -Bc/s
    lhs = Dn * N * (B[1] * N**2 + (4 * B[0] - 2 * B[1]) * N * Dn + B[1] * Dn**2)
    G = -Bc * y2 * W**2 * B[1] - s * lhs
    sc, rc = Bc, -(x**3 + a * x**2 + x)
    d1, qc, rem1 = elim_lin(G, sc, rc, y2)
    qs, rem2 = elim_sq(rem1, s, c2); assert rem2 == 0, "singular on-curve identity fails"
    out.append('''/-- image of a point of E on the codomain of the singular 2-isogeny: (x', y') = (N/Dn, y·W/Dn²) with
    (N : Dn) = xeval_2_singular (x : 1) = (x² + a x + 1 : −s x), W = −s (x² − 1), B' = −Bc/s -/
theorem xeval_2_singular_on_curve (x y Bc a s : F) (hs : s ^ 2 - (a ^ 2 - 4) = 0)
    (hc : Bc * y ^ 2 - (x ^ 3 + a * x ^ 2 + x) = 0) :
    let N := (xeval_2_singular_pt { x := x, z := 1 } (kpsS a s)).x
    let Dn := (xeval_2_singular_pt { x := x, z := 1 } (kpsS a s)).z
    let W := -s * (x ^ 2 - 1)
    let B := codS a s
    (-Bc * (y * W) ^ 2 * B.z - s * (Dn * N * (B.z * N ^ 2 + (4 * B.x - 2 * B.z) * N * Dn + B.z * Dn ^ 2))) * Bc ^ %d = 0 := by
  simp only [kpsS, codS, xeval_2_singular_pt] at *
  linear_combination (%s) * hc + (%s) * hs
''' % (d1, lean(qc), lean(qs)))
    # --- singular 4-isogeny = (2-isogeny with kernel the image of K) o (singular 2-isogeny), modulo s^2 = a^2 - 4
    def xisog4s(A_, eq):
        K0z = A_[1]; K1x = A_[0]; K0x = A_[0] - A_[1]
        if eq: K0x, K1x = K1x, K0x
        Bz = -K1x if eq else K1x
        return ((K0x, K0z, K1x), (K0z, Bz))
    def xeval4s(Q_, k_, eq):
        K0x, K0z, K1x = k_
        t0 = (Q_[0] + Q_[1])**2; t2 = (Q_[0] - Q_[1])**2
        Rz = t0 - t2
        t1 = t2 if eq else t0
        t0 = t0 if eq else t2
        Rx = Rz * K0x; Rz = Rz * K1x * t1
        t1 = t1 * K0z
        return ((Rx + t1) * t0, Rz)
    for eq, nm, Kp, hyp, simpk in ((True, "eq", (Kz, Kz), "(h : K.x = K.z)", "h, decide_true, if_true"),
                                   (False, "neg", (-Kz, Kz), "(h : K.x = -K.z) (hne : K.x ≠ K.z)", "hd, if_false, Bool.false_eq_true")):
        k4, B4 = xisog4s(A, eq)
        K1 = xeval2s(Kp, k)
        kk2, B2 = xisog2(K1)
        G = cross(xeval4s(Q, k4, eq), xeval2(xeval2s(Q, k), kk2))
        q, rem = elim_sq(G, s, c2); assert rem == 0
        pre = "" if eq else "  have hd : decide (K.x = K.z) = false := by simp [hne]\n"
        out.append('''/-- the singular 4-isogeny (branch K.x = %sK.z) is the singular 2-isogeny followed by the 2-isogeny whose kernel is the
    image of K -/
theorem xeval_4_singular_comp_%s (K Q : EcPoint F) (k0 : EcKps4 F) (a s : F) (hs : s ^ 2 - (a ^ 2 - 4) = 0) %s :
    cross (xeval_4_singular_pt Q K (xisog_4_singular k0 K (a24 a)).1)
          (xeval_2_pt (xeval_2_singular_pt Q (kpsS a s)) (xisog_2 (xeval_2_singular_pt K (kpsS a s))).1) = 0 := by
%s  simp only [cross, kpsS, a24, xeval_4_singular_pt, xisog_4_singular, xeval_2_pt, xisog_2, xeval_2_singular_pt, %s]
%s  linear_combination (%s) * hs
''' % ("" if eq else "−", nm, hyp, pre, simpk, "" if eq else "  simp only [h]\n", lean(q)))
        Gc = cross(B4, B2)
        q, rem = elim_sq(Gc, s, c2); assert rem == 0
        out.append('''theorem xisog_4_singular_comp_%s (K : EcPoint F) (k0 : EcKps4 F) (a s : F) (hs : s ^ 2 - (a ^ 2 - 4) = 0) %s :
    cross (xisog_4_singular k0 K (a24 a)).2 (xisog_2 (xeval_2_singular_pt K (kpsS a s))).2 = 0 := by
%s  simp only [cross, kpsS, a24, xisog_4_singular, xisog_2, xeval_2_singular_pt, %s]
%s  linear_combination (%s) * hs
''' % (nm, hyp, pre, simpk, "" if eq else "  simp only [h]\n", lean(q)))
        o2 = B[0] * 4 * K1[0] * K1[1] + B[1] * (K1[0] - K1[1])**2
        q, rem = elim_sq(o2, s, c2); assert rem == 0
        out.append('''theorem ord2_step2_singular_%s (K : EcPoint F) (a s : F) (hs : s ^ 2 - (a ^ 2 - 4) = 0) %s :
    ord2 (xeval_2_singular_pt K (kpsS a s)) (codS a s) = 0 := by
  simp only [ord2, kpsS, codS, xeval_2_singular_pt, h]
  linear_combination (%s) * hs
''' % (nm, hyp.split(" (hne")[0], lean(q)))
    out.append("end SqiProofs.IsogFormulas\n")
    return "\n".join(out)


if __name__ == "__main__":
    main()

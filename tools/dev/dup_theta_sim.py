#!/usr/bin/env python3
"""Derive lean/SqiProofs/SkelThetaFSim.lean (simulation proof for the skeleton of
theta_chain_comput_strategy_faster_no_eval) from lean/SqiProofs/SkelThetaSim.lean by renaming: the two generated
skeletons are textually identical up to the function / state-record names, and so are the proofs.
Run after editing SkelThetaSim.lean; the result is committed (it is a proof file, not a generated model)."""
import os, re
here = os.path.dirname(os.path.abspath(__file__))
for a, b in (('SkelThetaSim', 'SkelThetaFSim'), ('SkelThetaConv', 'SkelThetaFConv')):
    src = os.path.join(here, '..', '..', 'lean', 'SqiProofs', a + '.lean')
    dst = os.path.join(here, '..', '..', 'lean', 'SqiProofs', b + '.lean')
    s = open(src).read()
    s = s.replace('theta_chain_comput_strategy', 'theta_chain_comput_strategy_faster_no_eval')
    s = s.replace('ThetaSt', 'ThetaFSt')
    s = s.replace('SqiProofs.SkelThetaSim', 'SqiProofs.SkelThetaFSim')
    s = s.replace('SqiProofs.SkelThetaConv', 'SqiProofs.SkelThetaFConv')
    s = s.replace('/-\n', '/-\n(derived from %s.lean by tools/dev/dup_theta_sim.py — edit that file, not this one)\n' % a, 1)
    open(dst, 'w').write(s)
    print('written', os.path.normpath(dst))

#!/usr/bin/env python3
"""Derive lean/SqiProofs/SkelThetaFSim.lean (simulation proof for the skeleton of
theta_chain_comput_strategy_faster_no_eval) from lean/SqiProofs/SkelThetaSim.lean by renaming: the two generated
skeletons are textually identical up to the function / state-record names, and so are the proofs.
Run after editing SkelThetaSim.lean; the result is committed (it is a proof file, not a generated model)."""
import os, re
here = os.path.dirname(os.path.abspath(__file__))
src = os.path.join(here, '..', '..', 'lean', 'SqiProofs', 'SkelThetaSim.lean')
dst = os.path.join(here, '..', '..', 'lean', 'SqiProofs', 'SkelThetaFSim.lean')
s = open(src).read()
s = s.replace('theta_chain_comput_strategy', 'theta_chain_comput_strategy_faster_no_eval')
s = s.replace('ThetaSt', 'ThetaFSt')
s = s.replace('SqiProofs.SkelThetaSim', 'SqiProofs.SkelThetaFSim')
s = s.replace('/-\nSimulation between', '/-\n(derived from SkelThetaSim.lean by tools/dev/dup_theta_sim.py — edit that file, not this one)\nSimulation between', 1)
open(dst, 'w').write(s)
print('written', os.path.normpath(dst))

#!/usr/bin/env python3-vt
"""lc.py FILE.lean h1 h2 ...  : runs `lake env lean FILE`, takes the LAST trace_state goal `⊢ L = R` and the
hypotheses h_i : a = b from its context, and prints a `linear_combination` certificate (sympy, Groebner reduction)."""
import os, sys, re, subprocess, sympy
from sympy import symbols, sympify, expand, reduced, groebner, Poly
f = sys.argv[1]; hyps = sys.argv[2:]
out = subprocess.run("cd %s && lake env lean %s" % (os.path.join(os.path.dirname(os.path.dirname(os.path.abspath(__file__))), "lean"), f), shell=True, capture_output=True, text=True).stdout
# split messages
errs = [l for l in out.split("\n") if ": error:" in l]
if errs: print("-- ERRORS:\n" + "\n".join(errs[:10]))
msgs = re.split(r"\n(?=\S+\.lean:\d+:\d+: )", out)
tr = [m for m in msgs if "⊢" in m and ("information" in m.split("\n")[0] or "info" in m.split("\n")[0] or True) and "error" not in m.split("\n")[0]]
if not tr:
    print(out[-3000:]); sys.exit(1)
m = tr[-1]
body = m.split("\n", 1)[1] if "\n" in m else m
ctx, goal = body.rsplit("⊢", 1)
goal = " ".join(goal.split())
def lean2sym(s):
    s = s.replace("^", "**").replace("⁻¹", "**(-1)")
    s = re.sub(r"(\w)'", r"\1_p", s)
    s = s.replace("₁", "1").replace("₂", "2").replace("₃", "3").replace("₀", "0")
    return s
# join wrapped context lines: hypotheses start with "name :" at line start
hy = {}
cur = None
for line in ctx.split("\n"):
    mm = re.match(r"^([\w'₀-₉ ]+?) : (.*)$", line)
    if mm and not line.startswith(" "):
        cur = mm.group(1).strip()
        hy[cur] = mm.group(2)
    elif cur:
        hy[cur] += " " + line.strip()
names = set(re.findall(r"[A-Za-z_][\w']*", lean2sym(goal)))
for h in hyps:
    names |= set(re.findall(r"[A-Za-z_][\w']*", lean2sym(hy[h])))
syms = {n: symbols(n) for n in names}
def parse_eq(s):
    # goal possibly `a = b` ; split at top-level '='
    depth = 0
    for i, c in enumerate(s):
        if c in "([": depth += 1
        elif c in ")]": depth -= 1
        elif c == "=" and depth == 0 and s[i-1] not in "<>≠!" :
            return sympify(lean2sym(s[:i]), locals=syms) - sympify(lean2sym(s[i+1:]), locals=syms)
    raise SystemExit("no equation in: " + s)
G = parse_eq(goal)
gs = [parse_eq(hy[h]) for h in hyps]
G = sympy.together(G)
num, den = sympy.fraction(G)
if den != 1:
    print("-- goal has denominators; using numerator"); 
G = expand(num)
gs = [expand(sympy.fraction(sympy.together(g))[0]) for g in gs]
allsyms = sorted(G.free_symbols.union(*[g.free_symbols for g in gs]), key=lambda s: s.name)
order = [s for s in allsyms if s.name.startswith("y") or s.name.startswith("Y")] + [s for s in allsyms if not (s.name.startswith("y") or s.name.startswith("Y"))]
if not gs:
    print("ring   -- (difference = %s)" % G); sys.exit(0)
q, r = reduced(G, gs, *order, order="lex")
if r != 0:
    # try other orders
    for o2 in (order[::-1], allsyms, allsyms[::-1]):
        q, r = reduced(G, gs, *o2, order="lex")
        if r == 0: break
if r != 0:
    print("-- NOT in ideal by plain reduction; remainder:", sympy.factor(r))
def s2lean(e):
    s = str(sympy.factor(e)) if len(str(e)) < 4000 else str(e)
    s = s.replace("**", "^")
    s = re.sub(r"(\w)_p\b", r"\1'", s)
    return s
print("linear_combination " + " + ".join("(%s) * %s" % (s2lean(c), h) for c, h in zip(q, hyps) if c != 0))

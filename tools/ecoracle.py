"""Independent exact oracle for C08 (and reusable by C09–C11): GF(p²) = GF(p)[i]/(i²+1) and the *affine* group law of
the Montgomery curve y² = x³ + a x² + x, written from the textbook formulas (no x-only arithmetic, no code shared
with the library or with the Lean models). Points: None = ∞, or (x, y) with x, y pairs (re, im)."""


class Fp2:
    def __init__(self, p):
        assert p % 4 == 3
        self.p = p
        self.zero, self.one = (0, 0), (1, 0)

    def add(self, a, b):
        return ((a[0] + b[0]) % self.p, (a[1] + b[1]) % self.p)

    def sub(self, a, b):
        return ((a[0] - b[0]) % self.p, (a[1] - b[1]) % self.p)

    def neg(self, a):
        return ((-a[0]) % self.p, (-a[1]) % self.p)

    def mul(self, a, b):
        return ((a[0] * b[0] - a[1] * b[1]) % self.p, (a[0] * b[1] + a[1] * b[0]) % self.p)

    def sqr(self, a):
        return self.mul(a, a)

    def smul(self, n, a):
        return (n * a[0] % self.p, n * a[1] % self.p)

    def inv(self, a):
        n = (a[0] * a[0] + a[1] * a[1]) % self.p
        if n == 0:
            raise ZeroDivisionError
        ni = pow(n, self.p - 2, self.p)
        return (a[0] * ni % self.p, (-a[1]) * ni % self.p)

    def div(self, a, b):
        return self.mul(a, self.inv(b))

    def fp_is_square(self, a):
        a %= self.p
        return a == 0 or pow(a, (self.p - 1) // 2, self.p) == 1

    def fp_sqrt(self, a):
        r = pow(a % self.p, (self.p + 1) // 4, self.p)
        return r if r * r % self.p == a % self.p else None

    def is_square(self, a):
        return self.fp_is_square(a[0] * a[0] + a[1] * a[1])

    def sqrt(self, x):
        """some square root of x, or None"""
        p = self.p
        a, b = x[0] % p, x[1] % p
        if b == 0:
            r = self.fp_sqrt(a)
            if r is not None:
                return (r, 0)
            r = self.fp_sqrt(-a)
            return (0, r)
        d = self.fp_sqrt(a * a + b * b)
        if d is None:
            return None
        inv2 = (p + 1) // 2
        for t in ((a + d) * inv2 % p, (a - d) * inv2 % p):
            y0 = self.fp_sqrt(t)
            if y0 is not None and y0 != 0:
                y1 = b * pow(2 * y0, p - 2, p) % p
                r = (y0, y1)
                if self.sqr(r) == (a, b):
                    return r
        return None

    def rand(self, rng):
        return (rng.below(self.p), rng.below(self.p))

    def rand_nz(self, rng):
        while True:
            x = self.rand(rng)
            if x != (0, 0):
                return x


class Mont:
    """y² = x³ + a x² + x over GF(p²), a² ≠ 4"""

    def __init__(self, K, a):
        self.K, self.a = K, a

    def rhs(self, x):
        K = self.K
        x2 = K.sqr(x)
        return K.add(K.add(K.mul(x2, x), K.mul(self.a, x2)), x)

    def on_curve(self, P):
        return P is None or self.K.sqr(P[1]) == self.rhs(P[0])

    def neg(self, P):
        return None if P is None else (P[0], self.K.neg(P[1]))

    def add(self, P, Q):
        K = self.K
        if P is None:
            return Q
        if Q is None:
            return P
        (x1, y1), (x2, y2) = P, Q
        if x1 == x2:
            if K.add(y1, y2) == K.zero:
                return None
            lam = K.div(K.add(K.add(K.smul(3, K.sqr(x1)), K.smul(2, K.mul(self.a, x1))), K.one), K.smul(2, y1))
        else:
            lam = K.div(K.sub(y2, y1), K.sub(x2, x1))
        x3 = K.sub(K.sub(K.sub(K.sqr(lam), self.a), x1), x2)
        y3 = K.sub(K.mul(lam, K.sub(x1, x3)), y1)
        return (x3, y3)

    def sub(self, P, Q):
        return self.add(P, self.neg(Q))

    def mul(self, k, P):
        if k < 0:
            return self.mul(-k, self.neg(P))
        R, T = None, P
        while k:
            if k & 1:
                R = self.add(R, T)
            T = self.add(T, T)
            k >>= 1
        return R

    def lift_x(self, x):
        y = self.K.sqrt(self.rhs(x))
        return None if y is None else (x, y)

    def rand_point(self, rng):
        while True:
            P = self.lift_x(self.K.rand(rng))
            if P is not None:
                if rng.below(2):
                    P = self.neg(P)
                return P

    def two_torsion(self):
        """the three points of order 2: (0,0), (α,0), (1/α,0)"""
        K = self.K
        out = [(K.zero, K.zero)]
        d = K.sqrt(K.sub(K.sqr(self.a), (4, 0)))
        if d is not None:
            inv2 = ((K.p + 1) // 2, 0)
            for s in (d, K.neg(d)):
                out.append((K.mul(K.sub(s, self.a), inv2), K.zero))
        return out

    def j(self):
        K = self.K
        a2 = K.sqr(self.a)
        num = K.smul(256, K.mul(K.sqr(K.sub(a2, (3, 0))), K.sub(a2, (3, 0))))
        return K.div(num, K.sub(a2, (4, 0)))


def x_matches(K, P, X, Z):
    """does the projective pair (X : Z) represent x(P)?"""
    if X == K.zero and Z == K.zero:
        return False
    if P is None:
        return Z == K.zero
    return Z != K.zero and K.mul(P[0], Z) == X


def supersingular_a(K, rng, steps):
    """a Montgomery coefficient in the supersingular isogeny class of y² = x³ + x (group (Z/(p+1))² over GF(p²)),
    reached by a random walk of 2-isogenies with kernel (α, 0), α² + aα + 1 = 0:  a' = 2 - 4α²."""
    a = rng.choice([(0, 0), (6, 0)])
    for _ in range(steps):
        d = K.sqrt(K.sub(K.sqr(a), (4, 0)))
        s = d if rng.below(2) else K.neg(d)
        alpha = K.mul(K.sub(s, a), ((K.p + 1) // 2, 0))
        a2 = K.sub((2, 0), K.smul(4, K.sqr(alpha)))
        if K.sqr(a2) == (4, 0):
            continue
        a = a2
    return a

/* shared line-protocol helpers for the a9 drivers (C10, C11, C13): hex <-> fp2 / scalars, tokenizer */
#ifndef A9_IO_H
#define A9_IO_H
#include <stdio.h>
#include <stdlib.h>
#include <string.h>
#include <stdint.h>
#include <ec.h>
#include <fp2.h>
#include <curve_extras.h>

#ifndef FP_ENCODED_BYTES
#define FP_ENCODED_BYTES (NWORDS_FIELD * 8)
#endif

static int a9_hexval(int c)
{
    if (c >= '0' && c <= '9') return c - '0';
    if (c >= 'a' && c <= 'f') return c - 'a' + 10;
    if (c >= 'A' && c <= 'F') return c - 'A' + 10;
    return -1;
}

/* big-endian hex string -> little-endian byte buffer of length n (excess high digits must be zero) */
static int a9_hex_to_le(unsigned char *dst, size_t n, const char *s)
{
    size_t len = strlen(s);
    memset(dst, 0, n);
    for (size_t i = 0; i < len; i++) {
        int v = a9_hexval(s[len - 1 - i]);
        if (v < 0) return 0;
        if (i / 2 >= n) { if (v) return 0; else continue; }
        dst[i / 2] |= (unsigned char)(v << (4 * (i & 1)));
    }
    return 1;
}

static void a9_print_le(const unsigned char *b, size_t n)
{
    int started = 0;
    for (size_t i = n; i-- > 0;) {
        if (!started) {
            if (b[i] == 0 && i > 0) continue;
            printf("%x", b[i]);
            started = 1;
        } else
            printf("%02x", b[i]);
    }
}

static int a9_fp_from_hex(fp_t *x, const char *s)
{
    unsigned char buf[FP_ENCODED_BYTES];
    if (!a9_hex_to_le(buf, sizeof buf, s)) return 0;
    fp_decode(x, buf);
    return 1;
}

static int a9_fp2_from_hex(fp2_t *x, const char *re, const char *im)
{
    return a9_fp_from_hex(&x->re, re) && a9_fp_from_hex(&x->im, im);
}

/* prints " re im" canonical hex */
static void a9_print_fp2(const fp2_t *x)
{
    unsigned char buf[FP_ENCODED_BYTES];
    fp_encode(buf, &x->re);
    printf(" "); a9_print_le(buf, sizeof buf);
    fp_encode(buf, &x->im);
    printf(" "); a9_print_le(buf, sizeof buf);
}

/* prints affine x = X/Z of a projective point as " re im", or " inf inf" */
static void a9_print_affx(const ec_point_t *P)
{
    if (fp2_is_zero(&P->z)) { printf(" inf inf"); return; }
    fp2_t t = P->z;
    fp2_inv(&t);
    fp2_mul(&t, &t, &P->x);
    a9_print_fp2(&t);
}

static int a9_digits_from_hex(digit_t *d, size_t nwords, const char *s)
{
    unsigned char buf[8 * 16];
    if (nwords > 16) return 0;
    if (!a9_hex_to_le(buf, 8 * nwords, s)) return 0;
    for (size_t i = 0; i < nwords; i++) {
        uint64_t w = 0;
        for (int j = 7; j >= 0; j--) w = (w << 8) | buf[8 * i + j];
        d[i] = (digit_t)w;
    }
    return 1;
}

static void a9_print_digits(const digit_t *d, size_t nwords)
{
    unsigned char buf[8 * 16];
    for (size_t i = 0; i < nwords; i++)
        for (int j = 0; j < 8; j++) buf[8 * i + j] = (unsigned char)(((uint64_t)d[i]) >> (8 * j));
    a9_print_le(buf, 8 * nwords);
}

static int a9_split(char *line, char **tok, int max)
{
    int n = 0;
    for (char *p = strtok(line, " \t\r\n"); p && n < max; p = strtok(NULL, " \t\r\n")) tok[n++] = p;
    return n;
}

static long a9_parse_long(const char *s) /* signed hex */
{
    if (s[0] == '-') return -strtol(s + 1, NULL, 16);
    return strtol(s, NULL, 16);
}
#endif

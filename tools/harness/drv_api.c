/* C19 driver: the protocol API (sqisigndim2 variant) under a heap ledger.
 * All malloc/calloc/realloc/free of the statically linked library go through --wrap; GMP's allocations through
 * mp_set_memory_functions. ops (one per line; results "R ..."):
 *   seed HEX            randombytes_init(seed48 = HEX padded with zeros)            -> R ok
 *   init k | fin k      public_key/secret_key init / finalize of slot k             -> R ok
 *   siginit s | sigfin s                                                            -> R ok
 *   keygen k            protocols_keygen                                            -> R pk <A.re A.im hint0 hint1> | leak n sizes...
 *   sign k s MSGHEX     protocols_sign                                              -> R sig <ret fields...> | leak n sizes...
 *   verify k s MSGHEX   protocols_verif                                             -> R ver <0|1> | leak n sizes...
 *   h2 SPEC|off         setenv SQI_VERIF_H2 (failure injection hook H2 of the library)       -> R ok
 *   verify prints ` img same|changed`: deep image (all fields, GMP values, hints, A24 cache and flag) of the signature and
 *   public-key objects before and after protocols_verif
 *   live                                                                            -> R live <malloc bytes> <malloc blocks> <gmp bytes> <gmp blocks>
 * "leak": malloc blocks (not GMP) allocated during the operation and still live when it returns.
 */
#include "a9_io.h"
#include <gmp.h>
#include <rng.h>
#include <sqisigndim2.h>

void *__real_malloc(size_t);
void __real_free(void *);
void *__real_calloc(size_t, size_t);
void *__real_realloc(void *, size_t);

#define CAP (1u << 20)
static struct { void *p; size_t n; unsigned epoch; unsigned char gmp; } tab[CAP];
static size_t live_bytes[2], live_blocks[2];
static unsigned epoch = 0;
static int tracking = 1;

static unsigned slot(void *p) { return (unsigned)(((uintptr_t)p >> 4) * 2654435761u) & (CAP - 1); }
static void add(void *p, size_t n, int gmp)
{
    if (!p) return;
    unsigned i = slot(p);
    while (tab[i].p && tab[i].p != (void *)1) i = (i + 1) & (CAP - 1);
    tab[i].p = p; tab[i].n = n; tab[i].epoch = epoch; tab[i].gmp = (unsigned char)gmp;
    live_bytes[gmp] += n; live_blocks[gmp]++;
}
static int del(void *p)
{
    if (!p) return 0;
    unsigned i = slot(p), c = 0;
    while (tab[i].p && c < CAP) {
        if (tab[i].p == p) { live_bytes[tab[i].gmp] -= tab[i].n; live_blocks[tab[i].gmp]--; tab[i].p = (void *)1; return 1; }
        i = (i + 1) & (CAP - 1); c++;
    }
    return 0;
}
void *__wrap_malloc(size_t n) { void *p = __real_malloc(n); if (tracking) add(p, n, 0); return p; }
void *__wrap_calloc(size_t a, size_t b) { void *p = __real_calloc(a, b); if (tracking) add(p, a * b, 0); return p; }
void __wrap_free(void *p) { if (tracking) del(p); __real_free(p); }
void *__wrap_realloc(void *p, size_t n) { if (tracking) del(p); void *q = __real_realloc(p, n); if (tracking) add(q, n, 0); return q; }
static void *g_alloc(size_t n) { void *p = __real_malloc(n); add(p, n, 1); return p; }
static void *g_realloc(void *p, size_t o, size_t n) { (void)o; del(p); void *q = __real_realloc(p, n); add(q, n, 1); return q; }
static void g_free(void *p, size_t n) { (void)n; del(p); __real_free(p); }

static void print_leaks(void)
{
    size_t cnt = 0;
    for (unsigned i = 0; i < CAP; i++)
        if (tab[i].p && tab[i].p != (void *)1 && !tab[i].gmp && tab[i].epoch == epoch) cnt++;
    printf(" | leak %zu", cnt);
    /* sizes in increasing order of address-independent key: sort by size */
    size_t *sz = __real_malloc((cnt + 1) * sizeof(size_t)); size_t k = 0;
    for (unsigned i = 0; i < CAP; i++)
        if (tab[i].p && tab[i].p != (void *)1 && !tab[i].gmp && tab[i].epoch == epoch) sz[k++] = tab[i].n;
    for (size_t a = 0; a < k; a++) for (size_t b = a + 1; b < k; b++) if (sz[b] < sz[a]) { size_t t = sz[a]; sz[a] = sz[b]; sz[b] = t; }
    for (size_t a = 0; a < k; a++) printf(" %zx", sz[a]);
    __real_free(sz);
}

#define NK 4
#define NS 4
static public_key_t pk[NK]; static secret_key_t sk[NK]; static signature_t sig[NS];

/* deep image of the objects verification reads: it must not write to them */
static size_t image(char *dst, size_t cap, const signature_t *sg, const public_key_t *pkk)
{
    size_t n = 0;
    const ec_curve_t *cs[2] = { &sg->E_aux, &pkk->curve };
    for (int c = 0; c < 2; c++) {
        memcpy(dst + n, &cs[c]->A, sizeof(fp2_t)); n += sizeof(fp2_t);
        memcpy(dst + n, &cs[c]->C, sizeof(fp2_t)); n += sizeof(fp2_t);
        memcpy(dst + n, &cs[c]->A24.x, sizeof(fp2_t)); n += sizeof(fp2_t);
        memcpy(dst + n, &cs[c]->A24.z, sizeof(fp2_t)); n += sizeof(fp2_t);
        dst[n++] = (char)cs[c]->is_A24_computed_and_normalized;
    }
    n += (size_t)snprintf(dst + n, cap - n, "|%d|%d|%d|%d %d|%d %d|%d %d|", sg->backtracking, sg->two_resp_length, sg->chall_b,
                          sg->hint_aux[0], sg->hint_aux[1], sg->hint_chall[0], sg->hint_chall[1], pkk->hint_pk[0], pkk->hint_pk[1]);
    n += (size_t)gmp_snprintf(dst + n, cap - n, "%Zx %Zx %Zx %Zx %Zx", sg->mat_Bchall_can_to_B_chall[0][0], sg->mat_Bchall_can_to_B_chall[0][1],
                              sg->mat_Bchall_can_to_B_chall[1][0], sg->mat_Bchall_can_to_B_chall[1][1], sg->chall_coeff);
    return n;
}

static size_t hex_to_bytes(unsigned char *dst, size_t cap, const char *s)
{
    size_t n = strlen(s) / 2; if (n > cap) n = cap;
    for (size_t i = 0; i < n; i++) dst[i] = (unsigned char)(a9_hexval(s[2 * i]) * 16 + a9_hexval(s[2 * i + 1]));
    return n;
}

int main(void)
{
    char line[1 << 14]; char *t[16];
    mp_set_memory_functions(g_alloc, g_realloc, g_free);
    printf("R sizeof_theta_isogeny %zx\n", sizeof(theta_isogeny_t));
    while (fgets(line, sizeof line, stdin)) {
        int n = a9_split(line, t, 16);
        if (n == 0) { printf("R bad-op\n"); continue; }
        epoch++;
        if (!strcmp(t[0], "seed") && n == 2) {
            unsigned char s[48] = { 0 }; hex_to_bytes(s, 48, t[1]);
            randombytes_init(s, NULL, 256);
            printf("R ok\n");
        } else if (!strcmp(t[0], "init") && n == 2) {
            int k = atoi(t[1]) % NK; public_key_init(&pk[k]); secret_key_init(&sk[k]); printf("R ok\n");
        } else if (!strcmp(t[0], "fin") && n == 2) {
            int k = atoi(t[1]) % NK; public_key_finalize(&pk[k]); secret_key_finalize(&sk[k]); printf("R ok\n");
        } else if (!strcmp(t[0], "siginit") && n == 2) {
            secret_sig_init(&sig[atoi(t[1]) % NS]); printf("R ok\n");
        } else if (!strcmp(t[0], "sigfin") && n == 2) {
            secret_sig_finalize(&sig[atoi(t[1]) % NS]); printf("R ok\n");
        } else if (!strcmp(t[0], "keygen") && n == 2) {
            int k = atoi(t[1]) % NK;
            protocols_keygen(&pk[k], &sk[k]);
            printf("R pk"); a9_print_fp2(&pk[k].curve.A); a9_print_fp2(&pk[k].curve.C);
            printf(" %x %x", (unsigned)pk[k].hint_pk[0], (unsigned)pk[k].hint_pk[1]);
            print_leaks(); printf("\n");
        } else if (!strcmp(t[0], "sign") && n == 4) {
            int k = atoi(t[1]) % NK, s = atoi(t[2]) % NS;
            unsigned char m[256]; size_t l = hex_to_bytes(m, sizeof m, t[3]);
            int r = protocols_sign(&sig[s], &pk[k], &sk[k], m, l, 0);
            printf("R sig %d", r); a9_print_fp2(&sig[s].E_aux.A);
            printf(" %x %x %x", (unsigned)sig[s].backtracking, (unsigned)sig[s].two_resp_length, (unsigned)sig[s].chall_b);
            gmp_printf(" %Zx %Zx %Zx %Zx %Zx", sig[s].mat_Bchall_can_to_B_chall[0][0], sig[s].mat_Bchall_can_to_B_chall[0][1],
                       sig[s].mat_Bchall_can_to_B_chall[1][0], sig[s].mat_Bchall_can_to_B_chall[1][1], sig[s].chall_coeff);
            printf(" %x %x %x %x", (unsigned)sig[s].hint_aux[0], (unsigned)sig[s].hint_aux[1], (unsigned)sig[s].hint_chall[0], (unsigned)sig[s].hint_chall[1]);
            print_leaks(); printf("\n");
        } else if (!strcmp(t[0], "verify") && n == 4) {
            int k = atoi(t[1]) % NK, s = atoi(t[2]) % NS;
            unsigned char m[256]; size_t l = hex_to_bytes(m, sizeof m, t[3]);
            static char im0[8192], im1[8192];
            tracking = 0; size_t n0 = image(im0, sizeof im0, &sig[s], &pk[k]); tracking = 1;
            int r = protocols_verif(&sig[s], &pk[k], m, l);
            tracking = 0; size_t n1 = image(im1, sizeof im1, &sig[s], &pk[k]); tracking = 1;
            printf("R ver %d img %s", r, (n0 == n1 && memcmp(im0, im1, n0) == 0) ? "same" : "changed"); print_leaks(); printf("\n");
        } else if (!strcmp(t[0], "h2") && n == 2) {
            if (!strcmp(t[1], "off")) unsetenv("SQI_VERIF_H2"); else setenv("SQI_VERIF_H2", t[1], 1);
            printf("R ok\n");
        } else if (!strcmp(t[0], "live")) {
            printf("R live %zx %zx %zx %zx\n", live_bytes[0], live_blocks[0], live_bytes[1], live_blocks[1]);
        } else
            printf("R bad-op\n");
        fflush(stdout);
    }
    return 0;
}

/* C10 correspondence driver: the real basis generator on curves reached by 2^f-isogeny walks from E0.
 * ops (one per line, integers hex; one result line "R ..." per op):
 *   walk s1 [s2 ...]          start at E0 with BASIS_EVEN; for each scalar: kernel P+[s]Q, chain of length f,
 *                             next basis by ec_curve_to_basis_2            -> R Are Aim Cre Cim
 *   setcurve Are Aim Cre Cim                                               -> R Are Aim Cre Cim
 *   scale lre lim             (A:C) := (l*A : l*C)                         -> R Are Aim Cre Cim
 *   tohint f forceP forceQ    ec_curve_to_basis_2f_to_hint                 -> R h0 h1 xP xQ | P Q PmQ   (affine x, re im each)
 *   fromhint f h0 h1          ec_curve_to_basis_2f_from_hint (signed h)    -> R xP xQ | P Q PmQ
 *   fromlast f                same with the hints emitted by the last tohint                 -> R xP xQ | P Q PmQ
 *   jacdiff                   last basis: lift P, Q separately, Jacobian P-Q and P+Q  -> R 1 (PmQ = x(P-Q)) | 2 (= x(P+Q)) | 0
 */
#include "a9_io.h"
#include <endomorphism_action.h>
#include <ec_params.h>

extern int verif_basis_force_fail[2];
extern void (*verif_basis_trace)(int which, int hint, const fp2_t *x);

static fp2_t tr_x[4];
static int tr_set[4];
static void trace_cb(int which, int hint, const fp2_t *x)
{
    (void)hint;
    if (which >= 0 && which < 4) { tr_x[which] = *x; tr_set[which] = 1; }
}

static ec_curve_t cur;
static ec_basis_t last;
static int have_last = 0;
static int last_hint[2] = { 0, 0 };

static void print_curve(void)
{
    printf("R"); a9_print_fp2(&cur.A); a9_print_fp2(&cur.C); printf("\n");
}

int main(void)
{
    char line[1 << 16];
    char *t[64];
    verif_basis_trace = trace_cb;
    copy_curve(&cur, &CURVE_E0);
    while (fgets(line, sizeof line, stdin)) {
        int n = a9_split(line, t, 64);
        if (n == 0) { printf("R bad-op\n"); continue; }
        if (!strcmp(t[0], "walk")) {
            ec_curve_t E; ec_basis_t B;
            copy_curve(&E, &CURVE_E0);
            B = BASIS_EVEN;
            int ok = 1;
            for (int i = 1; i < n && ok; i++) {
                digit_t s[NWORDS_ORDER] = { 0 };
                if (!a9_digits_from_hex(s, NWORDS_ORDER, t[i])) { ok = 0; break; }
                ec_isog_even_t phi;
                ec_curve_normalize_A24(&E);
                phi.curve = E;
                phi.length = POWER_OF_2;
                ec_ladder3pt(&phi.kernel, s, &B.P, &B.Q, &B.PmQ, &E);
                ec_curve_t img; ec_point_t dummy = B.Q;
                ec_eval_even(&img, &phi, &dummy, 1);
                ec_curve_init(&E);
                E.A = img.A; E.C = img.C;
                if (i + 1 < n) ec_curve_to_basis_2(&B, &E, POWER_OF_2);
            }
            if (!ok) { printf("R bad-op\n"); continue; }
            ec_curve_init(&cur); cur.A = E.A; cur.C = E.C;
            have_last = 0;
            print_curve();
        } else if (!strcmp(t[0], "setcurve") && n == 5) {
            ec_curve_init(&cur);
            if (!a9_fp2_from_hex(&cur.A, t[1], t[2]) || !a9_fp2_from_hex(&cur.C, t[3], t[4])) { printf("R bad-op\n"); continue; }
            have_last = 0;
            print_curve();
        } else if (!strcmp(t[0], "scale") && n == 3) {
            fp2_t l;
            if (!a9_fp2_from_hex(&l, t[1], t[2])) { printf("R bad-op\n"); continue; }
            fp2_t A = cur.A, C = cur.C;
            ec_curve_init(&cur);
            fp2_mul(&cur.A, &A, &l); fp2_mul(&cur.C, &C, &l);
            print_curve();
        } else if (!strcmp(t[0], "tohint") && n == 4) {
            int f = (int)a9_parse_long(t[1]);
            verif_basis_force_fail[0] = (int)a9_parse_long(t[2]);
            verif_basis_force_fail[1] = (int)a9_parse_long(t[3]);
            ec_curve_t E; ec_curve_init(&E); E.A = cur.A; E.C = cur.C;
            int hint[2] = { -7, -7 };
            memset(tr_set, 0, sizeof tr_set);
            ec_curve_to_basis_2f_to_hint(&last, &E, f, hint);
            verif_basis_force_fail[0] = verif_basis_force_fail[1] = 0;
            have_last = 1;
            last_hint[0] = hint[0]; last_hint[1] = hint[1];
            printf("R %x %x", (unsigned)hint[0], (unsigned)hint[1]);
            a9_print_fp2(&tr_x[0]); a9_print_fp2(&tr_x[1]);
            printf(" |"); a9_print_affx(&last.P); a9_print_affx(&last.Q); a9_print_affx(&last.PmQ);
            printf("\n");
        } else if ((!strcmp(t[0], "fromhint") && n == 4) || (!strcmp(t[0], "fromlast") && n == 2)) {
            int f = (int)a9_parse_long(t[1]);
            int hint[2] = { last_hint[0], last_hint[1] };
            if (n == 4) { hint[0] = (int)a9_parse_long(t[2]); hint[1] = (int)a9_parse_long(t[3]); }
            ec_curve_t E; ec_curve_init(&E); E.A = cur.A; E.C = cur.C;
            memset(tr_set, 0, sizeof tr_set);
            ec_curve_to_basis_2f_from_hint(&last, &E, f, hint);
            have_last = 1;
            printf("R");
            a9_print_fp2(&tr_x[2]); a9_print_fp2(&tr_x[3]);
            printf(" |"); a9_print_affx(&last.P); a9_print_affx(&last.Q); a9_print_affx(&last.PmQ);
            printf("\n");
        } else if (!strcmp(t[0], "jacdiff") && n == 1 && have_last) {
            ec_curve_t E1, E2; ec_point_t P = last.P, Q = last.Q;
            ec_curve_init(&E1); E1.A = cur.A; E1.C = cur.C;
            ec_curve_init(&E2); E2.A = cur.A; E2.C = cur.C;
            jac_point_t jP, jQ, jmQ, D, S;
            lift_point(&jP, &P, &E1);
            lift_point(&jQ, &Q, &E2);
            jac_neg(&jmQ, &jQ);
            ADD(&D, &jP, &jmQ, &E1);
            ADD(&S, &jP, &jQ, &E1);
            ec_point_t d, s;
            jac_to_xz(&d, &D); jac_to_xz(&s, &S);
            int r = ec_is_equal(&d, &last.PmQ) ? 1 : (ec_is_equal(&s, &last.PmQ) ? 2 : 0);
            printf("R %d\n", r);
        } else
            printf("R bad-op\n");
        fflush(stdout);
    }
    return 0;
}

/* Correspondence / end-to-end driver for C09 (2^n-isogeny chains) and C12 ((2,2)-chains).
 * Line protocol: one op per input line (integers in hex), one result line prefixed "R " per op.
 *
 *   even.trace <lvl> <n>                       hook trace of ec_eval_even_strategy for a kernel of order 2^n on E0
 *   theta.trace <lvl> <row> <n> <ea> <which>   hook trace of theta_chain_comput_strategy (which=0) /
 *                                              _faster_no_eval (which=1) on strategies[row]
 *   theta.trace.row <n> <ea> <which> x1 x2 …   same with an explicit strategy array
 *   theta.bal <n>                              hook trace of theta_chain_comput_balanced
 *   even.e2e <n> <above> <walk> <a> <c> <d> <w1> … real curves: strategy routine vs naive chain (see tools/props/c09.py)
 *   theta.e2e <len> <u> <nrand> x1 …           Kani kernel on E0xE0 (as fixed_degree_isogeny), all chain routines
 *
 * Everything printed is canonical (normalised field elements in hex, no addresses / timings).
 */
#define _GNU_SOURCE
#include <stdio.h>
#include <stdlib.h>
#include <string.h>
#include <stdint.h>
#include <ec.h>
#include <isog.h>
#include <biextension.h>
#include <hd.h>
#include <theta_isogenies.h>
#include <ec_params.h>
#include <endomorphism_action.h>
#include <torsion_constants.h>
#include <quaternion_data.h>
#include <klpt.h>
#include <id2iso.h>
#include <rng.h>
#include <encoded_sizes.h>

/* the trace hook of the repo (guarded, see ec.h); declared weak so that the driver also links against a tree
   without the hook: trace ops then answer "R no-hook" */
extern void (*sqisign_verif_trace)(int tag, int a, int b, int c) __attribute__((weak));
#define HAVE_HOOK (&sqisign_verif_trace != 0)

#define F ((int)TORSION_PLUS_EVEN_POWER)
#define MAXTOK 1200

/* all result text goes to an in-memory stream and is written as one line per op (the library prints timing noise on stdout) */
static FILE *OUT;

/* ---------------------------------------------------------------- trace capture */
static long tr[400000];
static int trn;
static void
trace_cb(int tag, int a, int b, int c)
{
    if (trn + 4 <= (int)(sizeof(tr) / sizeof(tr[0]))) {
        tr[trn++] = tag; tr[trn++] = a; tr[trn++] = b; tr[trn++] = c;
    }
}
static void
print_hexint(long v)
{
    if (v < 0) fprintf(OUT, "-%lx", -v); else fprintf(OUT, "%lx", v);
}
static void
print_trace(void)
{
    fprintf(OUT, "R");
    for (int i = 0; i < trn; i++) { fprintf(OUT, " "); print_hexint(tr[i]); }
    fprintf(OUT, "\n");
}

/* ---------------------------------------------------------------- printing field elements */
static void
print_fp2(const fp2_t *a)
{
    unsigned char buf[FP2_ENCODED_BYTES];
    fp2_encode(buf, a);
    int h = FP2_ENCODED_BYTES / 2;
    for (int part = 0; part < 2; part++) {
        fprintf(OUT, part ? "," : " ");
        int started = 0;
        for (int i = h - 1; i >= 0; i--) {
            unsigned char c = buf[part * h + i];
            if (!started) { if (c == 0 && i > 0) continue; fprintf(OUT, "%x", c); started = 1; }
            else fprintf(OUT, "%02x", c);
        }
    }
}
/* x-coordinate normalised, or "inf" */
static void
print_x(const ec_point_t *P)
{
    if (fp2_is_zero(&P->z)) { fprintf(OUT, " inf"); return; }
    fp2_t t = P->z, x;
    fp2_inv(&t);
    fp2_mul(&x, &P->x, &t);
    print_fp2(&x);
}
static void
print_A(const ec_curve_t *E)
{
    fp2_t t = E->C, a;
    fp2_inv(&t);
    fp2_mul(&a, &E->A, &t);
    print_fp2(&a);
}
static void
print_j(const ec_curve_t *E)
{
    fp2_t j;
    ec_curve_t c = *E;
    ec_j_inv(&j, &c);
    print_fp2(&j);
}

/* ---------------------------------------------------------------- parsing */
static long
parse_hex(const char *s)
{
    int neg = (*s == '-');
    if (neg) s++;
    long v = strtol(s, NULL, 16);
    return neg ? -v : v;
}
/* hex string -> digit array (little endian words) */
static void
parse_digits(digit_t *out, int nwords, const char *s)
{
    memset(out, 0, nwords * sizeof(digit_t));
    int len = (int)strlen(s);
    for (int i = 0; i < len; i++) {
        char ch = s[len - 1 - i];
        digit_t v = (ch >= '0' && ch <= '9') ? ch - '0' : (ch >= 'a' && ch <= 'f') ? ch - 'a' + 10 : ch - 'A' + 10;
        int w = i / 16;
        if (w < nwords) out[w] |= v << (4 * (i % 16));
    }
}

/* ---------------------------------------------------------------- C09 */
static void
e0_curve(ec_curve_t *E)
{
    *E = CURVE_E0;
    ec_curve_init(E);
    *E = CURVE_E0;
    E->is_A24_computed_and_normalized = false;
}

static void
op_even_trace(int n)
{
    ec_curve_t E, img;
    e0_curve(&E);
    ec_isog_even_t phi;
    phi.curve = E;
    phi.length = (unsigned short)n;
    ec_point_t K = BASIS_EVEN.P;
    if (n <= F) ec_dbl_iter(&K, F - n, &E, &K);
    phi.kernel = K;
    if (!HAVE_HOOK) { fprintf(OUT, "R no-hook\n"); return; }
    trn = 0;
    sqisign_verif_trace = trace_cb;
    ec_eval_even(&img, &phi, NULL, 0);
    sqisign_verif_trace = 0;
    print_trace();
}

/* random-walk step: quotient by [2^(F-w)](P + [s]Q) with the deterministic basis of E */
static void
walk_step(ec_curve_t *E, int w, const digit_t *s)
{
    ec_basis_t B;
    ec_curve_to_basis_2f(&B, E, F);
    digit_t one[NWORDS_ORDER] = { 0 };
    one[0] = 1;
    ec_point_t K;
    ec_biscalar_mul(&K, E, one, s, &B);
    ec_dbl_iter(&K, F - w, E, &K);
    ec_point_t dummy = B.P;
    ec_curve_t img = *E;
    ec_eval_small_chain(&img, &K, w, &dummy, 1);
    *E = img;
    /* normalise (A : C) -> (A/C : 1) so that later printing/bases are canonical */
    fp2_t t = E->C;
    fp2_inv(&t);
    fp2_mul(&E->A, &E->A, &t);
    fp2_set_one(&E->C);
    E->is_A24_computed_and_normalized = false;
}

/* even.e2e n above walk a c d [w_i s_i]*  */
static void
op_even_e2e(int ntok, char **tok)
{
    int n = (int)parse_hex(tok[1]);
    int above = (int)parse_hex(tok[2]);
    int walk = (int)parse_hex(tok[3]);
    digit_t a[NWORDS_ORDER], c[NWORDS_ORDER], d[NWORDS_ORDER], one[NWORDS_ORDER] = { 0 };
    one[0] = 1;
    parse_digits(a, NWORDS_ORDER, tok[4]);
    parse_digits(c, NWORDS_ORDER, tok[5]);
    parse_digits(d, NWORDS_ORDER, tok[6]);
    ec_curve_t E;
    e0_curve(&E);
    for (int i = 0; i < walk && 7 + 2 * i + 1 < ntok; i++) {
        digit_t s[NWORDS_ORDER];
        parse_digits(s, NWORDS_ORDER, tok[7 + 2 * i + 1]);
        walk_step(&E, (int)parse_hex(tok[7 + 2 * i]), s);
    }
    ec_basis_t B;
    if (walk == 0) { B = BASIS_EVEN; } else { ec_curve_to_basis_2f(&B, &E, F); }
    /* kernel generator: exactly one of the classes P, Q, P+Q (mod 2) lies above (0,0); take the first candidate
       K0 in { P + [a]Q, [a]P + Q, P + [a+1]Q } (a even) whose position matches the request */
    a[0] &= ~(digit_t)1;
    digit_t a1[NWORDS_ORDER];
    memcpy(a1, a, sizeof(a1));
    a1[0] |= 1;
    ec_point_t K0, K, R, K2;
    int is_above = 0;
    for (int cand = 0; cand < 3; cand++) {
        if (cand == 0) ec_biscalar_mul(&K0, &E, one, a, &B);
        else if (cand == 1) ec_biscalar_mul(&K0, &E, a, one, &B);
        else ec_biscalar_mul(&K0, &E, one, a1, &B);
        K = K0;
        ec_dbl_iter(&K, F - n, &E, &K);
        K2 = K;
        ec_dbl_iter(&K2, n - 1, &E, &K2);
        is_above = fp2_is_zero(&K2.x) && !fp2_is_zero(&K2.z);
        if (is_above == (above != 0)) break;
    }
    ec_biscalar_mul(&R, &E, c, d, &B);
    int sing = 0;
    if (n >= 2) {
        ec_point_t K4 = K;
        ec_dbl_iter(&K4, n - 2, &E, &K4);
        fp2_t mz;
        fp2_neg(&mz, &K4.z);
        sing = fp2_is_equal(&K4.x, &K4.z) ? 1 : (fp2_is_equal(&K4.x, &mz) ? -1 : 0);
    }

    fprintf(OUT, "R n=%x above=%d sing=%d dom", n, is_above, sing);
    print_A(&E);
    fprintf(OUT, " pts");
    ec_point_t in[5] = { K, B.P, B.Q, B.PmQ, R };
    for (int i = 0; i < 5; i++) print_x(&in[i]);

    /* naive chain */
    ec_point_t p2[5];
    memcpy(p2, in, sizeof(in));
    ec_curve_t img2 = E;
    ec_eval_small_chain(&img2, &K, n, p2, 5);
    fprintf(OUT, " naive");
    print_A(&img2);
    for (int i = 0; i < 5; i++) print_x(&p2[i]);

    /* public entry point ec_eval_even (strategy routine or, for lengths without a table row, the naive chain) */
    if (n >= 1) {
        ec_point_t p1[5];
        memcpy(p1, in, sizeof(in));
        ec_isog_even_t phi;
        phi.curve = E;
        phi.kernel = K;
        phi.length = (unsigned short)n;
        ec_curve_t img1;
        ec_eval_even(&img1, &phi, p1, 5);
        fprintf(OUT, " strat");
        print_A(&img1);
        for (int i = 0; i < 5; i++) print_x(&p1[i]);
        /* Weil pairing cross-check (library's own pairing): e(φP,φQ) vs e(P,Q) */
        fp2_t e0, e1;
        ec_curve_t Ec = E;
        ec_curve_normalize_A24(&Ec);
        ec_point_t bp = B.P, bq = B.Q, bpq = B.PmQ;
        weil(&e0, F, &bp, &bq, &bpq, &Ec.A24);
        ec_curve_t Ic = img1;
        ec_curve_normalize_A24(&Ic);
        weil(&e1, F, &p1[1], &p1[2], &p1[3], &Ic.A24);
        fprintf(OUT, " weil");
        print_fp2(&e0);
        print_fp2(&e1);
        /* history: evaluate the same ec_isog_even_t a second time (no points) */
        ec_curve_t img3;
        ec_eval_even(&img3, &phi, NULL, 0);
        fprintf(OUT, " again");
        print_A(&img3);
    } else {
        fprintf(OUT, " strat none");
    }
    fprintf(OUT, "\n");
}

/* ---------------------------------------------------------------- C12 */
static void
arbitrary_kernel(theta_couple_curve_t *E01, theta_couple_point_t *T1, theta_couple_point_t *T2,
                 theta_couple_point_t *T1m2, int order_exp)
{
    ec_curve_t E0;
    e0_curve(&E0);
    E01->E1 = E0;
    E01->E2 = E0;
    ec_basis_t B = BASIS_EVEN;
    int dbl = F - order_exp;
    if (dbl < 0) dbl = 0;
    ec_dbl_iter(&B.P, dbl, &E0, &B.P);
    ec_dbl_iter(&B.Q, dbl, &E0, &B.Q);
    ec_dbl_iter(&B.PmQ, dbl, &E0, &B.PmQ);
    T1->P1 = B.P; T2->P1 = B.Q; T1m2->P1 = B.PmQ;
    /* second factor: the image under the endomorphism i (ACTION_GEN2), any basis will do for the trace */
    T1->P2 = B.Q; T2->P2 = B.P; T1m2->P2 = B.PmQ;
}

static void
run_theta_trace(int n, int ea, int which, int *strategy)
{
    theta_couple_curve_t E01;
    theta_couple_point_t T1, T2, T1m2;
    theta_chain_t ch;
    if (!HAVE_HOOK) { fprintf(OUT, "R no-hook\n"); return; }
    arbitrary_kernel(&E01, &T1, &T2, &T1m2, ea ? n + 2 : n);
    trn = 0;
    sqisign_verif_trace = trace_cb;
    if (which == 0)
        theta_chain_comput_strategy(&ch, n, &E01, &T1, &T2, &T1m2, strategy, ea);
    else
        theta_chain_comput_strategy_faster_no_eval(&ch, n, &E01, &T1, &T2, &T1m2, strategy, ea);
    sqisign_verif_trace = 0;
    free(ch.steps);
    print_trace();
}

static void
op_theta_bal(int n)
{
    theta_couple_curve_t E01;
    theta_couple_point_t T1, T2, T1m2;
    theta_chain_t ch;
    if (!HAVE_HOOK) { fprintf(OUT, "R no-hook\n"); return; }
    arbitrary_kernel(&E01, &T1, &T2, &T1m2, n + 2);
    trn = 0;
    sqisign_verif_trace = trace_cb;
    theta_chain_comput_balanced(&ch, n, &E01, &T1, &T2, &T1m2);
    sqisign_verif_trace = 0;
    free(ch.steps);
    print_trace();
}

static void
print_codomain(const char *name, theta_chain_t *ch)
{
    fprintf(OUT, " %s", name);
    print_j(&ch->codomain.E1);
    print_j(&ch->codomain.E2);
}

/* evaluation routines against each other on one point: (a) eval_no_help == eval(Help = P + K1_4),
   (b) [4]F(P) == F([4]P) (F([4]P) through the special-case routine when a component vanishes) */
static void
evalcmp_point(theta_chain_t *Fc, theta_couple_curve_t *E, theta_couple_jac_point_t *P)
{
    theta_couple_point_t r_nh, r_h, xz, help, r4, rs, in4;
    theta_couple_jac_point_t tmp, P4;
    theta_chain_eval_no_help(&r_nh, Fc, P, E);
    ADD(&tmp.P1, &P->P1, &Fc->first_step.xyK1_4.P1, &E->E1);
    ADD(&tmp.P2, &P->P2, &Fc->first_step.xyK1_4.P2, &E->E2);
    couple_jac_to_xz(&help, &tmp);
    couple_jac_to_xz(&xz, P);
    theta_chain_eval(&r_h, Fc, &xz, &help);
    int same = ec_is_equal(&r_nh.P1, &r_h.P1) && ec_is_equal(&r_nh.P2, &r_h.P2);
    double_couple_jac_point_iter(&P4, 2, E, P);
    couple_jac_to_xz(&in4, &P4);
    if (fp2_is_zero(&in4.P1.z)) ec_set_zero(&in4.P1);
    if (fp2_is_zero(&in4.P2.z)) ec_set_zero(&in4.P2);
    if (ec_is_zero(&in4.P1) || ec_is_zero(&in4.P2)) theta_chain_eval_special_case(&rs, Fc, &in4, E);
    else theta_chain_eval_no_help(&rs, Fc, &P4, E);
    ec_dbl_iter(&r4.P1, 2, &Fc->codomain.E1, &r_nh.P1);
    ec_dbl_iter(&r4.P2, 2, &Fc->codomain.E2, &r_nh.P2);
    int lin = ec_is_equal(&r4.P1, &rs.P1) && ec_is_equal(&r4.P2, &rs.P2);
    fprintf(OUT, " %d%d", same, lin);
}

/* point classes: generic, components in K1_4.Pi, components in K2_4.Pi + E[2] (there the gluing image has a
   vanishing theta coordinate and gluing_eval_point(_no_help) take their rare normalisation branch), kernel points */
static void
evalcmp(theta_chain_t *Fc, theta_couple_curve_t *E)
{
    ec_basis_t bas = BASIS_EVEN;
    jac_point_t gP, gQ, gen, gen2, s2, K1_2, K2s;
    lift_basis(&gP, &gQ, &bas, &E->E1);
    ADD(&gen, &gP, &gQ, &E->E1);
    DBL(&s2, &gP, &E->E1);
    ADD(&gen, &gen, &s2, &E->E1);
    ADD(&gen2, &gen, &gQ, &E->E1);
    theta_couple_jac_point_t K1 = Fc->first_step.xyK1_4, K2 = Fc->first_step.xyK2_4, P;
    DBL(&K1_2, &K1.P1, &E->E1);
    ADD(&K2s, &K2.P1, &K1_2, &E->E1);
    fprintf(OUT, " evalcmp");
    P.P1 = gen;   P.P2 = gen2;  evalcmp_point(Fc, E, &P);
    P.P1 = K1.P1; P.P2 = gen;   evalcmp_point(Fc, E, &P);
    P.P1 = gen;   P.P2 = K1.P2; evalcmp_point(Fc, E, &P);
    P.P1 = K2.P1; P.P2 = gen;   evalcmp_point(Fc, E, &P);
    P.P1 = K2s;   P.P2 = gen;   evalcmp_point(Fc, E, &P);
    P.P1 = gen;   P.P2 = K2.P2; evalcmp_point(Fc, E, &P);
    P.P1 = K1.P1; P.P2 = K2.P2; evalcmp_point(Fc, E, &P);
    theta_couple_point_t r;
    P = K2;
    theta_chain_eval_no_help(&r, Fc, &P, E);
    fprintf(OUT, " %d", ec_is_zero(&r.P1) && ec_is_zero(&r.P2));
    P = K1;
    theta_chain_eval_no_help(&r, Fc, &P, E);
    fprintf(OUT, "%d", ec_is_zero(&r.P1) && ec_is_zero(&r.P2));
}

/* theta.e2e len u nrand x1..  : Kani kernel (P, theta(P)/u) on E0 x E0 as in fixed_degree_isogeny */
static void
op_theta_e2e(int ntok, char **tok)
{
    int length = (int)parse_hex(tok[1]);
    int nrand = (int)parse_hex(tok[3]);
    static int rnd[1024];
    for (int i = 0; i < 1024; i++) rnd[i] = 0;
    for (int i = 0; i < nrand && 4 + i < ntok && i < 1024; i++) rnd[i] = (int)parse_hex(tok[4 + i]);

    ibz_t u, two_pow, tmp;
    quat_alg_elem_t theta;
    ibz_init(&u); ibz_init(&two_pow); ibz_init(&tmp);
    quat_alg_elem_init(&theta);
    ibz_set_from_str(&u, tok[2], 16);
    ibz_pow(&two_pow, &ibz_const_two, length);
    ibz_sub(&tmp, &two_pow, &u);
    ibz_mul(&tmp, &tmp, &u);
    int found = represent_integer_non_diag(&theta, &tmp, &QUATALG_PINFTY);
    if (!found) { fprintf(OUT, "R notfound\n"); goto done; }

    ec_curve_t E0;
    e0_curve(&E0);
    ec_basis_t B0 = BASIS_EVEN, Bfull = BASIS_EVEN;
    ec_dbl_iter(&B0.P, F - length - 2, &E0, &B0.P);
    ec_dbl_iter(&B0.Q, F - length - 2, &E0, &B0.Q);
    ec_dbl_iter(&B0.PmQ, F - length - 2, &E0, &B0.PmQ);
    theta_couple_curve_t E01;
    theta_couple_point_t T1, T2, T1m2;
    E01.E1 = E0; E01.E2 = E0;
    T1.P1 = B0.P; T2.P1 = B0.Q; T1m2.P1 = B0.PmQ;
    ibz_mul(&two_pow, &two_pow, &ibz_const_two);
    ibz_mul(&two_pow, &two_pow, &ibz_const_two);
    ibz_invmod(&tmp, &u, &two_pow);
    for (int i = 0; i < 4; i++) ibz_mul(&theta.coord[i], &theta.coord[i], &tmp);
    endomorphism_application_even_basis(&B0, &E0, &theta, length + 2);
    T1.P2 = B0.P; T2.P2 = B0.Q; T1m2.P2 = B0.PmQ;

    fprintf(OUT, "R found len=%x", length);
    theta_chain_t c1, c2, c3, c4, c5;
    theta_chain_comput_strategy(&c1, length, &E01, &T1, &T2, &T1m2, strategies[F - length], 1);
    print_codomain("strat8", &c1);
    theta_chain_comput_strategy_faster_no_eval(&c2, length, &E01, &T1, &T2, &T1m2, strategies[F - length], 1);
    print_codomain("fast8", &c2);
    theta_chain_comput_balanced(&c4, length, &E01, &T1, &T2, &T1m2);
    print_codomain("bal8", &c4);
    if (nrand > 0) {
        theta_chain_comput_strategy(&c5, length, &E01, &T1, &T2, &T1m2, rnd, 1);
        print_codomain("rand8", &c5);
        free(c5.steps);
    }
    /* the same kernel given by points of order 2^len (no 8-torsion above) */
    theta_couple_point_t S1, S2, S1m2;
    double_couple_point_iter(&S1, 2, &E01, &T1);
    double_couple_point_iter(&S2, 2, &E01, &T2);
    double_couple_point_iter(&S1m2, 2, &E01, &T1m2);
    theta_chain_comput_strategy(&c3, length, &E01, &S1, &S2, &S1m2, strategies[F - length + 2], 0);
    print_codomain("strat4", &c3);
    {
        theta_chain_t c6;
        theta_chain_comput_strategy_faster_no_eval(&c6, length, &E01, &S1, &S2, &S1m2, strategies[F - length + 2], 0);
        print_codomain("fast4", &c6);
        free(c6.steps);
    }

    /* degree relations: push (P,0),(Q,0),(P-Q,0) for the full 2^F basis through chain 1 and 3 */
    {
        theta_chain_t *chs[2] = { &c1, &c3 };
        fp2_t e0;
        ec_curve_t Ec = E0;
        ec_curve_normalize_A24(&Ec);
        ec_point_t bp = Bfull.P, bq = Bfull.Q, bpq = Bfull.PmQ;
        weil(&e0, F, &bp, &bq, &bpq, &Ec.A24);
        fprintf(OUT, " e0");
        print_fp2(&e0);
        for (int k = 0; k < 2; k++) {
            theta_couple_point_t in, oP, oQ, oPQ;
            ec_set_zero(&in.P2);
            in.P1 = Bfull.P;   theta_chain_eval_special_case(&oP, chs[k], &in, &E01);
            in.P1 = Bfull.Q;   theta_chain_eval_special_case(&oQ, chs[k], &in, &E01);
            in.P1 = Bfull.PmQ; theta_chain_eval_special_case(&oPQ, chs[k], &in, &E01);
            fp2_t e3, e4;
            ec_curve_t C1 = chs[k]->codomain.E1, C2 = chs[k]->codomain.E2;
            ec_curve_normalize_A24(&C1);
            ec_curve_normalize_A24(&C2);
            weil(&e3, F, &oP.P1, &oQ.P1, &oPQ.P1, &C1.A24);
            weil(&e4, F, &oP.P2, &oQ.P2, &oPQ.P2, &C2.A24);
            fprintf(OUT, k == 0 ? " pair8" : " pair4");
            print_fp2(&e3);
            print_fp2(&e4);
        }
    }
    evalcmp(&c1, &E01);
    fprintf(OUT, "\n");
    free(c1.steps); free(c2.steps); free(c3.steps); free(c4.steps);
done:
    ibz_finalize(&u); ibz_finalize(&two_pow); ibz_finalize(&tmp);
    quat_alg_elem_finalize(&theta);
}

/* ---------------------------------------------------------------- main loop */
int
main(void)
{
    static char line[1 << 16];
    static char *tok[MAXTOK];
    unsigned char seed[48];
    for (int i = 0; i < 48; i++) seed[i] = (unsigned char)(i * 7 + 1);
    randombytes_init(seed, NULL, 256);
    while (fgets(line, sizeof(line), stdin)) {
        int ntok = 0;
        char *obuf = NULL;
        size_t olen = 0;
        OUT = open_memstream(&obuf, &olen);
        for (char *p = strtok(line, " \t\r\n"); p && ntok < MAXTOK; p = strtok(NULL, " \t\r\n")) tok[ntok++] = p;
        if (ntok == 0) { fprintf(OUT, "R bad-op\n"); goto emit; }
        if (!strcmp(tok[0], "even.trace") && ntok == 3) {
            if ((int)parse_hex(tok[1]) != VERIF_LVL) { fprintf(OUT, "R bad-level\n"); goto emit; }
            op_even_trace((int)parse_hex(tok[2]));
        } else if (!strcmp(tok[0], "theta.trace") && ntok == 6) {
            int row = (int)parse_hex(tok[2]);
            if ((int)parse_hex(tok[1]) != VERIF_LVL || row < 0 || row >= (int)(sizeof(strategies) / sizeof(strategies[0]))) {
                fprintf(OUT, "R bad-row\n"); goto emit;
            }
            run_theta_trace((int)parse_hex(tok[3]), (int)parse_hex(tok[4]), (int)parse_hex(tok[5]), strategies[row]);
        } else if (!strcmp(tok[0], "theta.trace.row") && ntok >= 4) {
            static int st[MAXTOK + 16];
            memset(st, 0, sizeof(st));
            for (int i = 4; i < ntok; i++) st[i - 4] = (int)parse_hex(tok[i]);
            run_theta_trace((int)parse_hex(tok[1]), (int)parse_hex(tok[2]), (int)parse_hex(tok[3]), st);
        } else if (!strcmp(tok[0], "theta.bal") && ntok == 2) {
            op_theta_bal((int)parse_hex(tok[1]));
        } else if (!strcmp(tok[0], "even.e2e") && ntok >= 7) {
            op_even_e2e(ntok, tok);
        } else if (!strcmp(tok[0], "theta.e2e") && ntok >= 4) {
            op_theta_e2e(ntok, tok);
        } else {
            fprintf(OUT, "R bad-op\n");
        }
    emit:
        fclose(OUT);
        fflush(stdout);
        printf("\n%s", obuf);
        free(obuf);
        fflush(stdout);
    }
    return 0;
}

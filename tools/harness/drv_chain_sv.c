/* C12 end-to-end on the chains that arise inside honest keygen / sign / verify of the dim-2 variant, in particular the
 * SHORT strategy rows (chain length SQIsign2D_response_length - two_resp_length, below log2(p)/2) that cannot be built
 * from E0 x E0.  The two strategy routines are intercepted with the linker's --wrap: every call made by the protocol
 * code is (1) executed for real, with the traversal hook recording its trace, and (2) replayed on the *same inputs*
 * with the other strategy routine, with a random valid strategy and — when the 8-torsion is available — with the
 * balanced routine and with the points of order 2^n and the row for eight_above = 0.  The harness compares the
 * codomains (unordered pairs of j-invariants) and hands the recorded trace to the Lean model.
 *
 *   sv <v2> <seed-hex> <nmsg>     keygen; sign up to nmsg messages with SQI_VERIF_H1_V2=v2 (a8's H1 hook; -1 = no
 *                                 steering) until one signature is produced; verify it
 * result:  R sv v2=… sign=… verif=… | C which n ea L strat… ; T trace… ; J real j j ; J other j j ; … | C …
 */
#define _GNU_SOURCE
#include <stdio.h>
#include <stdlib.h>
#include <string.h>
#include <stdint.h>
#include <ec.h>
#include <hd.h>
#include <theta_isogenies.h>
#include <ec_params.h>
#include <torsion_constants.h>
#include <encoded_sizes.h>
#include <rng.h>
#include <sqisigndim2.h>

#define F ((int)TORSION_PLUS_EVEN_POWER)
#define NROWS ((int)(sizeof(strategies) / sizeof(strategies[0])))

extern void (*sqisign_verif_trace)(int tag, int a, int b, int c) __attribute__((weak));
#define HAVE_HOOK (&sqisign_verif_trace != 0)

static FILE *OUT;
static long tr[200000];
static int trn, nrec, in_wrap;
static uint64_t lcg = 88172645463325252ULL;

static void
trace_cb(int tag, int a, int b, int c)
{
    if (trn + 4 <= (int)(sizeof(tr) / sizeof(tr[0]))) { tr[trn++] = tag; tr[trn++] = a; tr[trn++] = b; tr[trn++] = c; }
}
static uint32_t
rnd(void)
{
    lcg ^= lcg << 13; lcg ^= lcg >> 7; lcg ^= lcg << 17;
    return (uint32_t)(lcg >> 11);
}
static void
print_fp2(const fp2_t *a)
{
    unsigned char buf[FP2_ENCODED_BYTES];
    fp2_encode(buf, a);
    int h = FP2_ENCODED_BYTES / 2;
    for (int part = 0; part < 2; part++) {
        fprintf(OUT, part ? "," : " ");
        int started = 0;
        for (int i = h - 1; i >= 0; i--) {
            unsigned char c = buf[part * h + i];
            if (!started) { if (c == 0 && i > 0) continue; fprintf(OUT, "%x", c); started = 1; }
            else fprintf(OUT, "%02x", c);
        }
    }
}
static void
print_jpair(const char *name, theta_chain_t *ch)
{
    fp2_t j;
    ec_curve_t c = ch->codomain.E1;
    fprintf(OUT, " ; J %s", name);
    ec_j_inv(&j, &c); print_fp2(&j);
    c = ch->codomain.E2;
    ec_j_inv(&j, &c); print_fp2(&j);
}
/* random valid strategy for n leaves (pre-order) */
static int
gen_strategy(int *out, int pos, int n)
{
    if (n <= 1) return pos;
    int b;
    if ((rnd() & 3) == 0) b = 1 + (int)(rnd() % (uint32_t)(n - 1));
    else { b = n / 2 + (int)(rnd() % 5) - 2; if (b < 1) b = 1; if (b > n - 1) b = n - 1; }
    out[pos++] = b;
    pos = gen_strategy(out, pos, n - b);
    return gen_strategy(out, pos, b);
}

void __real_theta_chain_comput_strategy(theta_chain_t *, int, theta_couple_curve_t *, const theta_couple_point_t *,
                                        const theta_couple_point_t *, const theta_couple_point_t *, int *, int);
int __real_theta_chain_comput_strategy_faster_no_eval(theta_chain_t *, int, theta_couple_curve_t *,
                                                       const theta_couple_point_t *, const theta_couple_point_t *,
                                                       const theta_couple_point_t *, int *, int);

static int
record(int which, theta_chain_t *out, int n, theta_couple_curve_t *E12, const theta_couple_point_t *T1,
       const theta_couple_point_t *T2, const theta_couple_point_t *T1m2, int *strategy, int ea)
{
    int L = n - (ea ? 0 : 2);
    int rv = 1;
    trn = 0;
    if (HAVE_HOOK) sqisign_verif_trace = trace_cb;
    if (which == 0) __real_theta_chain_comput_strategy(out, n, E12, T1, T2, T1m2, strategy, ea);
    else rv = __real_theta_chain_comput_strategy_faster_no_eval(out, n, E12, T1, T2, T1m2, strategy, ea);
    if (HAVE_HOOK) sqisign_verif_trace = 0;
    if (nrec >= 12 || L < 2 || L > 600) return rv;        /* keep the output bounded */
    nrec++;
    fprintf(OUT, " | C %x %x %x %x", which, n, ea, L);
    for (int i = 0; i + 1 < L; i++) fprintf(OUT, " %x", strategy[i]);
    fprintf(OUT, " ; T");
    for (int i = 0; i < trn; i++) { if (tr[i] < 0) fprintf(OUT, " -%lx", -tr[i]); else fprintf(OUT, " %lx", tr[i]); }
    fprintf(OUT, " ; S %d", rv);
    print_jpair("real", out);
    theta_chain_t c2;
    theta_couple_curve_t E = *E12;
    if (which == 0) (void)__real_theta_chain_comput_strategy_faster_no_eval(&c2, n, &E, T1, T2, T1m2, strategy, ea);
    else __real_theta_chain_comput_strategy(&c2, n, &E, T1, T2, T1m2, strategy, ea);
    print_jpair("other", &c2);
    free(c2.steps);
    static int rs[1024];
    memset(rs, 0, sizeof(rs));
    gen_strategy(rs, 0, L);
    E = *E12;
    __real_theta_chain_comput_strategy(&c2, n, &E, T1, T2, T1m2, rs, ea);
    print_jpair("rand", &c2);
    free(c2.steps);
    if (ea) {
        E = *E12;
        theta_chain_comput_balanced(&c2, n, &E, T1, T2, T1m2);
        print_jpair("bal", &c2);
        free(c2.steps);
        if (F - n + 2 >= 0 && F - n + 2 < NROWS) {
            theta_couple_point_t S1, S2, S1m2;
            E = *E12;
            double_couple_point_iter(&S1, 2, &E, T1);
            double_couple_point_iter(&S2, 2, &E, T2);
            double_couple_point_iter(&S1m2, 2, &E, T1m2);
            __real_theta_chain_comput_strategy(&c2, n, &E, &S1, &S2, &S1m2, strategies[F - n + 2], 0);
            print_jpair("four", &c2);
            free(c2.steps);
        }
    }
    return rv;
}

void
__wrap_theta_chain_comput_strategy(theta_chain_t *out, int n, theta_couple_curve_t *E12, const theta_couple_point_t *T1,
                                   const theta_couple_point_t *T2, const theta_couple_point_t *T1m2, int *strategy, int ea)
{
    if (in_wrap) { __real_theta_chain_comput_strategy(out, n, E12, T1, T2, T1m2, strategy, ea); return; }
    in_wrap = 1;
    (void)record(0, out, n, E12, T1, T2, T1m2, strategy, ea);
    in_wrap = 0;
}
int
__wrap_theta_chain_comput_strategy_faster_no_eval(theta_chain_t *out, int n, theta_couple_curve_t *E12,
                                                  const theta_couple_point_t *T1, const theta_couple_point_t *T2,
                                                  const theta_couple_point_t *T1m2, int *strategy, int ea)
{
    if (in_wrap) return __real_theta_chain_comput_strategy_faster_no_eval(out, n, E12, T1, T2, T1m2, strategy, ea);
    in_wrap = 1;
    int rv = record(1, out, n, E12, T1, T2, T1m2, strategy, ea);
    in_wrap = 0;
    return rv;
}

static char *rbuf;
static size_t rlen;
static void rec_open(void) { rbuf = NULL; rlen = 0; OUT = open_memstream(&rbuf, &rlen); }
static void rec_discard(void) { fclose(OUT); free(rbuf); rec_open(); }

int
main(void)
{
    static char line[4096];
    while (fgets(line, sizeof(line), stdin)) {
        char op[32] = "";
        int v2 = -1, nmsg = 1;
        char seedhex[128] = "1";
        if (sscanf(line, "%31s %d %127s %d", op, &v2, seedhex, &nmsg) < 2 || strcmp(op, "sv")) {
            printf("\nR bad-op\n");
            fflush(stdout);
            continue;
        }
        unsigned char seed[48];
        uint64_t sv = strtoull(seedhex, NULL, 16);
        for (int i = 0; i < 48; i++) seed[i] = (unsigned char)((sv >> (8 * (i % 8))) + 31 * i);
        randombytes_init(seed, NULL, 256);
        lcg = sv * 2654435761ULL + 88172645463325252ULL;
        if (v2 >= 0) { char b[16]; snprintf(b, sizeof(b), "%d", v2); setenv("SQI_VERIF_H1_V2", b, 1); }
        else unsetenv("SQI_VERIF_H1_V2");
        public_key_t pk;
        secret_key_t sk;
        signature_t sig;
        unsigned char msg[32] = { 0 };
        public_key_init(&pk);
        secret_key_init(&sk);
        secret_sig_init(&sig);
        rec_open();
        nrec = 100;                          /* the keygen chains are not recorded */
        protocols_keygen(&pk, &sk);
        int ret = 0, check = -1;
        for (int m = 0; m < nmsg && ret != 1; m++) {
            msg[0] = (unsigned char)m;
            msg[1] = (unsigned char)(sv & 0xff);
            rec_discard();                   /* records of failed attempts are dropped */
            nrec = 0;
            ret = protocols_sign(&sig, &pk, &sk, msg, 32, 0);
        }
        if (ret != 1) rec_discard();
        if (ret == 1) check = protocols_verif(&sig, &pk, msg, 32);
        fclose(OUT);
        fflush(stdout);
        printf("\nR sv v2=%d trl=%d sign=%d verif=%d%s\n", v2, ret == 1 ? (int)sig.two_resp_length : -1, ret, check, rbuf ? rbuf : "");
        fflush(stdout);
        free(rbuf);
        secret_sig_finalize(&sig);
        secret_key_finalize(&sk);
        public_key_finalize(&pk);
    }
    return 0;
}

/* Correspondence driver for the curve / isogeny-formula / theta-formula layers (ties T and H of C08; the `gen` ops
   are shared with C09 / C12). One op per input line, one result line prefixed "R ".

     gen <lvl> <op> <nF> <2*nF hex: re im ...> <ints...>     generated wrapper (gen_ops.inc, written by
                                                              tools/translate/_slops.py from the repo text): calls the
                                                              real C function, also under each alias pattern `op@k`
     fp2.sqrt|fp2.inv|fp2.issquare <lvl> re im
     ec.xmul <lvl> Px Pz A C k                (each field element = two hex tokens)      -> X Z
     ec.xmulv2 <lvl> Px Pz A24x A24z kbits k                                             -> X Z
     ec.dblmul <lvl> P Q PQ A C k l                                                      -> X Z
     ec.dblmulb <lvl> P Q PQ A C k l f                                                   -> X Z
     ec.biscalarb <lvl> P Q PQ A C k l f      (ec_biscalar_mul_bounded: zero scalar -> 2^f, then xDBLMUL_bounded) -> X Z
     ec.ladder3pt <lvl> P Q PQ A C m          (A24 normalised by ec_curve_normalize_A24)  -> X Z
     jac.seq <lvl> <nF> a P1..Pn (Jacobian, 3 field elements each)  ops: triples (1 i j = ADD, 2 i _ = DBL, 3 i _ = jac_neg),
                                                                   every result is a new register        -> X Y Z of the last
     jac.dblmul <lvl> 7 a P Q  nbits k l      (nbits = 40 hex -> DBLMUL, otherwise DBLMUL_generic, size = nbits/64) -> X Y Z
     ec.dbliter <lvl> n P A C                 (res preset to (0x5a5a:0x5a5a))            -> X Z | flag
   Field elements are printed through fp2_encode (canonical), minimal lowercase hex. */
#include <stdio.h>
#include <stdlib.h>
#include <string.h>
#include <stdint.h>
#include <ec.h>
#include <isog.h>
#include <curve_extras.h>
#include <biextension.h>
#include <hd.h>
#include <theta_structure.h>
#include <theta_isogenies.h>

void A24_from_AC(ec_point_t *A24, ec_point_t const *AC);
void cubicalDBL(ec_point_t *Q, ec_point_t const *P, ec_point_t const *A24);
void cubicalADD(ec_point_t *R, ec_point_t const *P, ec_point_t const *Q, fp2_t const *ixPQ);
void biextDBL(ec_point_t *PQQ, ec_point_t *QQ, ec_point_t const *PQ, ec_point_t const *Q, fp2_t const *ixP, ec_point_t const *A24);
void translate(ec_point_t *P, ec_point_t const *T);
void point_ratio(ec_point_t *R, ec_point_t const *PnQ, ec_point_t const *nQ, ec_point_t const *P);
void ratio(fp2_t *r, ec_point_t const *PnQ, ec_point_t const *nQ, ec_point_t const *P);
void x_coord(fp2_t *r, ec_point_t const *P);
void base_change(theta_point_t *out, const theta_gluing_t *phi, const theta_couple_point_t *T);
void theta_isogeny_comput4(theta_isogeny_t *out, const theta_structure_t *A, const theta_point_t *T1_4, const theta_point_t *T2_4, int bool1, int bool2);
void theta_isogeny_comput2(theta_isogeny_t *out, const theta_structure_t *A, const theta_point_t *T1_2, const theta_point_t *T2_2, int bool1, int bool2);
void apply_isomorphism(theta_point_t *res, const theta_splitting_t *out, const theta_point_t *P);
void theta_point_to_montgomery_point(theta_couple_point_t *P12, const theta_point_t *P, const theta_structure_t *A);
void theta_product_structure_to_elliptic_product(theta_couple_curve_t *E12, theta_structure_t *A);
void jac_to_xz(ec_point_t *P, const jac_point_t *xyP);
bool is_jac_equal(const jac_point_t *P, const jac_point_t *Q);
bool is_jac_xz_equal(const jac_point_t *P, const ec_point_t *Q);
void copy_jac_point(jac_point_t *P, jac_point_t const *Q);
void jac_neg(jac_point_t *Q, jac_point_t const *P);
void DBL(jac_point_t *Q, jac_point_t const *P, ec_curve_t const *AC);
void ADD(jac_point_t *R, jac_point_t const *P, jac_point_t const *Q, ec_curve_t const *AC);
void TPL(jac_point_t *Q, jac_point_t const *P, ec_curve_t const *AC);
void recover_y(fp2_t *y, fp2_t const *Px, ec_curve_t const *curve);
void lift_point(jac_point_t *P, ec_point_t *Q, ec_curve_t *E);
void lift_basis(jac_point_t *P, jac_point_t *Q, ec_basis_t *B, ec_curve_t *E);
void select_point(ec_point_t *Q, ec_point_t const *P1, ec_point_t const *P2, const digit_t option);
void ec_neg(ec_point_t *res, const ec_point_t *P);
void ec_normalize_point(ec_point_t *P);
void ec_normalize_curve(ec_curve_t *E);
void ec_curve_normalize_A24(ec_curve_t *E);
void xDBLADD_normalized(ec_point_t *R, ec_point_t *S, ec_point_t const *P, ec_point_t const *Q, ec_point_t const *PQ, ec_point_t const *A24);
void DBLMUL(jac_point_t *R, const jac_point_t *P, const digit_t k, const jac_point_t *Q, const digit_t l, const ec_curve_t *curve);
void DBLMUL_generic(jac_point_t *R, const jac_point_t *P, const digit_t *k, const jac_point_t *Q, const digit_t *l, const ec_curve_t *curve, int size);
void xDBLMUL_bounded(ec_point_t *S, ec_point_t const *P, digit_t const *k, ec_point_t const *Q, digit_t const *l, ec_point_t const *PQ, const ec_curve_t *curve, int f);

#define MAXTOK 4096
static char *g_tok[MAXTOK];
static int g_ntok, g_fpos, g_ipos, g_fend;
static char g_outF[1 << 16], g_outI[1 << 12];
static size_t g_oF, g_oI;

static int hexval(char c) { return c >= '0' && c <= '9' ? c - '0' : c >= 'a' && c <= 'f' ? c - 'a' + 10 : c >= 'A' && c <= 'F' ? c - 'A' + 10 : -1; }

static void hex_to_le(const char *s, uint8_t *buf, size_t n)
{
    memset(buf, 0, n);
    size_t len = strlen(s);
    for (size_t i = 0; i < len && i / 2 < n; i++) {
        int v = hexval(s[len - 1 - i]);
        if (v < 0) { printf("R bad-hex\n"); exit(2); }
        buf[i / 2] |= (uint8_t)(v << (4 * (i & 1)));
    }
}

static void fp_from_hex(fp_t *d, const char *s)
{
    uint8_t buf[NWORDS_FIELD * 8];
    hex_to_le(s, buf, sizeof buf);
    fp_decode(d, buf);
}

static size_t fp_to_hex(char *out, const fp_t *a)
{
    uint8_t buf[NWORDS_FIELD * 8];
    fp_encode(buf, a);
    int i = NWORDS_FIELD * 8 - 1;
    while (i > 0 && buf[i] == 0) i--;
    size_t n = 0;
    n += (size_t)sprintf(out + n, "%x", buf[i]);
    for (i--; i >= 0; i--) n += (size_t)sprintf(out + n, "%02x", buf[i]);
    return n;
}

static void scalar_from_hex(digit_t *k, const char *s, int nwords)
{
    uint8_t buf[64 * 8];
    hex_to_le(s, buf, (size_t)nwords * 8);
    for (int i = 0; i < nwords; i++) {
        uint64_t w = 0;
        for (int j = 7; j >= 0; j--) w = (w << 8) | buf[i * 8 + j];
        k[i] = w;
    }
}

/* ---- cursors used by the generated wrappers ---- */
static void rd_fp2(fp2_t *x)
{
    if (g_fpos + 2 > g_fend) { printf("R bad-args\n"); fflush(stdout); exit(2); }
    fp_from_hex(&x->re, g_tok[g_fpos]);
    fp_from_hex(&x->im, g_tok[g_fpos + 1]);
    g_fpos += 2;
}
static long rd_remaining_fp2(void) { return (g_fend - g_fpos) / 2; }
static long rd_int(void)
{
    if (g_ipos >= g_ntok) { printf("R bad-args\n"); fflush(stdout); exit(2); }
    return strtol(g_tok[g_ipos++], NULL, 16);
}
static void out_begin(void) { g_oF = g_oI = 0; g_outF[0] = g_outI[0] = 0; }
static void out_fp2(const fp2_t *x)
{
    if (g_oF) g_outF[g_oF++] = ' ';
    g_oF += fp_to_hex(g_outF + g_oF, &x->re);
    g_outF[g_oF++] = ' ';
    g_oF += fp_to_hex(g_outF + g_oF, &x->im);
    g_outF[g_oF] = 0;
}
static void out_int(long v)
{
    if (g_oI) g_outI[g_oI++] = ' ';
    if (v < 0) g_oI += (size_t)sprintf(g_outI + g_oI, "-%lx", -v);
    else g_oI += (size_t)sprintf(g_outI + g_oI, "%lx", v);
}
static void out_end(void) { printf("R %s | %s\n", g_outF, g_outI); }

#include "gen_ops.inc"

static void rd_point(ec_point_t *P) { rd_fp2(&P->x); rd_fp2(&P->z); }
static void rd_curve(ec_curve_t *E) { ec_curve_init(E); rd_fp2(&E->A); rd_fp2(&E->C); }

int main(void)
{
    static char line[1 << 18];
    while (fgets(line, sizeof line, stdin)) {
        g_ntok = 0;
        for (char *t = strtok(line, " \t\r\n"); t && g_ntok < MAXTOK; t = strtok(NULL, " \t\r\n")) g_tok[g_ntok++] = t;
        if (g_ntok < 2) { printf("R bad-op\n"); continue; }
        const char *op = g_tok[0];
        if ((int)strtol(g_tok[1], NULL, 16) != VERIF_LVL) { printf("R wrong-level\n"); continue; }
        if (!strcmp(op, "gen")) {
            if (g_ntok < 4) { printf("R bad-op\n"); continue; }
            long nF = strtol(g_tok[3], NULL, 16);
            g_fpos = 4; g_fend = 4 + 2 * (int)nF; g_ipos = g_fend;
            if (g_fend > g_ntok) { printf("R bad-args\n"); continue; }
            int found = 0;
            for (int i = 0; GEN_OPS[i].name; i++)
                if (!strcmp(GEN_OPS[i].name, g_tok[2])) { GEN_OPS[i].fn(); found = 1; break; }
            if (!found) printf("R bad-op\n");
            fflush(stdout);
            continue;
        }
        if (!strncmp(op, "jac.", 4)) {
            if (g_ntok < 3) { printf("R bad-op\n"); continue; }
            long nF = strtol(g_tok[2], NULL, 16);
            g_fpos = 3; g_fend = 3 + 2 * (int)nF; g_ipos = g_fend;
            if (g_fend > g_ntok || nF < 1) { printf("R bad-args\n"); continue; }
            static jac_point_t regs[256];
            ec_curve_t E; ec_curve_init(&E); rd_fp2(&E.A);
            int nreg = 0;
            while (rd_remaining_fp2() >= 3 && nreg < 64) { rd_fp2(&regs[nreg].x); rd_fp2(&regs[nreg].y); rd_fp2(&regs[nreg].z); nreg++; }
            out_begin();
            if (!strcmp(op, "jac.seq")) {
                int bad = 0;
                while (g_ipos + 3 <= g_ntok && nreg < 255) {
                    long c = rd_int(), i = rd_int(), j = rd_int();
                    if (i < 0 || i >= nreg || (c == 1 && (j < 0 || j >= nreg))) { bad = 1; break; }
                    if (c == 1) ADD(&regs[nreg], &regs[i], &regs[j], &E);
                    else if (c == 2) DBL(&regs[nreg], &regs[i], &E);
                    else if (c == 3) jac_neg(&regs[nreg], &regs[i]);
                    else { bad = 1; break; }
                    nreg++;
                }
                if (bad || nreg == 0) { printf("R bad-args\n"); fflush(stdout); continue; }
                out_fp2(&regs[nreg - 1].x); out_fp2(&regs[nreg - 1].y); out_fp2(&regs[nreg - 1].z);
            } else if (!strcmp(op, "jac.dblmul") && nreg == 2 && g_ipos + 3 <= g_ntok) {
                long nbits = rd_int();
                digit_t k[16] = { 0 }, l[16] = { 0 };
                jac_point_t R;
                scalar_from_hex(k, g_tok[g_ipos], 16); scalar_from_hex(l, g_tok[g_ipos + 1], 16);
                if (nbits == 64) DBLMUL(&R, &regs[0], k[0], &regs[1], l[0], &E);
                else DBLMUL_generic(&R, &regs[0], k, &regs[1], l, &E, (int)(nbits / 64));
                out_fp2(&R.x); out_fp2(&R.y); out_fp2(&R.z);
            } else { printf("R bad-args\n"); fflush(stdout); continue; }
            out_end();
            fflush(stdout);
            continue;
        }
        g_fpos = 2; g_fend = g_ntok; g_ipos = 2;
        out_begin();
        if (!strcmp(op, "fp2.sqrt") || !strcmp(op, "fp2.inv") || !strcmp(op, "fp2.issquare")) {
            fp2_t x; rd_fp2(&x);
            if (op[4] == 's') { fp2_sqrt(&x); out_fp2(&x); }
            else if (op[5] == 'n') { fp2_inv(&x); out_fp2(&x); }
            else out_int(fp2_is_square(&x) != 0);
        } else if (!strcmp(op, "ec.xmul")) {
            ec_point_t P, R; ec_curve_t E; digit_t k[NWORDS_ORDER];
            rd_point(&P); rd_curve(&E); g_ipos = g_fpos; scalar_from_hex(k, g_tok[g_ipos], NWORDS_ORDER);
            xMUL(&R, &P, k, &E); out_fp2(&R.x); out_fp2(&R.z);
        } else if (!strcmp(op, "ec.xmulv2")) {
            ec_point_t P, R, A24; digit_t k[NWORDS_ORDER];
            rd_point(&P); rd_point(&A24); g_ipos = g_fpos; long kbits = rd_int(); scalar_from_hex(k, g_tok[g_ipos], NWORDS_ORDER);
            xMULv2(&R, &P, k, (int)kbits, &A24); out_fp2(&R.x); out_fp2(&R.z);
        } else if (!strcmp(op, "ec.dblmul") || !strcmp(op, "ec.dblmulb")) {
            ec_point_t P, Q, PQ, R; ec_curve_t E; digit_t k[NWORDS_ORDER], l[NWORDS_ORDER];
            rd_point(&P); rd_point(&Q); rd_point(&PQ); rd_curve(&E); g_ipos = g_fpos;
            scalar_from_hex(k, g_tok[g_ipos], NWORDS_ORDER); scalar_from_hex(l, g_tok[g_ipos + 1], NWORDS_ORDER); g_ipos += 2;
            if (op[9] == 'b') { long f = rd_int(); xDBLMUL_bounded(&R, &P, k, &Q, l, &PQ, &E, (int)f); }
            else xDBLMUL(&R, &P, k, &Q, l, &PQ, &E);
            out_fp2(&R.x); out_fp2(&R.z);
        } else if (!strcmp(op, "ec.biscalarb")) {
            ec_basis_t B; ec_point_t R; ec_curve_t E; digit_t k[NWORDS_ORDER], l[NWORDS_ORDER];
            rd_point(&B.P); rd_point(&B.Q); rd_point(&B.PmQ); rd_curve(&E); g_ipos = g_fpos;
            scalar_from_hex(k, g_tok[g_ipos], NWORDS_ORDER); scalar_from_hex(l, g_tok[g_ipos + 1], NWORDS_ORDER); g_ipos += 2;
            long f = rd_int();
            ec_biscalar_mul_bounded(&R, &E, k, l, &B, (int)f);
            out_fp2(&R.x); out_fp2(&R.z);
        } else if (!strcmp(op, "ec.ladder3pt")) {
            ec_point_t P, Q, PQ, R; ec_curve_t E; digit_t m[NWORDS_ORDER];
            rd_point(&P); rd_point(&Q); rd_point(&PQ); rd_curve(&E); g_ipos = g_fpos;
            scalar_from_hex(m, g_tok[g_ipos], NWORDS_ORDER);
            ec_curve_normalize_A24(&E);
            ec_ladder3pt(&R, m, &P, &Q, &PQ, &E); out_fp2(&R.x); out_fp2(&R.z);
        } else if (!strcmp(op, "ec.dbliter")) {
            ec_point_t P, R; ec_curve_t E;
            g_ipos = 2; long n = rd_int(); g_fpos = 3;
            rd_point(&P); rd_curve(&E);
            fp2_set_small(&R.x, 0x5a5a); fp2_set_small(&R.z, 0x5a5a);
            ec_dbl_iter(&R, (int)n, &E, &P); out_fp2(&R.x); out_fp2(&R.z); out_int(E.is_A24_computed_and_normalized);
        } else { printf("R bad-op\n"); fflush(stdout); continue; }
        out_end();
        fflush(stdout);
    }
    return 0;
}

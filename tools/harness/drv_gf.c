/* Correspondence driver for the GF(p) / GF(p^2) layer (C07, C06).
 * One source, compiled per level (-DVERIF_LVL=1|3|5) and per back-end (-DVERIF_BW for broadwell)
 * against the freshly built static libraries of the repo working tree.
 * Line protocol (stdin):  <op> <alias> <hex args…>      (field elements = raw stored limbs as one
 * big-endian hex integer, i.e. the Montgomery-form / partially reduced representative itself)
 * Result (stdout):        R <hex results…>
 * alias: 0 distinct objects; unary ops: 1 out==a; binary ops: 1 out==a, 2 out==b, 3 a==b, 4 out==a==b.
 */
#include <stdio.h>
#include <stdlib.h>
#include <string.h>
#include <stdint.h>
#include <fp.h>
#include <fp2.h>
#include <encoded_sizes.h>

#define NW NWORDS_FIELD
#define MAXARGS 80
#define MAXLINE 16384

#ifdef VERIF_BW
#if VERIF_LVL == 1
#define GFN(x) gf5248_##x
typedef gf5248 gft;
#elif VERIF_LVL == 3
#define GFN(x) gf65376_##x
typedef gf65376 gft;
#else
#define GFN(x) gf27500_##x
typedef gf27500 gft;
#endif
#endif


#ifndef VERIF_BW
/* the fiat-crypto functions behind fp_add/sub/mul/sqr/tomont/frommont (non-static, no header) */
#if VERIF_LVL == 1
#define FI(x) fiat_p5248_##x
#elif VERIF_LVL == 3
#define FI(x) fiat_p65376_##x
#else
#define FI(x) fiat_p27500_##x
#endif
extern void FI(mul)(uint64_t *, const uint64_t *, const uint64_t *);
extern void FI(square)(uint64_t *, const uint64_t *);
extern void FI(add)(uint64_t *, const uint64_t *, const uint64_t *);
extern void FI(sub)(uint64_t *, const uint64_t *, const uint64_t *);
extern void FI(opp)(uint64_t *, const uint64_t *);
extern void FI(from_montgomery)(uint64_t *, const uint64_t *);
extern void FI(to_montgomery)(uint64_t *, const uint64_t *);
extern void FI(nonzero)(uint64_t *, const uint64_t *);
extern void FI(selectznz)(uint64_t *, unsigned char, const uint64_t *, const uint64_t *);
extern void FI(to_bytes)(uint8_t *, const uint64_t *);
extern void FI(from_bytes)(uint64_t *, const uint8_t *);
extern void FI(set_one)(uint64_t *);
#endif

static int hexval(int c)
{
    if (c >= '0' && c <= '9') return c - '0';
    if (c >= 'a' && c <= 'f') return c - 'a' + 10;
    if (c >= 'A' && c <= 'F') return c - 'A' + 10;
    return -1;
}

/* parse big-endian hex string into nl little-endian limbs; returns 0 on success */
static int parse_limbs(const char *s, uint64_t *l, int nl)
{
    size_t n = strlen(s);
    memset(l, 0, sizeof(uint64_t) * nl);
    if (n == 0) return -1;
    for (size_t i = 0; i < n; i++) {
        int v = hexval(s[n - 1 - i]);
        if (v < 0) return -1;
        if ((int)(i / 16) >= nl) { if (v != 0) return -1; else continue; }
        l[i / 16] |= (uint64_t)v << (4 * (i % 16));
    }
    return 0;
}

static void print_limbs(const uint64_t *l, int nl)
{
    int i = nl - 1;
    while (i > 0 && l[i] == 0) i--;
    printf("%llx", (unsigned long long)l[i]);
    for (i--; i >= 0; i--) printf("%016llx", (unsigned long long)l[i]);
}

static void print_bytes_le(const uint8_t *b, int n)
{
    int i = n - 1;
    while (i > 0 && b[i] == 0) i--;
    printf("%x", b[i]);
    for (i--; i >= 0; i--) printf("%02x", b[i]);
}

/* parse hex into n little-endian bytes */
static int parse_bytes(const char *s, uint8_t *b, size_t nb)
{
    size_t n = strlen(s);
    memset(b, 0, nb);
    if (n == 0) return -1;
    for (size_t i = 0; i < n; i++) {
        int v = hexval(s[n - 1 - i]);
        if (v < 0) return -1;
        if (i / 2 >= nb) { if (v != 0) return -1; else continue; }
        b[i / 2] |= (uint8_t)(v << (4 * (i % 2)));
    }
    return 0;
}

static int get_fp(const char *s, fp_t *x)
{
    uint64_t l[NW];
    if (parse_limbs(s, l, NW)) return -1;
    memcpy(x, l, sizeof(l));
    return 0;
}
static int enc_mode = 0; /* op prefixed "E:" => field elements are printed through the library's fp_encode */
static void put_fp(const fp_t *x)
{
    uint64_t l[NW];
    if (enc_mode) {
        uint8_t buf[FP_ENCODED_BYTES];
        fp_encode(buf, x);
        print_bytes_le(buf, FP_ENCODED_BYTES);
        return;
    }
    memcpy(l, x, sizeof(l));
    print_limbs(l, NW);
}
static void put_fp2(const fp2_t *x)
{
    put_fp(&x->re);
    printf(" ");
    put_fp(&x->im);
}
static int get_u64(const char *s, uint64_t *v) { return parse_limbs(s, v, 1); }

#define OP(name) (strcmp(op, name) == 0)
#define NEED(k) if (na != (k)) goto bad

int main(void)
{
    static char line[MAXLINE];
    char *arg[MAXARGS];
    while (fgets(line, sizeof line, stdin)) {
        int na = 0;
        char *op = strtok(line, " \t\r\n");
        if (!op) { printf("R bad-op\n"); continue; }
        enc_mode = 0;
        if (op[0] == 'E' && op[1] == ':') { enc_mode = 1; op += 2; }
        char *als = strtok(NULL, " \t\r\n");
        int al = als ? atoi(als) : 0;
        char *t;
        while (na < MAXARGS && (t = strtok(NULL, " \t\r\n"))) arg[na++] = t;
        fp_t a, b, c, d;
        fp2_t x, y, z, w;
        uint64_t u;
        memset(&d, 0x5a, sizeof d); memset(&w, 0x5a, sizeof w);

        /* ---- GF(p), binary */
        if (OP("fp_add") || OP("fp_sub") || OP("fp_mul")) {
            NEED(2);
            if (get_fp(arg[0], &a) || get_fp(arg[1], &b)) goto bad;
            fp_t *pa = &a, *pb = &b, *po = &d;
            if (al == 1) po = &a; else if (al == 2) po = &b; else if (al == 3) pb = &a;
            else if (al == 4) { pb = &a; po = &a; }
            if (OP("fp_add")) fp_add(po, pa, pb); else if (OP("fp_sub")) fp_sub(po, pa, pb); else fp_mul(po, pa, pb);
            printf("R "); put_fp(po); printf("\n");
        } else if (OP("fp_neg") || OP("fp_sqr") || OP("fp_half")
#ifndef VERIF_BW
                   || OP("fp_tomont") || OP("fp_frommont")
#endif
        ) {
            NEED(1);
            if (get_fp(arg[0], &a)) goto bad;
            fp_t *po = al == 1 ? &a : &d;
            if (OP("fp_neg")) fp_neg(po, &a); else if (OP("fp_sqr")) fp_sqr(po, &a);
            else if (OP("fp_half")) fp_half(po, &a);
#ifndef VERIF_BW
            else if (OP("fp_tomont")) fp_tomont(po, &a); else if (OP("fp_frommont")) fp_frommont(po, &a);
#endif
            printf("R "); put_fp(po); printf("\n");
        } else if (OP("fp_inv") || OP("fp_sqrt")) {
            NEED(1);
            if (get_fp(arg[0], &a)) goto bad;
            if (OP("fp_inv")) fp_inv(&a); else fp_sqrt(&a);
            printf("R "); put_fp(&a); printf("\n");
        } else if (OP("fp_is_square") || OP("fp_is_zero")) {
            NEED(1);
            if (get_fp(arg[0], &a)) goto bad;
            uint32_t r = OP("fp_is_square") ? fp_is_square(&a) : fp_is_zero(&a);
            printf("R %x\n", r);
        } else if (OP("fp_is_equal")) {
            NEED(2);
            if (get_fp(arg[0], &a) || get_fp(arg[1], &b)) goto bad;
            printf("R %x\n", fp_is_equal(&a, al == 3 ? &a : &b));
        } else if (OP("fp_select")) {
            NEED(3);
            if (get_fp(arg[0], &a) || get_fp(arg[1], &b) || get_u64(arg[2], &u)) goto bad;
            fp_t *po = al == 1 ? &a : (al == 2 ? &b : &d);
            fp_select(po, &a, &b, (uint32_t)u);
            printf("R "); put_fp(po); printf("\n");
        } else if (OP("fp_cswap")) {
            NEED(3);
            if (get_fp(arg[0], &a) || get_fp(arg[1], &b) || get_u64(arg[2], &u)) goto bad;
            fp_cswap(&a, &b, (uint32_t)u);
            printf("R "); put_fp(&a); printf(" "); put_fp(&b); printf("\n");
        } else if (OP("fp_set_small")) {
            NEED(1);
            if (get_u64(arg[0], &u)) goto bad;
            fp_set_small(&d, u);
            printf("R "); put_fp(&d); printf("\n");
        } else if (OP("fp_set_one")) {
            NEED(0); fp_set_one(&d); printf("R "); put_fp(&d); printf("\n");
        } else if (OP("fp_set_zero")) {
            NEED(0); fp_set_zero(&d); printf("R "); put_fp(&d); printf("\n");
        } else if (OP("fp_encode")) {
            NEED(1);
            if (get_fp(arg[0], &a)) goto bad;
            uint8_t buf[FP_ENCODED_BYTES];
            fp_encode(buf, &a);
            printf("R "); print_bytes_le(buf, FP_ENCODED_BYTES); printf("\n");
        } else if (OP("fp_decode")) {
            NEED(1);
            uint8_t buf[FP_ENCODED_BYTES];
            if (parse_bytes(arg[0], buf, sizeof buf)) goto bad;
#ifdef VERIF_BW
            uint32_t r = fp_decode(&d, buf);
#else
            uint32_t r = 0xFFFFFFFF;
            fp_decode(&d, buf);
#endif
            printf("R "); put_fp(&d); printf(" %x\n", r);
        }
        else if (OP("fp_decode_reduce")) {
            /* fp_decode_reduce(d, src, len): the buffer handed over is zero-padded to at least FP_ENCODED_BYTES so that
               the ref routine (which ignores len and always reads FP_ENCODED_BYTES) does not over-read in the harness */
            NEED(2);
            if (get_u64(arg[0], &u) || u > 4096) goto bad;
            static uint8_t big2[4096 + 2 * FP_ENCODED_BYTES];
            memset(big2, 0, sizeof big2);
            if (parse_bytes(arg[1], big2, (size_t)u ? (size_t)u : 1)) goto bad;
            fp_decode_reduce(&d, big2, (size_t)u);
            printf("R "); put_fp(&d); printf("\n");
        }
        /* ---- GF(p^2) */
        else if (OP("fp2_add") || OP("fp2_sub") || OP("fp2_mul")) {
            NEED(4);
            if (get_fp(arg[0], &x.re) || get_fp(arg[1], &x.im) || get_fp(arg[2], &y.re) || get_fp(arg[3], &y.im)) goto bad;
            fp2_t *pa = &x, *pb = &y, *po = &w;
            if (al == 1) po = &x; else if (al == 2) po = &y; else if (al == 3) pb = &x;
            else if (al == 4) { pb = &x; po = &x; }
            if (OP("fp2_add")) fp2_add(po, pa, pb); else if (OP("fp2_sub")) fp2_sub(po, pa, pb); else fp2_mul(po, pa, pb);
            printf("R "); put_fp2(po); printf("\n");
        } else if (OP("fp2_neg") || OP("fp2_sqr") || OP("fp2_half")) {
            NEED(2);
            if (get_fp(arg[0], &x.re) || get_fp(arg[1], &x.im)) goto bad;
            fp2_t *po = al == 1 ? &x : &w;
            if (OP("fp2_neg")) fp2_neg(po, &x); else if (OP("fp2_sqr")) fp2_sqr(po, &x); else fp2_half(po, &x);
            printf("R "); put_fp2(po); printf("\n");
        } else if (OP("fp2_inv") || OP("fp2_sqrt")) {
            NEED(2);
            if (get_fp(arg[0], &x.re) || get_fp(arg[1], &x.im)) goto bad;
            if (OP("fp2_inv")) fp2_inv(&x); else fp2_sqrt(&x);
            printf("R "); put_fp2(&x); printf("\n");
        } else if (OP("fp2_is_square") || OP("fp2_is_zero") || OP("fp2_is_one")) {
            NEED(2);
            if (get_fp(arg[0], &x.re) || get_fp(arg[1], &x.im)) goto bad;
            uint32_t r = OP("fp2_is_square") ? fp2_is_square(&x) : (OP("fp2_is_zero") ? fp2_is_zero(&x) : fp2_is_one(&x));
            printf("R %x\n", r);
        } else if (OP("fp2_is_equal")) {
            NEED(4);
            if (get_fp(arg[0], &x.re) || get_fp(arg[1], &x.im) || get_fp(arg[2], &y.re) || get_fp(arg[3], &y.im)) goto bad;
            printf("R %x\n", fp2_is_equal(&x, al == 3 ? &x : &y));
        } else if (OP("fp2_select")) {
            NEED(5);
            if (get_fp(arg[0], &x.re) || get_fp(arg[1], &x.im) || get_fp(arg[2], &y.re) || get_fp(arg[3], &y.im) || get_u64(arg[4], &u)) goto bad;
            fp2_t *po = al == 1 ? &x : (al == 2 ? &y : &w);
            fp2_select(po, &x, &y, (uint32_t)u);
            printf("R "); put_fp2(po); printf("\n");
        } else if (OP("fp2_cswap")) {
            NEED(5);
            if (get_fp(arg[0], &x.re) || get_fp(arg[1], &x.im) || get_fp(arg[2], &y.re) || get_fp(arg[3], &y.im) || get_u64(arg[4], &u)) goto bad;
            fp2_cswap(&x, &y, (uint32_t)u);
            printf("R "); put_fp2(&x); printf(" "); put_fp2(&y); printf("\n");
        } else if (OP("fp2_set_small")) {
            NEED(1);
            if (get_u64(arg[0], &u)) goto bad;
            fp2_set_small(&w, u);
            printf("R "); put_fp2(&w); printf("\n");
        } else if (OP("fp2_set_one")) {
            NEED(0); fp2_set_one(&w); printf("R "); put_fp2(&w); printf("\n");
        } else if (OP("fp2_encode")) {
            NEED(2);
            if (get_fp(arg[0], &x.re) || get_fp(arg[1], &x.im)) goto bad;
            uint8_t buf[FP2_ENCODED_BYTES];
            fp2_encode(buf, &x);
            printf("R "); print_bytes_le(buf, FP2_ENCODED_BYTES); printf("\n");
        } else if (OP("fp2_decode")) {
            NEED(1);
            uint8_t buf[FP2_ENCODED_BYTES];
            if (parse_bytes(arg[0], buf, sizeof buf)) goto bad;
#ifdef VERIF_BW
            uint32_t r = fp2_decode(&w, buf);
#else
            uint32_t r = 0xFFFFFFFF;
            fp2_decode(&w, buf);
#endif
            printf("R "); put_fp2(&w); printf(" %x\n", r);
        } else if (OP("fp2_batched_inv")) {
            if (na < 1 || get_u64(arg[0], &u) || u < 1 || u > 32 || na != 1 + 2 * (int)u) goto bad;
            fp2_t v[32];
            for (int i = 0; i < (int)u; i++)
                if (get_fp(arg[1 + 2 * i], &v[i].re) || get_fp(arg[2 + 2 * i], &v[i].im)) goto bad;
            fp2_batched_inv(v, (int)u);
            printf("R");
            for (int i = 0; i < (int)u; i++) { printf(" "); put_fp2(&v[i]); }
            printf("\n");
        } else if (OP("fp2_pow_vartime")) {
            if (na < 3 || get_fp(arg[0], &x.re) || get_fp(arg[1], &x.im) || get_u64(arg[2], &u) || u > 16 || na != 3 + (int)u) goto bad;
            uint64_t e[16];
            for (int i = 0; i < (int)u; i++) if (get_u64(arg[3 + i], &e[i])) goto bad;
            fp2_t *po = al == 1 ? &x : &w;
            fp2_pow_vartime(po, &x, e, (int)u);
            printf("R "); put_fp2(po); printf("\n");
        }
#ifndef VERIF_BW
        /* ---- ref back-end only: the fiat-crypto functions themselves */
        else if (OP("fiat_mul") || OP("fiat_add") || OP("fiat_sub")) {
            NEED(2);
            if (get_fp(arg[0], &a) || get_fp(arg[1], &b)) goto bad;
            fp_t *pa = &a, *pb = &b, *po = &d;
            if (al == 1) po = &a; else if (al == 2) po = &b; else if (al == 3) pb = &a;
            else if (al == 4) { pb = &a; po = &a; }
            if (OP("fiat_mul")) FI(mul)(*po, *pa, *pb); else if (OP("fiat_add")) FI(add)(*po, *pa, *pb); else FI(sub)(*po, *pa, *pb);
            printf("R "); put_fp(po); printf("\n");
        } else if (OP("fiat_square") || OP("fiat_opp") || OP("fiat_to_montgomery") || OP("fiat_from_montgomery")) {
            NEED(1);
            if (get_fp(arg[0], &a)) goto bad;
            fp_t *po = al == 1 ? &a : &d;
            if (OP("fiat_square")) FI(square)(*po, a); else if (OP("fiat_opp")) FI(opp)(*po, a);
            else if (OP("fiat_to_montgomery")) FI(to_montgomery)(*po, a); else FI(from_montgomery)(*po, a);
            printf("R "); put_fp(po); printf("\n");
        } else if (OP("fiat_set_one")) {
            NEED(0); FI(set_one)(d); printf("R "); put_fp(&d); printf("\n");
        } else if (OP("fiat_nonzero")) {
            NEED(1);
            if (get_fp(arg[0], &a)) goto bad;
            FI(nonzero)(&u, a);
            printf("R %llx\n", (unsigned long long)u);
        } else if (OP("fiat_selectznz")) {
            NEED(3);
            if (get_u64(arg[0], &u) || get_fp(arg[1], &a) || get_fp(arg[2], &b)) goto bad;
            FI(selectznz)(d, (unsigned char)u, a, b);
            printf("R "); put_fp(&d); printf("\n");
        } else if (OP("fiat_to_bytes")) {
            NEED(1);
            if (get_fp(arg[0], &a)) goto bad;
            uint8_t buf[8 * NW];
            FI(to_bytes)(buf, a);
            printf("R "); print_bytes_le(buf, 8 * NW); printf("\n");
        } else if (OP("fiat_from_bytes")) {
            NEED(1);
            uint8_t buf[8 * NW];
            if (parse_bytes(arg[0], buf, sizeof buf)) goto bad;
            FI(from_bytes)(d, buf);
            printf("R "); put_fp(&d); printf("\n");
        }
#endif
#ifdef VERIF_BW
        /* ---- x86 back-end only: the gf* API below the fp_* macro layer */
        else if (OP("gf_mul_small")) {
            NEED(2);
            if (get_fp(arg[0], &a) || get_u64(arg[1], &u)) goto bad;
            gft *po = al == 1 ? &a : &d;
            GFN(mul_small)(po, &a, (uint32_t)u);
            printf("R "); put_fp(po); printf("\n");
        } else if (OP("gf_xsquare")) {
            NEED(2);
            if (get_fp(arg[0], &a) || get_u64(arg[1], &u) || u > 1024) goto bad;
            gft *po = al == 1 ? &a : &d;
            GFN(xsquare)(po, &a, (unsigned)u);
            printf("R "); put_fp(po); printf("\n");
        } else if (OP("gf_div")) {
            NEED(2);
            if (get_fp(arg[0], &a) || get_fp(arg[1], &b)) goto bad;
            gft *pa = &a, *pb = &b, *po = &d;
            if (al == 1) po = &a; else if (al == 2) po = &b; else if (al == 3) pb = &a;
            else if (al == 4) { pb = &a; po = &a; }
            uint32_t r = GFN(div)(po, pa, pb);
            printf("R "); put_fp(po); printf(" %x\n", r);
        } else if (OP("gf_invert") || OP("gf_sqrt")) {
            NEED(1);
            if (get_fp(arg[0], &a)) goto bad;
            gft *po = al == 1 ? &a : &d;
            uint32_t r = OP("gf_invert") ? GFN(invert)(po, &a) : GFN(sqrt)(po, &a);
            printf("R "); put_fp(po); printf(" %x\n", r);
        } else if (OP("gf_legendre")) {
            NEED(1);
            if (get_fp(arg[0], &a)) goto bad;
            int32_t r = GFN(legendre)(&a);
            printf("R %x\n", (uint32_t)r);
        } else if (OP("gf_decode_reduce")) {
            NEED(2);
            if (get_u64(arg[0], &u) || u > 4096) goto bad;
            static uint8_t big[4096 + 8];
            if (parse_bytes(arg[1], big, (size_t)u ? (size_t)u : 1)) goto bad;
            GFN(decode_reduce)(&d, big, (size_t)u);
            printf("R "); put_fp(&d); printf("\n");
        }
#endif
        else {
        bad:
            printf("R bad-op\n");
        }
        fflush(stdout);
    }
    return 0;
}

/* C20 correspondence driver: runs the *real* library code (fips202.c, aes_c.c, randombytes_ctrdrbg.c, mem.c,
 * hash_to_challenge of the linked variant) in-process on op lines read from stdin; one result line `R ...`
 * per op, same format as lean/SqiModel/Drv/Hash.lean. Byte strings are hex (`-` = empty), numbers hex.
 *
 * Build variants (see tools/props/c20.py):
 *   -DWITH_FIPS202_STATIC -DFIPS202_C="\"...fips202.c\""   include the C file to reach the static permutation
 *   -DWITH_H2C   link one variant's sign.o and expose `h2c.curve`
 *   -Wl,--wrap=free                                         lets `mem.free` observe the buffer at free() time
 */
#define _GNU_SOURCE
#include <stdint.h>
#include <stdio.h>
#include <stdlib.h>
#include <string.h>

#ifdef WITH_AES_STATIC
#include AES_C
#define WITH_FIPS202_STATIC_OR_AES 1
#endif
#ifdef WITH_FIPS202_STATIC
#include FIPS202_C
#define WITH_FIPS202_STATIC_OR_AES 1
#endif
#ifndef WITH_FIPS202_STATIC_OR_AES
#include <fips202.h>
typedef struct { uint64_t *ctx; } xofctx;
/* non-static symbols of fips202.c that fips202.h does not declare */
void shake128_absorb(xofctx *state, const uint8_t *input, size_t inlen);
void shake128_squeezeblocks(uint8_t *output, size_t nblocks, xofctx *state);
void shake128_ctx_release(xofctx *state);
void shake128_inc_init(xofctx *state);
void shake128_inc_absorb(xofctx *state, const uint8_t *input, size_t inlen);
void shake128_inc_finalize(xofctx *state);
void shake128_inc_squeeze(uint8_t *output, size_t outlen, xofctx *state);
void shake128_inc_ctx_release(xofctx *state);
void shake256_absorb(xofctx *state, const uint8_t *input, size_t inlen);
void shake256_squeezeblocks(uint8_t *output, size_t nblocks, xofctx *state);
void shake256_ctx_release(xofctx *state);
void shake256_inc_init(xofctx *state);
void shake256_inc_absorb(xofctx *state, const uint8_t *input, size_t inlen);
void shake256_inc_finalize(xofctx *state);
void shake256_inc_squeeze(uint8_t *output, size_t outlen, xofctx *state);
void shake256_inc_ctx_release(xofctx *state);
#endif

#ifndef WITH_FIPS202_STATIC_OR_AES
#include <aes.h>
#include <rng.h>
#include <mem.h>
typedef struct { unsigned char Key[32]; unsigned char V[16]; int reseed_counter; } drbg_t;
extern drbg_t DRBG_ctx;
#endif

#ifdef WITH_H2C
#include <ec.h>
#include <fp2.h>
#include <intbig.h>
#include <encoded_sizes.h>
typedef struct { ec_curve_t curve; int *hint_pk; } pk_t;
void hash_to_challenge(ibz_vec_2_t *scalars, const ec_curve_t *com_curve, const unsigned char *message,
                       const pk_t *pk, size_t length);
#endif

static int hexval(int c) {
    if (c >= '0' && c <= '9') return c - '0';
    if (c >= 'a' && c <= 'f') return c - 'a' + 10;
    if (c >= 'A' && c <= 'F') return c - 'A' + 10;
    return -1;
}
/* parse hex byte string; returns malloc'd buffer (never NULL) and length; -1 on error */
static long parse_bytes(const char *s, uint8_t **out) {
    size_t n = strlen(s);
    *out = malloc(n / 2 + 1);
    if (strcmp(s, "-") == 0) return 0;
    if (n % 2) return -1;
    for (size_t i = 0; i < n / 2; i++) {
        int a = hexval(s[2 * i]), b = hexval(s[2 * i + 1]);
        if (a < 0 || b < 0) return -1;
        (*out)[i] = (uint8_t)(a * 16 + b);
    }
    return (long)(n / 2);
}
static void put_bytes(const uint8_t *b, size_t n) {
    static const char *hx = "0123456789abcdef";
    if (n == 0) { putchar('-'); return; }
    for (size_t i = 0; i < n; i++) { putchar(hx[b[i] >> 4]); putchar(hx[b[i] & 15]); }
}
static void put_lanes(const uint64_t *s) {
    for (int i = 0; i < 25; i++) printf("%s%llx", i ? " " : "", (unsigned long long)s[i]);
}
static unsigned long long parse_num(const char *s) { return strtoull(s, NULL, 16); }

#define GUARD 32
static uint8_t *guarded(size_t n) { uint8_t *p = malloc(n + 2 * GUARD); memset(p, 0xA5, n + 2 * GUARD); return p; }
static int guard_ok(const uint8_t *p, size_t n) {
    for (int i = 0; i < GUARD; i++) if (p[i] != 0xA5 || p[GUARD + n + i] != 0xA5) return 0;
    return 1;
}

/* --wrap=free support for mem.free */
static void *watch_ptr; static size_t watch_len; static uint8_t *watch_snap; static int watch_hit;
#ifdef WRAP_FREE
void __real_free(void *p);
void __wrap_free(void *p) {
    if (p && p == watch_ptr) { memcpy(watch_snap, p, watch_len); watch_hit++; watch_ptr = NULL; }
    __real_free(p);
}
#endif

#define MAXTOK 4096
int main(void) {
    char *line = NULL; size_t cap = 0; ssize_t len;
    static char *tok[MAXTOK];
    setvbuf(stdout, NULL, _IOFBF, 1 << 20);
    while ((len = getline(&line, &cap, stdin)) > 0) {
        int nt = 0;
        for (char *p = strtok(line, " \r\n"); p && nt < MAXTOK; p = strtok(NULL, " \r\n")) tok[nt++] = p;
        if (nt == 0) { printf("R bad-op\n"); continue; }
        printf("R ");
#ifdef WITH_AES_STATIC
        if (!strcmp(tok[0], "aesct.prim") && nt >= 3) {
            uint64_t r[16]; int np = nt - 2, ok = 1;
            for (int i = 0; i < np && i < 16; i++) r[i] = parse_num(tok[2 + i]);
            if (!strcmp(tok[1], "sbox") && np == 8) br_aes_ct64_bitslice_Sbox(r);
            else if (!strcmp(tok[1], "ortho") && np == 8) br_aes_ct64_ortho(r);
            else if (!strcmp(tok[1], "shift_rows") && np == 8) shift_rows(r);
            else if (!strcmp(tok[1], "mix_columns") && np == 8) mix_columns(r);
            else if (!strcmp(tok[1], "add_round_key") && np == 16) add_round_key(r, r + 8);
            else if (!strcmp(tok[1], "interleave_in") && np == 6) {
                uint32_t w[4] = { (uint32_t)r[0], (uint32_t)r[1], (uint32_t)r[2], (uint32_t)r[3] };
                br_aes_ct64_interleave_in(&r[4], &r[5], w);
            } else if (!strcmp(tok[1], "interleave_out") && np == 6) {
                uint32_t w[4];
                br_aes_ct64_interleave_out(w, r[0], r[1]);
                for (int i = 0; i < 4; i++) r[2 + i] = w[i];
            } else ok = 0;
            if (!ok) printf("bad-op");
            else for (int i = 0; i < np; i++) printf("%s%llx", i ? " " : "", (unsigned long long)r[i]);
        } else if (!strcmp(tok[0], "aesct.ecb4x") && nt >= 3) {
            unsigned nr = (unsigned)parse_num(tok[1]);
            if (nr > 14 || nt != 2 + 16 + 8 * ((int)nr + 1)) printf("bad-op");
            else {
                uint32_t w[16]; uint64_t sk[120]; unsigned char out[64];
                for (int i = 0; i < 16; i++) w[i] = (uint32_t)parse_num(tok[2 + i]);
                for (unsigned i = 0; i < 8 * (nr + 1); i++) sk[i] = parse_num(tok[18 + i]);
                aes_ecb4x(out, w, sk, nr);
                for (int i = 0; i < 64; i++) printf("%02x", out[i]);
            }
        } else if (!strcmp(tok[0], "aesct.keys") && nt == 2) {
            /* the real AES-256 key schedule: prints the 120 words of sk_exp */
            uint8_t *k; long kl = parse_bytes(tok[1], &k);
            if (kl != 32) printf("bad-op");
            else {
                uint64_t skey[30], sk[120];
                br_aes_ct64_keysched(skey, k, 32);
                br_aes_ct64_skey_expand(sk, skey, 14);
                for (int i = 0; i < 120; i++) printf("%s%llx", i ? " " : "", (unsigned long long)sk[i]);
            }
            free(k);
        } else printf("bad-op");
#elif defined(WITH_FIPS202_STATIC)
        if (!strcmp(tok[0], "hash.perm") && nt == 26) {
            uint64_t s[25];
            for (int i = 0; i < 25; i++) s[i] = parse_num(tok[1 + i]);
            KeccakF1600_StatePermute(s);
            put_lanes(s);
        } else printf("bad-op");
#else
        if (!strcmp(tok[0], "hash.shake") && nt == 4) {
            int v = atoi(tok[1]); size_t outlen = parse_num(tok[2]); uint8_t *m; long ml = parse_bytes(tok[3], &m);
            uint8_t *o = guarded(outlen);
            if (ml < 0 || (v != 128 && v != 256)) printf("bad-op");
            else {
                if (v == 128) SHAKE128(o + GUARD, outlen, m, ml); else SHAKE256(o + GUARD, outlen, m, ml);
                put_bytes(o + GUARD, outlen);
                if (!guard_ok(o, outlen)) printf(" GUARD-CLOBBERED");
            }
            free(m); free(o);
        } else if (!strcmp(tok[0], "hash.inc") && nt >= 2) {
            int v = atoi(tok[1]); xofctx c; int first = 1, bad = 0;
            unsigned long long pos[MAXTOK]; int np = 0;
            if (v == 128) shake128_inc_init(&c); else shake256_inc_init(&c);
            for (int i = 2; i < nt && !bad; i++) {
                if (tok[i][0] == 'a') {
                    uint8_t *m; long ml = parse_bytes(tok[i][1] ? tok[i] + 1 : "-", &m);
                    if (ml < 0) bad = 1;
                    else if (v == 128) shake128_inc_absorb(&c, m, ml); else shake256_inc_absorb(&c, m, ml);
                    free(m);
                } else if (!strcmp(tok[i], "f")) {
                    if (v == 128) shake128_inc_finalize(&c); else shake256_inc_finalize(&c);
                } else if (tok[i][0] == 's') {
                    size_t n = parse_num(tok[i] + 1); uint8_t *o = guarded(n);
                    if (v == 128) shake128_inc_squeeze(o + GUARD, n, &c); else shake256_inc_squeeze(o + GUARD, n, &c);
                    if (!first) putchar('|');
                    first = 0;
                    put_bytes(o + GUARD, n);
                    if (!guard_ok(o, n)) printf(" GUARD-CLOBBERED");
                    free(o);
                } else bad = 1;
                pos[np++] = c.ctx[25];
            }
            if (bad) printf(" bad-op");
            printf(";p=");
            for (int i = 0; i < np; i++) printf("%s%llx", i ? " " : "", pos[i]);
            printf(";s="); put_lanes(c.ctx);
            if (v == 128) shake128_inc_ctx_release(&c); else shake256_inc_ctx_release(&c);
        } else if (!strcmp(tok[0], "hash.absblk") && nt == 4) {
            int v = atoi(tok[1]); xofctx c; uint8_t *m; long ml = parse_bytes(tok[3], &m); int first = 1;
            size_t rate = v == 128 ? 168 : 136;   /* only sizes the output buffer */
            if (v == 128) shake128_absorb(&c, m, ml); else shake256_absorb(&c, m, ml);
            for (char *p = strtok(tok[2], ","); p; p = strtok(NULL, ",")) {
                size_t nb = parse_num(p); uint8_t *o = guarded(nb * rate);
                if (v == 128) shake128_squeezeblocks(o + GUARD, nb, &c); else shake256_squeezeblocks(o + GUARD, nb, &c);
                if (!first) putchar('|');
                first = 0;
                put_bytes(o + GUARD, nb * rate);
                if (!guard_ok(o, nb * rate)) printf(" GUARD-CLOBBERED");
                free(o);
            }
            printf(";s="); put_lanes(c.ctx);
            if (v == 128) shake128_ctx_release(&c); else shake256_ctx_release(&c);
            free(m);
        } else if (!strcmp(tok[0], "aes.enc256") && nt == 3) {
            uint8_t *k, *b, o[16]; long kl = parse_bytes(tok[1], &k), bl = parse_bytes(tok[2], &b);
            if (kl != 32 || bl != 16) printf("bad-op"); else { AES_256_ECB(b, k, o); put_bytes(o, 16); }
            free(k); free(b);
        } else if (!strcmp(tok[0], "drbg.run") && nt >= 3) {
            uint8_t *seed, *pers; long sl = parse_bytes(tok[1], &seed), pl = parse_bytes(tok[2], &pers);
            if (sl != 48 || (pl != 0 && pl != 48)) printf("bad-op");
            else {
                randombytes_init(seed, pl ? pers : NULL, 256);
                for (int i = 3; i < nt; i++) {
                    size_t n = parse_num(tok[i]); uint8_t *o = guarded(n);
                    int rc = randombytes(o + GUARD, n);
                    if (i > 3) putchar('|');
                    put_bytes(o + GUARD, n);
                    if (!guard_ok(o, n)) printf(" GUARD-CLOBBERED");
                    if (rc != 0) printf(" RC=%d", rc);
                    free(o);
                }
                printf(";k="); put_bytes(DRBG_ctx.Key, 32);
                printf(";v="); put_bytes(DRBG_ctx.V, 16);
                printf(";c=%x", DRBG_ctx.reseed_counter);
            }
            free(seed); free(pers);
        } else if (!strcmp(tok[0], "mem.clear") && nt == 3) {
            /* buffer = prefix to clear; we embed it in a larger patterned buffer and print the part handed in */
            uint8_t *b; long bl = parse_bytes(tok[1], &b); size_t n = parse_num(tok[2]);
            if (bl < 0 || n > (size_t)bl) printf("bad-op");
            else {
                uint8_t *g = guarded(bl); memcpy(g + GUARD, b, bl);
                sqisign_secure_clear(g + GUARD, n);
                volatile uint8_t *vg = g;               /* read back through a volatile pointer */
                uint8_t *r = malloc(bl + 1);
                for (long i = 0; i < bl; i++) r[i] = vg[GUARD + i];
                put_bytes(r, bl);
                if (!guard_ok(g, bl)) printf(" GUARD-CLOBBERED");
                free(r); free(g);
            }
            free(b);
        } else if (!strcmp(tok[0], "mem.free") && nt == 3) {
            /* sqisign_secure_free: observe the block at the moment free() is called (needs -Wl,--wrap=free) */
            uint8_t *b; long bl = parse_bytes(tok[1], &b); size_t n = parse_num(tok[2]);
            if (bl <= 0 || n > (size_t)bl) printf("bad-op");
            else {
                uint8_t *h = malloc(bl); memcpy(h, b, bl);
                watch_snap = malloc(bl); watch_len = bl; watch_hit = 0; watch_ptr = h;
                sqisign_secure_free(h, n);
                if (watch_hit == 1) put_bytes(watch_snap, bl); else printf("free-not-observed");
                free(watch_snap);
            }
            free(b);
#ifdef WITH_H2C
        } else if (!strcmp(tok[0], "h2c.curve") && nt == 6) {
            /* h2c.curve <A1:C1 enc> <A2:C2 enc> <lambda1:lambda2 enc> <flags> <msg>
               each of the first three is two FP2 encodings concatenated. flags bit0: negate A of both curves.
               prints: enc(j1) enc(j2) scalar0 scalar1   for the curves (l1*A1 : l1*C1), (l2*A2 : l2*C2) */
            uint8_t *c1, *c2, *lm, *msg;
            long l1 = parse_bytes(tok[1], &c1), l2 = parse_bytes(tok[2], &c2), l3 = parse_bytes(tok[3], &lm);
            unsigned flags = (unsigned)parse_num(tok[4]); long ml = parse_bytes(tok[5], &msg);
            if (l1 != 2 * FP2_ENCODED_BYTES || l2 != l1 || l3 != l1 || ml < 0) printf("bad-op");
            else {
                ec_curve_t E1, E2; pk_t pk; fp2_t la, lb, j1, j2; ibz_vec_2_t sc;
                uint8_t e1[FP2_ENCODED_BYTES], e2[FP2_ENCODED_BYTES];
                ec_curve_init(&E1); ec_curve_init(&E2);
                fp2_decode(&E1.A, c1); fp2_decode(&E1.C, c1 + FP2_ENCODED_BYTES);
                fp2_decode(&E2.A, c2); fp2_decode(&E2.C, c2 + FP2_ENCODED_BYTES);
                fp2_decode(&la, lm); fp2_decode(&lb, lm + FP2_ENCODED_BYTES);
                if (flags & 1) { fp2_neg(&E1.A, &E1.A); fp2_neg(&E2.A, &E2.A); }
                fp2_mul(&E1.A, &E1.A, &la); fp2_mul(&E1.C, &E1.C, &la);
                fp2_mul(&E2.A, &E2.A, &lb); fp2_mul(&E2.C, &E2.C, &lb);
                pk.curve = E2; pk.hint_pk = NULL;
                ec_j_inv(&j1, &E1); ec_j_inv(&j2, &E2);
                fp2_encode(e1, &j1); fp2_encode(e2, &j2);
                ibz_vec_2_init(&sc);
                hash_to_challenge(&sc, &E1, msg, &pk, (size_t)ml);
                put_bytes(e1, FP2_ENCODED_BYTES); putchar(' '); put_bytes(e2, FP2_ENCODED_BYTES);
                gmp_printf(" %Zx %Zx", sc[0], sc[1]);
                ibz_vec_2_finalize(&sc);
            }
            free(c1); free(c2); free(lm); free(msg);
#endif
        } else printf("bad-op");
#endif
        printf("\n");
    }
    fflush(stdout);
    free(line);
    return 0;
}

/* C13 driver: kernel<->ideal dictionaries, find_uv, ideal -> isogeny evaluation.
 * ops (integers hex, signed where noted; results "R ..."):
 *   seed HEX                     randombytes_init                                              -> R ok
 *   k2i f v0 v1                  L := id2iso_kernel_dlogs_to_ideal_two((v0,v1), f)              -> R <norm>
 *   contains x0 x1 x2 x3 den     (signed) is (x0 + x1 i + x2 j + x3 k)/den in L ?               -> R 0|1
 *   i2iso                        id2iso_ideal_to_isogeny_even_dlogs(L)                          -> R length d0 d1 | Kx (affine, re im)
 *   endo f x0 x1 x2 x3 den       endomorphism_application_even_basis(BASIS_EVEN·2^(F-f), E0, (x0+x1 i+x2 j+x3 k)/den, f) (signed) -> R P Q PmQ | P0 Q0 PmQ0
 *   i2k                          id2iso_ideal_to_kernel_dlogs_even(L)                           -> R w0 w1
 *   ideal bits                   I := random O0-ideal of random prime norm of `bits` bits       -> R <norm>
 *   equiv                        J := I * conj(g)/N(I) for a random g in I with N(J) odd        -> R <norm J>
 *   eval which                   dim2id2iso_arbitrary_isogeny_evaluation(I (0) or J (1))         -> R ret A C | P Q PmQ | wre wim
 *   w0                           weil(f, BASIS_EVEN) on E0                                      -> R wre wim
 *   finduv which                 find_uv(..., target 2^f, 0, ideal, 0)                          -> R found u v d1 d2 n1/N n2/N in1 in2
 */
#include "a9_io.h"
#include <endomorphism_action.h>
#include <ec_params.h>
#include <biextension.h>
#include <quaternion.h>
#include <quaternion_data.h>
#include <id2iso.h>
#include <dim2id2iso.h>
#include <klpt.h>
#include <torsion_constants.h>
#include <rng.h>
#include <gmp.h>

static int ibz_from_shex(ibz_t *x, const char *s)
{
    int neg = s[0] == '-';
    if (ibz_set_from_str(x, s + neg, 16) != 1) return 0;
    if (neg) ibz_neg(x, x);
    return 1;
}

static void weil_of_basis(fp2_t *r, const ec_basis_t *B, const ec_curve_t *E)
{
    ec_basis_t b = *B;
    ec_point_t AC, A24;
    fp2_copy(&AC.x, &E->A); fp2_copy(&AC.z, &E->C);
    A24_from_AC(&A24, &AC);
    weil(r, TORSION_PLUS_EVEN_POWER, &b.P, &b.Q, &b.PmQ, &A24);
}

int main(void)
{
    char line[1 << 16]; char *t[16];
    quat_left_ideal_t L, I[2];
    quat_left_ideal_init(&L); quat_left_ideal_init(&I[0]); quat_left_ideal_init(&I[1]);
    int haveL = 0, haveI[2] = { 0, 0 };
    while (fgets(line, sizeof line, stdin)) {
        int n = a9_split(line, t, 16);
        if (n == 0) { printf("R bad-op\n"); continue; }
        if (!strcmp(t[0], "seed") && n == 2) {
            unsigned char s[48] = { 0 };
            size_t l = strlen(t[1]) / 2; if (l > 48) l = 48;
            for (size_t i = 0; i < l; i++) s[i] = (unsigned char)(a9_hexval(t[1][2 * i]) * 16 + a9_hexval(t[1][2 * i + 1]));
            randombytes_init(s, NULL, 256);
            printf("R ok\n");
        } else if (!strcmp(t[0], "k2i") && n == 4) {
            int f = (int)a9_parse_long(t[1]);
            ibz_vec_2_t v; ibz_vec_2_init(&v);
            if (!ibz_from_shex(&v[0], t[2]) || !ibz_from_shex(&v[1], t[3])) { printf("R bad-op\n"); continue; }
            id2iso_kernel_dlogs_to_ideal_two(&L, &v, f);
            haveL = 1;
            gmp_printf("R %Zx\n", L.norm);
            ibz_vec_2_finalize(&v);
        } else if (!strcmp(t[0], "contains") && n == 6 && haveL) {
            quat_alg_elem_t x; quat_alg_elem_init(&x);
            int ok = 1;
            for (int i = 0; i < 4; i++) ok &= ibz_from_shex(&x.coord[i], t[1 + i]);
            ok &= ibz_from_shex(&x.denom, t[5]);
            if (!ok) { printf("R bad-op\n"); continue; }
            printf("R %d\n", quat_lattice_contains(NULL, &L.lattice, &x, &QUATALG_PINFTY) ? 1 : 0);
            quat_alg_elem_finalize(&x);
        } else if (!strcmp(t[0], "i2k") && haveL) {
            ibz_vec_2_t w; ibz_vec_2_init(&w);
            id2iso_ideal_to_kernel_dlogs_even(&w, &L);
            gmp_printf("R %Zx %Zx\n", w[0], w[1]);
            ibz_vec_2_finalize(&w);
        } else if (!strcmp(t[0], "endo") && n == 7) {
            int f = (int)a9_parse_long(t[1]);
            quat_alg_elem_t th; quat_alg_elem_init(&th);
            int ok = 1;
            for (int i = 0; i < 4; i++) ok &= ibz_from_shex(&th.coord[i], t[2 + i]);
            ok &= ibz_from_shex(&th.denom, t[6]);
            if (!ok) { printf("R bad-op\n"); continue; }
            ec_curve_t E0c = CURVE_E0; ec_curve_init(&E0c);
            ec_basis_t Bf = BASIS_EVEN;
            ec_dbl_iter(&Bf.P, TORSION_PLUS_EVEN_POWER - f, &E0c, &Bf.P);
            ec_dbl_iter(&Bf.Q, TORSION_PLUS_EVEN_POWER - f, &E0c, &Bf.Q);
            ec_dbl_iter(&Bf.PmQ, TORSION_PLUS_EVEN_POWER - f, &E0c, &Bf.PmQ);
            ec_basis_t B0 = Bf;
            endomorphism_application_even_basis(&Bf, &E0c, &th, f);
            printf("R"); a9_print_affx(&Bf.P); a9_print_affx(&Bf.Q); a9_print_affx(&Bf.PmQ);
            printf(" |"); a9_print_affx(&B0.P); a9_print_affx(&B0.Q); a9_print_affx(&B0.PmQ); printf("\n");
            quat_alg_elem_finalize(&th);
        } else if (!strcmp(t[0], "i2iso") && haveL) {
            ec_isog_even_t isog; ibz_vec_2_t d; ibz_vec_2_init(&d);
            id2iso_ideal_to_isogeny_even_dlogs(&isog, &d, &L);
            gmp_printf("R %x %Zx %Zx |", (unsigned)isog.length, d[0], d[1]);
            a9_print_affx(&isog.kernel); printf("\n");
            ibz_vec_2_finalize(&d);
        } else if (!strcmp(t[0], "ideal") && n == 2) {
            ibz_t nn; ibz_init(&nn);
            generate_random_prime(&nn, 1, (int)a9_parse_long(t[1]));
            sampling_random_ideal_O0(&I[0], &nn, 1);
            haveI[0] = 1; haveI[1] = 0;
            gmp_printf("R %Zx\n", I[0].norm);
            ibz_finalize(&nn);
        } else if (!strcmp(t[0], "equiv") && haveI[0]) {
            quat_alg_elem_t g, gb; quat_alg_elem_init(&g); quat_alg_elem_init(&gb);
            ibz_vec_4_t c; ibz_vec_4_init(&c);
            ibq_t nq; ibq_init(&nq); ibz_t nz, q, r; ibz_init(&nz); ibz_init(&q); ibz_init(&r);
            int done = 0;
            for (int tries = 0; tries < 200 && !done; tries++) {
                for (int i = 0; i < 4; i++) ibz_rand_interval_minm_m(&c[i], 3);
                ibz_mat_4x4_eval(&g.coord, &I[0].lattice.basis, &c);
                ibz_copy(&g.denom, &I[0].lattice.denom);
                quat_alg_norm(&nq, &g, &QUATALG_PINFTY);
                if (!ibq_to_ibz(&nz, &nq)) continue;
                if (ibz_is_zero(&nz)) continue;
                ibz_div(&q, &r, &nz, &I[0].norm);
                if (!ibz_is_zero(&r) || ibz_is_even(&q) || ibz_is_one(&q)) continue;
                quat_alg_conj(&gb, &g);
                ibz_mul(&gb.denom, &gb.denom, &I[0].norm);
                if (quat_lideal_mul(&I[1], &I[0], &gb, &QUATALG_PINFTY, 0)) done = 1;
            }
            haveI[1] = done;
            if (done) gmp_printf("R %Zx\n", I[1].norm); else printf("R fail\n");
            quat_alg_elem_finalize(&g); quat_alg_elem_finalize(&gb); ibz_vec_4_finalize(&c);
            ibq_finalize(&nq); ibz_finalize(&nz); ibz_finalize(&q); ibz_finalize(&r);
        } else if (!strcmp(t[0], "eval") && n == 2 && haveI[atoi(t[1]) & 1]) {
            int k = atoi(t[1]) & 1;
            ec_basis_t B; ec_curve_t E;
            int ret = dim2id2iso_arbitrary_isogeny_evaluation(&B, &E, &I[k]);
            printf("R %d", ret);
            if (ret) {
                a9_print_fp2(&E.A); a9_print_fp2(&E.C);
                printf(" |"); a9_print_affx(&B.P); a9_print_affx(&B.Q); a9_print_affx(&B.PmQ);
                fp2_t w; weil_of_basis(&w, &B, &E);
                printf(" |"); a9_print_fp2(&w);
            }
            printf("\n");
        } else if (!strcmp(t[0], "w0")) {
            fp2_t w; weil_of_basis(&w, &BASIS_EVEN, &CURVE_E0);
            printf("R"); a9_print_fp2(&w); printf("\n");
        } else if (!strcmp(t[0], "finduv") && n == 2 && haveI[atoi(t[1]) & 1]) {
            int k = atoi(t[1]) & 1;
            ibz_t u, v, d1, d2, nz, q, r; ibz_init(&u); ibz_init(&v); ibz_init(&d1); ibz_init(&d2); ibz_init(&nz); ibz_init(&q); ibz_init(&r);
            ibz_vec_4_t coeffs; ibz_vec_4_init(&coeffs);
            quat_alg_elem_t b1, b2; quat_alg_elem_init(&b1); quat_alg_elem_init(&b2);
            ibq_t nq; ibq_init(&nq);
            int found = find_uv(&u, &v, &coeffs, &b1, &b2, &d1, &d2, &TORSION_PLUS_2POWER, 0, &I[k], &QUATALG_PINFTY, 0);
            printf("R %d", found);
            if (found) {
                gmp_printf(" %Zx %Zx %Zx %Zx", u, v, d1, d2);
                quat_alg_elem_t *bs[2] = { &b1, &b2 };
                for (int i = 0; i < 2; i++) {
                    quat_alg_norm(&nq, bs[i], &QUATALG_PINFTY);
                    int isint = ibq_to_ibz(&nz, &nq);
                    ibz_div(&q, &r, &nz, &I[k].norm);
                    if (isint && ibz_is_zero(&r)) gmp_printf(" %Zx", q); else printf(" x");
                }
                printf(" %d %d", quat_lattice_contains(NULL, &I[k].lattice, &b1, &QUATALG_PINFTY) ? 1 : 0,
                       quat_lattice_contains(NULL, &I[k].lattice, &b2, &QUATALG_PINFTY) ? 1 : 0);
                /* raw coordinates for the independent recomputation of the norms */
                gmp_printf(" | %Zx %Zx %Zx %Zx %Zx | %Zx %Zx %Zx %Zx %Zx", b1.coord[0], b1.coord[1], b1.coord[2], b1.coord[3], b1.denom,
                           b2.coord[0], b2.coord[1], b2.coord[2], b2.coord[3], b2.denom);
            }
            printf("\n");
            ibz_finalize(&u); ibz_finalize(&v); ibz_finalize(&d1); ibz_finalize(&d2); ibz_finalize(&nz); ibz_finalize(&q); ibz_finalize(&r);
            ibz_vec_4_finalize(&coeffs); quat_alg_elem_finalize(&b1); quat_alg_elem_finalize(&b2); ibq_finalize(&nq);
        } else
            printf("R bad-op\n");
        fflush(stdout);
    }
    return 0;
}

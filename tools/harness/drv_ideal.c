/* C15 correspondence driver: calls the real ideal.c / lattice.c functions in-process.
 * Line protocol identical to lean/SqiModel/Drv/Ideal.lean (all integers hex, optional leading '-'),
 * result lines are prefixed "R " (the library prints noise on stdout).
 *   element E = denom c0 c1 c2 c3 ; lattice L = denom + basis[4][4] row-major ; ideal I = L + norm.
 * Ops shared with the Lean model:
 *   id.principal p E O | id.fromprim p E N O | id.mkprim p E N O | id.add I1 I2 O | id.inter I1 I2 O
 *   id.equals I1 O1 I2 O2 | id.gen p I O n bound | id.mul p I O alpha bound | id.connect p O1 O2 | id.isprim O E
 * C-only ops (their outputs are certificates for the model's checkers and inputs of the Python oracle):
 *   c.rtrans p L1 L2 -> T      c.rord p I O -> T      c.isom p I1 I2 O -> 0 | 1 E
 *   tab.p | tab.o0 | tab.std | tab.alt k   -> the compiled-in globals of quaternion_data.c (this level)
 * id.mul ignores `bound` unless it is 0 (the C code hard-codes 0); lines with bound != 0 are answered "skip".
 */
#include <stdio.h>
#include <stdlib.h>
#include <string.h>
#include <gmp.h>
#include <quaternion.h>
#include <quaternion_data.h>
#include "internal.h"

#define MAXARGS 256
static mpz_t A[MAXARGS];
static int nA, pos;

static void out_z(const ibz_t *z) { char *s = mpz_get_str(NULL, 16, *z); fputs(s, stdout); free(s); }
static void out_sp(void) { fputc(' ', stdout); }
static void out_elem(const quat_alg_elem_t *e) {
    out_z(&e->denom);
    for (int i = 0; i < 4; i++) { out_sp(); out_z(&e->coord[i]); }
}
static void out_lat(const quat_lattice_t *l) {
    out_z(&l->denom);
    for (int i = 0; i < 4; i++) for (int j = 0; j < 4; j++) { out_sp(); out_z(&l->basis[i][j]); }
}
static void out_ideal(const quat_left_ideal_t *I) { out_lat(&I->lattice); out_sp(); out_z(&I->norm); }

static int take_z(ibz_t *z) { if (pos >= nA) return 0; mpz_set(*z, A[pos++]); return 1; }
static int take_elem(quat_alg_elem_t *e) {
    if (!take_z(&e->denom)) return 0;
    for (int i = 0; i < 4; i++) if (!take_z(&e->coord[i])) return 0;
    return 1;
}
static int take_lat(quat_lattice_t *l) {
    if (!take_z(&l->denom)) return 0;
    for (int i = 0; i < 4; i++) for (int j = 0; j < 4; j++) if (!take_z(&l->basis[i][j])) return 0;
    return 1;
}
static int take_ideal(quat_left_ideal_t *I) { return take_lat(&I->lattice) && take_z(&I->norm); }

static int lat_same(const quat_lattice_t *a, const quat_lattice_t *b) {
    if (mpz_cmp(a->denom, b->denom)) return 0;
    for (int i = 0; i < 4; i++) for (int j = 0; j < 4; j++) if (mpz_cmp(a->basis[i][j], b->basis[i][j])) return 0;
    return 1;
}

int main(void) {
    char *line = NULL; size_t cap = 0; ssize_t len;
    for (int i = 0; i < MAXARGS; i++) mpz_init(A[i]);
    quat_alg_t alg; ibz_t p, N, n; int alg_set = 0;
    ibz_init(&p); ibz_init(&N); ibz_init(&n);
    quat_alg_elem_t x, y; quat_alg_elem_init(&x); quat_alg_elem_init(&y);
    quat_lattice_t O1, O2, T; quat_lattice_init(&O1); quat_lattice_init(&O2); quat_lattice_init(&T);
    while ((len = getline(&line, &cap, stdin)) > 0) {
        char *save = NULL; char *op = strtok_r(line, " \t\r\n", &save);
        if (!op) { puts("R bad-op"); continue; }
        nA = 0; pos = 0; int bad = 0;
        for (char *t; (t = strtok_r(NULL, " \t\r\n", &save));) {
            if (nA >= MAXARGS || mpz_set_str(A[nA], t, 16) != 0) { bad = 1; break; }
            nA++;
        }
        if (bad) { puts("R bad-op"); continue; }
        /* fresh ideals for every op (norm = 0, parent NULL) exactly as quat_left_ideal_init leaves them */
        quat_left_ideal_t I1, I2, R; quat_left_ideal_init(&I1); quat_left_ideal_init(&I2); quat_left_ideal_init(&R);
        int needp = !strcmp(op, "id.principal") || !strcmp(op, "id.fromprim") || !strcmp(op, "id.mkprim") ||
                    !strcmp(op, "id.gen") || !strcmp(op, "id.mul") || !strcmp(op, "id.connect") ||
                    !strcmp(op, "c.rtrans") || !strcmp(op, "c.rord") || !strcmp(op, "c.isom");
        int ok = 1;
        if (needp) {
            ok = take_z(&p);
            if (ok) {
                if (alg_set) quat_alg_finalize(&alg);
                if (mpz_cmp(p, QUATALG_PINFTY.p) == 0) {
                    /* use the compiled-in algebra (p and gram) when p is this level's prime */
                    quat_alg_init_set(&alg, &QUATALG_PINFTY.p);
                    for (int i = 0; i < 4; i++) for (int j = 0; j < 4; j++) mpz_set(alg.gram[i][j], QUATALG_PINFTY.gram[i][j]);
                } else quat_alg_init_set(&alg, &p);
                alg_set = 1;
            }
        }
        fputs("R ", stdout);
        if (!ok) { puts("bad-op"); }
        else if (!strcmp(op, "id.principal")) {
            if (take_elem(&x) && take_lat(&O1)) { quat_lideal_create_principal(&R, &x, &O1, &alg); out_ideal(&R); puts(""); } else puts("bad-op");
        } else if (!strcmp(op, "id.fromprim")) {
            if (take_elem(&x) && take_z(&N) && take_lat(&O1)) { quat_lideal_create_from_primitive(&R, &x, &N, &O1, &alg); out_ideal(&R); puts(""); } else puts("bad-op");
        } else if (!strcmp(op, "id.mkprim")) {
            if (take_elem(&x) && take_z(&N) && take_lat(&O1)) { quat_lideal_make_primitive_then_create(&R, &x, &N, &O1, &alg); out_ideal(&R); puts(""); } else puts("bad-op");
        } else if (!strcmp(op, "id.add") || !strcmp(op, "id.inter")) {
            if (take_ideal(&I1) && take_ideal(&I2) && take_lat(&O1)) {
                I1.parent_order = &O1; I2.parent_order = &O1;
                if (op[3] == 'a') quat_lideal_add(&R, &I1, &I2, &alg); else quat_lideal_inter(&R, &I1, &I2, &alg);
                out_ideal(&R); puts("");
            } else puts("bad-op");
        } else if (!strcmp(op, "id.equals")) {
            if (take_ideal(&I1) && take_lat(&O1) && take_ideal(&I2) && take_lat(&O2)) {
                I1.parent_order = &O1; I2.parent_order = lat_same(&O1, &O2) ? &O1 : &O2;
                printf("%d\n", quat_lideal_equals(&I1, &I2, &alg) ? 1 : 0);
            } else puts("bad-op");
        } else if (!strcmp(op, "id.gen")) {
            ibz_t bnd; ibz_init(&bnd);
            if (take_ideal(&I1) && take_lat(&O1) && take_z(&n) && take_z(&bnd)) {
                I1.parent_order = &O1;
                int f = quat_lideal_generator_coprime(&x, &I1, &n, &alg, (int)mpz_get_si(bnd));
                if (f) { fputs("1 ", stdout); out_elem(&x); puts(""); } else puts("0");
            } else puts("bad-op");
            ibz_finalize(&bnd);
        } else if (!strcmp(op, "id.mul")) {
            ibz_t bnd; ibz_init(&bnd);
            if (take_ideal(&I1) && take_lat(&O1) && take_elem(&x) && take_z(&bnd)) {
                if (mpz_sgn(bnd) != 0) puts("skip");
                else {
                    I1.parent_order = &O1;
                    int f = quat_lideal_mul(&R, &I1, &x, &alg, 0);
                    if (f) { fputs("1 ", stdout); out_ideal(&R); puts(""); } else puts("0");
                }
            } else puts("bad-op");
            ibz_finalize(&bnd);
        } else if (!strcmp(op, "id.connect")) {
            if (take_lat(&O1) && take_lat(&O2)) { quat_connecting_ideal(&R, &O1, &O2, &alg); out_ideal(&R); puts(""); } else puts("bad-op");
        } else if (!strcmp(op, "id.isprim")) {
            if (take_lat(&O1) && take_elem(&x)) printf("%d\n", quat_alg_is_primitive(&x, &O1, &alg) ? 1 : 0); else puts("bad-op");
        } else if (!strcmp(op, "c.rtrans")) {
            if (take_lat(&O1) && take_lat(&O2)) { quat_lattice_right_transporter(&T, &O1, &O2, &alg); out_lat(&T); puts(""); } else puts("bad-op");
        } else if (!strcmp(op, "c.rord")) {
            if (take_ideal(&I1) && take_lat(&O1)) { I1.parent_order = &O1; quat_lideal_right_order(&T, &I1, &alg); out_lat(&T); puts(""); } else puts("bad-op");
        } else if (!strcmp(op, "c.isom")) {
            if (take_ideal(&I1) && take_ideal(&I2) && take_lat(&O1)) {
                I1.parent_order = &O1; I2.parent_order = &O1;
                int f = quat_lideal_isom(&x, &I1, &I2, &alg);
                if (f) { fputs("1 ", stdout); out_elem(&x); puts(""); } else puts("0");
            } else puts("bad-op");
        } else if (!strcmp(op, "tab.p")) {
            out_z(&QUATALG_PINFTY.p);
            for (int i = 0; i < 4; i++) for (int j = 0; j < 4; j++) { out_sp(); out_z(&QUATALG_PINFTY.gram[i][j]); }
            puts("");
        } else if (!strcmp(op, "tab.o0")) { out_lat(&MAXORD_O0); puts("");
        } else if (!strcmp(op, "tab.std") || !strcmp(op, "tab.alt")) {
            const quat_p_extremal_maximal_order_t *e = &STANDARD_EXTREMAL_ORDER;
            int okk = 1;
            if (op[4] == 'a') {
                long k = nA >= 1 ? mpz_get_si(A[0]) : -1;
                if (k < 0 || k >= NUM_ALTERNATE_EXTREMAL_ORDERS) okk = 0; else e = &ALTERNATE_EXTREMAL_ORDERS[k];
            }
            if (!okk) puts("bad-op");
            else {
                out_lat(&e->order); out_sp(); out_elem(&e->i); out_sp(); out_elem(&e->j);
                printf(" %s%llx\n", e->q < 0 ? "-" : "", (unsigned long long)(e->q < 0 ? -e->q : e->q));
            }
        } else if (!strcmp(op, "tab.nalt")) { printf("%x\n", NUM_ALTERNATE_EXTREMAL_ORDERS);
        } else puts("bad-op");
        fflush(stdout);
        quat_left_ideal_finalize(&I1); quat_left_ideal_finalize(&I2); quat_left_ideal_finalize(&R);
    }
    return 0;
}

/* C17 correspondence driver: integer / number-theoretic primitives.
 * Reads one op per line on stdin (integers in hex, optional leading '-'), calls the real library function
 * in-process and prints one canonical result line prefixed "R ".  Same protocol as lean/SqiModel/Drv/Int.lean.
 *
 * `randombytes` is defined HERE (the DRBG object of libsqisign_common is therefore not linked): it pops bytes
 * from the stream given on the op line and fails (returns 1) when the stream is exhausted, which is exactly
 * how the Lean model treats the byte stream.
 *
 * Ops that may abort inside GMP (sqrt mod 2, ...) are executed in a forked child when the line starts with '!';
 * abnormal termination of the child is reported as "ub".
 */
#include <stdio.h>
#include <stdlib.h>
#include <string.h>
#include <stdint.h>
#include <unistd.h>
#include <sys/wait.h>
#include <setjmp.h>
#include <gmp.h>
#include <intbig.h>
#include <quaternion.h>
#include "internal.h"
#ifndef DRV_NO_KLPT
#include <quaternion_data.h>
#include <klpt.h>
#endif

int two_adic_valuation(int n);
int ibz_cornacchia_special_prime(ibz_t *x, ibz_t *y, const ibz_t *n, const ibz_t *p, const int exp_adjust);

/* ---------------------------------------------------------------- byte stream behind randombytes */
static unsigned char *g_stream = NULL;
static size_t g_len = 0, g_pos = 0;

static int g_jump_on_exhaust = 0;
static jmp_buf g_jmp;

int
randombytes(unsigned char *x, unsigned long long xlen)
{
    if (g_pos + xlen > g_len) {
        if (g_jump_on_exhaust)
            longjmp(g_jmp, 1); /* callers that ignore the return value (represent_integer): stop the experiment */
        return 1;
    }
    memcpy(x, g_stream + g_pos, xlen);
    g_pos += xlen;
    return 0;
}
void
randombytes_init(unsigned char *entropy_input, unsigned char *personalization_string, int security_strength)
{
    (void)entropy_input;
    (void)personalization_string;
    (void)security_strength;
}

static int
hexv(int c)
{
    if (c >= '0' && c <= '9')
        return c - '0';
    if (c >= 'a' && c <= 'f')
        return c - 'a' + 10;
    if (c >= 'A' && c <= 'F')
        return c - 'A' + 10;
    return -1;
}

static void
set_stream(const char *s)
{
    free(g_stream);
    g_stream = NULL;
    g_len = g_pos = 0;
    if (strcmp(s, "-") == 0)
        return;
    size_t n = strlen(s) / 2;
    g_stream = malloc(n + 1);
    for (size_t i = 0; i < n; i++)
        g_stream[i] = (unsigned char)(hexv(s[2 * i]) * 16 + hexv(s[2 * i + 1]));
    g_len = n;
}

/* ---------------------------------------------------------------- helpers */
#define MAXTOK 512
static char *tok[MAXTOK];
static int ntok;

static void
geti(ibz_t *x, const char *s)
{
    if (mpz_set_str(*x, s, 16) != 0) {
        fprintf(stderr, "bad integer %s\n", s);
        exit(2);
    }
}

static void
puti(const ibz_t *x)
{
    gmp_printf("%Zx", *x);
}

static void
do_op(void)
{
    const char *op = tok[0];
    ibz_t a, b, c, d, q, r, s, t, u;
    ibz_init(&a); ibz_init(&b); ibz_init(&c); ibz_init(&d); ibz_init(&q);
    ibz_init(&r); ibz_init(&s); ibz_init(&t); ibz_init(&u);
    printf("R ");
    if (!strcmp(op, "div") && ntok == 3) {
        geti(&a, tok[1]); geti(&b, tok[2]);
        ibz_div(&q, &r, &a, &b);
        puti(&q); printf(" "); puti(&r);
    } else if (!strcmp(op, "divfloor") && ntok == 3) {
        geti(&a, tok[1]); geti(&b, tok[2]);
        ibz_div_floor(&q, &r, &a, &b);
        puti(&q); printf(" "); puti(&r);
    } else if (!strcmp(op, "mod") && ntok == 3) {
        geti(&a, tok[1]); geti(&b, tok[2]);
        ibz_mod(&r, &a, &b);
        puti(&r);
    } else if (!strcmp(op, "div2exp") && ntok == 3) {
        geti(&a, tok[1]);
        ibz_div_2exp(&q, &a, strtoull(tok[2], NULL, 16));
        puti(&q);
    } else if (!strcmp(op, "rdiv") && ntok == 3) {
        geti(&a, tok[1]); geti(&b, tok[2]);
        ibz_rounded_div(&q, &a, &b);
        puti(&q);
    } else if (!strcmp(op, "xgcd") && ntok == 3) {
        geti(&a, tok[1]); geti(&b, tok[2]);
        ibz_xgcd(&q, &u, &t, &a, &b);
        puti(&q); printf(" "); puti(&u); printf(" "); puti(&t);
    } else if (!strcmp(op, "xgcdann") && ntok == 3) {
        geti(&a, tok[1]); geti(&b, tok[2]);
        ibz_xgcd_ann(&q, &s, &t, &u, &r, &a, &b);
        puti(&q); printf(" "); puti(&s); printf(" "); puti(&t); printf(" "); puti(&u); printf(" "); puti(&r);
    } else if (!strcmp(op, "invmod") && ntok == 3) {
        geti(&a, tok[1]); geti(&b, tok[2]);
        int ok = ibz_invmod(&r, &a, &b);
        if (ok) { printf("1 "); puti(&r); } else printf("0");
    } else if (!strcmp(op, "crt") && ntok == 5) {
        geti(&a, tok[1]); geti(&b, tok[2]); geti(&c, tok[3]); geti(&d, tok[4]);
        ibz_crt(&r, &a, &b, &c, &d);
        puti(&r);
    } else if (!strcmp(op, "powm") && ntok == 4) {
        geti(&a, tok[1]); geti(&b, tok[2]); geti(&c, tok[3]);
        ibz_pow_mod(&r, &a, &b, &c);
        puti(&r);
    } else if (!strcmp(op, "sqrtp") && ntok == 3) {
        geti(&a, tok[1]); geti(&b, tok[2]);
        int ok = ibz_sqrt_mod_p(&r, &a, &b);
        if (ok) { printf("1 "); puti(&r); } else printf("0");
    } else if (!strcmp(op, "sqrt2p") && ntok == 3) {
        geti(&a, tok[1]); geti(&b, tok[2]);
        int ok = ibz_sqrt_mod_2p(&r, &a, &b);
        if (ok) { printf("1 "); puti(&r); } else printf("0");
    } else if (!strcmp(op, "get") && ntok == 2) {
        geti(&a, tok[1]);
        int64_t v = ibz_get(&a);
        mpz_set_si(r, (long)v);
        puti(&r);
    } else if (!strcmp(op, "tav") && ntok == 2) {
        geti(&a, tok[1]);
        printf("%x", (unsigned)two_adic_valuation(ibz_get(&a)));
    } else if (!strcmp(op, "twoadic") && ntok == 2) {
        geti(&a, tok[1]);
        printf("%x", (unsigned)ibz_two_adic(&a));
    } else if (!strcmp(op, "bitsize") && ntok == 2) {
        geti(&a, tok[1]);
        printf("%x", (unsigned)ibz_bitsize(&a));
    } else if (!strcmp(op, "fromdigits")) {
        int n = ntok - 1;
        digit_t *dg = calloc(n > 0 ? n : 1, sizeof(digit_t));
        for (int i = 0; i < n; i++)
            dg[i] = strtoull(tok[1 + i], NULL, 16);
        ibz_copy_digits(&r, dg, n);
        puti(&r);
        free(dg);
    } else if (!strcmp(op, "todigits") && ntok == 3) {
        /* the macro ibz_to_digit_array on an array of n digits: memset, then ibz_to_digits.
           The driver refuses (prints "ub") when the write would leave the array: the C has no check. */
        size_t n = strtoull(tok[1], NULL, 16);
        geti(&a, tok[2]);
        size_t need = mpz_size(a) == 0 ? 1 : mpz_size(a);
        if (need > n) {
            printf("ub");
        } else {
            digit_t *dg = malloc(n * sizeof(digit_t));
            memset(dg, 0, n * sizeof(digit_t));
            ibz_to_digits(dg, &a);
            printf("1");
            for (size_t i = 0; i < n; i++)
                printf(" %llx", (unsigned long long)dg[i]);
            free(dg);
        }
    } else if ((!strcmp(op, "randint") || !strcmp(op, "randint86")) && ntok == 4) {
        geti(&a, tok[1]); geti(&b, tok[2]);
        set_stream(tok[3]);
        int ok = ibz_rand_interval(&r, &a, &b);
        if (ok) { printf("1 "); puti(&r); printf(" %zx", g_pos); } else printf("0");
    } else if (!strcmp(op, "randminm") && ntok == 3) {
        geti(&a, tok[1]);
        set_stream(tok[2]);
        int ok = ibz_rand_interval_minm_m(&r, (int64_t)mpz_get_si(a));
        if (ok) { printf("1 "); puti(&r); printf(" %zx", g_pos); } else printf("0");
    } else if (!strcmp(op, "cornp") && ntok == 3) {
        geti(&a, tok[1]); geti(&b, tok[2]);
        int ok = ibz_cornacchia_prime(&q, &r, &a, &b);
        if (ok) { printf("1 "); puti(&q); printf(" "); puti(&r); } else printf("0");
    } else if (!strcmp(op, "cornsp") && ntok == 4) {
        geti(&a, tok[1]); geti(&b, tok[2]);
        int ok = ibz_cornacchia_special_prime(&q, &r, &a, &b, (int)strtol(tok[3], NULL, 16));
        if (ok) { printf("1 "); puti(&q); printf(" "); puti(&r); } else printf("0");
    } else if (!strcmp(op, "cmulpow") && ntok == 6) {
        geti(&q, tok[1]); geti(&r, tok[2]); geti(&a, tok[3]); geti(&b, tok[4]);
        ibz_complex_mul_by_complex_power(&q, &r, &a, &b, (int64_t)strtoull(tok[5], NULL, 16));
        puti(&q); printf(" "); puti(&r);
    } else if (!strcmp(op, "cornext") && ntok >= 3) {
        geti(&a, tok[1]);
        int hasbad = strcmp(tok[2], "null") != 0;
        if (hasbad)
            geti(&b, tok[2]);
        int np = ntok - 3;
        short *pl = malloc((np > 0 ? np : 1) * sizeof(short));
        for (int i = 0; i < np; i++)
            pl[i] = (short)strtol(tok[3 + i], NULL, 16);
        int ok = ibz_cornacchia_extended(&q, &r, &a, pl, np, 30, hasbad ? &b : NULL);
        if (ok) { printf("1 "); puti(&q); printf(" "); puti(&r); } else printf("0");
        free(pl);
    } else if (!strcmp(op, "inv2") && ntok == 6) {
        ibz_mat_2x2_t m, inv;
        ibz_mat_2x2_init(&m); ibz_mat_2x2_init(&inv);
        geti(&a, tok[1]);
        for (int i = 0; i < 4; i++)
            geti(&m[i / 2][i % 2], tok[2 + i]);
        int ok = ibz_2x2_inv_mod(&inv, &m, &a);
        if (ok) {
            printf("1");
            for (int i = 0; i < 4; i++) { printf(" "); puti(&inv[i / 2][i % 2]); }
        } else printf("0");
        ibz_mat_2x2_finalize(&m); ibz_mat_2x2_finalize(&inv);
    } else if (!strcmp(op, "mul2") && ntok == 10) {
        ibz_mat_2x2_t m, n2, pr;
        ibz_mat_2x2_init(&m); ibz_mat_2x2_init(&n2); ibz_mat_2x2_init(&pr);
        geti(&a, tok[1]);
        for (int i = 0; i < 4; i++) {
            geti(&m[i / 2][i % 2], tok[2 + i]);
            geti(&n2[i / 2][i % 2], tok[6 + i]);
        }
        ibz_2x2_mul_mod(&pr, &m, &n2, &a);
        for (int i = 0; i < 4; i++) { if (i) printf(" "); puti(&pr[i / 2][i % 2]); }
        ibz_mat_2x2_finalize(&m); ibz_mat_2x2_finalize(&n2); ibz_mat_2x2_finalize(&pr);
    } else if (!strcmp(op, "ker44p") && ntok == 18) {
        ibz_mat_4x4_t m; ibz_vec_4_t k;
        ibz_mat_4x4_init(&m); ibz_vec_4_init(&k);
        geti(&a, tok[1]);
        for (int i = 0; i < 16; i++)
            geti(&m[i / 4][i % 4], tok[2 + i]);
        int ok = ibz_4x4_right_ker_mod_prime(&k, &m, &a);
        if (ok) { printf("1"); for (int i = 0; i < 4; i++) { printf(" "); puti(&k[i]); } } else printf("0");
        ibz_mat_4x4_finalize(&m); ibz_vec_4_finalize(&k);
    } else if (!strcmp(op, "ker45p") && ntok == 22) {
        ibz_mat_4x5_t m; ibz_vec_5_t k;
        ibz_mat_4x5_init(&m); ibz_vec_5_init(&k);
        geti(&a, tok[1]);
        for (int i = 0; i < 20; i++)
            geti(&m[i / 5][i % 5], tok[2 + i]);
        int ok = ibz_4x5_right_ker_mod_prime(&k, &m, &a);
        if (ok) { printf("1"); for (int i = 0; i < 5; i++) { printf(" "); puti(&k[i]); } } else printf("0");
        ibz_mat_4x5_finalize(&m); ibz_vec_5_finalize(&k);
    } else if (!strcmp(op, "ker44two") && ntok == 18) {
        ibz_mat_4x4_t m; ibz_vec_4_t k;
        ibz_mat_4x4_init(&m); ibz_vec_4_init(&k);
        unsigned short e = (unsigned short)strtoul(tok[1], NULL, 16);
        for (int i = 0; i < 16; i++)
            geti(&m[i / 4][i % 4], tok[2 + i]);
        int ok = ibz_4x4_right_ker_mod_power_of_2(&k, &m, e);
        if (ok) { printf("1"); for (int i = 0; i < 4; i++) { printf(" "); puti(&k[i]); } } else printf("0");
        ibz_mat_4x4_finalize(&m); ibz_vec_4_finalize(&k);
#ifndef DRV_NO_KLPT
    } else if (!strcmp(op, "repint") && ntok == 6) {
        /* repint <non_diag> <trials (informative)> <p (informative)> <n> <stream>: the real function at this level */
        quat_alg_elem_t gam;
        quat_alg_elem_init(&gam);
        geti(&a, tok[4]);
        set_stream(tok[5]);
        int nd = (int)strtol(tok[1], NULL, 16);
        g_jump_on_exhaust = 1;
        if (setjmp(g_jmp) == 0) {
            int found = nd ? represent_integer_non_diag(&gam, &a, &QUATALG_PINFTY) : represent_integer(&gam, &a, &QUATALG_PINFTY);
            g_jump_on_exhaust = 0;
            if (found) {
                printf("1 "); puti(&a);
                for (int i = 0; i < 4; i++) { printf(" "); puti(&gam.coord[i]); }
                printf(" "); puti(&gam.denom); printf(" %zx", g_pos);
            } else printf("0");
        } else {
            g_jump_on_exhaust = 0;
            printf("ub");
        }
        quat_alg_elem_finalize(&gam);
#endif
    } else if ((!strcmp(op, "howell") || !strcmp(op, "kermod")) && ntok >= 4) {
        int rows = (int)strtol(tok[1], NULL, 16), cols = (int)strtol(tok[2], NULL, 16);
        if (cols < 1 || cols > rows || ntok != 4 + rows * cols) {
            printf("bad-op");
        } else {
            geti(&a, tok[3]);
            ibz_t mat[rows][cols];
            ibz_mat_init(rows, cols, mat);
            for (int i = 0; i < rows * cols; i++)
                geti(&mat[i / cols][i % cols], tok[4 + i]);
            if (!strcmp(op, "howell")) {
                ibz_t how[rows][rows + 1], tr[rows + 1][rows + 1];
                ibz_mat_init(rows, rows + 1, how);
                ibz_mat_init(rows + 1, rows + 1, tr);
                int z = ibz_mat_howell(rows, cols, how, tr, mat, &a);
                printf("%x", (unsigned)z);
                for (int i = 0; i < rows; i++)
                    for (int j = 0; j < rows + 1; j++) { printf(" "); puti(&how[i][j]); }
                printf(" |");
                for (int i = 0; i < rows + 1; i++)
                    for (int j = 0; j < rows + 1; j++) { printf(" "); puti(&tr[i][j]); }
                ibz_mat_finalize(rows, rows + 1, how);
                ibz_mat_finalize(rows + 1, rows + 1, tr);
            } else {
                ibz_t kr[cols][cols];
                ibz_mat_init(cols, cols, kr);
                ibz_mat_right_ker_mod(rows, cols, kr, mat, &a);
                for (int i = 0; i < cols; i++)
                    for (int j = 0; j < cols; j++) { if (i + j) printf(" "); puti(&kr[i][j]); }
                ibz_mat_finalize(cols, cols, kr);
            }
            ibz_mat_finalize(rows, cols, mat);
        }
    } else {
        printf("bad-op");
    }
    printf("\n");
    ibz_finalize(&a); ibz_finalize(&b); ibz_finalize(&c); ibz_finalize(&d); ibz_finalize(&q);
    ibz_finalize(&r); ibz_finalize(&s); ibz_finalize(&t); ibz_finalize(&u);
}

int
main(void)
{
    size_t cap = 1 << 20;
    char *line = malloc(cap);
    while (getline(&line, &cap, stdin) > 0) {
        int guarded = 0;
        char *p = line;
        if (*p == '!') {
            guarded = 1;
            p++;
        }
        ntok = 0;
        for (char *w = strtok(p, " \t\r\n"); w && ntok < MAXTOK; w = strtok(NULL, " \t\r\n"))
            tok[ntok++] = w;
        if (ntok == 0) {
            printf("R bad-op\n");
            continue;
        }
        if (guarded) {
            fflush(stdout);
            pid_t pid = fork();
            if (pid == 0) {
                /* keep GMP's abort message away from the result stream */
                freopen("/dev/null", "w", stderr);
                alarm(20);
                do_op();
                fflush(stdout);
                _exit(0);
            }
            int st = 0;
            waitpid(pid, &st, 0);
            if (!(WIFEXITED(st) && WEXITSTATUS(st) == 0)) {
                /* the child may have printed the "R " prefix already: terminate that line, then report */
                printf("\nR ub\n");
            }
        } else {
            do_op();
        }
        fflush(stdout);
    }
    return 0;
}

/* Transcript driver for C06: keygen + sign + verify with the deterministic AES-CTR-DRBG
 * (libsqisign_common_test.a), canonicalised output. One line of input per run: "<seed-hex-up-to-48-bytes> <msglen>".
 * Output: R pk=<A/C enc> hint=<..> | sig: Eaux=<A/C enc> bt=.. r=.. M=.. c=.. b=.. ha=.. hc=.. | ok=<sign rc> verdict=<verify>
 * All field elements go through fp2_encode of the normalised coefficient A/C (canonical bytes). */
#include <stdio.h>
#include <stdlib.h>
#include <string.h>
#include <stdint.h>
#include <rng.h>
#include <sqisigndim2.h>
#include <encoded_sizes.h>

static void put_bytes(const uint8_t *b, int n)
{
    for (int i = 0; i < n; i++) printf("%02x", b[i]);
}
static void put_curve(const ec_curve_t *E)
{
    fp2_t a, c;
    uint8_t buf[FP2_ENCODED_BYTES];
    fp2_copy(&c, &E->C);
    fp2_inv(&c);
    fp2_mul(&a, &E->A, &c);
    fp2_encode(buf, &a);
    put_bytes(buf, FP2_ENCODED_BYTES);
}
static int hexval(int c)
{
    if (c >= '0' && c <= '9') return c - '0';
    if (c >= 'a' && c <= 'f') return c - 'a' + 10;
    return 0;
}
int main(void)
{
    char line[512];
    while (fgets(line, sizeof line, stdin)) {
        char seedhex[200];
        int mlen = 32;
        if (sscanf(line, "%199s %d", seedhex, &mlen) < 1) continue;
        if (mlen < 0 || mlen > 256) mlen = 32;
        unsigned char seed[48];
        memset(seed, 0, sizeof seed);
        size_t n = strlen(seedhex);
        for (size_t i = 0; i + 1 < n && i / 2 < 48; i += 2) seed[i / 2] = (unsigned char)(hexval(seedhex[i]) * 16 + hexval(seedhex[i + 1]));
        randombytes_init(seed, NULL, 256);
        unsigned char msg[256];
        randombytes(msg, (unsigned long long)mlen);
        public_key_t pk;
        secret_key_t sk;
        signature_t sig;
        public_key_init(&pk);
        secret_key_init(&sk);
        secret_sig_init(&sig);
        protocols_keygen(&pk, &sk);
        int ok = protocols_sign(&sig, &pk, &sk, msg, (size_t)mlen, 0);
        int verdict = ok == 1 ? protocols_verif(&sig, &pk, msg, (size_t)mlen) : -1;
        printf("R pk=");
        put_curve(&pk.curve);
        printf(" hint=%d,%d | ", pk.hint_pk[0], pk.hint_pk[1]);
        if (ok == 1) { /* with the H1 steering hooks protocols_sign may return -1 ("steering unmet"): no signature to print */
            printf("sig: Eaux=");
            put_curve(&sig.E_aux);
            printf(" bt=%d r=%d", sig.backtracking, sig.two_resp_length);
            gmp_printf(" M=%Zx,%Zx,%Zx,%Zx c=%Zx", sig.mat_Bchall_can_to_B_chall[0][0], sig.mat_Bchall_can_to_B_chall[0][1],
                       sig.mat_Bchall_can_to_B_chall[1][0], sig.mat_Bchall_can_to_B_chall[1][1], sig.chall_coeff);
            printf(" b=%d ha=%d,%d hc=%d,%d", sig.chall_b, sig.hint_aux[0], sig.hint_aux[1], sig.hint_chall[0], sig.hint_chall[1]);
        } else {
            printf("sig: none");
        }
        printf(" | ok=%d verdict=%d\n", ok, ok == 1 ? verdict : -1);
        fflush(stdout);
        public_key_finalize(&pk);
        secret_key_finalize(&sk);
        secret_sig_finalize(&sig);
    }
    return 0;
}

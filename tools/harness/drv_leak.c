/* C19 heap-growth driver, variant-agnostic (compile with -DVARIANT_HEADER="<sqisigndim2.h>" etc. and -DHAS_VERIF=0|1):
 * k rounds of keygen + sign (+ verify) on the same objects with the deterministic DRBG; after rounds listed on the command line
 * prints "R k <malloc live bytes> <malloc live blocks> <gmp live blocks>". All malloc/free of the statically linked library go
 * through --wrap, GMP through mp_set_memory_functions. */
#include <stdio.h>
#include <stdlib.h>
#include <string.h>
#include <stdint.h>
#include <gmp.h>
#include <rng.h>
#include VARIANT_HEADER

#ifdef NO_WRAP   /* sanitizer build: no ledger, the sanitizers watch the heap */
#define __real_malloc malloc
#define __real_free free
#define __real_calloc calloc
#define __real_realloc realloc
#else
void *__real_malloc(size_t); void __real_free(void *); void *__real_calloc(size_t, size_t); void *__real_realloc(void *, size_t);
#endif
#define CAP (1u << 20)
static struct { void *p; size_t n; } tab[CAP];
static size_t live_bytes, live_blocks; static long gmp_blocks;
static unsigned slot(void *p) { return (unsigned)(((uintptr_t)p >> 4) * 2654435761u) & (CAP - 1); }
static void add(void *p, size_t n) { if (!p) return; unsigned i = slot(p); while (tab[i].p && tab[i].p != (void *)1) i = (i + 1) & (CAP - 1); tab[i].p = p; tab[i].n = n; live_bytes += n; live_blocks++; }
static void del(void *p) { if (!p) return; unsigned i = slot(p), c = 0; while (tab[i].p && c < CAP) { if (tab[i].p == p) { live_bytes -= tab[i].n; live_blocks--; tab[i].p = (void *)1; return; } i = (i + 1) & (CAP - 1); c++; } }
#ifndef NO_WRAP
void *__wrap_malloc(size_t n) { void *p = __real_malloc(n); add(p, n); return p; }
void *__wrap_calloc(size_t a, size_t b) { void *p = __real_calloc(a, b); add(p, a * b); return p; }
void __wrap_free(void *p) { del(p); __real_free(p); }
void *__wrap_realloc(void *p, size_t n) { del(p); void *q = __real_realloc(p, n); add(q, n); return q; }
#endif
static void *g_alloc(size_t n) { gmp_blocks++; return __real_malloc(n); }
static void *g_realloc(void *p, size_t o, size_t n) { (void)o; return __real_realloc(p, n); }
static void g_free(void *p, size_t n) { (void)n; gmp_blocks--; __real_free(p); }

int main(int argc, char **argv)
{
    mp_set_memory_functions(g_alloc, g_realloc, g_free);
    int kmax = 0; for (int i = 1; i < argc; i++) if (atoi(argv[i]) > kmax) kmax = atoi(argv[i]);
    public_key_t pk; secret_key_t sk; signature_t sig;
    public_key_init(&pk); secret_key_init(&sk); secret_sig_init(&sig);
    unsigned char msg[32] = { 1, 2, 3 };
    for (int k = 1; k <= kmax; k++) {
        unsigned char seed[48] = { 0 }; seed[0] = (unsigned char)k; seed[1] = 0x5a;
        randombytes_init(seed, NULL, 256);
        protocols_keygen(&pk, &sk);
        int s = protocols_sign(&sig, &pk, &sk, msg, 32, 0);
        int v = -1;
#if HAS_VERIF
        v = protocols_verif(&sig, &pk, msg, 32);
#endif
        for (int i = 1; i < argc; i++) if (atoi(argv[i]) == k) { printf("R %d %zu %zu %ld sign=%d verif=%d\n", k, live_bytes, live_blocks, gmp_blocks, s, v); fflush(stdout); }
    }
    public_key_finalize(&pk); secret_key_finalize(&sk); secret_sig_finalize(&sig);
    printf("R end %zu %zu %ld\n", live_bytes, live_blocks, gmp_blocks);
    return 0;
}

/* C16 correspondence / certificate driver: lattice reduction, dimension-2 routines, sample_response.
 * One op per stdin line (integers in hex, optional leading '-'); one result line prefixed "R ".
 * Same protocol as lean/SqiModel/Drv/Lll.lean.
 *
 * A line starting with '!' is executed in a forked child under alarm(T) (T = first token after '!', seconds):
 * abnormal termination is reported as "R crash <signal>" / "R timeout" (a result, not a harness failure).
 *
 * `randombytes` is defined HERE as a SplitMix64 byte stream (seeded per op with the seed given on the op
 * line), so that (a) every run is reproducible from VERIF_SEED alone and (b) the candidate coefficient
 * vectors drawn inside sample_response can be REPLAYED after the call without any hook in the library:
 * sample_response consumes randomness only through ibz_rand_interval_minm_m, in a fixed order.
 */
#include <stdio.h>
#include <stdlib.h>
#include <string.h>
#include <stdint.h>
#include <signal.h>
#include <unistd.h>
#include <sys/wait.h>
#include <sys/prctl.h>
#include <gmp.h>
#include <intbig.h>
#include <quaternion.h>
#include <quaternion_data.h>
#include <klpt_constants.h>
#include <klpt.h>
#include <id2iso.h>
#include "internal.h"

void sample_response(quat_alg_elem_t *x, const quat_lattice_t *lattice, ibz_t const *lattice_content, int verbose);

/* ---------------------------------------------------------------- deterministic randombytes */
static uint64_t g_state = 1;
static uint64_t g_calls = 0;
static uint64_t
sm64(void)
{
    g_state += 0x9E3779B97F4A7C15ULL;
    uint64_t z = g_state;
    z = (z ^ (z >> 30)) * 0xBF58476D1CE4E5B9ULL;
    z = (z ^ (z >> 27)) * 0x94D049BB133111EBULL;
    return z ^ (z >> 31);
}
int
randombytes(unsigned char *x, unsigned long long xlen)
{
    g_calls++;
    for (unsigned long long i = 0; i < xlen; i++)
        x[i] = (unsigned char)(sm64() >> 24);
    return 0;
}
void
randombytes_init(unsigned char *entropy_input, unsigned char *personalization_string, int security_strength)
{
    (void)entropy_input;
    (void)personalization_string;
    (void)security_strength;
}
static void
reseed(const char *hex)
{
    g_state = strtoull(hex, NULL, 16);
    g_calls = 0;
}

/* ---------------------------------------------------------------- token helpers */
#define MAXTOK 400
static char *tok[MAXTOK];
static int ntok;

static void
geti(ibz_t *x, const char *s)
{
    if (mpz_set_str(*x, s, 16) != 0) {
        fprintf(stderr, "bad integer %s\n", s);
        exit(2);
    }
}
static void
puti(const ibz_t *x)
{
    gmp_printf("%Zx", *x);
}
static void
putsp(void)
{
    printf(" ");
}
static void
get_mat4(ibz_mat_4x4_t *m, int at)
{
    for (int i = 0; i < 4; i++)
        for (int j = 0; j < 4; j++)
            geti(&(*m)[i][j], tok[at + 4 * i + j]);
}
static void
put_mat4(const ibz_mat_4x4_t *m)
{
    for (int i = 0; i < 4; i++)
        for (int j = 0; j < 4; j++) {
            if (i + j)
                putsp();
            puti(&(*m)[i][j]);
        }
}
static void
get_mat2(ibz_mat_2x2_t *m, int at)
{
    for (int i = 0; i < 2; i++)
        for (int j = 0; j < 2; j++)
            geti(&(*m)[i][j], tok[at + 2 * i + j]);
}
static void
put_mat2(const ibz_mat_2x2_t *m)
{
    for (int i = 0; i < 2; i++)
        for (int j = 0; j < 2; j++) {
            if (i + j)
                putsp();
            puti(&(*m)[i][j]);
        }
}
static void
put_elem(const quat_alg_elem_t *e)
{
    puti(&e->denom);
    for (int i = 0; i < 4; i++) {
        putsp();
        puti(&e->coord[i]);
    }
}
static void
put_lat(const quat_lattice_t *l)
{
    puti(&l->denom);
    putsp();
    put_mat4(&l->basis);
}

/* condition used as a membership oracle for the enumeration ("is exactly this vector tested and within the bound?"):
   true iff vec == (params[0], params[1]); the element is (1; v0 v1 0 0) */
static int
cond_eq(quat_alg_elem_t *elem, const ibz_vec_2_t *vec, const void *params)
{
    const ibz_t *want = (const ibz_t *)params;
    int res = (ibz_cmp(&((*vec)[0]), &want[0]) == 0) && (ibz_cmp(&((*vec)[1]), &want[1]) == 0);
    if (res) {
        ibz_t one, zero;
        ibz_init(&one); ibz_init(&zero);
        ibz_set(&one, 1); ibz_set(&zero, 0);
        quat_alg_elem_copy_ibz(elem, &one, &((*vec)[0]), &((*vec)[1]), &zero, &zero);
        ibz_finalize(&one); ibz_finalize(&zero);
    }
    return res;
}

/* ---------------------------------------------------------------- ops */
static void
do_op(void)
{
    const char *op = tok[0];
    ibz_t q, a, b, c, d, e, f, g, r;
    ibz_mat_4x4_t M, R;
    ibz_mat_2x2_t B2, R2;
    ibz_vec_2_t v2, w2, t2;
    quat_alg_elem_t el;
    quat_lattice_t lat;
    ibz_init(&q); ibz_init(&a); ibz_init(&b); ibz_init(&c); ibz_init(&d);
    ibz_init(&e); ibz_init(&f); ibz_init(&g); ibz_init(&r);
    ibz_mat_4x4_init(&M); ibz_mat_4x4_init(&R);
    ibz_mat_2x2_init(&B2); ibz_mat_2x2_init(&R2);
    ibz_vec_2_init(&v2); ibz_vec_2_init(&w2); ibz_vec_2_init(&t2);
    quat_alg_elem_init(&el);
    quat_lattice_init(&lat);
    printf("R ");
    if (!strcmp(op, "lll.run") && ntok == 19) {
        /* lll.run q denom B(16) -> ret [red(16)] */
        geti(&q, tok[1]);
        geti(&lat.denom, tok[2]);
        get_mat4(&lat.basis, 3);
        int ret = quat_lattice_lll(&R, &lat, &q);
        printf("%d", ret);
        if (ret == 0) {
            putsp();
            put_mat4(&R);
        }
    } else if (!strcmp(op, "lll.verify") && ntok == 20) {
        /* lll.verify q num den M(16): the library's own (test-only) rational checker quat_dim4_lll_verify */
        ibq_t coeff;
        ibq_init(&coeff);
        geti(&q, tok[1]); geti(&a, tok[2]); geti(&b, tok[3]);
        get_mat4(&M, 4);
        ibq_set(&coeff, &a, &b);
        printf("%d", quat_dim4_lll_verify(&M, &coeff, &q));
        ibq_finalize(&coeff);
    } else if (!strcmp(op, "d2.norm") && ntok == 4) {
        geti(&q, tok[1]); geti(&a, tok[2]); geti(&b, tok[3]);
        quat_dim2_lattice_norm(&r, &a, &b, &q);
        puti(&r);
    } else if (!strcmp(op, "d2.bil") && ntok == 6) {
        geti(&q, tok[1]); geti(&a, tok[2]); geti(&b, tok[3]); geti(&c, tok[4]); geti(&d, tok[5]);
        quat_dim2_lattice_bilinear(&r, &a, &b, &c, &d, &q);
        puti(&r);
    } else if (!strcmp(op, "d2.short") && ntok == 6) {
        geti(&q, tok[1]);
        get_mat2(&B2, 2);
        quat_dim2_lattice_short_basis(&R2, &B2, &q);
        put_mat2(&R2);
    } else if (!strcmp(op, "d2.coef") && ntok == 8) {
        geti(&q, tok[1]); geti(&a, tok[2]); geti(&b, tok[3]); geti(&c, tok[4]); geti(&d, tok[5]);
        geti(&e, tok[6]); geti(&f, tok[7]);
        quat_dim2_lattice_get_coefficient_with_orthogonalisation(&r, &a, &b, &c, &d, &e, &f, &q);
        puti(&r);
    } else if (!strcmp(op, "d2.cvp") && ntok == 8) {
        /* d2.cvp q B(4) t0 t1 -> tmc0 tmc1 c0 c1 */
        geti(&q, tok[1]);
        get_mat2(&B2, 2);
        geti(&t2[0], tok[6]); geti(&t2[1], tok[7]);
        quat_dim2_lattice_closest_vector(&v2, &w2, &B2, &t2, &q);
        puti(&v2[0]); putsp(); puti(&v2[1]); putsp(); puti(&w2[0]); putsp(); puti(&w2[1]);
    } else if (!strcmp(op, "d2.qf") && ntok == 6) {
        geti(&q, tok[1]);
        get_mat2(&B2, 2);
        quat_dim2_lattice_get_qf_on_lattice(&a, &b, &c, &B2, &q);
        puti(&a); putsp(); puti(&b); putsp(); puti(&c);
    } else if (!strcmp(op, "d2.bound") && ntok == 5) {
        geti(&a, tok[1]); geti(&b, tok[2]); geti(&c, tok[3]); geti(&d, tok[4]);
        ibz_set(&r, 0);
        int ok = quat_dim2_lattice_qf_value_bound_generation(&r, &a, &b, &c, &d);
        printf("%d", ok);
        if (ok) {
            putsp();
            puti(&r);
        }
    } else if (!strcmp(op, "d2.contains") && ntok == 7) {
        get_mat2(&B2, 1);
        geti(&a, tok[5]); geti(&b, tok[6]);
        printf("%d", quat_dim2_lattice_contains(&B2, &a, &b) ? 1 : 0);
    } else if (!strcmp(op, "d2.bac") && ntok == 12) {
        /* d2.bac q x y tmc0 tmc1 B(4) bound p -> ok [elem] */
        geti(&q, tok[1]); geti(&a, tok[2]); geti(&b, tok[3]);
        geti(&v2[0], tok[4]); geti(&v2[1], tok[5]);
        get_mat2(&B2, 6);
        geti(&c, tok[10]); geti(&d, tok[11]);
        int ok = quat_dim2_lattice_bound_and_condition(
            &el, &a, &b, quat_dim2_lattice_test_cvp_condition, &d, &v2, &B2, &q, &c);
        printf("%d", ok ? 1 : 0);
        if (ok) {
            putsp();
            put_elem(&el);
        }
    } else if (!strcmp(op, "d2.enum") && ntok == 11) {
        /* d2.enum q tmc0 tmc1 B(4) bound maxtries p -> found [elem] */
        geti(&q, tok[1]);
        geti(&v2[0], tok[2]); geti(&v2[1], tok[3]);
        get_mat2(&B2, 4);
        geti(&c, tok[8]);
        int maxtries = (int)strtol(tok[9], NULL, 16);
        geti(&d, tok[10]);
        int found = quat_dim2_lattice_qf_enumerate_short_vec(
            &el, quat_dim2_lattice_test_cvp_condition, &d, &v2, &B2, &q, &c, maxtries);
        printf("%d", found ? 1 : 0);
        if (found) {
            putsp();
            put_elem(&el);
        }
    } else if (!strcmp(op, "d2.enumeq") && ntok == 12) {
        /* d2.enumeq q tmc0 tmc1 B(4) bound maxtries v0 v1 -> found [elem]  (condition: vec == (v0,v1)) */
        ibz_t want[2];
        ibz_init(&want[0]); ibz_init(&want[1]);
        geti(&q, tok[1]);
        geti(&v2[0], tok[2]); geti(&v2[1], tok[3]);
        get_mat2(&B2, 4);
        geti(&c, tok[8]);
        int maxtries = (int)strtol(tok[9], NULL, 16);
        geti(&want[0], tok[10]); geti(&want[1], tok[11]);
        int found = quat_dim2_lattice_qf_enumerate_short_vec(&el, cond_eq, want, &v2, &B2, &q, &c, maxtries);
        printf("%d", found ? 1 : 0);
        if (found) {
            putsp();
            put_elem(&el);
        }
        ibz_finalize(&want[0]); ibz_finalize(&want[1]);
    } else if (!strcmp(op, "d2.filter") && ntok == 11) {
        /* d2.filter B(4) t0 t1 qf dist_bound p max_tries -> found [elem] */
        get_mat2(&B2, 1);
        geti(&t2[0], tok[5]); geti(&t2[1], tok[6]);
        unsigned int qf = (unsigned int)strtoul(tok[7], NULL, 16);
        unsigned int db = (unsigned int)strtoul(tok[8], NULL, 16);
        geti(&d, tok[9]);
        unsigned int mt = (unsigned int)strtoul(tok[10], NULL, 16);
        int found = quat_2x2_lattice_enumerate_cvp_filter(
            &el, &B2, &t2, qf, db, quat_dim2_lattice_test_cvp_condition, &d, mt);
        printf("%d", found ? 1 : 0);
        if (found) {
            putsp();
            put_elem(&el);
        }
    } else if (!strcmp(op, "gen.ideal") && ntok == 4) {
        /* gen.ideal seed kind arg -> norm | lattice ; kind 0: random 2^arg ideal of O0; kind 1: random ideal of
           prime norm arg (sampling_random_ideal_O0); kind 2: O0*gamma + O0*arg with random small gamma */
        quat_left_ideal_t I;
        quat_left_ideal_init(&I);
        reseed(tok[1]);
        int kind = (int)strtol(tok[2], NULL, 16);
        geti(&a, tok[3]);
        if (kind == 0) {
            quat_lideal_random_2e(&I, &MAXORD_O0, &QUATALG_PINFTY, (int64_t)ibz_get(&a), 4);
        } else if (kind == 1) {
            sampling_random_ideal_O0(&I, &a, 1);
        } else {
            quat_alg_elem_t gam;
            quat_alg_elem_init(&gam);
            do {
                for (int i = 0; i < 4; i++)
                    ibz_rand_interval_minm_m(&gam.coord[i], (int64_t)1 << 40);
                ibz_set(&gam.denom, 1);
            } while (ibz_is_zero(&gam.coord[0]) && ibz_is_zero(&gam.coord[1]) && ibz_is_zero(&gam.coord[2]) &&
                     ibz_is_zero(&gam.coord[3]));
            quat_lideal_make_primitive_then_create(&I, &gam, &a, &MAXORD_O0, &QUATALG_PINFTY);
            quat_alg_elem_finalize(&gam);
        }
        puti(&I.norm);
        printf(" | ");
        put_lat(&I.lattice);
        quat_left_ideal_finalize(&I);
    } else if (!strcmp(op, "gen.signlat") && ntok == 3) {
        /* gen.signlat seed e -> content | lattice : the lattice handed to sample_response by protocols_sign:
           (I_secret ∩ I_chall) ∩ conj(I_commit), I_secret / I_commit random of prime norm ~ p, I_chall random 2^e */
        quat_left_ideal_t Is, Ic, I2, Ics;
        quat_lattice_t conj;
        quat_left_ideal_init(&Is); quat_left_ideal_init(&Ic); quat_left_ideal_init(&I2); quat_left_ideal_init(&Ics);
        quat_lattice_init(&conj);
        reseed(tok[1]);
        int ee = (int)strtol(tok[2], NULL, 16);
        generate_random_prime(&a, 1, ibz_bitsize(&QUATALG_PINFTY.p));
        sampling_random_ideal_O0(&Is, &a, 1);
        generate_random_prime(&b, 1, ibz_bitsize(&QUATALG_PINFTY.p));
        sampling_random_ideal_O0(&Ic, &b, 1);
        quat_lideal_random_2e(&I2, &MAXORD_O0, &QUATALG_PINFTY, ee, 4);
        quat_lideal_inter(&Ics, &I2, &Is, &QUATALG_PINFTY);
        /* quat_lideal_conjugate_lattice of sign.c (static-free copy): negate rows 1..3 */
        ibz_mat_4x4_copy(&conj.basis, &Ic.lattice.basis);
        ibz_copy(&conj.denom, &Ic.lattice.denom);
        for (int row = 1; row < 4; ++row)
            for (int col = 0; col < 4; ++col)
                ibz_neg(&conj.basis[row][col], &conj.basis[row][col]);
        quat_lattice_intersect(&lat, &Ics.lattice, &conj);
        ibz_mul(&c, &Ics.norm, &Ic.norm);
        puti(&c);
        printf(" | ");
        put_lat(&lat);
        quat_left_ideal_finalize(&Is); quat_left_ideal_finalize(&Ic); quat_left_ideal_finalize(&I2);
        quat_left_ideal_finalize(&Ics);
        quat_lattice_finalize(&conj);
    } else if (!strcmp(op, "resp.sample") && ntok == 20) {
        /* resp.sample seed content denom B(16)
           -> x(denom c0..c3) | p resp_len | lll(16) | fzi bb(4) | cand(50*4)
           x from the real sample_response; lll from the real quat_lattice_lll on the same input; the candidate
           draws are replayed from the same PRNG state with the b_bound mirror below (compared with the model). */
        ibz_mat_4x4_t gram, prod;
        ibz_vec_4_t bb, vec;
        ibz_t bound, dg, nrm;
        ibz_mat_4x4_init(&gram); ibz_mat_4x4_init(&prod);
        ibz_vec_4_init(&bb); ibz_vec_4_init(&vec);
        ibz_init(&bound); ibz_init(&dg); ibz_init(&nrm);
        geti(&c, tok[2]);
        geti(&lat.denom, tok[3]);
        get_mat4(&lat.basis, 4);
        reseed(tok[1]);
        sample_response(&el, &lat, &c, 0);
        put_elem(&el);
        printf(" | ");
        puti(&QUATALG_PINFTY.p);
        printf(" %x | ", (unsigned)SQIsign2D_response_length);
        int err = quat_lattice_lll(&R, &lat, &(QUATALG_PINFTY.p));
        if (err) {
            printf("lllfail");
        } else {
            put_mat4(&R);
            /* mirror of the bound computation (checked against the model, which prints the same numbers) */
            ibz_mat_4x4_transpose(&prod, &R);
            ibz_mat_4x4_mul(&prod, &prod, &(QUATALG_PINFTY.gram));
            ibz_mat_4x4_mul(&gram, &prod, &R);
            ibz_mul(&dg, &lat.denom, &lat.denom);
            ibz_mul(&dg, &dg, &c);
            ibz_div_2exp(&dg, &dg, 1);
            ibz_mat_4x4_scalar_div(&gram, &dg, &gram);
            ibz_pow(&bound, &ibz_const_two, SQIsign2D_response_length);
            int fzi = -1;
            for (int j = 0; j < 4; j++) {
                ibz_copy(&bb[j], &gram[j][j]);
                ibz_div_2exp(&bb[j], &bb[j], 1);
                ibz_div(&bb[j], &nrm, &bound, &bb[j]);
                ibz_sqrt_floor(&bb[j], &bb[j]);
                if (fzi == -1 && ibz_cmp(&bb[j], &ibz_const_zero) == 0)
                    fzi = j;
            }
            if (fzi == -1)
                fzi = 4;
            printf(" | %x", fzi);
            for (int j = 0; j < 4; j++) {
                putsp();
                puti(&bb[j]);
            }
            printf(" |");
            reseed(tok[1]);
            for (int count = 0; count < 50; count++) {
                for (int i = 0; i < fzi; i++)
                    ibz_rand_interval_minm_m(&vec[i], ibz_get(&bb[i]));
                for (int i = fzi; i < 4; i++)
                    ibz_set(&vec[i], 0);
                for (int i = 0; i < 4; i++) {
                    putsp();
                    puti(&vec[i]);
                }
            }
        }
        ibz_mat_4x4_finalize(&gram); ibz_mat_4x4_finalize(&prod);
        ibz_vec_4_finalize(&bb); ibz_vec_4_finalize(&vec);
        ibz_finalize(&bound); ibz_finalize(&dg); ibz_finalize(&nrm);
    } else {
        printf("bad-op");
    }
    printf("\n");
    fflush(stdout);
    ibz_finalize(&q); ibz_finalize(&a); ibz_finalize(&b); ibz_finalize(&c); ibz_finalize(&d);
    ibz_finalize(&e); ibz_finalize(&f); ibz_finalize(&g); ibz_finalize(&r);
    ibz_mat_4x4_finalize(&M); ibz_mat_4x4_finalize(&R);
    ibz_mat_2x2_finalize(&B2); ibz_mat_2x2_finalize(&R2);
    ibz_vec_2_finalize(&v2); ibz_vec_2_finalize(&w2); ibz_vec_2_finalize(&t2);
    quat_alg_elem_finalize(&el);
    quat_lattice_finalize(&lat);
}

static void
tokenize(char *line, int start)
{
    ntok = 0;
    char *save = NULL;
    for (char *t = strtok_r(line, " \t\r\n", &save); t && ntok < MAXTOK; t = strtok_r(NULL, " \t\r\n", &save)) {
        if (start > 0) {
            start--;
            continue;
        }
        tok[ntok++] = t;
    }
}

int
main(void)
{
    char *line = NULL;
    size_t cap = 0;
    ssize_t n;
    while ((n = getline(&line, &cap, stdin)) > 0) {
        if (line[0] == '!') {
            /* "! T op args" : forked, with alarm(T) */
            char *copy = strdup(line);
            tokenize(copy, 0);
            unsigned secs = (ntok >= 2) ? (unsigned)strtoul(tok[1], NULL, 10) : 10;
            free(copy);
            fflush(stdout);
            pid_t pid = fork();
            if (pid == 0) {
                /* never outlive the driver: die with the parent, and in any case after the alarm */
                prctl(PR_SET_PDEATHSIG, SIGKILL);
                if (getppid() == 1)
                    _exit(0);
                alarm(secs ? secs : 10);
                tokenize(line, 2);
                if (ntok == 0)
                    printf("R bad-op\n");
                else
                    do_op();
                fflush(stdout);
                _exit(0);
            }
            int st = 0;
            waitpid(pid, &st, 0);
            if (WIFSIGNALED(st)) {
                /* the child may have printed "R " already without newline: terminate that line */
                if (WTERMSIG(st) == SIGALRM)
                    printf("\nR timeout\n");
                else
                    printf("\nR crash %d\n", WTERMSIG(st));
                fflush(stdout);
            }
            continue;
        }
        tokenize(line, 0);
        if (ntok == 0) {
            printf("R bad-op\n");
            fflush(stdout);
            continue;
        }
        do_op();
    }
    free(line);
    return 0;
}

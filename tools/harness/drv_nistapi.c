/* drv_nistapi.c — calls the NIST-style entry points declared in include/sig.h (src/sqisign.c) on arbitrary
 * buffers and prints their return values ("R <name> <ret>"); 0 means success by the API convention. */
#include <sig.h>
#include <stdio.h>
#include <string.h>

int main(void)
{
    static unsigned char pk[1 << 12], sk[1 << 14], m[64], sm[1 << 14], out[1 << 14];
    unsigned long long smlen = 0, mlen = 0;
    memset(pk, 0xA5, sizeof pk); memset(sk, 0x5A, sizeof sk); memset(m, 7, sizeof m); memset(sm, 0xC3, sizeof sm);
    printf("\nR sqisign_keypair %d\n", sqisign_keypair(pk, sk) != 0);
    printf("\nR sqisign_sign %d\n", sqisign_sign(sm, &smlen, m, sizeof m, sk) != 0);
    memset(sm, 0xC3, sizeof sm);
    printf("\nR sqisign_open %d\n", sqisign_open(out, &mlen, sm, 4096, pk) != 0);
    printf("\nR sqisign_verify %d\n", sqisign_verify(m, sizeof m, sm, 1024, pk) != 0);
    return 0;
}

/* C11 correspondence driver: Weil pairing, dlog in mu_{2^e}, matrix application / change of basis.
 * ops (integers hex; results "R ..."):
 *   walk s1 [s2 ...] | setcurve Are Aim Cre Cim           -> R Are Aim Cre Cim     (as drv_basis)
 *   basis e                 B := ec_curve_to_basis_2f(E, e) -> R P Q PmQ            (affine x: re im each)
 *   weilab e a b c d sa sb  U = aP+bQ, V = cP+dQ, U-V = sa P + sb Q (caller passes sa = a-c, sb = b-d mod 2^e);
 *                           weil(e, U, V, U-V)              -> R re im zU zV zD     (z* = 1 if that point is O)
 *   dlog e fre fim gre gim  fp2_dlog_2e(f, g, e)            -> R ok a | R fail
 *   applycob e a b c d      B1 := matrix_application_even_basis(B, [[a,b],[c,d]]); change_of_basis_matrix_two(B1, B)
 *                                                           -> R m00 m01 m10 m11 | P1 Q1 PmQ1   (signed hex; affine x of B1)
 */
#include "a9_io.h"
#include <endomorphism_action.h>
#include <ec_params.h>
#include <biextension.h>
#include <quaternion.h>
#include <id2iso.h>
#include <gmp.h>

extern bool fp2_dlog_2e(digit_t *scal, const fp2_t *f, const fp2_t *g, int e);

static ec_curve_t cur;
static ec_basis_t B;
static int have_B = 0;

static void print_curve(void)
{
    printf("R"); a9_print_fp2(&cur.A); a9_print_fp2(&cur.C); printf("\n");
}

static void print_ibz(const ibz_t *x)
{
    gmp_printf(" %Zx", *x);
}

static int ibz_from_shex(ibz_t *x, const char *s)
{
    int neg = s[0] == '-';
    if (ibz_set_from_str(x, s + neg, 16) != 1) return 0;
    if (neg) ibz_neg(x, x);
    return 1;
}

int main(void)
{
    char line[1 << 16];
    char *t[64];
    copy_curve(&cur, &CURVE_E0);
    while (fgets(line, sizeof line, stdin)) {
        int n = a9_split(line, t, 64);
        if (n == 0) { printf("R bad-op\n"); continue; }
        if (!strcmp(t[0], "walk")) {
            ec_curve_t E; ec_basis_t W;
            copy_curve(&E, &CURVE_E0);
            W = BASIS_EVEN;
            int ok = 1;
            for (int i = 1; i < n && ok; i++) {
                digit_t s[NWORDS_ORDER] = { 0 };
                if (!a9_digits_from_hex(s, NWORDS_ORDER, t[i])) { ok = 0; break; }
                ec_isog_even_t phi;
                ec_curve_normalize_A24(&E);
                phi.curve = E;
                phi.length = POWER_OF_2;
                ec_ladder3pt(&phi.kernel, s, &W.P, &W.Q, &W.PmQ, &E);
                ec_curve_t img; ec_point_t dummy = W.Q;
                ec_eval_even(&img, &phi, &dummy, 1);
                ec_curve_init(&E);
                E.A = img.A; E.C = img.C;
                if (i + 1 < n) ec_curve_to_basis_2(&W, &E, POWER_OF_2);
            }
            if (!ok) { printf("R bad-op\n"); continue; }
            ec_curve_init(&cur); cur.A = E.A; cur.C = E.C;
            have_B = 0;
            print_curve();
        } else if (!strcmp(t[0], "setcurve") && n == 5) {
            ec_curve_init(&cur);
            if (!a9_fp2_from_hex(&cur.A, t[1], t[2]) || !a9_fp2_from_hex(&cur.C, t[3], t[4])) { printf("R bad-op\n"); continue; }
            have_B = 0;
            print_curve();
        } else if (!strcmp(t[0], "basis") && n == 2) {
            int e = (int)a9_parse_long(t[1]);
            ec_curve_to_basis_2f(&B, &cur, e);
            have_B = 1;
            printf("R"); a9_print_affx(&B.P); a9_print_affx(&B.Q); a9_print_affx(&B.PmQ); printf("\n");
        } else if (!strcmp(t[0], "weilab") && n == 8 && have_B) {
            int e = (int)a9_parse_long(t[1]);
            digit_t s[6][NWORDS_ORDER];
            int ok = 1;
            for (int i = 0; i < 6; i++) { memset(s[i], 0, sizeof s[i]); ok &= a9_digits_from_hex(s[i], NWORDS_ORDER, t[2 + i]); }
            if (!ok) { printf("R bad-op\n"); continue; }
            ec_point_t U, V, D, AC, A24;
            ec_biscalar_mul(&U, &cur, s[0], s[1], &B);
            ec_biscalar_mul(&V, &cur, s[2], s[3], &B);
            ec_biscalar_mul(&D, &cur, s[4], s[5], &B);
            int zU = ec_is_zero(&U), zV = ec_is_zero(&V), zD = ec_is_zero(&D);
            fp2_copy(&AC.x, &cur.A); fp2_copy(&AC.z, &cur.C);
            A24_from_AC(&A24, &AC);
            fp2_t r;
            weil(&r, e, &U, &V, &D, &A24);
            printf("R"); a9_print_fp2(&r); printf(" %d %d %d\n", zU, zV, zD);
        } else if (!strcmp(t[0], "dlog") && n == 6) {
            int e = (int)a9_parse_long(t[1]);
            fp2_t f, g;
            if (!a9_fp2_from_hex(&f, t[2], t[3]) || !a9_fp2_from_hex(&g, t[4], t[5])) { printf("R bad-op\n"); continue; }
            digit_t a[NWORDS_ORDER] = { 0 };
            bool ok = fp2_dlog_2e(a, &f, &g, e);
            if (ok) { printf("R ok "); a9_print_digits(a, NWORDS_ORDER); printf("\n"); }
            else printf("R fail\n");
        } else if (!strcmp(t[0], "applycob") && n == 6 && have_B) {
            int e = (int)a9_parse_long(t[1]);
            ibz_mat_2x2_t M, out;
            ibz_mat_2x2_init(&M); ibz_mat_2x2_init(&out);
            int ok = ibz_from_shex(&M[0][0], t[2]) && ibz_from_shex(&M[0][1], t[3]) && ibz_from_shex(&M[1][0], t[4]) && ibz_from_shex(&M[1][1], t[5]);
            if (!ok) { printf("R bad-op\n"); continue; }
            ec_basis_t B1 = B, B2 = B;
            ec_curve_t E1, E2;
            ec_curve_init(&E1); E1.A = cur.A; E1.C = cur.C; ec_curve_normalize_A24(&E1);
            ec_curve_init(&E2); E2.A = cur.A; E2.C = cur.C; ec_curve_normalize_A24(&E2);
            matrix_application_even_basis(&B1, &E1, &M, e);
            ec_basis_t B1c = B1;
            change_of_basis_matrix_two(&out, &B1, &B2, &E2, e);
            printf("R"); print_ibz(&out[0][0]); print_ibz(&out[0][1]); print_ibz(&out[1][0]); print_ibz(&out[1][1]);
            printf(" |"); a9_print_affx(&B1c.P); a9_print_affx(&B1c.Q); a9_print_affx(&B1c.PmQ);
            /* the same round trip with the caller's curve struct in other states of its A24 cache (results must not depend on it):
               1 fresh init + (A, C) only; 2 projective rescaling (lA : lC), fresh; 3 flag clear, stale A24 content; 4 the constant CURVE_E0 */
            for (int st = 1; st <= 4; st++) {
                ec_curve_t Ea, Eb;
                ec_curve_init(&Ea); ec_curve_init(&Eb);
                Ea.A = cur.A; Ea.C = cur.C; Eb.A = cur.A; Eb.C = cur.C;
                if (st == 2) {
                    fp2_t l; fp2_set_small(&l, 7); fp_set_small(&l.im, 3);
                    fp2_mul(&Ea.A, &cur.A, &l); fp2_mul(&Ea.C, &cur.C, &l); Eb.A = Ea.A; Eb.C = Ea.C;
                } else if (st == 3) {
                    Ea.A24.x = cur.C; Ea.A24.z = B.P.x; Eb.A24 = Ea.A24;
                } else if (st == 4) {
                    if (!(fp2_is_zero(&cur.A) && fp2_is_one(&cur.C))) continue;
                    Ea = CURVE_E0; Eb = CURVE_E0;
                }
                ec_basis_t Ba = B, Bb = B;
                ibz_mat_2x2_t Ms, outs; ibz_mat_2x2_init(&Ms); ibz_mat_2x2_init(&outs);
                ibz_from_shex(&Ms[0][0], t[2]); ibz_from_shex(&Ms[0][1], t[3]); ibz_from_shex(&Ms[1][0], t[4]); ibz_from_shex(&Ms[1][1], t[5]);
                matrix_application_even_basis(&Ba, &Ea, &Ms, e);
                int sameapp = ec_is_equal(&Ba.P, &B1c.P) && ec_is_equal(&Ba.Q, &B1c.Q) && ec_is_equal(&Ba.PmQ, &B1c.PmQ);
                change_of_basis_matrix_two(&outs, &Ba, &Bb, &Eb, e);
                printf(" | s%d %d", st, sameapp); print_ibz(&outs[0][0]); print_ibz(&outs[0][1]); print_ibz(&outs[1][0]); print_ibz(&outs[1][1]);
                ibz_mat_2x2_finalize(&Ms); ibz_mat_2x2_finalize(&outs);
            }
            printf("\n");
            ibz_mat_2x2_finalize(&M); ibz_mat_2x2_finalize(&out);
        } else
            printf("R bad-op\n");
        fflush(stdout);
    }
    return 0;
}

/* Signer-side probe driver (C04 / C01 / C05). One process = one key-generation + a history of
 * sign / verify calls, driven by op lines on stdin; result lines are tagged "R " and flushed at once,
 * so the last op echoed before a sanitizer abort / signal is the crashing op.
 *
 * compile with -DVERIF_VARIANT=0 (sqisigndim2), 1 (sqisigndim2_heuristic), 2 (sqisignhd)
 *
 * ops:
 *   seed <n>                    randombytes_init with the 48-byte expansion of n (AES-CTR-DRBG of common_test)
 *   setenv <NAME> <VALUE> | unsetenv <NAME>
 *   keygen                      -> R keygen ok hint_pk=<a>,<b>
 *   msg <len> <mseed>           message = <len> bytes of splitmix64(mseed)
 *   signsteer <max> <len> <ms>  like sign, over messages ms, ms+1, .. until the H1 steering is met (ret != -1)
 *   sign                        -> R sign ret=<r> v2=<two_resp_length> bt=<backtracking> hb=<chall_b|hint_b> hints=..
 *   verify                      -> R verify <0|1>         (last signature, current message, own public key)
 *   verify_msg <len> <mseed>    -> R verify_msg <0|1>     (last signature against another message)
 *   verify_flip                 -> R verify_flip <0|1>    (last signature, current message with one bit flipped)
 *   otherkey                    generate a second key pair (pk2)
 *   verify_pk2                  -> R verify_pk2 <0|1>     (last signature, current message, other public key)
 *   tamper <field> <delta>      modify the last signature (field names below) -> R tamper ok
 *   restore                     undo all tampering (restores the saved signature)
 *   siginfo                     dim2 only: -> R sig chall_b chall_coeff m00 m01 m10 m11 (hex)
 *   encinfo                     heuristic only: -> R enc f a n x b0 d0 b1 d1 c0 e0 hb   (hex)
 *   fixeddeg <small> <u hex>    -> R fixeddeg ret=<r>     (direct call of fixed_degree_isogeny)
 *   tav <x>                     -> R tav <two_adic_valuation((int)x)>   (x decimal int64)
 */
#include <stdio.h>
#include <stdlib.h>
#include <string.h>
#include <stdint.h>
#if VERIF_VARIANT == 0
#include <sqisigndim2.h>
#elif VERIF_VARIANT == 1
#include <sqisigndim2_heuristic.h>
#else
#include <sqisignhd.h>
#endif
#include <tools.h>
#include <rng.h>

static uint64_t sm_state;
static uint64_t
sm_next(void)
{
    uint64_t z = (sm_state += 0x9E3779B97F4A7C15ULL);
    z = (z ^ (z >> 30)) * 0xBF58476D1CE4E5B9ULL;
    z = (z ^ (z >> 27)) * 0x94D049BB133111EBULL;
    return z ^ (z >> 31);
}

static unsigned char *msg = NULL;
static size_t msglen = 0;

static void
set_msg(unsigned char **m, size_t *l, size_t len, uint64_t seed)
{
    free(*m);
    *m = malloc(len + 1);
    *l = len;
    sm_state = seed;
    for (size_t i = 0; i < len; i++)
        (*m)[i] = (unsigned char)(sm_next() & 0xff);
}

static public_key_t pk, pk2;
static secret_key_t sk, sk2;
static signature_t sig, saved;
static int have_saved = 0;

#if VERIF_VARIANT == 0
/* ---- verifier taps (hook H4 of protocols_verif): values collected during the last `verify` op */
static struct {
    int have_chall, have_ker, have_e1, have_e2, have_t, have_com, have_chk;
    ec_curve_t Echall, E1, E2, Ecom;
    int chall_len, ker_len, pow;
    ec_point_t ker;
    theta_couple_point_t T1, T2, T1m2;
    char chk[2][1024];
} vt;

static void
vtap_cb(const char *tag, const void *obj, int val)
{
    if (!strcmp(tag, "E_chall")) { vt.Echall = *(const ec_curve_t *)obj; vt.chall_len = val; vt.have_chall = 1; }
    else if (!strcmp(tag, "small_ker")) { vt.ker = *(const ec_point_t *)obj; vt.ker_len = val; vt.have_ker = 1; }
    else if (!strcmp(tag, "E1")) { vt.E1 = *(const ec_curve_t *)obj; vt.have_e1 = 1; }
    else if (!strcmp(tag, "E2")) { vt.E2 = *(const ec_curve_t *)obj; vt.have_e2 = 1; }
    else if (!strcmp(tag, "T1")) { vt.T1 = *(const theta_couple_point_t *)obj; vt.pow = val; vt.have_t |= 1; }
    else if (!strcmp(tag, "T2")) { vt.T2 = *(const theta_couple_point_t *)obj; vt.have_t |= 2; }
    else if (!strcmp(tag, "T1m2")) { vt.T1m2 = *(const theta_couple_point_t *)obj; vt.have_t |= 4; }
    else if (!strcmp(tag, "E_com")) { vt.Ecom = *(const ec_curve_t *)obj; vt.have_com = 1; }
    else if (!strcmp(tag, "check_chall")) {
        const ibz_vec_2_t *v = (const ibz_vec_2_t *)obj;
        gmp_snprintf(vt.chk[0], sizeof vt.chk[0], "%Zx", (*v)[0]);
        gmp_snprintf(vt.chk[1], sizeof vt.chk[1], "%Zx", (*v)[1]);
        vt.have_chk = 1;
    }
}

static void
out_fp2(const char *name, const fp2_t *x)
{
    unsigned char buf[FP2_ENCODED_BYTES];
    fp2_encode(buf, x);
    printf(" %s=", name);
    for (int i = 0; i < FP2_ENCODED_BYTES; i++)
        printf("%02x", buf[i]);
}
static void
out_j(const char *name, const ec_curve_t *E)
{
    fp2_t j;
    ec_curve_t c = *E;
    ec_j_inv(&j, &c);
    out_fp2(name, &j);
}
static void
out_x(const char *name, const ec_point_t *P)
{
    fp2_t t;
    fp2_copy(&t, &P->z);
    fp2_inv(&t);
    fp2_mul(&t, &t, &P->x);
    out_fp2(name, &t);
}

/* after a verify: report the tapped values and what the bookkeeping model needs, recomputed with the library:
   the canonical basis of E_chall with the matrix applied (must be the signer's final basis), which of its two points
   gives the tapped kernel of the small chain, exact orders of everything, and the challenge kernel computed the
   signer's way (biscalar multiplication by (1, chall_coeff)) against the verifier's ladder */
static int ord2(const ec_point_t *P, const ec_curve_t *E, int t) { ec_curve_t c = *E; return test_point_order_twof(P, &c, t) ? 1 : 0; }
static int eq2(const ec_point_t *P, const ec_point_t *Q) { return ec_is_equal(P, Q) ? 1 : 0; }

static void
report_vtap(void)
{
    printf("R vtap have=%d%d%d%d%d%d%d", vt.have_chall, vt.have_ker, vt.have_e1, vt.have_e2, vt.have_t == 7, vt.have_com, vt.have_chk);
    if (!(vt.have_chall && vt.have_e1 && vt.have_e2 && vt.have_t == 7 && vt.have_com && vt.have_chk)) {
        printf("\n");
        return;
    }
    int v = sig.two_resp_length, pow = vt.pow, n = pow + 2 + v;
    printf(" challlen=%d pow=%d kerlen=%d", vt.chall_len, pow, vt.have_ker ? vt.ker_len : -1);
    out_j("jchall", &vt.Echall);
    out_j("je1", &vt.E1);
    out_j("je2", &vt.E2);
    out_j("jcom", &vt.Ecom);
    printf(" chk=%s,%s", vt.chk[0], vt.chk[1]);
    /* recomputed applied basis on E_chall */
    ec_basis_t B;
    ec_curve_t Ec = vt.Echall;
    ibz_mat_2x2_t m;
    ibz_mat_2x2_init(&m);
    ibz_mat_2x2_copy(&m, &sig.mat_Bchall_can_to_B_chall);
    ec_curve_to_basis_2f_from_hint(&B, &Ec, n, sig.hint_chall);
    matrix_application_even_basis(&B, &Ec, &m, n);
    out_x("xP", &B.P);
    out_x("xQ", &B.Q);
    out_x("xPmQ", &B.PmQ);
    /* orders of the applied basis points (exact 2^n ?) */
    printf(" ordP=%d ordQ=%d", ord2(&B.P, &Ec, n), ord2(&B.Q, &Ec, n));
    if (v == 0) {
        printf(" eqT=%d%d%d", eq2(&vt.T1.P1, &B.P), eq2(&vt.T2.P1, &B.Q), eq2(&vt.T1m2.P1, &B.PmQ));
        printf(" kercol=- kerord=-");
    } else {
        ec_point_t kp = B.P, kq = B.Q;
        ec_dbl_iter(&kp, pow + 2, &Ec, &kp);
        ec_dbl_iter(&kq, pow + 2, &Ec, &kq);
        int cp = vt.have_ker && eq2(&kp, &vt.ker), cq = vt.have_ker && eq2(&kq, &vt.ker);
        printf(" eqT=---");
        printf(" kercol=%s kerord=%d", cp ? "0" : cq ? "1" : "none", vt.have_ker ? ord2(&vt.ker, &Ec, v) : -1);
    }
    /* exact orders 2^(pow+2) of the six kernel components used by the (2,2)-chain */
    ec_curve_t e1 = vt.E1, e2 = vt.E2;
    printf(" ord=%d%d%d%d%d%d", ord2(&vt.T1.P1, &e1, pow + 2), ord2(&vt.T2.P1, &e1, pow + 2),
           ord2(&vt.T1m2.P1, &e1, pow + 2), ord2(&vt.T1.P2, &e2, pow + 2),
           ord2(&vt.T2.P2, &e2, pow + 2), ord2(&vt.T1m2.P2, &e2, pow + 2));
    /* challenge kernel: signer's way vs verifier's way on the canonical basis of the public key */
    {
        ec_basis_t bpk;
        ec_curve_t Epk = pk.curve;
        ec_point_t ks, kv;
        ibz_t one;
        digit_t scal[NWORDS_ORDER] = { 0 };
        ibz_init(&one);
        ibz_set(&one, 1);
        ec_curve_to_basis_2f_from_hint(&bpk, &Epk, TORSION_PLUS_EVEN_POWER, pk.hint_pk);
        ec_biscalar_mul_ibz(&ks, &Epk, &one, &sig.chall_coeff, &bpk, TORSION_PLUS_EVEN_POWER);
        ibz_to_digit_array(scal, &sig.chall_coeff);
        ec_ladder3pt(&kv, scal, &bpk.P, &bpk.Q, &bpk.PmQ, &Epk);
        printf(" kerpk=%d kerpkord=%d", eq2(&ks, &kv), ord2(&kv, &Epk, TORSION_PLUS_EVEN_POWER));
        ibz_finalize(&one);
    }
    printf("\n");
    ibz_mat_2x2_finalize(&m);
}
#endif


static void
sig_copy(signature_t *d, const signature_t *s)
{
#if VERIF_VARIANT == 0
    d->E_aux = s->E_aux;
    d->backtracking = s->backtracking;
    d->two_resp_length = s->two_resp_length;
    ibz_mat_2x2_copy(&d->mat_Bchall_can_to_B_chall, &s->mat_Bchall_can_to_B_chall);
    ibz_copy(&d->chall_coeff, &s->chall_coeff);
    d->chall_b = s->chall_b;
    d->hint_aux[0] = s->hint_aux[0];
    d->hint_aux[1] = s->hint_aux[1];
    d->hint_chall[0] = s->hint_chall[0];
    d->hint_chall[1] = s->hint_chall[1];
#else
#if VERIF_VARIANT == 1
    d->E_aux = s->E_aux;
    d->hint_aux[0] = s->hint_aux[0];
    d->hint_aux[1] = s->hint_aux[1];
#else
    d->E_com = s->E_com;
    d->hint_com[0] = s->hint_com[0];
    d->hint_com[1] = s->hint_com[1];
#endif
    d->two_resp_length = s->two_resp_length;
    d->hint_b = s->hint_b;
    ibz_copy(&d->x, &s->x);
    ibz_copy(&d->b0, &s->b0);
    ibz_copy(&d->d0, &s->d0);
    ibz_copy(&d->b1, &s->b1);
    ibz_copy(&d->d1, &s->d1);
    ibz_copy(&d->c0_adjust, &s->c0_adjust);
    ibz_copy(&d->e0_adjust, &s->e0_adjust);
#endif
}

static void
add_small(ibz_t *x, long delta)
{
    ibz_t t;
    ibz_init(&t);
    ibz_set(&t, delta);
    ibz_add(x, x, &t);
    ibz_finalize(&t);
}

/* returns 1 if the field exists */
static int
tamper(const char *field, long delta)
{
    fp_t one;
    fp_set_one(&one);
#if VERIF_VARIANT == 0
    if (!strcmp(field, "backtracking")) { sig.backtracking += (int)delta; return 1; }
    if (!strcmp(field, "two_resp_length")) { sig.two_resp_length += (int)delta; return 1; }
    if (!strcmp(field, "chall_b")) { sig.chall_b ^= 1; return 1; }
    if (!strcmp(field, "chall_coeff")) { add_small(&sig.chall_coeff, delta); return 1; }
    if (!strcmp(field, "mat00")) { add_small(&sig.mat_Bchall_can_to_B_chall[0][0], delta); return 1; }
    if (!strcmp(field, "mat01")) { add_small(&sig.mat_Bchall_can_to_B_chall[0][1], delta); return 1; }
    if (!strcmp(field, "mat10")) { add_small(&sig.mat_Bchall_can_to_B_chall[1][0], delta); return 1; }
    if (!strcmp(field, "mat11")) { add_small(&sig.mat_Bchall_can_to_B_chall[1][1], delta); return 1; }
    if (!strcmp(field, "hint_aux0")) { sig.hint_aux[0] += (int)delta; return 1; }
    if (!strcmp(field, "hint_aux1")) { sig.hint_aux[1] += (int)delta; return 1; }
    if (!strcmp(field, "hint_chall0")) { sig.hint_chall[0] += (int)delta; return 1; }
    if (!strcmp(field, "hint_chall1")) { sig.hint_chall[1] += (int)delta; return 1; }
    if (!strcmp(field, "E_aux")) { for (long i = 0; i < delta; i++) fp_add(&sig.E_aux.A.re, &sig.E_aux.A.re, &one); sig.E_aux.is_A24_computed_and_normalized = 0; return 1; }
#elif VERIF_VARIANT == 1
    if (!strcmp(field, "two_resp_length")) { sig.two_resp_length += (int)delta; return 1; }
    if (!strcmp(field, "hint_b")) { sig.hint_b ^= 1; return 1; }
    if (!strcmp(field, "x")) { add_small(&sig.x, delta); return 1; }
    if (!strcmp(field, "b0")) { add_small(&sig.b0, delta); return 1; }
    if (!strcmp(field, "d0")) { add_small(&sig.d0, delta); return 1; }
    if (!strcmp(field, "b1")) { add_small(&sig.b1, delta); return 1; }
    if (!strcmp(field, "d1")) { add_small(&sig.d1, delta); return 1; }
    if (!strcmp(field, "c0_adjust")) { add_small(&sig.c0_adjust, delta); return 1; }
    if (!strcmp(field, "e0_adjust")) { add_small(&sig.e0_adjust, delta); return 1; }
    if (!strcmp(field, "hint_aux0")) { sig.hint_aux[0] += (int)delta; return 1; }
    if (!strcmp(field, "hint_aux1")) { sig.hint_aux[1] += (int)delta; return 1; }
    if (!strcmp(field, "E_aux")) { for (long i = 0; i < delta; i++) fp_add(&sig.E_aux.A.re, &sig.E_aux.A.re, &one); sig.E_aux.is_A24_computed_and_normalized = 0; return 1; }
    if (!strcmp(field, "E_aux_pk")) { sig.E_aux = pk.curve; sig.E_aux.is_A24_computed_and_normalized = 0; return 1; }
    if (!strcmp(field, "zero_matrix")) {
        ibz_set(&sig.b0, 0); ibz_set(&sig.d0, 0); ibz_set(&sig.b1, 0); ibz_set(&sig.d1, 0);
        ibz_set(&sig.c0_adjust, 0); ibz_set(&sig.e0_adjust, 0);
        return 1;
    }
#endif
    (void)delta;
    return 0;
}

int
main(void)
{
    char line[512], a[128], b[256];
    long long n1, n2;
    setvbuf(stdout, NULL, _IOLBF, 0);
    public_key_init(&pk);
    secret_key_init(&sk);
    public_key_init(&pk2);
    secret_key_init(&sk2);
    secret_sig_init(&sig);
    secret_sig_init(&saved);
    set_msg(&msg, &msglen, 32, 0);
    while (fgets(line, sizeof line, stdin)) {
        if (sscanf(line, "seed %lld", &n1) == 1) {
            unsigned char s48[48];
            sm_state = (uint64_t)n1 ^ 0x5851F42D4C957F2DULL;
            for (int i = 0; i < 48; i++)
                s48[i] = (unsigned char)(sm_next() & 0xff);
            randombytes_init(s48, NULL, 256);
            printf("R seed ok\n");
        } else if (sscanf(line, "setenv %127s %255s", a, b) == 2) {
            setenv(a, b, 1);
            printf("R setenv ok\n");
        } else if (sscanf(line, "unsetenv %127s", a) == 1) {
            unsetenv(a);
            printf("R unsetenv ok\n");
        } else if (!strncmp(line, "keygen", 6)) {
            printf("R begin keygen\n");
            protocols_keygen(&pk, &sk);
            printf("R keygen ok hint_pk=%d,%d\n", pk.hint_pk[0], pk.hint_pk[1]);
        } else if (!strncmp(line, "otherkey", 8)) {
            protocols_keygen(&pk2, &sk2);
            printf("R otherkey ok\n");
        } else if (sscanf(line, "msg %lld %lld", &n1, &n2) == 2) {
            set_msg(&msg, &msglen, (size_t)n1, (uint64_t)n2);
            printf("R msg ok\n");
        } else if (!strncmp(line, "sign", 4)) {
            /* "sign" or "signsteer <max> <len> <mseed0>": the latter signs messages mseed0, mseed0+1, ...
               until protocols_sign no longer answers -1 (= H1 steering unmet) */
            long long smax = 1, slen = 0, sseed = 0;
            int steer = sscanf(line, "signsteer %lld %lld %lld", &smax, &slen, &sseed) == 3;
            fprintf(stderr, "drv-mark: sign\n");
            printf("R begin sign\n");
            int r = -1;
            long long tries = 0;
            while (tries < smax) {
                if (steer) {
                    set_msg(&msg, &msglen, (size_t)slen, (uint64_t)(sseed + tries));
                    printf("R try %lld\n", sseed + tries); /* so that a crash inside this call can be attributed */
                }
                tries++;
                r = protocols_sign(&sig, &pk, &sk, msg, msglen, 0);
                if (r != -1)
                    break;
            }
            printf("R tries %lld mseed %lld\n", tries, sseed + tries - 1);
            have_saved = 0;
            if (r == 1) {
                sig_copy(&saved, &sig);
                have_saved = 1;
            }
#if VERIF_VARIANT == 0
            if (r == 1)
                printf("R sign ret=1 v2=%d bt=%d hb=%d hints=%d,%d,%d,%d\n", sig.two_resp_length, sig.backtracking,
                       sig.chall_b, sig.hint_aux[0], sig.hint_aux[1], sig.hint_chall[0], sig.hint_chall[1]);
#elif VERIF_VARIANT == 1
            if (r == 1)
                printf("R sign ret=1 v2=%d bt=0 hb=%d hints=%d,%d\n", sig.two_resp_length, sig.hint_b,
                       sig.hint_aux[0], sig.hint_aux[1]);
#else
            if (r == 1)
                printf("R sign ret=1 v2=%d bt=0 hb=%d hints=%d,%d\n", sig.two_resp_length, sig.hint_b,
                       sig.hint_com[0], sig.hint_com[1]);
#endif
            if (r != 1)
                printf("R sign ret=%d\n", r);
#if VERIF_VARIANT != 2
        } else if (sscanf(line, "verify_msg %lld %lld", &n1, &n2) == 2) {
            unsigned char *m2 = NULL;
            size_t l2 = 0;
            set_msg(&m2, &l2, (size_t)n1, (uint64_t)n2);
            fprintf(stderr, "drv-mark: verify_msg\n");
            printf("R begin verify_msg\n");
            printf("R verify_msg %d\n", protocols_verif(&sig, &pk, m2, l2));
            free(m2);
        } else if (!strncmp(line, "verify_flip", 11)) {
            /* the current message with its first bit flipped (a different message of the same length) */
            if (msglen == 0) {
                printf("R verify_flip skipped\n");
                continue;
            }
            msg[0] ^= 1;
            fprintf(stderr, "drv-mark: verify_flip\n");
            printf("R begin verify_flip\n");
            printf("R verify_flip %d\n", protocols_verif(&sig, &pk, msg, msglen));
            msg[0] ^= 1;
        } else if (!strncmp(line, "verify_pk2", 10)) {
            fprintf(stderr, "drv-mark: verify_pk2\n");
            printf("R begin verify_pk2\n");
            printf("R verify_pk2 %d\n", protocols_verif(&sig, &pk2, msg, msglen));
        } else if (!strncmp(line, "verify", 6)) {
            if (!have_saved) { /* the last sign did not report success: sig is not a signature */
                printf("R verify skipped\n");
                continue;
            }
            fprintf(stderr, "drv-mark: verify\n");
            printf("R begin verify\n");
#if VERIF_VARIANT == 0
            memset(&vt, 0, sizeof vt);
            sqisign_verif_tap = vtap_cb;
#endif
            int vres = protocols_verif(&sig, &pk, msg, msglen);
#if VERIF_VARIANT == 0
            sqisign_verif_tap = 0;
            if (getenv("SQI_VERIF_TRACE"))
                report_vtap();
#endif
            printf("R verify %d\n", vres);
#endif
        } else if (sscanf(line, "tamper %127s %lld", a, &n1) == 2) {
            printf("R tamper %s\n", tamper(a, (long)n1) ? "ok" : "nofield");
        } else if (!strncmp(line, "restore", 7)) {
            if (have_saved)
                sig_copy(&sig, &saved);
            printf("R restore %d\n", have_saved);
#if VERIF_VARIANT == 0
        } else if (!strncmp(line, "siginfo", 7)) {
            gmp_printf("R sig %d %Zx %Zx %Zx %Zx %Zx\n", sig.chall_b, sig.chall_coeff, sig.mat_Bchall_can_to_B_chall[0][0],
                       sig.mat_Bchall_can_to_B_chall[0][1], sig.mat_Bchall_can_to_B_chall[1][0],
                       sig.mat_Bchall_can_to_B_chall[1][1]);
#endif
#if VERIF_VARIANT == 1
        } else if (!strncmp(line, "encinfo", 7)) {
            gmp_printf("R enc %d %d %Zx %Zx %Zx %Zx %Zx %Zx %Zx %d\n", TORSION_PLUS_EVEN_POWER,
                       SQIsign2D_heuristic_challenge_length + sig.two_resp_length, sig.x, sig.b0, sig.d0, sig.b1,
                       sig.d1, sig.c0_adjust, sig.e0_adjust, sig.hint_b);
#endif
        } else if (sscanf(line, "fixeddeg %lld %255s", &n1, b) == 2) {
            /* direct call fixed_degree_isogeny(&F, &I, u, &adj, small) with u given in hex */
            theta_chain_t F;
            quat_left_ideal_t I;
            ibz_t u, adj;
            quat_left_ideal_init(&I);
            ibz_init(&u);
            ibz_init(&adj);
            mpz_set_str(u, b, 16);
            printf("R begin fixeddeg\n");
            int r = fixed_degree_isogeny(&F, &I, &u, &adj, (int)n1);
            printf("R fixeddeg ret=%d\n", r);
            quat_left_ideal_finalize(&I);
            ibz_finalize(&u);
            ibz_finalize(&adj);
        } else if (sscanf(line, "tav %lld", &n1) == 1) {
            printf("R tav %d\n", two_adic_valuation((int64_t)n1));
        } else if (line[0] == '\n' || line[0] == '#') {
            continue;
        } else {
            printf("R bad-op\n");
        }
    }
    return 0;
}

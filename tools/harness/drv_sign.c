/* Signer-side probe driver (C04 / C01 / C05). One process = one key-generation + a history of
 * sign / verify calls, driven by op lines on stdin; result lines are tagged "R " and flushed at once,
 * so the last op echoed before a sanitizer abort / signal is the crashing op.
 *
 * compile with -DVERIF_VARIANT=0 (sqisigndim2), 1 (sqisigndim2_heuristic), 2 (sqisignhd)
 *
 * ops:
 *   seed <n>                    randombytes_init with the 48-byte expansion of n (AES-CTR-DRBG of common_test)
 *   setenv <NAME> <VALUE> | unsetenv <NAME>
 *   keygen                      -> R keygen ok hint_pk=<a>,<b>
 *   msg <len> <mseed>           message = <len> bytes of splitmix64(mseed)
 *   signsteer <max> <len> <ms>  like sign, over messages ms, ms+1, .. until the H1 steering is met (ret != -1)
 *   sign                        -> R sign ret=<r> v2=<two_resp_length> bt=<backtracking> hb=<chall_b|hint_b> hints=..
 *   verify                      -> R verify <0|1>         (last signature, current message, own public key)
 *   verify_msg <len> <mseed>    -> R verify_msg <0|1>     (last signature against another message)
 *   verify_flip                 -> R verify_flip <0|1>    (last signature, current message with one bit flipped)
 *   otherkey                    generate a second key pair (pk2)
 *   verify_pk2                  -> R verify_pk2 <0|1>     (last signature, current message, other public key)
 *   tamper <field> <delta>      modify the last signature (field names below) -> R tamper ok
 *   restore                     undo all tampering (restores the saved signature)
 *   siginfo                     dim2 only: -> R sig chall_b chall_coeff m00 m01 m10 m11 (hex)
 *   encinfo                     heuristic only: -> R enc f a n x b0 d0 b1 d1 c0 e0 hb   (hex)
 *   fixeddeg <small> <u hex>    -> R fixeddeg ret=<r>     (direct call of fixed_degree_isogeny)
 *   tav <x>                     -> R tav <two_adic_valuation((int)x)>   (x decimal int64)
 */
#include <stdio.h>
#include <stdlib.h>
#include <string.h>
#include <stdint.h>
#if VERIF_VARIANT == 0
#include <sqisigndim2.h>
#elif VERIF_VARIANT == 1
#include <sqisigndim2_heuristic.h>
#else
#include <sqisignhd.h>
#endif
#include <tools.h>
#include <rng.h>

static uint64_t sm_state;
static uint64_t
sm_next(void)
{
    uint64_t z = (sm_state += 0x9E3779B97F4A7C15ULL);
    z = (z ^ (z >> 30)) * 0xBF58476D1CE4E5B9ULL;
    z = (z ^ (z >> 27)) * 0x94D049BB133111EBULL;
    return z ^ (z >> 31);
}

static unsigned char *msg = NULL;
static size_t msglen = 0;

static void
set_msg(unsigned char **m, size_t *l, size_t len, uint64_t seed)
{
    free(*m);
    *m = malloc(len + 1);
    *l = len;
    sm_state = seed;
    for (size_t i = 0; i < len; i++)
        (*m)[i] = (unsigned char)(sm_next() & 0xff);
}

static public_key_t pk, pk2;
static secret_key_t sk, sk2;
static signature_t sig, saved;
static int have_saved = 0;

static void
sig_copy(signature_t *d, const signature_t *s)
{
#if VERIF_VARIANT == 0
    d->E_aux = s->E_aux;
    d->backtracking = s->backtracking;
    d->two_resp_length = s->two_resp_length;
    ibz_mat_2x2_copy(&d->mat_Bchall_can_to_B_chall, &s->mat_Bchall_can_to_B_chall);
    ibz_copy(&d->chall_coeff, &s->chall_coeff);
    d->chall_b = s->chall_b;
    d->hint_aux[0] = s->hint_aux[0];
    d->hint_aux[1] = s->hint_aux[1];
    d->hint_chall[0] = s->hint_chall[0];
    d->hint_chall[1] = s->hint_chall[1];
#else
#if VERIF_VARIANT == 1
    d->E_aux = s->E_aux;
    d->hint_aux[0] = s->hint_aux[0];
    d->hint_aux[1] = s->hint_aux[1];
#else
    d->E_com = s->E_com;
    d->hint_com[0] = s->hint_com[0];
    d->hint_com[1] = s->hint_com[1];
#endif
    d->two_resp_length = s->two_resp_length;
    d->hint_b = s->hint_b;
    ibz_copy(&d->x, &s->x);
    ibz_copy(&d->b0, &s->b0);
    ibz_copy(&d->d0, &s->d0);
    ibz_copy(&d->b1, &s->b1);
    ibz_copy(&d->d1, &s->d1);
    ibz_copy(&d->c0_adjust, &s->c0_adjust);
    ibz_copy(&d->e0_adjust, &s->e0_adjust);
#endif
}

static void
add_small(ibz_t *x, long delta)
{
    ibz_t t;
    ibz_init(&t);
    ibz_set(&t, delta);
    ibz_add(x, x, &t);
    ibz_finalize(&t);
}

/* returns 1 if the field exists */
static int
tamper(const char *field, long delta)
{
    fp_t one;
    fp_set_one(&one);
#if VERIF_VARIANT == 0
    if (!strcmp(field, "backtracking")) { sig.backtracking += (int)delta; return 1; }
    if (!strcmp(field, "two_resp_length")) { sig.two_resp_length += (int)delta; return 1; }
    if (!strcmp(field, "chall_b")) { sig.chall_b ^= 1; return 1; }
    if (!strcmp(field, "chall_coeff")) { add_small(&sig.chall_coeff, delta); return 1; }
    if (!strcmp(field, "mat00")) { add_small(&sig.mat_Bchall_can_to_B_chall[0][0], delta); return 1; }
    if (!strcmp(field, "mat01")) { add_small(&sig.mat_Bchall_can_to_B_chall[0][1], delta); return 1; }
    if (!strcmp(field, "mat10")) { add_small(&sig.mat_Bchall_can_to_B_chall[1][0], delta); return 1; }
    if (!strcmp(field, "mat11")) { add_small(&sig.mat_Bchall_can_to_B_chall[1][1], delta); return 1; }
    if (!strcmp(field, "hint_aux0")) { sig.hint_aux[0] += (int)delta; return 1; }
    if (!strcmp(field, "hint_aux1")) { sig.hint_aux[1] += (int)delta; return 1; }
    if (!strcmp(field, "hint_chall0")) { sig.hint_chall[0] += (int)delta; return 1; }
    if (!strcmp(field, "hint_chall1")) { sig.hint_chall[1] += (int)delta; return 1; }
    if (!strcmp(field, "E_aux")) { for (long i = 0; i < delta; i++) fp_add(&sig.E_aux.A.re, &sig.E_aux.A.re, &one); sig.E_aux.is_A24_computed_and_normalized = 0; return 1; }
#elif VERIF_VARIANT == 1
    if (!strcmp(field, "two_resp_length")) { sig.two_resp_length += (int)delta; return 1; }
    if (!strcmp(field, "hint_b")) { sig.hint_b ^= 1; return 1; }
    if (!strcmp(field, "x")) { add_small(&sig.x, delta); return 1; }
    if (!strcmp(field, "b0")) { add_small(&sig.b0, delta); return 1; }
    if (!strcmp(field, "d0")) { add_small(&sig.d0, delta); return 1; }
    if (!strcmp(field, "b1")) { add_small(&sig.b1, delta); return 1; }
    if (!strcmp(field, "d1")) { add_small(&sig.d1, delta); return 1; }
    if (!strcmp(field, "c0_adjust")) { add_small(&sig.c0_adjust, delta); return 1; }
    if (!strcmp(field, "e0_adjust")) { add_small(&sig.e0_adjust, delta); return 1; }
    if (!strcmp(field, "hint_aux0")) { sig.hint_aux[0] += (int)delta; return 1; }
    if (!strcmp(field, "hint_aux1")) { sig.hint_aux[1] += (int)delta; return 1; }
    if (!strcmp(field, "E_aux")) { for (long i = 0; i < delta; i++) fp_add(&sig.E_aux.A.re, &sig.E_aux.A.re, &one); sig.E_aux.is_A24_computed_and_normalized = 0; return 1; }
    if (!strcmp(field, "E_aux_pk")) { sig.E_aux = pk.curve; sig.E_aux.is_A24_computed_and_normalized = 0; return 1; }
    if (!strcmp(field, "zero_matrix")) {
        ibz_set(&sig.b0, 0); ibz_set(&sig.d0, 0); ibz_set(&sig.b1, 0); ibz_set(&sig.d1, 0);
        ibz_set(&sig.c0_adjust, 0); ibz_set(&sig.e0_adjust, 0);
        return 1;
    }
#endif
    (void)delta;
    return 0;
}

int
main(void)
{
    char line[512], a[128], b[256];
    long long n1, n2;
    setvbuf(stdout, NULL, _IOLBF, 0);
    public_key_init(&pk);
    secret_key_init(&sk);
    public_key_init(&pk2);
    secret_key_init(&sk2);
    secret_sig_init(&sig);
    secret_sig_init(&saved);
    set_msg(&msg, &msglen, 32, 0);
    while (fgets(line, sizeof line, stdin)) {
        if (sscanf(line, "seed %lld", &n1) == 1) {
            unsigned char s48[48];
            sm_state = (uint64_t)n1 ^ 0x5851F42D4C957F2DULL;
            for (int i = 0; i < 48; i++)
                s48[i] = (unsigned char)(sm_next() & 0xff);
            randombytes_init(s48, NULL, 256);
            printf("R seed ok\n");
        } else if (sscanf(line, "setenv %127s %255s", a, b) == 2) {
            setenv(a, b, 1);
            printf("R setenv ok\n");
        } else if (sscanf(line, "unsetenv %127s", a) == 1) {
            unsetenv(a);
            printf("R unsetenv ok\n");
        } else if (!strncmp(line, "keygen", 6)) {
            printf("R begin keygen\n");
            protocols_keygen(&pk, &sk);
            printf("R keygen ok hint_pk=%d,%d\n", pk.hint_pk[0], pk.hint_pk[1]);
        } else if (!strncmp(line, "otherkey", 8)) {
            protocols_keygen(&pk2, &sk2);
            printf("R otherkey ok\n");
        } else if (sscanf(line, "msg %lld %lld", &n1, &n2) == 2) {
            set_msg(&msg, &msglen, (size_t)n1, (uint64_t)n2);
            printf("R msg ok\n");
        } else if (!strncmp(line, "sign", 4)) {
            /* "sign" or "signsteer <max> <len> <mseed0>": the latter signs messages mseed0, mseed0+1, ...
               until protocols_sign no longer answers -1 (= H1 steering unmet) */
            long long smax = 1, slen = 0, sseed = 0;
            int steer = sscanf(line, "signsteer %lld %lld %lld", &smax, &slen, &sseed) == 3;
            fprintf(stderr, "drv-mark: sign\n");
            printf("R begin sign\n");
            int r = -1;
            long long tries = 0;
            while (tries < smax) {
                if (steer) {
                    set_msg(&msg, &msglen, (size_t)slen, (uint64_t)(sseed + tries));
                    printf("R try %lld\n", sseed + tries); /* so that a crash inside this call can be attributed */
                }
                tries++;
                r = protocols_sign(&sig, &pk, &sk, msg, msglen, 0);
                if (r != -1)
                    break;
            }
            printf("R tries %lld mseed %lld\n", tries, sseed + tries - 1);
            have_saved = 0;
            if (r == 1) {
                sig_copy(&saved, &sig);
                have_saved = 1;
            }
#if VERIF_VARIANT == 0
            if (r == 1)
                printf("R sign ret=1 v2=%d bt=%d hb=%d hints=%d,%d,%d,%d\n", sig.two_resp_length, sig.backtracking,
                       sig.chall_b, sig.hint_aux[0], sig.hint_aux[1], sig.hint_chall[0], sig.hint_chall[1]);
#elif VERIF_VARIANT == 1
            if (r == 1)
                printf("R sign ret=1 v2=%d bt=0 hb=%d hints=%d,%d\n", sig.two_resp_length, sig.hint_b,
                       sig.hint_aux[0], sig.hint_aux[1]);
#else
            if (r == 1)
                printf("R sign ret=1 v2=%d bt=0 hb=%d hints=%d,%d\n", sig.two_resp_length, sig.hint_b,
                       sig.hint_com[0], sig.hint_com[1]);
#endif
            if (r != 1)
                printf("R sign ret=%d\n", r);
#if VERIF_VARIANT != 2
        } else if (sscanf(line, "verify_msg %lld %lld", &n1, &n2) == 2) {
            unsigned char *m2 = NULL;
            size_t l2 = 0;
            set_msg(&m2, &l2, (size_t)n1, (uint64_t)n2);
            fprintf(stderr, "drv-mark: verify_msg\n");
            printf("R begin verify_msg\n");
            printf("R verify_msg %d\n", protocols_verif(&sig, &pk, m2, l2));
            free(m2);
        } else if (!strncmp(line, "verify_flip", 11)) {
            /* the current message with its first bit flipped (a different message of the same length) */
            if (msglen == 0) {
                printf("R verify_flip skipped\n");
                continue;
            }
            msg[0] ^= 1;
            fprintf(stderr, "drv-mark: verify_flip\n");
            printf("R begin verify_flip\n");
            printf("R verify_flip %d\n", protocols_verif(&sig, &pk, msg, msglen));
            msg[0] ^= 1;
        } else if (!strncmp(line, "verify_pk2", 10)) {
            fprintf(stderr, "drv-mark: verify_pk2\n");
            printf("R begin verify_pk2\n");
            printf("R verify_pk2 %d\n", protocols_verif(&sig, &pk2, msg, msglen));
        } else if (!strncmp(line, "verify", 6)) {
            if (!have_saved) { /* the last sign did not report success: sig is not a signature */
                printf("R verify skipped\n");
                continue;
            }
            fprintf(stderr, "drv-mark: verify\n");
            printf("R begin verify\n");
            printf("R verify %d\n", protocols_verif(&sig, &pk, msg, msglen));
#endif
        } else if (sscanf(line, "tamper %127s %lld", a, &n1) == 2) {
            printf("R tamper %s\n", tamper(a, (long)n1) ? "ok" : "nofield");
        } else if (!strncmp(line, "restore", 7)) {
            if (have_saved)
                sig_copy(&sig, &saved);
            printf("R restore %d\n", have_saved);
#if VERIF_VARIANT == 0
        } else if (!strncmp(line, "siginfo", 7)) {
            gmp_printf("R sig %d %Zx %Zx %Zx %Zx %Zx\n", sig.chall_b, sig.chall_coeff, sig.mat_Bchall_can_to_B_chall[0][0],
                       sig.mat_Bchall_can_to_B_chall[0][1], sig.mat_Bchall_can_to_B_chall[1][0],
                       sig.mat_Bchall_can_to_B_chall[1][1]);
#endif
#if VERIF_VARIANT == 1
        } else if (!strncmp(line, "encinfo", 7)) {
            gmp_printf("R enc %d %d %Zx %Zx %Zx %Zx %Zx %Zx %Zx %d\n", TORSION_PLUS_EVEN_POWER,
                       SQIsign2D_heuristic_challenge_length + sig.two_resp_length, sig.x, sig.b0, sig.d0, sig.b1,
                       sig.d1, sig.c0_adjust, sig.e0_adjust, sig.hint_b);
#endif
        } else if (sscanf(line, "fixeddeg %lld %255s", &n1, b) == 2) {
            /* direct call fixed_degree_isogeny(&F, &I, u, &adj, small) with u given in hex */
            theta_chain_t F;
            quat_left_ideal_t I;
            ibz_t u, adj;
            quat_left_ideal_init(&I);
            ibz_init(&u);
            ibz_init(&adj);
            mpz_set_str(u, b, 16);
            printf("R begin fixeddeg\n");
            int r = fixed_degree_isogeny(&F, &I, &u, &adj, (int)n1);
            printf("R fixeddeg ret=%d\n", r);
            quat_left_ideal_finalize(&I);
            ibz_finalize(&u);
            ibz_finalize(&adj);
        } else if (sscanf(line, "tav %lld", &n1) == 1) {
            printf("R tav %d\n", two_adic_valuation((int64_t)n1));
        } else if (line[0] == '\n' || line[0] == '#') {
            continue;
        } else {
            printf("R bad-op\n");
        }
    }
    return 0;
}

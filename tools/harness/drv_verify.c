/* drv_verify.c — C driver for C03 / C02 (tie H): feeds raw signature / public-key values to the real
 * protocols_verif (both variants) and reports the verdict plus the values tapped through hook H4.
 *
 * build:  -DVERIF_LVL={1,3,5}  [-DVARIANT_HEUR]  (+ the repo's include dirs and static libs)
 * line protocol (stdin, one op per line; result lines are prefixed "R "):
 *   gen <seedhex> <msghex|->
 *        -> R gen ok=<sign ret> v=<verify ret> PK <pk tokens> SIG <sig tokens>
 *   verify PK <pk tokens> SIG <sig tokens> MSG <msghex|->
 *        -> R v=<0|1> n=<chain length|-> ord=<6 bits|-> ker=<bit|-> taps=<c k t m h fired>- deg=<E_com has C = 0> H=<hex|-> H2=<hex|-> jcom=<hex|-> jalt=<hex|-> jchall=<hex|-> jpk=<hex>
 *   hints <Are> <Aim> <f>   -> R hints <h0> <h1>     (public canonical-basis hints of the curve with coefficient A)
 *   (with hook H3 present) trace=e4:<log2_of_e>,<e_half>,<row>,<max current>,<max strategy column>,<final current>;th:<n>,<slots used>,<max strategy index>
 * tokens
 *   pk  : Are Aim Cre Cim h0 h1                      (field elements: hex of the canonical integer; hints: decimal int)
 *   sig : (dim2)  Are Aim Cre Cim bt trl m00 m01 m10 m11 chall chall_b ha0 ha1 hc0 hc1
 *         (heur)  Are Aim Cre Cim trl ha0 ha1 x hint_b b0 d0 b1 d1 c0 e0
 *         (int fields decimal, big integers signed hex)
 * ord bits: exact order 2^(n+2) (dim2) resp. 2^n (heuristic) of T1.P1 T2.P1 T1m2.P1 on E1, T1.P2 T2.P2 T1m2.P2 on E2.
 */
#ifdef VARIANT_HEUR
#include <sqisigndim2_heuristic.h>
#else
#include <sqisigndim2.h>
#endif
#include <rng.h>
#include <encoded_sizes.h>
#define _GNU_SOURCE
#include <stdio.h>
#include <stdlib.h>
#include <string.h>

#ifndef SQISIGN_SQISIGN2D_WEST_AC24_VERIF
#error "build with -DSQISIGN_SQISIGN2D_WEST_AC24_VERIF (hook H4)"
#endif

/* ---------------------------------------------------------------- helpers */
static FILE *OUT;
static int hexval(int c) { return (c >= '0' && c <= '9') ? c - '0' : (c >= 'a' && c <= 'f') ? c - 'a' + 10 : (c >= 'A' && c <= 'F') ? c - 'A' + 10 : -1; }

static void fp_from_hex(fp_t *x, const char *s)
{ /* canonical integer (hex, < 2^(8*FP_ENCODED_BYTES)) -> little-endian bytes -> fp_decode */
    unsigned char buf[FP_ENCODED_BYTES];
    memset(buf, 0, sizeof buf);
    size_t n = strlen(s);
    for (size_t i = 0; i < n && i / 2 < sizeof buf; i++) {
        int v = hexval(s[n - 1 - i]);
        if (v < 0) v = 0;
        buf[i / 2] |= (unsigned char)(v << (4 * (i & 1)));
    }
    fp_decode(x, buf);
}
static void fp2_from_hex(fp2_t *x, const char *re, const char *im) { fp_from_hex(&x->re, re); fp_from_hex(&x->im, im); }

static void fp_print_hex(const fp_t *x)
{
    unsigned char buf[FP_ENCODED_BYTES];
    fp_encode(buf, x);
    int started = 0;
    for (int i = FP_ENCODED_BYTES - 1; i >= 0; i--) {
        if (!started && buf[i] == 0 && i > 0) continue;
        fprintf(OUT, started ? "%02x" : "%x", buf[i]);
        started = 1;
    }
}
static void fp2_print_tokens(const fp2_t *x) { fp_print_hex(&x->re); fprintf(OUT, " "); fp_print_hex(&x->im); }
static void fp2_print_bytes(const fp2_t *x)
{
    unsigned char buf[FP2_ENCODED_BYTES];
    fp2_encode(buf, x);
    for (int i = 0; i < FP2_ENCODED_BYTES; i++) fprintf(OUT, "%02x", buf[i]);
}
static void curve_from_tokens(ec_curve_t *E, char **t)
{
    ec_curve_init(E);
    fp2_from_hex(&E->A, t[0], t[1]);
    fp2_from_hex(&E->C, t[2], t[3]);
}
static void curve_print_tokens(const ec_curve_t *E)
{
    fp2_print_tokens(&E->A); fprintf(OUT, " "); fp2_print_tokens(&E->C);
}
static size_t msg_from_hex(unsigned char **out, const char *s)
{
    if (s[0] == '-' && s[1] == 0) { *out = malloc(1); return 0; }
    size_t n = strlen(s) / 2;
    *out = malloc(n + 1);
    for (size_t i = 0; i < n; i++) (*out)[i] = (unsigned char)((hexval(s[2 * i]) << 4) | hexval(s[2 * i + 1]));
    return n;
}
static void ibz_from_tok(ibz_t *x, const char *s) { if (!ibz_set_from_str(x, s, 16)) { fprintf(stderr, "bad integer token %s\n", s); exit(2); } }
static void ibz_print_tok(const ibz_t *x) { gmp_fprintf(OUT, "%Zx", *x); }

/* ---------------------------------------------------------------- taps (hook H4) */
static struct {
    int have_E1, have_E2, have_T, n, have_ker, ker_len, have_com, have_alt, have_chall, nH;
    ec_curve_t E1, E2, Ecom, Ealt, Echall;
    theta_couple_point_t T1, T2, T1m2;
    ec_point_t ker;
    ibz_t H[2];
} tap;

static void tap_fn(const char *tag, const void *obj, int val)
{
    if (!strcmp(tag, "E_chall")) { tap.Echall = *(const ec_curve_t *)obj; tap.have_chall = 1; }
    else if (!strcmp(tag, "E1")) { tap.E1 = *(const ec_curve_t *)obj; tap.have_E1 = 1; }
    else if (!strcmp(tag, "E2")) { tap.E2 = *(const ec_curve_t *)obj; tap.have_E2 = 1; }
    else if (!strcmp(tag, "T1")) { tap.T1 = *(const theta_couple_point_t *)obj; tap.n = val; tap.have_T |= 1; }
    else if (!strcmp(tag, "T2")) { tap.T2 = *(const theta_couple_point_t *)obj; tap.have_T |= 2; }
    else if (!strcmp(tag, "T1m2")) { tap.T1m2 = *(const theta_couple_point_t *)obj; tap.have_T |= 4; }
    else if (!strcmp(tag, "small_ker")) { tap.ker = *(const ec_point_t *)obj; tap.ker_len = val; tap.have_ker = 1; }
    else if (!strcmp(tag, "E_com")) { tap.Ecom = *(const ec_curve_t *)obj; tap.have_com = 1; }
    else if (!strcmp(tag, "E_com_alt")) { tap.Ealt = *(const ec_curve_t *)obj; tap.have_alt = 1; }
    else if (!strcmp(tag, "check_chall")) {
        if (tap.nH < 2) ibz_copy(&tap.H[tap.nH++], &(*(const ibz_vec_2_t *)obj)[1]);
    }
}
static void tap_reset(void)
{
    ibz_t h0, h1;
    memcpy(&h0, &tap.H[0], sizeof h0); memcpy(&h1, &tap.H[1], sizeof h1);
    memset(&tap, 0, sizeof tap);
    memcpy(&tap.H[0], &h0, sizeof h0); memcpy(&tap.H[1], &h1, sizeof h1);
}
static void print_j(const char *name, const ec_curve_t *E, int have)
{
    printf(" %s=", name);
    if (!have) { printf("-"); return; }
    fp2_t j; ec_curve_t c = *E;
    ec_j_inv(&j, &c);
    fp2_print_bytes(&j);
}

/* ---------------------------------------------------------------- traversal trace (hook H3 of engineer a3, optional) */
#ifdef SQISIGN_VERIF_TRACE
static struct { int have4, log2e, ehalf, odd, row4, maxcur, maxstrat, fincur; int have2, n, adj, len0, maxslots, maxidx; } trc;
static void trace_fn(int tag, int a, int b, int c)
{
    switch (tag) {
    case 1: trc.have4 = 1; trc.log2e = a; trc.ehalf = b; trc.odd = c; trc.maxcur = 0; trc.maxstrat = 0; break;
    case 2: trc.row4 = a; break;
    case 3: if (b > trc.maxcur) trc.maxcur = b; if (a > trc.maxstrat) trc.maxstrat = a; break;
    case 7: trc.fincur = a; break;
    case 20: trc.have2 = 1; trc.n = a; trc.adj = c; trc.maxslots = 0; trc.maxidx = 0; break;
    case 21: if (a > trc.maxidx) trc.maxidx = a; break;
    case 22: trc.len0 = a; if (a > trc.maxslots) trc.maxslots = a; break;
    case 27: if (a > trc.maxidx) trc.maxidx = a; if (b + 1 > trc.maxslots) trc.maxslots = b + 1; break;
    default: break;
    }
}
#endif

/* ---------------------------------------------------------------- objects <-> tokens */
#ifdef VARIANT_HEUR
#define NSIG 15
static void sig_from_tokens(signature_t *sig, char **t)
{
    curve_from_tokens(&sig->E_aux, t);
    sig->two_resp_length = (int)strtol(t[4], 0, 10);
    sig->hint_aux[0] = (int)strtol(t[5], 0, 10);
    sig->hint_aux[1] = (int)strtol(t[6], 0, 10);
    ibz_from_tok(&sig->x, t[7]);
    sig->hint_b = (int)strtol(t[8], 0, 10);
    ibz_from_tok(&sig->b0, t[9]);
    ibz_from_tok(&sig->d0, t[10]);
    ibz_from_tok(&sig->b1, t[11]);
    ibz_from_tok(&sig->d1, t[12]);
    ibz_from_tok(&sig->c0_adjust, t[13]);
    ibz_from_tok(&sig->e0_adjust, t[14]);
}
static void sig_print_tokens(const signature_t *sig)
{
    curve_print_tokens(&sig->E_aux);
    fprintf(OUT, " %d %d %d ", sig->two_resp_length, sig->hint_aux[0], sig->hint_aux[1]);
    ibz_print_tok(&sig->x); fprintf(OUT, " %d ", sig->hint_b);
    ibz_print_tok(&sig->b0); fprintf(OUT, " "); ibz_print_tok(&sig->d0); fprintf(OUT, " ");
    ibz_print_tok(&sig->b1); fprintf(OUT, " "); ibz_print_tok(&sig->d1); fprintf(OUT, " ");
    ibz_print_tok(&sig->c0_adjust); fprintf(OUT, " "); ibz_print_tok(&sig->e0_adjust);
}
#else
#define NSIG 16
static void sig_from_tokens(signature_t *sig, char **t)
{
    curve_from_tokens(&sig->E_aux, t);
    sig->backtracking = (int)strtol(t[4], 0, 10);
    sig->two_resp_length = (int)strtol(t[5], 0, 10);
    ibz_from_tok(&sig->mat_Bchall_can_to_B_chall[0][0], t[6]);
    ibz_from_tok(&sig->mat_Bchall_can_to_B_chall[0][1], t[7]);
    ibz_from_tok(&sig->mat_Bchall_can_to_B_chall[1][0], t[8]);
    ibz_from_tok(&sig->mat_Bchall_can_to_B_chall[1][1], t[9]);
    ibz_from_tok(&sig->chall_coeff, t[10]);
    sig->chall_b = (int)strtol(t[11], 0, 10);
    sig->hint_aux[0] = (int)strtol(t[12], 0, 10);
    sig->hint_aux[1] = (int)strtol(t[13], 0, 10);
    sig->hint_chall[0] = (int)strtol(t[14], 0, 10);
    sig->hint_chall[1] = (int)strtol(t[15], 0, 10);
}
static void sig_print_tokens(const signature_t *sig)
{
    curve_print_tokens(&sig->E_aux);
    fprintf(OUT, " %d %d ", sig->backtracking, sig->two_resp_length);
    for (int i = 0; i < 2; i++) for (int j = 0; j < 2; j++) { ibz_print_tok(&sig->mat_Bchall_can_to_B_chall[i][j]); fprintf(OUT, " "); }
    ibz_print_tok(&sig->chall_coeff);
    fprintf(OUT, " %d %d %d %d %d", sig->chall_b, sig->hint_aux[0], sig->hint_aux[1], sig->hint_chall[0], sig->hint_chall[1]);
}
#endif
static int ord2(const ec_point_t *P, const ec_curve_t *E, int t) { ec_curve_t c = *E; return test_point_order_twof(P, &c, t) ? 1 : 0; }
#define NPK 6
static void pk_from_tokens(public_key_t *pk, char **t)
{
    curve_from_tokens(&pk->curve, t);
    pk->hint_pk[0] = (int)strtol(t[4], 0, 10);
    pk->hint_pk[1] = (int)strtol(t[5], 0, 10);
}
static void pk_print_tokens(const public_key_t *pk)
{
    curve_print_tokens(&pk->curve);
    fprintf(OUT, " %d %d", pk->hint_pk[0], pk->hint_pk[1]);
}

/* ---------------------------------------------------------------- ops */
static int do_verify(signature_t *sig, public_key_t *pk, const unsigned char *m, size_t l)
{
    tap_reset();
    sqisign_verif_tap = tap_fn;
#ifdef SQISIGN_VERIF_TRACE
    memset(&trc, 0, sizeof trc);
    sqisign_verif_trace = trace_fn;
#endif
    int v = protocols_verif(sig, pk, m, l);
    sqisign_verif_tap = 0;
#ifdef SQISIGN_VERIF_TRACE
    sqisign_verif_trace = 0;
#endif
    return v;
}

static void report(int v, const public_key_t *pk)
{
    printf("\nR v=%d", v);
    if (tap.have_T == 7) printf(" n=%d", tap.n); else printf(" n=-");
    if (tap.have_T == 7 && tap.have_E1 && tap.have_E2 && tap.n > 0 && tap.n <= 2048) {
#ifdef VARIANT_HEUR
        int t = tap.n;
#else
        int t = tap.n + 2;
#endif
        printf(" ord=%d%d%d%d%d%d", ord2(&tap.T1.P1, &tap.E1, t), ord2(&tap.T2.P1, &tap.E1, t),
               ord2(&tap.T1m2.P1, &tap.E1, t), ord2(&tap.T1.P2, &tap.E2, t),
               ord2(&tap.T2.P2, &tap.E2, t), ord2(&tap.T1m2.P2, &tap.E2, t));
    } else printf(" ord=-");
    if (tap.have_ker && tap.ker_len > 0 && tap.ker_len <= 2048) {
#ifdef VARIANT_HEUR
        ec_curve_t kc = pk->curve;
        printf(" ker=%d", ord2(&tap.ker, &kc, tap.ker_len));
#else
        if (tap.have_chall) printf(" ker=%d", ord2(&tap.ker, &tap.Echall, tap.ker_len)); else printf(" ker=-");
#endif
    } else printf(" ker=-");
    printf(" taps=%s%s%s%s%s-", tap.have_chall ? "c" : "", tap.have_ker ? "k" : "", tap.have_T == 7 ? "t" : "", tap.have_com ? "m" : "",
           tap.nH >= 1 ? "h" : "");
    printf(" H="); if (tap.nH >= 1) ibz_print_tok(&tap.H[0]); else printf("-");
    printf(" H2="); if (tap.nH >= 2) ibz_print_tok(&tap.H[1]); else printf("-");
    /* degenerate "commitment curve": the record (A : C) the chain returned is not a curve (C = 0) */
    printf(" deg=%s", tap.have_com ? (fp2_is_zero(&tap.Ecom.C) ? "1" : "0") : "-");
    print_j("jcom", &tap.Ecom, tap.have_com);
    print_j("jalt", &tap.Ealt, tap.have_alt);
    print_j("jchall", &tap.Echall, tap.have_chall);
    print_j("jpk", &pk->curve, 1);
#ifdef SQISIGN_VERIF_TRACE
    printf(" trace=");
    if (trc.have4) printf("e4:%d,%d,%d,%d,%d,%d", trc.log2e, trc.ehalf, trc.row4, trc.maxcur, trc.maxstrat, trc.fincur); else printf("e4:-");
    if (trc.have2) printf(";th:%d,%d,%d", trc.n, trc.maxslots, trc.maxidx); else printf(";th:-");
#else
    printf(" trace=-");
#endif
    printf(" Achall=");
    if (tap.have_chall) {
        fp2_t a, c; ec_curve_t e = tap.Echall;
        fp2_copy(&c, &e.C); fp2_inv(&c); fp2_mul(&a, &e.A, &c);
        fp_print_hex(&a.re); printf(","); fp_print_hex(&a.im);
    } else printf("-");
    printf("\n");
}

int main(void)
{
    char *line = 0; size_t cap = 0; ssize_t len;
    ibz_init(&tap.H[0]); ibz_init(&tap.H[1]);
    setvbuf(stdout, 0, _IOLBF, 0);
    OUT = stdout;
    while ((len = getline(&line, &cap, stdin)) > 0) {
        char *tok[64]; int nt = 0;
        for (char *p = strtok(line, " \t\r\n"); p && nt < 64; p = strtok(0, " \t\r\n")) tok[nt++] = p;
        if (nt == 0) { printf("R bad-op\n"); continue; }
        if (!strcmp(tok[0], "gen") && nt == 3) {
            unsigned char seed[48]; memset(seed, 0, sizeof seed);
            size_t n = strlen(tok[1]);
            for (size_t i = 0; i + 1 < n && i / 2 < 48; i += 2) seed[i / 2] = (unsigned char)((hexval(tok[1][i]) << 4) | hexval(tok[1][i + 1]));
            randombytes_init(seed, NULL, 256);
            unsigned char *m; size_t l = msg_from_hex(&m, tok[2]);
            public_key_t pk; secret_key_t sk; signature_t sig;
            public_key_init(&pk); secret_key_init(&sk); secret_sig_init(&sig);
            protocols_keygen(&pk, &sk);
            int ok = protocols_sign(&sig, &pk, &sk, m, l, 0);
            /* the signer leaves E_aux.C / flags as set by itself; print before verifying (verif mutates sig) */
            char *txt = 0; size_t tlen = 0;
            OUT = open_memstream(&txt, &tlen);
            fprintf(OUT, "R gen ok=%d PK ", ok); pk_print_tokens(&pk); fprintf(OUT, " SIG "); sig_print_tokens(&sig);
            fclose(OUT); OUT = stdout;
            int v = do_verify(&sig, &pk, m, l);
            printf("\n%s v=%d\n", txt, v);
            free(txt);
            free(m);
        } else if (!strcmp(tok[0], "verify") && nt == 1 + 1 + NPK + 1 + NSIG + 2 && !strcmp(tok[1], "PK") && !strcmp(tok[2 + NPK], "SIG") &&
                   !strcmp(tok[3 + NPK + NSIG], "MSG")) {
            public_key_t pk; signature_t sig;
            public_key_init(&pk); secret_sig_init(&sig);
            pk_from_tokens(&pk, tok + 2);
            sig_from_tokens(&sig, tok + 3 + NPK);
            unsigned char *m; size_t l = msg_from_hex(&m, tok[4 + NPK + NSIG]);
            int v = do_verify(&sig, &pk, m, l);
            report(v, &pk);
            free(m);
            secret_sig_finalize(&sig); public_key_finalize(&pk);
        } else if (!strcmp(tok[0], "hints") && nt == 4) {
            /* hints <Are> <Aim> <f> : the public computation ec_curve_to_basis_2f_to_hint on the curve y^2 = x^3 + A x^2 + x */
            ec_curve_t E; ec_basis_t B; int hint[2] = { 0, 0 };
            ec_curve_init(&E);
            fp2_from_hex(&E.A, tok[1], tok[2]);
            ec_curve_to_basis_2f_to_hint(&B, &E, (int)strtol(tok[3], 0, 10), hint);
            printf("\nR hints %d %d\n", hint[0], hint[1]);
        } else {
            printf("R bad-op\n");
        }
    }
    return 0;
}

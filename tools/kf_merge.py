#!/usr/bin/env python3
"""resolve a merge conflict in known_findings.json by union (ours first), keyed by (property,key)"""
import json, subprocess, sys
def show(n): return json.loads(subprocess.run(["git","show",":%d:known_findings.json"%n],stdout=subprocess.PIPE,check=True).stdout)["findings"]
a, b = show(2), show(3)
seen, out = set(), []
for e in a + b:
    k = (e["property"], e["key"])
    if k in seen: continue
    seen.add(k); out.append(e)
ours_full = json.loads(subprocess.run(["git","show",":2:known_findings.json"],stdout=subprocess.PIPE,check=True).stdout)
# ours wins on status (e.g. "fixed"); entries only in theirs are added as they are
ours_full["findings"] = out
ours_full["fixed_lines"] = ["fixed: property=%s %s %s" % (e["property"], e.get("commit", "?"), e["what"][:160]) for e in out if e.get("status") == "fixed"]
json.dump(ours_full, open("known_findings.json", "w"), indent=1)
print("merged:", len(a), "+", len(b), "->", len(out))
for e in b:
    if (e["property"], e["key"]) not in {(x["property"], x["key"]) for x in a}: print("  new:", e["property"], e["key"])

#!/usr/bin/env python3
"""Regenerates the generated parts of DESIGN.md §10 (between <!-- GEN:x --> markers) from tools/claims/*.json,
known_findings.json, /repo's git log and seeded/RESULTS.json."""
import json, os, re, subprocess
ROOT = os.path.dirname(os.path.dirname(os.path.abspath(__file__)))

def claims():
    import importlib.util
    out = {}
    spec = importlib.util.spec_from_file_location("mk", os.path.join(ROOT, "tools", "mkmanifest.py")); mk = importlib.util.module_from_spec(spec); spec.loader.exec_module(mk)
    out.update(mk.CLAIMED)
    d = os.path.join(ROOT, "tools", "claims")
    for f in sorted(os.listdir(d)):
        if f.endswith(".json"):
            out[f[:-5]] = json.load(open(os.path.join(d, f)))
    return out

def sec_props():
    cl = claims(); kf = json.load(open(os.path.join(ROOT, "known_findings.json")))["findings"]
    L = []
    for pid in sorted(cl):
        c = cl[pid]
        thm = 0
        for f in os.listdir(os.path.join(ROOT, "lean", "SqiProps")):
            if f.startswith(pid) and f.endswith(".lean"):
                thm += len(re.findall(r"^\s*theorem\s", open(os.path.join(ROOT, "lean", "SqiProps", f)).read(), re.M))
        opens = [e for e in kf if e["property"] == pid and e["status"] == "open"]
        fixed = [e for e in kf if e["property"] == pid and e["status"] == "fixed"]
        L.append("#### %s  (%d property theorems; detail: `notes/%s.md`)\n" % (pid, thm, pid))
        L.append("*Decided by theorem / tie.* " + c["text"].strip() + "\n")
        L.append("*Partial / trusted.* " + c["note"].strip() + "\n")
        L.append("*Technique.* " + c.get("technique", "") + "\n")
        if opens:
            L.append("*Open known findings:* " + "; ".join("`%s`" % e["key"] for e in opens) + "\n")
        if fixed:
            L.append("*Repaired:* " + "; ".join("`%s` (%s)" % (e["key"], e.get("commit", "?")) for e in fixed) + "\n")
    return "\n".join(L)

def sec_repo():
    log = subprocess.run(["git", "-C", "/repo", "log", "--format=%h %s", "3005274..HEAD"], stdout=subprocess.PIPE).stdout.decode().strip().split("\n")[::-1]
    L = ["| commit | kind | subject |", "|---|---|---|"]
    for l in log:
        h, s = l.split(" ", 1)
        L.append("| %s | %s | %s |" % (h, "hook" if s.startswith("verif hook") else "fix" if s.startswith("fix:") else "?", s.replace("|", "/")[:230]))
    return "\n".join(L)

def sec_findings():
    kf = json.load(open(os.path.join(ROOT, "known_findings.json")))["findings"]
    L = ["| property | key | what fails |", "|---|---|---|"]
    for e in kf:
        if e["status"] == "open":
            L.append("| %s | `%s` | %s |" % (e["property"], e["key"], e["what"].replace("|", "/")[:400]))
    return "\n".join(L)

def sec_seeded():
    p = os.path.join(ROOT, "seeded", "RESULTS_ALL.json")
    if not os.path.exists(p):
        return "(no results yet)"
    res = json.load(open(p))
    L = ["| seeded change | property | what it needs to manifest | result of `./check` (quick) |", "|---|---|---|---|"]
    for n in sorted(res):
        meta = json.load(open(os.path.join(ROOT, "seeded", n, "meta.json")))
        r = res[n]
        def one(c, x):
            L_ = x["violation_lines"]; nf = sum(1 for v in L_ if "no-failing-input-found" in v)
            if not L_:
                return "%s: not reported (exit %d)" % (c, x["rc"])
            if nf == len(L_):
                return "%s: VIOLATION, no-failing-input-found (%d)" % (c, len(L_))
            return "%s: VIOLATION with concrete replay (%d reported%s)" % (c, len(L_), ", %d of them naming only the broken obligation" % nf if nf else "")
        cell = "; ".join(one(c, x) for c, x in r.items()) if isinstance(r, dict) else str(r)
        L.append("| %s | %s | %s | %s |" % (n, meta.get("property"), str(meta.get("what_it_needs_to_manifest", meta.get("summary", "")))[:260].replace("|", "/").replace("\n", " "), cell))
    return "\n".join(L)

def main():
    p = os.path.join(ROOT, "DESIGN.md"); s = open(p).read()
    for tag, fn in (("props", sec_props), ("repo", sec_repo), ("findings", sec_findings), ("seeded", sec_seeded)):
        a, b = "<!-- GEN:%s -->" % tag, "<!-- /GEN:%s -->" % tag
        if a in s:
            i, j = s.index(a) + len(a), s.index(b)
            s = s[:i] + "\n" + fn() + "\n" + s[j:]
    open(p, "w").write(s)

if __name__ == "__main__":
    main()

#!/usr/bin/env python3
"""Writes /verif/MANIFEST.json from the table below (single source of truth for claims)."""
import json, os
ROOT = os.path.dirname(os.path.dirname(os.path.abspath(__file__)))
GUARD = "SQISIGN_SQISIGN2D_WEST_AC24_VERIF"

# id -> dict(text, note, technique, design_ref) for claimed checks
CLAIMED = {
 "C18": dict(
   text="Proof: every generated table fact (p±1 factorisations, Montgomery constants, digit-width variants, endomorphism-action ring relations and determinants mod 2^f, validity of every row of both strategy tables for its chain length) is a Lean theorem decided by the kernel over tables re-extracted from /repo's C sources on every run; rows are lifted to the inductive notion of valid strategy and to the all-lengths traversal theorem.",
   note="Trusted: Lean kernel (decide +kernel evaluates closed terms with GMP literals), tools/translate/tables.py, the C compiler's reading of the same initialisers. Not covered by a theorem: geometric meaning of action matrices beyond ring relations/determinants (see DESIGN §4 C18).",
   technique="Lean 4 kernel-decided theorems over tables regenerated from source (translator tie)",
   design_ref="§4 C18"),
}
PENDING = "check not built yet in this round; planned as machine-checked proof + correspondence, see DESIGN.md §4"
ALL = ["C%02d" % i for i in range(1, 21)]

def main():
    extra = {}
    p = os.path.join(ROOT, "tools", "manifest_claims.json")
    if os.path.exists(p):
        extra = json.load(open(p))
    claimed = dict(CLAIMED); claimed.update(extra.get("claimed", {}))
    cdir = os.path.join(ROOT, "tools", "claims")      # one JSON per property: {text, note, technique, design_ref[, category]}
    if os.path.isdir(cdir):
        for f in sorted(os.listdir(cdir)):
            if f.endswith(".json"):
                claimed[f[:-5]] = json.load(open(os.path.join(cdir, f)))
    na = extra.get("not_applicable", {})
    hooks_commits = extra.get("hook_commits", [])
    checks = []
    for pid in ALL:
        if pid not in claimed:
            continue
        c = claimed[pid]
        checks.append(dict(property_id=pid, quick_cmd="./check %s --tier quick" % pid,
                           thorough_cmd="./check %s --tier thorough" % pid,
                           evidence_file="/verif/evidence/%s.json" % pid,
                           replay_cmd_template="./check %s --replay {path}" % pid,
                           engine="lean4",
                           level_claimed=dict(category=c.get("category", "proof"), text=c["text"], design_ref=c.get("design_ref", "§4")),
                           level_note=c["note"], technique=c["technique"]))
    m = dict(version=1, setup_cmd="sh tools/setup.sh",
             hooks=dict(guard=GUARD,
                        enable="checks configure /repo with -DCMAKE_C_FLAGS=-D%s (tools/vlib.py build_repo)" % GUARD,
                        baseline_off_cmd="cmake -G Ninja -S /repo -B /repo/_build && cmake --build /repo/_build && ctest --test-dir /repo/_build -j8 --timeout 900",
                        source_commits=hooks_commits, add_only=True),
             engines=[dict(name="lean4", path="/verif/lean", serves_properties=[c["property_id"] for c in checks],
                           kind_free_text="Lean 4.33 + Mathlib models/theorems; translator tools/translate; correspondence harness tools/harness; driver lean_exe")],
             checks=checks,
             not_applicable=[dict(property_id=pid, reason=na.get(pid, PENDING)) for pid in ALL if pid not in claimed],
             notes="See DESIGN.md. Known findings: known_findings.json. Seeded changes: seeded/.")
    json.dump(m, open(os.path.join(ROOT, "MANIFEST.json"), "w"), indent=1)
    print("MANIFEST: %d claimed, %d not_applicable" % (len(checks), len(m["not_applicable"])))

if __name__ == "__main__":
    main()

"""Process hygiene for the a6 checks (C14): every child runs in its own session/process group with a timeout; the whole
group is killed on timeout, on any exception and at interpreter exit, so no `driver` / `drv_*` process survives a check."""
import atexit, os, signal, subprocess

_LIVE = set()


def _killpg(pid):
    try:
        os.killpg(pid, signal.SIGKILL)
    except (ProcessLookupError, PermissionError, OSError):
        pass


def _cleanup():
    for pid in list(_LIVE):
        _killpg(pid)
    _LIVE.clear()


atexit.register(_cleanup)


def run(cmd, inp=b"", timeout=600, env=None):
    """-> (rc, stdout_bytes, stderr_bytes, timed_out)"""
    p = subprocess.Popen(cmd, stdin=subprocess.PIPE, stdout=subprocess.PIPE, stderr=subprocess.PIPE,
                         start_new_session=True, env=env)
    _LIVE.add(p.pid)
    try:
        try:
            out, err = p.communicate(inp, timeout=timeout)
            return p.returncode, out, err, False
        except subprocess.TimeoutExpired:
            _killpg(p.pid)
            out, err = p.communicate()
            return -9, out, err, True
    finally:
        _killpg(p.pid)          # also reaps grandchildren left in the group
        _LIVE.discard(p.pid)


def install(vlib, ctx, c_timeout=600, model_timeout=900):
    """replace vlib.run_c and ctx.driver (for this process only) by group-killing, time-bounded versions"""
    def run_c(cmd, lines, timeout=c_timeout, env=None, tag="R "):
        e = dict(os.environ)
        e.setdefault("ASAN_OPTIONS", "detect_leaks=0:abort_on_error=0")
        e.setdefault("UBSAN_OPTIONS", "print_stacktrace=1")
        if env:
            e.update(env)
        rc, out, err, to = run(cmd, ("\n".join(lines) + "\n").encode(), timeout, e)
        outs = [l[len(tag):] for l in out.decode("utf-8", "replace").split("\n") if l.startswith(tag)]
        msg = err.decode("utf-8", "replace")[-4000:]
        if to:
            msg += "\n<timeout after %ds: process group killed>" % timeout
        return rc, outs, msg

    def driver(lines, timeout=model_timeout):
        exe = os.path.join(vlib.LEAN, ".lake", "build", "bin", "driver")
        rc, out, err, to = run([exe], ("\n".join(lines) + "\n").encode(), timeout)
        if to:
            raise vlib.BuildError("lean driver timed out after %ds (process group killed); last op answered: %d of %d"
                                  % (timeout, out.count(b"\n"), len(lines)))
        if rc != 0:
            raise vlib.BuildError("lean driver failed: " + err.decode("utf-8", "replace")[-2000:])
        s = out.decode()
        return s.split("\n")[:-1] if s.endswith("\n") else s.split("\n")

    vlib.run_c = run_c
    ctx.driver = driver

"""Independent exact oracle used by the a9 checks (C10, C11, C13): GF(p^2) = GF(p)[i]/(i^2+1) with Python
integers, Montgomery curves y^2 = x^3 + a x^2 + x in affine (x, y) coordinates with the textbook chord/tangent
law, x-only doubling, and a few helpers. Nothing here calls the library."""

INF = None


class Fp2:
    def __init__(self, p):
        self.p = p
        assert p % 4 == 3

    # elements are pairs (re, im) of ints in [0, p)
    def el(self, re, im=0):
        return (re % self.p, im % self.p)

    def add(self, a, b):
        return ((a[0] + b[0]) % self.p, (a[1] + b[1]) % self.p)

    def sub(self, a, b):
        return ((a[0] - b[0]) % self.p, (a[1] - b[1]) % self.p)

    def neg(self, a):
        return ((-a[0]) % self.p, (-a[1]) % self.p)

    def mul(self, a, b):
        p = self.p
        return ((a[0] * b[0] - a[1] * b[1]) % p, (a[0] * b[1] + a[1] * b[0]) % p)

    def sqr(self, a):
        return self.mul(a, a)

    def smul(self, k, a):
        return ((k * a[0]) % self.p, (k * a[1]) % self.p)

    def norm(self, a):
        return (a[0] * a[0] + a[1] * a[1]) % self.p

    def inv(self, a):
        n = self.norm(a)
        if n == 0:
            raise ZeroDivisionError("Fp2 inverse of 0")
        t = pow(n, -1, self.p)
        return ((a[0] * t) % self.p, (-a[1] * t) % self.p)

    def div(self, a, b):
        return self.mul(a, self.inv(b))

    def is_zero(self, a):
        return a[0] % self.p == 0 and a[1] % self.p == 0

    def is_square(self, a):
        """mathematical squareness (0 is a square)"""
        n = self.norm(a)
        return n == 0 or pow(n, (self.p - 1) // 2, self.p) == 1

    def pow(self, a, e):
        r = (1, 0)
        b = a
        while e:
            if e & 1:
                r = self.mul(r, b)
            b = self.mul(b, b)
            e >>= 1
        return r

    def fp_sqrt(self, n):
        r = pow(n, (self.p + 1) // 4, self.p)
        return r if (r * r) % self.p == n % self.p else None

    def sqrt(self, a):
        """some square root of a, or None"""
        p = self.p
        if self.is_zero(a):
            return (0, 0)
        if a[1] == 0:
            r = self.fp_sqrt(a[0])
            if r is not None:
                return (r, 0)
            r = self.fp_sqrt((-a[0]) % p)
            return (0, r)
        d = self.fp_sqrt(self.norm(a))
        if d is None:
            return None
        inv2 = (p + 1) // 2
        for s in (d, (-d) % p):
            y0sq = ((a[0] + s) * inv2) % p
            y0 = self.fp_sqrt(y0sq)
            if y0 is not None and y0 != 0:
                y1 = (a[1] * pow(2 * y0, p - 2, p)) % p
                r = (y0, y1)
                if self.sqr(r) == (a[0] % p, a[1] % p):
                    return r
        return None


class Mont:
    """Montgomery curve y^2 = x^3 + a x^2 + x over Fp2, affine points (x, y) or INF"""

    def __init__(self, F, a):
        self.F, self.a = F, a
        self.a24 = F.mul(F.add(a, (2, 0)), F.inv((4, 0)))

    def rhs(self, x):
        F = self.F
        return F.mul(x, F.add(F.mul(x, F.add(x, self.a)), (1, 0)))

    def lift(self, x):
        """a point with the given x-coordinate, or None if x is not the abscissa of a rational point"""
        y = self.F.sqrt(self.rhs(x))
        return None if y is None else (x, y)

    def on_curve(self, P):
        return P is INF or self.F.sqr(P[1]) == self.rhs(P[0])

    def neg(self, P):
        return INF if P is INF else (P[0], self.F.neg(P[1]))

    def add(self, P, Q):
        F = self.F
        if P is INF:
            return Q
        if Q is INF:
            return P
        if P[0] == Q[0]:
            if F.is_zero(F.add(P[1], Q[1])):
                return INF
            # doubling: lambda = (3x^2 + 2ax + 1) / 2y
            x = P[0]
            num = F.add(F.add(F.smul(3, F.sqr(x)), F.smul(2, F.mul(self.a, x))), (1, 0))
            lam = F.div(num, F.smul(2, P[1]))
        else:
            lam = F.div(F.sub(Q[1], P[1]), F.sub(Q[0], P[0]))
        x3 = F.sub(F.sub(F.sub(F.sqr(lam), self.a), P[0]), Q[0])
        y3 = F.sub(F.mul(lam, F.sub(P[0], x3)), P[1])
        return (x3, y3)

    def sub(self, P, Q):
        return self.add(P, self.neg(Q))

    def mul(self, k, P):
        if k < 0:
            return self.mul(-k, self.neg(P))
        R = INF
        B = P
        while k:
            if k & 1:
                R = self.add(R, B)
            B = self.add(B, B)
            k >>= 1
        return R

    def lin2(self, a, P, c, Q, PQ=None):
        """a*P + c*Q by simultaneous double-and-add (Shamir); PQ = P + Q may be passed in"""
        if PQ is None:
            PQ = self.add(P, Q)
        R = INF
        for i in range(max(a.bit_length(), c.bit_length()) - 1, -1, -1):
            R = self.add(R, R)
            ba, bc = (a >> i) & 1, (c >> i) & 1
            if ba and bc:
                R = self.add(R, PQ)
            elif ba:
                R = self.add(R, P)
            elif bc:
                R = self.add(R, Q)
        return R

    # x-only projective doubling (X:Z); returns (X, Z)
    def xdbl(self, XZ):
        F = self.F
        X, Z = XZ
        s = F.sqr(F.add(X, Z))
        d = F.sqr(F.sub(X, Z))
        c = F.sub(s, d)                       # 4XZ
        X2 = F.mul(s, d)
        Z2 = F.mul(c, F.add(d, F.mul(self.a24, c)))
        return (X2, Z2)

    def xdbl_iter(self, x, n):
        XZ = (x, (1, 0))
        for _ in range(n):
            XZ = self.xdbl(XZ)
        return XZ

    def x_order_pow2(self, x, maxe):
        """exact e with order(x) = 2^e if e <= maxe, else None. x affine abscissa of a rational point"""
        XZ = (x, (1, 0))
        for e in range(1, maxe + 1):
            XZ = self.xdbl(XZ)
            if self.F.is_zero(XZ[1]):
                return e
        return None

    def jinv(self):
        F = self.F
        a2 = F.sqr(self.a)
        num = F.smul(256, F.pow(F.sub(a2, (3, 0)), 3))
        den = F.sub(a2, (4, 0))
        return F.div(num, den)


def hx(s):
    return int(s, 16)
